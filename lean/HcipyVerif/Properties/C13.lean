import HcipyVerif.Lemmas.ZernikeIndex
import HcipyVerif.Lemmas.ZernikeIndexReal
import HcipyVerif.Lemmas.ZernikeTables
import HcipyVerif.Lemmas.ZernikeTrig
import HcipyVerif.Lemmas.ZernikeIntegral
import HcipyVerif.Lemmas.ZernikeRadialGen
import HcipyVerif.Lemmas.ZernikeRadialReal
import HcipyVerif.Lemmas.ZernikeArr
import HcipyVerif.Lemmas.ZernikeUnit
import HcipyVerif.Lemmas.ZernikePolyId
import HcipyVerif.Lemmas.ZernikeGrid
import Mathlib.Data.Rat.BigOperators

/-!
# C13 — Zernike modes match their definition for every index and every point

Model: `HcipyVerif/Model/Zernike.lean` (the code of `hcipy/mode_basis/zernike.py` after the pending
fixes D9 and D10; the unrepaired behaviour is kept as `radialEvalOld`, `memoModeSeparatedOld`).

* Index maps (unbounded in the index): `noll_valid`, `noll_left_inverse`, `noll_right_inverse`,
  `noll_injective`, `zernikeToNoll_closed_form`, `zernikeToNoll_none_iff`, ordering
  `noll_order_block/_n/_absm/_sign`; the same for ANSI.  The float square roots of the code: `noll_order_float_robust/_safe`,
  `ansi_order_float_robust/_safe`, `tonoll_window_start_float_robust` (the model's integer decision is the floor of every
  real within an explicit margin of the code's expression).
* Values, **every radial order**, every rational point: `radial_matches_definition`, `reduced_matches_definition`,
  `radial_at_zero`, `mode_at_centre`, `radial_poly_eval`, `radial_at_zero_pos`; every real point: `azimuthal_all_real`,
  `cisPow_all_real`, `zernikeR_eq_model_all_real`, `mode_cartesian_all_real`, `inside_cartesian_all_real`; table bounded by the
  property (`n ≤ 20`): `radial_table`, `radial_orthonormal`, `radial_matches_definition_table`; `normalisation_unit`,
  `mode_cartesian_eq_polar`, `inside_cartesian_eq_polar`.
* Orthonormality as integrals (Mathlib interval integrals): `pint01_is_integral`,
  `pint01_is_weighted_integral`, `radial_orthonormal_integral`, `azimuthal_cos_cos/_sin_sin/_cos_sin`,
  `azimuthal_orthonormal`, `zernikeR_eq_model`, `zernike_orthonormal_disc`, `zernike_orthonormal_noll`; stated on the
  executed definitions: `azimuthal_orthonormal_model`, `radial_orthonormal_integral_model`, `zernike_orthonormal_disc_model`.
* Cache (every request history): per point `cache_irrelevant`, `cache_irrelevant_after_any_history`,
  `cache_irrelevant_order`; at array level with references and in-place writes (`Model/ZernikeArr.lean`)
  `acache_irrelevant`, `acache_entries_stay_fresh`, `acache_irrelevant_after_any_history`, `acache_irrelevant_order`, layouts
  `separated_layout`, `separated_length`, `unstructured_layout`.
* `make_zernike_basis`: `basis_mode_index`, `basis_length`, `basis_modes_distinct`, `basis_columns`, `basis_cache_irrelevant`,
  `basis_column_index`; Field generators on several grids: `generators_any_grid`, `generators_shared_same_grid`.
* `Old.*`: refutations of code that is no longer in /repo (D9, D10, D130, late binding) — documentation, not evidence.
-/

set_option linter.unusedSimpArgs false
set_option linter.unusedVariables false

namespace HcipyVerif.C13
open HcipyVerif.Zernike Finset

/-! ## Noll index map: bijection `{i ≥ 1} ↔ {valid (n, m)}` -/

/-- `noll_to_zernike` yields a valid pair for every Noll index. -/
theorem noll_valid (i : Nat) (hi : 1 ≤ i) : valid (nollToZernike i).1 (nollToZernike i).2 = true := by
  obtain ⟨a, b⟩ := noll_valid_aux i hi
  rw [valid_iff]
  unfold nollToZernike
  simp only
  split <;> simp only [Int.natAbs_neg, Int.natAbs_natCast] <;> exact ⟨a, b⟩

theorem noll_injective (i i' : Nat) (hi : 1 ≤ i) (hi' : 1 ≤ i') (h : nollToZernike i = nollToZernike i') :
    i = i' := nollToZernike_injective hi hi' h

/-- `zernike_to_noll ∘ noll_to_zernike = id`: the brute-force search of the code finds exactly `i`. -/
theorem noll_left_inverse (i : Nat) (hi : 1 ≤ i) :
    zernikeToNoll (nollToZernike i).1 (nollToZernike i).2 = some i := by
  obtain ⟨hb1, hb2⟩ := nollN_block i hi
  have hw := zernikeToNoll_window (nollToZernike i).1
  unfold zernikeToNoll
  rw [hw.1, hw.2]
  have hn : (nollToZernike i).1 = nollN i := rfl
  obtain ⟨i', hs, hle⟩ := searchNoll_finds (n := (nollToZernike i).1) (m := (nollToZernike i).2)
    (j := tri (nollToZernike i).1 + 1) (cnt := tri (nollToZernike i).1 + (nollToZernike i).1 + 2) (i := i) rfl
    (by rw [hn]; exact hb1) (by rw [hn]; omega)
  obtain ⟨hz, hj, _⟩ := searchNoll_some hs
  have : i' = i := nollToZernike_injective (by omega) hi hz
  rw [hs, this]

/-- closed form of `zernike_to_noll` on valid pairs -/
theorem zernikeToNoll_closed_form (n : Nat) (m : Int) (hv : valid n m = true) :
    zernikeToNoll n m = some (nollIndex n m) := by
  obtain ⟨h1, hz⟩ := nollToZernike_nollIndex hv
  have := noll_left_inverse (nollIndex n m) h1
  rw [hz] at this
  exact this

/-- `noll_to_zernike ∘ zernike_to_noll = id` on valid pairs (in particular the search never fails there). -/
theorem noll_right_inverse (n : Nat) (m : Int) (hv : valid n m = true) :
    ∃ i, 1 ≤ i ∧ zernikeToNoll n m = some i ∧ nollToZernike i = (n, m) :=
  ⟨nollIndex n m, (nollToZernike_nollIndex hv).1, zernikeToNoll_closed_form n m hv, (nollToZernike_nollIndex hv).2⟩

/-- the search fails (the code raises) exactly on the invalid pairs -/
theorem zernikeToNoll_none_iff (n : Nat) (m : Int) : zernikeToNoll n m = none ↔ valid n m = false := by
  constructor
  · intro h
    cases hv : valid n m with
    | false => rfl
    | true => rw [zernikeToNoll_closed_form n m hv] at h; cases h
  · intro h
    cases hs : zernikeToNoll n m with
    | none => rfl
    | some i =>
      unfold zernikeToNoll at hs
      obtain ⟨hz, hj, _⟩ := searchNoll_some hs
      have := noll_valid i (by omega)
      rw [hz, h] at this
      cases this

/-! ### documented ordering of the Noll indices -/

/-- order `n` occupies exactly the indices `n(n+1)/2 < i ≤ (n+1)(n+2)/2` -/
theorem noll_order_block (n i : Nat) (hi : 1 ≤ i) :
    (nollToZernike i).1 = n ↔ n * (n + 1) / 2 + 1 ≤ i ∧ i ≤ n * (n + 1) / 2 + n + 1 := by
  constructor
  · intro h; subst h; exact nollN_block i hi
  · intro ⟨a, b⟩; exact nollN_eq_of_block a b

/-- the radial order is non-decreasing in the Noll index -/
theorem noll_order_n (i i' : Nat) (hi : 1 ≤ i) (h : i ≤ i') : (nollToZernike i).1 ≤ (nollToZernike i').1 := by
  obtain ⟨a, b⟩ := nollN_block i hi
  obtain ⟨a', b'⟩ := nollN_block i' (by omega)
  show nollN i ≤ nollN i'
  by_contra hc
  have := tri_mono (show nollN i' + 1 ≤ nollN i by omega)
  rw [tri_succ] at this
  omega

/-- within one radial order `|m|` is non-decreasing in the Noll index -/
theorem noll_order_absm (i i' : Nat) (hi : 1 ≤ i) (h : i ≤ i') (hn : (nollToZernike i).1 = (nollToZernike i').1) :
    (nollToZernike i).2.natAbs ≤ (nollToZernike i').2.natAbs := by
  obtain ⟨n, T, hn1, htri, hT, h1, h2⟩ := noll_facts i hi
  obtain ⟨n', T', hn1', htri', hT', h1', h2'⟩ := noll_facts i' (by omega)
  have : n = n' := by rw [← hn1, ← hn1']; exact hn
  subst this
  have : T = T' := by omega
  subst this
  have e : ∀ k, (nollToZernike k).2.natAbs = nollAbsM k := by
    intro k; unfold nollToZernike; simp only; split <;> simp
  rw [e, e, nollAbsM_eq i n T hn1 hT h1 h2, nollAbsM_eq i' n T hn1' hT h1' h2']
  split <;> omega

/-- even Noll index ↔ cosine mode (`m > 0`), odd Noll index ↔ sine mode (`m < 0`) -/
theorem noll_order_sign (i : Nat) :
    (0 < (nollToZernike i).2 → i % 2 = 0) ∧ ((nollToZernike i).2 < 0 → i % 2 = 1) ∧
    (i % 2 = 0 → 0 ≤ (nollToZernike i).2) ∧ (i % 2 = 1 → (nollToZernike i).2 ≤ 0) := by
  unfold nollToZernike
  simp only
  split <;> omega

/-! ## ANSI index map: bijection `{i ≥ 0} ↔ {valid (n, m)}` -/

theorem ansi_valid (i : Nat) : valid (ansiToZernike i).1 (ansiToZernike i).2 = true := by
  obtain ⟨n, T, hn, _, hT, h1, h2, hm⟩ := ansi_facts i
  rw [valid_iff, hn, hm]
  omega

/-- `zernike_to_ansi ∘ ansi_to_zernike = id` -/
theorem ansi_left_inverse (i : Nat) : zernikeToAnsi (ansiToZernike i).1 (ansiToZernike i).2 = i := by
  obtain ⟨n, T, hn, _, hT, h1, h2, hm⟩ := ansi_facts i
  rw [hn, zernikeToAnsi_eq n T _ hT (i - T) (by rw [hm]; omega)]
  omega

/-- `ansi_to_zernike ∘ zernike_to_ansi = id` on valid pairs -/
theorem ansi_right_inverse (n : Nat) (m : Int) (hv : valid n m = true) :
    ∃ i : Nat, zernikeToAnsi n m = i ∧ ansiToZernike i = (n, m) := by
  obtain ⟨hv1, hv2⟩ := valid_iff.mp hv
  have hT := (two_tri n).symm
  obtain ⟨j, hj⟩ : ∃ j : Nat, m = 2 * (j : Int) - n := ⟨((m + n) / 2).toNat, by omega⟩
  have hjn : j ≤ n := by omega
  refine ⟨tri n + j, by rw [zernikeToAnsi_eq n (tri n) m hT j hj]; push_cast; ring, ?_⟩
  have hn := ansiN_eq_of_block (i := tri n + j) (n := n) (by omega) (by omega)
  obtain ⟨n', T, hn', htri, _, _, _, hm⟩ := ansi_facts (tri n + j)
  have : n' = n := by rw [← hn', hn]
  subst this
  subst htri
  apply Prod.ext
  · exact hn
  · show (ansiToZernike (tri n' + j)).2 = m
    rw [hm, hj]; push_cast; ring

theorem ansi_injective (i i' : Nat) (h : ansiToZernike i = ansiToZernike i') : i = i' := by
  have a := ansi_left_inverse i
  have b := ansi_left_inverse i'
  rw [h] at a
  omega

/-- order `n` occupies exactly the ANSI indices `n(n+1)/2 ≤ i ≤ n(n+1)/2 + n` -/
theorem ansi_order_block (n i : Nat) :
    (ansiToZernike i).1 = n ↔ n * (n + 1) / 2 ≤ i ∧ i ≤ n * (n + 1) / 2 + n := by
  constructor
  · intro h; subst h; exact ansi_block i
  · intro ⟨a, b⟩; exact ansiN_eq_of_block a b

theorem ansi_order_n (i i' : Nat) (h : i ≤ i') : (ansiToZernike i).1 ≤ (ansiToZernike i').1 := by
  obtain ⟨a, b⟩ := ansi_block i
  obtain ⟨a', b'⟩ := ansi_block i'
  by_contra hc
  have := tri_mono (show (ansiToZernike i').1 + 1 ≤ (ansiToZernike i).1 by omega)
  rw [tri_succ] at this
  omega

/-- within one radial order `m` increases in steps of two with the ANSI index -/
theorem ansi_order_m (i i' : Nat) (hn : (ansiToZernike i).1 = (ansiToZernike i').1) :
    (ansiToZernike i').2 - (ansiToZernike i).2 = 2 * ((i' : Int) - i) := by
  obtain ⟨n, T, hn1, htri, hT, h1, h2, hm⟩ := ansi_facts i
  obtain ⟨n', T', hn1', htri', hT', h1', h2', hm'⟩ := ansi_facts i'
  have : n = n' := by rw [← hn1, ← hn1']; exact hn
  subst this
  have : T = T' := by omega
  subst this
  rw [hm, hm']; ring


/-! ## The float square roots of the index maps

The code computes `n = int(sqrt(2*i - 1) + 0.5) - 1` (Noll) and `n = int((sqrt(8*i + 1) - 1) / 2)` (ANSI) in double
precision; the model decides with exact integer arithmetic (`roundSqrt`, `Nat.sqrt`).  The theorems below say that the
model's integer is the floor of the *real* value of the code's expression **and of every real number within an explicit
margin of it** — so a floating-point evaluation whose error stays below the margin takes the same decision.  The
`_float_safe` forms instantiate the margin for a relative error of `2⁻⁵²` (two correctly rounded operations); what remains
assumed is only that `math.sqrt`, `+`, `-`, `/` are correctly rounded (IEEE 754), no longer "the compared range". -/

/-- Noll: every real `y` within `1/(8·round(√k)+4)` of `√k + ½` (`k = 2i-1`) floors to the model's `roundSqrt k` -/
theorem noll_order_float_robust (i : Nat) (hi : 1 ≤ i) (y : ℝ)
    (hy : |y - (√((2 * i - 1 : ℕ) : ℝ) + 1 / 2)| < 1 / (8 * (roundSqrt (2 * i - 1) : ℝ) + 4)) :
    ⌊y⌋₊ - 1 = (nollToZernike i).1 := by
  show ⌊y⌋₊ - 1 = nollN i
  unfold nollN
  rw [roundSqrt_floor_robust (2 * i - 1) (by omega) y hy]

/-- Noll, double precision: for every index `i` with `2i-1 < 2⁴⁸` (`i ≤ 1.4·10¹⁴`) and every `y` with relative error at most
`2⁻⁵²` from `√(2i-1) + ½`, `int(y) - 1` is the radial order of the model -/
theorem noll_order_float_safe (i : Nat) (hi : 1 ≤ i) (hb : 2 * i - 1 < 2 ^ 48) (y : ℝ)
    (hy : |y - (√((2 * i - 1 : ℕ) : ℝ) + 1 / 2)| ≤ (√((2 * i - 1 : ℕ) : ℝ) + 1 / 2) / 2 ^ 52) :
    ⌊y⌋₊ - 1 = (nollToZernike i).1 := nollN_float_safe i hi hb y hy

/-- ANSI: every real `y` within `1/(2n+3)` of `(√(8i+1) - 1)/2` floors to the model's `n` — provided `y` is exact when
`8i+1` is a perfect square (the first index of every row; `sqrt` of a perfect square, `- 1` and `/ 2` are exact in binary
floating point), where the real value is itself an integer and there is no margin below -/
theorem ansi_order_float_robust (i : Nat) (y : ℝ)
    (hexact : ∀ t : ℕ, t * t = 8 * i + 1 → y = ((t : ℝ) - 1) / 2)
    (hy : |y - (√((8 * i + 1 : ℕ) : ℝ) - 1) / 2| < 1 / (2 * ((ansiToZernike i).1 : ℝ) + 3)) :
    ⌊y⌋₊ = (ansiToZernike i).1 := ansi_floor_robust i y hexact hy

/-- ANSI, double precision: `8i+1 < 2⁵⁰` (`i ≤ 1.4·10¹⁴`), error at most `√(8i+1)·2⁻⁵²` -/
theorem ansi_order_float_safe (i : Nat) (hb : 8 * i + 1 < 2 ^ 50) (y : ℝ)
    (hexact : ∀ t : ℕ, t * t = 8 * i + 1 → y = ((t : ℝ) - 1) / 2)
    (hy : |y - (√((8 * i + 1 : ℕ) : ℝ) - 1) / 2| ≤ √((8 * i + 1 : ℕ) : ℝ) / 2 ^ 52) :
    ⌊y⌋₊ = (ansiToZernike i).1 := ansiN_float_safe i hb y hexact hy

/-- `zernike_to_noll` starts its search at `int(((n + 0.5)**2 + 1) / 2) + 1`: the real value is `n(n+1)/2 + 5/8`, so for every
`y` within `3/8` of it the search of the code (same window length) is the model's `zernikeToNoll`, whose start is the first Noll
index `n(n+1)/2 + 1` of row `n` -/
theorem tonoll_window_start_float_robust (n : Nat) (m : Int) (y : ℝ)
    (hy : |y - (((n : ℝ) + 1 / 2) ^ 2 + 1) / 2| < 3 / 8) :
    searchNoll n m (⌊y⌋₊ + 1) ((n + 1) * (n + 2) / 2 + 1) = zernikeToNoll n m := by
  have key : ⌊y⌋₊ = n * (n + 1) / 2 := by
    have ht := two_tri n
    have hT : n * (n + 1) / 2 = tri n := rfl
    rw [hT]
    have htr : 2 * (tri n : ℝ) = (n : ℝ) * (n + 1) := by exact_mod_cast ht
    obtain ⟨h1, h2⟩ := abs_lt.mp hy
    have hy0 : 0 ≤ y := by nlinarith [sq_nonneg ((n : ℝ) + 1 / 2)]
    rw [Nat.floor_eq_iff hy0]
    constructor <;> nlinarith
  rw [key]
  rfl

/-- the hypotheses are satisfiable: the exact values themselves (`i = 3`: `√5 + ½`; `√25 = 5`, `y = 2`) -/
example : |(√((2 * 3 - 1 : ℕ) : ℝ) + 1 / 2) - (√((2 * 3 - 1 : ℕ) : ℝ) + 1 / 2)| ≤ (√((2 * 3 - 1 : ℕ) : ℝ) + 1 / 2) / 2 ^ 52 := by
  rw [sub_self, abs_zero]; positivity
example : ∃ y : ℝ, (∀ t : ℕ, t * t = 8 * 3 + 1 → y = ((t : ℝ) - 1) / 2) ∧
    |y - (√((8 * 3 + 1 : ℕ) : ℝ) - 1) / 2| ≤ √((8 * 3 + 1 : ℕ) : ℝ) / 2 ^ 52 := by
  have h5 : √((8 * 3 + 1 : ℕ) : ℝ) = 5 := by
    rw [show ((8 * 3 + 1 : ℕ) : ℝ) = 5 ^ 2 by norm_num]; exact Real.sqrt_sq (by norm_num)
  refine ⟨2, ?_, ?_⟩
  · intro t ht
    have : t = 5 := by nlinarith
    subst this; norm_num
  · rw [h5]; norm_num

/-! ## Radial polynomial: the q-recursion equals the factorial definition -/

/-- For every order (unbounded) and every point, the symbolic recursion `radialPoly` evaluates to what
the code computes pointwise (`radialEval`): it suffices to compare polynomials. -/
theorem radial_poly_eval (n m : Nat) (r : Rat) : peval (radialPoly n m) r = radialEval n m r :=
  peval_radialPoly n m r

/-- Table bounded by the property (`n ≤ 20`, 121 pairs `(n, |m|)`): recursion = definition, as
polynomials with exact rational coefficients. -/
theorem radial_table :
    ((pairs 20).all fun (n, m) => radialPoly n m == radialDef n m) = true := by decide +kernel

theorem radial_poly_eq_def_table (n m : Nat) (hn : n ≤ 20) (hm : m ≤ n) (hpar : (n - m) % 2 = 0) :
    radialPoly n m = radialDef n m := by
  have h := radial_table
  rw [List.all_eq_true] at h
  have := h (n, m) ((mem_pairs 20 n m).mpr ⟨hn, hm, hpar⟩)
  simpa using this

/-- **The polynomial identity, every radial order** (no table, no bound): the coefficient list the q-recursion of the code produces
(`radialPoly`, driver op `C13 poly`, compared with the real recursion run on a symbolic argument) *is* the coefficient list of the factorial
definition (`radialDef`, driver op `C13 defpoly`) — equality of lists of exact rationals, not only of values.  Proof
(`Lemmas/ZernikePolyId.lean`): both lists have length `n + 1`, they agree at every rational point by induction along the recursion, and a
polynomial over `ℚ` is determined by its values. `radial_table` / `radial_poly_eq_def_table` remain as an independent kernel evaluation for `n ≤ 20`. -/
theorem radial_poly_eq_def (n m : Nat) (hm : m ≤ n) (hpar : (n - m) % 2 = 0) : radialPoly n m = radialDef n m :=
  radialPoly_eq_radialDef n m hm hpar

/-- both coefficient lists have exactly `n + 1` entries (degree `n`, no trailing padding) -/
theorem radial_poly_length (n m : Nat) (hm : m ≤ n) (hpar : (n - m) % 2 = 0) :
    (radialPoly n m).length = n + 1 ∧ (radialDef n m).length = n + 1 :=
  ⟨length_radialPoly n m hm hpar, length_radialDef n m⟩

/-- **Every radial order** (no table, no bound): `zernike_radial(n, m, r)` equals
`Σ_k (-1)^k (n-k)! / (k! ((n+m)/2-k)! ((n-m)/2-k)!) r^(n-2k)` for every valid `(n, m)` and **every** rational `r`, the
centre `r = 0` included.  Proved by induction along the q-recursion (`Lemmas/ZernikeRadialGen.lean`): the factorial
coefficients satisfy the three-term recurrence with the code's `h1, h2, h3`, a rational-function identity. -/
theorem radial_matches_definition (n m : Nat) (hm : m ≤ n) (hpar : (n - m) % 2 = 0) (r : Rat) :
    radialEval n m r = ∑ k ∈ range ((n - m) / 2 + 1),
      ((-1) ^ k * ((n - k).factorial : Rat) /
        ((k.factorial : Rat) * (((n + m) / 2 - k).factorial : Rat) * (((n - m) / 2 - k).factorial : Rat))) *
          r ^ (n - 2 * k) := radialEval_eq_sum n m hm hpar r

/-- the reduced polynomial `S_n^{n-2k}(t) = R_n^{n-2k}(r)/r^{n-2k}`, `t = r²`, which the repaired code evaluates and caches
under `('rad_reduced', n, n-2k)`: factorial form, every order, every rational `t` -/
theorem reduced_matches_definition (n k : Nat) (hk : 2 * k ≤ n) (t : Rat) :
    reducedEval n t k = ∑ j ∈ range (k + 1),
      ((-1 : Rat) ^ j * ((n - j).factorial : Rat) /
        ((j.factorial : Rat) * ((n - k - j).factorial : Rat) * ((k - j).factorial : Rat))) * t ^ (k - j) :=
  reducedEval_eq_sum n k hk t

/-- independent cross-check of the induction on the range the property names (`n ≤ 20`): the coefficient lists agree
(`radial_table`), hence the values -/
theorem radial_matches_definition_table (n m : Nat) (hn : n ≤ 20) (hm : m ≤ n) (hpar : (n - m) % 2 = 0) (r : Rat) :
    radialEval n m r = peval (radialDef n m) r := by
  rw [← peval_radialPoly, radial_poly_eq_def_table n m hn hm hpar]

/-- at the centre every mode with `m ≠ 0` vanishes — for every radial order -/
theorem radial_at_zero_pos (n m : Nat) (hm : 0 < m) : radialEval n m 0 = 0 := by
  unfold radialEval
  rw [zero_pow (by omega), zero_mul]

theorem radial_at_zero_table :
    ((List.range 11).all fun j => radialEval (2 * j) 0 0 == (-1 : Rat) ^ j) = true := by decide +kernel

/-- **Value at the exact centre, every radial order** (no table, no bound): `0` for `m > 0`, `(-1)^(n/2)` for `m = 0` — what
the repaired code returns; the unrepaired code returns NaN for `n - m ≥ 4`, see `Old.radial_nan_at_centre`.  From the
factorial form of the reduced polynomial at `t = 0` (`reducedEval_zero`); `radial_at_zero_table` is an independent
evaluation for `n ≤ 20`. -/
theorem radial_at_zero (n m : Nat) (hm : m ≤ n) (hpar : (n - m) % 2 = 0) :
    radialEval n m 0 = if m = 0 then (-1 : Rat) ^ (n / 2) else 0 := by
  by_cases h0 : m = 0
  · subst h0
    rw [if_pos rfl]
    obtain ⟨k, rfl⟩ : ∃ k, n = 2 * k := ⟨n / 2, by omega⟩
    unfold radialEval
    have e : (2 * k - 0) / 2 = k := by omega
    have e' : 2 * k / 2 = k := by omega
    rw [e, e', pow_zero, one_mul, mul_zero, reducedEval_zero]
  · rw [if_neg h0]; exact radial_at_zero_pos n m (by omega)

/-- the complete mode at the centre of the aperture, whatever the direction `(c, s)` reported there — every order -/
theorem mode_at_centre (n : Nat) (m : Int) (D c s : Rat) (hv : valid n m = true) :
    modeQ n m D 0 c s = if m = 0 then (-1 : Rat) ^ (n / 2) else 0 := by
  obtain ⟨hv1, hv2⟩ := valid_iff.mp hv
  unfold modeQ
  have e : (2 : Rat) * 0 / D = 0 := by simp
  rw [e, radial_at_zero n m.natAbs hv1 hv2]
  by_cases h0 : m = 0
  · subst h0; simp [azimQ]
  · have : m.natAbs ≠ 0 := by omega
    simp [h0, this]

/-! ## The unit circle and the rim of the aperture (`r = D/2` exactly)

`R_n^m(1) = 1` for **every** order, from the recursion the code runs (`h1 + h2 + h3 = 1`, `Lemmas/ZernikeUnit.lean`), hence the
value of every uncut mode on the rim is its azimuthal factor alone; and the cut-off mask `(2 r) < D` is strict: the aperture
is the **open** disc, a grid point exactly on the rim is outside. -/

/-- the cached reduced polynomial `S_n^{n-2k}` at `t = 1`, every order -/
theorem reduced_at_one (n k : Nat) (hk : 2 * k ≤ n) : reducedEval n 1 k = 1 := reducedEval_one n k hk

/-- **`zernike_radial(n, m, 1) = 1` for every valid `(n, m)`** (no table, no bound) -/
theorem radial_at_one (n m : Nat) (hm : m ≤ n) (hpar : (n - m) % 2 = 0) : radialEval n m 1 = 1 :=
  radialEval_one n m hm hpar

/-- the coefficient list the recursion produces sums to one -/
theorem radial_poly_at_one (n m : Nat) (hm : m ≤ n) (hpar : (n - m) % 2 = 0) : peval (radialPoly n m) 1 = 1 := by
  rw [radial_poly_eval, radial_at_one n m hm hpar]

/-- … hence so do the factorial coefficients of the definition (the classical identity
`Σ_k (-1)^k (n-k)! / (k! ((n+m)/2-k)! ((n-m)/2-k)!) = 1`), obtained here *from the code's recursion* through
`radial_matches_definition` -/
theorem radial_definition_at_one (n m : Nat) (hm : m ≤ n) (hpar : (n - m) % 2 = 0) :
    radialEval n m 1 = 1 ∧
    ∑ k ∈ range ((n - m) / 2 + 1),
      ((-1) ^ k * ((n - k).factorial : Rat) /
        ((k.factorial : Rat) * (((n + m) / 2 - k).factorial : Rat) * (((n - m) / 2 - k).factorial : Rat))) = 1 := by
  refine ⟨radial_at_one n m hm hpar, ?_⟩
  have h := radial_matches_definition n m hm hpar 1
  rw [radial_at_one n m hm hpar] at h
  simp only [one_pow, mul_one] at h
  exact h.symm

/-- **The uncut mode on the rim** `r = D/2` (any diameter `D ≠ 0`, any direction): the radial factor is one, the value is
the azimuthal factor (times the normalisation, kept outside `modeQ`) -/
theorem mode_on_rim (n : Nat) (m : Int) (hv : valid n m = true) (D c s : Rat) (hD : D ≠ 0) :
    modeQ n m D (D / 2) c s = azimQ m c s := by
  obtain ⟨hv1, hv2⟩ := valid_iff.mp hv
  unfold modeQ
  have e : 2 * (D / 2) / D = 1 := by field_simp
  rw [e, radial_at_one n m.natAbs hv1 hv2, one_mul]

/-- the mask of the code is `(2 r) < D` … -/
theorem inside_iff (D r : Rat) : inside D r = true ↔ 2 * r < D := by
  unfold inside; exact decide_eq_true_iff

/-- … so a point exactly on the rim is **outside** (open disc), whatever `D` … -/
theorem rim_is_outside (D : Rat) : inside D (D / 2) = false := by
  unfold inside
  rw [decide_eq_false_iff_not]
  have : 2 * (D / 2) = D := by ring
  rw [this]; exact _root_.lt_irrefl D

/-- … every mode with `radial_cutoff=True` is exactly `0` there, … -/
theorem mode_cut_on_rim (n : Nat) (m : Int) (D c s : Rat) : modeQCut n m D (D / 2) c s true = 0 := by
  unfold modeQCut
  rw [rim_is_outside]; rfl

/-- … and with `radial_cutoff=False` it is the azimuthal factor. -/
theorem mode_uncut_on_rim (n : Nat) (m : Int) (hv : valid n m = true) (D c s : Rat) (hD : D ≠ 0) :
    modeQCut n m D (D / 2) c s false = azimQ m c s := by
  unfold modeQCut
  simp only [Bool.false_and, Bool.false_eq_true, if_false]
  exact mode_on_rim n m hv D c s hD

/-- the cut-off mode in closed form: zero exactly on `D ≤ 2r` (rim included), the plain mode on `2r < D` -/
theorem mode_cut_closed_form (n : Nat) (m : Int) (D r c s : Rat) (cutoff : Bool) :
    modeQCut n m D r c s cutoff = if cutoff = true ∧ D ≤ 2 * r then 0 else modeQ n m D r c s := by
  unfold modeQCut inside
  cases cutoff
  · simp
  · by_cases h : 2 * r < D
    · simp [h]
    · simp [h, not_lt.mp h]

/-- Cartesian points exactly on the rim (`4(x² + y²) = D²`, e.g. `(3, 4)·D/10`): outside for the exact decision the driver
uses for Cartesian grids, the cut mode is `0`, and the uncut mode is the azimuthal factor at the direction `(2x/D, 2y/D)`. -/
theorem rim_cartesian (n : Nat) (m : Int) (hv : valid n m = true) (D x y : Rat) (hD : D ≠ 0)
    (hrim : 4 * (x * x + y * y) = D * D) :
    insideXY D x y = false ∧ modeQXYCut n m D x y true = 0 ∧
      modeQXYCut n m D x y false = azimQ m (2 * x / D) (2 * y / D) := by
  obtain ⟨hv1, hv2⟩ := valid_iff.mp hv
  have hin : insideXY D x y = false := by
    unfold insideXY
    rw [decide_eq_false_iff_not, hrim]; exact _root_.lt_irrefl _
  refine ⟨hin, ?_, ?_⟩
  · unfold modeQXYCut; rw [hin]; rfl
  · unfold modeQXYCut modeQXY azimQ
    simp only [Bool.false_and, Bool.false_eq_true, if_false]
    have e : 2 * x / D * (2 * x / D) + 2 * y / D * (2 * y / D) = 1 := by
      field_simp
      linarith
    rw [e, reduced_at_one n _ (by omega), one_mul]

/-- over `ℝ`: the polynomial produced by the recursion takes the value one at one (used with `zernikeR_eq_model_all_real`:
on the unit circle the real mode is `√(n+1)·√2^{[m≠0]}·azimQ m (cos θ) (sin θ)`) -/
theorem radial_real_at_one (n m : Nat) (hm : m ≤ n) (hpar : (n - m) % 2 = 0) : pevalR (radialPoly n m) 1 = 1 := by
  have h := pevalR_cast (radialPoly n m) 1
  rw [radial_poly_at_one n m hm hpar] at h
  simpa using h

/-- The unrepaired recurrence (division by `r²`) computes the same value away from the centre … -/
theorem Old.radial_agrees_off_centre (n k : Nat) (r : Rat) (hr : r ≠ 0) (hk : 2 * k ≤ n) :
    radialEvalOld n r k = some (radialEval n (n - 2 * k) r) := by
  rw [radialEvalOld_eq n r hr k hk]
  unfold radialEval
  have : (n - (n - 2 * k)) / 2 = k := by omega
  rw [this]

/-- … and is NaN at the centre for every mode with `n - |m| ≥ 4` (defect D9). -/
theorem Old.radial_nan_at_centre (n k : Nat) : radialEvalOld n 0 (k + 2) = none :=
  radialEvalOld_centre n k

theorem Old.radial_counterexample : radialEvalOld 4 0 2 = none ∧ radialEval 4 0 0 = 1 := by decide +kernel

/-! ## Orthonormality and normalisation -/

/-- `∫₀¹ R_n^m(r) R_{n'}^m(r) r dr = δ_{nn'} / (2(n+1))`, computed exactly on the coefficients of the
product polynomial (`pmul` is the polynomial product: `peval_pmul`; `pshift 1` multiplies by `r`;
`pint01` integrates term by term), for all valid pairs with `n, n' ≤ 20`. -/
theorem radial_orthonormal (n n' m : Nat) (hn : n ≤ 20) (hn' : n' ≤ 20) (hm : m ≤ n) (hm' : m ≤ n')
    (hpar : (n - m) % 2 = 0) (hpar' : (n' - m) % 2 = 0) :
    pint01 (pshift 1 (pmul (radialPoly n m) (radialPoly n' m))) = if n = n' then 1 / (2 * ((n : Rat) + 1)) else 0 := by
  have h := orthoOK_all n m n' hn hm hpar hn'
  unfold orthoOK at h
  simpa [hm', hpar'] using h

/-- `pmul`/`pshift` really are product and multiplication by `r` under evaluation -/
theorem radial_product_eval (n n' m : Nat) (r : Rat) :
    peval (pshift 1 (pmul (radialPoly n m) (radialPoly n' m))) r = r * (radialEval n m r * radialEval n' m r) := by
  rw [peval_pshift, peval_pmul, peval_radialPoly, peval_radialPoly]; ring

/-- With the radial integral `1/(2(n+1))` and the azimuthal mean `(1/π)∫₀^{2π} a(θ)² dθ` of
`a = 1` (`m = 0`: 2) or `cos mθ`, `sin mθ` (`m ≠ 0`: 1), the squared normalisation
`(n+1)·(2 if m ≠ 0)` makes the mode have unit mean square over the unit disc.  (The azimuthal
integrals are classical and not part of the code; they are an assumption of this statement.) -/
theorem normalisation_unit (n : Nat) (m : Int) :
    normSq n m * (1 / (2 * ((n : Rat) + 1))) * (if m = 0 then 2 else 1) = 1 := by
  unfold normSq
  have : ((n : Rat) + 1) ≠ 0 := by positivity
  split <;> field_simp

/-! ## Polar and Cartesian grids see the same mode -/

/-- Bridge for a device of the *harness*, not for a code path: `zernike()` always converts the grid to polar coordinates
(`hypot`, `arctan2`).  To evaluate the model exactly at Cartesian points with rational coordinates the driver uses
`modeQXY` (no square root, no arctangent); this theorem says that it is the polar formula `modeQ` — the model of the
code — at `(x, y) = (r c, r s)`. -/
theorem mode_cartesian_eq_polar (n : Nat) (m : Int) (D r c s : Rat) (hcs : c ^ 2 + s ^ 2 = 1) :
    modeQXY n m D (r * c) (r * s) = modeQ n m D r c s := modeQXY_polar n m D r c s hcs

/-- **Cartesian grid points, real polar coordinates.** `zernike()` converts a Cartesian grid with `hypot` / `arctan2`; the
radius of a grid point with rational coordinates is in general irrational, so `mode_cartesian_eq_polar` (rational `r, c, s`)
does not reach it.  This does: for every rational point `(x, y)` and **every real** `r, θ` with `(x, y) = (r cos θ, r sin θ)`, the
value the driver computes for that point (`modeQXY`, exact rational arithmetic) is the polar formula of the code — recursion
polynomial at `2r/D` times the azimuthal factor at `θ` (`azimQ` at `ℝ`, i.e. `cos mθ` / `sin|m|θ` / `1` by `azimuthal_all_real`). -/
theorem mode_cartesian_all_real (n : Nat) (m : Int) (D x y : Rat) (r θ : ℝ)
    (hx : (x : ℝ) = r * Real.cos θ) (hy : (y : ℝ) = r * Real.sin θ) :
    ((modeQXY n m D x y : Rat) : ℝ) =
      pevalR (radialPoly n m.natAbs) (2 * r / (D : ℝ)) * azimQ m (Real.cos θ) (Real.sin θ) :=
  modeQXY_real n m D x y r θ hx hy

/-- … and the exact rim decision of the driver is `2r < D` for that real radius -/
theorem inside_cartesian_all_real (D x y : Rat) (r θ : ℝ) (hx : (x : ℝ) = r * Real.cos θ) (hy : (y : ℝ) = r * Real.sin θ)
    (hr : 0 ≤ r) (hD : 0 < D) : insideXY D x y = true ↔ 2 * r < (D : ℝ) := by
  unfold insideXY
  rw [decide_eq_true_iff]
  have hDr : (0 : ℝ) < D := by exact_mod_cast hD
  have e : ((4 * (x * x + y * y) : Rat) : ℝ) = (2 * r) * (2 * r) := by
    push_cast; rw [hx, hy]
    have := Real.cos_sq_add_sin_sq θ
    nlinarith
  have e2 : ((D * D : Rat) : ℝ) = (D : ℝ) * D := by push_cast; ring
  rw [← Rat.cast_lt (K := ℝ), e, e2]
  constructor
  · intro h; by_contra hc; push Not at hc; nlinarith
  · intro h; nlinarith

theorem inside_cartesian_eq_polar (D r c s : Rat) (hcs : c ^ 2 + s ^ 2 = 1) (hr : 0 ≤ r) (hD : 0 < D) :
    insideXY D (r * c) (r * s) = inside D r := by
  unfold insideXY inside
  rw [decide_eq_decide]
  have e : 4 * (r * c * (r * c) + r * s * (r * s)) = (2 * r) * (2 * r) := by
    have : 4 * (r * c * (r * c) + r * s * (r * s)) = (2 * r) * (2 * r) * (c ^ 2 + s ^ 2) := by ring
    rw [this, hcs, mul_one]
  rw [e]
  constructor
  · intro h; by_contra hc; push Not at hc; nlinarith
  · intro h; nlinarith

/-- `(c + i s)^k` has modulus one on the unit circle, and obeys the angle-addition law: the azimuthal factor
is `cos kθ`, `sin kθ` for `(c, s) = (cos θ, sin θ)` -/
theorem azimuthal_unit (c s : Rat) (hcs : c ^ 2 + s ^ 2 = 1) (k : Nat) :
    (cisPow c s k).1 ^ 2 + (cisPow c s k).2 ^ 2 = 1 := by
  rw [cisPow_normSq, hcs, one_pow]

theorem azimuthal_angle_addition (c s : Rat) (j k : Nat) : cisPow c s (j + k) =
    ((cisPow c s j).1 * (cisPow c s k).1 - (cisPow c s j).2 * (cisPow c s k).2,
     (cisPow c s j).1 * (cisPow c s k).2 + (cisPow c s j).2 * (cisPow c s k).1) := cisPow_add c s j k

/-- **The azimuthal clause for every real direction.** `azimQ` is scalar-polymorphic; the driver executes it at
`Rat`. The *same definition* instantiated at `ℝ` is, for every real `θ` and every integer `m`, the code's
`zernike_azimuthal(m, θ)` without its `√2`: `cos(mθ)` (`m > 0`), `sin(|m|θ) = sin(-mθ)` (`m < 0`), `1` (`m = 0`). -/
theorem azimuthal_all_real (m : Int) (θ : ℝ) :
    azimQ m (Real.cos θ) (Real.sin θ) = if m = 0 then 1 else if 0 < m then Real.cos (m * θ) else Real.sin (-m * θ) :=
  azimQ_cos_sin m θ

/-- De Moivre for the executable `cisPow`, every real `θ`, every power -/
theorem cisPow_all_real (θ : ℝ) (k : Nat) :
    cisPow (Real.cos θ) (Real.sin θ) k = (Real.cos (k * θ), Real.sin (k * θ)) := cisPow_cos_sin θ k

/-- what the driver computes at `Rat` is the restriction of the real instance to rational `(c, s)`
(the definition uses only `+`, `-`, `*`, `0`, `1`, which the cast preserves) -/
theorem azimuthal_rat_restricts_real (m : Int) (c s : Rat) : ((azimQ m c s : Rat) : ℝ) = azimQ m (c : ℝ) (s : ℝ) :=
  azimQ_cast m c s

/-- over `ℝ`: for a direction `θ` with rational cosine and sine the model's azimuthal factor is
`cos(mθ)` (`m > 0`), `sin(|m|θ)` (`m < 0`), `1` (`m = 0`) -/
theorem azimuthal_is_cos_sin (m : Int) (c s : Rat) (θ : ℝ) (hc : (c : ℝ) = Real.cos θ) (hs : (s : ℝ) = Real.sin θ) :
    ((azimQ m c s : Rat) : ℝ) = if m = 0 then 1 else if 0 < m then Real.cos (m * θ) else Real.sin (-m * θ) :=
  azimQ_trig m c s θ hc hs

/-- **The value clause of C13.** For every valid `(n, m)` (every order), every rational radius `r`
(the centre included), every diameter and every direction `θ` with rational cosine and sine, the value the
repaired code computes is `√(n+1)·√2^{[m≠0]}` (`normSq`, kept symbolic) times
`R_n^{|m|}(2r/D) · {cos mθ, sin |m|θ, 1}` with `R` given by the factorial formula. -/
theorem mode_matches_definition (n : Nat) (m : Int) (hv : valid n m = true) (D r c s : Rat) (θ : ℝ)
    (hc : (c : ℝ) = Real.cos θ) (hs : (s : ℝ) = Real.sin θ) :
    ((modeQ n m D r c s : Rat) : ℝ) =
      (∑ k ∈ range ((n - m.natAbs) / 2 + 1),
        ((-1) ^ k * ((n - k).factorial : ℝ) /
          ((k.factorial : ℝ) * (((n + m.natAbs) / 2 - k).factorial : ℝ) * (((n - m.natAbs) / 2 - k).factorial : ℝ))) *
            ((2 * r / D : Rat) : ℝ) ^ (n - 2 * k)) *
      (if m = 0 then 1 else if 0 < m then Real.cos (m * θ) else Real.sin (-m * θ)) := by
  obtain ⟨hv1, hv2⟩ := valid_iff.mp hv
  unfold modeQ
  rw [Rat.cast_mul, azimQ_trig m c s θ hc hs, radial_matches_definition n m.natAbs hv1 hv2]
  congr 1
  rw [Rat.cast_sum]
  apply Finset.sum_congr rfl
  intro k _
  push_cast
  rfl

/-! ## The optional cache -/

/-- Whatever list of requests (any modes, any order, repeated, with and without cut-off) is evaluated
against one initially empty cache, every result is the plain uncached value. -/
theorem cache_irrelevant (D r cs sn : Rat) (reqs : List Req) :
    runMemo D r cs sn reqs [] = reqs.map fun q => modeQCut q.n q.m D r cs sn q.cutoff :=
  runMemo_spec D r cs sn reqs [] (cacheValid_nil _ _ _)

/-- the answers to `reqs` do not depend on what was requested before -/
theorem cache_irrelevant_after_any_history (D r cs sn : Rat) (before reqs : List Req) :
    runMemo D r cs sn (before ++ reqs) [] = runMemo D r cs sn before [] ++ runMemo D r cs sn reqs [] := by
  rw [cache_irrelevant, cache_irrelevant, cache_irrelevant, List.map_append]

/-- re-ordering the requests re-orders the answers and changes nothing else -/
theorem cache_irrelevant_order (D r cs sn : Rat) (reqs reqs' : List Req) (h : reqs.Perm reqs') :
    (runMemo D r cs sn reqs []).Perm (runMemo D r cs sn reqs' []) := by
  rw [cache_irrelevant, cache_irrelevant]; exact h.map _

/-- The unrepaired separated-polar branch masks the cached radial array in place (defect D10): after
`zernike(3, 1, cutoff=True)` the request `zernike(3, 1, cutoff=False)` returns 0 outside the aperture
instead of `20·√8`. -/
theorem Old.cache_counterexample :
    runMemoSeparatedOld 1 1 1 0 [⟨3, 1, true⟩, ⟨3, 1, false⟩] [] = [0, 0] ∧
    runMemo 1 1 1 0 [⟨3, 1, true⟩, ⟨3, 1, false⟩] [] = [0, 20] := by decide +kernel

/-! ## The optional cache at array level: references, in-place operations (`Model/ZernikeArr.lean`)

The per-point model above cannot express an in-place operation on an array that *is* a cache entry.  In the
array-level model a cache slot holds a reference into a heap of arrays, `z_r *= mask` is a heap write, and the
unrepaired separated-polar branch (`old = true`) is a program of the same language whose counterexample is
`Old.acache_counterexample`.  The theorems below are about `old = false` (the code as it is in /repo); the driver op
`C13 amemo` runs `runA` and the harness compares results, the keys added per request, which slots hold floats,
every stored array, and that no stored array ever changes, with the real `zernike(…, cache=…)` state by state. -/

/-- **Cache clause, array level.** On a separated polar grid (any axes) or an unstructured grid (one direction per
radius), whatever list of requests is evaluated against one initially empty cache, every returned array is the
plain uncached array in the code's layout. -/
theorem acache_irrelevant (D : Rat) (g : AGrid) (hg : g.WF) (reqs : List Req) :
    resultsA false D g reqs = reqs.map (plainA D g) :=
  (runA_spec D g hg reqs {} (AValid.empty _ _)).1

/-- **No cache entry is ever spoiled.** After every request of every history, every cache slot — a float or a
reference shared with whoever else holds it — still reads as exactly the array a fresh evaluation would store under
that key (`plainArr`: `R_n^m(ρ)`, `S_n^m(ρ²)`, `cos mθ`/`sin|m|θ` on the axis the key lives on), and every stored
reference is live. This is the invariant that the in-place masking of D10 breaks. -/
theorem acache_entries_stay_fresh (D : Rat) (g : AGrid) (hg : g.WF) (reqs : List Req) :
    ∀ r ∈ runA false D g reqs {}, ∀ k v, r.2.getC k = some v →
      WfVal r.2.heap v ∧ r.2.heap.read (klen (g.rho D) g.dirs k) v = plainArr (g.rho D) g.dirs k :=
  fun r hr => (runA_spec D g hg reqs {} (AValid.empty _ _)).2 r hr

/-- the answers do not depend on what was requested before, array level -/
theorem acache_irrelevant_after_any_history (D : Rat) (g : AGrid) (hg : g.WF) (before reqs : List Req) :
    resultsA false D g (before ++ reqs) = resultsA false D g before ++ resultsA false D g reqs := by
  rw [acache_irrelevant D g hg, acache_irrelevant D g hg, acache_irrelevant D g hg, List.map_append]

/-- re-ordering the requests re-orders the returned arrays and changes nothing else -/
theorem acache_irrelevant_order (D : Rat) (g : AGrid) (hg : g.WF) (reqs reqs' : List Req) (h : reqs.Perm reqs') :
    (resultsA false D g reqs).Perm (resultsA false D g reqs') := by
  rw [acache_irrelevant D g hg, acache_irrelevant D g hg]; exact h.map _

/-- **Separated-polar layout** (`np.outer(z_theta, z_r).flatten()`, `R` fastest): for any request history against one
cache, the `j`-th returned Field has at flat index `iθ·nr + ir` the value of the mode at `(R[ir], Θ[iθ])`. -/
theorem separated_layout (D : Rat) (R : Arr) (dirs : List (Rat × Rat)) (reqs : List Req) (j iθ ir : Nat)
    (hj : j < reqs.length) (hθ : iθ < dirs.length) (hr : ir < R.length) :
    (resultsA false D (.sep R dirs) reqs)[j]?.bind (·[iθ * R.length + ir]?) =
      some (modeQCut reqs[j].n reqs[j].m D R[ir] dirs[iθ].1 dirs[iθ].2 reqs[j].cutoff) := by
  rw [acache_irrelevant D (.sep R dirs) trivial]
  simp only [List.getElem?_map, List.getElem?_eq_getElem hj, Option.map_some, Option.bind_some, plainA]
  exact flatMap_map_getElem? (fun d r => modeQCut reqs[j].n reqs[j].m D r d.1 d.2 reqs[j].cutoff) dirs R iθ ir hθ hr

/-- … and it has `nθ·nr` entries (also for `m = 0`, where the azimuthal factor is the scalar `1`: D10b) -/
theorem separated_length (D : Rat) (R : Arr) (dirs : List (Rat × Rat)) (reqs : List Req) :
    ∀ z ∈ resultsA false D (.sep R dirs) reqs, z.length = dirs.length * R.length := by
  rw [acache_irrelevant D (.sep R dirs) trivial]
  intro z hz
  obtain ⟨q, _, rfl⟩ := List.mem_map.mp hz
  simp only [plainA, List.length_flatMap, List.length_map, List.map_const', List.sum_replicate, smul_eq_mul]

/-- unstructured layout: point `i` of the Field is the mode at point `i` -/
theorem unstructured_layout (D : Rat) (rs : Arr) (dirs : List (Rat × Rat)) (hl : rs.length = dirs.length) (reqs : List Req)
    (j i : Nat) (hj : j < reqs.length) (hi : i < rs.length) :
    (resultsA false D (.pts rs dirs) reqs)[j]?.bind (·[i]?) =
      some (modeQCut reqs[j].n reqs[j].m D rs[i] (dirs[i]'(hl ▸ hi)).1 (dirs[i]'(hl ▸ hi)).2 reqs[j].cutoff) := by
  rw [acache_irrelevant D (.pts rs dirs) hl]
  simp [List.getElem?_map, List.getElem?_eq_getElem hj, plainA, List.getElem?_zipWith, hi, hl ▸ hi]

/-- The unrepaired separated-polar branch `z_r *= mask` (defect D10) in the same language: the write goes through the
reference that the cache also holds, so after `zernike(3, 1, cutoff=True)` the request `zernike(3, 1, cutoff=False)`
returns 0 outside the aperture instead of `20` (`·√8`) — while the repaired program returns the plain value. -/
theorem Old.acache_counterexample :
    resultsA true 1 (.sep [1] [(1, 0)]) [⟨3, 1, true⟩, ⟨3, 1, false⟩] = [[0], [0]] ∧
    resultsA false 1 (.sep [1] [(1, 0)]) [⟨3, 1, true⟩, ⟨3, 1, false⟩] = [[0], [20]] := by decide +kernel

/-- and the cached radial array itself is spoiled (the invariant of `acache_entries_stay_fresh` fails for `old`) -/
theorem Old.acache_entry_spoiled :
    ((runA true 1 (.sep [1] [(1, 0)]) [⟨3, 1, true⟩] {}).map fun r => (r.2.getC (.rad 3 1)).map (r.2.heap.read 1)) = [some [0]] ∧
    plainArr [2] [(1, 0)] (.rad 3 1) = [20] := by decide +kernel

section Integrals
open intervalIntegral Real

/-! ## Orthonormality over the unit disc as integrals -/

/-- Coefficient integration is the interval integral: for every coefficient list `p` (rational
coefficients, evaluated at real points) `∫₀¹ p(x) dx = pint01 p`. -/
theorem pint01_is_integral (p : Poly) : ∫ x in (0:ℝ)..1, pevalR p x = (pint01 p : ℝ) := integral_pevalR p

/-- the same with the area weight `r`: `∫₀¹ p(r) r dr = pint01 (r·p)` -/
theorem pint01_is_weighted_integral (p : Poly) :
    ∫ r in (0:ℝ)..1, pevalR p r * r = (pint01 (pshift 1 p) : ℝ) := by
  rw [← integral_pevalR]
  congr 1; funext r
  rw [pevalR_pshift]; ring

/-- real evaluation agrees with rational evaluation at rational points -/
theorem pevalR_at_rational (p : Poly) (r : Rat) : pevalR p (r : ℝ) = ((peval p r : Rat) : ℝ) := pevalR_cast p r

/-- for every order the polynomial computed by the recursion is, as a real function of a **real** argument, the factorial
definition (agreement on `ℚ` by induction, continuity, density of `ℚ`) -/
theorem radial_real_matches_definition (n m : Nat) (hm : m ≤ n) (hpar : (n - m) % 2 = 0) (x : ℝ) :
    pevalR (radialPoly n m) x = radialR n m x := pevalR_radialPoly_eq_radialR n m hm hpar x

/-! ### azimuthal orthogonality on `[0, 2π]` (every integer order) -/

/-- the executed `cisPow` at `(cos θ, sin θ)` (what `azimQ` reads for `m > 0`): its real parts are orthogonal on `[0, 2π]`,
squared norm `π` — every pair of positive orders (the mathematics is `integral_cos_mul_cos_pos` in `Lemmas/ZernikeUnit.lean`) -/
theorem azimuthal_cos_cos (a b : ℕ) (ha : 0 < a) (hb : 0 < b) :
    ∫ θ in (0:ℝ)..(2 * π), (cisPow (cos θ) (sin θ) a).1 * (cisPow (cos θ) (sin θ) b).1 = if a = b then π else 0 := by
  simp_rw [cisPow_cos_sin]
  have h := integral_cos_mul_cos_pos (a : ℤ) (b : ℤ) (by omega) (by omega)
  simp only [Int.cast_natCast, Nat.cast_inj] at h
  exact h

/-- … its imaginary parts (what `azimQ` reads for `m < 0`) likewise -/
theorem azimuthal_sin_sin (a b : ℕ) (ha : 0 < a) (hb : 0 < b) :
    ∫ θ in (0:ℝ)..(2 * π), (cisPow (cos θ) (sin θ) a).2 * (cisPow (cos θ) (sin θ) b).2 = if a = b then π else 0 := by
  simp_rw [cisPow_cos_sin]
  have h := integral_sin_mul_sin_pos (a : ℤ) (b : ℤ) (by omega) (by omega)
  simp only [Int.cast_natCast, Nat.cast_inj] at h
  exact h

/-- … and a real part is orthogonal to every imaginary part (cosine modes vs sine modes), all orders -/
theorem azimuthal_cos_sin (a b : ℕ) :
    ∫ θ in (0:ℝ)..(2 * π), (cisPow (cos θ) (sin θ) a).1 * (cisPow (cos θ) (sin θ) b).2 = 0 := by
  simp_rw [cisPow_cos_sin]
  have h := integral_cos_mul_sin_int (a : ℤ) (b : ℤ)
  simp only [Int.cast_natCast] at h
  exact h

/-- the real azimuthal factor is the one of the executable model (times `√2` for `m ≠ 0`) -/
theorem azimR_eq_model (m : ℤ) (c s : Rat) (θ : ℝ) (hc : (c : ℝ) = cos θ) (hs : (s : ℝ) = sin θ) :
    azimR m θ = (if m = 0 then 1 else √2) * ((azimQ m c s : Rat) : ℝ) := by
  rw [azimuthal_is_cos_sin m c s θ hc hs]
  unfold azimR
  split
  · simp
  · split
    · rfl
    · push_cast; rfl

/-- the real mode `zernikeR` is what the executable model computes: `√(n+1)·√2^{[m≠0]}·modeQ` -/
theorem zernikeR_eq_model (n : Nat) (m : ℤ) (hv : valid n m = true) (D r c s : Rat) (θ : ℝ)
    (hc : (c : ℝ) = cos θ) (hs : (s : ℝ) = sin θ) :
    zernikeR n m ((2 * r / D : Rat) : ℝ) θ = √((n : ℝ) + 1) * (if m = 0 then 1 else √2) * ((modeQ n m D r c s : Rat) : ℝ) := by
  obtain ⟨hv1, hv2⟩ := valid_iff.mp hv
  unfold zernikeR modeQ
  rw [azimR_eq_model m c s θ hc hs, ← radial_real_matches_definition n m.natAbs hv1 hv2, pevalR_cast,
    peval_radialPoly]
  push_cast
  ring

/-- `zernike_azimuthal(m, θ)` (`azimR`, with its `√2`) is `√2^{[m≠0]}` times the executable `azimQ` at
`(cos θ, sin θ)` — for **every real** `θ` (no rationality hypothesis) -/
theorem azimR_eq_model_all_real (m : ℤ) (θ : ℝ) :
    azimR m θ = (if m = 0 then 1 else √2) * azimQ m (cos θ) (sin θ) := by
  rw [azimuthal_all_real m θ]
  unfold azimR
  split
  · simp
  · split
    · rfl
    · push_cast; rfl

/-- **The value clause for every real point.** For valid `(n, m)` of every order, every real normalised radius `x = 2r/D`
and every real azimuth `θ`, the definition `zernikeR` (`√(n+1)` · factorial-formula radial polynomial · `√2 cos mθ` /
`√2 sin|m|θ` / `1`) is `√(n+1)·√2^{[m≠0]}` times [the radial polynomial the recursion produces (`radialPoly`, whose
evaluation at rational points is `radialEval`, what the driver runs: `radial_poly_eval`, `pevalR_at_rational`), evaluated
at `x`] times [the executable `azimQ` instantiated at `ℝ`]. -/
theorem zernikeR_eq_model_all_real (n : Nat) (m : ℤ) (hv : valid n m = true) (x θ : ℝ) :
    zernikeR n m x θ = √((n : ℝ) + 1) * (if m = 0 then 1 else √2) *
      (pevalR (radialPoly n m.natAbs) x * azimQ m (cos θ) (sin θ)) := by
  obtain ⟨hv1, hv2⟩ := valid_iff.mp hv
  unfold zernikeR
  rw [azimR_eq_model_all_real m θ, ← radial_real_matches_definition n m.natAbs hv1 hv2]
  ring

/-- **Orthonormality over the unit disc** (polar coordinates, area element `r dθ dr`): for all valid
`(n, m)`, `(n', m')` with `n, n' ≤ 20`,
`∫₀¹ ∫₀^{2π} Z_n^m(r, θ) Z_{n'}^{m'}(r, θ) r dθ dr = π δ_{nn'} δ_{mm'}`. -/
theorem zernike_orthonormal_disc (n n' : Nat) (m m' : ℤ) (hn : n ≤ 20) (hn' : n' ≤ 20)
    (hv : valid n m = true) (hv' : valid n' m' = true) :
    ∫ r in (0:ℝ)..1, ∫ θ in (0:ℝ)..(2 * π), zernikeR n m r θ * zernikeR n' m' r θ * r
      = if n = n' ∧ m = m' then π else 0 := by
  obtain ⟨hv1, hv2⟩ := valid_iff.mp hv
  obtain ⟨hv1', hv2'⟩ := valid_iff.mp hv'
  have inner : ∀ r : ℝ, ∫ θ in (0:ℝ)..(2 * π), zernikeR n m r θ * zernikeR n' m' r θ * r
      = (√((n : ℝ) + 1) * √((n' : ℝ) + 1) * (radialR n m.natAbs r * radialR n' m'.natAbs r * r)) *
          (if m = m' then 2 * π else 0) := by
    intro r
    rw [← integral_azimR_mul m m', ← integral_const_mul]
    congr 1; funext θ
    unfold zernikeR; ring
  simp_rw [inner]
  rw [integral_mul_const, integral_const_mul]
  by_cases hm : m = m'
  · subst hm
    rw [if_pos rfl, integral_radialR_mul n n' m.natAbs hn hn' hv1 hv1' hv2 hv2']
    by_cases hnn : n = n'
    · subst hnn
      rw [if_pos rfl, if_pos ⟨rfl, rfl⟩]
      have hpos : (0:ℝ) ≤ (n : ℝ) + 1 := by positivity
      have hne : ((n : ℝ) + 1) ≠ 0 := by positivity
      rw [Real.mul_self_sqrt hpos]
      field_simp
    · rw [if_neg hnn, if_neg (fun h => hnn h.1)]; ring
  · rw [if_neg hm, if_neg (fun h => hm h.2)]; ring

/-- the same for the first 231 modes in Noll numbering: `⟨Z_j, Z_k⟩ = π δ_{jk}` for `1 ≤ j, k ≤ 231` -/
theorem zernike_orthonormal_noll (j k : Nat) (hj : 1 ≤ j) (hk : 1 ≤ k) (hj' : j ≤ 231) (hk' : k ≤ 231) :
    ∫ r in (0:ℝ)..1, ∫ θ in (0:ℝ)..(2 * π),
        zernikeR (nollToZernike j).1 (nollToZernike j).2 r θ * zernikeR (nollToZernike k).1 (nollToZernike k).2 r θ * r
      = if j = k then π else 0 := by
  have bound : ∀ i, 1 ≤ i → i ≤ 231 → (nollToZernike i).1 ≤ 20 := by
    intro i h1 h2
    have hb := ((noll_order_block (nollToZernike i).1 i h1).mp rfl).1
    by_contra hc
    have hmono := tri_mono (show 21 ≤ (nollToZernike i).1 by omega)
    have h21 : tri 21 = 231 := by decide
    unfold tri at hmono h21
    omega
  rw [zernike_orthonormal_disc _ _ _ _ (bound j hj hj') (bound k hk hk') (noll_valid j hj) (noll_valid k hk)]
  by_cases e : j = k
  · subst e; simp
  · rw [if_neg e, if_neg]
    intro h
    exact e (noll_injective j k hj hk (Prod.ext h.1 h.2))

/-! ### the same three statements about what the driver executes

`radialPoly` (coefficient list of the q-recursion: driver op `C13 poly`, compared with the real recursion run on a symbolic
argument) and `azimQ` (driver op `C13 mode`) are the executed definitions; `pevalR` reads a coefficient list at a real
argument. No specification function (`radialR`, `azimR`, `zernikeR`) occurs in these statements. -/

/-- azimuthal factors of the executable model, `√2^{[m≠0]} · azimQ m (cos θ) (sin θ)`: orthogonal on `[0, 2π]`, squared norm `2π` -/
theorem azimuthal_orthonormal_model (m m' : ℤ) :
    ∫ θ in (0:ℝ)..(2 * π), ((if m = 0 then 1 else √2) * azimQ m (cos θ) (sin θ)) *
        ((if m' = 0 then 1 else √2) * azimQ m' (cos θ) (sin θ)) = if m = m' then 2 * π else 0 := by
  simp_rw [← azimR_eq_model_all_real]
  exact integral_azimR_mul m m'

/-- `∫₀¹ R_n^m(r) R_{n'}^m(r) r dr = δ_{nn'} / (2(n+1))` for the polynomials the recursion produces, `n, n' ≤ 20` -/
theorem radial_orthonormal_integral_model (n n' m : Nat) (hn : n ≤ 20) (hn' : n' ≤ 20) (hm : m ≤ n) (hm' : m ≤ n')
    (hpar : (n - m) % 2 = 0) (hpar' : (n' - m) % 2 = 0) :
    ∫ r in (0:ℝ)..1, pevalR (radialPoly n m) r * pevalR (radialPoly n' m) r * r =
      if n = n' then 1 / (2 * ((n : ℝ) + 1)) else 0 := by
  have h := pint01_is_weighted_integral (pmul (radialPoly n m) (radialPoly n' m))
  rw [radial_orthonormal n n' m hn hn' hm hm' hpar hpar'] at h
  simp_rw [pevalR_pmul] at h
  rw [h]
  split <;> simp

/-- **Orthonormality over the unit disc of the modes as the model computes them**: normalisation × recursion polynomial ×
`azimQ`, for all valid `(n, m)`, `(n', m')` with `n, n' ≤ 20` -/
theorem zernike_orthonormal_disc_model (n n' : Nat) (m m' : ℤ) (hn : n ≤ 20) (hn' : n' ≤ 20)
    (hv : valid n m = true) (hv' : valid n' m' = true) :
    ∫ r in (0:ℝ)..1, ∫ θ in (0:ℝ)..(2 * π),
        (√((n : ℝ) + 1) * (if m = 0 then 1 else √2) * (pevalR (radialPoly n m.natAbs) r * azimQ m (cos θ) (sin θ))) *
        (√((n' : ℝ) + 1) * (if m' = 0 then 1 else √2) * (pevalR (radialPoly n' m'.natAbs) r * azimQ m' (cos θ) (sin θ))) * r
      = if n = n' ∧ m = m' then π else 0 := by
  simp_rw [← zernikeR_eq_model_all_real n m hv, ← zernikeR_eq_model_all_real n' m' hv']
  exact zernike_orthonormal_disc n n' m m' hn hn' hv hv'

end Integrals

/-! ## `make_zernike_basis`: element `j` is mode `starting_mode + j` -/

/-- the `j`-th mode (or Field generator) of the basis is the mode of index `starting_mode + j` -/
theorem basis_mode_index (ansi : Bool) (start num j : Nat) (hj : j < num) :
    (basisModes ansi start num)[j]? =
      some (if ansi then ansiToZernike (start + j) else nollToZernike (start + j)) := by
  unfold basisModes
  simp [hj]

theorem basis_length (ansi : Bool) (start num : Nat) : (basisModes ansi start num).length = num := by
  simp [basisModes]

/-- the modes of a basis are pairwise different (Noll numbering starts at 1) -/
theorem basis_modes_distinct (ansi : Bool) (start num : Nat) (hs : ansi = false → 1 ≤ start) :
    (basisModes ansi start num).Nodup := by
  unfold basisModes
  refine (List.nodup_range).map_on ?_
  intro a _ b _ h
  cases ansi with
  | true => simp only [if_true] at h; have := ansi_injective _ _ h; omega
  | false =>
    have h1 := hs rfl
    simp only [Bool.false_eq_true, if_false] at h
    have := noll_injective _ _ (by omega) (by omega) h
    omega

/-- **Columns of `make_zernike_basis(num, D, grid, starting_mode, ansi, radial_cutoff, use_cache)`**: on a separated polar or
unstructured grid, with the shared cache or without, column `j` is the plain mode of index `starting_mode + j` in the
code's layout (`basisA` runs the list comprehension of the code on the array-level cache model). -/
theorem basis_columns (ansi : Bool) (start num : Nat) (D : Rat) (g : AGrid) (hg : g.WF) (cutoff useCache : Bool) :
    basisA ansi start num D g cutoff useCache =
      (basisModes ansi start num).map fun nm => plainA D g ⟨nm.1, nm.2, cutoff⟩ := by
  unfold basisA basisReqs
  cases useCache
  · simp only [Bool.false_eq_true, if_false, List.map_map]
    apply List.map_congr_left
    intro nm _
    have := acache_irrelevant D g hg [⟨nm.1, nm.2, cutoff⟩]
    simpa [resultsA, runA] using this
  · simp only [if_true]
    rw [acache_irrelevant D g hg, List.map_map]
    rfl

/-- `use_cache` does not change the basis -/
theorem basis_cache_irrelevant (ansi : Bool) (start num : Nat) (D : Rat) (g : AGrid) (hg : g.WF) (cutoff : Bool) :
    basisA ansi start num D g cutoff true = basisA ansi start num D g cutoff false := by
  rw [basis_columns ansi start num D g hg, basis_columns ansi start num D g hg]

/-- column `j` by index -/
theorem basis_column_index (ansi : Bool) (start num : Nat) (D : Rat) (g : AGrid) (hg : g.WF) (cutoff useCache : Bool)
    (j : Nat) (hj : j < num) :
    (basisA ansi start num D g cutoff useCache)[j]? =
      some (plainA D g ⟨(if ansi then ansiToZernike (start + j) else nollToZernike (start + j)).1,
        (if ansi then ansiToZernike (start + j) else nollToZernike (start + j)).2, cutoff⟩) := by
  rw [basis_columns ansi start num D g hg, List.getElem?_map, basis_mode_index ansi start num j hj]
  rfl

section BasisIntegrals
open intervalIntegral Real

/-- the first 231 modes in ANSI numbering (indices `0 … 230`, radial orders `≤ 20`): `⟨Z_j, Z_k⟩ = π δ_{jk}`, stated on the
executed index map -/
theorem zernike_orthonormal_ansi (j k : Nat) (hj : j ≤ 230) (hk : k ≤ 230) :
    ∫ r in (0:ℝ)..1, ∫ θ in (0:ℝ)..(2 * π),
        zernikeR (ansiToZernike j).1 (ansiToZernike j).2 r θ * zernikeR (ansiToZernike k).1 (ansiToZernike k).2 r θ * r
      = if j = k then π else 0 := by
  have bound : ∀ i, i ≤ 230 → (ansiToZernike i).1 ≤ 20 := by
    intro i h2
    have hb := ((ansi_order_block (ansiToZernike i).1 i).mp rfl).1
    by_contra hc
    have hmono := tri_mono (show 21 ≤ (ansiToZernike i).1 by omega)
    have h21 : tri 21 = 231 := by decide
    unfold tri at hmono h21
    omega
  rw [zernike_orthonormal_disc _ _ _ _ (bound j hj) (bound k hk) (ansi_valid j) (ansi_valid k)]
  by_cases e : j = k
  · subst e; simp
  · rw [if_neg e, if_neg]
    intro h
    exact e (ansi_injective j k (Prod.ext h.1 h.2))

/-- **`make_zernike_basis` is an orthonormal family** (both numberings, any `starting_mode`, any number of modes inside the
table of the property: Noll indices `1 … 231`, ANSI indices `0 … 230`): elements `j` and `k` of the executed mode list
`basisModes` — as the model computes them, normalisation `√(n+1)·√2^{[m≠0]}` × recursion polynomial × `azimQ` — have inner
product `π δ_{jk}` over the unit disc (area `π`: unit mean square, zero mean product). -/
theorem basis_orthonormal (ansi : Bool) (start num j k : Nat) (hs : ansi = false → 1 ≤ start)
    (hb : start + num ≤ (if ansi then 231 else 232)) (hj : j < num) (hk : k < num) (a b : Nat × Int)
    (ha : (basisModes ansi start num)[j]? = some a) (hb' : (basisModes ansi start num)[k]? = some b) :
    ∫ r in (0:ℝ)..1, ∫ θ in (0:ℝ)..(2 * π),
        (√((a.1 : ℝ) + 1) * (if a.2 = 0 then 1 else √2) * (pevalR (radialPoly a.1 a.2.natAbs) r * azimQ a.2 (cos θ) (sin θ))) *
        (√((b.1 : ℝ) + 1) * (if b.2 = 0 then 1 else √2) * (pevalR (radialPoly b.1 b.2.natAbs) r * azimQ b.2 (cos θ) (sin θ))) * r
      = if j = k then π else 0 := by
  rw [basis_mode_index ansi start num j hj] at ha
  rw [basis_mode_index ansi start num k hk] at hb'
  cases ansi with
  | true =>
    simp only [if_true, Option.some.injEq] at ha hb' hb
    subst ha; subst hb'
    simp_rw [← zernikeR_eq_model_all_real _ _ (ansi_valid (start + j)), ← zernikeR_eq_model_all_real _ _ (ansi_valid (start + k))]
    rw [zernike_orthonormal_ansi (start + j) (start + k) (by omega) (by omega)]
    by_cases e : j = k
    · rw [if_pos e, if_pos (by omega)]
    · rw [if_neg e, if_neg (by omega)]
  | false =>
    have h1 := hs rfl
    simp only [Bool.false_eq_true, if_false, Option.some.injEq] at ha hb' hb
    subst ha; subst hb'
    simp_rw [← zernikeR_eq_model_all_real _ _ (noll_valid (start + j) (by omega)),
      ← zernikeR_eq_model_all_real _ _ (noll_valid (start + k) (by omega))]
    rw [zernike_orthonormal_noll (start + j) (start + k) (by omega) (by omega) (by omega) (by omega)]
    by_cases e : j = k
    · rw [if_pos e, if_pos (by omega)]
    · rw [if_neg e, if_neg (by omega)]

end BasisIntegrals

/-- **Field generators can be evaluated on any grids in any order** (`grid=None` forms; the code builds them without a
cache): whatever sequence of calls `gens[j](grid_k)` on whatever well-formed grids, every call returns the plain mode on the
grid it was handed. -/
theorem generators_any_grid (D : Rat) : ∀ (calls : List (AGrid × Req)) (st : AState), (∀ c ∈ calls, c.1.WF) →
    runGensA false D calls st = calls.map fun c => plainA D c.1 c.2
  | [], _, _ => rfl
  | (g, q) :: rest, st, h => by
    simp only [runGensA, List.map_cons, Bool.false_eq_true, if_false]
    congr 1
    · have := acache_irrelevant D g (h _ List.mem_cons_self) [q]
      simpa [resultsA, runA] using this
    · exact generators_any_grid D rest _ (fun c hc => h c (List.mem_cons_of_mem _ hc))

/-- generators sharing one cache are still right as long as they are all called on the same grid … -/
theorem generators_shared_same_grid (D : Rat) (g : AGrid) (hg : g.WF) (reqs : List Req) :
    runGensA true D (reqs.map fun q => (g, q)) {} = reqs.map (plainA D g) := by
  rw [← acache_irrelevant D g hg]
  unfold resultsA
  generalize ({} : AState) = st
  induction reqs generalizing st with
  | nil => rfl
  | cons q qs ih => simp only [List.map_cons, runGensA, runA, if_true]; rw [ih]

/-- … but not on a second grid (defect D130, `make_zernike_basis(num, D, grid=None)` with the default `use_cache=True` handed
one dictionary to all generators): the second grid silently gets the values of the first. -/
theorem Old.generators_shared_cache_counterexample :
    runGensA true 1 [(.pts [1/4] [(1, 0)], ⟨1, 1, false⟩), (.pts [1/2] [(1, 0)], ⟨1, 1, false⟩)] {} = [[1/2], [1/2]] ∧
    runGensA false 1 [(.pts [1/4] [(1, 0)], ⟨1, 1, false⟩), (.pts [1/2] [(1, 0)], ⟨1, 1, false⟩)] {} = [[1/2], [1]] := by
  decide +kernel

/-- closures that bind the loop variable late all evaluate the last index (seeded defect class):
already for two modes the first generator is wrong -/
theorem Old.basis_late_binding_counterexample :
    basisModesLateBinding false 1 2 = [(1, 1), (1, 1)] ∧ basisModes false 1 2 = [(0, 0), (1, 1)] := by
  decide +kernel

/-! ## Hypotheses are satisfiable -/

/-! ## Round 6 — scale invariance and the grid as an object with a history

The property is `Z(r/D)`: a common factor of the coordinates and of `D` (any unit of length: 2^-520 … 2^520 in the harness) changes
nothing — stated on the executed definitions `modeQ / modeQCut / modeQXY / modeQXYCut / modesXY / modesPolar` (`C13 mode`).  After the
in-place grid operations (`C13 gop`, `GOp.xy`) the modes are the modes at the *current* points. -/

/-- polar points: `zernike(n, m, k D)` at radius `k r` is `zernike(n, m, D)` at radius `r` (any `k ≠ 0`, any `D`) -/
theorem mode_scale_invariant (n : Nat) (m : Int) (D r c s k : Rat) (hk : k ≠ 0) :
    modeQ n m (k * D) (k * r) c s = modeQ n m D r c s := by
  unfold modeQ
  rw [norm_coord_scale r D k hk]

/-- the aperture mask `(2 r) < D` is invariant under a positive common factor -/
theorem inside_scale_invariant (D r k : Rat) (hk : 0 < k) : inside (k * D) (k * r) = inside D r := by
  unfold inside
  rw [show 2 * (k * r) = k * (2 * r) by ring]
  exact decide_eq_decide.mpr (lt_scale_iff _ _ k hk)

/-- … hence the mode with the cut-off too -/
theorem mode_cut_scale_invariant (n : Nat) (m : Int) (D r c s k : Rat) (hk : 0 < k) (cutoff : Bool) :
    modeQCut n m (k * D) (k * r) c s cutoff = modeQCut n m D r c s cutoff := by
  unfold modeQCut
  rw [inside_scale_invariant D r k hk, mode_scale_invariant n m D r c s k hk.ne']

/-- Cartesian points: the exact rim decision is invariant under any common factor `k ≠ 0` (it only sees squares) … -/
theorem inside_cartesian_scale_invariant (D x y k : Rat) (hk : k ≠ 0) : insideXY (k * D) (k * x) (k * y) = insideXY D x y := by
  unfold insideXY
  rw [show 4 * (k * x * (k * x) + k * y * (k * y)) = (k * k) * (4 * (x * x + y * y)) by ring,
    show k * D * (k * D) = (k * k) * (D * D) by ring]
  exact decide_eq_decide.mpr (lt_scale_iff _ _ (k * k) (mul_self_pos.mpr hk))

/-- … and so is the mode value, with or without the cut-off -/
theorem mode_cartesian_scale_invariant (n : Nat) (m : Int) (D x y k : Rat) (hk : k ≠ 0) (cutoff : Bool) :
    modeQXYCut n m (k * D) (k * x) (k * y) cutoff = modeQXYCut n m D x y cutoff := by
  unfold modeQXYCut modeQXY
  simp only [inside_cartesian_scale_invariant D x y k hk, norm_coord_scale x D k hk, norm_coord_scale y D k hk]

/-- a whole Cartesian grid scaled (`grid.scale(k)`, `GOp.scale k k`) together with `D` -/
theorem grid_scale_invariant (n : Nat) (m : Int) (D k : Rat) (hk : k ≠ 0) (cutoff : Bool) (p : List (Rat × Rat)) :
    modesXY n m (k * D) cutoff ((GOp.scale k k).xy p) = modesXY n m D cutoff p := by
  simp only [modesXY, GOp.xy, List.map_map]
  apply List.map_congr_left
  intro q _
  exact mode_cartesian_scale_invariant n m D q.1 q.2 k hk cutoff

/-- a whole polar grid scaled together with `D` (positive factor) -/
theorem grid_polar_scale_invariant (n : Nat) (m : Int) (D k : Rat) (hk : 0 < k) (cutoff : Bool) (p : List (Rat × Rat × Rat)) :
    ((GOp.scale k k).polar p).map (modesPolar n m (k * D) cutoff) = some (modesPolar n m D cutoff p) := by
  simp only [GOp.polar, if_true, Option.map_some, modesPolar, List.map_map]
  congr 1
  apply List.map_congr_left
  intro q _
  exact mode_cut_scale_invariant n m D q.1 q.2.1 q.2.2 k hk cutoff

/-- `grid.reverse()`: the values come in the reversed order — value `j` belongs to the *current* point `j` -/
theorem grid_reverse_values (n : Nat) (m : Int) (D : Rat) (cutoff : Bool) (p : List (Rat × Rat)) :
    modesXY n m D cutoff (GOp.reverse.xy p) = (modesXY n m D cutoff p).reverse := by
  simp only [modesXY, GOp.xy, List.map_reverse]

theorem grid_polar_reverse_values (n : Nat) (m : Int) (D : Rat) (cutoff : Bool) (p : List (Rat × Rat × Rat)) :
    (GOp.reverse.polar p).map (modesPolar n m D cutoff) = some (modesPolar n m D cutoff p).reverse := by
  simp only [GOp.polar, Option.map_some, modesPolar, List.map_reverse]

/-- no operation changes the number of points, after any history -/
theorem grid_history_length (ops : List GOp) (p : List (Rat × Rat)) : (runOpsXY ops p).length = p.length := by
  unfold runOpsXY
  induction ops generalizing p with
  | nil => rfl
  | cons o ops ih =>
    rw [List.foldl_cons, ih]
    cases o <;> simp [GOp.xy]

/-- after any history the field has one value per current point -/
theorem grid_history_modes_length (ops : List GOp) (n : Nat) (m : Int) (D : Rat) (cutoff : Bool) (p : List (Rat × Rat)) :
    (modesXY n m D cutoff (runOpsXY ops p)).length = p.length := by
  unfold modesXY
  rw [List.length_map, grid_history_length]

/-- a history is evaluated step by step: the modes after `ops ++ [o]` are the modes on `o` applied to the points after `ops`
(no state other than the current points enters) -/
theorem grid_history_step (ops : List GOp) (o : GOp) (p : List (Rat × Rat)) :
    runOpsXY (ops ++ [o]) p = o.xy (runOpsXY ops p) := by
  unfold runOpsXY
  rw [List.foldl_append]; rfl

/-- rotating the grid (`grid.rotate`, exact direction `(c, s)`, `c² + s² = 1`) leaves the rim decision … -/
theorem inside_rotation_invariant (D x y c s : Rat) (hcs : c * c + s * s = 1) :
    insideXY D (c * x - s * y) (s * x + c * y) = insideXY D x y := by
  unfold insideXY
  rw [rot_norm c s x y hcs]

/-- … and every rotationally symmetric mode (`m = 0`: piston, defocus, spherical, …) unchanged, point by point -/
theorem grid_rotation_m0 (n : Nat) (D c s : Rat) (hcs : c * c + s * s = 1) (cutoff : Bool) (p : List (Rat × Rat)) :
    modesXY n 0 D cutoff ((GOp.rotate c s).xy p) = modesXY n 0 D cutoff p := by
  simp only [modesXY, GOp.xy, List.map_map]
  apply List.map_congr_left
  intro q _
  simp only [Function.comp, modeQXYCut, modeQXY, inside_rotation_invariant D q.1 q.2 c s hcs, rot_norm_scaled c s q.1 q.2 D hcs, if_true]

example : ∃ k : Rat, 0 < k ∧ k ≠ 0 ∧ k * 3 = 3 / 2 ^ 52 := ⟨1 / 2 ^ 52, by positivity, by positivity, by ring⟩
example : ∃ c s : Rat, c * c + s * s = 1 ∧ c ≠ 1 := ⟨3 / 5, 4 / 5, by norm_num, by norm_num⟩

example : valid 4 (-2) = true := by decide
example : ∃ D x y : Rat, D ≠ 0 ∧ 4 * (x * x + y * y) = D * D ∧ x ≠ 0 ∧ y ≠ 0 := ⟨10, 3, 4, by norm_num, by norm_num, by norm_num, by norm_num⟩
example : (false = false → 1 ≤ 1) ∧ 1 + 231 ≤ (if false then 231 else 232) ∧ 0 + 231 ≤ (if true then 231 else 232) := by decide
example : (AGrid.pts [0, 1/2] [(1, 0), (3/5, 4/5)]).WF ∧ (AGrid.sep [0, 1/2, 1] [(1, 0)]).WF := ⟨rfl, trivial⟩
example : ∃ c s : Rat, c ^ 2 + s ^ 2 = 1 ∧ c ≠ 0 ∧ s ≠ 0 := ⟨3 / 5, 4 / 5, by norm_num, by norm_num, by norm_num⟩
example : (4 - 0) % 2 = 0 ∧ 0 ≤ 4 ∧ 4 ≤ 20 := by decide
example : valid 20 (-20) = true ∧ (nollToZernike 231).1 = 20 := by decide +kernel
example : ∃ (c s : Rat) (θ : ℝ), (c : ℝ) = Real.cos θ ∧ (s : ℝ) = Real.sin θ := ⟨1, 0, 0, by simp, by simp⟩
example : ∃ (x y : Rat) (r θ : ℝ), (x : ℝ) = r * Real.cos θ ∧ (y : ℝ) = r * Real.sin θ ∧ 0 ≤ r :=
  ⟨1 / 2, 0, 1 / 2, 0, by simp, by simp, by norm_num⟩

end HcipyVerif.C13
