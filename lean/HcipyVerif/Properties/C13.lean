import HcipyVerif.Model.Zernike

namespace HcipyVerif.C13
open HcipyVerif.Zernike

/-- Table bounded by the property (n ≤ 20, 121 pairs): recursion = definition as polynomials. -/
theorem radial_table :
    ((pairs 20).all fun (n, m) => radialPoly n m == radialDef n m) = true := by decide +kernel

end HcipyVerif.C13
