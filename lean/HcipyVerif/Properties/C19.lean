import HcipyVerif.Lemmas.FieldProg
import HcipyVerif.Lemmas.FourierSwitch

/-!
# C19 — results do not depend on the configured Field implementation (model level)

The first half is about the two interpreters of `Model/FieldProg.lean` (`runO`: ndarray-subclass
route, `runN`: wrapper route).  That these interpreters behave like hcipy's `OldStyleField` /
`NewStyleField` on NumPy is *not* proved — NumPy's dispatch machinery is run-time behaviour — it is
checked on every run by the differential test of `harness/props/c19.py` (plain / old / new / mixed
style / both model routes; the driver's `run` op executes `runO`, `runN`, `agree?`, `disagreeAt`).
The second half (section `Fourier`) is about `Model/FourierSwitch.lean`: backend selection of
`hcipy/_math/fft.py:_make_func` and the cache switches of `MatrixFourierTransform` /
`NaiveFourierTransform` (driver ops `select`, `mft`, `nft`).  Emulated shifts have no model here (C01's
index arithmetic covers them); memory order in pickles and views are checked on the real code only.
-/
set_option linter.unusedSimpArgs false
set_option linter.unusedVariables false

namespace HcipyVerif.C19
open HcipyVerif.FieldProg

/-- **Both routes yield the same values** — after every statement (including the same exception
at the same statement) and in the final read-out of every variable, aliases included — for every
program, every grid table, unbounded sizes.  The hypothesis is the *decidable* check `agree?` (run by
the driver for every generated program, reported as `agree=`): no `shaped` node is applied to an object
that the two routes tag differently.  It is `true` for every program without `shaped`
(`backends_same_values_noShaped`); where it is `false` the routes really differ
(`shaped_needs_agreeing_tags`, `agree_detects_0d_shaped`) — the harness generates such programs and
logs them as accepted divergence after checking that the real code diverges exactly as predicted. -/
theorem backends_same_values (gs : Grids) (p : List Stmt) (h : agree? gs p = true) :
    traceData ((runO gs {} p).1, (runO gs {} p).2.map OState.dump) =
    traceData ((runN gs {} p).1, (runN gs {} p).2.map NState.dump) :=
  run_same_values gs p {} {} rel_init (progAgreeB_sound gs p {} {} h)

/-- the hypothesis of `backends_same_values` is satisfied by a program that uses `shaped` -/
example : agree? [(0, some [2, 2])]
    [.assign 0 (.shaped (.field ⟨[4], .real, [⟨1, 0⟩, ⟨2, 0⟩, ⟨3, 0⟩, ⟨4, 0⟩]⟩ 0))] = true := by decide

/-- the check passes for every program that does not use `.shaped` (so `backends_same_values` is
unconditional there; the semantic form of the hypothesis, `ProgAgree`, and the proof that the check implies
it are `FieldProg.progAgreeB_sound` / `FieldProg.run_same_values` in `Lemmas/FieldProg.lean`) -/
theorem agree_of_noShaped (gs : Grids) (p : List Stmt) (h : ∀ st ∈ p, StmtNoShaped st) : agree? gs p = true :=
  progAgreeB_of_noShaped gs p h {} {}

/-- the statement index the driver reports (`A 0 <i>`) is `none` exactly when the check passes -/
theorem agree_iff_no_disagreeing_statement (gs : Grids) (p : List Stmt) :
    disagreeAt gs p = none ↔ agree? gs p = true :=
  progDisagreeAt_none_iff gs p {} {} 0

/-- the check rejects the program on which the routes differ (`shaped` of a full reduction) -/
theorem agree_detects_0d_shaped :
    agree? [(0, some [1])] [Stmt.assign 0 (.shaped (.red .max .all (.field ⟨[1], .real, [⟨3, 0⟩]⟩ 0)))] = false := by
  decide

/-- Unconditional form: every program that does not use `.shaped`. -/
theorem backends_same_values_noShaped (gs : Grids) (p : List Stmt) (h : ∀ st ∈ p, StmtNoShaped st) :
    traceData ((runO gs {} p).1, (runO gs {} p).2.map OState.dump) =
    traceData ((runN gs {} p).1, (runN gs {} p).2.map NState.dump) :=
  backends_same_values gs p (agree_of_noShaped gs p h)

/-- Expression level, any two wrapping policies and any stores that read the same values. -/
theorem expression_same_values (P Q : Policy) (gs : Grids) (lo ln : Nat → Except Err Val)
    (hl : ∀ x, dataOf (lo x) = dataOf (ln x)) (e : Expr) (hs : ShapedAgree P Q gs lo ln e) :
    dataOf (eval P gs lo e) = dataOf (eval Q gs ln e) :=
  eval_same_values P Q gs lo ln hl e hs

/-- The side condition on `shaped` cannot be dropped: `Field([c], g).max().shaped` is a `(1,)`
Field under the subclass route (a full reduction stays a 0-d Field) and an `AttributeError` under
the wrapper route (the reduction returned a scalar). -/
theorem shaped_needs_agreeing_tags :
    let p := [Stmt.assign 0 (.shaped (.red .max .all (.field ⟨[1], .real, [⟨3, 0⟩]⟩ 0)))]
    (runO [(0, some [1])] {} p).1.map obsData = [.ok (0, ⟨[1], .real, [⟨3, 0⟩]⟩)] ∧
    (runN [(0, some [1])] {} p).1.map obsData = [.error .attr] := by
  intro p
  constructor <;> rfl

/-- **Elementwise results keep the grid (subclass route)**: a ufunc with a Field operand returns a
Field on the grid of the leftmost Field operand, whatever the shape.  (A reading of the rule `oldPolicy.ufunc`
encodes — definitional; that NumPy's view-casting + `__array_finalize__` follow this rule is what the driver's
`run` op and the per-route correspondence on tags tie to the running code, and the oracle's node-level check
`grid-lost` / `grid-changed` tests on the real code without the model.) -/
theorem elementwise_keeps_grid_old (ts : List Tag) (a : Arr) (g : Nat) (h : leftGrid ts = some g) :
    oldPolicy.ufunc ts a = .field g := by
  simp [oldPolicy, h]

/-- **Elementwise results keep the grid (wrapper route)**: the same, unless the raw result is 0-d
(NumPy then hands back a scalar, which the wrapper leaves bare).  Definitional in the same sense as
`elementwise_keeps_grid_old`; the evaluated forms are `elementwise_keeps_grid_route_old/_new`. -/
theorem elementwise_keeps_grid_new (ts : List Tag) (a : Arr) (g : Nat) (h : leftGrid ts = some g)
    (hnd : a.shape ≠ []) : newPolicy.ufunc ts a = .field g := by
  have : a.shape.isEmpty = false := by
    cases hs : a.shape with
    | nil => exact absurd hs hnd
    | cons _ _ => rfl
  simp [newPolicy, h, hnd]

/-- **Elementwise results carry the grid of the Field operand (subclass route, evaluated)**: whatever
the operands evaluate to under this route, if one of them is a Field the result is a Field on the grid
of the leftmost one — 0-d results included. -/
theorem elementwise_keeps_grid_route_old (gs : Grids) (lo : Nat → Except Err Val) (op : BinOp) (l r : Expr)
    (vl vr : Val) (g : Nat)
    (hl : eval oldPolicy gs lo l = .ok vl) (hr : eval oldPolicy gs lo r = .ok vr)
    (hg : leftGrid [vl.2, vr.2] = some g) (a : Arr) (hk : Prim.binop op vl.1 vr.1 = .ok a) :
    eval oldPolicy gs lo (.bin op l r) = .ok (a, .field g) := by
  simp [eval, hl, hr, hk, Except.map, elementwise_keeps_grid_old _ _ _ hg]

/-- the same for the wrapper route, unless the raw result is 0-d -/
theorem elementwise_keeps_grid_route_new (gs : Grids) (ln : Nat → Except Err Val) (op : BinOp) (l r : Expr)
    (vl vr : Val) (g : Nat)
    (hl : eval newPolicy gs ln l = .ok vl) (hr : eval newPolicy gs ln r = .ok vr)
    (hg : leftGrid [vl.2, vr.2] = some g) (a : Arr) (hk : Prim.binop op vl.1 vr.1 = .ok a) (hnd : a.shape ≠ []) :
    eval newPolicy gs ln (.bin op l r) = .ok (a, .field g) := by
  simp [eval, hl, hr, hk, Except.map, elementwise_keeps_grid_new _ _ _ hg hnd]

/-- both routes at once; the operands may be *different kinds of object* under the two routes (a 0-d
Field vs a scalar, a bare array vs a Field after `np.where`) — each route attaches the grid of its own
leftmost Field operand -/
theorem elementwise_keeps_grid (gs : Grids) (lo ln : Nat → Except Err Val) (op : BinOp) (l r : Expr)
    (al ar : Arr) (tlo tro tln trn : Tag) (g g' : Nat)
    (hlo : eval oldPolicy gs lo l = .ok (al, tlo)) (hro : eval oldPolicy gs lo r = .ok (ar, tro))
    (hln : eval newPolicy gs ln l = .ok (al, tln)) (hrn : eval newPolicy gs ln r = .ok (ar, trn))
    (hgo : leftGrid [tlo, tro] = some g) (hgn : leftGrid [tln, trn] = some g')
    (a : Arr) (hk : Prim.binop op al ar = .ok a) (hnd : a.shape ≠ []) :
    eval oldPolicy gs lo (.bin op l r) = .ok (a, .field g) ∧
    eval newPolicy gs ln (.bin op l r) = .ok (a, .field g') :=
  ⟨elementwise_keeps_grid_route_old gs lo op l r _ _ g hlo hro hgo a hk,
   elementwise_keeps_grid_route_new gs ln op l r _ _ g' hln hrn hgn a hk hnd⟩

/-- satisfiable: `Field([1, 2], g0) + 1.0` -/
example :
    eval oldPolicy [] (fun _ => .error .unsupported) (.bin .add (.field ⟨[2], .real, [⟨1, 0⟩, ⟨2, 0⟩]⟩ 0) (.scal ⟨1, 0⟩ .real))
      = .ok (⟨[2], .real, [⟨2, 0⟩, ⟨3, 0⟩]⟩, .field 0) ∧
    eval newPolicy [] (fun _ => .error .unsupported) (.bin .add (.field ⟨[2], .real, [⟨1, 0⟩, ⟨2, 0⟩]⟩ 0) (.scal ⟨1, 0⟩ .real))
      = .ok (⟨[2], .real, [⟨2, 0⟩, ⟨3, 0⟩]⟩, .field 0) :=
  elementwise_keeps_grid [] _ _ .add _ _ _ _ (.field 0) .scalar (.field 0) .scalar 0 0 rfl rfl rfl rfl rfl rfl _
    (by decide +kernel) (by decide)

/-- the same for unary ufuncs -/
theorem elementwise_keeps_grid_unary (gs : Grids) (lo ln : Nat → Except Err Val) (u : UnOp) (e : Expr)
    (ae : Arr) (g : Nat)
    (ho : eval oldPolicy gs lo e = .ok (ae, .field g)) (hn : eval newPolicy gs ln e = .ok (ae, .field g))
    (a : Arr) (hk : Prim.unop u ae = .ok a) (hnd : a.shape ≠ []) :
    eval oldPolicy gs lo (.un u e) = .ok (a, .field g) ∧
    eval newPolicy gs ln (.un u e) = .ok (a, .field g) := by
  have hg : leftGrid [Tag.field g] = some g := rfl
  constructor
  · cases u <;> simp [eval, ho, hk, Except.map, unTag, elementwise_keeps_grid_old _ _ _ hg]
  · cases u <;> simp [eval, hn, hk, Except.map, unTag, elementwise_keeps_grid_new _ _ _ hg hnd]

/-- satisfiable: `-Field([1, 2], g0)` -/
example :
    eval oldPolicy [] (fun _ => .error .unsupported) (.un .neg (.field ⟨[2], .real, [⟨1, 0⟩, ⟨2, 0⟩]⟩ 0))
      = .ok (⟨[2], .real, [⟨-1, 0⟩, ⟨-2, 0⟩]⟩, .field 0) :=
  (elementwise_keeps_grid_unary [] _ (fun _ => .error .unsupported) .neg _ _ 0 rfl rfl _ rfl (by decide)).1

/-- **The 0-d divergence, stated**: on a 0-d raw result with a Field operand the subclass route returns
a 0-d *Field on the grid*, the wrapper route a bare *scalar* — for ufuncs and for reductions alike.  This
is the one place where "elementwise results stay attached to the same grid" fails between the styles;
the values are equal (`backends_same_values`).  Accepted divergence (NumPy returns scalars for 0-d
results; the harness counts the occurrences as `tags old/new:f…/s`). -/
theorem zero_dim_divergence (ts : List Tag) (a : Arr) (g : Nat) (h : leftGrid ts = some g) (h0 : a.shape = []) :
    oldPolicy.ufunc ts a = .field g ∧ newPolicy.ufunc ts a = .scalar ∧
    oldPolicy.reduce (.field g) a = .field g ∧ newPolicy.reduce (.field g) a = .scalar := by
  simp [oldPolicy, newPolicy, h, h0]

/-- … and its consequence one operation later: `f.sum() * np.array([1, 2])` is a Field under the
subclass route and a bare ndarray under the wrapper route (same values) -/
theorem zero_dim_divergence_propagates :
    let e := Expr.bin .mul (.red .sum .all (.field ⟨[2], .real, [⟨1, 0⟩, ⟨2, 0⟩]⟩ 0)) (.lit ⟨[2], .real, [⟨1, 0⟩, ⟨2, 0⟩]⟩)
    eval oldPolicy [] (fun _ => .error .unsupported) e = .ok (⟨[2], .real, [⟨3, 0⟩, ⟨6, 0⟩]⟩, .field 0) ∧
    eval newPolicy [] (fun _ => .error .unsupported) e = .ok (⟨[2], .real, [⟨3, 0⟩, ⟨6, 0⟩]⟩, .plain) := by
  decide +kernel

/-- **copy and pickle round trips** (a statement about how the model *defines* the two operations, not a
derivation from the pickling code): under any wrapping policy, `copy(e)` and `pickle.loads(pickle.dumps(e))`
evaluate to exactly what `e` evaluates to — same values, same shape and dtype class, same kind of object,
same grid.  `eval` passes the tag through and restores the array from its `ndarray.__reduce__` state
(`setstate_getstate`); memory order, `_field_reconstruct` and the slicing of the state tuple in
`__setstate__` are not modelled.  What carries the clause "fields survive copy and pickle" for the running
code is the tie: the real `copy` (3 spellings) and `pickle` (protocols 2–5) results of both styles are compared
with this identity at every such node (values, dtype, kind of object, grid, no shared memory: `_roundtrip_check`),
including F-ordered and non-contiguous Fields in the extended programs. -/
theorem copy_pickle_roundtrip (P : Policy) (gs : Grids) (look : Nat → Except Err Val) (e : Expr) :
    eval P gs look (.copy e) = eval P gs look e ∧ eval P gs look (.pickle e) = eval P gs look e := by
  constructor
  · cases h : eval P gs look e <;> simp [eval, h]
  · cases h : eval P gs look e <;> simp [eval, h, Prim.setstate, Prim.getstate]

/-- the ndarray state (shape, dtype class, data) survives `__setstate__(__getstate__())` -/
theorem setstate_getstate (a : Arr) : Prim.setstate (Prim.getstate a) = a := rfl


/-- **Grid rule for every further modelled operation** (reductions with keepdims, cumsum/cumprod,
sort/argsort, argmax/argmin, astype, clip, 1-d matmul, field_dot, field_trace): whenever the first
operand is a Field on grid `g` and the result is not 0-d, both routes return a Field on `g`.
The only class excluded is `func` (`np.where`), see `where_grid_rule`. -/
theorem fnTag_keeps_grid (c : TagClass) (hc : c ≠ .func) (ts : List Tag) (a : Arr) (g : Nat)
    (hnd : a.shape ≠ []) :
    fnTag oldPolicy c (.field g :: ts) a = .field g ∧ fnTag newPolicy c (.field g :: ts) a = .field g := by
  cases c <;> simp_all [fnTag, oldPolicy, newPolicy, leftGrid]

/-- for the many-operand classes (ufuncs such as `clip`, hcipy functions such as `field_dot`) the rule is
"leftmost Field", wherever it stands in the argument list -/
theorem fnTag_keeps_grid_left (c : TagClass) (hc : c = .ufunc ∨ c = .lib) (ts : List Tag) (a : Arr) (g : Nat)
    (h : leftGrid ts = some g) (hnd : a.shape ≠ []) :
    fnTag oldPolicy c ts a = .field g ∧ fnTag newPolicy c ts a = .field g := by
  rcases hc with rfl | rfl <;> simp_all [fnTag, oldPolicy, newPolicy]

example : leftGrid [.plain, .scalar, .field 3] = some 3 := rfl

/-- `np.where(c, a, b)` is the one modelled operation on which the routes attach *different* kinds
of object: NumPy does not preserve the subclass (bare ndarray under the subclass route), while the
wrapper's `__array_function__` wraps the result on the grid of the leftmost Field argument.
The values are the same (`backends_same_values`).  A reading of `Policy.func` (definitional); accepted
divergence of the clause "results stay attached to the same grid": the harness does not apply its grid
check to `np.where` and counts `.shaped` of such a result as `accepted-divergence:shaped-of-p/f` after
checking that the real styles behave exactly as stated here. -/
theorem where_grid_rule (ts : List Tag) (a : Arr) (g : Nat) (h : leftGrid ts = some g) :
    fnTag oldPolicy (Fn3.cls .where_) ts a = .plain ∧ fnTag newPolicy (Fn3.cls .where_) ts a = .field g := by
  simp [fnTag, Fn3.cls, oldPolicy, newPolicy, h]

/-- evaluated form of `fnTag_keeps_grid` for one-argument kernels -/
theorem app1_keeps_grid (gs : Grids) (lo ln : Nat → Except Err Val) (f : Prim.Fn1) (e : Expr)
    (ae : Arr) (g : Nat)
    (ho : eval oldPolicy gs lo e = .ok (ae, .field g)) (hn : eval newPolicy gs ln e = .ok (ae, .field g))
    (a : Arr) (hk : Prim.apply1 f ae = .ok a) (hnd : a.shape ≠ []) :
    eval oldPolicy gs lo (.app1 f e) = .ok (a, .field g) ∧
    eval newPolicy gs ln (.app1 f e) = .ok (a, .field g) := by
  have hc : Fn1.cls f ≠ .func := by cases f <;> simp [Fn1.cls]
  have := fnTag_keeps_grid (Fn1.cls f) hc [] a g hnd
  constructor
  · simp [eval, ho, hk, Except.map, this.1]
  · simp [eval, hn, hk, Except.map, this.2]

/-- satisfiable: `np.cumsum(Field([1, 2], g0))` -/
example :
    eval oldPolicy [] (fun _ => .error .unsupported) (.app1 (.cumsum .last) (.field ⟨[2], .real, [⟨1, 0⟩, ⟨2, 0⟩]⟩ 0))
      = .ok (⟨[2], .real, [⟨1, 0⟩, ⟨3, 0⟩]⟩, .field 0) :=
  (app1_keeps_grid [] _ (fun _ => .error .unsupported) (.cumsum .last) _ _ 0 rfl rfl _ (by decide +kernel) (by decide)).1

/-- **In-place statements write through (subclass route)** — for *every* in-place statement of
the model (`x op= e`, `x[i] = e`, `x[..., m] = e`, `x[i] op= e`, `x[..., m] op= e`,
`np.op(a, b, out=x)`, `x.real = e`, `x.imag = e`, `x.sort()`, `x.fill(e)`): after success, `x` *and
every alias of `x`* read the updated array `Prim.update u old args` (same kind of object, same
grid), and every variable naming another object is unchanged. -/
theorem inplace_writes_through_old (gs : Grids) (so so' : OState) (x : Nat) (u : Prim.Upd) (args : List Expr) (c : Nat)
    (hx : so.vars.lookup x = some c) (hstep : stepO gs so (.update x u args) = .ok so') :
    ∃ xv vs a, so.cells[c]? = some xv ∧ evalArgs oldPolicy gs so.look args = .ok vs ∧
      Prim.update u xv.1 (vs.map Prod.fst) = .ok a ∧
      (∀ h, so.vars.lookup h = some c → so'.look h = .ok (a, xv.2)) ∧
      (∀ y c', so.vars.lookup y = some c' → c' ≠ c → so'.look y = so.look y) := by
  simp only [stepO, hx] at hstep
  cases hc : so.cells[c]? with
  | none => simp [hc] at hstep
  | some xv =>
    simp only [hc] at hstep
    cases he : evalArgs oldPolicy gs so.look args with
    | error err => simp [he] at hstep
    | ok vs =>
      simp only [he] at hstep
      cases hp : Prim.update u xv.1 (vs.map Prod.fst) with
      | error err => simp [hp, Except.map] at hstep
      | ok a =>
        simp only [hp, Except.map, Except.ok.injEq] at hstep
        subst hstep
        have hlt : c < so.cells.length := by
          rcases List.getElem?_eq_some_iff.mp hc with ⟨hlt, _⟩
          exact hlt
        refine ⟨xv, vs, a, rfl, rfl, hp, ?_, ?_⟩
        · intro h hh
          cases hr : Upd.rebinds u with
          | false => simp [OState.look, hh, List.getElem?_set_self hlt]
          | true =>
            simp only [OState.look, if_true, lookup_bind]
            by_cases hhx : h = x
            · simp [hhx, List.getElem?_set_self hlt]
            · simp [hhx, hh, List.getElem?_set_self hlt]
        · intro y c' hy hne
          cases hr : Upd.rebinds u with
          | false => simp [OState.look, hy, List.getElem?_set_ne (Ne.symm hne)]
          | true =>
            simp only [OState.look, if_true, lookup_bind]
            by_cases hyx : y = x
            · subst hyx; rw [hx] at hy; exact absurd (Option.some.inj hy).symm hne
            · simp [hyx, hy, List.getElem?_set_ne (Ne.symm hne)]

/-- Python's `x = y` is the statement `.alias x y`; written as an assignment of the expression `y` it is
outside the model on both routes (it used to be a copy, which no Python program does) -/
theorem assign_of_bare_variable_unsupported (gs : Grids) (so : OState) (sn : NState) (x y : Nat) :
    stepO gs so (.assign x (.var y)) = .error .unsupported ∧ stepN gs sn (.assign x (.var y)) = .error .unsupported :=
  ⟨rfl, rfl⟩

/-- the hypotheses of `inplace_writes_through_old` / `_new` are satisfiable: `x = Field([1, 2], g0); h = x;
x += 1` succeeds on both routes and the alias `h` reads the updated values -/
example :
    let prog : List Stmt := [.assign 0 (.field ⟨[2], .real, [⟨1, 0⟩, ⟨2, 0⟩]⟩ 0), .alias 1 0,
      .update 0 (.iop .add) [.scal ⟨1, 0⟩ .real]]
    ((runO [] {} prog).2.map fun s => s.look 1) = some (.ok (⟨[2], .real, [⟨2, 0⟩, ⟨3, 0⟩]⟩, .field 0)) ∧
    ((runN [] {} prog).2.map fun s => s.look 1) = some (.ok (⟨[2], .real, [⟨2, 0⟩, ⟨3, 0⟩]⟩, .field 0)) := by
  decide +kernel

/-- **In-place statements write through (wrapper route)**: the same for the wrapper store — every
variable whose wrapper shares `x`'s buffer reads the updated array (although `x op= e` binds `x` to
a *new* wrapper), variables on other buffers are unchanged; `x` itself reads the updated array and, if it
was a Field, **still is a Field on its grid** (for `x op= e` the new wrapper takes the grid of the leftmost
Field among `(x, e)`, which is `x`).  That the real wrapper writes into `self.data` on every in-place path
is what the differential run ties (`stepN` does so by definition). -/
theorem inplace_writes_through_new (gs : Grids) (sn sn' : NState) (x : Nat) (u : Prim.Upd) (args : List Expr) (r : Nat × Tag)
    (hx : sn.vars.lookup x = some r) (hstep : stepN gs sn (.update x u args) = .ok sn') :
    ∃ xa vs a, sn.bufs[r.1]? = some xa ∧ evalArgs newPolicy gs sn.look args = .ok vs ∧
      Prim.update u xa (vs.map Prod.fst) = .ok a ∧
      sn'.look x = .ok (a, if Upd.rebinds u then iopTagN r.2 ((vs.map Prod.snd).headD .plain) else r.2) ∧
      (∀ g, r.2 = .field g → sn'.look x = .ok (a, .field g)) ∧
      (∀ h rh, h ≠ x → sn.vars.lookup h = some rh → rh.1 = r.1 → sn'.look h = .ok (a, rh.2)) ∧
      (∀ y ry, sn.vars.lookup y = some ry → ry.1 ≠ r.1 → sn'.look y = sn.look y) := by
  simp only [stepN, hx] at hstep
  cases hc : sn.bufs[r.1]? with
  | none => simp [hc] at hstep
  | some xa =>
    simp only [hc] at hstep
    cases he : evalArgs newPolicy gs sn.look args with
    | error err => simp [he] at hstep
    | ok vs =>
      simp only [he] at hstep
      cases hp : Prim.update u xa (vs.map Prod.fst) with
      | error err => simp [hp, Except.map] at hstep
      | ok a =>
        simp only [hp, Except.map, Except.ok.injEq] at hstep
        subst hstep
        have hlt : r.1 < sn.bufs.length := by
          rcases List.getElem?_eq_some_iff.mp hc with ⟨hlt, _⟩
          exact hlt
        refine ⟨xa, vs, a, rfl, rfl, hp, ?_, ?_, ?_, ?_⟩
        · cases hr : Upd.rebinds u with
          | false => simp [NState.look, hx, List.getElem?_set_self hlt]
          | true => simp [NState.look, lookup_bind, List.getElem?_set_self hlt]
        · intro g hg
          cases hr : Upd.rebinds u with
          | false => simp [NState.look, hx, hg, List.getElem?_set_self hlt]
          | true => simp [NState.look, lookup_bind, hg, iopTagN, leftGrid, List.getElem?_set_self hlt]
        · intro h rh hne hh hb
          cases hr : Upd.rebinds u with
          | false => simp [NState.look, hh, hb, List.getElem?_set_self hlt]
          | true => simp [NState.look, lookup_bind, hne, hh, hb, List.getElem?_set_self hlt]
        · intro y ry hy hne
          cases hr : Upd.rebinds u with
          | false => simp [NState.look, hy, List.getElem?_set_ne (Ne.symm hne)]
          | true =>
            simp only [NState.look, if_true, lookup_bind]
            by_cases hyx : y = x
            · subst hyx; rw [hx] at hy; exact absurd (congrArg Prod.fst (Option.some.inj hy)).symm hne
            · simp [hyx, hy, List.getElem?_set_ne (Ne.symm hne)]

/-- **The stores are view-free: an assigned value is independent (subclass route)** — after `y = e`, no
later in-place statement on another variable `x` reaches `y`.  For `e = x.copy()`, `pickle.loads(pickle.dumps(x))`
and every arithmetic expression this is NumPy's behaviour; for view-producing `e` (`x[..., 0:2]`, `x.reshape(…)`,
`x.real`, `x.shaped`) it is *not*: the model copies where NumPy shares memory.  The harness therefore never lets
the model read such a `y` after an update of `x`; that the real styles treat views alike is checked on the real
code only (oracle key `view-read`), and that real copies / pickles share no memory by `_roundtrip_check`. -/
theorem assigned_value_is_independent_old (gs : Grids) (so s1 s2 : OState) (x y : Nat) (e : Expr) (u : Prim.Upd)
    (args : List Expr) (c : Nat)
    (hxy : y ≠ x) (hx : so.vars.lookup x = some c) (hc : c < so.cells.length)
    (h1 : stepO gs so (.assign y e) = .ok s1)
    (h2 : stepO gs s1 (.update x u args) = .ok s2) : s2.look y = s1.look y := by
  simp only [stepO, evalO] at h1
  cases hiv : e.isVar with
  | true => simp [hiv] at h1
  | false =>
  simp only [hiv, Bool.false_eq_true, if_false] at h1
  cases hv : eval oldPolicy gs so.look e with
  | error err => simp [hv, Except.map] at h1
  | ok v =>
    simp only [hv, Except.map, Except.ok.injEq] at h1
    subst h1
    have hx1 : (bind so.vars y so.cells.length).lookup x = some c := by
      simp [lookup_bind, Ne.symm hxy, hx]
    obtain ⟨_, _, _, _, _, _, _, hother⟩ := inplace_writes_through_old gs _ s2 x u args c hx1 h2
    exact hother y so.cells.length (by simp [lookup_bind]) (by omega)

/-- the same for the wrapper route: `y = e` puts the value into a new buffer -/
theorem assigned_value_is_independent_new (gs : Grids) (sn s1 s2 : NState) (x y : Nat) (e : Expr) (u : Prim.Upd)
    (args : List Expr) (r : Nat × Tag)
    (hxy : y ≠ x) (hx : sn.vars.lookup x = some r) (hr : r.1 < sn.bufs.length)
    (h1 : stepN gs sn (.assign y e) = .ok s1)
    (h2 : stepN gs s1 (.update x u args) = .ok s2) : s2.look y = s1.look y := by
  simp only [stepN, evalN] at h1
  cases hiv : e.isVar with
  | true => simp [hiv] at h1
  | false =>
  simp only [hiv, Bool.false_eq_true, if_false] at h1
  cases hv : eval newPolicy gs sn.look e with
  | error err => simp [hv, Except.map] at h1
  | ok v =>
    simp only [hv, Except.map, Except.ok.injEq] at h1
    subst h1
    have hx1 : (bind sn.vars y (sn.bufs.length, v.2)).lookup x = some r := by
      simp [lookup_bind, Ne.symm hxy, hx]
    obtain ⟨_, _, _, _, _, _, _, _, _, hother⟩ := inplace_writes_through_new gs _ s2 x u args r hx1 h2
    exact hother y (sn.bufs.length, v.2) (by simp [lookup_bind]) (by simp; omega)

/-- satisfiable (both routes): `x = Field([1, 2], g0); y = x.copy(); x += 1` -/
example :
    let prog : List Stmt := [.assign 0 (.field ⟨[2], .real, [⟨1, 0⟩, ⟨2, 0⟩]⟩ 0), .assign 1 (.copy (.var 0)),
      .update 0 (.iop .add) [.scal ⟨1, 0⟩ .real]]
    ((runO [] {} prog).2.map fun s => s.look 1) = some (.ok (⟨[2], .real, [⟨1, 0⟩, ⟨2, 0⟩]⟩, .field 0)) ∧
    ((runN [] {} prog).2.map fun s => s.look 1) = some (.ok (⟨[2], .real, [⟨1, 0⟩, ⟨2, 0⟩]⟩, .field 0)) ∧
    ((runO [] {} prog).2.map fun s => s.look 0) = some (.ok (⟨[2], .real, [⟨2, 0⟩, ⟨3, 0⟩]⟩, .field 0)) ∧
    ((runN [] {} prog).2.map fun s => s.look 0) = some (.ok (⟨[2], .real, [⟨2, 0⟩, ⟨3, 0⟩]⟩, .field 0)) := by
  decide +kernel

/-! ## The Fourier half: backend selection, MFT / NFT switches (`Model/FourierSwitch.lean`)

Tied by the driver ops `select`, `mft`, `nft` (harness: `run_select_tie`, `run_cache_tie`): the real
`_make_func` closures are re-made over recording fake backends, and the attributes of reused real
`MatrixFourierTransform` / `NaiveFourierTransform` objects are read after every call. -/
section Fourier
open HcipyVerif.FourierSwitch HcipyVerif.FourierSwitch.Spec

/-- **Backend selection returns the first working backend** in the order the code tries them
(threads-major: every method with the first number of threads, then every method with the next),
`ValueError` iff none works.  Any list of methods, any availability / failure pattern. -/
theorem select_first_working (cpu : Nat) (avail : Method → Bool) (works : Method → Nat → Bool)
    (methods : List Method) (threads : Option Nat) (big : Bool) :
    select cpu avail works methods threads big =
      match (tryOrder methods (threadAttempts cpu threads big)).find? (fun p => callable avail works p.1 p.2) with
      | some p => .ok p
      | none => .error .value :=
  selectIn_eq_find avail works methods _

/-- what `select_first_working` gives for a successful selection: the backend is in the list, is
importable, did not raise, was called in one of the thread attempts — and it is not `other` -/
theorem select_ok_sound (cpu : Nat) (avail : Method → Bool) (works : Method → Nat → Bool)
    (methods : List Method) (threads : Option Nat) (big : Bool) (m : Method) (t : Nat)
    (h : select cpu avail works methods threads big = .ok (m, t)) :
    m ∈ methods ∧ t ∈ threadAttempts cpu threads big ∧ usable avail m = true ∧ works m t = true ∧ m ≠ .other := by
  rw [select_first_working] at h
  cases hf : (tryOrder methods (threadAttempts cpu threads big)).find? (fun p => callable avail works p.1 p.2) with
  | none => simp [hf] at h
  | some p =>
    simp only [hf, Except.ok.injEq] at h
    subst h
    have hp := List.find?_some hf
    have hm := List.mem_of_find?_eq_some hf
    simp only [tryOrder, List.mem_flatMap, List.mem_map, Prod.mk.injEq] at hm
    obtain ⟨t', ht, m', hm', rfl, rfl⟩ := hm
    simp only [callable, Bool.and_eq_true] at hp
    refine ⟨hm', ht, hp.1, hp.2, ?_⟩
    intro ho; rw [ho] at hp; simp [usable] at hp

example : select 4 (fun _ => false) (fun m t => m == .numpy || t == 1) [.mkl, .scipy, .numpy] none true = .ok (.numpy, 4) := rfl

/-- **Selection is total when `threads` is left at `None`**: the only exception it can raise is the
`ValueError`, and it raises it iff no listed backend works with any attempted number of threads; in
particular one backend that works single-threaded suffices, whatever the size of the input. -/
theorem select_total_when_threads_none (cpu : Nat) (avail : Method → Bool) (works : Method → Nat → Bool)
    (methods : List Method) (big : Bool) :
    (∀ e, select cpu avail works methods none big = .error e ↔
      e = .value ∧ ∀ t ∈ threadAttempts cpu none big, ∀ m ∈ methods, callable avail works m t = false) ∧
    ((∃ m ∈ methods, callable avail works m 1 = true) → ∃ r, select cpu avail works methods none big = .ok r) := by
  refine ⟨fun e => selectIn_error_iff avail works methods _ e, ?_⟩
  rintro ⟨m, hm, hc⟩
  cases hs : select cpu avail works methods none big with
  | ok r => exact ⟨r, rfl⟩
  | error e =>
    have := ((selectIn_error_iff avail works methods _ e).mp hs).2 1 (by cases big <;> simp [threadAttempts]) m hm
    rw [this] at hc; cases hc

/-- with an explicit `threads=t` (after D190): that number of threads only -/
theorem select_explicit_threads (cpu : Nat) (avail : Method → Bool) (works : Method → Nat → Bool)
    (methods : List Method) (t : Nat) (big : Bool) :
    (∃ r, select cpu avail works methods (some t) big = .ok r) ↔ ∃ m ∈ methods, callable avail works m t = true := by
  constructor
  · rintro ⟨⟨m, t'⟩, h⟩
    obtain ⟨hm, ht, hu, hw, _⟩ := select_ok_sound _ _ _ _ _ _ _ _ h
    simp only [threadAttempts, List.mem_singleton] at ht
    subst ht
    exact ⟨m, hm, by simp [callable, hu, hw]⟩
  · rintro ⟨m, hm, hc⟩
    cases hs : select cpu avail works methods (some t) big with
    | ok r => exact ⟨r, rfl⟩
    | error e =>
      have := ((selectIn_error_iff avail works methods _ e).mp hs).2 t (by simp [threadAttempts]) m hm
      rw [this] at hc; cases hc

/-- **/repo before D190**: every call with an explicit `threads=` raises `UnboundLocalError`, whatever
the backends do — although the repaired code succeeds as soon as one listed backend works with that
number of threads (defect D190; `Old` code — documentation, the tie runs `select`). -/
theorem Old.selectOld_explicit_threads_crashes (cpu : Nat) (avail : Method → Bool) (works : Method → Nat → Bool)
    (methods : List Method) (t : Nat) (big : Bool) :
    selectOld cpu avail works methods (some t) big = .error .unbound ∧
    ((∃ m ∈ methods, callable avail works m t = true) →
      ∃ r, select cpu avail works methods (some t) big = .ok r) :=
  ⟨rfl, (select_explicit_threads cpu avail works methods t big).mpr⟩

/-- **The result does not depend on which backend answered**: if every backend computes the same
transform `dft` (for every number of workers) and the input has a standard bit depth (single, double,
integer), then every successful configuration — any method list, any `threads=`, any pattern of missing
or failing backends — returns `dft x` at the native bit depth of the input. -/
theorem select_value_independent {X Y : Type} (k : Method → Option Nat → X → Y) (dft : X → Y)
    (hk : ∀ m w x, m ≠ .other → k m w x = dft x)
    (cpu : Nat) (avail : Method → Bool) (works : Method → Nat → Bool) (methods : List Method)
    (threads : Option Nat) (big : Bool) (d : DtIn) (hd : d.standard = true) (x : X) (r : Prec × Y)
    (h : fftResult k cpu avail works methods threads big d x = .ok r) : r = (nativePrec d, dft x) := by
  unfold fftResult at h
  cases hs : select cpu avail works methods threads big with
  | error e => simp [hs, Except.map] at h
  | ok mt =>
    obtain ⟨m, t⟩ := mt
    simp only [hs, Except.map, Except.ok.injEq] at h
    subst h
    have hne := (select_ok_sound _ _ _ _ _ _ _ _ hs).2.2.2.2
    rw [hk m _ x hne]
    congr 1
    cases m <;> cases d <;> simp_all [outPrec, numpyPrec, nativePrec, DtIn.standard]

example : fftResult (fun _ _ (x : Nat) => x + 1) 4 (fun _ => false) (fun _ _ => true) [.mkl, .numpy] (some 2) false .single 5
    = .ok (.single, 6) := rfl

/-- outside the standard depths the `numpy` branch *does* differ (float16 → complex128 instead of
complex64, longdouble → complex128 instead of complex256): the harness checks that the real code shows
exactly this and records it as an accepted divergence (bit depths hcipy does not use). -/
theorem numpy_depth_divergence :
    outPrec .numpy .half ≠ outPrec .scipy .half ∧ outPrec .numpy .longdouble ≠ outPrec .scipy .longdouble ∧
    ∀ d, d.standard = true → ∀ m, outPrec m d = nativePrec d := by
  refine ⟨by decide, by decide, ?_⟩
  intro d hd m
  cases m <;> cases d <;> simp_all [outPrec, numpyPrec, nativePrec, DtIn.standard]

/-- **MFT switches**: for every call script on one `MatrixFourierTransform` object — any mixture of
forward/backward, of complex64/complex128 inputs — and every setting of `precompute_matrices` and
`allocate_intermediate`, every call returns what a fresh object with both switches off returns.
Proof by the invariant `Keyed` (recorded dtype = dtype the matrices were made for). -/
theorem mft_switch_independent {X M B R : Type} (K : MftKern X M B R) (pre alloc : Bool)
    (script : List (Dir × CPrec × X)) :
    mftRun K pre alloc script = script.map fun s => mftFresh K s.1 s.2.1 s.2.2 :=
  mftRunFrom_spec K pre alloc script {} (keyed_empty K)

/-- the same from any reachable (keyed) cache state, one call; the cache stays keyed -/
theorem mft_call_independent {X M B R : Type} (K : MftKern X M B R) (pre alloc : Bool) (c : MftCache M B)
    (hk : Keyed K c) (d : Dir) (p : CPrec) (x : X) :
    (mftCall K pre alloc c d p x).1 = mftFresh K d p x ∧ Keyed K (mftCall K pre alloc c d p x).2 := by
  obtain ⟨h1, h2⟩ := mftCall_spec K pre alloc c hk d p x
  exact ⟨by rw [h1, mftFresh, (mftCall_spec K false false {} (keyed_empty K) d p x).1], h2⟩

example : Keyed provKern (mftCall provKern true true {} .fwd .c64 (0, .c128)).2 :=
  (mft_call_independent provKern true true {} (keyed_empty _) .fwd .c64 (0, .c128)).2

/-- the same with the invariant as the *check the driver runs after every call* (`k1` in the answer of
`C19 mft`; compared with `M1.dtype == matrices_dtype` read off the real object): from a cache that passes
the check, the call returns what a fresh switch-less object returns, and the cache passes the check again -/
theorem mft_call_independent_checked {X M B R : Type} [BEq M] [LawfulBEq M] (K : MftKern X M B R) (pre alloc : Bool)
    (c : MftCache M B) (hk : keyedB K c = true) (d : Dir) (p : CPrec) (x : X) :
    (mftCall K pre alloc c d p x).1 = mftFresh K d p x ∧ keyedB K (mftCall K pre alloc c d p x).2 = true := by
  obtain ⟨h1, h2⟩ := mft_call_independent K pre alloc c ((keyedB_iff K c).mp hk) d p x
  exact ⟨h1, (keyedB_iff K _).mpr h2⟩

example : keyedB provKern ({} : MftCache CPrec BufProv) = true := rfl

/-- the check is not vacuous: a cache whose recorded dtype does not describe its matrices fails it -/
example : keyedB provKern ({ mats := some (.c64, .c128) } : MftCache CPrec BufProv) = false := rfl

/-- the model *can* fail: with an intermediate that is allocated only when there is none (seeded
defect C19-2), `allocate_intermediate=True` makes the second call of the script complex64 → complex128
read the stale single-precision product of the first call; with the switch off it is correct. -/
theorem mft_bad_cache_counterexample :
    let script : List (Dir × CPrec × (Nat × CPrec)) := [(.fwd, .c64, (0, .c64)), (.fwd, .c128, (1, .c128))]
    (mftRunFrom (mftCallBad provKern false true) {} script).1 ≠ script.map (fun s => mftFresh provKern s.1 s.2.1 s.2.2) ∧
    (mftRunFrom (mftCallBad provKern false false) {} script).1 = script.map (fun s => mftFresh provKern s.1 s.2.1 s.2.2) := by
  decide

/-- **NFT switch**: with `precompute_matrices` on or off, every call of every script returns the
on-the-fly sum cast to the complex dtype of the input — given that the cached matrix applied to a field
*is* that sum (`hd`: the matrix identity, C02's subject; the harness checks it against the defining sum). -/
theorem nft_switch_independent {X A R : Type} (K : NftKern X A R)
    (hd : ∀ d x, K.apply (K.matrix d) x = K.direct d x) (pre : Bool) (script : List (Dir × CPrec × X)) :
    (nftRunFrom K pre {} script).1 = (nftRunFrom K false {} script).1 := by
  rw [nftRunFrom_spec K hd pre script {} (nftKeyed_empty K), nftRunFrom_spec K hd false script {} (nftKeyed_empty K)]

example : ∃ K : NftKern Nat Nat Nat, ∀ d x, K.apply (K.matrix d) x = K.direct d x :=
  ⟨⟨fun _ => 2, fun a x => a * x, fun _ x => 2 * x, fun _ r => r⟩, fun _ _ => rfl⟩

end Fourier

end HcipyVerif.C19
