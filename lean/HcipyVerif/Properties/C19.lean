import HcipyVerif.Lemmas.FieldProg
import HcipyVerif.Lemmas.FourierSwitch
import HcipyVerif.Lemmas.FieldRef
import HcipyVerif.Model.FourierConfig
import HcipyVerif.Gen.FieldDispatch
import HcipyVerif.Properties.C01

/-!
# C19 — results do not depend on the configured Field implementation (model level)

The first half is about the two interpreters of `Model/FieldProg.lean` (`runO`: ndarray-subclass
route, `runN`: wrapper route).  That these interpreters behave like hcipy's `OldStyleField` /
`NewStyleField` on NumPy is *not* proved — NumPy's dispatch machinery is run-time behaviour — it is
checked on every run by the differential test of `harness/props/c19.py` (plain / old / new / mixed
style / both model routes; the driver's `run` op executes `runO`, `runN`, `agree?`, `disagreeAt`).
The second half (section `Fourier`) is about `Model/FourierSwitch.lean`: backend selection of
`hcipy/_math/fft.py:_make_func` and the cache switches of `MatrixFourierTransform` /
`NaiveFourierTransform` (driver ops `select`, `mft`, `nft`).  Emulated shifts have no model here (C01's
index arithmetic covers them); memory order in pickles and views are checked on the real code only.
-/
set_option linter.unusedSimpArgs false
set_option linter.unusedVariables false
set_option linter.unusedSectionVars false

namespace HcipyVerif.C19
open HcipyVerif.FieldProg

/-- **Both routes yield the same values** — after every statement (including the same exception
at the same statement) and in the final read-out of every variable, aliases included — for every
program, every grid table, unbounded sizes.  The hypothesis is the *decidable* check `agree?` (run by
the driver for every generated program, reported as `agree=`): no `shaped` node is applied to an object
that the two routes tag differently.  It is `true` for every program without `shaped`
(`backends_same_values_noShaped`); where it is `false` the routes really differ
(`shaped_needs_agreeing_tags`, `agree_detects_0d_shaped`) — the harness generates such programs and
logs them as accepted divergence after checking that the real code diverges exactly as predicted. -/
theorem backends_same_values (gs : Grids) (p : List Stmt) (h : agree? gs p = true) :
    traceData ((runO gs {} p).1, (runO gs {} p).2.map OState.dump) =
    traceData ((runN gs {} p).1, (runN gs {} p).2.map NState.dump) :=
  run_same_values gs p {} {} rel_init (progAgreeB_sound gs p {} {} h)

/-- the hypothesis of `backends_same_values` is satisfied by a program that uses `shaped` -/
example : agree? [(0, some [2, 2])]
    [.assign 0 (.shaped (.field ⟨[4], .real, [⟨1, 0⟩, ⟨2, 0⟩, ⟨3, 0⟩, ⟨4, 0⟩]⟩ 0))] = true := by decide

/-- the check passes for every program that does not use `.shaped` (so `backends_same_values` is
unconditional there; the semantic form of the hypothesis, `ProgAgree`, and the proof that the check implies
it are `FieldProg.progAgreeB_sound` / `FieldProg.run_same_values` in `Lemmas/FieldProg.lean`) -/
theorem agree_of_noShaped (gs : Grids) (p : List Stmt) (h : ∀ st ∈ p, StmtNoShaped st) : agree? gs p = true :=
  progAgreeB_of_noShaped gs p h {} {}

/-- the statement index the driver reports (`A 0 <i>`) is `none` exactly when the check passes -/
theorem agree_iff_no_disagreeing_statement (gs : Grids) (p : List Stmt) :
    disagreeAt gs p = none ↔ agree? gs p = true :=
  progDisagreeAt_none_iff gs p {} {} 0

/-- the check rejects the program on which the routes differ (`shaped` of a full reduction) -/
theorem agree_detects_0d_shaped :
    agree? [(0, some [1])] [Stmt.assign 0 (.shaped (.red .max .all (.field ⟨[1], .real, [⟨3, 0⟩]⟩ 0)))] = false := by
  decide

/-- Unconditional form: every program that does not use `.shaped`. -/
theorem backends_same_values_noShaped (gs : Grids) (p : List Stmt) (h : ∀ st ∈ p, StmtNoShaped st) :
    traceData ((runO gs {} p).1, (runO gs {} p).2.map OState.dump) =
    traceData ((runN gs {} p).1, (runN gs {} p).2.map NState.dump) :=
  backends_same_values gs p (agree_of_noShaped gs p h)

/-- Expression level, any two wrapping policies and any stores that read the same values. -/
theorem expression_same_values (P Q : Policy) (gs : Grids) (lo ln : Nat → Except Err Val)
    (hl : ∀ x, dataOf (lo x) = dataOf (ln x)) (e : Expr) (hs : ShapedAgree P Q gs lo ln e) :
    dataOf (eval P gs lo e) = dataOf (eval Q gs ln e) :=
  eval_same_values P Q gs lo ln hl e hs

/-- The side condition on `shaped` cannot be dropped: `Field([c], g).max().shaped` is a `(1,)`
Field under the subclass route (a full reduction stays a 0-d Field) and an `AttributeError` under
the wrapper route (the reduction returned a scalar). -/
theorem shaped_needs_agreeing_tags :
    let p := [Stmt.assign 0 (.shaped (.red .max .all (.field ⟨[1], .real, [⟨3, 0⟩]⟩ 0)))]
    (runO [(0, some [1])] {} p).1.map obsData = [.ok (0, ⟨[1], .real, [⟨3, 0⟩]⟩)] ∧
    (runN [(0, some [1])] {} p).1.map obsData = [.error .attr] := by
  intro p
  constructor <;> rfl

/-- **Elementwise results keep the grid (subclass route)**: a ufunc with a Field operand returns a
Field on the grid of the leftmost Field operand, whatever the shape.  (A reading of the rule `oldPolicy.ufunc`
encodes — definitional; that NumPy's view-casting + `__array_finalize__` follow this rule is what the driver's
`run` op and the per-route correspondence on tags tie to the running code, and the oracle's node-level check
`grid-lost` / `grid-changed` tests on the real code without the model.) -/
theorem elementwise_keeps_grid_old (ts : List Tag) (a : Arr) (g : Nat) (h : leftGrid ts = some g) :
    oldPolicy.ufunc ts a = .field g := by
  simp [oldPolicy, h]

/-- **Elementwise results keep the grid (wrapper route)**: the same, unless the raw result is 0-d
(NumPy then hands back a scalar, which the wrapper leaves bare).  Definitional in the same sense as
`elementwise_keeps_grid_old`; the evaluated forms are `elementwise_keeps_grid_route_old/_new`. -/
theorem elementwise_keeps_grid_new (ts : List Tag) (a : Arr) (g : Nat) (h : leftGrid ts = some g)
    (hnd : a.shape ≠ []) : newPolicy.ufunc ts a = .field g := by
  have : a.shape.isEmpty = false := by
    cases hs : a.shape with
    | nil => exact absurd hs hnd
    | cons _ _ => rfl
  simp [newPolicy, h, hnd]

/-- **Elementwise results carry the grid of the Field operand (subclass route, evaluated)**: whatever
the operands evaluate to under this route, if one of them is a Field the result is a Field on the grid
of the leftmost one — 0-d results included. -/
theorem elementwise_keeps_grid_route_old (gs : Grids) (lo : Nat → Except Err Val) (op : BinOp) (l r : Expr)
    (vl vr : Val) (g : Nat)
    (hl : eval oldPolicy gs lo l = .ok vl) (hr : eval oldPolicy gs lo r = .ok vr)
    (hg : leftGrid [vl.2, vr.2] = some g) (a : Arr) (hk : Prim.binop op vl.1 vr.1 = .ok a) :
    eval oldPolicy gs lo (.bin op l r) = .ok (a, .field g) := by
  simp [eval, hl, hr, hk, Except.map, elementwise_keeps_grid_old _ _ _ hg]

/-- the same for the wrapper route, unless the raw result is 0-d -/
theorem elementwise_keeps_grid_route_new (gs : Grids) (ln : Nat → Except Err Val) (op : BinOp) (l r : Expr)
    (vl vr : Val) (g : Nat)
    (hl : eval newPolicy gs ln l = .ok vl) (hr : eval newPolicy gs ln r = .ok vr)
    (hg : leftGrid [vl.2, vr.2] = some g) (a : Arr) (hk : Prim.binop op vl.1 vr.1 = .ok a) (hnd : a.shape ≠ []) :
    eval newPolicy gs ln (.bin op l r) = .ok (a, .field g) := by
  simp [eval, hl, hr, hk, Except.map, elementwise_keeps_grid_new _ _ _ hg hnd]

/-- both routes at once; the operands may be *different kinds of object* under the two routes (a 0-d
Field vs a scalar, a bare array vs a Field after `np.where`) — each route attaches the grid of its own
leftmost Field operand -/
theorem elementwise_keeps_grid (gs : Grids) (lo ln : Nat → Except Err Val) (op : BinOp) (l r : Expr)
    (al ar : Arr) (tlo tro tln trn : Tag) (g g' : Nat)
    (hlo : eval oldPolicy gs lo l = .ok (al, tlo)) (hro : eval oldPolicy gs lo r = .ok (ar, tro))
    (hln : eval newPolicy gs ln l = .ok (al, tln)) (hrn : eval newPolicy gs ln r = .ok (ar, trn))
    (hgo : leftGrid [tlo, tro] = some g) (hgn : leftGrid [tln, trn] = some g')
    (a : Arr) (hk : Prim.binop op al ar = .ok a) (hnd : a.shape ≠ []) :
    eval oldPolicy gs lo (.bin op l r) = .ok (a, .field g) ∧
    eval newPolicy gs ln (.bin op l r) = .ok (a, .field g') :=
  ⟨elementwise_keeps_grid_route_old gs lo op l r _ _ g hlo hro hgo a hk,
   elementwise_keeps_grid_route_new gs ln op l r _ _ g' hln hrn hgn a hk hnd⟩

/-- satisfiable: `Field([1, 2], g0) + 1.0` -/
example :
    eval oldPolicy [] (fun _ => .error .unsupported) (.bin .add (.field ⟨[2], .real, [⟨1, 0⟩, ⟨2, 0⟩]⟩ 0) (.scal ⟨1, 0⟩ .real))
      = .ok (⟨[2], .real, [⟨2, 0⟩, ⟨3, 0⟩]⟩, .field 0) ∧
    eval newPolicy [] (fun _ => .error .unsupported) (.bin .add (.field ⟨[2], .real, [⟨1, 0⟩, ⟨2, 0⟩]⟩ 0) (.scal ⟨1, 0⟩ .real))
      = .ok (⟨[2], .real, [⟨2, 0⟩, ⟨3, 0⟩]⟩, .field 0) :=
  elementwise_keeps_grid [] _ _ .add _ _ _ _ (.field 0) .scalar (.field 0) .scalar 0 0 rfl rfl rfl rfl rfl rfl _
    (by decide +kernel) (by decide)

/-- the same for unary ufuncs -/
theorem elementwise_keeps_grid_unary (gs : Grids) (lo ln : Nat → Except Err Val) (u : UnOp) (e : Expr)
    (ae : Arr) (g : Nat)
    (ho : eval oldPolicy gs lo e = .ok (ae, .field g)) (hn : eval newPolicy gs ln e = .ok (ae, .field g))
    (a : Arr) (hk : Prim.unop u ae = .ok a) (hnd : a.shape ≠ []) :
    eval oldPolicy gs lo (.un u e) = .ok (a, .field g) ∧
    eval newPolicy gs ln (.un u e) = .ok (a, .field g) := by
  have hg : leftGrid [Tag.field g] = some g := rfl
  constructor
  · cases u <;> simp [eval, ho, hk, Except.map, unTag, elementwise_keeps_grid_old _ _ _ hg]
  · cases u <;> simp [eval, hn, hk, Except.map, unTag, elementwise_keeps_grid_new _ _ _ hg hnd]

/-- satisfiable: `-Field([1, 2], g0)` -/
example :
    eval oldPolicy [] (fun _ => .error .unsupported) (.un .neg (.field ⟨[2], .real, [⟨1, 0⟩, ⟨2, 0⟩]⟩ 0))
      = .ok (⟨[2], .real, [⟨-1, 0⟩, ⟨-2, 0⟩]⟩, .field 0) :=
  (elementwise_keeps_grid_unary [] _ (fun _ => .error .unsupported) .neg _ _ 0 rfl rfl _ rfl (by decide)).1

/-- **The 0-d divergence, stated**: on a 0-d raw result with a Field operand the subclass route returns
a 0-d *Field on the grid*, the wrapper route a bare *scalar* — for ufuncs and for reductions alike.  This
is the one place where "elementwise results stay attached to the same grid" fails between the styles;
the values are equal (`backends_same_values`).  Accepted divergence (NumPy returns scalars for 0-d
results; the harness counts the occurrences as `tags old/new:f…/s`). -/
theorem zero_dim_divergence (ts : List Tag) (a : Arr) (g : Nat) (h : leftGrid ts = some g) (h0 : a.shape = []) :
    oldPolicy.ufunc ts a = .field g ∧ newPolicy.ufunc ts a = .scalar ∧
    oldPolicy.reduce (.field g) a = .field g ∧ newPolicy.reduce (.field g) a = .scalar := by
  simp [oldPolicy, newPolicy, h, h0]

/-- … and its consequence one operation later: `f.sum() * np.array([1, 2])` is a Field under the
subclass route and a bare ndarray under the wrapper route (same values) -/
theorem zero_dim_divergence_propagates :
    let e := Expr.bin .mul (.red .sum .all (.field ⟨[2], .real, [⟨1, 0⟩, ⟨2, 0⟩]⟩ 0)) (.lit ⟨[2], .real, [⟨1, 0⟩, ⟨2, 0⟩]⟩)
    eval oldPolicy [] (fun _ => .error .unsupported) e = .ok (⟨[2], .real, [⟨3, 0⟩, ⟨6, 0⟩]⟩, .field 0) ∧
    eval newPolicy [] (fun _ => .error .unsupported) e = .ok (⟨[2], .real, [⟨3, 0⟩, ⟨6, 0⟩]⟩, .plain) := by
  decide +kernel

/-- **copy and pickle round trips** (a statement about how the model *defines* the two operations, not a
derivation from the pickling code): under any wrapping policy, `copy(e)` and `pickle.loads(pickle.dumps(e))`
evaluate to exactly what `e` evaluates to — same values, same shape and dtype class, same kind of object,
same grid.  `eval` passes the tag through and restores the array from its `ndarray.__reduce__` state
(`setstate_getstate`); memory order, `_field_reconstruct` and the slicing of the state tuple in
`__setstate__` are not modelled.  What carries the clause "fields survive copy and pickle" for the running
code is the tie: the real `copy` (3 spellings) and `pickle` (protocols 2–5) results of both styles are compared
with this identity at every such node (values, dtype, kind of object, grid, no shared memory: `_roundtrip_check`),
including F-ordered and non-contiguous Fields in the extended programs. -/
theorem copy_pickle_roundtrip (P : Policy) (gs : Grids) (look : Nat → Except Err Val) (e : Expr) :
    eval P gs look (.copy e) = eval P gs look e ∧ eval P gs look (.pickle e) = eval P gs look e := by
  constructor
  · cases h : eval P gs look e <;> simp [eval, h]
  · cases h : eval P gs look e <;> simp [eval, h, Prim.setstate, Prim.getstate]

/-- the ndarray state (shape, dtype class, data) survives `__setstate__(__getstate__())` -/
theorem setstate_getstate (a : Arr) : Prim.setstate (Prim.getstate a) = a := rfl


/-- **Grid rule for every further modelled operation** (reductions with keepdims, cumsum/cumprod,
sort/argsort, argmax/argmin, astype, clip, 1-d matmul, field_dot, field_trace): whenever the first
operand is a Field on grid `g` and the result is not 0-d, both routes return a Field on `g`.
The only class excluded is `func` (`np.where`), see `where_grid_rule`. -/
theorem fnTag_keeps_grid (c : TagClass) (hc : c ≠ .func) (ts : List Tag) (a : Arr) (g : Nat)
    (hnd : a.shape ≠ []) :
    fnTag oldPolicy c (.field g :: ts) a = .field g ∧ fnTag newPolicy c (.field g :: ts) a = .field g := by
  cases c <;> simp_all [fnTag, oldPolicy, newPolicy, leftGrid]

/-- for the many-operand classes (ufuncs such as `clip`, hcipy functions such as `field_dot`) the rule is
"leftmost Field", wherever it stands in the argument list -/
theorem fnTag_keeps_grid_left (c : TagClass) (hc : c = .ufunc ∨ c = .lib) (ts : List Tag) (a : Arr) (g : Nat)
    (h : leftGrid ts = some g) (hnd : a.shape ≠ []) :
    fnTag oldPolicy c ts a = .field g ∧ fnTag newPolicy c ts a = .field g := by
  rcases hc with rfl | rfl <;> simp_all [fnTag, oldPolicy, newPolicy]

example : leftGrid [.plain, .scalar, .field 3] = some 3 := rfl

/-- `np.where(c, a, b)` is the one modelled operation on which the routes attach *different* kinds
of object: NumPy does not preserve the subclass (bare ndarray under the subclass route), while the
wrapper's `__array_function__` wraps the result on the grid of the leftmost Field argument.
The values are the same (`backends_same_values`).  A reading of `Policy.func` (definitional); accepted
divergence of the clause "results stay attached to the same grid": the harness does not apply its grid
check to `np.where` and counts `.shaped` of such a result as `accepted-divergence:shaped-of-p/f` after
checking that the real styles behave exactly as stated here. -/
theorem where_grid_rule (ts : List Tag) (a : Arr) (g : Nat) (h : leftGrid ts = some g) :
    fnTag oldPolicy (Fn3.cls .where_) ts a = .plain ∧ fnTag newPolicy (Fn3.cls .where_) ts a = .field g := by
  simp [fnTag, Fn3.cls, oldPolicy, newPolicy, h]

/-- evaluated form of `fnTag_keeps_grid` for one-argument kernels -/
theorem app1_keeps_grid (gs : Grids) (lo ln : Nat → Except Err Val) (f : Prim.Fn1) (e : Expr)
    (ae : Arr) (g : Nat)
    (ho : eval oldPolicy gs lo e = .ok (ae, .field g)) (hn : eval newPolicy gs ln e = .ok (ae, .field g))
    (a : Arr) (hk : Prim.apply1 f ae = .ok a) (hnd : a.shape ≠ []) :
    eval oldPolicy gs lo (.app1 f e) = .ok (a, .field g) ∧
    eval newPolicy gs ln (.app1 f e) = .ok (a, .field g) := by
  have hc : Fn1.cls f ≠ .func := by cases f <;> simp [Fn1.cls]
  have := fnTag_keeps_grid (Fn1.cls f) hc [] a g hnd
  constructor
  · simp [eval, ho, hk, Except.map, this.1]
  · simp [eval, hn, hk, Except.map, this.2]

/-- satisfiable: `np.cumsum(Field([1, 2], g0))` -/
example :
    eval oldPolicy [] (fun _ => .error .unsupported) (.app1 (.cumsum .last) (.field ⟨[2], .real, [⟨1, 0⟩, ⟨2, 0⟩]⟩ 0))
      = .ok (⟨[2], .real, [⟨1, 0⟩, ⟨3, 0⟩]⟩, .field 0) :=
  (app1_keeps_grid [] _ (fun _ => .error .unsupported) (.cumsum .last) _ _ 0 rfl rfl _ (by decide +kernel) (by decide)).1

/-- **In-place statements write through (subclass route)** — for *every* in-place statement of
the model (`x op= e`, `x[i] = e`, `x[..., m] = e`, `x[i] op= e`, `x[..., m] op= e`,
`np.op(a, b, out=x)`, `x.real = e`, `x.imag = e`, `x.sort()`, `x.fill(e)`): after success, `x` *and
every alias of `x`* read the updated array `Prim.update u old args` (same kind of object, same
grid), and every variable naming another object is unchanged. -/
theorem inplace_writes_through_old (gs : Grids) (so so' : OState) (x : Nat) (u : Prim.Upd) (args : List Expr) (c : Nat)
    (hx : so.vars.lookup x = some c) (hstep : stepO gs so (.update x u args) = .ok so') :
    ∃ xv vs a, so.cells[c]? = some xv ∧ evalArgs oldPolicy gs so.look args = .ok vs ∧
      Prim.update u xv.1 (vs.map Prod.fst) = .ok a ∧
      (∀ h, so.vars.lookup h = some c → so'.look h = .ok (a, xv.2)) ∧
      (∀ y c', so.vars.lookup y = some c' → c' ≠ c → so'.look y = so.look y) := by
  simp only [stepO, hx] at hstep
  cases hc : so.cells[c]? with
  | none => simp [hc] at hstep
  | some xv =>
    simp only [hc] at hstep
    cases he : evalArgs oldPolicy gs so.look args with
    | error err => simp [he] at hstep
    | ok vs =>
      simp only [he] at hstep
      cases hp : Prim.update u xv.1 (vs.map Prod.fst) with
      | error err => simp [hp, Except.map] at hstep
      | ok a =>
        simp only [hp, Except.map, Except.ok.injEq] at hstep
        subst hstep
        have hlt : c < so.cells.length := by
          rcases List.getElem?_eq_some_iff.mp hc with ⟨hlt, _⟩
          exact hlt
        refine ⟨xv, vs, a, rfl, rfl, hp, ?_, ?_⟩
        · intro h hh
          cases hr : Upd.rebinds u with
          | false => simp [OState.look, hh, List.getElem?_set_self hlt]
          | true =>
            simp only [OState.look, if_true, lookup_bind]
            by_cases hhx : h = x
            · simp [hhx, List.getElem?_set_self hlt]
            · simp [hhx, hh, List.getElem?_set_self hlt]
        · intro y c' hy hne
          cases hr : Upd.rebinds u with
          | false => simp [OState.look, hy, List.getElem?_set_ne (Ne.symm hne)]
          | true =>
            simp only [OState.look, if_true, lookup_bind]
            by_cases hyx : y = x
            · subst hyx; rw [hx] at hy; exact absurd (Option.some.inj hy).symm hne
            · simp [hyx, hy, List.getElem?_set_ne (Ne.symm hne)]

/-- Python's `x = y` is the statement `.alias x y`; written as an assignment of the expression `y` it is
outside the model on both routes (it used to be a copy, which no Python program does) -/
theorem assign_of_bare_variable_unsupported (gs : Grids) (so : OState) (sn : NState) (x y : Nat) :
    stepO gs so (.assign x (.var y)) = .error .unsupported ∧ stepN gs sn (.assign x (.var y)) = .error .unsupported :=
  ⟨rfl, rfl⟩

/-- the hypotheses of `inplace_writes_through_old` / `_new` are satisfiable: `x = Field([1, 2], g0); h = x;
x += 1` succeeds on both routes and the alias `h` reads the updated values -/
example :
    let prog : List Stmt := [.assign 0 (.field ⟨[2], .real, [⟨1, 0⟩, ⟨2, 0⟩]⟩ 0), .alias 1 0,
      .update 0 (.iop .add) [.scal ⟨1, 0⟩ .real]]
    ((runO [] {} prog).2.map fun s => s.look 1) = some (.ok (⟨[2], .real, [⟨2, 0⟩, ⟨3, 0⟩]⟩, .field 0)) ∧
    ((runN [] {} prog).2.map fun s => s.look 1) = some (.ok (⟨[2], .real, [⟨2, 0⟩, ⟨3, 0⟩]⟩, .field 0)) := by
  decide +kernel

/-- **In-place statements write through (wrapper route)**: the same for the wrapper store — every
variable whose wrapper shares `x`'s buffer reads the updated array (although `x op= e` binds `x` to
a *new* wrapper), variables on other buffers are unchanged; `x` itself reads the updated array and, if it
was a Field, **still is a Field on its grid** (for `x op= e` the new wrapper takes the grid of the leftmost
Field among `(x, e)`, which is `x`).  That the real wrapper writes into `self.data` on every in-place path
is what the differential run ties (`stepN` does so by definition). -/
theorem inplace_writes_through_new (gs : Grids) (sn sn' : NState) (x : Nat) (u : Prim.Upd) (args : List Expr) (r : Nat × Tag)
    (hx : sn.vars.lookup x = some r) (hstep : stepN gs sn (.update x u args) = .ok sn') :
    ∃ xa vs a, sn.bufs[r.1]? = some xa ∧ evalArgs newPolicy gs sn.look args = .ok vs ∧
      Prim.update u xa (vs.map Prod.fst) = .ok a ∧
      sn'.look x = .ok (a, if Upd.rebinds u then iopTagN r.2 ((vs.map Prod.snd).headD .plain) else r.2) ∧
      (∀ g, r.2 = .field g → sn'.look x = .ok (a, .field g)) ∧
      (∀ h rh, h ≠ x → sn.vars.lookup h = some rh → rh.1 = r.1 → sn'.look h = .ok (a, rh.2)) ∧
      (∀ y ry, sn.vars.lookup y = some ry → ry.1 ≠ r.1 → sn'.look y = sn.look y) := by
  simp only [stepN, hx] at hstep
  cases hc : sn.bufs[r.1]? with
  | none => simp [hc] at hstep
  | some xa =>
    simp only [hc] at hstep
    cases he : evalArgs newPolicy gs sn.look args with
    | error err => simp [he] at hstep
    | ok vs =>
      simp only [he] at hstep
      cases hp : Prim.update u xa (vs.map Prod.fst) with
      | error err => simp [hp, Except.map] at hstep
      | ok a =>
        simp only [hp, Except.map, Except.ok.injEq] at hstep
        subst hstep
        have hlt : r.1 < sn.bufs.length := by
          rcases List.getElem?_eq_some_iff.mp hc with ⟨hlt, _⟩
          exact hlt
        refine ⟨xa, vs, a, rfl, rfl, hp, ?_, ?_, ?_, ?_⟩
        · cases hr : Upd.rebinds u with
          | false => simp [NState.look, hx, List.getElem?_set_self hlt]
          | true => simp [NState.look, lookup_bind, List.getElem?_set_self hlt]
        · intro g hg
          cases hr : Upd.rebinds u with
          | false => simp [NState.look, hx, hg, List.getElem?_set_self hlt]
          | true => simp [NState.look, lookup_bind, hg, iopTagN, leftGrid, List.getElem?_set_self hlt]
        · intro h rh hne hh hb
          cases hr : Upd.rebinds u with
          | false => simp [NState.look, hh, hb, List.getElem?_set_self hlt]
          | true => simp [NState.look, lookup_bind, hne, hh, hb, List.getElem?_set_self hlt]
        · intro y ry hy hne
          cases hr : Upd.rebinds u with
          | false => simp [NState.look, hy, List.getElem?_set_ne (Ne.symm hne)]
          | true =>
            simp only [NState.look, if_true, lookup_bind]
            by_cases hyx : y = x
            · subst hyx; rw [hx] at hy; exact absurd (congrArg Prod.fst (Option.some.inj hy)).symm hne
            · simp [hyx, hy, List.getElem?_set_ne (Ne.symm hne)]

/-- **The stores are view-free: an assigned value is independent (subclass route)** — after `y = e`, no
later in-place statement on another variable `x` reaches `y`.  For `e = x.copy()`, `pickle.loads(pickle.dumps(x))`
and every arithmetic expression this is NumPy's behaviour; for view-producing `e` (`x[..., 0:2]`, `x.reshape(…)`,
`x.real`, `x.shaped`) it is *not*: the model copies where NumPy shares memory.  The harness therefore never lets
the model read such a `y` after an update of `x`; that the real styles treat views alike is checked on the real
code only (oracle key `view-read`), and that real copies / pickles share no memory by `_roundtrip_check`. -/
theorem assigned_value_is_independent_old (gs : Grids) (so s1 s2 : OState) (x y : Nat) (e : Expr) (u : Prim.Upd)
    (args : List Expr) (c : Nat)
    (hxy : y ≠ x) (hx : so.vars.lookup x = some c) (hc : c < so.cells.length)
    (h1 : stepO gs so (.assign y e) = .ok s1)
    (h2 : stepO gs s1 (.update x u args) = .ok s2) : s2.look y = s1.look y := by
  simp only [stepO, evalO] at h1
  cases hiv : e.isVar with
  | true => simp [hiv] at h1
  | false =>
  simp only [hiv, Bool.false_eq_true, if_false] at h1
  cases hv : eval oldPolicy gs so.look e with
  | error err => simp [hv, Except.map] at h1
  | ok v =>
    simp only [hv, Except.map, Except.ok.injEq] at h1
    subst h1
    have hx1 : (bind so.vars y so.cells.length).lookup x = some c := by
      simp [lookup_bind, Ne.symm hxy, hx]
    obtain ⟨_, _, _, _, _, _, _, hother⟩ := inplace_writes_through_old gs _ s2 x u args c hx1 h2
    exact hother y so.cells.length (by simp [lookup_bind]) (by omega)

/-- the same for the wrapper route: `y = e` puts the value into a new buffer -/
theorem assigned_value_is_independent_new (gs : Grids) (sn s1 s2 : NState) (x y : Nat) (e : Expr) (u : Prim.Upd)
    (args : List Expr) (r : Nat × Tag)
    (hxy : y ≠ x) (hx : sn.vars.lookup x = some r) (hr : r.1 < sn.bufs.length)
    (h1 : stepN gs sn (.assign y e) = .ok s1)
    (h2 : stepN gs s1 (.update x u args) = .ok s2) : s2.look y = s1.look y := by
  simp only [stepN, evalN] at h1
  cases hiv : e.isVar with
  | true => simp [hiv] at h1
  | false =>
  simp only [hiv, Bool.false_eq_true, if_false] at h1
  cases hv : eval newPolicy gs sn.look e with
  | error err => simp [hv, Except.map] at h1
  | ok v =>
    simp only [hv, Except.map, Except.ok.injEq] at h1
    subst h1
    have hx1 : (bind sn.vars y (sn.bufs.length, v.2)).lookup x = some r := by
      simp [lookup_bind, Ne.symm hxy, hx]
    obtain ⟨_, _, _, _, _, _, _, _, _, hother⟩ := inplace_writes_through_new gs _ s2 x u args r hx1 h2
    exact hother y (sn.bufs.length, v.2) (by simp [lookup_bind]) (by simp; omega)

/-- satisfiable (both routes): `x = Field([1, 2], g0); y = x.copy(); x += 1` -/
example :
    let prog : List Stmt := [.assign 0 (.field ⟨[2], .real, [⟨1, 0⟩, ⟨2, 0⟩]⟩ 0), .assign 1 (.copy (.var 0)),
      .update 0 (.iop .add) [.scal ⟨1, 0⟩ .real]]
    ((runO [] {} prog).2.map fun s => s.look 1) = some (.ok (⟨[2], .real, [⟨1, 0⟩, ⟨2, 0⟩]⟩, .field 0)) ∧
    ((runN [] {} prog).2.map fun s => s.look 1) = some (.ok (⟨[2], .real, [⟨1, 0⟩, ⟨2, 0⟩]⟩, .field 0)) ∧
    ((runO [] {} prog).2.map fun s => s.look 0) = some (.ok (⟨[2], .real, [⟨2, 0⟩, ⟨3, 0⟩]⟩, .field 0)) ∧
    ((runN [] {} prog).2.map fun s => s.look 0) = some (.ok (⟨[2], .real, [⟨2, 0⟩, ⟨3, 0⟩]⟩, .field 0)) := by
  decide +kernel

/-! ## The Fourier half: backend selection, MFT / NFT switches (`Model/FourierSwitch.lean`)

Tied by the driver ops `select`, `mft`, `nft` (harness: `run_select_tie`, `run_cache_tie`): the real
`_make_func` closures are re-made over recording fake backends, and the attributes of reused real
`MatrixFourierTransform` / `NaiveFourierTransform` objects are read after every call. -/
section Fourier
open HcipyVerif.FourierSwitch HcipyVerif.FourierSwitch.Spec

/-- **Backend selection returns the first working backend** in the order the code tries them
(threads-major: every method with the first number of threads, then every method with the next),
`ValueError` iff none works.  Any list of methods, any availability / failure pattern. -/
theorem select_first_working (cpu : Nat) (avail : Method → Bool) (works : Method → Nat → Bool)
    (methods : List Method) (threads : Option Nat) (big : Bool) :
    select cpu avail works methods threads big =
      match (tryOrder methods (threadAttempts cpu threads big)).find? (fun p => callable avail works p.1 p.2) with
      | some p => .ok p
      | none => .error .value :=
  selectIn_eq_find avail works methods _

/-- what `select_first_working` gives for a successful selection: the backend is in the list, is
importable, did not raise, was called in one of the thread attempts — and it is not `other` -/
theorem select_ok_sound (cpu : Nat) (avail : Method → Bool) (works : Method → Nat → Bool)
    (methods : List Method) (threads : Option Nat) (big : Bool) (m : Method) (t : Nat)
    (h : select cpu avail works methods threads big = .ok (m, t)) :
    m ∈ methods ∧ t ∈ threadAttempts cpu threads big ∧ usable avail m = true ∧ works m t = true ∧ m ≠ .other := by
  rw [select_first_working] at h
  cases hf : (tryOrder methods (threadAttempts cpu threads big)).find? (fun p => callable avail works p.1 p.2) with
  | none => simp [hf] at h
  | some p =>
    simp only [hf, Except.ok.injEq] at h
    subst h
    have hp := List.find?_some hf
    have hm := List.mem_of_find?_eq_some hf
    simp only [tryOrder, List.mem_flatMap, List.mem_map, Prod.mk.injEq] at hm
    obtain ⟨t', ht, m', hm', rfl, rfl⟩ := hm
    simp only [callable, Bool.and_eq_true] at hp
    refine ⟨hm', ht, hp.1, hp.2, ?_⟩
    intro ho; rw [ho] at hp; simp [usable] at hp

example : select 4 (fun _ => false) (fun m t => m == .numpy || t == 1) [.mkl, .scipy, .numpy] none true = .ok (.numpy, 4) := rfl

/-- **Selection is total when `threads` is left at `None`**: the only exception it can raise is the
`ValueError`, and it raises it iff no listed backend works with any attempted number of threads; in
particular one backend that works single-threaded suffices, whatever the size of the input. -/
theorem select_total_when_threads_none (cpu : Nat) (avail : Method → Bool) (works : Method → Nat → Bool)
    (methods : List Method) (big : Bool) :
    (∀ e, select cpu avail works methods none big = .error e ↔
      e = .value ∧ ∀ t ∈ threadAttempts cpu none big, ∀ m ∈ methods, callable avail works m t = false) ∧
    ((∃ m ∈ methods, callable avail works m 1 = true) → ∃ r, select cpu avail works methods none big = .ok r) := by
  refine ⟨fun e => selectIn_error_iff avail works methods _ e, ?_⟩
  rintro ⟨m, hm, hc⟩
  cases hs : select cpu avail works methods none big with
  | ok r => exact ⟨r, rfl⟩
  | error e =>
    have := ((selectIn_error_iff avail works methods _ e).mp hs).2 1 (by cases big <;> simp [threadAttempts]) m hm
    rw [this] at hc; cases hc

/-- with an explicit `threads=t` (after D190): that number of threads only -/
theorem select_explicit_threads (cpu : Nat) (avail : Method → Bool) (works : Method → Nat → Bool)
    (methods : List Method) (t : Nat) (big : Bool) :
    (∃ r, select cpu avail works methods (some t) big = .ok r) ↔ ∃ m ∈ methods, callable avail works m t = true := by
  constructor
  · rintro ⟨⟨m, t'⟩, h⟩
    obtain ⟨hm, ht, hu, hw, _⟩ := select_ok_sound _ _ _ _ _ _ _ _ h
    simp only [threadAttempts, List.mem_singleton] at ht
    subst ht
    exact ⟨m, hm, by simp [callable, hu, hw]⟩
  · rintro ⟨m, hm, hc⟩
    cases hs : select cpu avail works methods (some t) big with
    | ok r => exact ⟨r, rfl⟩
    | error e =>
      have := ((selectIn_error_iff avail works methods _ e).mp hs).2 t (by simp [threadAttempts]) m hm
      rw [this] at hc; cases hc

/-- **/repo before D190**: every call with an explicit `threads=` raises `UnboundLocalError`, whatever
the backends do — although the repaired code succeeds as soon as one listed backend works with that
number of threads (defect D190; `Old` code — documentation, the tie runs `select`). -/
theorem Old.selectOld_explicit_threads_crashes (cpu : Nat) (avail : Method → Bool) (works : Method → Nat → Bool)
    (methods : List Method) (t : Nat) (big : Bool) :
    selectOld cpu avail works methods (some t) big = .error .unbound ∧
    ((∃ m ∈ methods, callable avail works m t = true) →
      ∃ r, select cpu avail works methods (some t) big = .ok r) :=
  ⟨rfl, (select_explicit_threads cpu avail works methods t big).mpr⟩

/-- **The result does not depend on which backend answered**: if every backend computes the same
transform `dft` (for every number of workers) and the input has a standard bit depth (single, double,
integer), then every successful configuration — any method list, any `threads=`, any pattern of missing
or failing backends — returns `dft x` at the native bit depth of the input. -/
theorem select_value_independent {X Y : Type} (k : Method → Option Nat → X → Y) (dft : X → Y)
    (hk : ∀ m w x, m ≠ .other → k m w x = dft x)
    (cpu : Nat) (avail : Method → Bool) (works : Method → Nat → Bool) (methods : List Method)
    (threads : Option Nat) (big : Bool) (d : DtIn) (hd : d.standard = true) (x : X) (r : Prec × Y)
    (h : fftResult k cpu avail works methods threads big d x = .ok r) : r = (nativePrec d, dft x) := by
  unfold fftResult at h
  cases hs : select cpu avail works methods threads big with
  | error e => simp [hs, Except.map] at h
  | ok mt =>
    obtain ⟨m, t⟩ := mt
    simp only [hs, Except.map, Except.ok.injEq] at h
    subst h
    have hne := (select_ok_sound _ _ _ _ _ _ _ _ hs).2.2.2.2
    rw [hk m _ x hne]
    congr 1
    cases m <;> cases d <;> simp_all [outPrec, numpyPrec, nativePrec, DtIn.standard]

example : fftResult (fun _ _ (x : Nat) => x + 1) 4 (fun _ => false) (fun _ _ => true) [.mkl, .numpy] (some 2) false .single 5
    = .ok (.single, 6) := rfl

/-- outside the standard depths the `numpy` branch *does* differ (float16 → complex128 instead of
complex64, longdouble → complex128 instead of complex256): the harness checks that the real code shows
exactly this and records it as an accepted divergence (bit depths hcipy does not use). -/
theorem numpy_depth_divergence :
    outPrec .numpy .half ≠ outPrec .scipy .half ∧ outPrec .numpy .longdouble ≠ outPrec .scipy .longdouble ∧
    ∀ d, d.standard = true → ∀ m, outPrec m d = nativePrec d := by
  refine ⟨by decide, by decide, ?_⟩
  intro d hd m
  cases m <;> cases d <;> simp_all [outPrec, numpyPrec, nativePrec, DtIn.standard]

/-- **MFT switches**: for every call script on one `MatrixFourierTransform` object — any mixture of
forward/backward, of complex64/complex128 inputs — and every setting of `precompute_matrices` and
`allocate_intermediate`, every call returns what a fresh object with both switches off returns.
Proof by the invariant `Keyed` (recorded dtype = dtype the matrices were made for). -/
theorem mft_switch_independent {X M B R : Type} (K : MftKern X M B R) (pre alloc : Bool)
    (script : List (Dir × CPrec × X)) :
    mftRun K pre alloc script = script.map fun s => mftFresh K s.1 s.2.1 s.2.2 :=
  mftRunFrom_spec K pre alloc script {} (keyed_empty K)

/-- the same from any reachable (keyed) cache state, one call; the cache stays keyed -/
theorem mft_call_independent {X M B R : Type} (K : MftKern X M B R) (pre alloc : Bool) (c : MftCache M B)
    (hk : Keyed K c) (d : Dir) (p : CPrec) (x : X) :
    (mftCall K pre alloc c d p x).1 = mftFresh K d p x ∧ Keyed K (mftCall K pre alloc c d p x).2 := by
  obtain ⟨h1, h2⟩ := mftCall_spec K pre alloc c hk d p x
  exact ⟨by rw [h1, mftFresh, (mftCall_spec K false false {} (keyed_empty K) d p x).1], h2⟩

example : Keyed provKern (mftCall provKern true true {} .fwd .c64 (0, .c128)).2 :=
  (mft_call_independent provKern true true {} (keyed_empty _) .fwd .c64 (0, .c128)).2

/-- the same with the invariant as the *check the driver runs after every call* (`k1` in the answer of
`C19 mft`; compared with `M1.dtype == matrices_dtype` read off the real object): from a cache that passes
the check, the call returns what a fresh switch-less object returns, and the cache passes the check again -/
theorem mft_call_independent_checked {X M B R : Type} [BEq M] [LawfulBEq M] (K : MftKern X M B R) (pre alloc : Bool)
    (c : MftCache M B) (hk : keyedB K c = true) (d : Dir) (p : CPrec) (x : X) :
    (mftCall K pre alloc c d p x).1 = mftFresh K d p x ∧ keyedB K (mftCall K pre alloc c d p x).2 = true := by
  obtain ⟨h1, h2⟩ := mft_call_independent K pre alloc c ((keyedB_iff K c).mp hk) d p x
  exact ⟨h1, (keyedB_iff K _).mpr h2⟩

example : keyedB provKern ({} : MftCache CPrec BufProv) = true := rfl

/-- the check is not vacuous: a cache whose recorded dtype does not describe its matrices fails it -/
example : keyedB provKern ({ mats := some (.c64, .c128) } : MftCache CPrec BufProv) = false := rfl

/-- the model *can* fail: with an intermediate that is allocated only when there is none (seeded
defect C19-2), `allocate_intermediate=True` makes the second call of the script complex64 → complex128
read the stale single-precision product of the first call; with the switch off it is correct. -/
theorem mft_bad_cache_counterexample :
    let script : List (Dir × CPrec × (Nat × CPrec)) := [(.fwd, .c64, (0, .c64)), (.fwd, .c128, (1, .c128))]
    (mftRunFrom (mftCallBad provKern false true) {} script).1 ≠ script.map (fun s => mftFresh provKern s.1 s.2.1 s.2.2) ∧
    (mftRunFrom (mftCallBad provKern false false) {} script).1 = script.map (fun s => mftFresh provKern s.1 s.2.1 s.2.2) := by
  decide

/-- **NFT switch**: with `precompute_matrices` on or off, every call of every script returns the
on-the-fly sum cast to the complex dtype of the input — given that the cached matrix applied to a field
*is* that sum (`hd`: the matrix identity, C02's subject; the harness checks it against the defining sum). -/
theorem nft_switch_independent {X A R : Type} (K : NftKern X A R)
    (hd : ∀ d x, K.apply (K.matrix d) x = K.direct d x) (pre : Bool) (script : List (Dir × CPrec × X)) :
    (nftRunFrom K pre {} script).1 = (nftRunFrom K false {} script).1 := by
  rw [nftRunFrom_spec K hd pre script {} (nftKeyed_empty K), nftRunFrom_spec K hd false script {} (nftKeyed_empty K)]

example : ∃ K : NftKern Nat Nat Nat, ∀ d x, K.apply (K.matrix d) x = K.direct d x :=
  ⟨⟨fun _ => 2, fun a x => a * x, fun _ x => 2 * x, fun _ r => r⟩, fun _ _ => rfl⟩

end Fourier

section FourierConfig
open HcipyVerif.Fft HcipyVerif.FourierSwitch HcipyVerif.FourierSwitch.Spec HcipyVerif.FourierConfig Finset

section abstract
variable {K C : Type} [Field K] [Field C] {T E : K → C}

/-! ### `emulate_fftshifts` -/

/-- **`emulate_fftshifts` changes nothing, `forward`, one axis.**  For both values of the switch
(`Cfg.emu`: `false` = `ifftshift`/`fftshift` around the FFT, `true` = the two phase multiplications) the
modelled `FastFourierTransform.forward` returns the same output sample, for every input, every size
`N ≤ M`, `Mo ≤ M`, every consistent grid.  Rests on `C01.fast_forward_eq_sum` (both pipelines evaluate
the defining sum, which does not mention the switch). -/
theorem fft_emulate_switch_independent (hT : IsChar T) (hE : IsChar E) (hper : ∀ n : ℤ, T (n : K) = 1)
    (g : Cfg K C) (hN : g.N ≤ g.M) (hMo : g.Mo ≤ g.M) (hcons : g.dT * (g.M : K) * g.δ = 1)
    (e1 e2 : Bool) (f : ℕ → C) (k : ℕ) (hk : k < g.Mo) :
    fastForward T E { g with emu := e1 } f k = fastForward T E { g with emu := e2 } f k := by
  rw [C01.fast_forward_eq_sum hT hE hper { g with emu := e1 } hN hMo hcons f k hk,
    C01.fast_forward_eq_sum hT hE hper { g with emu := e2 } hN hMo hcons f k hk]
  rfl

/-- satisfiability of the hypothesis bundle (`N = 2, M = 4, Mo = 3, δ = dT = 1/2`, `Complex.exp`) -/
example : ∃ (T E : ℝ → ℂ) (g : Cfg ℝ ℂ) (k : ℕ), IsChar T ∧ IsChar E ∧ (∀ n : ℤ, T (n : ℝ) = 1) ∧
    g.N ≤ g.M ∧ g.Mo ≤ g.M ∧ g.dT * (g.M : ℝ) * g.δ = 1 ∧ k < g.Mo :=
  ⟨expT, expE, { N := 2, M := 4, Mo := 3, δ := 1 / 2, z := 0, dT := 1 / 2, s := 0, w := 1, emu := false },
    2, expT_isChar, expE_isChar, expT_period, by norm_num, by norm_num, by norm_num, by norm_num⟩

/-- **`emulate_fftshifts` changes nothing, `backward`, one axis** (`wOut = Δ/(2π)` is only the
witness that `M·w` is invertible; it does not occur in the conclusion).  Rests on
`C01.fast_backward_eq_sum`. -/
theorem fft_emulate_switch_independent_backward (hT : IsChar T) (hE : IsChar E)
    (hper : ∀ n : ℤ, T (n : K) = 1)
    (g : Cfg K C) (hN : g.N ≤ g.M) (hMo : g.Mo ≤ g.M) (hcons : g.dT * (g.M : K) * g.δ = 1)
    (wOut : C) (hw : wOut * (g.M : C) * g.w = 1)
    (e1 e2 : Bool) (F : ℕ → C) (j : ℕ) (hj : j < g.N) :
    fastBackward T E { g with emu := e1 } F j = fastBackward T E { g with emu := e2 } F j := by
  rw [C01.fast_backward_eq_sum hT hE hper { g with emu := e1 } hN hMo hcons wOut hw F j hj,
    C01.fast_backward_eq_sum hT hE hper { g with emu := e2 } hN hMo hcons wOut hw F j hj]
  rfl

example : ∃ (T E : ℝ → ℂ) (g : Cfg ℝ ℂ) (wOut : ℂ) (j : ℕ), IsChar T ∧ IsChar E ∧
    (∀ n : ℤ, T (n : ℝ) = 1) ∧ g.N ≤ g.M ∧ g.Mo ≤ g.M ∧ g.dT * (g.M : ℝ) * g.δ = 1 ∧
    wOut * (g.M : ℂ) * g.w = 1 ∧ j < g.N :=
  ⟨expT, expE, { N := 2, M := 4, Mo := 3, δ := 1 / 2, z := 0, dT := 1 / 2, s := 0, w := 1, emu := false },
    1 / 4, 1, expT_isChar, expE_isChar, expT_period, by norm_num, by norm_num, by norm_num,
    by norm_num, by norm_num⟩

/-- the two settings by name: the emulated-shift pipeline (`core false`, phase multipliers) equals
the native-shift pipeline (`core true`: pad → `ifftshift` → DFT → `fftshift` → crop), forward and
backward -/
theorem fft_emulated_eq_native (hT : IsChar T) (hE : IsChar E) (hper : ∀ n : ℤ, T (n : K) = 1)
    (g : Cfg K C) (hN : g.N ≤ g.M) (hMo : g.Mo ≤ g.M) (hcons : g.dT * (g.M : K) * g.δ = 1)
    (wOut : C) (hw : wOut * (g.M : C) * g.w = 1) :
    (∀ f k, k < g.Mo →
      fastForward T E { g with emu := true } f k = fastForward T E { g with emu := false } f k) ∧
    (∀ F j, j < g.N →
      fastBackward T E { g with emu := true } F j = fastBackward T E { g with emu := false } F j) :=
  ⟨fun f k hk => fft_emulate_switch_independent hT hE hper g hN hMo hcons true false f k hk,
    fun F j hj => fft_emulate_switch_independent_backward hT hE hper g hN hMo hcons wOut hw true false F j hj⟩

example : ∃ (T E : ℝ → ℂ) (g : Cfg ℝ ℂ) (wOut : ℂ), IsChar T ∧ IsChar E ∧
    (∀ n : ℤ, T (n : ℝ) = 1) ∧ g.N ≤ g.M ∧ g.Mo ≤ g.M ∧ g.dT * (g.M : ℝ) * g.δ = 1 ∧
    wOut * (g.M : ℂ) * g.w = 1 :=
  ⟨expT, expE, { N := 2, M := 4, Mo := 3, δ := 1 / 2, z := 0, dT := 1 / 2, s := 0, w := 1, emu := false },
    1 / 4, expT_isChar, expE_isChar, expT_period, by norm_num, by norm_num, by norm_num, by norm_num⟩

/-- **`emulate_fftshifts`, the literal 2-D array program** (`fastForward2`/`fastBackward2`: one 2-D
pad / shift / `fftn` / crop, 2-D multiplier arrays; the switch is global, so both axes carry the same
value).  Non-square sizes, per-axis q / fov / shift.  Rests on `C01.fast_forward_eq_sum_2d`,
`C01.fast_backward_eq_sum_2d`. -/
theorem fft_emulate_switch_independent_2d (hT : IsChar T) (hE : IsChar E)
    (hper : ∀ n : ℤ, T (n : K) = 1) (gy gx : Cfg K C)
    (hNy : gy.N ≤ gy.M) (hMoy : gy.Mo ≤ gy.M) (hcy : gy.dT * (gy.M : K) * gy.δ = 1)
    (hNx : gx.N ≤ gx.M) (hMox : gx.Mo ≤ gx.M) (hcx : gx.dT * (gx.M : K) * gx.δ = 1)
    (woy wox : C) (hwy : woy * (gy.M : C) * gy.w = 1) (hwx : wox * (gx.M : C) * gx.w = 1)
    (e1 e2 : Bool) :
    (∀ f ky kx, ky < gy.Mo → kx < gx.Mo →
      fastForward2 T E { gy with emu := e1 } { gx with emu := e1 } f ky kx
        = fastForward2 T E { gy with emu := e2 } { gx with emu := e2 } f ky kx) ∧
    (∀ F jy jx, jy < gy.N → jx < gx.N →
      fastBackward2 T E { gy with emu := e1 } { gx with emu := e1 } F jy jx
        = fastBackward2 T E { gy with emu := e2 } { gx with emu := e2 } F jy jx) := by
  constructor
  · intro f ky kx hky hkx
    rw [C01.fast_forward_eq_sum_2d hT hE hper { gy with emu := e1 } { gx with emu := e1 } rfl
        hNy hMoy hcy hNx hMox hcx f ky kx hky hkx,
      C01.fast_forward_eq_sum_2d hT hE hper { gy with emu := e2 } { gx with emu := e2 } rfl
        hNy hMoy hcy hNx hMox hcx f ky kx hky hkx]
    rfl
  · intro F jy jx hjy hjx
    rw [C01.fast_backward_eq_sum_2d hT hE hper { gy with emu := e1 } { gx with emu := e1 } rfl
        hNy hMoy hcy hNx hMox hcx woy wox hwy hwx F jy jx hjy hjx,
      C01.fast_backward_eq_sum_2d hT hE hper { gy with emu := e2 } { gx with emu := e2 } rfl
        hNy hMoy hcy hNx hMox hcx woy wox hwy hwx F jy jx hjy hjx]
    rfl

/-- satisfiability: a non-square pair of axes (`2→4→3` and `3→6→6`) -/
example : ∃ (T E : ℝ → ℂ) (gy gx : Cfg ℝ ℂ) (woy wox : ℂ), IsChar T ∧ IsChar E ∧
    (∀ n : ℤ, T (n : ℝ) = 1) ∧ gy.N ≤ gy.M ∧ gy.Mo ≤ gy.M ∧ gy.dT * (gy.M : ℝ) * gy.δ = 1 ∧
    gx.N ≤ gx.M ∧ gx.Mo ≤ gx.M ∧ gx.dT * (gx.M : ℝ) * gx.δ = 1 ∧
    woy * (gy.M : ℂ) * gy.w = 1 ∧ wox * (gx.M : ℂ) * gx.w = 1 :=
  ⟨expT, expE,
    { N := 2, M := 4, Mo := 3, δ := 1 / 2, z := 0, dT := 1 / 2, s := 0, w := 1, emu := false },
    { N := 3, M := 6, Mo := 6, δ := 1 / 3, z := -1, dT := 1 / 2, s := 1, w := 1, emu := false },
    1 / 4, 1 / 6, expT_isChar, expE_isChar, expT_period, by norm_num, by norm_num, by norm_num,
    by norm_num, by norm_num, by norm_num, by norm_num, by norm_num⟩

/-- **`emulate_fftshifts`, the literal 3-D array program** (`fastForward3`/`fastBackward3`), the same statement for three
axes.  Rests on `C01.fast_forward_eq_sum_3d`, `C01.fast_backward_eq_sum_3d`. -/
theorem fft_emulate_switch_independent_3d (hT : IsChar T) (hE : IsChar E)
    (hper : ∀ n : ℤ, T (n : K) = 1) (gz gy gx : Cfg K C)
    (hNz : gz.N ≤ gz.M) (hMoz : gz.Mo ≤ gz.M) (hcz : gz.dT * (gz.M : K) * gz.δ = 1)
    (hNy : gy.N ≤ gy.M) (hMoy : gy.Mo ≤ gy.M) (hcy : gy.dT * (gy.M : K) * gy.δ = 1)
    (hNx : gx.N ≤ gx.M) (hMox : gx.Mo ≤ gx.M) (hcx : gx.dT * (gx.M : K) * gx.δ = 1)
    (wz wy wx : C) (hwz : wz * (gz.M : C) * gz.w = 1) (hwy : wy * (gy.M : C) * gy.w = 1)
    (hwx : wx * (gx.M : C) * gx.w = 1) (e1 e2 : Bool) :
    (∀ f kz ky kx, kz < gz.Mo → ky < gy.Mo → kx < gx.Mo →
      fastForward3 T E { gz with emu := e1 } { gy with emu := e1 } { gx with emu := e1 } f kz ky kx
        = fastForward3 T E { gz with emu := e2 } { gy with emu := e2 } { gx with emu := e2 } f kz ky kx) ∧
    (∀ F jz jy jx, jz < gz.N → jy < gy.N → jx < gx.N →
      fastBackward3 T E { gz with emu := e1 } { gy with emu := e1 } { gx with emu := e1 } F jz jy jx
        = fastBackward3 T E { gz with emu := e2 } { gy with emu := e2 } { gx with emu := e2 } F jz jy jx) := by
  constructor
  · intro f kz ky kx hkz hky hkx
    rw [C01.fast_forward_eq_sum_3d hT hE hper { gz with emu := e1 } { gy with emu := e1 } { gx with emu := e1 } rfl rfl
        hNz hMoz hcz hNy hMoy hcy hNx hMox hcx f kz ky kx hkz hky hkx,
      C01.fast_forward_eq_sum_3d hT hE hper { gz with emu := e2 } { gy with emu := e2 } { gx with emu := e2 } rfl rfl
        hNz hMoz hcz hNy hMoy hcy hNx hMox hcx f kz ky kx hkz hky hkx]
    rfl
  · intro F jz jy jx hjz hjy hjx
    rw [C01.fast_backward_eq_sum_3d hT hE hper { gz with emu := e1 } { gy with emu := e1 } { gx with emu := e1 } rfl rfl
        hNz hMoz hcz hNy hMoy hcy hNx hMox hcx wz wy wx hwz hwy hwx F jz jy jx hjz hjy hjx,
      C01.fast_backward_eq_sum_3d hT hE hper { gz with emu := e2 } { gy with emu := e2 } { gx with emu := e2 } rfl rfl
        hNz hMoz hcz hNy hMoy hcy hNx hMox hcx wz wy wx hwz hwy hwx F jz jy jx hjz hjy hjx]
    rfl

/-- satisfiability: three different axes (`2→4→3`, `3→6→6`, `1→2→2`) -/
example : ∃ (T E : ℝ → ℂ) (gz gy gx : Cfg ℝ ℂ) (wz wy wx : ℂ), IsChar T ∧ IsChar E ∧
    (∀ n : ℤ, T (n : ℝ) = 1) ∧ gz.N ≤ gz.M ∧ gz.Mo ≤ gz.M ∧ gz.dT * (gz.M : ℝ) * gz.δ = 1 ∧
    gy.N ≤ gy.M ∧ gy.Mo ≤ gy.M ∧ gy.dT * (gy.M : ℝ) * gy.δ = 1 ∧
    gx.N ≤ gx.M ∧ gx.Mo ≤ gx.M ∧ gx.dT * (gx.M : ℝ) * gx.δ = 1 ∧
    wz * (gz.M : ℂ) * gz.w = 1 ∧ wy * (gy.M : ℂ) * gy.w = 1 ∧ wx * (gx.M : ℂ) * gx.w = 1 :=
  ⟨expT, expE,
    { N := 1, M := 2, Mo := 2, δ := 1, z := 0, dT := 1 / 2, s := 0, w := 1, emu := false },
    { N := 2, M := 4, Mo := 3, δ := 1 / 2, z := 0, dT := 1 / 2, s := 0, w := 1, emu := false },
    { N := 3, M := 6, Mo := 6, δ := 1 / 3, z := -1, dT := 1 / 2, s := 1, w := 1, emu := false },
    1 / 2, 1 / 4, 1 / 6, expT_isChar, expE_isChar, expT_period, by norm_num, by norm_num, by norm_num,
    by norm_num, by norm_num, by norm_num, by norm_num, by norm_num, by norm_num, by norm_num, by norm_num, by norm_num⟩

/-- **`emulate_fftshifts`, any number of axes** (the iterated pipeline `fastForwardN`, which C01 proves
equal to the literal array program for 2 and 3 axes): setting the switch on every axis of the list to
`e1` or to `e2` gives the same output sample.  Induction over the axes with
`fft_emulate_switch_independent` (i.e. `C01.fast_forward_eq_sum`) on each. -/
theorem fft_emulate_switch_independent_nd (hT : IsChar T) (hE : IsChar E)
    (hper : ∀ n : ℤ, T (n : K) = 1) (e1 e2 : Bool) (gs : List (Cfg K C))
    (hgs : ∀ g ∈ gs, g.N ≤ g.M ∧ g.Mo ≤ g.M ∧ g.dT * (g.M : K) * g.δ = 1)
    (f : List ℕ → C) (ks : List ℕ) (hks : List.Forall₂ (fun k g => k < g.Mo) ks gs) :
    fastForwardN T E (gs.map fun g => { g with emu := e1 }) f ks
      = fastForwardN T E (gs.map fun g => { g with emu := e2 }) f ks := by
  induction gs generalizing f ks with
  | nil => rfl
  | cons g gs ih =>
    cases hks with
    | cons hk hks' =>
      rename_i k ks'
      obtain ⟨hN, hMo, hc⟩ := hgs g (by simp)
      have hrest : ∀ g' ∈ gs, g'.N ≤ g'.M ∧ g'.Mo ≤ g'.M ∧ g'.dT * (g'.M : K) * g'.δ = 1 :=
        fun g' hg' => hgs g' (by simp [hg'])
      simp only [List.map_cons, fastForwardN]
      rw [show (fun i => fastForwardN T E (gs.map fun g => { g with emu := e1 })
              (fun idx => f (i :: idx)) ks')
            = fun i => fastForwardN T E (gs.map fun g => { g with emu := e2 })
              (fun idx => f (i :: idx)) ks' from
          funext fun i => ih hrest _ _ hks']
      exact fft_emulate_switch_independent hT hE hper g hN hMo hc e1 e2 _ k hk

/-- the same for `backward` on `n` axes (`wOut g` witnesses that `M·w` is invertible on each axis) -/
theorem fft_emulate_switch_independent_nd_backward (hT : IsChar T) (hE : IsChar E)
    (hper : ∀ n : ℤ, T (n : K) = 1) (e1 e2 : Bool) (wOut : Cfg K C → C) (gs : List (Cfg K C))
    (hgs : ∀ g ∈ gs, g.N ≤ g.M ∧ g.Mo ≤ g.M ∧ g.dT * (g.M : K) * g.δ = 1 ∧
      wOut g * (g.M : C) * g.w = 1)
    (F : List ℕ → C) (js : List ℕ) (hjs : List.Forall₂ (fun j g => j < g.N) js gs) :
    fastBackwardN T E (gs.map fun g => { g with emu := e1 }) F js
      = fastBackwardN T E (gs.map fun g => { g with emu := e2 }) F js := by
  induction gs generalizing F js with
  | nil => rfl
  | cons g gs ih =>
    cases hjs with
    | cons hj hjs' =>
      rename_i j js'
      obtain ⟨hN, hMo, hc, hw⟩ := hgs g (by simp)
      have hrest : ∀ g' ∈ gs, g'.N ≤ g'.M ∧ g'.Mo ≤ g'.M ∧ g'.dT * (g'.M : K) * g'.δ = 1 ∧
          wOut g' * (g'.M : C) * g'.w = 1 :=
        fun g' hg' => hgs g' (by simp [hg'])
      simp only [List.map_cons, fastBackwardN]
      rw [show (fun k => fastBackwardN T E (gs.map fun g => { g with emu := e1 })
              (fun idx => F (k :: idx)) js')
            = fun k => fastBackwardN T E (gs.map fun g => { g with emu := e2 })
              (fun idx => F (k :: idx)) js' from
          funext fun k => ih hrest _ _ hjs']
      exact fft_emulate_switch_independent_backward hT hE hper g hN hMo hc (wOut g) hw e1 e2 _ j hj

/-- satisfiability of both `n`-axis bundles: the two axes of the 2-D example, output index `[2, 5]`,
input index `[1, 2]` -/
example : ∃ (T E : ℝ → ℂ) (wOut : Cfg ℝ ℂ → ℂ) (gs : List (Cfg ℝ ℂ)) (ks js : List ℕ),
    IsChar T ∧ IsChar E ∧ (∀ n : ℤ, T (n : ℝ) = 1) ∧
    (∀ g ∈ gs, g.N ≤ g.M ∧ g.Mo ≤ g.M ∧ g.dT * (g.M : ℝ) * g.δ = 1 ∧ wOut g * (g.M : ℂ) * g.w = 1) ∧
    List.Forall₂ (fun k g => k < g.Mo) ks gs ∧ List.Forall₂ (fun j g => j < g.N) js gs :=
  ⟨expT, expE, fun g => 1 / (g.M : ℂ),
    [{ N := 2, M := 4, Mo := 3, δ := 1 / 2, z := 0, dT := 1 / 2, s := 0, w := 1, emu := false },
     { N := 3, M := 6, Mo := 6, δ := 1 / 3, z := -1, dT := 1 / 2, s := 1, w := 1, emu := false }],
    [2, 5], [1, 2], expT_isChar, expE_isChar, expT_period, by simp; norm_num,
    List.Forall₂.cons (by norm_num) (List.Forall₂.cons (by norm_num) List.Forall₂.nil),
    List.Forall₂.cons (by norm_num) (List.Forall₂.cons (by norm_num) List.Forall₂.nil)⟩

/-! ### `MatrixFourierTransform`: `precompute_matrices`, `allocate_intermediate`, the weights branch -/

/-- **The switch model of C19 runs C01's transform**: a fresh `MatrixFourierTransform` object with both
switches off, over the concrete kernel `mftKern` (Model/FourierConfig.lean: `mftM1`/`mftM2`, the two
`gemm`s), *is* C01's `mftForward` / `mftBackward` — by unfolding, for both weight branches. -/
theorem mftKern_fresh (E : K → C) (cj : C → C) (Nx Ny Nu Nv : ℕ) (x y u v : ℕ → K)
    (w wOut : Weights C) (d : Dir) (p : CPrec) (f : ℕ → C) :
    mftFresh (mftKern E cj Nx Ny Nu Nv x y u v w wOut) d p f =
      match d with
      | .fwd => mftForward E Nx Ny Nu Nv x y u v w f
      | .bwd => mftBackward E cj Nx Ny Nu Nv x y u v wOut f := by
  rw [mftFresh, (mftCall_spec _ false false {} (keyed_empty _) d p f).1]
  cases d
  · cases w <;> rfl
  · cases wOut <;> rfl

/-- **C19's `mft_switch_independent` at C01's kernel**: for every call script on one reused
`MatrixFourierTransform` object (any mixture of forward / backward, complex64 / complex128) and every
setting of `precompute_matrices` (`pre`) and `allocate_intermediate` (`alloc`), call number `i` returns
C01's `mftForward` resp. `mftBackward` of its own input.  Rests on `mft_switch_independent` (this file)
and `mftKern_fresh`. -/
theorem mft_switch_independent_concrete (E : K → C) (cj : C → C) (Nx Ny Nu Nv : ℕ)
    (x y u v : ℕ → K) (w wOut : Weights C) (pre alloc : Bool)
    (script : List (Dir × CPrec × (ℕ → C))) :
    mftRun (mftKern E cj Nx Ny Nu Nv x y u v w wOut) pre alloc script =
      script.map fun s =>
        match s.1 with
        | .fwd => mftForward E Nx Ny Nu Nv x y u v w s.2.2
        | .bwd => mftBackward E cj Nx Ny Nu Nv x y u v wOut s.2.2 := by
  rw [mft_switch_independent]
  exact List.map_congr_left fun s _ => mftKern_fresh E cj Nx Ny Nu Nv x y u v w wOut s.1 s.2.1 s.2.2

/-- **MFT: every switch combination returns the defining sum.**  For every script, every
`(precompute_matrices, allocate_intermediate)`, every weights branch (scalar / array), the `i`-th call of
the reused object returns, at every in-range flat index, C01's defining double sum (`mftSumForward` /
`mftSumBackward`, the executed right-hand sides of C01).  Rests on `mft_switch_independent_concrete` and
on `mftForward_eq_mftSumForward` / `mftBackward_eq_mftSumBackward` (Lemmas/Mft.lean; C01 publishes them
as `mft_eq_sum_2d`, `mft_eq_sum_2d_scalar`, `mft_backward_eq_sum_2d_weights`). -/
theorem mft_branch_independent (hE : IsChar E) (cj : C → C) (hcj : ∀ a, cj (E a) = E (-a))
    (Nx Ny Nu Nv : ℕ) (x y u v : ℕ → K) (w wOut : Weights C) (pre alloc : Bool)
    (script : List (Dir × CPrec × (ℕ → C))) (i : ℕ) (d : Dir) (p : CPrec) (f : ℕ → C)
    (hs : script[i]? = some (d, p, f)) :
    ∃ r, (mftRun (mftKern E cj Nx Ny Nu Nv x y u v w wOut) pre alloc script)[i]? = some r ∧
      match (generalizing := false) d with
      | .fwd => ∀ k < Nv * Nu, r k = mftSumForward E Nx Ny Nu x y u v w f k
      | .bwd => ∀ k < Ny * Nx, r k = mftSumBackward E Nx Nu Nv x y u v wOut f k := by
  rw [mft_switch_independent_concrete, List.getElem?_map, hs]
  refine ⟨_, rfl, ?_⟩
  cases d
  · intro k hk
    exact mftForward_eq_mftSumForward hE Nx Ny Nu Nv x y u v w f hk
  · intro k hk
    exact mftBackward_eq_mftSumBackward hE cj hcj Nx Ny Nu Nv x y u v wOut f hk

/-- satisfiability: `Complex.exp`, complex conjugation, a one-call script -/
example : ∃ (E : ℝ → ℂ) (cj : ℂ → ℂ) (script : List (Dir × CPrec × (ℕ → ℂ))) (i : ℕ) (d : Dir)
    (p : CPrec) (f : ℕ → ℂ), IsChar E ∧ (∀ a, cj (E a) = E (-a)) ∧ script[i]? = some (d, p, f) :=
  ⟨expE, starRingEnd ℂ, [(.bwd, .c64, fun _ => 1)], 0, .bwd, .c64, fun _ => 1, expE_isChar, expE_conj, rfl⟩

/-- hence any two settings of the two MFT switches give the same list of results (no hypothesis: this
is already true before the sums are evaluated) -/
theorem mft_switch_pair_independent (E : K → C) (cj : C → C) (Nx Ny Nu Nv : ℕ)
    (x y u v : ℕ → K) (w wOut : Weights C) (pre1 alloc1 pre2 alloc2 : Bool)
    (script : List (Dir × CPrec × (ℕ → C))) :
    mftRun (mftKern E cj Nx Ny Nu Nv x y u v w wOut) pre1 alloc1 script
      = mftRun (mftKern E cj Nx Ny Nu Nv x y u v w wOut) pre2 alloc2 script := by
  rw [mft_switch_independent_concrete, mft_switch_independent_concrete]

/-- **The weights branch of the MFT** (`if np.isscalar(weights)`: `alpha = w0` folded into the second
`gemm`, or `field * weights` before the first) is not a configuration switch but the other
data-dependent code path C01 models: on constant weights both branches return the same samples, forward
and backward.  Rests on `C01.mft_eq_sum_2d`, `C01.mft_eq_sum_2d_scalar`,
`C01.mft_backward_eq_sum_2d_weights`. -/
theorem mft_weights_branch_independent (hE : IsChar E) (cj : C → C) (hcj : ∀ a, cj (E a) = E (-a))
    (Nx Ny Nu Nv : ℕ) (x y u v : ℕ → K) (w0 : C) (f : ℕ → C) :
    (∀ iu iv, iu < Nu → iv < Nv →
      mftForward E Nx Ny Nu Nv x y u v (.scalar w0) f (iv * Nu + iu)
        = mftForward E Nx Ny Nu Nv x y u v (.array fun _ => w0) f (iv * Nu + iu)) ∧
    (∀ ix iy, ix < Nx →
      mftBackward E cj Nx Ny Nu Nv x y u v (.scalar w0) f (iy * Nx + ix)
        = mftBackward E cj Nx Ny Nu Nv x y u v (.array fun _ => w0) f (iy * Nx + ix)) := by
  constructor
  · intro iu iv hiu hiv
    rw [C01.mft_eq_sum_2d_scalar hE Nx Ny Nu Nv x y u v w0 (fun _ => w0) f (fun _ => rfl) iu iv hiu hiv,
      C01.mft_eq_sum_2d hE Nx Ny Nu Nv x y u v (fun _ => w0) f iu iv hiu hiv]
  · intro ix iy hix
    rw [C01.mft_backward_eq_sum_2d_weights hE cj hcj Nx Ny Nu Nv x y u v (.scalar w0) f ix iy hix,
      C01.mft_backward_eq_sum_2d_weights hE cj hcj Nx Ny Nu Nv x y u v (.array fun _ => w0) f ix iy hix]
    rfl

example : ∃ (E : ℝ → ℂ) (cj : ℂ → ℂ), IsChar E ∧ ∀ a, cj (E a) = E (-a) :=
  ⟨expE, starRingEnd ℂ, expE_isChar, expE_conj⟩

/-- **`NaiveFourierTransform.precompute_matrices`** as a pair of code paths of C01's transform model:
the list comprehension over output points (`False`) and the precomputed matrix (`True`) return the same
sample, forward and backward, on arbitrary points in any number of dimensions.  Rests on
`C01.naive_forward_eq_sum`, `C01.naive_backward_eq_sum`.  (The caching around it: `nft_switch_independent`.) -/
theorem nft_precompute_branch_independent (E : K → C) (n m : ℕ) (us xs : List (ℕ → K))
    (w wOut f F : ℕ → C) (k j : ℕ) :
    nftForwardFly E n us xs w f k = nftForwardMat E n us xs w f k ∧
    nftBackwardFly E m us xs wOut F j = nftBackwardMat E m us xs wOut F j := by
  obtain ⟨h1, h2⟩ := C01.naive_forward_eq_sum (E := E) n us xs w f k
  obtain ⟨h3, h4⟩ := C01.naive_backward_eq_sum (E := E) m us xs wOut F j
  exact ⟨h1.trans h2.symm, h3.trans h4.symm⟩

/-! ### all switches together -/

/-- **No Fourier configuration switch changes a modelled result.**  For all values of
`emulate_fftshifts` (`e1`, `e2`) and of `(precompute_matrices, allocate_intermediate)`
(`(pre1, alloc1)`, `(pre2, alloc2)`): `FastFourierTransform.forward` and `.backward` (one axis; 2-D and
`n`-D: `fft_emulate_switch_independent_2d`, `…_nd`) are the same function of the input, and every call
script on a reused `MatrixFourierTransform` returns the same list of results.  Rests on
`fft_emulate_switch_independent`, `fft_emulate_switch_independent_backward`,
`mft_switch_pair_independent`. -/
theorem fourier_config_independent (hT : IsChar T) (hE : IsChar E) (hper : ∀ n : ℤ, T (n : K) = 1)
    (g : Cfg K C) (hN : g.N ≤ g.M) (hMo : g.Mo ≤ g.M) (hcons : g.dT * (g.M : K) * g.δ = 1)
    (wo : C) (hw : wo * (g.M : C) * g.w = 1)
    (cj : C → C) (Nx Ny Nu Nv : ℕ) (x y u v : ℕ → K) (w wOut : Weights C)
    (e1 e2 pre1 alloc1 pre2 alloc2 : Bool) :
    (∀ f k, k < g.Mo →
      fastForward T E { g with emu := e1 } f k = fastForward T E { g with emu := e2 } f k) ∧
    (∀ F j, j < g.N →
      fastBackward T E { g with emu := e1 } F j = fastBackward T E { g with emu := e2 } F j) ∧
    (∀ script, mftRun (mftKern E cj Nx Ny Nu Nv x y u v w wOut) pre1 alloc1 script
      = mftRun (mftKern E cj Nx Ny Nu Nv x y u v w wOut) pre2 alloc2 script) :=
  ⟨fun f k hk => fft_emulate_switch_independent hT hE hper g hN hMo hcons e1 e2 f k hk,
    fun F j hj => fft_emulate_switch_independent_backward hT hE hper g hN hMo hcons wo hw e1 e2 F j hj,
    fun script => mft_switch_pair_independent E cj Nx Ny Nu Nv x y u v w wOut pre1 alloc1 pre2 alloc2 script⟩

example : ∃ (T E : ℝ → ℂ) (g : Cfg ℝ ℂ) (wo : ℂ), IsChar T ∧ IsChar E ∧
    (∀ n : ℤ, T (n : ℝ) = 1) ∧ g.N ≤ g.M ∧ g.Mo ≤ g.M ∧ g.dT * (g.M : ℝ) * g.δ = 1 ∧
    wo * (g.M : ℂ) * g.w = 1 :=
  ⟨expT, expE, { N := 2, M := 4, Mo := 3, δ := 1 / 2, z := 0, dT := 1 / 2, s := 0, w := 1, emu := false },
    1 / 4, expT_isChar, expE_isChar, expT_period, by norm_num, by norm_num, by norm_num, by norm_num⟩

end abstract

/-! ### `Complex.exp`, configuration out of `plan`: no hypothesis on sizes or spacings -/

/-- **`emulate_fftshifts` on the FastFourierTransform that `plan` describes** (`Model/FftGrid.lean`, the
sizes / cut-outs / output grid the real constructor reports), `T = exp(2πi·)`, `E = exp(i·)`: for every
request the constructor accepts, every weight, the two settings of the switch give the same `forward`
sample.  Rests on `C01.fast_forward_of_plan`. -/
theorem fft_emulate_switch_independent_of_plan (a : AxisIn) (hN : 0 < a.N) (hδ : a.delta ≠ 0)
    (hq : 1 ≤ a.q) (hf : a.fov ≤ 1) (w : ℂ) (e1 e2 : Bool) (f : ℕ → ℂ) (k : ℕ)
    (hk : k < (plan a).Mo) :
    fastForward expT expE (Cfg.ofPlanCast (Rat.castHom ℝ) (plan a) w e1) f k
      = fastForward expT expE (Cfg.ofPlanCast (Rat.castHom ℝ) (plan a) w e2) f k := by
  have h1 := C01.fast_forward_of_plan a hN hδ hq hf w e1 f k hk
  have h2 := C01.fast_forward_of_plan a hN hδ hq hf w e2 f k hk
  simp only at h1 h2
  rw [h1, h2]
  rfl

/-- satisfiability (the D4 request `N = 87, q = 5/2`) -/
example : ∃ a : AxisIn, 0 < a.N ∧ a.delta ≠ 0 ∧ 1 ≤ a.q ∧ a.fov ≤ 1 ∧ 0 < (plan a).Mo :=
  ⟨⟨87, 1 / 4, -3, 5 / 2, 1, 0⟩, by decide +kernel, by decide +kernel, by decide +kernel,
    by decide +kernel, by decide +kernel⟩

/-- **Across implementations and switches** (`Complex.exp`, one axis): `FastFourierTransform.forward`
with either setting of `emulate_fftshifts` equals `MatrixFourierTransform.forward` (ndim = 1, where
neither MFT switch has any effect on the code path: `np.dot(M, f)`) on the same coordinates.  Rests on
`C01.implementations_agree'`. -/
theorem fft_any_switch_eq_mft (g : Cfg ℝ ℂ) (hN0 : 0 < g.N) (hN : g.N ≤ g.M) (hMo : g.Mo ≤ g.M)
    (hcons : g.dT * (g.M : ℝ) * g.δ = 1) (e : Bool) (f : ℕ → ℂ) (k : ℕ) (hk : k < g.Mo) :
    fastForward expT expE { g with emu := e } f k
      = mftForward1 expE g.N g.x (fun k => 2 * Real.pi * g.a k + g.s) (.scalar g.w) f k :=
  (C01.implementations_agree' { g with emu := e } hN0 hN hMo hcons (g.N + g.Mo - 1) le_rfl f k hk).1

example : ∃ (g : Cfg ℝ ℂ) (k : ℕ), 0 < g.N ∧ g.N ≤ g.M ∧ g.Mo ≤ g.M ∧
    g.dT * (g.M : ℝ) * g.δ = 1 ∧ k < g.Mo :=
  ⟨{ N := 2, M := 4, Mo := 3, δ := 1 / 2, z := 0, dT := 1 / 2, s := 0, w := 1, emu := false },
    2, by norm_num, by norm_num, by norm_num, by norm_num, by norm_num⟩

end FourierConfig


section References
open HcipyVerif.FieldRef

/-- `x[i] = v` writes through: `x` reads `v` at `i`; every variable whose window lies on the same buffer
(alias, view, `asarray`, …) reads `v` exactly at the positions that look at the written cell and its old
value elsewhere; every variable on another buffer reads what it read before (frame).  Any style. -/
theorem write_through (sty : Sty) (s s' : State) (x i : Nat) (v : Int)
    (h : step sty (.write x i v) s = some s') :
    ∃ ox p, lookup s.vars x = some ox ∧ ox.idx[i]? = some p ∧
      s'.vars = s.vars ∧ s'.grids = s.grids ∧
      readVarAt s' x i = some v ∧
      (∀ y oy, lookup s.vars y = some oy → oy.buf = ox.buf → ∀ j,
        (oy.idx[j]? = some p → readVarAt s' y j = some v) ∧
        (oy.idx[j]? ≠ some p → readVarAt s' y j = readVarAt s y j)) ∧
      (∀ y oy, lookup s.vars y = some oy → oy.buf ≠ ox.buf →
        readVar s' y = readVar s y ∧ ∀ j, readVarAt s' y j = readVarAt s y j) := by
  obtain ⟨ox, p, w, hx, hp, hw, rfl⟩ := write_spec h
  have key : ∀ y oy, lookup s.vars y = some oy → ∀ j,
      readVarAt (withBufs s (setCell s.bufs ox.buf p v)) y j
        = if oy.buf = ox.buf ∧ oy.idx[j]? = some p then some v else readVarAt s y j := by
    intro y oy hy j
    simp only [readVarAt, withBufs, hy]
    exact readAt_setCell s.bufs ox.buf p v hw oy j
  refine ⟨ox, p, hx, hp, rfl, rfl, ?_, ?_, ?_⟩
  · rw [key x ox hx i]; simp [hp]
  · intro y oy hy hb j
    constructor
    · intro hj; rw [key y oy hy j]; simp [hb, hj]
    · intro hj; rw [key y oy hy j]; simp [hj]
  · intro y oy hy hb
    constructor
    · simp only [readVar, withBufs, hy, values]
      rw [read_setCell_other s.bufs ox.buf p v hw oy hb]
    · intro j; rw [key y oy hy j]; simp [hb]

example : step good (.write 0 1 9) ⟨[[1, 2, 3]], [7], [(0, ⟨0, [0, 1, 2], some 0⟩)]⟩
    = some ⟨[[1, 9, 3]], [7], [(0, ⟨0, [0, 1, 2], some 0⟩)]⟩ := by decide

/-- `x += v` writes through: every position of every variable on the same buffer whose cell lies in
`x`'s window reads `+ v`, every other position (and every variable on another buffer) is unchanged. -/
theorem iadd_through (sty : Sty) (s s' : State) (x : Nat) (v : Int)
    (h : step sty (.iadd x v) s = some s') :
    ∃ ox, lookup s.vars x = some ox ∧ s'.vars = s.vars ∧ s'.grids = s.grids ∧
      (∀ j, readVarAt s' x j = (readVarAt s x j).map (· + v)) ∧
      (∀ y oy, lookup s.vars y = some oy → oy.buf = ox.buf → ∀ j q, oy.idx[j]? = some q →
        readVarAt s' y j = if q ∈ ox.idx then (readVarAt s y j).map (· + v) else readVarAt s y j) ∧
      (∀ y oy, lookup s.vars y = some oy → oy.buf ≠ ox.buf →
        readVar s' y = readVar s y ∧ ∀ j, readVarAt s' y j = readVarAt s y j) := by
  simp only [step] at h
  split at h
  · rename_i ox hx
    split at h
    · cases h
      have key : ∀ y oy, lookup s.vars y = some oy → ∀ j,
          readVarAt (withBufs s (addCells s.bufs ox.buf ox.idx v)) y j
            = if oy.buf = ox.buf ∧ (∃ q, oy.idx[j]? = some q ∧ q ∈ ox.idx)
              then (readVarAt s y j).map (· + v) else readVarAt s y j := by
        intro y oy hy j
        simp only [readVarAt, withBufs, hy]
        exact readAt_addCells s.bufs ox.buf ox.idx v oy j
      refine ⟨ox, hx, rfl, rfl, ?_, ?_, ?_⟩
      · intro j
        rw [key x ox hx j]
        cases hq : ox.idx[j]? with
        | none => simp [readVarAt, hx, readAt, hq]
        | some q =>
          have : q ∈ ox.idx := List.mem_of_getElem? hq
          simp [this]
      · intro y oy hy hb j q hq
        rw [key y oy hy j]
        simp [hb, hq]
      · intro y oy hy hb
        constructor
        · simp only [readVar, withBufs, hy, values]
          rw [read_addCells_other s.bufs ox.buf ox.idx v oy hb]
        · intro j; rw [key y oy hy j]; simp [hb]
    · cases h
  · cases h

example : step good (.iadd 1 10) ⟨[[1, 2, 3]], [7], [(1, ⟨0, [0, 2], some 0⟩), (0, ⟨0, [0, 1, 2], some 0⟩)]⟩
    = some ⟨[[11, 2, 13]], [7], [(1, ⟨0, [0, 2], some 0⟩), (0, ⟨0, [0, 1, 2], some 0⟩)]⟩ := by decide

/-- After `y = x.copy()` (any style): `y` reads exactly what `x` read, `x` still reads the same, `y`'s
buffer did not exist before (its id is the old `bufs.length`), `y`'s grid object is `x`'s grid object, no
grid object is created, and every other variable keeps its object and its values. -/
theorem copy_fresh_same_values (sty : Sty) (s s' : State) (y x : Nat)
    (h : step sty (.copy y x) s = some s') :
    ∃ ox oy vals, lookup s.vars x = some ox ∧ readVar s x = some vals ∧
      lookup s'.vars y = some oy ∧ readVar s' y = some vals ∧ readVar s' x = some vals ∧
      oy.buf = s.bufs.length ∧ s'.bufs.length = s.bufs.length + 1 ∧
      oy.grid = ox.grid ∧ s'.grids = s.grids ∧
      (∀ z, y ≠ z → lookup s'.vars z = lookup s.vars z ∧
        ∀ w, readVar s z = some w → readVar s' z = some w) := by
  simp only [step] at h
  split at h
  · rename_i ox hx
    obtain ⟨vals, hv, rfl⟩ := copyOf_spec h
    have hrx : readVar s x = some vals := by simp only [readVar, hx]; exact hv
    refine ⟨ox, _, vals, hx, hrx, lookup_fresh_self _ _ _ _, readVar_fresh_self _ _ _ _, ?_,
      rfl, by simp [fresh], rfl, rfl, ?_⟩
    · by_cases hyx : y = x
      · subst hyx; exact readVar_fresh_self _ _ _ _
      · exact readVar_fresh_ne _ _ _ _ _ hyx hrx
    · intro z hz
      exact ⟨lookup_fresh_ne _ _ _ _ _ hz, fun w hw => readVar_fresh_ne _ _ _ _ _ hz hw⟩
  · cases h

example : step good (.copy 1 0) ⟨[[1, 2, 3]], [7], [(0, ⟨0, [0, 1, 2], some 0⟩)]⟩
    = some ⟨[[1, 2, 3], [1, 2, 3]], [7],
        [(1, ⟨1, [0, 1, 2], some 0⟩), (0, ⟨0, [0, 1, 2], some 0⟩)]⟩ := by decide

/-- After `y = pickle.loads(pickle.dumps(x))` (any style): `y` reads exactly what `x` read, `x` still reads
the same, `y`'s buffer is fresh, and — if `x` is a Field — `y`'s grid is a FRESH grid object (id = old
`grids.length`) whose content equals the content of `x`'s grid; a bare array stays bare and no grid is
created.  Every other variable keeps its object and its values. -/
theorem pickle_fresh_buffer_fresh_equal_grid (sty : Sty) (s s' : State) (y x : Nat)
    (h : step sty (.pickle y x) s = some s') :
    ∃ ox oy vals, lookup s.vars x = some ox ∧ readVar s x = some vals ∧
      lookup s'.vars y = some oy ∧ readVar s' y = some vals ∧ readVar s' x = some vals ∧
      oy.buf = s.bufs.length ∧ s'.bufs.length = s.bufs.length + 1 ∧
      (match ox.grid with
        | some g => ∃ c, s.grids[g]? = some c ∧ oy.grid = some s.grids.length ∧
            s'.grids = s.grids ++ [c] ∧ s'.grids[s.grids.length]? = some c
        | none => oy.grid = none ∧ s'.grids = s.grids) ∧
      (∀ z, y ≠ z → lookup s'.vars z = lookup s.vars z ∧
        ∀ w, readVar s z = some w → readVar s' z = some w) := by
  simp only [step] at h
  split at h
  · rename_i ox hx
    split at h
    · rename_i g hg
      split at h
      · rename_i c hc
        obtain ⟨vals, hv, rfl⟩ := copyOf_spec h
        have hrx : readVar (addGrid s c) x = some vals := by
          simp only [readVar, addGrid, hx]; exact hv
        refine ⟨ox, _, vals, hx, hrx, lookup_fresh_self _ _ _ _, readVar_fresh_self _ _ _ _, ?_,
          rfl, by simp [fresh, addGrid], ?_, ?_⟩
        · by_cases hyx : y = x
          · subst hyx; exact readVar_fresh_self _ _ _ _
          · exact readVar_fresh_ne _ _ _ _ _ hyx hrx
        · rw [hg]
          exact ⟨c, hc, rfl, rfl, by simp [fresh, addGrid]⟩
        · intro z hz
          exact ⟨lookup_fresh_ne (addGrid s c) _ _ _ _ hz,
            fun w hw => readVar_fresh_ne (addGrid s c) _ _ _ _ hz hw⟩
      · cases h
    · rename_i hg
      obtain ⟨vals, hv, rfl⟩ := copyOf_spec h
      have hrx : readVar s x = some vals := by simp only [readVar, hx]; exact hv
      refine ⟨ox, _, vals, hx, hrx, lookup_fresh_self _ _ _ _, readVar_fresh_self _ _ _ _, ?_,
        rfl, by simp [fresh], ?_, ?_⟩
      · by_cases hyx : y = x
        · subst hyx; exact readVar_fresh_self _ _ _ _
        · exact readVar_fresh_ne _ _ _ _ _ hyx hrx
      · rw [hg]
        exact ⟨rfl, rfl⟩
      · intro z hz
        exact ⟨lookup_fresh_ne _ _ _ _ _ hz, fun w hw => readVar_fresh_ne _ _ _ _ _ hz hw⟩
  · cases h

example : step good (.pickle 1 0) ⟨[[1, 2, 3]], [7], [(0, ⟨0, [0, 1, 2], some 0⟩)]⟩
    = some ⟨[[1, 2, 3], [1, 2, 3]], [7, 7],
        [(1, ⟨1, [0, 1, 2], some 1⟩), (0, ⟨0, [0, 1, 2], some 0⟩)]⟩ := by decide

/-- Core of the independence statements: a variable bound to a fresh buffer is not affected by a later
write through a variable that was readable before. -/
theorem fresh_write_independent (sty : Sty) (s s2 : State) (y x : Nat) (vals : List Int)
    (g : Option Nat) (i : Nat) (v : Int) (hxy : y ≠ x) {w : List Int} (hr : readVar s x = some w)
    (h : step sty (.write x i v) (fresh s y vals g) = some s2) : readVar s2 y = some vals := by
  obtain ⟨ox, p, a, hx, hp, ha, rfl⟩ := write_spec h
  rw [lookup_fresh_ne s y vals g x hxy] at hx
  have hv : values s.bufs ox = some w := by simpa only [readVar, hx] using hr
  obtain ⟨a', ha', _⟩ := values_cell hv hp
  have hlt : ox.buf < s.bufs.length := cell_some_lt ha'
  have hne : (⟨s.bufs.length, List.range vals.length, g⟩ : Obj).buf ≠ ox.buf := by
    simp only; omega
  have := readVar_fresh_self s y vals g
  simp only [readVar, withBufs, lookup_fresh_self, values] at this ⊢
  rw [read_setCell_other _ ox.buf p v ha _ hne]
  exact this

/-- After `y = x.copy()` (`y ≠ x`) and a successful `x[i] = v`, `y` still reads the values `x` had at the
time of the copy, i.e. what `y` read before the write. -/
theorem copy_independent (sty : Sty) (s s2 : State) (y x i : Nat) (v : Int) (hxy : y ≠ x)
    (h : run sty [.copy y x, .write x i v] s = .ok s2) :
    ∃ s1 vals, step sty (.copy y x) s = some s1 ∧ readVar s x = some vals ∧
      readVar s1 y = some vals ∧ readVar s2 y = some vals := by
  obtain ⟨s1, h1, h2⟩ := run_two h
  refine ⟨s1, ?_⟩
  simp only [step] at h1
  split at h1
  · rename_i ox hx
    obtain ⟨vals, hv, rfl⟩ := copyOf_spec h1
    have hrx : readVar s x = some vals := by simp only [readVar, hx]; exact hv
    exact ⟨vals, by simp only [step, hx, copyOf, hv], hrx, readVar_fresh_self _ _ _ _,
      fresh_write_independent sty s s2 y x vals _ i v hxy hrx h2⟩
  · cases h1

example : run good [.copy 1 0, .write 0 0 9] ⟨[[1, 2, 3]], [7], [(0, ⟨0, [0, 1, 2], some 0⟩)]⟩
    = .ok ⟨[[9, 2, 3], [1, 2, 3]], [7],
        [(1, ⟨1, [0, 1, 2], some 0⟩), (0, ⟨0, [0, 1, 2], some 0⟩)]⟩ := rfl

/-- After `y = pickle.loads(pickle.dumps(x))` (`y ≠ x`) and a successful `x[i] = v`, `y` still reads the
values `x` had at pickling time. -/
theorem pickle_independent (sty : Sty) (s s2 : State) (y x i : Nat) (v : Int) (hxy : y ≠ x)
    (h : run sty [.pickle y x, .write x i v] s = .ok s2) :
    ∃ s1 vals, step sty (.pickle y x) s = some s1 ∧ readVar s x = some vals ∧
      readVar s1 y = some vals ∧ readVar s2 y = some vals := by
  obtain ⟨s1, h1, h2⟩ := run_two h
  refine ⟨s1, ?_⟩
  have h1' := h1
  simp only [step] at h1
  split at h1
  · rename_i ox hx
    split at h1
    · split at h1
      · rename_i c hc
        obtain ⟨vals, hv, rfl⟩ := copyOf_spec h1
        have hrx : readVar (addGrid s c) x = some vals := by
          simp only [readVar, addGrid, hx]; exact hv
        exact ⟨vals, h1', hrx, readVar_fresh_self _ _ _ _,
          fresh_write_independent sty (addGrid s c) s2 y x vals _ i v hxy hrx h2⟩
      · cases h1
    · obtain ⟨vals, hv, rfl⟩ := copyOf_spec h1
      have hrx : readVar s x = some vals := by simp only [readVar, hx]; exact hv
      exact ⟨vals, h1', hrx, readVar_fresh_self _ _ _ _,
        fresh_write_independent sty s s2 y x vals _ i v hxy hrx h2⟩
  · cases h1

example : run good [.pickle 1 0, .write 0 0 9] ⟨[[1, 2, 3]], [7], [(0, ⟨0, [0, 1, 2], some 0⟩)]⟩
    = .ok ⟨[[9, 2, 3], [1, 2, 3]], [7, 7],
        [(1, ⟨1, [0, 1, 2], some 1⟩), (0, ⟨0, [0, 1, 2], some 0⟩)]⟩ := rfl

/-- Under the intended style, after `y = np.array(x, dtype=x.dtype)` (`y ≠ x`) and a successful
`x[i] = v`, `y` still reads the values `x` had before; `y` is a bare array on a fresh buffer. -/
theorem array_independent (s s2 : State) (y x i : Nat) (v : Int) (hxy : y ≠ x)
    (h : run good [.array y x, .write x i v] s = .ok s2) :
    ∃ s1 vals, step good (.array y x) s = some s1 ∧ readVar s x = some vals ∧
      readVar s1 y = some vals ∧ readVar s2 y = some vals ∧
      lookup s1.vars y = some ⟨s.bufs.length, List.range vals.length, none⟩ := by
  obtain ⟨s1, h1, h2⟩ := run_two h
  refine ⟨s1, ?_⟩
  have h1' := h1
  simp only [step] at h1
  split at h1
  · rename_i ox hx
    simp only [good, Bool.false_eq_true, if_false] at h1
    obtain ⟨vals, hv, rfl⟩ := copyOf_spec h1
    have hrx : readVar s x = some vals := by simp only [readVar, hx]; exact hv
    exact ⟨vals, h1', hrx, readVar_fresh_self _ _ _ _,
      fresh_write_independent good s s2 y x vals _ i v hxy hrx h2, lookup_fresh_self _ _ _ _⟩
  · cases h1

example : run good [.array 1 0, .write 0 0 9] ⟨[[1, 2, 3]], [7], [(0, ⟨0, [0, 1, 2], some 0⟩)]⟩
    = .ok ⟨[[9, 2, 3], [1, 2, 3]], [7],
        [(1, ⟨1, [0, 1, 2], none⟩), (0, ⟨0, [0, 1, 2], some 0⟩)]⟩ := rfl

/-- Under the intended style a slice is a VIEW: after `y = x[start : start+step*len : step]` (`y ≠ x`) and a
successful `x[start + k*step] = v` with `k < len`, `y` reads `v` at position `k`. -/
theorem view_shares (s s2 : State) (y x start stp len i k : Nat) (v : Int) (hxy : y ≠ x)
    (hi : i = start + k * stp) (hk : k < len)
    (h : run good [.slice y x start stp len, .write x i v] s = .ok s2) :
    readVarAt s2 y k = some v := by
  obtain ⟨s1, h1, h2⟩ := run_two h
  simp only [step] at h1
  split at h1
  · rename_i ox hx
    split at h1
    · cases h1
    · split at h1
      · rename_i idx' hidx
        simp only [good, Bool.false_eq_true, if_false, Option.some.injEq] at h1
        subst h1
        obtain ⟨ox', p, w, hx', hp, hw, rfl⟩ := write_spec h2
        simp only [HcipyVerif.FieldRef.bind] at hx' hw ⊢
        rw [lookup_cons_ne _ _ _ _ hxy] at hx'
        rw [hx] at hx'
        cases hx'
        obtain ⟨q, hq1, hq2⟩ := allSome_getElem? hidx k (by simpa using hk)
        simp only [List.getElem?_map, List.getElem?_range hk, Option.map_some,
          Option.some.injEq] at hq1
        rw [← hi, hp] at hq1
        cases hq1
        simp only [readVarAt, withBufs, lookup_cons_self]
        rw [readAt_setCell _ _ _ _ hw]
        simp [hq2]
      · cases h1
  · cases h1

example : run good [.slice 1 0 1 2 2, .write 0 3 9]
      ⟨[[1, 2, 3, 4, 5]], [7], [(0, ⟨0, [0, 1, 2, 3, 4], some 0⟩)]⟩
    = .ok ⟨[[1, 2, 3, 9, 5]], [7],
        [(1, ⟨0, [1, 3], some 0⟩), (0, ⟨0, [0, 1, 2, 3, 4], some 0⟩)]⟩ := rfl

/-- The script `f = Field([1,2,3,4], Grid(7)); g = f[0:2]; f[0] = 9`: a wrapper whose slices copy loses the write: the intended style makes the view read `9` at position
`0`, the defective one leaves it at `1`. -/
theorem Bad.slice_copy_loses_write :
    (∃ s, run good [.new 0 7 [1, 2, 3, 4], .slice 1 0 0 1 2, .write 0 0 9] {} = .ok s ∧ readVar s 1 = some [9, 2] ∧ readVarAt s 1 0 = some 9) ∧
    (∃ s, run badSlice [.new 0 7 [1, 2, 3, 4], .slice 1 0 0 1 2, .write 0 0 9] {} = .ok s ∧ readVar s 1 = some [1, 2] ∧ readVarAt s 1 0 = some 1) :=
  ⟨⟨_, rfl, by decide, by decide⟩, ⟨_, rfl, by decide, by decide⟩⟩

/-- The script `f = Field([1,2], Grid(7)); a = np.array(f, dtype=f.dtype); f[0] = 9` (seeded regression C19-8): a wrapper whose
`np.array(f, dtype=f.dtype)` hands out the wrapped buffer follows later writes: the
intended style leaves the array at `[1,2]`, the defective one makes it read `[9,2]`. -/
theorem Bad.array_share_follows_write :
    (∃ s, run good [.new 0 7 [1, 2], .array 1 0, .write 0 0 9] {} = .ok s ∧ readVar s 1 = some [1, 2]) ∧
    (∃ s, run badArray [.new 0 7 [1, 2], .array 1 0, .write 0 0 9] {} = .ok s ∧ readVar s 1 = some [9, 2]) :=
  ⟨⟨_, rfl, by decide⟩, ⟨_, rfl, by decide⟩⟩

/-- `array_independent` fails for the defective wrapper (its conclusion, not only its proof). -/
theorem Bad.array_independent_fails_badArray :
    ∃ s s2 y x i v, y ≠ x ∧ run badArray [.array y x, .write x i v] s = .ok s2 ∧
      readVar s2 y ≠ readVar s x :=
  ⟨⟨[[1, 2]], [7], [(0, ⟨0, [0, 1], some 0⟩)]⟩, ⟨[[9, 2]], [7],
    [(1, ⟨0, [0, 1], none⟩), (0, ⟨0, [0, 1], some 0⟩)]⟩, 1, 0, 0, 9, by decide, rfl, by decide⟩

end References

/-! ## The dispatch table of the running code (`Gen/FieldDispatch.lean`, regenerated on every run — tie T2)

`harness/props/c19.py:regenerate` probes every NumPy ufunc (operand kinds, `out=`, `where=`, `reduce` /
`accumulate` / `outer`, multi-output), the reductions with `axis` / `keepdims`, the index kinds of
`__getitem__` / `__setitem__` and the public `ndarray` attributes on an `OldStyleField` and a `NewStyleField`
of the running hcipy and writes what came back into `Gen.FieldDispatch.table` / `.attributes`.  The theorems
below are proof obligations *over that regenerated table*: an operation that the wrapper does not handle, or
re-wraps differently from the policies the two interpreters execute, makes them fail at build time — whether
or not a random program happens to use it.  The driver runs the same checks (`C19 dispatch`). -/
section Dispatch
open HcipyVerif.FieldDispatch

/-- **every probed operation is handled as the model's wrapping policies say, under both routes**: the kind of
object the running `OldStyleField` / `NewStyleField` handed back equals `predict oldPolicy` / `predict
newPolicy` — the rules `fnTag`, `Policy.ufunc`, `Policy.reduce`, `Policy.func`, `getitemTag` that `runO` /
`runN` execute.  (A finite table, regenerated from the running code; `decide`.) -/
theorem dispatch_table_handled_as_model :
    ∀ e ∈ Gen.FieldDispatch.table, e.old = predict oldPolicy e ∧ e.new = predict newPolicy e := by
  decide +kernel

/-- **every elementwise operation of the table returns a result attached to the same grid, under both
styles** (ufuncs incl. `out=`, `where=`, `accumulate`, `outer`, multi-output; a Field operand in any position;
non-0-d result) -/
theorem dispatch_elementwise_same_grid :
    ∀ e ∈ Gen.FieldDispatch.table, elementwise e = true → keepsGrid e.old = true ∧ keepsGrid e.new = true := by
  decide +kernel

/-- the same for *any* entry that is handled as the model says — not only the probed ones: the policies attach
the grid of the leftmost Field operand to every elementwise result (unbounded: any operand list) -/
theorem elementwise_entry_keeps_grid (e : Entry) (h : elementwise e = true) :
    keepsGrid (predict oldPolicy e) = true ∧ keepsGrid (predict newPolicy e) = true := by
  obtain ⟨name, kind, args, zeroD, o, n⟩ := e
  simp only [elementwise, Bool.and_eq_true, Bool.or_eq_true, beq_iff_eq, Bool.not_eq_true'] at h
  obtain ⟨⟨hk, hg⟩, hz⟩ := h
  subst hz
  rcases hk with rfl | rfl <;>
    simp [predict, fnTag, oldPolicy, newPolicy, hg, probeArr, obsOfTag, tupleOf, keepsGrid]

example : elementwise ⟨"add(a,f)", .fn .ufunc, [.plain, .field 0], false, .field, .field⟩ = true := by decide

/-- **the two styles differ only where the model says they do**: on 0-d results (scalar vs 0-d Field) and on
NumPy functions that drop subclasses (`np.where`, `np.copy`); every other probed operation returns the same kind
of object under both styles -/
theorem dispatch_styles_differ_only_where_stated :
    ∀ e ∈ Gen.FieldDispatch.table, e.old = e.new ∨ e.zeroD = true ∨ e.kind = .fn .func := by
  decide +kernel

/-- **no operation is missing on the wrapper**: no probed entry raises under either style, `__setitem__` writes
for every index kind, and every public `ndarray` attribute of an old-style Field exists on a new-style Field
except the listed layout / raw-bytes / file / device attributes (`knownMissing`) -/
theorem dispatch_nothing_missing :
    (∀ e ∈ Gen.FieldDispatch.table, e.old ≠ .raised ∧ e.new ≠ .raised ∧ (e.kind = .setitem → e.old = .wrote ∧ e.new = .wrote)) ∧
    (∀ a ∈ Gen.FieldDispatch.attributes, attrOk a = true) := by
  constructor <;> decide +kernel

end Dispatch

end HcipyVerif.C19
