import HcipyVerif.Lemmas.OpIR
import HcipyVerif.Lemmas.Effects
import HcipyVerif.Lemmas.EffectLoops
import HcipyVerif.Model.Elements
import Mathlib.Data.Complex.Basic
import Mathlib.Algebra.Order.Field.Rat
import Mathlib.Tactic.Linarith
import Mathlib.Tactic.NormNum

/-!
# C06 — every optical element is a linear (fibre injection: conjugate-linear), repeatable map that
leaves its input intact

Three models, tied to the code by harness/props/c06.py:

* `OpIR.Term` / `denote` — what an element computes.  `denote_linear`, `conj_linear`: **every** term
  with a definite parity is linear / conjugate-linear, over any commutative ring with a ring
  involution `cj` (instantiated at `ℂ` by `isConj_complex`); vectors are lists of any length.
  The terms are built in Lean by `Elements.familyTerm` from the parameters the harness reads off the
  element (driver op `C06 denote-family`); `family_parity`: every term of the table has the parity
  its family declares, hence is (conjugate-)linear (`family_semilinear`), also as executed at the
  driver's dyadic scalars (`family_semilinear_executed`) and applied component by component to a
  polarised field (`denoteBlocks`, `family_semilinear_blocks`, op `C06 denote-family-blocks`).
* `Effects.Prog` / `call` — what a call does to the objects it is given.  `safe_sound`: a program
  accepted by the static checker returns with the input wavefront's field *and* attributes exactly
  as they were, for every input value and every meaning of the array operations; `repeatable`:
  calling again (on what the first call left behind) gives the same result.  Grid and Stokes vector
  are heap objects of their own (`viewProg`, `safeAttr`, `safe_sound_attr`): several wavefronts may
  point to one grid, and an in-place update through any of them is rejected
  (`scaleSharedGridOld_*`, `copy_shares_grid_rejected`, `stokesInplaceOld_*`).  Every shipped effect
  program is accepted on all three heaps (`shipped_programs_safeAll`), the programs with a loop
  over scales / layers for every number of rounds (`shipped_loop_programs_safeAll`); the pinned tree's
  `VectorVortexCoronagraph.backward` is rejected and provably leaves `wavelength = 1`
  (`vvcBwdScalarOld_clobbers_wavelength`).  The driver op `C06 effects` runs `call` and the
  checkers; the harness compares identity / sharing of the result, the ordered trace of what is done
  to the input object and the number of wavefront objects created with the running code.
* `Effects.IProg` / `callI` / `runHistory` — what a call keeps inside the element
  (`history_independent`); driver op `C06 history` replays the harness's call / parameter-change
  histories and its hit / miss predictions are compared with observed recomputations.

Not modelled: hash collisions of the instance cache (C05), the Python object model beyond the
instruction set of `Effects.Instr`, rounding.  `chain` stands for compositions of arbitrary parts
(no frame theorem for sequential composition of calls).
-/
set_option linter.unusedSimpArgs false
set_option linter.unusedVariables false
set_option linter.unusedSectionVars false

namespace HcipyVerif.C06
open HcipyVerif.OpIR HcipyVerif.OpIR.Old HcipyVerif.Effects HcipyVerif.Elements

section Linear
variable {K : Type} [CommRing K] {cj : K → K}

/-- **Linearity.** For every operator term of linear parity, every scalar `a` and all vectors
`x`, `y` of equal length: `denote t (a•x + y) = a•denote t x + denote t y`. -/
theorem denote_linear (hc : IsConj cj) (t : Term K) (ht : parity t = some false) (a : K) (x y : List K)
    (h : x.length = y.length) :
    denote cj t (vadd (smul a x) y) = vadd (smul a (denote cj t x)) (denote cj t y) := by
  have := denote_semilinear hc t false ht a x y h
  simpa [lincomb, twist] using this

/-- **Conjugate-linearity** (fibre injection as the code writes it):
`denote t (a•x + y) = conj(a)•denote t x + denote t y`. -/
theorem conj_linear (hc : IsConj cj) (t : Term K) (ht : parity t = some true) (a : K) (x y : List K)
    (h : x.length = y.length) :
    denote cj t (vadd (smul a x) y) = vadd (smul (cj a) (denote cj t x)) (denote cj t y) := by
  have := denote_semilinear hc t true ht a x y h
  simpa [lincomb, twist] using this

/-- The general statement both are instances of. -/
theorem denote_semilinear_all (hc : IsConj cj) (t : Term K) (b : Bool) (ht : parity t = some b) (a : K)
    (x y : List K) (h : x.length = y.length) :
    denote cj t (vadd (smul a x) y)
      = vadd (smul (if b then cj a else a) (denote cj t x)) (denote cj t y) := by
  have := denote_semilinear hc t b ht a x y h
  simpa [lincomb, twist] using this

/-- The result is a function of the input vector and the term's parameters only — and its length
depends on the input's length only (no data-dependent shapes). -/
theorem denote_length (t : Term K) (x y : List K) (h : x.length = y.length) :
    (denote cj t x).length = (denote cj t y).length :=
  denote_length_congr cj t x y h

end Linear

/-! ### The family schemas have the parity the property requires, whatever their parameters -/
section Parity
variable {K : Type}


theorem pointwise_parity (m : List K) : parity (pointwise m) = some false := rfl
theorem dense_parity (A : List (List K)) : parity (dense A) = some false := rfl
theorem fibreForward_parity (rows : List (List K)) : parity (fibreForward rows) = some true := rfl
theorem fibreBackward_parity (A : List (List K)) : parity (fibreBackward A) = some false := rfl
theorem projection_parity (T : List (List K)) (c : List K) (Ti : List (List K)) :
    parity (projection T c Ti) = some false := rfl
theorem lyotForward_parity (stop : List K) (Pb : List (List K)) (m1 : List K) (Pf : List (List K)) :
    parity (lyotForward stop Pb m1 Pf) = some false := rfl
theorem lyotBackward_parity (stop : List K) (Pb : List (List K)) (m1 : List K) (Pf : List (List K)) :
    parity (lyotBackward stop Pb m1 Pf) = some false := rfl
theorem sandwich_parity (Pb : List (List K)) (m : List K) (Pf : List (List K)) :
    parity (sandwich Pb m Pf) = some false := rfl
theorem optMul_parity (o : Option (List K)) : parity (optMul o) = some false := by
  cases o <;> rfl
theorem fibreNuller_parity (rows P : List (List K)) (apod : Option (List K)) :
    parity (fibreNuller rows P apod) = some true := by
  simp [fibreNuller, fibreForward, parity, optMul_parity]
theorem fibreNullerBackward_parity (apod : Option (List K)) (Pb B : List (List K)) :
    parity (fibreNullerBackward apod Pb B) = some false := by
  simp [fibreNullerBackward, fibreBackward, parity, optMul_parity]
theorem fibreModes_parity (Mc Mh : List (List K)) (ph w : List K) :
    parity (fibreModes Mc ph Mh w) = some false := rfl
theorem scaledTransform_parity (c : K) (F : List (List K)) : parity (scaledTransform c F) = some false := rfl
theorem lyotCore_parity (Pb : List (List K)) (m1 : List K) (Pf : List (List K)) :
    parity (lyotCore Pb m1 Pf) = some false := rfl

theorem multiscale_parity (F0 : List (List K)) (levels : List (List (List K) × List K × List (List K))) :
    parity (multiscale F0 levels) = some false := by
  induction levels with
  | nil => rfl
  | cons l rest ih =>
    obtain ⟨Pb, m, Pf⟩ := l
    simp [multiscale, parity, ih, sandwich]

theorem multiscaleForward_parity (stop : Option (List K)) (F0 : List (List K))
    (levels : List (List (List K) × List K × List (List K))) :
    parity (multiscaleForward stop F0 levels) = some false := by
  simp [multiscaleForward, parity, optMul_parity, multiscale_parity]

theorem multiscaleBackward_parity (stop : Option (List K)) (F0 : List (List K))
    (levels : List (List (List K) × List K × List (List K))) :
    parity (multiscaleBackward stop F0 levels) = some false := by
  simp [multiscaleBackward, parity, optMul_parity, multiscale_parity]

/-- An optical system of linear parts is linear; each conjugate-linear part flips the parity. -/
theorem system_parity_linear (ts : List (Term K)) (h : ∀ t ∈ ts, parity t = some false) :
    parity (system ts) = some false := by
  induction ts with
  | nil => rfl
  | cons t rest ih =>
    have h1 := h t (by simp)
    have h2 := ih (fun u hu => h u (by simp [hu]))
    simp [system, parity, h1, h2]

theorem systemDense_parity (parts : List (List (List K))) : parity (systemDense parts) = some false := by
  apply system_parity_linear
  intro t ht
  simp only [List.mem_map] at ht
  obtain ⟨A, _, rfl⟩ := ht
  rfl

/-- **Every term the driver op `C06 denote-family` can build has the parity its family declares**
(`Family.conj`: conjugate-linear for fibre injection and the nullers' forward, linear for the rest) —
for every family of the table, every number, size and value of the arguments (any number of
multi-scale levels, any number of system parts, with or without stop / apodizer). -/
theorem family_parity (f : Family) (args : List (Arg K)) (t : Term K) (h : familyTerm f args = some t) :
    parity t = some f.conj := by
  unfold familyTerm at h
  split at h
  all_goals first
    | (cases h; rfl)
    | (simp at h)
    | skip
  · -- multiscaleForward
    split at h
    · cases h; exact multiscaleForward_parity _ _ _
    · simp at h
  · split at h
    · cases h; exact multiscaleBackward_parity _ _ _
    · simp at h
  · split at h
    · cases h; exact systemDense_parity _
    · simp at h
  · split at h
    · cases h; exact fibreNuller_parity _ _ _
    · simp at h
  · split at h
    · cases h; exact fibreNullerBackward_parity _ _ _
    · simp at h

end Parity

section FamilyLinear
variable {K : Type} [CommRing K] {cj : K → K}

/-- **Hence every family is (conjugate-)linear as executed**: for the term `t` that `familyTerm`
builds — the very term the driver evaluates and the harness compares with the element's output on
`E1`, `E2` and `a·E1+E2` — `denote t (a•x + y) = a'•denote t x + denote t y` with `a' = a`, or
`a' = conj a` exactly for the families in which the code conjugates the field. -/
theorem family_semilinear (hc : IsConj cj) (f : Family) (args : List (Arg K)) (t : Term K)
    (h : familyTerm f args = some t) (a : K) (x y : List K) (hl : x.length = y.length) :
    denote cj t (vadd (smul a x) y)
      = vadd (smul (if f.conj then cj a else a) (denote cj t x)) (denote cj t y) :=
  denote_semilinear_all hc t f.conj (family_parity f args t h) a x y hl

/-- the linear families … -/
theorem family_linear (hc : IsConj cj) (f : Family) (hf : f.conj = false) (args : List (Arg K)) (t : Term K)
    (h : familyTerm f args = some t) (a : K) (x y : List K) (hl : x.length = y.length) :
    denote cj t (vadd (smul a x) y) = vadd (smul a (denote cj t x)) (denote cj t y) := by
  have := family_semilinear hc f args t h a x y hl
  simpa [hf] using this

/-- … and fibre injection (alone or behind an apodizer and a propagator) is conjugate-linear. -/
theorem family_conj_linear (hc : IsConj cj) (f : Family) (hf : f.conj = true) (args : List (Arg K)) (t : Term K)
    (h : familyTerm f args = some t) (a : K) (x y : List K) (hl : x.length = y.length) :
    denote cj t (vadd (smul a x) y) = vadd (smul (cj a) (denote cj t x)) (denote cj t y) := by
  have := family_semilinear hc f args t h a x y hl
  simpa [hf] using this

/-- **Polarised fields** (Jones-vector field: 2 components, Jones-matrix field: 4, stored one after
the other): the elements without polarisation optics apply the family's term to every component
(`OpIR.denoteBlocks`, what the driver op `C06 denote-family-blocks` evaluates and the harness compares
with the element's output on vector and tensor wavefronts) — and that is (conjugate-)linear on the
whole field, for any number `r` of components of any length `n`. -/
theorem family_semilinear_blocks (hc : IsConj cj) (f : Family) (args : List (Arg K)) (t : Term K)
    (h : familyTerm f args = some t) (n r : Nat) (a : K) (x y : List K) (hl : x.length = y.length) :
    denoteBlocks cj t n r (vadd (smul a x) y)
      = vadd (smul (if f.conj then cj a else a) (denoteBlocks cj t n r x)) (denoteBlocks cj t n r y) := by
  have := denoteBlocks_semilinear hc t f.conj (family_parity f args t h) n a r x y hl
  simpa [lincomb, twist] using this

example : denoteBlocks (fun a : ℤ => a) (.mulField [2, 3]) 2 2 [1, 1, 10, 10] = [2, 3, 20, 30] := by decide

/-- the hypotheses are satisfiable: each family accepts some argument list (here: three multi-scale
levels' worth of empty matrices, a two-part system, a nuller without apodizer). -/
example : ∃ t : Term ℤ, familyTerm .multiscaleForward [.none, .mat [], .mat [], .vec [], .mat []] = some t := ⟨_, rfl⟩
example : ∃ t : Term ℤ, familyTerm .system [.mat [[1]], .mat [[2]]] = some t := ⟨_, rfl⟩
example : ∃ t : Term ℤ, familyTerm .fibreNuller [.mat [[1]], .mat [[1]], .none] = some t := ⟨_, rfl⟩
example : ∀ f : Family, ∃ args : List (Arg ℤ), (familyTerm f args).isSome = true := by
  intro f
  cases f
  · exact ⟨[.vec []], rfl⟩
  · exact ⟨[.mat []], rfl⟩
  · exact ⟨[.mat []], rfl⟩
  · exact ⟨[.mat []], rfl⟩
  · exact ⟨[.mat [], .vec [], .mat []], rfl⟩
  · exact ⟨[.mat [], .vec [], .mat []], rfl⟩
  · exact ⟨[.vec [], .mat [], .vec [], .mat []], rfl⟩
  · exact ⟨[.vec [], .mat [], .vec [], .mat []], rfl⟩
  · exact ⟨[.mat [], .vec [], .mat []], rfl⟩
  · exact ⟨[.none, .mat []], rfl⟩
  · exact ⟨[.none, .mat []], rfl⟩
  · exact ⟨[], rfl⟩
  · exact ⟨[.mat [], .mat [], .none], rfl⟩
  · exact ⟨[.none, .mat [], .mat []], rfl⟩
  · exact ⟨[.mat [], .vec [], .mat [], .vec []], rfl⟩
  · exact ⟨[.vec [0], .mat []], rfl⟩

end FamilyLinear

/-- **What the driver prints is a (conjugate-)linear map over ℂ.**  The driver evaluates
`denote CDy.conj t` on Gaussian dyadic rationals (`OpIR.CDy`, the exact values of the floats the
code computes with).  Read as complex numbers (`CDy.toComplex`), the outputs on `x`, `y` and
`a•x + y` of every term `t` that `familyTerm` builds satisfy the (conjugate-)linearity equation —
this is the statement about the executed definition, without any ring structure assumed on `CDy`
(`Lemmas/OpIR.lean: denote_map`, `CDy.scalarHom`, `Dy.toRat_add/_sub/_mul`). -/
theorem family_semilinear_executed (f : Family) (args : List (Arg CDy)) (t : Term CDy)
    (h : familyTerm f args = some t) (a : CDy) (x y : List CDy) (hl : x.length = y.length) :
    (denote CDy.conj t (vadd (smul a x) y)).map CDy.toComplex
      = vadd (smul (if f.conj then (starRingEnd ℂ) a.toComplex else a.toComplex)
                ((denote CDy.conj t x).map CDy.toComplex))
             ((denote CDy.conj t y).map CDy.toComplex) := by
  have hp : parity (t.map CDy.toComplex) = some f.conj := by
    rw [parity_map]; exact family_parity f args t h
  rw [denote_map CDy.scalarHom, denote_map CDy.scalarHom, denote_map CDy.scalarHom,
    map_vadd CDy.scalarHom, map_smul CDy.scalarHom]
  exact denote_semilinear_all ⟨fun a b => map_add _ a b, fun a b => map_mul _ a b, fun a => Complex.conj_conj a⟩
    (t.map CDy.toComplex) f.conj hp a.toComplex (x.map CDy.toComplex) (y.map CDy.toComplex) (by simpa using hl)

/-- The same for what `C06 denote-family-blocks` prints (component-wise application, run at `CDy`). -/
theorem family_semilinear_blocks_executed (f : Family) (args : List (Arg CDy)) (t : Term CDy)
    (h : familyTerm f args = some t) (n r : Nat) (a : CDy) (x y : List CDy) (hl : x.length = y.length) :
    (denoteBlocks CDy.conj t n r (vadd (smul a x) y)).map CDy.toComplex
      = vadd (smul (if f.conj then (starRingEnd ℂ) a.toComplex else a.toComplex)
                ((denoteBlocks CDy.conj t n r x).map CDy.toComplex))
             ((denoteBlocks CDy.conj t n r y).map CDy.toComplex) := by
  have hp : parity (t.map CDy.toComplex) = some f.conj := by
    rw [parity_map]; exact family_parity f args t h
  rw [denoteBlocks_map CDy.scalarHom, denoteBlocks_map CDy.scalarHom, denoteBlocks_map CDy.scalarHom,
    map_vadd CDy.scalarHom, map_smul CDy.scalarHom]
  have := denoteBlocks_semilinear (cj := starRingEnd ℂ)
    ⟨fun a b => map_add _ a b, fun a b => map_mul _ a b, fun a => Complex.conj_conj a⟩
    (t.map CDy.toComplex) f.conj hp n a.toComplex r (x.map CDy.toComplex) (y.map CDy.toComplex) (by simpa using hl)
  simpa [lincomb, twist] using this

example : ∃ (t : Term CDy), familyTerm .lyotCore [.mat [[⟨⟨1, 0⟩, ⟨0, 0⟩⟩]], .vec [⟨⟨1, 1⟩, ⟨0, 0⟩⟩], .mat [[⟨⟨3, 2⟩, ⟨1, 0⟩⟩]]] = some t :=
  ⟨_, rfl⟩

/-- The hypothesis `IsConj` is satisfiable where it matters: complex conjugation. -/
theorem isConj_complex : IsConj (starRingEnd ℂ) :=
  ⟨fun a b => map_add _ a b, fun a b => map_mul _ a b, fun a => Complex.conj_conj a⟩

example : ∃ cj : ℤ → ℤ, IsConj cj := ⟨id, ⟨fun _ _ => rfl, fun _ _ => rfl, fun _ => rfl⟩⟩

/-- Without the parity condition the claim is false: `x ↦ x + conj x` is neither. -/
theorem mixed_not_linear :
    denote (starRingEnd ℂ) (.add .id .conj) (vadd (smul Complex.I [1]) [0])
      ≠ vadd (smul Complex.I (denote (starRingEnd ℂ) (.add .id .conj) [1]))
          (denote (starRingEnd ℂ) (.add .id .conj) [0]) := by
  simp [denote, vadd, smul, Complex.ext_iff]

/-! ### Input-dependent shortcuts are homogeneous but not additive

The class of defect "keep only the modes / pixels / components that carry more than a fraction θ of
*this* input's power": `f(a·E) = a·f(E)` holds for every `a ≠ 0`, so single-input and
comparable-magnitude tests pass, yet a faint component riding on a bright one is dropped.
(`OpIR.Old.keepExcited`: a defect class — seeded C06-2 —, not code of /repo; these two theorems
explain the harness's wide-magnitude additivity probe and are not evidence about hcipy.) -/

/-- Threshold selection relative to the input's own power commutes with every non-zero factor … -/
theorem keepExcited_homogeneous (θ a : Rat) (ha : a ≠ 0) (x : List Rat) :
    keepExcited θ (smul a x) = smul a (keepExcited θ x) := by
  have hpos : 0 < a * a := mul_self_pos.mpr ha
  unfold keepExcited
  rw [sumsq_smul]
  simp only [smul, List.map_map]
  apply List.map_congr_left
  intro c _
  simp only [Function.comp]
  have h : (θ * (a * a * sumsq x) < a * c * (a * c)) ↔ (θ * sumsq x < c * c) := by
    constructor
    · intro h; by_contra hn; push Not at hn; nlinarith
    · intro h; nlinarith
  by_cases hc : θ * sumsq x < c * c
  · simp [hc, h.mpr hc]
  · have : ¬ (θ * (a * a * sumsq x) < a * c * (a * c)) := fun h' => hc (h.mp h')
    simp [hc, this]

/-- … but is not additive: with θ = 1e-10 a component of amplitude 1e-6 next to one of amplitude 1
is dropped from the sum and kept when alone.  Hence it is not the denotation of any linear term. -/
theorem keepExcited_not_additive :
    keepExcited (1 / 10 ^ 10) (vadd [1, 0] [0, 1 / 10 ^ 6])
      ≠ vadd (keepExcited (1 / 10 ^ 10) [1, 0]) (keepExcited (1 / 10 ^ 10) [0, 1 / 10 ^ 6]) := by
  simp [keepExcited, sumsq, vadd]
  norm_num

/-! ## Effects -/

/-- **A safe program leaves its input intact**: field contents and every attribute (grid,
wavelength, Stokes vector) of the wavefront passed in are what they were, for every input value
and every meaning `sem` of the array operations. -/
theorem safe_sound (sem : Nat → List Int → Int) (p : Prog) (hs : safe p = true) (v : InVal) :
    (call sem p v).inputField = v.field ∧ (call sem p v).inputObj = v.obj := by
  unfold safe at hs
  cases hch : check p.body Abs.init with
  | none => simp [hch] at hs
  | some A =>
    simp only [hch, List.isEmpty_iff] at hs
    have inv := exec_inv sem v p.body Abs.init A (init v) (inv_init v) hch
    refine ⟨inv.buf0, ?_⟩
    apply Obj.ext_get
    · simpa [call, InVal.obj] using inv.obj0buf
    · intro a
      have := inv.obj0 a (by simp [hs])
      simpa [call, InVal.obj_get] using this

/-- The wavefront the caller still holds after the call, as a value. -/
def inputAfter (o : Outcome) : InVal :=
  ⟨o.inputField, o.inputObj.wavelength, o.inputObj.stokes, o.inputObj.grid⟩

/-- **Repeatable**: calling a safe program again with the wavefront the first call left behind
gives exactly the same outcome. -/
theorem repeatable (sem : Nat → List Int → Int) (p : Prog) (hs : safe p = true) (v : InVal) :
    call sem p (inputAfter (call sem p v)) = call sem p v := by
  obtain ⟨h1, h2⟩ := safe_sound sem p hs v
  have : inputAfter (call sem p v) = v := by
    cases v
    simp [inputAfter, h1, h2, InVal.obj]
  rw [this]

/-- Every effect program shipped in `Model/Elements.lean` is accepted by the checker. -/
theorem shipped_programs_safe : ∀ np ∈ programs, safe np.2 = true := by decide

example : safe copyInplace = true := by decide
example : safe multiscaleFwd = true := by decide

/-! ### Grid and Stokes vector as heap objects

`Effects.viewProg a p` is what program `p` does on the heap of the objects attached as attribute `a`
(grid objects / Stokes vectors): `wavefront.copy()` and `Wavefront(…)` constructions share the grid
object and copy the Stokes vector, `inplaceAttr` updates one in place.  The same checker runs on the view. -/

/-- **A program whose views are accepted leaves the caller's grid and Stokes vector *contents*
intact**, whatever they were (`g`), for every meaning of the operations — although other wavefronts
created during the call may point to the very same grid object. -/
theorem safe_sound_attr (sem : Nat → List Int → Int) (a : Attr) (p : Prog) (hs : safeAttr a p = true)
    (v : InVal) (g : Int) : attrContentsAfter sem a p v g = some g := by
  unfold safeAttr at hs
  unfold attrContentsAfter
  cases hq : viewProg a p with
  | none => simp [hq] at hs
  | some q =>
    simp only [hq] at hs ⊢
    exact congrArg some (safe_sound sem q hs { v with field := g }).1

/-- all three heaps at once: field values, wavelength / pointers, grid contents, Stokes contents. -/
theorem safeAll_sound (sem : Nat → List Int → Int) (p : Prog) (hs : safeAll p = true) (v : InVal) (g st : Int) :
    (call sem p v).inputField = v.field ∧ (call sem p v).inputObj = v.obj ∧
      attrContentsAfter sem .grid p v g = some g ∧ attrContentsAfter sem .stokes p v st = some st := by
  simp only [safeAll, Bool.and_eq_true] at hs
  obtain ⟨⟨h1, h2⟩, h3⟩ := hs
  exact ⟨(safe_sound sem p h1 v).1, (safe_sound sem p h1 v).2, safe_sound_attr sem .grid p h2 v g,
    safe_sound_attr sem .stokes p h3 v st⟩

/-- Every shipped effect program is accepted on all three heaps. -/
theorem shipped_programs_safeAll : ∀ np ∈ programs, safeAll np.2 = true := by decide

example : safeAll magnifier = true := by decide

/-- The property **can fail** in this model where it could not be expressed before: a result that
shares the caller's grid object, rescaled in place.  The field-array checker accepts the program … -/
theorem scaleSharedGridOld_field_safe : safe scaleSharedGridOld = true := by decide
/-- … the grid view is rejected … -/
theorem scaleSharedGridOld_rejected : safeAttr .grid scaleSharedGridOld = false := by decide
/-- … and the caller's grid is indeed rewritten. -/
theorem scaleSharedGridOld_rewrites_grid (sem : Nat → List Int → Int) (v : InVal) (g : Int) :
    attrContentsAfter sem .grid scaleSharedGridOld v g = some (sem opMul [g]) := by
  simp [attrContentsAfter, viewProg, viewList, viewInstr, scaleSharedGridOld, call, exec, step, init, upd, bufOf, contents, InVal.obj]

/-- `wavefront.copy()` does **not** help: the copy points to the same grid object
(`Field.__array_finalize__`), so rescaling the copy's grid in place is rejected as well … -/
theorem copy_shares_grid_rejected : safeAttr .grid ⟨[.copy 1 0, .inplaceAttr opMul 1 .grid], 1⟩ = false := by decide
/-- … what `Magnifier` does — re-point the copy to a *copy of the grid* first (`grid.scaled`) — is accepted. -/
example : safeAttr .grid ⟨[.copy 1 0, .copyAttr 1 .grid, .inplaceAttr opMul 1 .grid], 1⟩ = true := by decide

/-- In-place arithmetic on the argument's Stokes vector: rejected, and the vector is rewritten. -/
theorem stokesInplaceOld_rejected : safeAttr .stokes stokesInplaceOld = false := by decide
theorem stokesInplaceOld_rewrites_stokes (sem : Nat → List Int → Int) (v : InVal) (st : Int) :
    attrContentsAfter sem .stokes stokesInplaceOld v st = some (sem opMul [st]) := by
  simp [attrContentsAfter, viewProg, viewList, viewInstr, stokesInplaceOld, call, exec, step, init, upd, bufOf, contents, InVal.obj]

/-- A new wavefront gets a *copy* of the Stokes vector (`np.array(…)` in `Wavefront.__init__`), so
updating the result's Stokes vector in place is harmless — unlike the grid. -/
example : safeAttr .stokes ⟨[.newFrom 1 opJones [0] 0, .inplaceAttr opMul 1 .stokes], 1⟩ = true := by decide

/-! ### Loops: any number of scales / layers

`LoopProg.unroll n` is the program with `n` rounds of its loop body (`Model/Elements.lean:
loopPrograms` — the multi-scale coronagraphs, the vector vortex coronagraph in all its variants, the
layered atmosphere).  The driver op `C06 effects-loop NAME N` runs the unrolling for the number of
rounds of the element at hand; the harness compares the object trace and the number of wavefronts
created exactly. -/

/-- **Every shipped program with a loop is accepted on all three heaps for every number of rounds.**
(`loop_safeAll`: accepted with zero and one round, and the checker's state after one round is a
fixpoint of the loop body.) -/
theorem shipped_loop_programs_safeAll :
    ∀ np ∈ loopPrograms, ∀ n : Nat, safeAll (np.2.unroll n) = true :=
  fun np h n => loop_safeAll np.2 (loopPrograms_base np h) (loopPrograms_fix np h) n

/-- Hence, whatever the number of scales / layers: field, attributes, grid contents and Stokes
contents of the caller's wavefront are intact. -/
theorem loop_programs_input_intact (sem : Nat → List Int → Int) (np : String × LoopProg) (h : np ∈ loopPrograms)
    (n : Nat) (v : InVal) (g st : Int) :
    (call sem (np.2.unroll n) v).inputField = v.field ∧ (call sem (np.2.unroll n) v).inputObj = v.obj ∧
      attrContentsAfter sem .grid (np.2.unroll n) v g = some g ∧
      attrContentsAfter sem .stokes (np.2.unroll n) v st = some st :=
  safeAll_sound sem _ (shipped_loop_programs_safeAll np h n) v g st

example : (multiscaleFwdL.unroll 3).body.length = 17 := by decide

/-- One accepted round is not enough — the fixpoint condition matters: a loop that rebinds its
working name to the argument at the end of the round is accepted with one round and rejected with two
(the second round multiplies the caller's field in place). -/
theorem rebinding_loop_one_round_safe :
    safe (LoopProg.unroll ⟨[.copy 1 0], [.inplace opMul 1 [], .bind 1 0], [], 1⟩ 1) = true := by decide
theorem rebinding_loop_two_rounds_rejected :
    safe (LoopProg.unroll ⟨[.copy 1 0], [.inplace opMul 1 [], .bind 1 0], [], 1⟩ 2) = false := by decide

/-- The checker is not vacuous: dropping the copy before an in-place multiply is rejected … -/
theorem dropped_copy_unsafe : safe ⟨[.inplace opMul 0 []], 0⟩ = false := by decide
/-- … and indeed overwrites the caller's field. -/
theorem dropped_copy_overwrites (sem : Nat → List Int → Int) (v : InVal) :
    (call sem ⟨[.inplace opMul 0 []], 0⟩ v).inputField = sem opMul [v.field] := by
  simp [call, exec, step, init, upd, bufOf, contents, InVal.obj]

/-- writing into a wavefront that merely wraps the input's array is rejected as well. -/
theorem wrapped_inplace_unsafe : safe ⟨[.wrap 1 0, .inplace opMul 1 []], 1⟩ = false := by decide
theorem wrapped_inplace_overwrites (sem : Nat → List Int → Int) (v : InVal) :
    (call sem ⟨[.wrap 1 0, .inplace opMul 1 []], 1⟩ v).inputField = sem opMul [v.field] := by
  simp [call, exec, step, init, upd, bufOf, contents, InVal.obj]

/-! ### `FourierFilter._operation` and the field styles (seeded class C06-10) -/

/-- The shipped filter, with and without zero padding, is accepted on all three heaps (hence `safeAll_sound`: the
caller's array, grid and Stokes vector are what they were, for every input and every meaning of the array operations). -/
theorem fourierFilter_safeAll (padded : Bool) : safeAll (fourierFilter padded) = true := by
  cases padded <;> decide

/-- What the shipped filter hands to its first FFT, for every input value and every meaning of the array operations:
a view of the caller's buffer exactly when there is no zero padding, and permission to overwrite exactly when
there is — never both (this is the pair the harness observes on the running code). -/
theorem fourierFilter_firstFft (sem : Nat → List Int → Int) (padded : Bool) (v : InVal) :
    firstFft sem (fourierFilter padded) v = some (!padded, padded) := by
  cases padded <;>
    simp [firstFft, firstFftFrom, fourierFilter, step, init, upd, bufOf, contents, InVal.obj, opFft, opZeroPad]

/-- The identity test `cast is not field` is right unless the cast is a new wrapper around the same buffer (a new-style
field that already has the dtype) **and** nothing is padded: exactly then the program is rejected … -/
theorem fourierFilterIdentityTestOld_safe_iff (c : Cast) (padded : Bool) :
    safe (fourierFilterIdentityTestOld c padded) = (padded || c != .wrapper) := by
  cases c <;> cases padded <;> decide

/-- … which is the case `core.use_new_style_fields = True`, complex input, q = 1 … -/
theorem fourierFilterIdentityTestOld_unsafe_newStyle :
    safe (fourierFilterIdentityTestOld (castOf true true) false) = false := by decide

/-- … and the old-style configuration hides it for every dtype and padding. -/
theorem fourierFilterIdentityTestOld_safe_oldStyle (sameDtype padded : Bool) :
    safe (fourierFilterIdentityTestOld (castOf false sameDtype) padded) = true := by
  cases sameDtype <;> cases padded <;> decide

/-- The rejected program hands its first FFT the caller's buffer with permission to overwrite, and the caller's field is
its own unnormalised transform afterwards. -/
theorem fourierFilterIdentityTestOld_overwrites (sem : Nat → List Int → Int) (v : InVal) :
    firstFft sem (fourierFilterIdentityTestOld .wrapper false) v = some (true, true) ∧
    (call sem (fourierFilterIdentityTestOld .wrapper false) v).inputField = sem opFft [v.field] := by
  constructor <;>
    simp [firstFft, firstFftFrom, fourierFilterIdentityTestOld, castInstr, call, exec, step, init, upd, bufOf, contents,
      InVal.obj, opFft, opMul, opIfft]

/-- an attribute overwritten and not restored is rejected. -/
theorem unrestored_unsafe : safe ⟨[.setAttrConst 0 .wavelength 1, .newFrom 1 opProp [0] 0], 1⟩ = false := by decide

/-- **The defect of the pinned tree** (`VectorVortexCoronagraph.backward`, scalar input, no Lyot
stop): the checker rejects the program as written … -/
theorem vvcBwdScalarOld_unsafe : safe vvcBwdScalarOld = false := by decide

/-- … and running it leaves the caller's wavefront with wavelength 1 whatever it was. -/
theorem vvcBwdScalarOld_clobbers_wavelength (sem : Nat → List Int → Int) (v : InVal) :
    (call sem vvcBwdScalarOld v).inputObj.wavelength = 1 := by
  simp [call, vvcBwdScalarOld, exec, step, init, upd, bufOf, contents, InVal.obj, Obj.set, Obj.get]

/-- The repaired program restores it (instance of `safe_sound`). -/
theorem vvcBwdScalar_restores (sem : Nat → List Int → Int) (v : InVal) :
    (call sem vvcBwdScalar v).inputObj = v.obj :=
  (safe_sound sem vvcBwdScalar (by decide) v).2

/-! ## Element-internal state: history independence

`Effects.IProg` adds what a call may keep inside the element: memo cells (value + the key it was
computed for) and scratch buffers.  `safeInternal` accepts a program iff every fill and every
fallback of a cell is literally the cell's specification, the specification mentions only the key
atoms of the cell (element parameters, the input's grid, the input's wavelength — never field
values or locals), nothing is updated in place or read without comparing keys, and scratch is
written before it is read.  This replaces the former `history_independent_partial`. -/

/-- **History independence.**  For an accepted program, whatever happened to the element before —
any sequence of calls with any wavefronts and of parameter changes — the next call returns what a
freshly constructed element with the same parameters returns. -/
theorem history_independent (S : ISem) (p : IProg) (hs : safeInternal p = true) (params : Nat → Int)
    (h : List Event) (v : InVal) :
    (callI S p (runHistory S p (EState.fresh params) h) v).1
      = (callI S p (EState.fresh (runHistory S p (EState.fresh params) h).params) v).1 := by
  exact callI_result_eq S p hs (runHistory S p (EState.fresh params) h)
    (EState.fresh (runHistory S p (EState.fresh params) h).params) v rfl
    (runHistory_inv S p hs h _ (memoInv_fresh S p)) (memoInv_fresh S p)

/-- Calls do not change the parameters, so with calls only the comparison is with a fresh element
built from the original parameters. -/
theorem history_independent_calls (S : ISem) (p : IProg) (hs : safeInternal p = true) (params : Nat → Int)
    (vs : List InVal) (v : InVal) :
    (callI S p (runHistory S p (EState.fresh params) (vs.map Event.call)) v).1
      = (callI S p (EState.fresh params) v).1 := by
  have hp : ∀ (E : EState), (runHistory S p E (vs.map Event.call)).params = E.params := by
    induction vs with
    | nil => intro E; rfl
    | cons w rest ih => intro E; simp only [List.map_cons, runHistory, List.foldl_cons]; exact (ih _).trans rfl
  have := history_independent S p hs params (vs.map Event.call) v
  rw [hp] at this
  exact this

/-- The invariant behind it: after any history every filled memo cell holds its specification
evaluated at an environment whose key atoms have the stored tag — "every filled cell holds
f(params, key)". -/
theorem memo_cells_hold_spec (S : ISem) (p : IProg) (hs : safeInternal p = true) (params : Nat → Int)
    (h : List Event) (c : Nat) (tag : List Int) (val : Int)
    (hc : (tag, val) ∈ (runHistory S p (EState.fresh params) h).cells c) :
    ∃ ρ' : Atom → Int, (p.keyAtoms c).map ρ' = tag ∧ val = evalI S ρ' 0 (fun _ => 0) (p.spec c) :=
  runHistory_inv S p hs h _ (memoInv_fresh S p) c tag val hc

/-- The internal programs of the stateful families are accepted. -/
theorem shipped_internal_programs_safe : ∀ np ∈ internalPrograms, safeInternal np.2.1 = true := by decide

example : safeInternal iMirror = true := by decide

/-- An interpretation under which the counterexamples below are computed: operation `opSub` is
subtraction, `opMul` multiplication, every other binary operation addition, unary ones identity. -/
def demoISem : ISem :=
  { s1 := fun _ a => a, s2 := fun f a b => if f = opSub then a - b else if f = opMul then a * b else a + b }

/-- **Classic failure 1: a cell filled with a value that depends on the calls made** (stored screen
corrected in place per call — the `ModalAdaptiveOpticsLayer` at λ = 1 seeded defect): rejected … -/
theorem modalAOOld_unsafe : safeInternal iModalAOOld = false := by decide

/-- … and the second identical call indeed returns something else than a fresh element does. -/
theorem modalAOOld_history_dependent :
    let v : InVal := ⟨1, 1, 0, 0⟩
    let params : Nat → Int := fun i => if i = 0 then 10 else 3
    (callI demoISem iModalAOOld (runHistory demoISem iModalAOOld (EState.fresh params) [.call v]) v).1
      ≠ (callI demoISem iModalAOOld (EState.fresh params) v).1 := by decide

/-- **Classic failure 2: a cell not keyed by what its contents depend on** (wavelength-dependent
instance data stored under the grid alone): rejected … -/
theorem unkeyed_unsafe : safeInternal iUnkeyed = false := by decide

/-- … and after a call at wavelength 1 a call at wavelength 2 on the same grid gets the data of
wavelength 1. -/
theorem unkeyed_history_dependent :
    let v1 : InVal := ⟨1, 1, 0, 0⟩
    let v2 : InVal := ⟨1, 2, 0, 0⟩
    let params : Nat → Int := fun _ => 0
    (callI demoISem iUnkeyed (runHistory demoISem iUnkeyed (EState.fresh params) [.call v1]) v2).1
      ≠ (callI demoISem iUnkeyed (EState.fresh params) v2).1 := by decide

/-- A work buffer read before it is written: rejected, and the result depends on the previous call. -/
theorem staleScratch_unsafe : safeInternal iStaleScratch = false := by decide

theorem staleScratch_history_dependent :
    let v : InVal := ⟨5, 1, 0, 0⟩
    let params : Nat → Int := fun _ => 0
    (callI demoISem iStaleScratch (runHistory demoISem iStaleScratch (EState.fresh params) [.call v]) v).1
      ≠ (callI demoISem iStaleScratch (EState.fresh params) v).1 := by decide

/-- **Classic failure 3 (seeded C06-8): a work buffer allocated once instead of per precision.**  The
matrix Fourier transform keeps its matrices *and* its preallocated intermediate array per working
precision (`iMft`: accepted, hence history independent by `history_independent` — any sequence of
calls in any precisions); with the intermediate array allocated only when there is none
(`iMftAllocOnceOld`) the cell is keyed by nothing while its content depends on the precision: rejected … -/
theorem mftAllocOnceOld_unsafe : safeInternal iMftAllocOnceOld = false := by decide

theorem mft_safe : safeInternal iMft = true := by decide

/-- … and after a call in precision 1 a call in precision 2 on the same object returns something else
than a fresh object does (the first product lands in a buffer of the wrong kind). -/
theorem mftAllocOnceOld_history_dependent :
    let v : InVal := ⟨5, 1, 0, 0⟩
    let p1 : Nat → Int := fun _ => 1
    (callI demoISem iMftAllocOnceOld
        (runHistory demoISem iMftAllocOnceOld (EState.fresh p1) [.call v, .setParam 0 2]) v).1
      ≠ (callI demoISem iMftAllocOnceOld (EState.fresh (fun _ => 2)) v).1 := by decide

/-- the correct program on the same history: equal (instance of `history_independent`). -/
example :
    let v : InVal := ⟨5, 1, 0, 0⟩
    (callI demoISem iMft (runHistory demoISem iMft (EState.fresh fun _ => 1) [.call v, .setParam 0 2]) v).1
      = (callI demoISem iMft (EState.fresh (fun _ => 2)) v).1 := by decide

end HcipyVerif.C06
