import HcipyVerif.Lemmas.GridHeap
import HcipyVerif.Lemmas.GridWeights
import HcipyVerif.Lemmas.GridPolar
import Mathlib.Tactic.LinearCombination

/-!
# C11 — Grid geometry: transformations act consistently on points and weights

All theorems are about the model in `Model/Grid.lean` / `Model/GridOps.lean` (points with x fastest,
the in-place arithmetic of the three coordinate kinds, the cached / automatic weights, the
constructors of `field/util.py`) for grids of **every** dimension, size and (rational) value, and
factors of either sign.  The model is tied to the code by the C11 correspondence
(harness/props/c11.py) which compares representation, stored weights, the weights getter and the
points after every operation of random histories.

The definitions model the code after the repairs D20, D21, D27, D30.  The behaviour before the
repairs (`autoWeightsOld`, `Grid.reverseOld`) has proved counterexamples at the end.
The trigonometric clauses (Cartesian → polar → Cartesian, polar rotation) are stated over `ℝ` with
the specification functions `toPolar` / `toCart` of `Lemmas/GridPolar.lean`, **and** on the exact executable
model `cartToPolar?` / `polarToCart` (direction `(cos θ, sin θ)` instead of `θ`; defined on the points with a
rational radius), which the driver runs (`aspolar`, `ascart`) and the harness compares with `Grid.as_`;
`cartToPolar_matches_spec` bridges the two.
-/
set_option linter.unusedSimpArgs false
set_option linter.unusedVariables false
set_option linter.dupNamespace false

namespace HcipyVerif.Grid

/-! ## Points move as the affine map says (regular, separated and unstructured alike) -/

/-- **Scaling** (per-axis factors `f` of either sign): the points of the scaled coordinates are the
images `p ↦ (p_i f_i)`.  Regular: `delta *= f; zero *= f`; separated: per axis; unstructured: per column. -/
theorem points_scale (c : Coords) (f : List Rat) (h : f.length = c.ndim) :
    (c.scale f).points = c.points.map (scalePt f) := Coords.points_scale c f h

/-- `CartesianGrid.scale` / `.scaled` with a scalar or a vector argument. -/
theorem points_scale_grid (g g' : Grid) (s : ScaleArg) (hc : g.system = .cartesian)
    (hl : (s.factors g.coords.ndim).length = g.coords.ndim) (h : g.scale s = some g') :
    g'.coords.points = g.coords.points.map (scalePt (s.factors g.coords.ndim)) := by
  simp only [Grid.scale, hc] at h
  cases hw : g.getWeights with
  | none => simp [hw] at h
  | some w =>
    simp only [hw, Option.map_some, Option.some.injEq] at h
    subst h
    exact Coords.points_scale _ _ hl

/-- `PolarGrid.scale` scales the radius only. -/
theorem points_scale_polar (g g' : Grid) (k : Rat) (hp : g.system = .polar) (h2 : g.coords.ndim = 2)
    (h : g.scale (.scalar k) = some g') : g'.coords.points = g.coords.points.map (scalePt [k, 1]) := by
  simp only [Grid.scale, hp] at h
  cases hw : g.getWeights with
  | none => simp [hw] at h
  | some w =>
    simp only [hw, Option.map_some, Option.some.injEq] at h
    subst h
    exact Coords.points_scale _ _ (by simp [h2])

/-- **Shifting**: `p ↦ p + b`. -/
theorem points_shift (g : Grid) (b : List Rat) (h : b.length = g.coords.ndim) :
    (g.shift b).coords.points = g.coords.points.map (shiftPt b) := Coords.points_shift g.coords b h

/-- **Reversing** lists the same points in the opposite order. -/
theorem points_reverse (g : Grid) (h : g.coords.WF) : g.reverse.coords.points = g.coords.points.reverse :=
  Coords.points_reverse g.coords h

/-- **Rotating** (any matrix `M`, in particular `rot2 c s` and `rot3 …`): every point is multiplied
by `M`; the result is unstructured. -/
theorem points_rotate (g : Grid) (M : List (List Rat)) (hM : M ≠ []) :
    (g.linmap M).coords.points = g.coords.points.map (linPt M) ∧
    (g.linmapped M).coords.points = g.coords.points.map (linPt M) :=
  ⟨Coords.points_linmap g.coords M hM, Coords.points_linmap g.coords M hM⟩

/-- the 2-D matrix is the rotation by the angle with cosine `c` and sine `s`, and it is an isometry -/
theorem rot2_apply (c s x y : Rat) (h : c * c + s * s = 1) :
    linPt (rot2 c s) [x, y] = [c * x - s * y, s * x + c * y] ∧
    (c * x - s * y) * (c * x - s * y) + (s * x + c * y) * (s * x + c * y) = x * x + y * y := by
  constructor
  · simp only [linPt, rot2, dot, ratSum, List.map_cons, List.map_nil, List.zipWith_cons_cons, List.zipWith_nil_right,
      List.zipWith_nil_left, List.cons.injEq, and_true]
    constructor <;> ring
  · have : (c * x - s * y) * (c * x - s * y) + (s * x + c * y) * (s * x + c * y) =
        (c * c + s * s) * (x * x + y * y) := by ring
    rw [this, h, one_mul]

/-- the 3-D (Rodrigues) matrix `I + s K + (1-c) K²` fixes its axis `(a, b, d)` -/
theorem rot3_axis (a b d c s : Rat) : linPt (rot3 a b d c s) [a, b, d] = [a, b, d] := by
  simp only [linPt, rot3, dot, ratSum, List.map_cons, List.map_nil, List.zipWith_cons_cons, List.zipWith_nil_right,
    List.zipWith_nil_left, List.cons.injEq, and_true]
  refine ⟨?_, ?_, ?_⟩ <;> ring

/-- … and is an isometry when the axis is a unit vector and `c² + s² = 1` -/
theorem rot3_isometry (a b d c s x y z : Rat) (hu : a * a + b * b + d * d = 1) (hcs : c * c + s * s = 1) :
    ∃ x' y' z', linPt (rot3 a b d c s) [x, y, z] = [x', y', z'] ∧
      x' * x' + y' * y' + z' * z' = x * x + y * y + z * z := by
  refine ⟨_, _, _, rfl, ?_⟩
  simp only [dot, ratSum, List.zipWith_cons_cons, List.zipWith_nil_right]
  linear_combination (-((a * x + b * y + d * z) ^ 2 - (a * a + b * b + d * d) * (x * x + y * y + z * z))) * hcs +
    (-((a * x + b * y + d * z) ^ 2 - (a * a + b * b + d * d) * (x * x + y * y + z * z)) * (1 - c) ^ 2) * hu

/-- **The 3-D matrix is Rodrigues' rotation** about the unit axis `k = (a, b, d)` by the angle with
cosine `c` and sine `s`: `R p = c·p + s·(k × p) + (1 - c)(k·p)·k`, for *every* point.  This determines
the matrix entirely (it is a statement about all `p`), and in particular the sense of rotation: the
`s`-term is `+ k × p` (right-handed about `k`), which neither the identity nor the rotation by the
opposite angle satisfies. -/
theorem rot3_rodrigues (a b d c s x y z : Rat) (hu : a * a + b * b + d * d = 1) :
    linPt (rot3 a b d c s) [x, y, z] =
      [c * x + s * (b * z - d * y) + (1 - c) * (a * x + b * y + d * z) * a,
       c * y + s * (d * x - a * z) + (1 - c) * (a * x + b * y + d * z) * b,
       c * z + s * (a * y - b * x) + (1 - c) * (a * x + b * y + d * z) * d] := by
  simp only [linPt, rot3, dot, ratSum, List.map_cons, List.map_nil, List.zipWith_cons_cons, List.zipWith_nil_right,
    List.zipWith_nil_left, List.cons.injEq, and_true]
  refine ⟨?_, ?_, ?_⟩
  · linear_combination (-(1 - c) * x) * hu
  · linear_combination (-(1 - c) * y) * hu
  · linear_combination (-(1 - c) * z) * hu

/-- **A vector perpendicular to the axis is turned by the angle `(c, s)` in the plane perpendicular
to the axis, counter-clockwise seen from the tip of the axis**: `R p = c·p + s·(k × p)`.  Together with
`rot3_axis` this pins the matrix down (the audit's gap: identity / opposite angle are excluded as
soon as `s ≠ 0` and `p ≠ 0`, see `rot3_perp_sense`). -/
theorem rot3_perp (a b d c s x y z : Rat) (hu : a * a + b * b + d * d = 1) (hp : a * x + b * y + d * z = 0) :
    linPt (rot3 a b d c s) [x, y, z] =
      [c * x + s * (b * z - d * y), c * y + s * (d * x - a * z), c * z + s * (a * y - b * x)] := by
  rw [rot3_rodrigues a b d c s x y z hu, hp]
  simp

/-- the quarter turn about the z-axis sends x̂ to ŷ (not to −ŷ): the sense of rotation, concretely -/
theorem rot3_perp_sense : linPt (rot3 0 0 1 0 1) [1, 0, 0] = [0, 1, 0] ∧ linPt (rot3 0 0 1 0 (-1)) [1, 0, 0] = [0, -1, 0] := by
  decide +kernel

/-- `PolarGrid.rotate` (repaired): the angular coordinate of every point grows by the angle. -/
theorem points_polar_rotate (g : Grid) (α : Rat) (h2 : g.coords.ndim = 2) :
    (g.polarRotate α).coords.points = g.coords.points.map (shiftPt [0, α]) :=
  Coords.points_shift g.coords [0, α] (by simp [h2])

/-! ## Weights -/

/-- **Scaling multiplies every cell weight by the absolute Jacobian** `Π|f_i|` (per-axis factors of
either sign; `|s|^ndim` for a scalar), whatever the weights were: explicit, cached or automatic. -/
theorem weights_scale (g g' : Grid) (s : ScaleArg) (wl : List Rat) (hc : g.system = .cartesian)
    (hl : (s.factors g.coords.ndim).length = g.coords.ndim) (h : g.scale s = some g')
    (hw : g.weightList = some wl) :
    g'.weightList = some (wl.map (· * jac (s.factors g.coords.ndim))) := by
  simp only [Grid.scale, hc] at h
  cases hgw : g.getWeights with
  | none => simp [hgw] at h
  | some w =>
    simp only [hgw, Option.map_some, Option.some.injEq] at h
    subst h
    have hne : w.mul (s.weightFactor g.coords.ndim) ≠ .none := by
      have := Grid.getWeights_ne_none g w hgw
      cases w <;> simp_all [Weights.mul]
    simp only [Grid.weightList, hgw, Option.map_some, Option.some.injEq] at hw
    simp only [Grid.weightList]
    rw [Grid.getWeights_stored _ hne]
    simp only [Option.map_some, Option.some.injEq, Coords.size_scale _ _ hl, Weights.toList_mul, hw,
      weightFactor_eq_jac]

/-- **`PolarGrid.scale` multiplies every cell weight by `|k|²`** (the Jacobian of `(r, θ) ↦ (k r, θ)`
in the physical plane), whatever the weights were — explicit, cached, or the scalar 1 a polar grid
gets when it has none. -/
theorem weights_scale_polar (g g' : Grid) (k : Rat) (wl : List Rat) (hp : g.system = .polar) (h2 : g.coords.ndim = 2)
    (h : g.scale (.scalar k) = some g') (hw : g.weightList = some wl) :
    g'.weightList = some (wl.map (· * absQ k ^ 2)) := by
  simp only [Grid.scale, hp] at h
  cases hgw : g.getWeights with
  | none => simp [hgw] at h
  | some w =>
    simp only [hgw, Option.map_some, Option.some.injEq] at h
    subst h
    have hne : w.mul (absQ k ^ g.coords.ndim) ≠ .none := by
      have := Grid.getWeights_ne_none g w hgw
      cases w <;> simp_all [Weights.mul]
    simp only [Grid.weightList, hgw, Option.map_some, Option.some.injEq] at hw
    simp only [Grid.weightList]
    rw [Grid.getWeights_stored _ hne]
    simp only [Option.map_some, Option.some.injEq, Coords.size_scale g.coords [k, 1] (by simp [h2]), Weights.toList_mul, hw, h2]

example : ∃ g g' : Grid, g.system = .polar ∧ g.coords.ndim = 2 ∧ g.scale (.scalar (-3 / 2)) = some g' ∧
    g'.weightList = some [9 / 4, 9 / 4] :=
  ⟨⟨.polar, .separated [[1, 2], [0]], .none⟩, _, rfl, rfl, rfl, by decide +kernel⟩

/-- **History independence of scaling**: the automatic weights of the scaled coordinates are the
scaled automatic weights (regular and separated grids), so it does not matter whether the weights
had been computed before the grid was scaled. -/
theorem weights_scale_auto (c : Coords) (f : List Rat) (h : f.length = c.ndim) (hk : c.kind ≠ 2) :
    autoWeights .cartesian (c.scale f) = (autoWeights .cartesian c).map (Weights.mul (jac f)) :=
  autoWeights_scale c f h hk

/-- **Shifting keeps the weights** (stored or automatic). -/
theorem weights_shift (g : Grid) (b : List Rat) (h : b.length = g.coords.ndim) :
    (g.shift b).weightList = g.weightList := by
  simp only [Grid.weightList, Grid.getWeights, Grid.shift, Coords.size_shift _ _ h]
  cases g.weights <;> simp [autoWeights_shift _ _ _ h]

/-- **Reversing keeps the weight of every point**: the list of weights is reversed together with the
list of points — whether the weights were explicit, cached or are computed afterwards. -/
theorem weights_reverse (g : Grid) : g.reverse.weightList = g.weightList.map List.reverse := by
  simp only [Grid.weightList, Grid.getWeights, Grid.reverse, Coords.size_reverse]
  cases hw : g.weights with
  | none =>
    simp only [Weights.reverse, autoWeights_reverse, Option.map_map]
    congr 1; funext w; simp [Weights.toList_reverse]
  | scalar x => simp [Weights.reverse, Weights.toList]
  | array x => simp [Weights.reverse, Weights.toList]

/-- in particular weights are never negative when they are automatic -/
theorem auto_weights_nonneg_regular (a : List RegAxis) (w : Rat)
    (h : autoWeights .cartesian (.regular a) = some (.scalar w)) : 0 ≤ w := by
  simp only [autoWeights, Option.some.injEq, Weights.scalar.injEq] at h
  subst h; exact absQ_nonneg _

/-! ## Non-mutating forms return independent copies -/

/-- the result of a non-mutating operation lives in a fresh slot: the original and all other live
grids are untouched, and a later in-place operation on the result does not reach the original -/
theorem nonmutating_independent (st : Store) (g g2 : Grid) (j : Nat) (h : j < st.length) :
    (st.push g)[j]? = st[j]? ∧ ((st.push g).update st.length g2)[j]? = st[j]? := by
  have hne : st.length ≠ j := by omega
  simp [Store.push, Store.update, List.getElem?_append_left h, List.getElem?_set_ne hne]

/-- **The same clause on the reference model** (`Model/GridHeap.lean`: coordinate and weight arrays in a heap,
grids holding references, `scale` / `shift` writing through them — a model in which aliasing *can* happen;
`nonmutating_independent` above is about the value store, where it cannot).  `scaled` / `shifted` =
copy, then the in-place operation on the copy (`ops`: one array operation per coordinate array and one for
the weights array).  As long as no array is shared (`Sep`, kept by every operation — C10 `ref_sep_invariant`;
the harness compares the number of shared arrays of the real grids with the model's after every operation):
every existing grid, the source included, reads the same coordinates and weights afterwards; the result
holds the transformed values; a later in-place operation `ops2` on the result changes the result only. -/
theorem ref_nonmutating_independent (w : RWorld) (hs : w.Sep) (i : Nat) (hi : i < w.objs.length) (ops ops2 : List ArrOp)
    (hl : ops.length = (w.objs[i]).refs.length) (hl2 : ops2.length = (w.objs[i]).refs.length) :
    (w.copied i ops).Sep ∧
    (w.copied i ops).abs = w.abs ++ [List.zipWith (fun op a => op.apply a) ops (w.objs[i].val w.heap)] ∧
    ((w.copied i ops).inplace w.objs.length ops2).abs =
      w.abs ++ [List.zipWith (fun op a => op.apply a) ops2 (List.zipWith (fun op a => op.apply a) ops (w.objs[i].val w.heap))] :=
  ⟨RWorld.Sep_inplace _ (w.Sep_construct hs _) _ _, w.abs_copied hs i hi ops hl, w.abs_copied_inplace hs i hi ops ops2 hl hl2⟩

example : (RWorld.new {} [[1, 2], [3]]).Sep ∧ (0 : Nat) < (RWorld.new {} [[1, 2], [3]]).objs.length := by decide

/-- a `scaled` that shares the weights array with its source (copying the coordinates only): the in-place
`weights *= |J|` on the result changes the source's weights. -/
theorem Bad.scaled_shares_weights :
    let w : RWorld := { heap := [[0, 1], [1, 1], [0, 2], [5, 5]], objs := [⟨[0, 1]⟩, ⟨[2, 1]⟩] }
    (w.inplace 1 [.mulS 2, .mulS 2]).abs = [[[0, 1], [2, 2]], [[0, 4], [2, 2]]] ∧ ¬ w.Sep := by
  refine ⟨by decide +kernel, by decide⟩

/-- **Identity arguments** (`scaled(1)`, `scaled(1.0)`, `scaled([1, 1])`, `shifted(0)`, `shifted([0, 0])`, … — every
spelling of the neutral element, `ArrOp.IsIdentity`): the non-mutating form still returns an *independent copy*.
In the reference model, where aliasing can be expressed: (1) the result holds the same values as its source,
(2) no array is shared afterwards (`Sep`), (3) a later in-place edit of the result leaves every earlier object —
the source included — as it was, and (4) a later in-place edit of the *source* leaves the result as it was.
(`return self` for an identity argument — the seeded regression C11-8 — violates (2)–(4): it is `Bad.copy`.) -/
theorem identity_op_returns_independent_copy (w : RWorld) (hs : w.Sep) (i : Nat) (hi : i < w.objs.length)
    (ops ops2 : List ArrOp)
    (hid : List.Forall₂ (fun op a => ArrOp.IsIdentity a op) ops (w.objs[i].val w.heap))
    (hl2 : ops2.length = (w.objs[i]).refs.length) :
    (w.copied i ops).abs = w.abs ++ [w.objs[i].val w.heap] ∧
    (w.copied i ops).Sep ∧
    ((w.copied i ops).inplace w.objs.length ops2).abs =
      w.abs ++ [List.zipWith (fun op a => op.apply a) ops2 (w.objs[i].val w.heap)] ∧
    ((w.copied i ops).inplace i ops2).abs =
      w.abs.set i (List.zipWith (fun op a => op.apply a) ops2 (w.objs[i].val w.heap)) ++ [w.objs[i].val w.heap] := by
  have hl : ops.length = (w.objs[i]).refs.length := by
    have := hid.length_eq; simpa [RObj.val] using this
  have hz := zipWith_apply_identity ops _ hid
  have habs : (w.copied i ops).abs = w.abs ++ [w.objs[i].val w.heap] := by
    rw [w.abs_copied hs i hi ops hl, hz]
  have hs' : (w.copied i ops).Sep := w.Sep_copied hs i ops
  refine ⟨habs, hs', ?_, ?_⟩
  · rw [w.abs_copied_inplace hs i hi ops ops2 hl hl2, hz]
  · have hobjs : (w.copied i ops).objs = w.objs ++ [⟨List.range' w.heap.length (w.objs[i]).refs.length⟩] := by
      have hget : w.objs.getD i ⟨[]⟩ = w.objs[i] := by simp [List.getD_eq_getElem?_getD, hi]
      have hget' : w.objs[i]?.getD ⟨[]⟩ = w.objs[i] := by simp [hi]
      simp [RWorld.copied, RWorld.inplace, RWorld.copy, RWorld.construct, RObj.deepCopy, hget, hget']
    have hi' : i < (w.copied i ops).objs.length := by rw [hobjs]; simp; omega
    have hoi : (w.copied i ops).objs[i] = w.objs[i] := by
      simp only [hobjs]; rw [List.getElem_append_left hi]
    have hval : (w.copied i ops).objs[i].val (w.copied i ops).heap = w.objs[i].val w.heap := by
      have h1 : (w.copied i ops).abs[i]'(by simpa [RWorld.abs] using hi') =
          (w.copied i ops).objs[i].val (w.copied i ops).heap := by simp [RWorld.abs]
      rw [← h1]
      have hia : i < w.abs.length := by simpa [RWorld.abs] using hi
      simp only [habs, List.getElem_append_left hia]
      simp [RWorld.abs]
    rw [(w.copied i ops).abs_inplace hs' i hi' ops2 (by rw [hoi]; exact hl2), hval, habs]
    have hia : i < w.abs.length := by simpa [RWorld.abs] using hi
    rw [List.set_append_left _ _ hia]

example : (RWorld.new {} [[1, 2], [3]]).Sep ∧
    List.Forall₂ (fun op a => ArrOp.IsIdentity a op) [.mulS 1, .addV [0]]
      (((RWorld.new {} [[1, 2], [3]]).objs[0]'(by decide)).val (RWorld.new {} [[1, 2], [3]]).heap) := by
  refine ⟨by decide, ?_⟩
  refine List.Forall₂.cons (by simp [ArrOp.IsIdentity]) (List.Forall₂.cons ?_ List.Forall₂.nil)
  simp [ArrOp.IsIdentity, Heap.read, RWorld.new]

/-- the same history with a result that *is* its source (`return self`): the edit of the "result" changes the source -/
theorem Bad.identity_returns_self :
    let w : RWorld := Bad.copy (RWorld.new {} [[0, 1], [0, 2]]) 0
    (w.inplace 1 [.mulS 2, .mulS 2]).abs = [[[0, 2], [0, 4]], [[0, 2], [0, 4]]] ∧ ¬ w.Sep := by
  refine ⟨by decide +kernel, by decide⟩

/-! ## Regular grids: covered area, sub/supersampling, focal grids -/

/-- **The weights of a regular grid sum to the covered area** `Π dims_i·|δ_i|` (either sign of `δ`). -/
theorem regular_weights_sum (a : List RegAxis) :
    (Grid.mk .cartesian (.regular a) .none).weightList.map ratSum =
      some (ratProd (a.map fun x => (x.dim : Rat) * absQ x.delta)) := by
  simp only [Grid.weightList, Grid.getWeights, autoWeights, Option.map_some, Weights.toList, Coords.size,
    ratSum_replicate, Option.some.injEq]
  rw [← ratProd_map_absQ]; exact area_prod a

/-- **Supersampling then subsampling by the same factors returns the original sampling** (spacing,
origin and number of points per axis), for any positive integer factor per axis. -/
theorem sub_super_id (g : Grid) (a : List RegAxis) (k : List Nat) (hg : g.coords = .regular a)
    (hl : k.length = a.length) (hk : ∀ x ∈ k, 1 ≤ x) :
    (g.supersample k >>= Grid.subsample k) = .ok { g with weights := .none } := by
  simp only [Grid.supersample, hg, Grid.subsample, bind, Except.bind]
  congr 1
  cases g; simp only at hg; subst hg
  simp only [Grid.mk.injEq, Coords.regular.injEq, true_and, and_true]
  induction k generalizing a with
  | nil => cases a <;> simp_all
  | cons x k ih =>
    cases a with
    | nil => simp at hl
    | cons y a =>
      simp only [List.zipWith_cons_cons, List.cons.injEq]
      exact ⟨sub_super_axis x (hk x (by simp)) y, ih a (by simpa using hl) (fun z hz => hk z (by simp [hz]))⟩

/-- **`make_uniform_grid(…, has_center=True)` contains its centre** on every axis, for odd and even
numbers of points alike (any extent, any centre, any number of dimensions). -/
theorem uniform_has_center (dims : List Nat) (extent center : List Rat) (hl : extent.length = dims.length)
    (hc : center.length = dims.length) (hn : ∀ n ∈ dims, 1 ≤ n) :
    center ∈ (makeUniformGrid dims extent center true).coords.points := by
  simp only [makeUniformGrid, Coords.points]
  apply tensor_mem
  induction dims generalizing extent center with
  | nil =>
    cases center with
    | nil => simp
    | cons _ _ => simp at hc
  | cons n dims ih =>
    cases extent with
    | nil => simp at hl
    | cons e extent =>
      cases center with
      | nil => simp at hc
      | cons c center =>
        simp only [List.zip_cons_cons, List.zipWith_cons_cons, List.map_cons, List.forall₂_cons]
        exact ⟨uniform_center_mem n e c (hn n (by simp)),
          ih extent center (by simpa using hl) (by simpa using hc) (fun m hm => hn m (by simp [hm]))⟩

example : [(1 / 2 : Rat), -5 / 4] ∈ (makeUniformGrid [4, 5] [1, 5 / 2] [1 / 2, -5 / 4] true).coords.points := by decide +kernel

/-- a regular grid whose axes are `delta·(-n/2 + (n mod 2)/2) + k·delta` contains the origin, for
odd and for even `n ≥ 1` alike -/
theorem centred_has_origin (l : List (Rat × Nat)) (h : ∀ x ∈ l, 1 ≤ x.2) :
    List.replicate l.length 0 ∈ (Coords.regular (l.map fun x => centredAxis x.1 x.2 0)).points := by
  simp only [Coords.points, List.map_map]
  have := origin_mem (l.map (RegAxis.values ∘ fun x => centredAxis x.1 x.2 0)) (by
    intro ax hax
    simp only [List.mem_map, Function.comp] at hax
    obtain ⟨x, hx, rfl⟩ := hax
    exact centred_zero_mem _ _ (h x hx))
  simpa using this

/-- **`make_focal_grid` always contains the origin** (per-axis `q`, `num_airy`, resolution; the
number of points `int(2·num_airy·q)` may be odd or even) as soon as it has a point at all. -/
theorem focal_grid_has_origin (q1 q2 na1 na2 sr1 sr2 : Rat) (h1 : 1 ≤ 2 * na1 * q1) (h2 : 1 ≤ 2 * na2 * q2) :
    [0, 0] ∈ (makeFocalGrid [q1, q2] [na1, na2] [sr1, sr2]).coords.points := by
  have := centred_has_origin [(sr1 / q1, truncNat (2 * na1 * q1)), (sr2 / q2, truncNat (2 * na2 * q2))] (by
    intro x hx
    simp only [List.mem_cons, List.not_mem_nil, or_false] at hx
    rcases hx with rfl | rfl
    · exact truncNat_pos _ h1
    · exact truncNat_pos _ h2)
  simpa [makeFocalGrid, focalAxis] using this

/-- **`make_focal_grid_from_pupil_grid` contains the origin**: the FFT grid it builds has centred axes
(whatever `2π`, `q`, `fov` are), and the final scaling by `fλ/2π` maps the origin to itself. -/
theorem focal_from_pupil_has_origin (tau s : Rat) (a1 a2 : RegAxis) (q1 q2 fov1 fov2 : Rat)
    (h1 : 1 ≤ (fftAxis tau a1 q1 fov1 0).dim) (h2 : 1 ≤ (fftAxis tau a2 q2 fov2 0).dim) :
    [0, 0] ∈ ((Coords.regular [fftAxis tau a1 q1 fov1 0, fftAxis tau a2 q2 fov2 0]).scale [s, s]).points := by
  rw [Coords.points_scale _ _ (by simp [Coords.ndim])]
  have := centred_has_origin [((fftAxis tau a1 q1 fov1 0).delta, (fftAxis tau a1 q1 fov1 0).dim),
    ((fftAxis tau a2 q2 fov2 0).delta, (fftAxis tau a2 q2 fov2 0).dim)] (by
    intro x hx
    simp only [List.mem_cons, List.not_mem_nil, or_false] at hx
    rcases hx with rfl | rfl
    · exact h1
    · exact h2)
  simp only [List.map_cons, List.map_nil, List.length_cons, List.length_nil] at this
  refine List.mem_map.mpr ⟨[0, 0], ?_, by simp [scalePt]⟩
  simpa [fftAxis, centredAxis] using this

/-! ## Compositions: the single-step theorems chain

`WF`, the dimension and the kind are preserved by every operation (`Coords.WF_scale/_shift/_reverse/
_linmap`, `Coords.ndim_*`, `Coords.kind_*` in Lemmas/GridGeom.lean), so the hypotheses of one step are
available after another. -/

/-- the hypotheses of the single-step theorems survive every operation -/
theorem wf_preserved (c : Coords) (f b : List Rat) (M : List (List Rat)) (hf : f.length = c.ndim) (hb : b.length = c.ndim)
    (hM : M ≠ []) (hw : c.WF) :
    (c.scale f).WF ∧ (c.shift b).WF ∧ c.reverse.WF ∧ (c.linmap M).WF ∧
    (c.scale f).ndim = c.ndim ∧ (c.shift b).ndim = c.ndim ∧ c.reverse.ndim = c.ndim ∧ (c.linmap M).ndim = M.length :=
  ⟨Coords.WF_scale c f hf hw, Coords.WF_shift c b hb hw, Coords.WF_reverse c hw, Coords.WF_linmap c M hM,
    Coords.ndim_scale c f hf, Coords.ndim_shift c b hb, Coords.ndim_reverse c, Coords.ndim_linmap c M⟩

/-- **scale → shift → reverse → rotate** on any well-formed coordinates: the points are the images under
the composed affine map, listed in the reversed order. -/
theorem points_scale_shift_reverse_rotate (c : Coords) (f b : List Rat) (M : List (List Rat)) (hf : f.length = c.ndim)
    (hb : b.length = c.ndim) (hM : M ≠ []) (hw : c.WF) :
    ((((c.scale f).shift b).reverse).linmap M).points =
      (c.points.map (linPt M ∘ shiftPt b ∘ scalePt f)).reverse := by
  have h1 := Coords.WF_scale c f hf hw
  have h2 := Coords.WF_shift (c.scale f) b (by rw [Coords.ndim_scale c f hf]; exact hb) h1
  rw [Coords.points_linmap _ M hM, Coords.points_reverse _ h2,
    Coords.points_shift _ b (by rw [Coords.ndim_scale c f hf]; exact hb), Coords.points_scale c f hf]
  simp [List.map_reverse, List.map_map]

/-- **The weights of a scaled regular grid sum to the scaled area** `Π dims_i·|δ_i| · Π|f_i|`
(`regular_weights_sum` composed with `weights_scale`), scalar or per-axis factors of either sign. -/
theorem regular_weights_sum_scaled (a : List RegAxis) (s : ScaleArg) (g' : Grid)
    (hl : (s.factors a.length).length = a.length)
    (h : (Grid.mk .cartesian (.regular a) .none).scale s = some g') :
    g'.weightList.map ratSum =
      some (ratProd (a.map fun x => (x.dim : Rat) * absQ x.delta) * jac (s.factors a.length)) := by
  have h0 := regular_weights_sum a
  cases hw : (Grid.mk .cartesian (.regular a) .none).weightList with
  | none => simp [hw] at h0
  | some wl =>
    rw [hw] at h0
    simp only [Option.map_some, Option.some.injEq] at h0
    have := weights_scale _ g' s wl rfl (by simpa [Coords.ndim] using hl) h hw
    simp only [Coords.ndim] at this
    rw [this]
    simp only [Option.map_some, Option.some.injEq, ratSum_map_mul, h0]

/-- … and reversing afterwards keeps that sum (the weights are only re-ordered). -/
theorem weights_sum_reverse (g : Grid) : g.reverse.weightList.map ratSum = g.weightList.map ratSum := by
  rw [weights_reverse]
  cases g.weightList with
  | none => rfl
  | some wl =>
    simp only [Option.map_some, Option.some.injEq]
    induction wl with
    | nil => rfl
    | cons x xs ih => simp only [List.reverse_cons, ratSum_append, ratSum, ih]; ring

example : ∃ g', (Grid.mk .cartesian (.regular [⟨1 / 2, 3, 0⟩, ⟨-1, 2, 1⟩]) .none).scale (.vector [-2, 3]) = some g' := ⟨_, rfl⟩

/-- the hypotheses of `focal_from_pupil_has_origin` are satisfiable (355/113·2 stands for `2π`) -/
example : 1 ≤ (fftAxis (710 / 113) ⟨1 / 8, 8, -7 / 16⟩ 2 (3 / 4) 0).dim ∧
    1 ≤ (fftAxis (710 / 113) ⟨1 / 4, 5, -1 / 2⟩ (3 / 2) 1 0).dim := by decide +kernel
example : (fftAxis (710 / 113) ⟨1 / 8, 8, -7 / 16⟩ 2 (3 / 4) 0).dim = 12 := by decide +kernel

/-! ## More constructors: `make_pupil_grid`, `make_focal_grid` with all its arguments, `make_hexagonal_grid` -/

/-- `make_pupil_grid`: per axis `n` samples of pitch `D/n`, symmetric about the origin; the weights sum to the
area `Π D_i` (for `D_i > 0`). -/
theorem pupil_grid_spec (n : Nat) (d : Rat) (hn : 0 < n) :
    let a := uniformAxis n d 0 false
    a.dim = n ∧ a.delta = d / n ∧ a.zero + (a.zero + a.delta * ((n : Rat) - 1)) = 0 := by
  have hn' : (n : Rat) ≠ 0 := by exact_mod_cast (Nat.pos_iff_ne_zero.mp hn)
  simp only [uniformAxis, if_false, Bool.false_eq_true]
  refine ⟨trivial, trivial, ?_⟩
  field_simp
  ring

example : (0 : Nat) < 4 := by decide

/-- `make_pupil_grid` is `make_uniform_grid` with extent `diameter` and centre 0 (the executed definition) -/
theorem pupil_grid_is_uniform (dims : List Nat) (diam : List Rat) :
    makePupilGrid dims diam = makeUniformGrid dims diam (diam.map fun _ => 0) false := rfl

/-- the spatial resolution `make_focal_grid` uses: given directly; else `f_number·λ` with `f_number` given or
`focal_length / pupil_diameter`; else 1 when nothing at all was given; every other combination is refused. -/
theorem focal_resolution_spec (s f p l w : Rat) :
    focalResolution (some s) none none none none = .ok s ∧
    focalResolution none (some f) none none (some w) = .ok (f * w) ∧
    focalResolution none none (some p) (some l) (some w) = .ok (l / p * w) ∧
    focalResolution none none none none none = .ok 1 ∧
    focalResolution none none none none (some w) = .error .value ∧
    focalResolution none (some f) none none none = .error .value ∧
    focalResolution none none (some p) (some l) none = .error .value ∧
    focalResolution none none (some p) none (some w) = .error .value := by
  simp [focalResolution]

/-- **whatever way the resolution was specified, the focal grid contains the origin** -/
theorem focal_full_has_origin (q na : Rat) (sr fnum pd fl wl : Option Rat) (g : Grid)
    (h : makeFocalGridFull [q, q] [na, na] sr fnum pd fl wl = .ok g) (h1 : 1 ≤ 2 * na * q) :
    ∃ s, g = makeFocalGrid [q, q] [na, na] [s, s] ∧ [0, 0] ∈ g.coords.points := by
  simp only [makeFocalGridFull] at h
  cases hr : focalResolution sr fnum pd fl wl with
  | error e => rw [hr] at h; simp [Except.map] at h
  | ok s =>
    rw [hr] at h
    simp only [Except.map, Except.ok.injEq, List.map_cons, List.map_nil] at h
    subst h
    exact ⟨s, rfl, focal_grid_has_origin q q na na s s h1 h1⟩

example : makeFocalGridFull [2, 2] [3, 3] none (some 10) none none (some (1 / 2)) = .ok (makeFocalGrid [2, 2] [3, 3] [5, 5]) ∧
    (1 : Rat) ≤ 2 * 3 * 2 := by decide +kernel

/-- ring `n` of a hexagonal grid has `6 n` hexagons -/
theorem hexRing_length (n : Nat) : (hexRing n).length = 6 * n := by
  simp [hexRing]; omega

/-- **`make_hexagonal_grid` with `n` rings has `1 + 3 n (n + 1)` points** -/
theorem hexQR_length (rings : Nat) : (hexQR rings).length = 1 + 3 * rings * (rings + 1) := by
  induction rings with
  | zero => simp [hexQR]
  | succ m ih =>
    simp only [hexQR, List.length_cons, List.range_succ, List.flatMap_append, List.length_append,
      List.flatMap_cons, List.flatMap_nil, List.append_nil, hexRing_length] at ih ⊢
    have : 3 * (m + 1) * (m + 1 + 1) = 3 * m * (m + 1) + 6 * (m + 1) := by ring
    omega

/-- every hexagon of ring `n` is at hexagonal distance `n` from the centre -/
theorem hexRing_distance (n : Nat) (p : Int × Int) (h : p ∈ hexRing n) :
    p.1.natAbs + p.2.natAbs + (p.1 + p.2).natAbs = 2 * n := by
  simp only [hexRing, List.mem_append, List.mem_map, List.mem_range] at h
  rcases h with ((((( ⟨k, hk, rfl⟩ | ⟨k, hk, rfl⟩) | ⟨k, hk, rfl⟩) | ⟨k, hk, rfl⟩) | ⟨k, hk, rfl⟩) | ⟨k, hk, rfl⟩) <;>
    simp only <;> omega

example : (1, 1) ∈ hexRing 2 ∧ hexQR 1 = [(0, 0), (1, 0), (0, 1), (-1, 1), (-1, 0), (0, -1), (1, -1)] := by decide

/-- the points and the weight of the hexagonal grid in closed form: hexagon `(q, r)` sits at
`((r − q)·D/2, (q + r)·2a) + centre` with apothem `a = D√3/4` (flat top: the two coordinates exchanged *after* the
centre was added, as the code on /repo HEAD does — so a flat-topped grid is centred on `(cy, cx)`, the centre exchanged:
observed, outside the property; proposed repair in pending_fixes/D86-hexagonal-grid-center.diff), and every
hexagon weighs `2 a² √3` — the area of a regular hexagon of circum-diameter `D`, which is `3√3/8·D²` when `s3² = 3`. -/
theorem hex_points_weights (s3 d : Rat) (rings : Nat) (cx cy : Rat) :
    (makeHexGrid s3 d rings true cx cy).coords.points =
      (hexQR rings).map (fun p => [((-p.1 + p.2 : Int) : Rat) * d / 2 + cx, ((p.1 + p.2 : Int) : Rat) * (d * s3 / 4) * 2 + cy]) ∧
    (makeHexGrid s3 d rings false cx cy).coords.points =
      (hexQR rings).map (fun p => [((p.1 + p.2 : Int) : Rat) * (d * s3 / 4) * 2 + cy, ((-p.1 + p.2 : Int) : Rat) * d / 2 + cx]) ∧
    (makeHexGrid s3 d rings true cx cy).weights = .scalar (2 * (d * s3 / 4 * (d * s3 / 4)) * s3) ∧
    (s3 * s3 = 3 → 2 * (d * s3 / 4 * (d * s3 / 4)) * s3 = 3 * s3 / 8 * (d * d)) := by
  refine ⟨?_, ?_, rfl, ?_⟩
  · simp [makeHexGrid, Coords.points]
    exact pointsOfCols_two (hexQR rings) _ _
  · simp [makeHexGrid, Coords.points]
    exact pointsOfCols_two (hexQR rings) _ _
  · intro h
    have : 2 * (d * s3 / 4 * (d * s3 / 4)) * s3 = (s3 * s3) * s3 / 8 * (d * d) := by ring
    rw [this, h]

/-! ## Coordinate-system conversion (over `ℝ`) -/

/-- **Cartesian → polar → Cartesian returns the same point**: over `ℝ` for every point including the origin
and the negative x-axis (specification `toPolar` = (`hypot`, `arctan2`), `toCart`), **and** the executed exact
conversion `cartToPolar?` / `polarToCart` (driver ops `aspolar`, `ascart`) is that specification wherever it is defined. -/
theorem polar_roundtrip (p : ℝ × ℝ) :
    toCart (toPolar p) = p ∧
    ∀ x y r c s : Rat, p = ptR [x, y] → cartToPolar? [x, y] = some [r, c, s] →
      (toPolar p).1 = (r : ℝ) ∧ Real.cos (toPolar p).2 = (c : ℝ) ∧ Real.sin (toPolar p).2 = (s : ℝ) ∧
      polarToCart [r, c, s] = [x, y] ∧ ptR (polarToCart [r, c, s]) = p := by
  refine ⟨toCart_toPolar p, ?_⟩
  intro x y r c s hp h
  subst hp
  have hb := cartToPolar?_toPolar x y r c s h
  obtain ⟨_, _, _, hq, _, _, _, hx, hy⟩ := cartToPolar?_spec x y _ h
  simp only [List.cons.injEq, and_true] at hq
  obtain ⟨rfl, rfl, rfl⟩ := hq
  have hpc : polarToCart [r, c, s] = [x, y] := by simp [polarToCart, hx, hy]
  refine ⟨?_, ?_, ?_, hpc, by rw [hpc]⟩
  · simpa [ptR] using hb.1
  · simpa [ptR] using hb.2.1
  · simpa [ptR] using hb.2.2

/-- the polar radius is the distance from the origin and never negative — specification and executed conversion -/
theorem polar_radius (p : ℝ × ℝ) :
    (0 ≤ (toPolar p).1 ∧ (toPolar p).1 * (toPolar p).1 = p.1 * p.1 + p.2 * p.2) ∧
    ∀ x y r c s : Rat, p = ptR [x, y] → cartToPolar? [x, y] = some [r, c, s] →
      (toPolar p).1 = (r : ℝ) ∧ 0 ≤ r ∧ r * r = x * x + y * y := by
  refine ⟨toPolar_radius p, ?_⟩
  intro x y r c s hp h
  subst hp
  have hb := cartToPolar?_toPolar x y r c s h
  obtain ⟨_, _, _, hq, h0, hsq, _, _, _⟩ := cartToPolar?_spec x y _ h
  simp only [List.cons.injEq, and_true] at hq
  obtain ⟨rfl, rfl, rfl⟩ := hq
  exact ⟨by simpa [ptR] using hb.1, h0, hsq⟩

/-- **`PolarGrid.rotate`** (`θ += α`) rotates the physical point by `α`: over `ℝ`, and instantiated at the
executed `polarToCart` (direction `(c, s)` turned by `(ca, sa)`), which equals `rot2 ca sa` applied to the point. -/
theorem polar_rotate_is_rotation (r c s ca sa : Rat) (θ α : ℝ)
    (hc : Real.cos θ = (c : ℝ)) (hs : Real.sin θ = (s : ℝ)) (hca : Real.cos α = (ca : ℝ)) (hsa : Real.sin α = (sa : ℝ)) :
    toCart ((r : ℝ), θ + α) =
      (Real.cos α * (toCart ((r : ℝ), θ)).1 - Real.sin α * (toCart ((r : ℝ), θ)).2,
       Real.sin α * (toCart ((r : ℝ), θ)).1 + Real.cos α * (toCart ((r : ℝ), θ)).2) ∧
    toCart ((r : ℝ), θ + α) = ptR (polarToCart [r, c * ca - s * sa, s * ca + c * sa]) ∧
    polarToCart [r, c * ca - s * sa, s * ca + c * sa] = linPt (rot2 ca sa) (polarToCart [r, c, s]) := by
  refine ⟨toCart_rotate _ _ _, ?_, ?_⟩
  · simp only [toCart, Real.cos_add, Real.sin_add, hc, hs, hca, hsa, ptR, polarToCart, List.getD_cons_zero, List.getD_cons_succ]
    push_cast
    rw [Prod.mk.injEq]
    constructor <;> ring
  · simp [polarToCart, linPt, rot2, dot, ratSum]
    constructor <;> ring

/-- **`PolarGrid.scale`** (radius × k) scales the physical point: over `ℝ`, and instantiated at the executed `polarToCart`. -/
theorem polar_scale_is_scaling (r c s k : Rat) (θ : ℝ) (hc : Real.cos θ = (c : ℝ)) (hs : Real.sin θ = (s : ℝ)) :
    toCart (((r * k : Rat) : ℝ), θ) = ((toCart ((r : ℝ), θ)).1 * (k : ℝ), (toCart ((r : ℝ), θ)).2 * (k : ℝ)) ∧
    toCart (((r * k : Rat) : ℝ), θ) = ptR (scalePt [k, k] (polarToCart [r, c, s])) ∧
    polarToCart [r * k, c, s] = scalePt [k, k] (polarToCart [r, c, s]) := by
  refine ⟨by push_cast; exact toCart_scale _ _ _, ?_, ?_⟩
  · simp only [toCart, hc, hs, ptR, polarToCart, scalePt, List.zipWith_cons_cons, List.getD_cons_zero, List.getD_cons_succ]
    push_cast
    rw [Prod.mk.injEq]
    constructor <;> ring
  · simp [polarToCart, scalePt]
    constructor <;> ring

/-- the hypotheses of the trigonometric bridges are satisfiable -/
example : Real.cos 0 = ((1 : Rat) : ℝ) ∧ Real.sin 0 = ((0 : Rat) : ℝ) := by simp

/-! ### `PolarGrid.shift` / `.shifted`: the three executed steps composed (`pshiftedPts`, `pshiftPts`; driver ops `pshifted`, `pshift`) -/

/-- the executed composite is the translation of the Cartesian image, point by point -/
theorem points_polar_shifted (c : Coords) (dirs : List (Rat × Rat)) (b1 b2 : Rat) :
    c.pshiftedPts dirs [b1, b2] =
      List.zipWith (fun p d => [p.headD 0 * d.1 + b1, p.headD 0 * d.2 + b2]) c.points dirs := by
  simp only [Coords.pshiftedPts, Coords.asCartPts, List.map_zipWith]
  congr 1

/-- **`PolarGrid.shift` translates the points in Cartesian space.**  For a polar point `(r, θ)` with direction
`(c, s) = (cos θ, sin θ)`: (1) the executed Cartesian image shifted by `b` is `(r c + b₁, r s + b₂)`; (2) the polar
point the specification puts there (`toPolar`, i.e. `hypot` / `arctan2` of the shifted Cartesian point) lies at
`toCart (r, θ) + b`; (3) wherever the executed `cartToPolar?` is defined on the shifted point, *any* angle with the
direction it returns gives that same position. -/
theorem points_polar_shift (r c s b1 b2 : Rat) (θ : ℝ) (hc : Real.cos θ = (c : ℝ)) (hs : Real.sin θ = (s : ℝ)) :
    shiftPt [b1, b2] (polarToCart [r, c, s]) = [r * c + b1, r * s + b2] ∧
    toCart (toPolar (((r * c + b1 : Rat) : ℝ), ((r * s + b2 : Rat) : ℝ))) =
      ((toCart ((r : ℝ), θ)).1 + (b1 : ℝ), (toCart ((r : ℝ), θ)).2 + (b2 : ℝ)) ∧
    ∀ r' c' s', cartToPolar? (shiftPt [b1, b2] (polarToCart [r, c, s])) = some [r', c', s'] →
      ∀ θ' : ℝ, Real.cos θ' = (c' : ℝ) → Real.sin θ' = (s' : ℝ) →
        toCart ((r' : ℝ), θ') = ((toCart ((r : ℝ), θ)).1 + (b1 : ℝ), (toCart ((r : ℝ), θ)).2 + (b2 : ℝ)) := by
  have h1 : shiftPt [b1, b2] (polarToCart [r, c, s]) = [r * c + b1, r * s + b2] := by simp [polarToCart, shiftPt]
  refine ⟨h1, ?_, ?_⟩
  · rw [toCart_toPolar]; simp [toCart, hc, hs]
  · intro r' c' s' h θ' hc' hs'
    rw [h1] at h
    obtain ⟨_, _, _, hq, _, _, _, hx, hy⟩ := cartToPolar?_spec _ _ _ h
    simp only [List.cons.injEq, and_true] at hq
    obtain ⟨rfl, rfl, rfl⟩ := hq
    simp only [toCart, hc, hs, hc', hs', Prod.mk.injEq]
    constructor
    · have : ((r * c + b1 : Rat) : ℝ) = ((r' * c' : Rat) : ℝ) := by rw [hx]
      push_cast at this; linarith
    · have : ((r * s + b2 : Rat) : ℝ) = ((r' * s' : Rat) : ℝ) := by rw [hy]
      push_cast at this; linarith

/-! ## The executable conversion model (`cartToPolar?`, `polarToCart`, `Coords.asPolarPts`, `Coords.asCartPts`)

The `ℝ` theorems above are about the specification functions.  The statements below are about the
exact **executable** model of `as_` in Model/Grid.lean, which the driver runs (`aspolar i`, `ascart i …`)
on the current value of a live grid after every history and which the harness compares with what
`grid.as_(…)` returns on the real object *with its conversion history* (radius, direction `(cos θ,
sin θ)` ↔ `θ = arctan2`).  A polar point of the model is `[r, c, s]` with `(c, s)` the direction; the model
is defined on the points whose radius is rational (Pythagorean directions), where it is exact.
`cartToPolar_matches_spec` connects the two levels. -/

/-- **Cartesian → polar → Cartesian returns the same point, exactly** (executable model; every point on
which the model is defined, origin and negative x-axis included). -/
theorem as_roundtrip_exact (x y : Rat) (q : List Rat) (h : cartToPolar? [x, y] = some q) : polarToCart q = [x, y] := by
  obtain ⟨r, c, s, rfl, _, _, _, hx, hy⟩ := cartToPolar?_spec x y q h
  simp [polarToCart, hx, hy]

/-- the converted point: non-negative radius = distance from the origin, direction on the unit circle -/
theorem as_polar_spec (x y : Rat) (q : List Rat) (h : cartToPolar? [x, y] = some q) :
    ∃ r c s, q = [r, c, s] ∧ 0 ≤ r ∧ r * r = x * x + y * y ∧ c * c + s * s = 1 ∧ x = r * c ∧ y = r * s :=
  cartToPolar?_spec x y q h

/-- **polar → Cartesian → polar** returns the same radius and direction (for `r > 0`; the origin has the
canonical direction `(1, 0)`, as `arctan2(0, 0) = 0`): the model is defined exactly on the points with a
rational radius and unit direction. -/
theorem as_roundtrip_polar (r c s : Rat) (hr : 0 ≤ r) (hcs : c * c + s * s = 1) :
    cartToPolar? (polarToCart [r, c, s]) = some (if r = 0 then [0, 1, 0] else [r, c, s]) :=
  cartToPolar?_complete r c s hr hcs

/-- **The executable model computes the specification**: where `cartToPolar?` is defined its radius is
`hypot(x, y)` and its direction is `(cos θ, sin θ)` of `θ = arctan2(y, x)` (`toPolar`, over `ℝ`). -/
theorem cartToPolar_matches_spec (x y r c s : Rat) (h : cartToPolar? [x, y] = some [r, c, s]) :
    (toPolar ((x : ℝ), (y : ℝ))).1 = (r : ℝ) ∧ Real.cos (toPolar ((x : ℝ), (y : ℝ))).2 = (c : ℝ) ∧
      Real.sin (toPolar ((x : ℝ), (y : ℝ))).2 = (s : ℝ) := cartToPolar?_toPolar x y r c s h

/-- … and `polarToCart` is `toCart` for an angle with that direction. -/
theorem polarToCart_matches_spec (r c s : Rat) (θ : ℝ) (hc : Real.cos θ = (c : ℝ)) (hs : Real.sin θ = (s : ℝ)) :
    toCart ((r : ℝ), θ) = (((r * c : Rat) : ℝ), ((r * s : Rat) : ℝ)) ∧ polarToCart [r, c, s] = [r * c, r * s] := by
  simp [toCart, hc, hs, polarToCart]

example : cartToPolar? [-3 / 2, 2] = some [5 / 2, -3 / 5, 4 / 5] ∧ cartToPolar? [0, 0] = some [0, 1, 0] ∧
    cartToPolar? [-2, 0] = some [2, -1, 0] ∧ cartToPolar? [1, 1] = none := by decide +kernel

/-- executable analogue of `polar_rotate_is_rotation`: turning the direction `(c, s)` of a polar point by the
angle with cosine `ca` and sine `sa` rotates the Cartesian point by `rot2 ca sa` -/
theorem polarToCart_rotate (r c s ca sa : Rat) :
    polarToCart [r, c * ca - s * sa, s * ca + c * sa] = linPt (rot2 ca sa) (polarToCart [r, c, s]) := by
  simp [polarToCart, linPt, rot2, dot, ratSum]
  constructor <;> ring

/-! ### Conversion histories: what a conversion returns after other operations

`Coords.asPolarPts c = c.points.map cartToPolar?` has no state besides the current coordinates — in the
model that is by construction; that the *code* has no stale cache either is what the tie checks (the
`aspolar` / `ascart` answers are compared with a fresh `as_()` of a real grid that has been converted,
reversed, scaled and converted again).  The theorems say what the current value is after each operation. -/

/-- **convert → reverse → convert**: the second conversion lists the converted points in reversed order. -/
theorem as_after_reverse (g : Grid) (h : g.coords.WF) : g.reverse.coords.asPolarPts = g.coords.asPolarPts.reverse := by
  simp [Coords.asPolarPts, Grid.reverse, Coords.points_reverse g.coords h, List.map_reverse]

/-- a conversion after a scale / shift / rotation converts the scaled / shifted / rotated points -/
theorem as_after_scale_shift_rotate (c : Coords) (f b : List Rat) (M : List (List Rat))
    (hf : f.length = c.ndim) (hb : b.length = c.ndim) (hM : M ≠ []) :
    (c.scale f).asPolarPts = c.points.map (cartToPolar? ∘ scalePt f) ∧
    (c.shift b).asPolarPts = c.points.map (cartToPolar? ∘ shiftPt b) ∧
    (c.linmap M).asPolarPts = c.points.map (cartToPolar? ∘ linPt M) := by
  simp [Coords.asPolarPts, Coords.points_scale c f hf, Coords.points_shift c b hb, Coords.points_linmap c M hM, List.map_map]

/-- **Scaling commutes with the conversion**: the polar form of the scaled point `(k x, k y)`, `k > 0`,
is the scaled radius with the same direction — so `PolarGrid.scale(k)` (radius × k, `polar_scale_is_scaling`)
and `CartesianGrid.scale(k)` agree through `as_`. -/
theorem as_scale_commutes (x y k r c s : Rat) (hk : 0 < k) (h : cartToPolar? [x, y] = some [r, c, s]) (hr : r ≠ 0) :
    cartToPolar? [x * k, y * k] = some [r * k, c, s] := by
  obtain ⟨r', c', s', hq, h0, hsq, hcs, hx, hy⟩ := cartToPolar?_spec x y _ h
  simp only [List.cons.injEq, and_true] at hq
  obtain ⟨rfl, rfl, rfl⟩ := hq
  have := cartToPolar?_complete (r * k) c s (by positivity) hcs
  have hne : r * k ≠ 0 := mul_ne_zero hr (ne_of_gt hk)
  simp only [hne, if_false] at this
  have e1 : x * k = r * k * c := by rw [hx]; ring
  have e2 : y * k = r * k * s := by rw [hy]; ring
  rw [e1, e2]; exact this

/-- **polar scale, then convert** = **convert, then Cartesian scale** on the executable model, whatever
directions the points have. -/
theorem asCart_after_polar_scale (c : Coords) (k : Rat) (dirs : List (Rat × Rat)) (h2 : c.ndim = 2) :
    (c.scale [k, 1]).asCartPts dirs = (c.asCartPts dirs).map (scalePt [k, k]) := by
  simp only [Coords.asCartPts, Coords.points_scale c [k, 1] (by simp [h2]), List.zipWith_map_left, List.map_zipWith]
  congr 1
  funext p d
  cases p with
  | nil => simp [scalePt, polarToCart]
  | cons r p => cases p <;> simp [scalePt, polarToCart] <;> constructor <;> ring

/-- equal grids (`==`) convert to the same points: a fresh equal grid is as good as the one with a
conversion history -/
theorem as_of_equal_grids (a b : Grid) (h : a.eq b = true) (dirs : List (Rat × Rat)) :
    a.coords.asPolarPts = b.coords.asPolarPts ∧ a.coords.asCartPts dirs = b.coords.asCartPts dirs := by
  rw [(Grid.eq_true_imp h).2]; exact ⟨rfl, rfl⟩

/-! ## Old — the code before the repairs (documentation of D21 / D30; code that no longer exists in /repo:
not evidence for the property) -/

/-- D21: with signed automatic weights a reversed 1-D regular grid gets negative weights — unless the
weights had been cached before the reversal (history dependence). -/
theorem Old.weights_history_dependent :
    ∃ g g' : Grid, g.materialize = some g' ∧ g.coords = g'.coords ∧
      g.reverseOld.weightListOld = some [-1 / 2, -1 / 2] ∧ g'.reverseOld.weightListOld = some [1 / 2, 1 / 2] :=
  ⟨⟨.cartesian, .regular [⟨1 / 2, 2, 0⟩], .none⟩, ⟨.cartesian, .regular [⟨1 / 2, 2, 0⟩], .scalar (1 / 2)⟩,
    by decide +kernel, rfl, by decide +kernel, by decide +kernel⟩

/-- D30: the old `reverse` left cached per-point weights in the old order, so they no longer belong
to their points. -/
theorem Old.reverse_misplaces_weights :
    ∃ g : Grid, g.reverseOld.weightList ≠ g.weightList.map List.reverse :=
  ⟨⟨.cartesian, .separated [[0, 1, 3]], .array [1, 3 / 2, 2]⟩, by decide +kernel⟩

example : ∃ g g' : Grid, g.system = .cartesian ∧ g.scale (.vector [-2, 3]) = some g' :=
  ⟨⟨.cartesian, .separated [[0, 1, 3], [0, 2]], .none⟩, _, rfl, rfl⟩
example : (1 : Rat) ≤ 2 * (3 / 2) * (5 / 2) := by norm_num
example : ∃ c s : Rat, c * c + s * s = 1 ∧ s ≠ 0 := ⟨3 / 5, 4 / 5, by norm_num, by norm_num⟩
example : ∃ a b d : Rat, a * a + b * b + d * d = 1 ∧ a ≠ 0 ∧ b ≠ 0 ∧ d ≠ 0 :=
  ⟨2 / 3, 2 / 3, 1 / 3, by norm_num, by norm_num, by norm_num, by norm_num⟩

/-! ## `grid.weights = w` as an operation of a history (driver op `setw`) -/

/-- **Assigning the weights changes the weights only**: the coordinate system, the coordinates and so every point stay. -/
theorem setWeights_points (g : Grid) (w : Weights) :
    (g.setWeights w).system = g.system ∧ (g.setWeights w).coords = g.coords ∧
    (g.setWeights w).coords.points = g.coords.points := ⟨rfl, rfl, rfl⟩

/-- **The weights read back are the assigned ones** (an array as it is, a scalar broadcast to every point); assigning `None`
returns to the automatic weights. -/
theorem setWeights_weightList (g : Grid) (a : List Rat) (k : Rat) :
    (g.setWeights (.array a)).weightList = some a ∧
    (g.setWeights (.scalar k)).weightList = some (List.replicate g.coords.size k) ∧
    (g.setWeights .none).getWeights = autoWeights g.system g.coords := ⟨rfl, rfl, rfl⟩

/-- **A scale after the assignment multiplies exactly the assigned weights by the Jacobian** (Cartesian grids, either
argument form), whatever weights the grid had before. -/
theorem setWeights_then_scale (g g' : Grid) (a : List Rat) (s : ScaleArg) (hc : g.system = .cartesian)
    (h : (g.setWeights (.array a)).scale s = some g') :
    g'.weightList = some (a.map (· * s.weightFactor g.coords.ndim)) ∧ g'.coords = g.coords.scale (s.factors g.coords.ndim) := by
  simp only [Grid.scale, Grid.setWeights, hc, Grid.getWeights, Option.map_some, Option.some.injEq] at h
  subst h
  exact ⟨rfl, rfl⟩

example : ∃ g g' : Grid, g.system = .cartesian ∧ (g.setWeights (.array [1, 2])).scale (.scalar 2) = some g' :=
  ⟨⟨.cartesian, .separated [[0, 1]], .none⟩, _, rfl, rfl⟩


end HcipyVerif.Grid
