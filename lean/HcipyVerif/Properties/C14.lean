import HcipyVerif.Lemmas.ModeBasis
import HcipyVerif.Lemmas.Lstsq
import HcipyVerif.Lemmas.GaussJordan
import HcipyVerif.Lemmas.Mirror
import HcipyVerif.Lemmas.SliceSegment

/-!
# C14 — Mode bases behave identically in every storage form; mirrors track actuators

Model: `HcipyVerif.ModeBasis` (storage forms `dense` = list of rows, `sparse` = list of stored
CSC columns; constructors `fromDense / fromCSC / fromFields / fromSparseRows`; operations
`linComb`, `getItem`, `add`, `sparsify`, `densify`) and `HcipyVerif.Mirror` (heap of actuator
arrays with handles, heap of surface arrays with the handles the caller received,
value-compared private-copy surface cache, reads hand out copies).  The shared denotation is
`toDense : Basis K → List (List K)` together with `npix`, `nmodes`.

The basis theorems hold over every commutative semiring / additive monoid `K` (in particular
ℚ, ℝ, ℂ, and the Gaussian rationals the driver executes with); the least-squares theorem over an
ordered field (real case) and over ℂ; the mirror theorems over any scalar type with decidable
equality — no algebraic law is needed for them at all.

Hypotheses (satisfiability `example`s at the end): `WF b` — the shapes NumPy/SciPy guarantee
(row lengths, stored row indices below `npix`).
-/
set_option linter.unusedSimpArgs false
set_option linter.unusedVariables false
set_option linter.unusedSectionVars false

namespace HcipyVerif.C14
open HcipyVerif.ModeBasis HcipyVerif.Mirror

section basis
variable {K : Type} [CommSemiring K]

/-- **All four constructors denote the same matrix.**  If a dense array, a CSC triple
(`cscEntry` = sum of the stored values of column `j` with row index `i`, duplicates and explicit
zeros allowed), a list of fields and a list of sparse row vectors all describe the same entries
`f i j` on the `npix × nmodes` box, the four resulting mode bases have one and the same dense
table, number of points and number of modes. -/
theorem forms_same_map (npix nmodes : Nat) (f : Nat → Nat → K)
    (rows : List (List K)) (hr : WF (fromDense npix nmodes rows))
    (hrf : ∀ i j, i < npix → j < nmodes → rowsEntry rows i j = f i j)
    (indptr indices : List Nat) (data : List K) (hlen : indices.length = data.length)
    (hptr : ∀ j, j < nmodes → indptr.getD j 0 ≤ indptr.getD (j + 1) 0 ∧ indptr.getD (j + 1) 0 ≤ data.length)
    (hcf : ∀ i j, i < npix → j < nmodes → cscEntry indptr indices data i j = f i j)
    (fields : List (List K)) (hfl : fields.length = nmodes)
    (hff : ∀ i j, i < npix → j < nmodes → (fields.getD j []).getD i 0 = f i j)
    (srows : List (SCol K)) (hsl : srows.length = nmodes)
    (hsf : ∀ i j, i < npix → j < nmodes → colEntry (srows.getD j []) i = f i j) :
    toDense (fromDense npix nmodes rows) = table npix nmodes f ∧
    toDense (fromCSC npix nmodes indptr indices data) = table npix nmodes f ∧
    toDense (fromFields npix fields) = table npix nmodes f ∧
    toDense (fromSparseRows npix srows) = table npix nmodes f ∧
    (fromFields npix fields).nmodes = nmodes ∧ (fromSparseRows npix srows).nmodes = nmodes := by
  have tab : ∀ (b : Basis K), b.npix = npix → b.nmodes = nmodes →
      (∀ i j, i < npix → j < nmodes → ent b i j = f i j) → toDense b = table npix nmodes f := by
    intro b h1 h2 h3
    unfold toDense table
    rw [h1, h2]
    apply List.map_congr_left; intro i hi
    apply List.map_congr_left; intro j hj
    simp at hi hj
    exact h3 i j hi hj
  refine ⟨tab _ rfl rfl hrf, tab _ rfl rfl ?_, tab _ rfl hfl ?_, tab _ rfl hsl hsf, hfl, hsl⟩
  · intro i j hi hj
    rw [ent_fromCSC npix nmodes indptr indices data i j hj hlen (hptr j hj)]
    exact hcf i j hi hj
  · intro i j hi hj
    rw [ent_fromFields npix fields i j hi (hfl ▸ hj)]
    exact hff i j hi hj

/-- **`linear_combination` is the matrix–vector product of the dense table, in every storage
form** (dense: row-wise dot products; sparse: per-column accumulation of the stored entries). -/
theorem lc_eq_matvec (b : Basis K) (hb : WF b) (c : List K) :
    linComb b c = matvec (toDense b) c := linComb_eq b hb c

/-- Hence bases that denote the same matrix have the same linear combinations. -/
theorem lc_storage_independent (a b : Basis K) (ha : WF a) (hb : WF b)
    (h : toDense a = toDense b) (c : List K) : linComb a c = linComb b c := by
  rw [lc_eq_matvec a ha, lc_eq_matvec b hb, h]

/-- **Single-mode access commutes with `toDense`**: an integer index (Python-normalised,
negative indices count from the end) returns column `j` of the dense table as a vector, or
`IndexError` — in either storage form. -/
theorem getitem_commutes (b : Basis K) (k : Int) :
    getItem b (.int k) = match normIndex b.nmodes k with
      | some j => .ok (.mode ((toDense b).map (·.getD j 0)))
      | none => .error .index := by
  rw [getItem_int]
  cases h : normIndex b.nmodes k with
  | none => rfl
  | some j => simp only; rw [column_eq b j (normIndex_lt _ _ _ h)]

/-- **Slicing / index lists / masks commute with `toDense`**: every index expression other
than a scalar returns a `ModeBasis` (never a bare mode, whatever the number of selected
columns) in the storage form of the source, whose dense table consists of the selected columns
of the source's dense table; errors of the index expression are passed through. -/
theorem slice_commutes (b : Basis K) (hb : WF b) (ix : Index) (hix : ∀ k, ix ≠ .int k) :
    (∀ idx, selIdx b.nmodes ix = .ok idx →
      ∃ r, getItem b ix = .ok (.basis r) ∧ WF r ∧ r.npix = b.npix ∧ r.nmodes = idx.length ∧
        r.isSparse = b.isSparse ∧ toDense r = pickCols (toDense b) idx) ∧
    (∀ e, selIdx b.nmodes ix = .error e → getItem b ix = .error e) := by
  rw [getItem_multi b ix hix]
  constructor
  · intro idx h
    rw [h]
    exact ⟨_, rfl, WF_selectCols b hb idx, selectCols_npix b idx, selectCols_nmodes b idx,
      selectCols_isSparse b idx, toDense_selectCols b hb idx⟩
  · intro e h; rw [h]

/-- **`__getitem__` does not depend on the storage form**: two well-formed bases denoting the
same matrix answer every index expression with the same kind of result (mode / basis / error)
and the same values. -/
theorem getitem_storage_independent (a b : Basis K) (ha : WF a) (hb : WF b) (h : Same a b)
    (ix : Index) : (getItem a ix).map Item.den = (getItem b ix).map Item.den := by
  obtain ⟨h1, h2, h3⟩ := h
  by_cases hix : ∃ k, ix = .int k
  · obtain ⟨k, rfl⟩ := hix
    rw [getitem_commutes, getitem_commutes, h2, h3]
  · have hix' : ∀ k, ix ≠ .int k := fun k hk => hix ⟨k, hk⟩
    rw [getItem_multi a ix hix', getItem_multi b ix hix', h2]
    cases selIdx b.nmodes ix with
    | error e => rfl
    | ok idx =>
      simp only [Except.map, Item.den]
      rw [selectCols_npix, selectCols_npix, selectCols_nmodes, selectCols_nmodes,
        toDense_selectCols a ha, toDense_selectCols b hb, h1, h3]

/-! #### `slice.indices` exactly (the executed `sliceIndices` / `rangeLen` / `rangeList`) -/

/-- **The length of a range is exact**: for every start, stop and non-zero step, `k` is below
`len(range(s, e, st))` exactly when `s + k·st` lies strictly before `e` in the direction of the
step — so `rangeList s e st` enumerates, in order, precisely the set
`{ s + k·st | k ∈ ℕ, s + k·st before e }` and nothing else. -/
theorem slice_count_exact (s e st : Int) (hst : st ≠ 0) (k : Nat) :
    k < rangeLen s e st ↔ (0 < st → s + k * st < e) ∧ (st < 0 → e < s + k * st) := by
  unfold rangeLen
  rcases lt_or_gt_of_ne hst with hneg | hpos
  · have h1 : ¬ st > 0 := by omega
    rw [if_neg h1]
    have hp : 0 < -st := by omega
    by_cases hes : e < s
    · rw [if_pos hes]
      have hnn : 0 ≤ (s - e - st - 1) / (-st) := Int.ediv_nonneg (by omega) (by omega)
      have e2 : s - e + -st - 1 = s - e - st - 1 := by ring
      constructor
      · intro h
        have : (k : Int) < (s - e - st - 1) / (-st) := by omega
        have := (ceil_lt k (s - e) (-st) hp).mp (by rw [e2]; exact this)
        exact ⟨fun h => by omega, fun _ => by nlinarith⟩
      · intro ⟨_, h⟩
        have h' := h hneg
        have : (k : Int) * (-st) < s - e := by nlinarith
        have := (ceil_lt k (s - e) (-st) hp).mpr this
        rw [e2] at this
        omega
    · rw [if_neg hes]
      constructor
      · intro h; omega
      · intro ⟨_, h⟩
        have h' := h hneg
        have : (0:Int) ≤ k := Int.natCast_nonneg k
        nlinarith
  · have h1 : st > 0 := hpos
    rw [if_pos h1]
    by_cases hse : s < e
    · rw [if_pos hse]
      have hnn : 0 ≤ (e - s + st - 1) / st := Int.ediv_nonneg (by omega) (by omega)
      constructor
      · intro h
        have : (k : Int) < (e - s + st - 1) / st := by omega
        have := (ceil_lt k (e - s) st hpos).mp this
        exact ⟨fun _ => by linarith, fun h => by omega⟩
      · intro ⟨h, _⟩
        have h' := h hpos
        have : (k : Int) * st < e - s := by linarith
        have := (ceil_lt k (e - s) st hpos).mpr this
        omega
    · rw [if_neg hse]
      constructor
      · intro h; omega
      · intro ⟨h, _⟩
        have h' := h hpos
        have : (0:Int) ≤ k := Int.natCast_nonneg k
        nlinarith

/-- **`slice.indices(n)` keeps every selected position inside `[0, n)`** for all arguments
(negative, out of range, missing, negative steps): the `toNat` in `rangeList` loses nothing and
`selectCols` never reads outside the matrix. -/
theorem slice_indices_inbounds (n : Nat) (a b c : Option Int) (s e st : Int)
    (h : sliceIndices n a b c = some (s, e, st)) (k : Nat) (hk : k < rangeLen s e st) :
    0 ≤ s + k * st ∧ s + k * st < n := by
  have hst : st ≠ 0 := (sliceIndices_step n a b c s e st h).1
  have hr := (slice_count_exact s e st hst k).mp hk
  have hk0 : (0:Int) ≤ k := Int.natCast_nonneg k
  unfold sliceIndices at h
  by_cases h0 : c.getD 1 = 0
  · simp [h0] at h
  · simp only [h0, if_false, Option.some.injEq, Prod.mk.injEq] at h
    obtain ⟨hs, he, hc⟩ := h
    rw [hc] at hs he
    rcases lt_or_gt_of_ne hst with hneg | hpos
    · have hb := hr.2 hneg
      simp only [hneg, if_true] at hs he
      have hs' : s ≤ n - 1 := by
        rw [← hs]; cases a <;> simp <;> split_ifs <;> omega
      have he' : -1 ≤ e := by
        rw [← he]; cases b <;> simp <;> split_ifs <;> omega
      constructor
      · omega
      · nlinarith
    · have hb := hr.1 hpos
      have hn : ¬ st < 0 := by omega
      simp only [hn, if_false] at hs he
      have hs' : 0 ≤ s := by
        rw [← hs]; cases a <;> simp <;> split_ifs <;> omega
      have he' : e ≤ n := by
        rw [← he]; cases b <;> simp <;> split_ifs <;> omega
      constructor
      · nlinarith
      · omega

/-- **The positions a slice selects are exactly `{start + k·step}` of the normalised triple**, for
all arguments: `sliceIdx` fails iff the step is zero (`ValueError`); otherwise, with
`(s, e, st) = slice(a, b, c).indices(n)`, the list has one entry per `k` with `s + k·st` strictly
before `e`, the `k`-th entry *is* `s + k·st` (as an integer — no truncation), and it is a valid
column index. -/
theorem sliceIdx_is_range (n : Nat) (a b c : Option Int) :
    (sliceIdx n a b c = none ↔ c.getD 1 = 0) ∧
    ∀ s e st, sliceIndices n a b c = some (s, e, st) →
      ∃ l, sliceIdx n a b c = some l ∧ l.length = rangeLen s e st ∧
        (∀ k : Nat, k < l.length ↔ (0 < st → s + k * st < e) ∧ (st < 0 → e < s + k * st)) ∧
        ∀ k (hk : k < l.length), ((l[k] : Nat) : Int) = s + k * st ∧ l[k] < n := by
  constructor
  · unfold sliceIdx sliceIndices
    by_cases h0 : c.getD 1 = 0 <;> simp [h0]
  · intro s e st h
    have hst := (sliceIndices_step n a b c s e st h).1
    refine ⟨rangeList s e st, by simp [sliceIdx, h], by simp [rangeList], ?_, ?_⟩
    · intro k
      simp only [rangeList, List.length_map, List.length_range]
      exact slice_count_exact s e st hst k
    · intro k hk
      have hk' : k < rangeLen s e st := by simpa [rangeList] using hk
      have hb := slice_indices_inbounds n a b c s e st h k hk'
      simp only [rangeList, List.getElem_map, List.getElem_range]
      constructor
      · exact Int.toNat_of_nonneg hb.1
      · omega

/-- the normalised triple exists for every non-zero step: e.g. `slice(None, None, -1).indices(3) = (2, -1, -1)` -/
example : sliceIndices 3 none none (some (-1)) = some (2, -1, -1) ∧ sliceIdx 3 none none (some (-1)) = some [2, 1, 0] := by
  decide

/-- A window `k : k+1` selects exactly column `k` … -/
theorem sliceIdx_window (n k : Nat) (hk : k < n) :
    sliceIdx n (some (k : Int)) (some ((k : Int) + 1)) none = some [k] := by
  have h1 : ¬ ((k : Int) < 0) := by omega
  have h2 : ¬ ((k : Int) + 1 < 0) := by omega
  have h3 : ¬ ((k : Int) > (n : Int)) := by omega
  have h4 : ¬ ((k : Int) + 1 > (n : Int)) := by omega
  have h5 : ((k : Int) + 1 - k + 1 - 1) / 1 = 1 := by omega
  simp [sliceIdx, sliceIndices, rangeList, rangeLen, h1, h2, h3, h4]

/-- … and the code as pinned (D22) answered it with a bare mode on **every** sparse basis,
while every dense basis answers with a one-mode `ModeBasis`: the two storage forms of one and
the same matrix disagree in the kind of the result. -/
theorem getItemOld_window_disagrees (n m k : Nat) (hk : k < m) (cols : List (SCol K)) (rows : List (List K)) :
    (∃ v, getItemOld (.sparse n m cols) (.slice (some k) (some (k + 1)) none) = .ok (.mode v)) ∧
    (∃ r, getItemOld (.dense n m rows) (.slice (some k) (some (k + 1)) none) = .ok (.basis r)) := by
  constructor
  · refine ⟨column (.sparse n m cols) k, ?_⟩
    simp [getItemOld, selIdx, Basis.nmodes, sliceIdx_window m k hk]
  · refine ⟨selectCols (.dense n m rows) [k], ?_⟩
    simp [getItemOld, selIdx, Basis.nmodes, sliceIdx_window m k hk]

/-- The repaired `__getitem__` answers the same window with a one-mode basis in both forms. -/
theorem getItem_window (b : Basis K) (k : Nat) (hk : k < b.nmodes) :
    getItem b (.slice (some k) (some (k + 1)) none) = .ok (.basis (selectCols b [k])) := by
  simp [getItem, selIdx, sliceIdx_window b.nmodes k hk]

/-! ### The constructor dispatch

`fromInput` is the decision `ModeBasis.__init__` takes on the Python object it is given (the
driver builds every basis through it; the harness only describes the object: ndarray, sparse
matrix of a given format, list or tuple of vectors / sparse matrices). -/

/-- a two-dimensional `ndarray` is taken as the dense transformation matrix -/
theorem fromInput_ndarray (n m : Nat) (rows : List (List K)) :
    fromInput (.ndarray n m rows) = some (fromDense n m rows) := rfl

/-- a CSC sparse matrix is taken over as the sparse transformation matrix -/
theorem fromInput_csc (n m : Nat) (ip ix : List Nat) (d : List K) :
    fromInput (.spmat .csc n m ip ix d) = some (fromCSC n m ip ix d) := rfl

/-- a non-empty list or tuple of vectors of one length is `fromFields` (`np.stack(…, axis=-1)`) -/
theorem fromInput_fields (t : Bool) (npix : Nat) (vs : List (List K)) (hne : vs ≠ [])
    (h : ∀ v ∈ vs, v.length = npix) :
    fromInput (.seq t (vs.map Mode.vec)) = some (fromFields npix vs) := by
  match vs, hne with
  | v :: rest, _ =>
    have hv : v.length = npix := h v (by simp)
    have := allVec_map npix (v :: rest) h
    simp only [List.map_cons] at this ⊢
    simp only [fromInput, hv, this, Option.map_some]

/-- a non-empty list or tuple of sparse row vectors `(1, npix)` is `fromSparseRows`
(`vstack(…).T.tocsc()`) -/
theorem fromInput_rows (t : Bool) (npix : Nat) (es : List (SCol K)) (hne : es ≠ []) :
    fromInput (.seq t (es.map (Mode.sp 1 npix))) = some (fromSparseRows npix es) := by
  match es, hne with
  | e :: rest, _ =>
    have := allRow_map npix (e :: rest)
    simp only [List.map_cons] at this ⊢
    simp only [fromInput, this, Option.map_some]

/-- lists and tuples are treated alike -/
theorem fromInput_tuple_eq_list (items : List (Mode K)) :
    fromInput (.seq true items) = fromInput (.seq false items) := by
  match items with
  | [] => rfl
  | .vec _ :: _ => rfl
  | .sp .. :: _ => rfl

/-- an empty list, and a list that mixes vectors and sparse matrices, is rejected (`ValueError`
from `np.stack`) -/
theorem fromInput_rejects (t : Bool) (v : List K) (nr nc : Nat) (e : SCol K) (l l' : List (Mode K)) :
    fromInput (.seq t ([] : List (Mode K))) = none ∧
    fromInput (.seq t (.vec v :: (l ++ .sp nr nc e :: l'))) = none ∧
    fromInput (.seq t (.sp nr nc e :: (l ++ .vec v :: l'))) = none := by
  refine ⟨rfl, ?_, ?_⟩
  · have := allVec_sp v.length nr nc e (.vec v :: l) l'
    simp only [List.cons_append] at this
    simp only [fromInput, this, Option.map_none]
  · have := allRow_vec nc v (.sp nr nc e :: l) l'
    simp only [List.cons_append] at this
    simp only [fromInput, this, Option.map_none]

/-- **Every input form, through the dispatch, denotes the same matrix.**  If an ndarray, a CSC
triple, a CSR triple, COO triples, a list of vectors and a tuple of sparse row vectors all
describe the entries `f i j` of an `npix × nmodes` matrix (`nmodes > 0` for the two list forms),
`fromInput` accepts each of them and the resulting bases have the same dense table and shape. -/
theorem input_forms_same_map (npix nmodes : Nat) (hm : 0 < nmodes) (f : Nat → Nat → K)
    (rows : List (List K)) (hr : WF (fromDense npix nmodes rows))
    (hrf : ∀ i j, i < npix → j < nmodes → rowsEntry rows i j = f i j)
    (indptr indices : List Nat) (data : List K) (hlen : indices.length = data.length)
    (hptr : ∀ j, j < nmodes → indptr.getD j 0 ≤ indptr.getD (j + 1) 0 ∧ indptr.getD (j + 1) 0 ≤ data.length)
    (hcf : ∀ i j, i < npix → j < nmodes → cscEntry indptr indices data i j = f i j)
    (rptr rind : List Nat) (rdata : List K) (hrlen : rind.length = rdata.length)
    (hrptr : ∀ i, i < npix → rptr.getD i 0 ≤ rptr.getD (i + 1) 0 ∧ rptr.getD (i + 1) 0 ≤ rdata.length)
    (hrcf : ∀ i j, i < npix → j < nmodes → cscEntry rptr rind rdata j i = f i j)
    (crow ccol : List Nat) (cdata : List K)
    (hcoo : ∀ i j, i < npix → j < nmodes → cooEntry crow ccol cdata i j = f i j)
    (fields : List (List K)) (hfl : fields.length = nmodes) (hfn : ∀ v ∈ fields, v.length = npix)
    (hff : ∀ i j, i < npix → j < nmodes → (fields.getD j []).getD i 0 = f i j)
    (srows : List (SCol K)) (hsl : srows.length = nmodes)
    (hsf : ∀ i j, i < npix → j < nmodes → colEntry (srows.getD j []) i = f i j) :
    ∀ inp ∈ [Input.ndarray npix nmodes rows, .spmat .csc npix nmodes indptr indices data,
        .spmat .csr npix nmodes rptr rind rdata, .spmat .coo npix nmodes crow ccol cdata,
        .seq false (fields.map Mode.vec), .seq true (srows.map (Mode.sp 1 npix))],
      ∃ b, fromInput inp = some b ∧ toDense b = table npix nmodes f ∧ b.npix = npix ∧ b.nmodes = nmodes := by
  obtain ⟨h1, h2, h3, h4, h5, h6⟩ := forms_same_map npix nmodes f rows hr hrf indptr indices data hlen hptr hcf
    fields hfl hff srows hsl hsf
  have tab : ∀ (b : Basis K), b.npix = npix → b.nmodes = nmodes →
      (∀ i j, i < npix → j < nmodes → ent b i j = f i j) → toDense b = table npix nmodes f := by
    intro b e1 e2 e3
    unfold toDense table
    rw [e1, e2]
    apply List.map_congr_left; intro i hi
    apply List.map_congr_left; intro j hj
    simp at hi hj
    exact e3 i j hi hj
  have hfne : fields ≠ [] := by intro h; rw [h] at hfl; simp at hfl; omega
  have hsne : srows ≠ [] := by intro h; rw [h] at hsl; simp at hsl; omega
  intro inp hinp
  simp only [List.mem_cons, List.mem_nil_iff, or_false] at hinp
  rcases hinp with rfl | rfl | rfl | rfl | rfl | rfl
  · exact ⟨_, rfl, h1, rfl, rfl⟩
  · exact ⟨_, rfl, h2, rfl, rfl⟩
  · refine ⟨_, rfl, tab _ rfl rfl ?_, rfl, rfl⟩
    intro i j hi hj
    have hlen' : (splitCSC npix rptr rind rdata).length = npix := by simp [splitCSC]
    rw [ent_transposeRows npix nmodes _ i j (by rw [hlen']; exact hi) hj]
    have := ent_fromCSC nmodes npix rptr rind rdata j i hi hrlen (hrptr i hi)
    simp only [ent, fromCSC] at this
    rw [this]
    exact hrcf i j hi hj
  · refine ⟨_, rfl, tab _ rfl rfl ?_, rfl, rfl⟩
    intro i j hi hj
    rw [ent_cooCols npix nmodes crow ccol cdata i j hj]
    exact hcoo i j hi hj
  · exact ⟨_, fromInput_fields false npix fields hfne hfn, h3, rfl, h5⟩
  · exact ⟨_, fromInput_rows true npix srows hsne, h4, rfl, h6⟩

/-- **Bridge from the driver to the hypotheses of the basis theorems.**  `Input.valid` is the
check the driver evaluates on every `new` request (shapes of the ndarray, lengths and index
ranges of the arrays of a sparse matrix — what NumPy/SciPy guarantee for the object); whatever
`fromInput` builds from a valid input is well-formed.  Together with the `WF r` conclusions of
`slice_commutes`, `add_is_hconcat`, `extend_is_hconcat`, `append_is_hconcat` and
`sparse_dense_roundtrip` this makes `WF` hold for every basis the driver ever holds in a
register, i.e. for every basis the harness compares with the running code. -/
theorem fromInput_WF (inp : Input K) (hv : inp.valid = true) (b : Basis K)
    (hb : fromInput inp = some b) : WF b := fromInput_WF_aux inp hv b hb

/-- the validity check is satisfiable by every input form (and rejects a CSC triple whose row
index exceeds the grid) -/
example : (Input.ndarray 2 1 [[(1 : Int)], [2]]).valid = true ∧
    (Input.spmat .csc 2 2 [0, 1, 3] [1, 0, 0] [(5 : Int), 0, 7]).valid = true ∧
    (Input.spmat .csr 2 2 [0, 2, 3] [0, 1, 1] [(5 : Int), 0, 7]).valid = true ∧
    (Input.spmat .coo 2 2 [1, 1, 0] [0, 0, 1] [(5 : Int), 2, 7]).valid = true ∧
    (Input.seq true [.sp 1 3 [(2, (4 : Int))], .sp 1 3 []]).valid = true ∧
    (Input.spmat .csc 2 1 [0, 1] [2] [(5 : Int)]).valid = false := by decide

variable [DecidableEq K]

/-- **`a + b` is horizontal concatenation**: for bases over the same grid the sum exists, has
`a.nmodes + b.nmodes` modes, is sparse exactly when one operand is, and its dense table is the
row-wise concatenation of the two tables — for all four storage combinations. -/
theorem add_is_hconcat (a b : Basis K) (ha : WF a) (hb : WF b) (h : a.npix = b.npix) :
    ∃ r, add a b = some r ∧ WF r ∧ r.npix = a.npix ∧ r.nmodes = a.nmodes + b.nmodes ∧
      r.isSparse = (a.isSparse || b.isSparse) ∧
      toDense r = List.zipWith (· ++ ·) (toDense a) (toDense b) := add_spec a b ha hb h

/-- **In-place concatenation** (`extend`, `append`) glues the new columns to the right as well,
keeping the storage form of the basis that is extended. -/
theorem extend_is_hconcat (a b : Basis K) (ha : WF a) (hb : WF b) (h : a.npix = b.npix) :
    ∃ r, extend a b = some r ∧ WF r ∧ r.npix = a.npix ∧ r.nmodes = a.nmodes + b.nmodes ∧
      r.isSparse = a.isSparse ∧
      toDense r = List.zipWith (· ++ ·) (toDense a) (toDense b) := extend_spec a b ha hb h

theorem append_is_hconcat (a : Basis K) (ha : WF a) (v : List K) (hv : v.length = a.npix) :
    ∃ r, append a v = some r ∧ WF r ∧ r.npix = a.npix ∧ r.nmodes = a.nmodes + 1 ∧
      r.isSparse = a.isSparse ∧
      toDense r = List.zipWith (· ++ ·) (toDense a) (v.map fun x => [x]) := append_spec a ha v hv

/-- Bases over grids of different size cannot be added (`ValueError`). -/
theorem add_shape_mismatch (a b : Basis K) (h : a.npix ≠ b.npix) : add a b = none := by
  simp [add, h]

/-- **Sparse ↔ dense round trip**: `to_sparse` (dropping zeros) and `to_dense` keep the dense
table, the shape and well-formedness, produce the requested storage form, and converting a
dense basis to sparse and back returns the identical dense basis. -/
theorem sparse_dense_roundtrip (b : Basis K) (hb : WF b) :
    toDense (sparsify b) = toDense b ∧ toDense (densify b) = toDense b ∧
    (sparsify b).isSparse = true ∧ (densify b).isSparse = false ∧
    WF (sparsify b) ∧ WF (densify b) ∧
    toDense (densify (sparsify b)) = toDense b ∧ toDense (sparsify (densify b)) = toDense b ∧
    (b.isSparse = false → densify (sparsify b) = b) := by
  refine ⟨toDense_sparsify b, toDense_densify b, sparsify_isSparse b, densify_isSparse b,
    WF_sparsify b hb, WF_densify b hb, ?_, ?_, ?_⟩
  · rw [toDense_densify, toDense_sparsify]
  · rw [toDense_sparsify, toDense_densify]
  · intro hs
    cases b with
    | sparse n m cols => simp [Basis.isSparse] at hs
    | dense n m rows =>
      have := toDense_sparsify (.dense n m rows)
      simp only [sparsify] at this ⊢
      simp only [densify]
      rw [this, toDense_dense n m rows hb]

end basis

section lstsq
open HcipyVerif.ModeBasis

/-- **Least squares recovers the coefficients of linearly independent modes** — real scalars
(any ordered field), any storage form.  If the linear-combination map of the basis is injective
on coefficient vectors, then every minimiser `x` of `‖A x − A c‖²` is `c`. -/
theorem lstsq_recovers {R : Type} [Field R] [LinearOrder R] [IsStrictOrderedRing R]
    (b : Basis R) (hb : WF b)
    (hind : ∀ x y : List R, x.length = b.nmodes → y.length = b.nmodes → linComb b x = linComb b y → x = y)
    (c x : List R) (hc : c.length = b.nmodes) (hx : x.length = b.nmodes)
    (hmin : ∀ y : List R, y.length = b.nmodes →
      resid (fun z => z * z) (linComb b x) (linComb b c) ≤ resid (fun z => z * z) (linComb b y) (linComb b c)) :
    x = c :=
  lstsq_recovers_gen (fun z : R => z * z) (by simp) (fun z => mul_self_nonneg z)
    (fun z hz => mul_self_eq_zero.mp hz) (linComb b)
    (fun x y => by rw [linComb_length b hb, linComb_length b hb]) b.nmodes hind c x hc hx hmin

/-- The same over ℂ with the squared modulus `|z|²`. -/
theorem lstsq_recovers_complex (b : Basis ℂ) (hb : WF b)
    (hind : ∀ x y : List ℂ, x.length = b.nmodes → y.length = b.nmodes → linComb b x = linComb b y → x = y)
    (c x : List ℂ) (hc : c.length = b.nmodes) (hx : x.length = b.nmodes)
    (hmin : ∀ y : List ℂ, y.length = b.nmodes →
      resid Complex.normSq (linComb b x) (linComb b c) ≤ resid Complex.normSq (linComb b y) (linComb b c)) :
    x = c :=
  lstsq_recovers_gen (fun z : ℂ => Complex.normSq z) (by simp) Complex.normSq_nonneg
    (fun z hz => Complex.normSq_eq_zero.mp hz) (linComb b)
    (fun x y => by rw [linComb_length b hb, linComb_length b hb]) b.nmodes hind c x hc hx hmin

/-- `certified` spelled out -/
theorem certified_iff {K : Type} [Zero K] [Add K] [Sub K] [Mul K] [DecidableEq K] (conj : K → K)
    (b : Basis K) (x y : List K) :
    certified conj b x y = true ↔ (∀ t ∈ normalResidual conj b x y, t = 0) ∧ x.length = b.nmodes := by
  simp [certified]

/-- **A certified answer of the model is a least-squares solution** — real scalars.  The driver
answers `lstsq` with `x` only when `certified conj b x y` evaluates to `true` on the output of the
Gauss–Jordan model `ModeBasis.lstsq` (exact check of `Aᴴ (A x − y) = 0` and of the length); that
executed predicate is the hypothesis here.  Conclusion: `x` minimises `‖A z − y‖²` over all
coefficient vectors, in every storage form. -/
theorem normal_eq_minimises {R : Type} [Field R] [LinearOrder R] [IsStrictOrderedRing R]
    (b : Basis R) (hb : WF b) (x y : List R) (hy : y.length = b.npix)
    (h : certified id b x y = true) :
    ∀ z : List R, z.length = b.nmodes →
      resid (fun t => t * t) (linComb b x) y ≤ resid (fun t => t * t) (linComb b z) y := by
  obtain ⟨h, hx⟩ := (certified_iff id b x y).mp h
  exact fun z hz => normal_eq_minimises_gen (RingHom.id R) (AddMonoidHom.id R) (fun t => t * t)
    (fun a b => by simp only [RingHom.id_apply, AddMonoidHom.id_apply]; ring)
    (fun t => mul_self_nonneg t) b hb x y hx hy h z hz

/-- The same over ℂ (`conj` = complex conjugation, squared modulus). -/
theorem normal_eq_minimises_complex [DecidableEq ℂ] (b : Basis ℂ) (hb : WF b) (x y : List ℂ)
    (hy : y.length = b.npix) (h : certified (starRingEnd ℂ) b x y = true) :
    ∀ z : List ℂ, z.length = b.nmodes →
      resid Complex.normSq (linComb b x) y ≤ resid Complex.normSq (linComb b z) y := by
  obtain ⟨h, hx⟩ := (certified_iff (starRingEnd ℂ) b x y).mp h
  exact fun z hz => normal_eq_minimises_gen (starRingEnd ℂ) Complex.reAddGroupHom Complex.normSq
    (fun a b => by rw [Complex.normSq_add, mul_comm ((starRingEnd ℂ) b) a]; rfl)
    Complex.normSq_nonneg b hb x y hx hy h z hz

/-- **Hence the model's certified `coefficients_for` reproduces the coefficients of independent
modes**: what the driver prints for `y = A·c` (it passed `certified`) is `c`.  This is
`lstsq_recovers` with its minimiser hypothesis discharged for the model. -/
theorem lstsq_certified_recovers {R : Type} [Field R] [LinearOrder R] [IsStrictOrderedRing R]
    (b : Basis R) (hb : WF b)
    (hind : ∀ x y : List R, x.length = b.nmodes → y.length = b.nmodes → linComb b x = linComb b y → x = y)
    (c x : List R) (hc : c.length = b.nmodes)
    (h : certified id b x (linComb b c) = true) : x = c :=
  lstsq_recovers b hb hind c x hc ((certified_iff id b x _).mp h).2 fun z hz =>
    normal_eq_minimises b hb x (linComb b c) (linComb_length b hb c) h z hz

theorem lstsq_certified_recovers_complex [DecidableEq ℂ] (b : Basis ℂ) (hb : WF b)
    (hind : ∀ x y : List ℂ, x.length = b.nmodes → y.length = b.nmodes → linComb b x = linComb b y → x = y)
    (c x : List ℂ) (hc : c.length = b.nmodes)
    (h : certified (starRingEnd ℂ) b x (linComb b c) = true) : x = c :=
  lstsq_recovers_complex b hb hind c x hc ((certified_iff (starRingEnd ℂ) b x _).mp h).2 fun z hz =>
    normal_eq_minimises_complex b hb x (linComb b c) (linComb_length b hb c) h z hz

/-- **The executable least-squares model is sound**: whatever `ModeBasis.lstsq` (normal
equations solved by Gauss–Jordan elimination with pivot search, on lists — the function the
driver runs for `C14 lstsq`) returns passes the certificate: it has one coefficient per mode and
solves `Aᴴ (A x − y) = 0` exactly.  Any field, any `conj`, every storage form, every right-hand
side of the right length; no hypothesis on the rank (dependent modes make `lstsq` answer `none`
or a particular solution, never a wrong one).  The driver's run-time evaluation of `certified`
therefore never fails (`err internal` is unreachable). -/
theorem lstsq_sound {K : Type} [Field K] [DecidableEq K] (conj : K → K) (b : Basis K)
    (x y : List K) (hy : y.length = b.npix) (h : lstsq conj b y = some x) :
    certified conj b x y = true := by
  obtain ⟨hx, hr⟩ := lstsq_sound_aux conj b x y hy h
  exact (certified_iff conj b x y).mpr ⟨hr, hx⟩

/-- **The model's `coefficients_for` returns a least-squares solution** — real scalars: no
certificate, no hypothesis about the answer; `x` is what `lstsq` computed. -/
theorem lstsq_minimises {R : Type} [Field R] [LinearOrder R] [IsStrictOrderedRing R]
    (b : Basis R) (hb : WF b) (x y : List R) (hy : y.length = b.npix) (h : lstsq id b y = some x) :
    ∀ z : List R, z.length = b.nmodes →
      resid (fun t => t * t) (linComb b x) y ≤ resid (fun t => t * t) (linComb b z) y :=
  normal_eq_minimises b hb x y hy (lstsq_sound id b x y hy h)

theorem lstsq_minimises_complex [DecidableEq ℂ] (b : Basis ℂ) (hb : WF b) (x y : List ℂ)
    (hy : y.length = b.npix) (h : lstsq (starRingEnd ℂ) b y = some x) :
    ∀ z : List ℂ, z.length = b.nmodes →
      resid Complex.normSq (linComb b x) y ≤ resid Complex.normSq (linComb b z) y :=
  normal_eq_minimises_complex b hb x y hy (lstsq_sound _ b x y hy h)

/-- **… and reproduces the coefficients of any combination of linearly independent modes**
(the least-squares clause of the property, for the executed model): if `lstsq` answers `x` for
`y = A·c`, then `x = c`. -/
theorem lstsq_model_recovers {R : Type} [Field R] [LinearOrder R] [IsStrictOrderedRing R]
    (b : Basis R) (hb : WF b)
    (hind : ∀ x y : List R, x.length = b.nmodes → y.length = b.nmodes → linComb b x = linComb b y → x = y)
    (c x : List R) (hc : c.length = b.nmodes) (h : lstsq id b (linComb b c) = some x) : x = c :=
  lstsq_certified_recovers b hb hind c x hc (lstsq_sound id b x _ (linComb_length b hb c) h)

theorem lstsq_model_recovers_complex [DecidableEq ℂ] (b : Basis ℂ) (hb : WF b)
    (hind : ∀ x y : List ℂ, x.length = b.nmodes → y.length = b.nmodes → linComb b x = linComb b y → x = y)
    (c x : List ℂ) (hc : c.length = b.nmodes) (h : lstsq (starRingEnd ℂ) b (linComb b c) = some x) :
    x = c :=
  lstsq_certified_recovers_complex b hb hind c x hc (lstsq_sound _ b x _ (linComb_length b hb c) h)

/-- **The model's `coefficients_for` always answers for linearly independent modes** (it never
reports "dependent modes", the driver's `err rank`, for them) — real scalars, every right-hand
side.  A failed pivot search would exhibit `z ≠ 0` with `Aᴴ A z = 0`, hence `A z = 0`. -/
theorem lstsq_complete {R : Type} [Field R] [LinearOrder R] [IsStrictOrderedRing R]
    (b : Basis R) (hb : WF b)
    (hind : ∀ x y : List R, x.length = b.nmodes → y.length = b.nmodes → linComb b x = linComb b y → x = y)
    (y : List R) (hy : y.length = b.npix) : ∃ x, lstsq id b y = some x :=
  lstsq_complete_gen (RingHom.id R) (AddMonoidHom.id R)
    (fun w => by simp only [RingHom.id_apply, AddMonoidHom.id_apply]; exact mul_self_nonneg w)
    (fun w h => by
      simp only [RingHom.id_apply, AddMonoidHom.id_apply] at h
      exact mul_self_eq_zero.mp h)
    b hb hind y hy

theorem lstsq_complete_complex [DecidableEq ℂ] (b : Basis ℂ) (hb : WF b)
    (hind : ∀ x y : List ℂ, x.length = b.nmodes → y.length = b.nmodes → linComb b x = linComb b y → x = y)
    (y : List ℂ) (hy : y.length = b.npix) : ∃ x, lstsq (starRingEnd ℂ) b y = some x :=
  lstsq_complete_gen (starRingEnd ℂ) Complex.reAddGroupHom
    (fun w => by
      simp only [Complex.coe_reAddGroupHom, Complex.mul_re, Complex.conj_re, Complex.conj_im]
      nlinarith [mul_self_nonneg w.re, mul_self_nonneg w.im])
    (fun w h => by
      simp only [Complex.coe_reAddGroupHom, Complex.mul_re, Complex.conj_re, Complex.conj_im] at h
      have h1 : w.re * w.re = 0 := by nlinarith [mul_self_nonneg w.re, mul_self_nonneg w.im]
      have h2 : w.im * w.im = 0 := by nlinarith [mul_self_nonneg w.re, mul_self_nonneg w.im]
      exact Complex.ext (mul_self_eq_zero.mp h1) (mul_self_eq_zero.mp h2))
    b hb hind y hy

/-- **The least-squares clause of the property, for the executed model, without any
hypothesis about the answer**: for linearly independent modes, `coefficients_for(A·c)` of the
model *is* `c` — in every storage form (dense or sparse `b`), real scalars. -/
theorem lstsq_total {R : Type} [Field R] [LinearOrder R] [IsStrictOrderedRing R]
    (b : Basis R) (hb : WF b)
    (hind : ∀ x y : List R, x.length = b.nmodes → y.length = b.nmodes → linComb b x = linComb b y → x = y)
    (c : List R) (hc : c.length = b.nmodes) : lstsq id b (linComb b c) = some c := by
  obtain ⟨x, hx⟩ := lstsq_complete b hb hind (linComb b c) (linComb_length b hb c)
  rw [hx, lstsq_model_recovers b hb hind c x hc hx]

/-- the same over ℂ -/
theorem lstsq_total_complex [DecidableEq ℂ] (b : Basis ℂ) (hb : WF b)
    (hind : ∀ x y : List ℂ, x.length = b.nmodes → y.length = b.nmodes → linComb b x = linComb b y → x = y)
    (c : List ℂ) (hc : c.length = b.nmodes) : lstsq (starRingEnd ℂ) b (linComb b c) = some c := by
  obtain ⟨x, hx⟩ := lstsq_complete_complex b hb hind (linComb b c) (linComb_length b hb c)
  rw [hx, lstsq_model_recovers_complex b hb hind c x hc hx]

/-- **An answer of the model certifies independence** (any field, any `conj`): if `lstsq`
answers for some right-hand side, the linear-combination map is injective.  This is the bridge
from the executed model to the hypothesis `hind` of the theorems above: the harness only compares
`coefficients_for` where the model answered. -/
theorem lstsq_some_independent {K : Type} [Field K] [DecidableEq K] (conj : K → K) (b : Basis K)
    (hb : WF b) (x y : List K) (h : lstsq conj b y = some x) :
    ∀ v₁ v₂ : List K, v₁.length = b.nmodes → v₂.length = b.nmodes →
      linComb b v₁ = linComb b v₂ → v₁ = v₂ :=
  fun v₁ v₂ h₁ h₂ hlc => lstsq_unique conj b hb x y h v₁ v₂ h₁ h₂ hlc

/-- **The model answers exactly for the independent bases** — real scalars, every right-hand
side of the right length: "`lstsq` answers" is a decision procedure for "the modes are linearly
independent". -/
theorem lstsq_answers_iff_independent {R : Type} [Field R] [LinearOrder R] [IsStrictOrderedRing R]
    (b : Basis R) (hb : WF b) (y : List R) (hy : y.length = b.npix) :
    (∃ x, lstsq id b y = some x) ↔
    (∀ v₁ v₂ : List R, v₁.length = b.nmodes → v₂.length = b.nmodes →
      linComb b v₁ = linComb b v₂ → v₁ = v₂) :=
  ⟨fun ⟨x, h⟩ => lstsq_some_independent id b hb x y h, fun hind => lstsq_complete b hb hind y hy⟩

/-- **Whatever the model answers for `A·c` is `c`** — no independence hypothesis, no
certificate: the hypothesis is only that `lstsq` answered (which it does exactly for independent
modes).  Real scalars; any storage form. -/
theorem lstsq_answer_exact {R : Type} [Field R] [LinearOrder R] [IsStrictOrderedRing R]
    (b : Basis R) (hb : WF b) (c x : List R) (hc : c.length = b.nmodes)
    (h : lstsq id b (linComb b c) = some x) : x = c :=
  lstsq_model_recovers b hb (lstsq_some_independent id b hb x _ h) c x hc h

theorem lstsq_answer_exact_complex [DecidableEq ℂ] (b : Basis ℂ) (hb : WF b) (c x : List ℂ)
    (hc : c.length = b.nmodes) (h : lstsq (starRingEnd ℂ) b (linComb b c) = some x) : x = c :=
  lstsq_model_recovers_complex b hb (lstsq_some_independent _ b hb x _ h) c x hc h

/-- **`coefficients_for` does not depend on the storage form**: bases that denote the same
matrix give the same answer (the same coefficients, or the same "dependent modes" failure) of the
executable least-squares model, for every right-hand side and every scalar type. -/
theorem coefficients_storage_independent {K : Type} [AddCommMonoid K] [Sub K] [Mul K] [Div K]
    [DecidableEq K] (conj : K → K) (a b : Basis K) (h : Same a b) (y : List K) :
    lstsq conj a y = lstsq conj b y := by
  have hcol : ∀ j ∈ List.range a.nmodes, column a j = column b j := by
    intro j hj
    unfold column
    rw [← h.1]
    apply List.map_congr_left
    intro i hi
    exact ent_of_toDense_eq a b h i j (List.mem_range.mp hi) (List.mem_range.mp hj)
  have hcols : (List.range a.nmodes).map (column a) = (List.range b.nmodes).map (column b) := by
    rw [← h.2.1]; exact List.map_congr_left hcol
  have hadj : adjRows conj a = adjRows conj b := by
    unfold adjRows
    rw [← h.2.1]
    exact List.map_congr_left fun j hj => by rw [hcol j hj]
  unfold lstsq
  simp only [hcols, hadj]
  rw [h.2.1]

/-- **One linear map, one behaviour** (the property's first sentence in one statement).  Two
well-formed bases that denote the same matrix — e.g. the six bases of `input_forms_same_map` —
agree in every observable: all linear combinations, every index expression (kind of result,
values, errors), `to_sparse`/`to_dense`, least-squares coefficients for every right-hand side,
and their concatenations with bases that again denote the same matrix denote the same matrix. -/
theorem same_map_same_behaviour {K : Type} [Field K] [DecidableEq K] (a b : Basis K)
    (ha : WF a) (hb : WF b) (h : Same a b) :
    (∀ c, linComb a c = linComb b c) ∧
    (∀ ix, (getItem a ix).map Item.den = (getItem b ix).map Item.den) ∧
    toDense (sparsify a) = toDense (sparsify b) ∧ toDense (densify a) = toDense (densify b) ∧
    (∀ (conj : K → K) y, lstsq conj a y = lstsq conj b y) ∧
    (∀ a' b', WF a' → WF b' → Same a' b' → a.npix = a'.npix →
      ∃ r r', add a a' = some r ∧ add b b' = some r' ∧ Same r r') := by
  refine ⟨lc_storage_independent a b ha hb h.2.2, getitem_storage_independent a b ha hb h, ?_, ?_,
    fun conj y => coefficients_storage_independent conj a b h y, ?_⟩
  · rw [toDense_sparsify, toDense_sparsify, h.2.2]
  · rw [toDense_densify, toDense_densify, h.2.2]
  · intro a' b' ha' hb' h' hn
    obtain ⟨r, e1, _, n1, m1, _, t1⟩ := add_is_hconcat a a' ha ha' hn
    obtain ⟨r', e2, _, n2, m2, _, t2⟩ := add_is_hconcat b b' hb hb' (by rw [← h.1, ← h'.1, hn])
    refine ⟨r, r', e1, e2, ?_, ?_, ?_⟩
    · rw [n1, n2, h.1]
    · rw [m1, m2, h.2.1, h'.2.1]
    · rw [t1, t2, h.2.2, h'.2.2]

/-- … in particular for any two valid constructor inputs that denote one matrix. -/
theorem inputs_same_map_same_behaviour {K : Type} [Field K] [DecidableEq K] (i₁ i₂ : Input K)
    (v₁ : i₁.valid = true) (v₂ : i₂.valid = true) (a b : Basis K)
    (h₁ : fromInput i₁ = some a) (h₂ : fromInput i₂ = some b) (h : Same a b) :
    (∀ c, linComb a c = linComb b c) ∧
    (∀ ix, (getItem a ix).map Item.den = (getItem b ix).map Item.den) ∧
    (∀ (conj : K → K) y, lstsq conj a y = lstsq conj b y) := by
  obtain ⟨p1, p2, _, _, p5, _⟩ :=
    same_map_same_behaviour a b (fromInput_WF i₁ v₁ a h₁) (fromInput_WF i₂ v₂ b h₂) h
  exact ⟨p1, p2, p5⟩

/-- the certificate is satisfiable: `x = [2]` solves the normal equations of `A = [[1],[1]]`,
`y = [1,3]` (and is not an exact solution of `A x = y`) -/
example : certified id (fromDense 2 1 [[(1 : ℚ)], [1]]) [2] [1, 3] = true := by decide +kernel

/-- … and it is what the model computes (the hypothesis `lstsq … = some x` of `lstsq_sound`,
`lstsq_minimises` is satisfiable; dependent modes answer `none`) -/
example : lstsq id (fromDense 2 1 [[(1 : ℚ)], [1]]) [1, 3] = some [2] ∧
    lstsq id (fromDense 2 2 [[(1 : ℚ), 2], [2, 4]]) [1, 3] = none := by decide +kernel

end lstsq

section mirror
variable {K : Type} [Zero K] [Add K] [Mul K] [DecidableEq K]

/-- The cache invariant holds for a new mirror and is preserved by every operation, hence along
every history: (i) whatever actuator vector the cache claims to belong to, the cached surface
array holds `IF · that vector`; (ii) no array a caller received from `dm.surface` is the cached
array object (so in-place edits of returned surfaces cannot reach the cache). -/
theorem mirror_cache_invariant (infl : List (List K)) (n : Nat) (ops : List (Op K)) :
    Inv (run (init infl n) ops).1 := by
  have : ∀ (m : Mirror K), Inv m → Inv (run m ops).1 := by
    induction ops with
    | nil => intro m h; exact h
    | cons op rest ih => intro m h; exact ih _ (step_inv m op h)
  exact this _ (inv_init infl n)

/-- **The reported surface always equals `IF · current actuators`.**  For EVERY history of
assignments of new arrays, re-assignments of arrays handed out earlier, in-place edits of any
actuator array ever handed out (the one the mirror holds or a released one), **in-place edits of
any surface array a read ever returned** (`Op.editSurface`), `flatten`, `random` and new
influence functions, with reads anywhere in between, the sequence of surfaces returned by the
cached mirror (`read` = the property as repaired by pending_fixes/D22f: a copy is handed out) is
exactly the sequence returned by the cache-free specification, which evaluates
`matvec infl (current actuator array)` at every read and ignores what callers do to arrays they
received.  For the property as pinned this is false: `old_readAlias_corrupts_cache`. -/
theorem mirror_surface_inv (infl : List (List K)) (n : Nat) (ops : List (Op K)) :
    (run (init infl n) ops).2 = (spec (init infl n)).run ops :=
  run_spec _ ops (inv_init infl n)

/-- Pointwise form: in any state reached by any history, a read returns `IF · actuators` and
changes neither the actuators, nor the heap, nor the influence functions. -/
theorem mirror_read_ideal (infl : List (List K)) (n : Nat) (ops : List (Op K)) :
    let m := (run (init infl n) ops).1
    (read m).2 = matvec m.infl (acts m) ∧ spec (read m).1 = spec m :=
  ⟨read_snd _ (mirror_cache_invariant infl n ops), read_fst_spec _⟩

/-- **The driver's lockstep is sound**: the specification state the driver steps alongside the
cached mirror (`Spec.step` per operation, answered by `C14 mirror ideal` and compared with
`dm.influence_functions.linear_combination(dm.actuators)` of the running code) is, after every
history, the projection `spec` of the cached mirror's state — actuator heap, current handle and
influence functions never depend on the cache or on surface arrays. -/
theorem mirror_spec_lockstep (infl : List (List K)) (n : Nat) (ops : List (Op K)) :
    spec (run (init infl n) ops).1 = (spec (init infl n)).after ops :=
  run_spec_state _ ops (inv_init infl n)

/-- **`opd` is twice `IF · actuators`** in every reachable state (the read-out the driver
executes for `C14 mirror opd`), and as far as the mirror's state is concerned it is a read of
`surface` — so every history with `opd` read-outs is covered by `mirror_surface_inv`. -/
theorem mirror_opd_ideal (infl : List (List K)) (n : Nat) (ops : List (Op K)) :
    let m := (run (init infl n) ops).1
    (readOpd m).2 = (spec m).opd ∧ (readOpd m).1 = (read m).1 := by
  intro m
  refine ⟨?_, rfl⟩
  show double (read m).2 = double (matvec (spec m).infl (spec m).acts)
  rw [read_snd _ (mirror_cache_invariant infl n ops)]
  rfl

/-- **Every read-out that goes through the `surface` property sees `IF · actuators`**: `opd`,
`phase_for`, `forward`, `backward` evaluate `self.surface` once and post-process the array (`g`);
in any reachable state the result is `g (IF · current actuators)` and the state change is that
of a read.  (`g` for `opd` is executed by the driver; the transcendental `g` of the other three
is compared numerically by the harness.) -/
theorem mirror_readout_ideal {β : Type} (g : List K → β) (infl : List (List K)) (n : Nat)
    (ops : List (Op K)) :
    let m := (run (init infl n) ops).1
    (readOut g m).2 = g (matvec m.infl (acts m)) ∧ (readOut g m).1 = (read m).1 := by
  intro m
  refine ⟨?_, rfl⟩
  show g (read m).2 = g (matvec m.infl (acts m))
  rw [read_snd _ (mirror_cache_invariant infl n ops)]

/-- **Returned surfaces are the caller's own**: in any reachable state, an in-place edit of any
array that any earlier read returned changes neither the cached surface array nor what the next
read returns. -/
theorem mirror_returned_surface_private (infl : List (List K)) (n : Nat) (ops : List (Op K))
    (k i : Nat) (v : K) :
    let m := (run (init infl n) ops).1
    surface (editOut m k i v) = surface m ∧
    (read (editOut m k i v)).2 = (read m).2 := by
  intro m
  have hm : Inv m := mirror_cache_invariant infl n ops
  refine ⟨surface_editOut m hm k i v, ?_⟩
  rw [read_snd _ (editOut_inv m hm k i v), read_snd _ hm]
  have h := spec_editOut m k i v
  have h1 : (editOut m k i v).infl = m.infl := congrArg Spec.infl h
  have h2 : acts (editOut m k i v) = acts m := by
    have := congrArg Spec.acts h
    simpa [Spec.acts, spec, acts] using this
  rw [h1, h2]

/-- **The surface is a function of the current actuator vector only** (what seeded regression C14-9
violates).  Take any two histories whatsoever — on the same mirror or on two different mirror
objects, with any values commanded and withdrawn on the way, any number of reads in between.  If
they end with the same influence functions and the same current actuator values, the two
mirrors report the same surface.  No algebraic law of the scalar is used, so this holds verbatim
for scalar domains with a non-number (`Ext`, IEEE NaN): a NaN that has been withdrawn leaves no
trace. -/
theorem surface_history_free (infl₁ infl₂ : List (List K)) (n₁ n₂ : Nat) (ops₁ ops₂ : List (Op K)) :
    let m₁ := (run (init infl₁ n₁) ops₁).1
    let m₂ := (run (init infl₂ n₂) ops₂).1
    m₁.infl = m₂.infl → acts m₁ = acts m₂ → (read m₁).2 = (read m₂).2 := by
  intro m₁ m₂ hi ha
  rw [read_snd _ (mirror_cache_invariant infl₁ n₁ ops₁), read_snd _ (mirror_cache_invariant infl₂ n₂ ops₂), hi, ha]

/-- … in particular the surface of a mirror with any past equals the surface of a **fresh mirror**
that is given the same influence functions and the same actuator vector (the comparison the
harness makes on the running code after every step of an extreme history). -/
theorem surface_eq_fresh_mirror (infl : List (List K)) (n : Nat) (ops : List (Op K)) :
    let m := (run (init infl n) ops).1
    (run (init m.infl m.nmodes) [.assign (acts m), .read]).2 = [(read m).2] := by
  intro m
  have fresh : ∀ (i : List (List K)) (k : Nat) (a : List K),
      (spec (init i k)).run [.assign a, .read] = [matvec i a] := by
    intro i k a
    simp [Spec.run, Spec.step, Spec.acts, spec, init]
  rw [mirror_surface_inv, read_snd _ (mirror_cache_invariant infl n ops), fresh]

/-- the same statements hold over rationals extended by a non-number -/
example (infl : List (List (Ext Rat))) (n : Nat) (ops : List (Op (Ext Rat))) :
    let m := (run (init infl n) ops).1
    (run (init m.infl m.nmodes) [.assign (acts m), .read]).2 = [(read m).2] :=
  surface_eq_fresh_mirror infl n ops

/-! #### `set_segment_actuators` / `get_segment_actuators` -/

theorem acts_edit_cur (m : Mirror K) (i : Nat) (v : K) :
    acts (step m (.edit m.cur i v)).1 = (acts m).set i v := by
  show (m.heap.modify m.cur fun a => a.set i v).getD m.cur [] = (m.heap.getD m.cur []).set i v
  by_cases h : m.cur < m.heap.length
  · simp [List.getD_eq_getElem?_getD, List.getElem?_modify, h]
  · have h' : m.heap.length ≤ m.cur := Nat.le_of_not_lt h
    simp [List.getD_eq_getElem?_getD, List.getElem?_modify, List.getElem?_eq_none h']

theorem cur_edit (m : Mirror K) (h i : Nat) (v : K) : (step m (.edit h i v)).1.cur = m.cur := rfl

theorem acts_setSegment (m : Mirror K) (nseg id : Nat) (p t tl : K) :
    acts (setSegment m nseg id p t tl) =
      (((acts m).set id p).set (id + nseg) t).set (id + 2 * nseg) tl := by
  unfold setSegment
  have h1 := acts_edit_cur m id p
  have h2 := acts_edit_cur (step m (.edit m.cur id p)).1 (id + nseg) t
  rw [cur_edit] at h2
  have h3 := acts_edit_cur (step (step m (.edit m.cur id p)).1 (.edit m.cur (id + nseg) t)).1 (id + 2 * nseg) tl
  rw [cur_edit, cur_edit] at h3
  rw [h3, h2, h1]

/-- **`get_segment_actuators` returns what `set_segment_actuators` stored, and no other segment
moves**, for a mirror of `nseg` segments (actuator vector `[pistons, tips, tilts]` of length
`3·nseg`) in any state; the mirror keeps holding the same array object, its influence functions
are untouched.  (As three in-place edits the operation is covered by `mirror_surface_inv`: the next
read returns `IF ·` the new vector.) -/
theorem segment_roundtrip (m : Mirror K) (nseg id : Nat) (p t tl : K) (hid : id < nseg)
    (hlen : (acts m).length = 3 * nseg) :
    getSegment (setSegment m nseg id p t tl) nseg id = (p, t, tl) ∧
    (∀ j, j < nseg → j ≠ id → getSegment (setSegment m nseg id p t tl) nseg j = getSegment m nseg j) ∧
    (setSegment m nseg id p t tl).cur = m.cur ∧ (setSegment m nseg id p t tl).infl = m.infl := by
  refine ⟨?_, ?_, rfl, rfl⟩
  · unfold getSegment
    rw [acts_setSegment]
    have e1 : id < (acts m).length := by omega
    have e2 : id + nseg < (acts m).length := by omega
    have e3 : id + 2 * nseg < (acts m).length := by omega
    have n1 : id + nseg ≠ id := by omega
    have n2 : id + 2 * nseg ≠ id := by omega
    have n3 : id + 2 * nseg ≠ id + nseg := by omega
    have z : nseg ≠ 0 := by omega
    have z2 : 2 * nseg ≠ nseg := by omega
    simp [List.getD_eq_getElem?_getD, List.getElem?_set, List.getElem_set, e1, e2, e3, n1, n2, n3, z, z2]
  · intro j hj hne
    unfold getSegment
    rw [acts_setSegment]
    have a1 : id ≠ j := fun h => hne h.symm
    have a2 : id + nseg ≠ j := by omega
    have a3 : id + 2 * nseg ≠ j := by omega
    have b1 : id ≠ j + nseg := by omega
    have b2 : id + nseg ≠ j + nseg := by omega
    have b3 : id + 2 * nseg ≠ j + nseg := by omega
    have c1 : id ≠ j + 2 * nseg := by omega
    have c2 : id + nseg ≠ j + 2 * nseg := by omega
    have c3 : id + 2 * nseg ≠ j + 2 * nseg := by omega
    simp [List.getD_eq_getElem?_getD, List.getElem?_set, List.getElem_set, a1, a2, a3, b1, b2, b3, c1, c2, c3]

/-- the hypotheses of `segment_roundtrip` are satisfiable: a new mirror of two segments -/
example : (1 : Nat) < 2 ∧ (acts (init [[(1 : Int), 0, 0, 0, 0, 0]] 6)).length = 3 * 2 := by decide

end mirror

/-! ### Phase read-outs on the executed definitions (`phase_for`, `forward`, `backward`) -/
section phases
variable {K : Type} [Field K] [DecidableEq K]

/-- **Closed form of the tip / tilt influence function of a segment** (the executed `tiltMode`, which
the driver compares with the matrix `SegmentedDeformableMirror` builds): for an indicator segment
(`s_i ∈ {0, 1}`) that covers `k` of the `N` grid points, `0 < k < N` as numbers of the field, the
mode is `s_i · (c_i − c̄)` with `c̄ = (Σ_{i ∈ segment} c_i) / k` the mean coordinate over the segment.
Hence, by `mirror_surface_inv`, the surface of a segment under `(piston, tip, tilt) = (p, t, u)` is
the plane `p + t·(x − x̄) + u·(y − ȳ)` on its support and zero elsewhere — exact in rationals. -/
theorem segment_tilt_mode_closed_form (s c : List K) (hs : ∀ a ∈ s, a * a = a)
    (hlen : c.length = s.length) (hN : (s.length : K) ≠ 0) (hk : s.sum ≠ 0)
    (hkN : s.sum ≠ (s.length : K)) :
    tiltMode s c =
      List.zipWith (fun si ci => si * (ci - (List.zipWith (· * ·) s c).sum / s.sum)) s c := by
  unfold tiltMode mean
  have hlen1 : (List.zipWith (· * ·) s c).length = s.length := by simp [hlen]
  have hlen2 : (List.zipWith (· * ·) (List.zipWith (· * ·) s c) s).length = s.length := by simp [hlen]
  rw [map_sq_ind s hs]
  dsimp only
  rw [sum_zipWith_mul_ind s c hs, hlen1, hlen2]
  set N : K := (s.length : K)
  set k : K := s.sum
  set S : K := (List.zipWith (· * ·) s c).sum
  have h3 : N - k ≠ 0 := sub_ne_zero.mpr (Ne.symm hkN)
  have hnorm : k / N - k / N * (k / N) ≠ 0 := by
    have : k / N - k / N * (k / N) = k * (N - k) / (N * N) := by field_simp
    rw [this]
    exact div_ne_zero (mul_ne_zero hk h3) (mul_ne_zero hN hN)
  have hβ : (S / N - k / N * (S / N)) / (k / N - k / N * (k / N)) = S / k := by
    rw [div_eq_div_iff hnorm hk]
    field_simp
  rw [if_neg hnorm, hβ]
  clear_value N k S
  clear hlen1 hlen2 hnorm hβ h3 hk hkN hN
  induction s generalizing c with
  | nil => simp
  | cons a s ih =>
    cases c with
    | nil => simp
    | cons b c =>
      simp only [List.zipWith_cons_cons]
      rw [ih c (fun x hx => hs x (by simp [hx])) (by simpa using hlen)]
      congr 1
      ring

/-- the hypotheses are satisfiable: a segment of two of three points, and the closed form evaluated -/
example : tiltMode [(1 : ℚ), 1, 0] [0, 2, 7] = [-1, 1, 0] ∧
    (∀ a ∈ [(1 : ℚ), 1, 0], a * a = a) ∧ (([(1 : ℚ), 1, 0].length : ℚ) ≠ 0) ∧
    ([(1 : ℚ), 1, 0].sum ≠ 0) ∧ ([(1 : ℚ), 1, 0].sum ≠ (([(1 : ℚ), 1, 0].length : ℚ))) := by
  refine ⟨by decide +kernel, ?_, by norm_num, by norm_num, by norm_num⟩
  intro a ha
  simp at ha
  rcases ha with rfl | rfl <;> norm_num

/-- **`phase_for`, `forward` and `backward` see `IF · actuators`** in every reachable state: the
phase is `2π · (2 · IF·a / λ)` and the reflected field is the incoming one times `exp(±2πi ·` that
`)` — stated about the definitions the driver executes for `C14 mirror phase / forward / backward`. -/
theorem mirror_phase_ideal (infl : List (List K)) (n : Nat) (ops : List (Op K)) (wl : K)
    (e : List (PVal K)) :
    let m := (run (init infl n) ops).1
    (readPhase wl m).2 = phaseTurns wl (matvec m.infl (acts m)) ∧
    (forward wl e m).2 = applyPhase e (phaseTurns wl (matvec m.infl (acts m))) ∧
    (backward wl e m).2 = applyPhaseConj e (phaseTurns wl (matvec m.infl (acts m))) := by
  intro m
  have hm := read_snd m (mirror_cache_invariant infl n ops)
  refine ⟨?_, ?_, ?_⟩
  · show phaseTurns wl (read m).2 = _
    rw [hm]
  · show applyPhase e (phaseTurns wl (read m).2) = _
    rw [hm]
  · show applyPhaseConj e (phaseTurns wl (read m).2) = _
    rw [hm]

/-- **`backward ∘ forward = id`** on the executed definitions, in every reachable state of the
mirror and for every field on the mirror's grid: propagating a wavefront through the mirror and
back returns it unchanged (the second evaluation of `surface` — a cache hit or not — yields the
same array), and **`forward` conserves the power** `Σ|E|²` (any squared modulus `nsq`). -/
theorem mirror_backward_forward_id (infl : List (List K)) (n : Nat) (ops : List (Op K)) (wl : K)
    (e : List (PVal K)) (nsq : K → K) :
    let m := (run (init infl n) ops).1
    e.length = m.infl.length →
    (backward wl (forward wl e m).2 (forward wl e m).1).2 = e ∧
    power nsq (forward wl e m).2 = power nsq e ∧
    power nsq (backward wl e m).2 = power nsq e := by
  intro m hlen
  have hinv := mirror_cache_invariant infl n ops
  have hm := read_snd m hinv
  have hinv' : Inv (read m).1 := read_inv m hinv
  have hspec := read_fst_spec m
  have h1 : (read m).1.infl = m.infl := congrArg Spec.infl hspec
  have h2 : acts (read m).1 = acts m := by
    have := congrArg Spec.acts hspec
    simpa [Spec.acts, spec, acts] using this
  have hm' : (read (read m).1).2 = matvec m.infl (acts m) := by
    rw [read_snd _ hinv', h1, h2]
  have hl : e.length = (phaseTurns wl (matvec m.infl (acts m))).length := by
    simp [phaseTurns, double, matvec, hlen]
  refine ⟨?_, ?_, ?_⟩
  · show applyPhaseConj (applyPhase e (phaseTurns wl (read m).2)) (phaseTurns wl (read (read m).1).2) = e
    rw [hm, hm']
    exact applyPhaseConj_applyPhase e _ hl
  · show power nsq (applyPhase e (phaseTurns wl (read m).2)) = _
    rw [hm]
    exact power_applyPhase nsq e _ hl
  · show power nsq (applyPhaseConj e (phaseTurns wl (read m).2)) = _
    rw [hm]
    have : applyPhaseConj e (phaseTurns wl (matvec m.infl (acts m))) =
        applyPhase e ((phaseTurns wl (matvec m.infl (acts m))).map (- ·)) := by
      simp [applyPhase, applyPhaseConj, List.zipWith_map_right, sub_eq_add_neg]
    rw [this]
    exact power_applyPhase nsq e _ (by simpa using hl)

/-- the hypothesis of `mirror_backward_forward_id` is satisfiable: a one-pixel field on a one-pixel mirror -/
example : ([⟨(1 : ℚ), 0⟩] : List (PVal ℚ)).length = (run (init [[(1 : ℚ)]] 1) []).1.infl.length := rfl

end phases

/-- **What the formal phases mean.**  Reading a formal field value `(E, c)` as the complex number
`E · exp(2πi·c)` (`PVal.den`), the executed `applyPhase` *is* the multiplication by `exp(2πi·d)` the
code performs (`wf.electric_field *= exp(2i·k·surface)`, `d = 2·surface/λ` turns), `applyPhaseConj`
the multiplication by the conjugate factor, and for real phases the modulus of every pixel — hence
the power — is unchanged. -/
theorem formal_phase_semantics (e : List (PVal ℂ)) (d : List ℂ) :
    (applyPhase e d).map PVal.den =
      List.zipWith (fun x t => x.den * Complex.exp (2 * Real.pi * t * Complex.I)) e d ∧
    (applyPhaseConj e d).map PVal.den =
      List.zipWith (fun x t => x.den * Complex.exp (-(2 * Real.pi * t * Complex.I))) e d ∧
    ∀ (amp : ℂ) (c : ℝ), ‖PVal.den ⟨amp, (c : ℂ)⟩‖ = ‖amp‖ := by
  refine ⟨?_, ?_, norm_den⟩
  · induction e generalizing d with
    | nil => cases d <;> rfl
    | cons x xs ih =>
      cases d with
      | nil => rfl
      | cons t ts =>
        have := ih ts
        simp only [applyPhase, List.zipWith_cons_cons, List.map_cons] at this ⊢
        rw [this, den_add]
  · induction e generalizing d with
    | nil => cases d <;> rfl
    | cons x xs ih =>
      cases d with
      | nil => rfl
      | cons t ts =>
        have := ih ts
        simp only [applyPhaseConj, List.zipWith_cons_cons, List.map_cons] at this ⊢
        rw [this, sub_eq_add_neg, den_add]
        congr 2
        ring_nf

/-! ### An incrementally updated surface is not history free (seeded regression C14-9) -/
section Bad
open HcipyVerif.Mirror.Bad

/-- **`surface += IF·(actuators − cached)` keeps a withdrawn NaN for ever.**  Ten actuators, one
pixel that sees all of them; the surface is read, actuator 3 is set (in place) to the non-number,
the surface is read, the actuator is set back to 2 — or the mirror is flattened — and the surface
is read again.  The incrementally updated surface still is `nan`; the specification, and the
executed `read`, answer `2` (resp. `0`).  The same history with the finite value `7` in place of
`nan` gives the right answers also incrementally — over exact numbers the update is harmless,
which is why the harness has to command non-finite and out-of-scale values to see it. -/
theorem bad_incremental_not_history_free :
    runWith (readIncremental 10) (init [List.replicate 10 (Ext.fin (1 : Int))] 10)
        [.read, .edit 0 3 .nan, .read, .edit 0 3 (.fin 2), .read] = [[.fin 0], [.nan], [.nan]] ∧
    (run (init [List.replicate 10 (Ext.fin (1 : Int))] 10)
        [.read, .edit 0 3 .nan, .read, .edit 0 3 (.fin 2), .read]).2 = [[.fin 0], [.nan], [.fin 2]] ∧
    runWith (readIncremental 10) (init [List.replicate 10 (Ext.fin (1 : Int))] 10)
        [.read, .edit 0 3 .nan, .read, .flatten, .read] = [[.fin 0], [.nan], [.nan]] ∧
    (run (init [List.replicate 10 (Ext.fin (1 : Int))] 10)
        [.read, .edit 0 3 .nan, .read, .flatten, .read]).2 = [[.fin 0], [.nan], [.fin 0]] ∧
    runWith (readIncremental 10) (init [List.replicate 10 (Ext.fin (1 : Int))] 10)
        [.read, .edit 0 3 (.fin 7), .read, .edit 0 3 (.fin 2), .read] = [[.fin 0], [.fin 7], [.fin 2]] := by
  decide +kernel

/-- **Over exact numbers the incremental update is invisible**: for any commutative ring, any `ratio`
and any state satisfying the cache invariant, `readIncremental` returns exactly `IF · actuators` —
what `read` returns.  So no model over `ℚ` alone, and no history of values on which floating point
is exact, can tell the seeded code from the original; the counterexample above needs the
non-number, the harness needs NaN / inf or values many orders of magnitude apart. -/
theorem bad_incremental_exact_over_rings {R : Type} [CommRing R] [DecidableEq R] (ratio : Nat)
    (m : Mirror R) (h : Inv m) :
    (readIncremental ratio m).2 = matvec m.infl (acts m) ∧ (readIncremental ratio m).2 = (read m).2 := by
  have key : (readIncremental ratio m).2 = matvec m.infl (acts m) := by
    unfold readIncremental
    cases hc : m.cached with
    | none => simp only []; rw [handCopy_snd, surface_recompute]
    | some c =>
      simp only []
      by_cases h1 : c = acts m
      · rw [if_pos h1, handCopy_snd, h.cache c hc, h1]
      · rw [if_neg h1]
        by_cases h2 : c.length = (acts m).length ∧ nchanged (acts m) c * ratio ≤ c.length
        · rw [if_pos h2, handCopy_snd]
          show (m.sheap ++ [_]).getD m.sheap.length [] = _
          rw [getD_append_length, h.cache c hc]
          exact matvec_sub_add m.infl (acts m) c h2.1
        · rw [if_neg h2, handCopy_snd, surface_recompute]
  exact ⟨key, by rw [key, read_snd m h]⟩

/-- the hypothesis is satisfiable: every reachable state satisfies the invariant (`mirror_cache_invariant`) -/
example : Inv (run (init [[(1 : Int), 2]] 2) [.assign [3, 4], .read]).1 := mirror_cache_invariant _ _ _

end Bad

/-! ### The two classic broken caches are really broken -/

/-- Copy dropped (`_actuators_for_cached_surface = self.actuators`): after an in-place edit the
comparison compares the array with itself and the stale surface is returned. -/
theorem readByRef_stale :
    runWith readByRef (init [[(1 : Int)]] 1) [.read, .edit 0 0 5, .read] = [[0], [0]] ∧
    (spec (init [[(1 : Int)]] 1)).run [.read, .edit 0 0 5, .read] = [[0], [5]] := by decide

/-- Cache compared by object identity: same defect. -/
theorem readByIdentity_stale :
    runWith readByIdentity (init [[(1 : Int)]] 1) [.read, .edit 0 0 5, .read] = [[0], [0]] ∧
    (spec (init [[(1 : Int)]] 1)).run [.read, .edit 0 0 5, .read] = [[0], [5]] := by decide

/-! ### Old: the `surface` property as pinned (before pending_fixes/D22f) hands out its cache -/
section Old
open HcipyVerif.Mirror.Old

/-- **Defect D22f (replayed on the real `DeformableMirror`, see reports/C14.md).**  With
`return self._surface` the caller holds the cached array itself: `dm.actuators = [1];
s = dm.surface; s[0] = 5; dm.surface` answers `[5]` although the actuators still say `[1]` —
the cache-free specification (and the repaired `read`) answer `[1]`. -/
theorem old_readAlias_corrupts_cache :
    runWith readAlias (init [[(1 : Int)]] 1) [.assign [1], .read, .editSurface 0 0 5, .read] = [[1], [5]] ∧
    (spec (init [[(1 : Int)]] 1)).run [.assign [1], .read, .editSurface 0 0 5, .read] = [[1], [1]] ∧
    (run (init [[(1 : Int)]] 1) [.assign [1], .read, .editSurface 0 0 5, .read]).2 = [[1], [1]] := by decide

/-- … and the invariant clause that fails is exactly `outs_ne`: after one aliasing read the
caller holds the cached array. -/
theorem old_readAlias_breaks_outs_ne :
    let m := (readAlias (init [[(1 : Int)]] 1)).1
    ∃ h ∈ m.outs, h = m.surf := by decide

end Old

/-! ### Satisfiability of the hypotheses -/

example : WF (fromDense 2 2 [[(1 : Int), 0], [0, 2]]) := by
  refine ⟨rfl, ?_⟩; intro r hr; simp [fromDense] at hr; rcases hr with rfl | rfl <;> rfl

example : WF (fromSparseRows 2 [[(0, (1 : Int))], [(1, 2)]]) := by
  refine ⟨rfl, ?_⟩
  intro c hc p hp
  simp at hc
  rcases hc with rfl | rfl <;> simp at hp <;> subst hp <;> decide

/-- independent modes exist: the identity basis -/
example : ∀ x y : List ℚ, x.length = 1 → y.length = 1 →
    linComb (fromDense 1 1 [[(1 : ℚ)]]) x = linComb (fromDense 1 1 [[(1 : ℚ)]]) y → x = y := by
  intro x y hx hy h
  match x, y, hx, hy with
  | [a], [b], _, _ => simpa [linComb, fromDense, matvec, dot] using h

end HcipyVerif.C14
