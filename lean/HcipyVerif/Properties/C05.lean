import HcipyVerif.Lemmas.Cache
import HcipyVerif.Lemmas.CacheDecorator
import HcipyVerif.Lemmas.FftState
import HcipyVerif.Lemmas.WavelengthKey

/-!
# C05 — optical elements are history-independent: caching is transparent

Model: `HcipyVerif/Model/Cache.lean` (the instance cache of `AgnosticOpticalElement` as it is in
/repo) and `HcipyVerif/Model/CacheDecorator.lean` (the second, independent cache inside the exported
`make_agnostic_optical_element`).  The unrepaired lookup of round 0 is documentation only
(`Lemmas/CacheOld.lean`, not imported here, not counted).

* `Sound`  — soundness invariant of the cache, `Acc` — accounting invariant (`Lemmas/Cache.lean`).
* `transparent` — for every element whose declared dependencies are truthful (all shipped ones,
  `truthful_of_declared_deps`), every history of forward / backward / both-grids requests,
  `clear_cache()` calls and setters, of any length and beyond any cache size, answers every request
  exactly as a freshly constructed element with the current parameters would.
* `transparent_results` — the same with instance *contents*: the hypothesis "what an instance
  returns is a function of (key, parameter version)" is explicit (`ObservablyPure`), and needed
  (`content_hypothesis_needed`), and discharged for instances that own a memo cell
  (`memo_content_pure`, `transparent_results_memo`: what driver op `reqc` runs).  `truthful_needed`:
  so is `Truthful`.
* `decorator_history_dependent` — `make_agnostic_optical_element` is **not** transparent (open finding);
  `decorator_forward_transparent` — its forward requests are.
* The Fourier objects owned by the instances: memo cells (`FourierFilter`, `ChirpZTransform`,
  `ZoomFastFourierTransform`, MFT) and the scratch buffer (`Fft.loadArray`) are transparent.
-/

set_option linter.unusedSimpArgs false
set_option linter.unusedVariables false

namespace HcipyVerif.C05
open HcipyVerif.Cache HcipyVerif.WavelengthKey

/-- The two invariants together. -/
def Inv (e : Elem) (s : St) : Prop := Sound e s ∧ Acc e s

/-! ## Invariants hold initially and after `clear_cache()` / a setter -/

theorem inv_init (e : Elem) (ver : Nat) : Inv e (St.init ver) := by
  refine ⟨?_, ?_, ?_, ?_⟩
  · intro p hp; cases hp
  · rfl
  · exact Nat.zero_le _
  · intro p hp; cases hp

theorem inv_clear (e : Elem) (s : St) : Inv e s.clear := by
  refine ⟨?_, ?_, ?_, ?_⟩
  · intro p hp; cases hp
  · rfl
  · exact Nat.zero_le _
  · intro p hp; cases hp

theorem inv_setParam (e : Elem) (s : St) : Inv e s.setParam := by
  refine ⟨?_, ?_, ?_, ?_⟩
  · intro p hp; cases hp
  · rfl
  · exact Nat.zero_le _
  · intro p hp; cases hp

/-- Every shipped element is wavelength dependent (propagators, apodizers, Jones elements, fibre,
vector vortex) or not grid dependent (magnifier): its declared dependencies are truthful. -/
theorem truthful_of_declared_deps (e : Elem) (h : e.wlDep = true ∨ e.gridDep = false) :
    Truthful e := truthful_of_deps e h

example : ∃ e : Elem, Truthful e ∧ 1 ≤ e.maxN :=
  ⟨⟨true, true, 11, fun _ _ _ => some 1, fun _ _ _ => some 9⟩,
    truthful_of_deps _ (Or.inl rfl), by decide⟩

/-! ## One request -/

/-- **Soundness invariant.** Whatever eviction removes, a request hands out an instance made for
the key this request resolves to and for the current parameter version, and every cached
`(key, instance)` pair stays sound. -/
theorem request_sound {e : Elem} (hT : Truthful e) {s s' : St} {i o : Option GridId}
    {w : Option WlKey} {v : Inst} (hs : Sound e s) (h : getInstanceData e s i o w = .ok (s', v)) :
    fullKey e s.ver i o w = some v.key ∧ v.ver = s.ver ∧ s'.ver = s.ver ∧ Sound e s' := by
  obtain ⟨how, h⟩ := getInstanceData_ok_iff.mp h
  exact getInstanceDataHow_sound hT hs h

/-- **Accounting invariant.** `_num_in_cache` stays the number of distinct live instances and never
exceeds `max_in_cache` (≥ 1). -/
theorem request_accounting {e : Elem} (hmax : 1 ≤ e.maxN) {s s' : St} {i o : Option GridId}
    {w : Option WlKey} {v : Inst} (ha : Acc e s) (h : getInstanceData e s i o w = .ok (s', v)) :
    Acc e s' := by
  obtain ⟨how, h⟩ := getInstanceData_ok_iff.mp h
  exact getInstanceDataHow_acc hmax ha h

/-- `popitem` never meets an empty dict: with the accounting invariant a request can only fail with
the `ValueError` of `_get_cache_keys`, and does so exactly when the request names no grid (grid
dependent element) or no wavelength (wavelength dependent element). -/
theorem request_error_iff {e : Elem} (hmax : 1 ≤ e.maxN) {s : St} (ha : Acc e s)
    (i o : Option GridId) (w : Option WlKey) :
    (reqKey e i o w = none ∧ getInstanceData e s i o w = .error .value) ∨
    (∃ k s' v, reqKey e i o w = some k ∧ getInstanceData e s i o w = .ok (s', v)) := by
  rcases getInstanceDataHow_total hmax ha i o w with ⟨h1, h2⟩ | ⟨⟨s', v, how⟩, h⟩
  · left
    refine ⟨h1, ?_⟩
    unfold getInstanceData; rw [h2]
  · right
    obtain ⟨k1, _, hk1, _⟩ := getInstanceDataHow_cases h
    exact ⟨k1, s', v, hk1, getInstanceData_ok_iff.mpr ⟨how, h⟩⟩

theorem step_req_inv {e : Elem} (hT : Truthful e) (hmax : 1 ≤ e.maxN) {s : St} (hi : Inv e s)
    (op : Op) : Inv e (step e s op).1 ∧
      (step e s op).1.ver = (match op with | .set => s.ver + 1 | _ => s.ver) := by
  cases op with
  | clear => exact ⟨inv_clear e s, rfl⟩
  | set => exact ⟨inv_setParam e s, rfl⟩
  | req i o w =>
    cases h : getInstanceData e s i o w with
    | error err => rw [step_req_err h]; exact ⟨hi, rfl⟩
    | ok r =>
      obtain ⟨s', v⟩ := r
      obtain ⟨_, _, hv, hs'⟩ := request_sound hT hi.1 h
      rw [step_req_ok h]
      exact ⟨⟨hs', request_accounting hmax hi.2 h⟩, hv⟩

/-- What a freshly constructed element answers: a `ValueError` exactly when the request is
incomplete, otherwise the instance for the resolved key at the current parameters. -/
theorem fresh_spec {e : Elem} (hT : Truthful e) (hmax : 1 ≤ e.maxN) (ver : Nat)
    (i o : Option GridId) (w : Option WlKey) :
    (reqKey e i o w = none ∧ (step e (St.init ver) (.req i o w)).2 = .error .value) ∨
    (∃ k k2, reqKey e i o w = some k ∧ fullKey e ver i o w = some k2 ∧
      (step e (St.init ver) (.req i o w)).2 = .inst k2 ver) := by
  rcases request_error_iff hmax (inv_init e ver).2 i o w with ⟨h1, h2⟩ | ⟨k, s', v, hk, h⟩
  · left
    refine ⟨h1, ?_⟩
    rw [step_req_err h2]
  · right
    obtain ⟨hfk, hv, _, _⟩ := request_sound hT (inv_init e ver).1 h
    refine ⟨k, v.key, hk, hfk, ?_⟩
    rw [step_req_ok h]
    show Resp.inst v.key v.ver = Resp.inst v.key ver
    rw [hv]; rfl

/-- **Transparency of one request** in any state satisfying the invariants: the shared element
answers exactly as a freshly constructed element with the same parameters. -/
theorem request_transparent {e : Elem} (hT : Truthful e) (hmax : 1 ≤ e.maxN) {s : St}
    (hi : Inv e s) (i o : Option GridId) (w : Option WlKey) :
    (step e s (.req i o w)).2 = (step e (St.init s.ver) (.req i o w)).2 := by
  rcases fresh_spec hT hmax s.ver i o w with ⟨hnone, hf⟩ | ⟨k, k2, hk, hk2, hf⟩
  · rw [hf]
    rcases request_error_iff hmax hi.2 i o w with ⟨_, h2⟩ | ⟨k, _, _, hk, _⟩
    · rw [step_req_err h2]
    · rw [hnone] at hk; cases hk
  · rw [hf]
    rcases request_error_iff hmax hi.2 i o w with ⟨h1, _⟩ | ⟨_, s', v, _, h⟩
    · rw [h1] at hk; cases hk
    · obtain ⟨hfk, hv, _, _⟩ := request_sound hT hi.1 h
      rw [step_req_ok h]
      show Resp.inst v.key v.ver = Resp.inst k2 s.ver
      rw [hk2] at hfk
      cases hfk
      rw [hv]

/-! ## Whole histories -/

/-- **Transparency (full strength).** For every truthful element with `max_in_cache ≥ 1`, from
every state satisfying the invariants, every finite history — forward, backward and both-grid
requests in any order and repetition, more distinct combinations than the cache holds,
`clear_cache()` calls and setters interleaved — is answered request by request exactly as by
freshly constructed elements carrying the current parameters. -/
theorem transparent_from {e : Elem} (hT : Truthful e) (hmax : 1 ≤ e.maxN) (ops : List Op) :
    ∀ s : St, Inv e s → run e s ops = specRun e s.ver ops := by
  induction ops with
  | nil => intro s _; rfl
  | cons op ops ih =>
    intro s hi
    obtain ⟨hi', hver⟩ := step_req_inv hT hmax hi op
    cases op with
    | req i o w =>
      simp only [run, specRun]
      rw [request_transparent hT hmax hi, ih _ hi', hver]
    | clear =>
      simp only [run, specRun]
      rw [ih _ hi', hver]
      rfl
    | set =>
      simp only [run, specRun]
      rw [ih _ hi', hver]
      rfl

/-- Transparency for an element used from its construction on. -/
theorem transparent {e : Elem} (hT : Truthful e) (hmax : 1 ≤ e.maxN) (ver : Nat) (ops : List Op) :
    run e (St.init ver) ops = specRun e ver ops :=
  transparent_from hT hmax ops _ (inv_init e ver)

/-- The invariants hold in every reachable state. -/
theorem inv_reachable {e : Elem} (hT : Truthful e) (hmax : 1 ≤ e.maxN) (ops : List Op) :
    ∀ s : St, Inv e s → Inv e (ops.foldl (fun s op => (step e s op).1) s) := by
  induction ops with
  | nil => intro s hi; exact hi
  | cons op ops ih =>
    intro s hi
    exact ih _ (step_req_inv hT hmax hi op).1

/-- Accounting in every reachable state: `_num_in_cache` is the number of live instances, at most
`max_in_cache`. -/
theorem accounting_reachable {e : Elem} (hT : Truthful e) (hmax : 1 ≤ e.maxN) (ver : Nat)
    (ops : List Op) :
    let s := ops.foldl (fun s op => (step e s op).1) (St.init ver)
    s.num = (s.cache.map (·.2.id)).toFinset.card ∧ s.num ≤ e.maxN := by
  have := (inv_reachable hT hmax ops _ (inv_init e ver)).2
  exact ⟨this.1, this.2.1⟩

/-- No history makes `popitem` fail: a `KeyError` is never answered. -/
theorem no_key_error {e : Elem} (hT : Truthful e) (hmax : 1 ≤ e.maxN) (ver : Nat) (ops : List Op) :
    Resp.error .key ∉ run e (St.init ver) ops := by
  rw [transparent hT hmax]
  generalize ver = v
  induction ops generalizing v with
  | nil => simp [specRun]
  | cons op ops ih =>
    cases op with
    | req i o w =>
      simp only [specRun, List.mem_cons, not_or]
      refine ⟨?_, ih v⟩
      rcases fresh_spec hT hmax v i o w with ⟨_, hf⟩ | ⟨_, _, _, _, hf⟩ <;> rw [hf] <;> simp
    | clear =>
      simp only [specRun, List.mem_cons, not_or]
      exact ⟨by simp, ih v⟩
    | set =>
      simp only [specRun, List.mem_cons, not_or]
      exact ⟨by simp, ih (v + 1)⟩

/-! ## Eviction order -/

theorem fifo_init (ver : Nat) : Fifo (St.init ver) := FirstSorted.nil

/-- Every step keeps the dict ordered oldest instance first. -/
theorem fifo_step {e : Elem} (hT : Truthful e) (hmax : 1 ≤ e.maxN) {s : St} (hi : Inv e s)
    (hf : Fifo s) (op : Op) : Fifo (step e s op).1 := by
  cases op with
  | clear => exact FirstSorted.nil
  | set => exact FirstSorted.nil
  | req i o w =>
    cases h : getInstanceData e s i o w with
    | error err => rw [step_req_err h]; exact hf
    | ok r =>
      obtain ⟨s', v⟩ := r
      rw [step_req_ok h]
      obtain ⟨how, h'⟩ := getInstanceData_ok_iff.mp h
      exact getInstanceDataHow_fifo hi.2 hf h'

theorem fifo_reachable {e : Elem} (hT : Truthful e) (hmax : 1 ≤ e.maxN) (ops : List Op) :
    ∀ s : St, Inv e s → Fifo s → Fifo (ops.foldl (fun s op => (step e s op).1) s) := by
  induction ops with
  | nil => intro s _ hf; exact hf
  | cons op ops ih =>
    intro s hi hf
    exact ih _ (step_req_inv hT hmax hi op).1 (fifo_step hT hmax hi hf op)

/-- **The oldest instance is the one evicted**, with all of its keys and nothing else: when the
cache is full, eviction removes exactly the entries of the live instance with the least identity
(creation counter). -/
theorem evicts_oldest {e : Elem} {s s' : St} (hf : Fifo s) (hfull : s.num = e.maxN)
    (h : evict e s = .ok s') :
    ∃ k v rest, s.cache = (k, v) :: rest ∧ (∀ p ∈ s.cache, v.id ≤ p.2.id) ∧
      s'.cache = s.cache.filter (fun p => p.2.id != v.id) ∧ s'.num = s.num - 1 := by
  unfold evict at h
  rw [if_pos hfull] at h
  cases hc : s.cache with
  | nil => rw [hc] at h; cases h
  | cons p rest =>
    obtain ⟨k, v⟩ := p
    rw [hc] at h
    cases h
    refine ⟨k, v, rest, rfl, ?_, ?_, rfl⟩
    · intro p hp
      have hmin := FirstSorted.head_le hf v.id (rest.map (·.2.id)) (by rw [hc]; rfl)
      apply hmin
      rw [hc]
      exact List.mem_map.mpr ⟨p, hp, rfl⟩
    · show rest.filter _ = ((k, v) :: rest).filter _
      simp [List.filter_cons]

/-- **A setter takes effect on the very next propagation**: after any history, a setter followed
by a complete request hands out an instance built with the new parameter version. -/
theorem setter_takes_effect {e : Elem} (hT : Truthful e) (hmax : 1 ≤ e.maxN) {s : St}
    (hi : Inv e s) (i o : Option GridId) (w : Option WlKey) {k : Key}
    (hk : reqKey e i o w = some k) :
    ∃ k2, fullKey e (s.ver + 1) i o w = some k2 ∧
      run e s [.set, .req i o w] = [.done, .inst k2 (s.ver + 1)] := by
  rw [transparent_from hT hmax _ s hi]
  rcases fresh_spec hT hmax (s.ver + 1) i o w with ⟨hnone, _⟩ | ⟨_, k2, _, hk2, hf⟩
  · rw [hnone] at hk; cases hk
  · exact ⟨k2, hk2, by simp only [specRun]; rw [hf]⟩

/-- The mutant "setter without `clear_cache()`" is not transparent: the request after the setter
is answered with the instance built for the old parameters. -/
theorem setter_without_clear_counterexample :
    let e : Elem := ⟨true, true, 11, fun _ _ g => some g, fun _ _ g => some g⟩
    let s1 := (step e (St.init 0) (.req (some 1) none (some 5))).1
    (step e (Mutant.setParamNoClear s1) (.req (some 1) none (some 5))).2 = .inst ⟨some 1, some 1, some 5⟩ 0 ∧
    (step e (St.init 1) (.req (some 1) none (some 5))).2 = .inst ⟨some 1, some 1, some 5⟩ 1 := by
  decide

/-! ## The lens-propagator history of defect D3 (the unrepaired lookup is in `Lemmas/CacheOld.lean`) -/

/-- The lookup now in /repo answers the history that exposed D3 correctly. -/
theorem lens_history_repaired :
    let e : Elem := ⟨true, true, 11, fun _ _ _ => some 1, fun _ _ _ => some 9⟩
    run e (St.init 0) [.req (some 1) none (some 5), .req (some 2) none (some 5)]
      = [.inst ⟨some 1, some 9, some 5⟩ 0, .inst ⟨some 2, some 9, some 5⟩ 0] := by decide

/-! ## Grids versus the ids under which the cache sees them

The model identifies a grid with its id (`hash(grid)` in the code).  That identification is an assumption of the
tie, made explicit here; it is discharged by C10 (equal grids hash equal, the hash is a function of the *current*
coordinate values, different grids do not collide), not by this file. -/

/-- **Tie assumption `HashFaithful`**: the id is an injective function of the grid (its current coordinates). -/
def HashFaithful {G : Type} (hash : G → GridId) : Prop := ∀ g1 g2 : G, hash g1 = hash g2 → g1 = g2

example : HashFaithful (fun n : Nat => n + 1) := fun a b h => by simpa using h

/-- The instance key of a forward request names the grid of the request. -/
theorem forward_key_names_grid {e : Elem} (hg : e.gridDep = true) {ver : Nat} {a : GridId}
    {w : Option WlKey} {k : Key} (h : fullKey e ver (some a) none w = some k) : k.i = some a := by
  unfold fullKey reqKey at h
  simp only [hg, resolve, if_true, Option.isNone_some, Bool.false_and, Bool.false_eq_true, if_false] at h
  split at h
  · rename_i a' b' k' h1 h2
    simp at h1
    cases h
    exact h1.1.symm
  · cases h

/-- **Different grids never share an instance** (under `HashFaithful`): if two forward requests, in any two
reachable states of a grid-dependent element, are handed instances made for the same key, they were made on the
same grid. -/
theorem distinct_grids_distinct_instances {G : Type} (hash : G → GridId) (hf : HashFaithful hash)
    {e : Elem} (hT : Truthful e) (hmax : 1 ≤ e.maxN) (hg : e.gridDep = true) {s1 s2 : St}
    (h1 : Inv e s1) (h2 : Inv e s2) (g1 g2 : G) (w : Option WlKey) (k : Key) (v1 v2 : Nat)
    (r1 : (step e s1 (.req (some (hash g1)) none w)).2 = .inst k v1)
    (r2 : (step e s2 (.req (some (hash g2)) none w)).2 = .inst k v2) : g1 = g2 := by
  have key_of : ∀ (s : St), Inv e s → ∀ (g : G) (v : Nat),
      (step e s (.req (some (hash g)) none w)).2 = .inst k v → k.i = some (hash g) := by
    intro s hi g v r
    rw [request_transparent hT hmax hi] at r
    rcases fresh_spec hT hmax s.ver (some (hash g)) none w with ⟨_, hf'⟩ | ⟨_, k2, _, hk2, hf'⟩
    · rw [hf'] at r; cases r
    · rw [hf'] at r
      cases r
      exact forward_key_names_grid hg hk2
  have e1 := key_of s1 h1 g1 v1 r1
  have e2 := key_of s2 h2 g2 v2 r2
  rw [e1] at e2
  exact hf g1 g2 (by simpa using e2)

/-- Without `HashFaithful` the cache cannot tell colliding grids apart: every history is answered identically
for two grids with the same id (this is what a lossy or stale `Grid.__hash__` does). -/
theorem colliding_grids_share_instance {G : Type} (hash : G → GridId) (e : Elem) (s : St) (g1 g2 : G)
    (w : Option WlKey) (h : hash g1 = hash g2) :
    step e s (.req (some (hash g1)) none w) = step e s (.req (some (hash g2)) none w) := by
  rw [h]

/-! ### Grids that differ in their weights only

`Grid.__eq__` and `Grid.__hash__` ignore the weights (C10: equality is about coordinates), instances do not.  The
executed key function `gridKey` (what `_get_grid_key` computes after repair D505; every `req`/`reqc` of the driver runs it)
is faithful for grids = (coordinates, weights); the unrepaired key part `hash(grid)` is not. -/

/-- **The repaired key discharges `HashFaithful` for grids with weights**: grids that differ in their coordinates *or*
in their weights get different ids (given that the digests of coordinates and weights themselves do not collide —
that part stays C10's hash assumption). -/
theorem gridKey_faithful : HashFaithful gridKey := fun _ _ h => gridKey_injective h

/-- The unrepaired key part (`hash(grid)`, coordinates only) is not faithful. -/
theorem coords_key_not_faithful : ¬ HashFaithful Mutant.gridKeyCoords := by
  intro h
  have := h ⟨1, 1⟩ ⟨1, 2⟩ rfl
  cases this

/-- **Defect D505 (clean tree)**: with the coordinates-only key, a grid with equal coordinates and other weights is
answered exactly like the first grid, in every state and at every wavelength — it is handed the first grid's
instance. -/
theorem coords_key_shares_instance (e : Elem) (s : St) (c w1 w2 : Nat) (wl : Option WlKey) :
    step e s (.req (some (Mutant.gridKeyCoords ⟨c, w1⟩)) none wl)
      = step e s (.req (some (Mutant.gridKeyCoords ⟨c, w2⟩)) none wl) :=
  colliding_grids_share_instance Mutant.gridKeyCoords e s ⟨c, w1⟩ ⟨c, w2⟩ wl rfl

/-- **With the repaired key, grids that differ in weights only never share an instance**: two forward requests (any
two reachable states of a grid-dependent element) handed instances made for the same key were made on grids with the
same coordinates and the same weights. -/
theorem weights_distinguish_instances {e : Elem} (hT : Truthful e) (hmax : 1 ≤ e.maxN)
    (hg : e.gridDep = true) {s1 s2 : St} (h1 : Inv e s1) (h2 : Inv e s2) (g1 g2 : Grid)
    (w : Option WlKey) (k : Key) (v1 v2 : Nat)
    (r1 : (step e s1 (.req (some (gridKey g1)) none w)).2 = .inst k v1)
    (r2 : (step e s2 (.req (some (gridKey g2)) none w)).2 = .inst k v2) :
    g1.coord = g2.coord ∧ g1.weights = g2.weights := by
  have := distinct_grids_distinct_instances gridKey gridKey_faithful hT hmax hg h1 h2 g1 g2 w k v1 v2 r1 r2
  subst this
  exact ⟨rfl, rfl⟩

/-- **Transparency for histories on actual grids** (coordinates and weights) seen through the executed key: the
shared element answers every request as a fresh element does, and (by `gridKey_faithful`) the key of the instance
handed out determines coordinates and weights of the grids it was made for. -/
theorem transparent_on_grids {e : Elem} (hT : Truthful e) (hmax : 1 ≤ e.maxN) (ver : Nat) (ops : List OpG) :
    run e (St.init ver) (ops.map (OpG.toOp gridKey)) = specRun e ver (ops.map (OpG.toOp gridKey)) :=
  transparent hT hmax ver _

/-- The same histories through the coordinates-only key are *not* transparent with respect to the grids: a concrete
history (forward on a grid, forward on a grid with the same coordinates and other weights) in which the second
request is answered `hit` by the first grid's instance, while the executed key creates a second instance. -/
theorem coords_key_history_counterexample :
    let e : Elem := ⟨true, true, 11, fun _ _ _ => none, fun _ _ g => some g⟩
    let ops : List OpG := [.req (some ⟨1, 1⟩) none (some 5), .req (some ⟨1, 2⟩) none (some 5)]
    (run e (St.init 0) (ops.map (OpG.toOp Mutant.gridKeyCoords))).getLast? =
        (run e (St.init 0) (ops.map (OpG.toOp Mutant.gridKeyCoords))).head? ∧
      (run e (St.init 0) (ops.map (OpG.toOp gridKey))).getLast? ≠
        (run e (St.init 0) (ops.map (OpG.toOp gridKey))).head? := by decide

/-! ### Declared dependences: what `make_instance` reads versus what the key retains

`Content.make : Key → Nat → α` (an instance is a function of its key) is discharged here from a model of what
`make_instance` reads, instead of being assumed. -/

/-- A request as `make_instance` sees it: the value id of every dimension (specification side). -/
abbrev ReqEnv := Dim → Nat

/-- What a key that retains the dimensions `covers` keeps of a request. -/
def keyView (covers : Dim → Bool) (r : ReqEnv) : Dim → Option Nat := fun d => if covers d then some (r d) else none

/-- `mk` (an element's `make_instance`, as a function of the request) reads only the dimensions in `reads`. -/
def ReadsOnly {α : Type} (reads : List Dim) (mk : ReqEnv → α) : Prop :=
  ∀ r1 r2 : ReqEnv, (∀ d ∈ reads, r1 d = r2 d) → mk r1 = mk r2

example : ReadsOnly [Dim.coords, Dim.wavelength] (fun r => r .coords + 2 * r .wavelength) := by
  intro r1 r2 h
  simp only [h .coords (by simp), h .wavelength (by simp)]

/-- **An instance is a function of its key**: if the key retains every dimension `make_instance` reads, two requests
with the same key view build the same instance content — whatever else differs between them (other weights, another
wavelength for a wavelength-independent element, …). -/
theorem instance_determined_by_key {α : Type} (covers : Dim → Bool) (reads : List Dim) (mk : ReqEnv → α)
    (hc : uncoveredBy covers reads = []) (hr : ReadsOnly reads mk) (r1 r2 : ReqEnv)
    (hk : keyView covers r1 = keyView covers r2) : mk r1 = mk r2 := by
  apply hr
  intro d hd
  have hcov : covers d = true := by
    by_contra hn
    have : d ∈ uncoveredBy covers reads := by
      simp only [uncoveredBy, List.mem_filter]
      exact ⟨hd, by simpa using hn⟩
    rw [hc] at this
    cases this
  have := congrFun hk d
  simpa [keyView, hcov] using this

/-- Hence `make_instance` factors through the key view: this is the `Content.make` of the cache model. -/
theorem make_factors_through_key {α : Type} [Inhabited α] (covers : Dim → Bool) (reads : List Dim) (mk : ReqEnv → α)
    (hc : uncoveredBy covers reads = []) (hr : ReadsOnly reads mk) :
    ∃ mk' : (Dim → Option Nat) → α, ∀ r, mk r = mk' (keyView covers r) := by
  classical
  refine ⟨fun kv => if h : ∃ r, keyView covers r = kv then mk h.choose else default, ?_⟩
  intro r
  have hex : ∃ r', keyView covers r' = keyView covers r := ⟨r, rfl⟩
  simp only [dif_pos hex]
  exact instance_determined_by_key covers reads mk hc hr r _ hex.choose_spec.symm

/-- **Every shipped family is covered** by the repaired key: nothing its `make_instance` reads is lost.  (The harness
compares each row with the flags and the reads observed on the running classes.) -/
theorem shipped_families_covered : ∀ f ∈ shippedFamilies, uncovered f.gridDep f.wlDep f.reads = [] := by decide

/-- … so for every shipped family, requests with equal key views build equal instances. -/
theorem shipped_instances_determined_by_key {α : Type} (f : Family) (hf : f ∈ shippedFamilies) (mk : ReqEnv → α)
    (hr : ReadsOnly f.reads mk) (r1 r2 : ReqEnv)
    (hk : keyView (keyCovers f.gridDep f.wlDep) r1 = keyView (keyCovers f.gridDep f.wlDep) r2) : mk r1 = mk r2 :=
  instance_determined_by_key _ f.reads mk (shipped_families_covered f hf) hr r1 r2 hk

/-- **A read the key loses breaks it**: for any dimension read but not retained there are an admissible `make_instance`
and two requests with the same key view that must get different instances. -/
theorem uncovered_read_breaks (covers : Dim → Bool) (reads : List Dim) (d : Dim)
    (hu : d ∈ uncoveredBy covers reads) :
    ∃ (mk : ReqEnv → Nat) (r1 r2 : ReqEnv), ReadsOnly reads mk ∧ keyView covers r1 = keyView covers r2 ∧ mk r1 ≠ mk r2 := by
  have hd : d ∈ reads := (List.mem_filter.mp hu).1
  have hn : covers d = false := by simpa using (List.mem_filter.mp hu).2
  refine ⟨fun r => r d, fun _ => 0, fun d' => if d' = d then 1 else 0, ?_, ?_, ?_⟩
  · intro r1 r2 h
    exact h d hd
  · funext d'
    by_cases h : d' = d
    · subst h; simp [keyView, hn]
    · simp [keyView, h]
  · simp

/-- With the unrepaired key every grid-dependent shipped family loses a dimension it reads (the weights): D505. -/
theorem coords_only_key_loses_weights :
    ∀ f ∈ shippedFamilies, f.gridDep = true →
      uncoveredBy (Mutant.keyCoversCoordsOnly f.gridDep f.wlDep) f.reads = [Dim.weights] := by decide

/-- The seeded regression C07-8 in the model: a magnifier that reads the grid's weights while the key does not
retain them (not grid dependent, or grid dependent with the coordinates-only key). -/
theorem magnifier_reading_weights_uncovered :
    uncovered false true [Dim.weights, Dim.wavelength] = [Dim.weights] ∧
      uncoveredBy (Mutant.keyCoversCoordsOnly true true) [Dim.coords, Dim.weights, Dim.wavelength] = [Dim.weights] := by
  decide

/-! ## The wavelength key (the property's side condition "wavelengths at least 1e-6 apart")

`wavelength_key = int(np.round(np.log(wavelength) / np.log(1 + 1e-9)))`, modelled over ℝ as
`wlKey r b lam = r (log lam / log b)` for any round-to-nearest `r` (ties broken either way) and any
base `b ∈ [1 + 1e-9/2, 1 + 2e-9]` — in particular the exact `1 + 1e-9` and the double the code uses. -/

/-- The executed base `wlBase` (the double nearest to `1 + 1e-9`: what `1 + 1e-9` evaluates to in the code, `1 + 4503600·2⁻⁵²`;
the harness checks this identity on the running interpreter) is an admissible base. -/
theorem wlBase_ok : BaseOk ((wlBase : ℚ) : ℝ) := by
  rw [wlBase_cast]; exact base_double_ok

example : Nearest (round : ℝ → ℤ) := nearest_round
example : BaseOk (1 + 1 / 10 ^ 9) := baseOk_exact

/-- **Wavelengths at least a relative 1e-6 apart never share an instance**: their keys (at the base the code uses) differ
by at least 498, whatever the tie-breaking of the rounding.  (Any base in `[1 + 1e-9/2, 1 + 2e-9]`:
`wavelength_key_separates_base`, Lemmas/WavelengthKey.lean.) -/
theorem wavelength_key_separates {r : ℝ → ℤ} (hr : Nearest r)
    {l1 l2 : ℝ} (h1 : 0 < l1) (h : l1 * (1 + 1 / 10 ^ 6) ≤ l2) :
    wlKey r ((wlBase : ℚ) : ℝ) l1 ≠ wlKey r ((wlBase : ℚ) : ℝ) l2 ∧
      wlKey r ((wlBase : ℚ) : ℝ) l1 + 498 ≤ wlKey r ((wlBase : ℚ) : ℝ) l2 := by
  have := wavelength_key_separates_base hr wlBase_ok h1 h
  exact ⟨by omega, this⟩

/-- **Coalescing is local**: wavelengths within a relative 1e-10 get the same or neighbouring keys. -/
theorem wavelength_key_stable {r : ℝ → ℤ} (hr : Nearest r)
    {l1 l2 : ℝ} (h1 : 0 < l1) (hle : l1 ≤ l2) (h : l2 ≤ l1 * (1 + 1 / 10 ^ 10)) :
    |wlKey r ((wlBase : ℚ) : ℝ) l2 - wlKey r ((wlBase : ℚ) : ℝ) l1| ≤ 1 :=
  wavelength_key_stable_base hr wlBase_ok h1 hle h

/-- **What the cache coalesces**: two wavelengths that share a key (hence an instance) are within one factor `base`
(a relative 1e-9) of each other, in both directions. -/
theorem wavelength_key_shared_close {r : ℝ → ℤ} (hr : Nearest r)
    {l1 l2 : ℝ} (h1 : 0 < l1) (h2 : 0 < l2) (h : wlKey r ((wlBase : ℚ) : ℝ) l1 = wlKey r ((wlBase : ℚ) : ℝ) l2) :
    l2 ≤ l1 * ((wlBase : ℚ) : ℝ) ∧ l1 ≤ l2 * ((wlBase : ℚ) : ℝ) :=
  ⟨wavelength_key_shared_close_base hr wlBase_ok h1 h2 h, wavelength_key_shared_close_base hr wlBase_ok h2 h1 h.symm⟩

/-- The instance as in the code up to tie-breaking: Mathlib's `round`, the code's base. -/
theorem wavelength_key_separates_round {l1 l2 : ℝ} (h1 : 0 < l1) (h : l1 * (1 + 1 / 10 ^ 6) ≤ l2) :
    wlKey round ((wlBase : ℚ) : ℝ) l1 ≠ wlKey round ((wlBase : ℚ) : ℝ) l2 :=
  (wavelength_key_separates nearest_round h1 h).1

/-! ### The executed enclosure of key differences (`wlKeyDiffBounds`, driver op `wldiff`)

Ties the ℝ model `wlKey` to definitions the driver runs: for rational wavelengths (every float is one) the exact rational
bounds enclose the key difference of the ℝ model at the double base, and the harness checks that the key differences of the
running code lie inside the same bounds. -/

/-- **The executed bounds enclose the modelled key difference** (any tie-breaking, the double base). -/
theorem wavelength_key_diff_enclosed {r : ℝ → ℤ} (hr : Nearest r) {l1 l2 : ℚ} (h1 : 0 < l1) (hle : l1 ≤ l2) :
    (((wlKeyDiffBounds l1 l2).1 : ℚ) : ℝ) ≤
        (wlKey r ((wlBase : ℚ) : ℝ) (l2 : ℝ) : ℝ) - (wlKey r ((wlBase : ℚ) : ℝ) (l1 : ℝ) : ℝ) ∧
      (wlKey r ((wlBase : ℚ) : ℝ) (l2 : ℝ) : ℝ) - (wlKey r ((wlBase : ℚ) : ℝ) (l1 : ℝ) : ℝ) ≤
        (((wlKeyDiffBounds l1 l2).2 : ℚ) : ℝ) :=
  key_diff_bounds_rat hr h1 hle

example : (0 : ℚ) < 1 ∧ (1 : ℚ) ≤ 2 := by norm_num

/-- **Separation, on the executed bounds**: at the property's side condition (`λ2 ≥ λ1·(1 + 1e-6)`) the executed lower
bound of the key difference is already ≥ 498 — the two wavelengths cannot share a cache entry. -/
theorem wavelength_key_executed_separates {l1 l2 : ℚ} (h1 : 0 < l1) (h : l1 * (1 + 1 / 10 ^ 6) ≤ l2) :
    498 ≤ (wlKeyDiffBounds l1 l2).1 := by
  have h2 : 0 < l2 := lt_of_lt_of_le (by positivity) h
  have hq : l1 / l2 ≤ 10 ^ 6 / (10 ^ 6 + 1) := by
    rw [div_le_div_iff₀ h2 (by norm_num)]
    norm_num at h ⊢
    linarith
  simp only [wlKeyDiffBounds, wlDiffLo, wlBase]
  rw [le_sub_iff_add_le, le_div_iff₀ (by norm_num)]
  norm_num at hq ⊢
  linarith

/-- **Stability, on the executed bounds**: wavelengths within a relative `1e-10` have an executed upper bound below 2,
i.e. the same or neighbouring keys. -/
theorem wavelength_key_executed_stable {l1 l2 : ℚ} (h1 : 0 < l1) (h : l2 ≤ l1 * (1 + 1 / 10 ^ 10)) :
    (wlKeyDiffBounds l1 l2).2 < 2 := by
  have hq : l2 / l1 ≤ 1 + 1 / 10 ^ 10 := by
    rw [div_le_iff₀ h1]
    linarith
  simp only [wlKeyDiffBounds, wlDiffHi, wlBase]
  rw [← lt_sub_iff_add_lt, div_lt_iff₀ (by norm_num)]
  norm_num at hq ⊢
  linarith

/-- Both together with the enclosure: the modelled keys of two rational wavelengths at the property's bound differ by at
least 498 — `wavelength_key_separates` recovered through the executed definition. -/
theorem wavelength_key_separates_executed {r : ℝ → ℤ} (hr : Nearest r) {l1 l2 : ℚ} (h1 : 0 < l1)
    (h : l1 * (1 + 1 / 10 ^ 6) ≤ l2) :
    (498 : ℝ) ≤ (wlKey r ((wlBase : ℚ) : ℝ) (l2 : ℝ) : ℝ) - (wlKey r ((wlBase : ℚ) : ℝ) (l1 : ℝ) : ℝ) := by
  have hle : l1 ≤ l2 := by nlinarith
  have e := (wavelength_key_diff_enclosed hr h1 hle).1
  have s : ((498 : ℚ) : ℝ) ≤ (((wlKeyDiffBounds l1 l2).1 : ℚ) : ℝ) := by
    exact_mod_cast wavelength_key_executed_separates h1 h
  push_cast at s
  linarith

/-! ## Scratch state of the Fourier objects -/

/-- A memo cell is well formed when its value is what `compute` gives for its tag. -/
def MemoOk {τ α} (compute : τ → α) (m : Memo τ α) : Prop :=
  ∀ t v, m.slot = some (t, v) → v = compute t

/-- **Memo cells are transparent** (`MatrixFourierTransform` matrices per dtype, `FourierFilter`
transfer function per dtype and internal array per (dtype, tensor shape)): whatever was asked
before, `get` returns what a fresh computation returns, and the cell stays well formed. -/
theorem memo_get_transparent {τ α} [DecidableEq τ] (compute : τ → α) (m : Memo τ α)
    (hm : MemoOk compute m) (t : τ) :
    (m.get compute t).2 = compute t ∧ MemoOk compute (m.get compute t).1 := by
  unfold Memo.get
  cases hs : m.slot with
  | none =>
    refine ⟨rfl, ?_⟩
    intro t' v' h
    simp at h
    obtain ⟨rfl, rfl⟩ := h
    rfl
  | some p =>
    obtain ⟨t', v⟩ := p
    by_cases ht : t' = t
    · simp only [if_pos ht]
      exact ⟨hm t v (ht ▸ hs), hm⟩
    · simp only [if_neg ht]
      refine ⟨trivial, ?_⟩
      intro t'' v'' h
      simp at h
      obtain ⟨rfl, rfl⟩ := h
      rfl

example : MemoOk (fun (b : Bool) => if b then 64 else 128) ⟨none⟩ := by
  intro t v h; cases h

/-- Histories of memo-cell reads (alternating dtypes / tensor shapes, with `_remove_matrices()` in
between or not): every read returns the fresh computation. -/
theorem memo_history_transparent {τ α} [DecidableEq τ] (compute : τ → α) (ts : List (τ × Bool)) :
    ∀ m : Memo τ α, MemoOk compute m →
      (ts.foldl (fun (acc : Memo τ α × List α) (tb : τ × Bool) =>
          let r := acc.1.get compute tb.1
          ((if tb.2 then r.1.drop else r.1), acc.2 ++ [r.2])) (m, [])).2
        = ts.map (fun tb => compute tb.1) := by
  suffices h : ∀ (out : List α) (m : Memo τ α), MemoOk compute m →
      (ts.foldl (fun (acc : Memo τ α × List α) (tb : τ × Bool) =>
          let r := acc.1.get compute tb.1
          ((if tb.2 then r.1.drop else r.1), acc.2 ++ [r.2])) (m, out)).2
        = out ++ ts.map (fun tb => compute tb.1) by
    intro m hm; simpa using h [] m hm
  induction ts with
  | nil => intro out m _; simp
  | cons tb ts ih =>
    intro out m hm
    obtain ⟨hv, hok⟩ := memo_get_transparent compute m hm tb.1
    simp only [List.foldl_cons, List.map_cons]
    have hok' : MemoOk compute (if tb.2 then (m.get compute tb.1).1.drop else (m.get compute tb.1).1) := by
      split
      · intro t v h; simp [Memo.drop] at h
      · exact hok
    rw [ih _ _ hok', hv]
    simp

/-- The mutant "matrices not rebuilt on dtype change" is not transparent. -/
theorem memo_stale_counterexample :
    let compute : Bool → Nat := fun b => if b then 64 else 128
    let m1 := (Mutant.memoGetStale compute ⟨none⟩ true).1
    (Mutant.memoGetStale compute m1 false).2 = 64 ∧ compute false = 128 := by decide

/-- **Scratch buffers are transparent** (`FastFourierTransform.internal_array`,
`FourierFilter.internal_array`): what `forward`/`backward` hand to the FFT — `Fft.loadArray`, the very
definition C01's `coreState` reads and that the driver op `C05 load` runs against the array the real
code passes to `fftn` — does not depend on what the buffer held before.  (Replaces the round-1
`padInto_independent`, which was true by construction.) -/
theorem scratch_load_independent {C : Type} [CommRing C] (N M : ℕ) (hNM : N ≤ M)
    (buf buf' f : ℕ → C) (p : ℕ) (hp : p < M) :
    Fft.loadArray N M buf f p = Fft.loadArray N M buf' f p := by
  rw [Fft.loadArray_eq_pad N M hNM buf f p hp, Fft.loadArray_eq_pad N M hNM buf' f p hp]

example : (3 : ℕ) ≤ 6 ∧ (4 : ℕ) < 6 := by decide

/-- The mutant "`internal_array` not re-zeroed" (`Fft.loadArrayNoClear`) depends on the previous call:
a position outside the window keeps the old content. -/
theorem scratch_load_noclear_counterexample :
    Fft.loadArrayNoClear 2 4 (fun _ => (7 : ℤ)) (fun _ => 1) 0 = 7 ∧
    Fft.loadArrayNoClear 2 4 (fun _ => (0 : ℤ)) (fun _ => 1) 0 = 0 ∧
    Fft.loadArray 2 4 (fun _ => (7 : ℤ)) (fun _ => 1) 0 = 0 := by
  decide

/-! ### `ZoomFastFourierTransform` (a memo cell owning `ChirpZTransform` memo cells) -/

/-- Both chirp-z cells of a zoom FFT are well formed. -/
def ZoomOk {α} (compute : Nat → α) (z : Zoom α) : Prop := MemoOk compute z.czt ∧ MemoOk compute z.inv

example : ZoomOk (fun n => n + 1) (Zoom.fresh : Zoom Nat) :=
  And.intro (fun t v h => by simp [Zoom.fresh] at h) (fun t v h => by simp [Zoom.fresh] at h)

/-- **The zoom FFT is transparent**: whatever precisions and directions were used before, a call
uses the kernels computed for its own precision — what a freshly constructed object computes. -/
theorem zoom_call_transparent {α} (compute : Nat → α) (z : Zoom α) (hz : ZoomOk compute z)
    (back : Bool) (t : Nat) :
    (z.call compute back t).2 = compute t ∧ (z.call compute back t).2 = ((Zoom.fresh).call compute back t).2 ∧
      ZoomOk compute (z.call compute back t).1 := by
  have hnone : MemoOk compute (⟨none⟩ : Memo Nat α) := fun t v h => by cases h
  have key : ∀ z : Zoom α, ZoomOk compute z →
      (z.call compute back t).2 = compute t ∧ ZoomOk compute (z.call compute back t).1 := by
    intro z hz
    unfold Zoom.call
    have hz1 : ZoomOk compute (if z.tag = some t then z else ⟨some t, ⟨none⟩, ⟨none⟩⟩) := by
      split
      · exact hz
      · exact ⟨hnone, hnone⟩
    generalize (if z.tag = some t then z else (⟨some t, ⟨none⟩, ⟨none⟩⟩ : Zoom α)) = z1 at hz1
    cases back with
    | true =>
      obtain ⟨hv, hok⟩ := memo_get_transparent compute z1.inv hz1.2 t
      exact ⟨hv, hz1.1, hok⟩
    | false =>
      obtain ⟨hv, hok⟩ := memo_get_transparent compute z1.czt hz1.1 t
      exact ⟨hv, hok, hz1.2⟩
  obtain ⟨h1, h2⟩ := key z hz
  obtain ⟨h3, _⟩ := key Zoom.fresh ⟨hnone, hnone⟩
  exact ⟨h1, h1.trans h3.symm, h2⟩

/-- Histories of zoom-FFT calls (alternating directions and precisions). -/
theorem zoom_history_transparent {α} (compute : Nat → α) (calls : List (Bool × Nat)) :
    runObj (fun (z : Zoom α) (c : Bool × Nat) => z.call compute c.1 c.2) Zoom.fresh calls
      = calls.map (fun c => compute c.2) := by
  have hnone : MemoOk compute (⟨none⟩ : Memo Nat α) := fun t v h => by cases h
  rw [hidden_state_history_transparent (fun (z : Zoom α) (c : Bool × Nat) => z.call compute c.1 c.2)
    (ZoomOk compute) Zoom.fresh
    (fun z c hz => ⟨(zoom_call_transparent compute z hz c.1 c.2).2.2,
      (zoom_call_transparent compute z hz c.1 c.2).2.1⟩) calls Zoom.fresh ⟨hnone, hnone⟩]
  apply List.map_congr_left
  intro c _
  exact (zoom_call_transparent compute Zoom.fresh ⟨hnone, hnone⟩ c.1 c.2).1

/-! ## Instance contents: the abstraction "an instance is its (key, version)" as a hypothesis -/

/-- **Hypothesis `ObservablyPure`**: there is an invariant `Good k ver` of instance contents such that
`make_instance` establishes it, every use keeps it, and under it a use returns what the freshly made
content returns.  ("`make_instance` is deterministic in (full key, current parameters) and using an
instance does not change it observably.") -/
def ObservablyPure {α W R} (c : Content α W R) (Good : Key → Nat → α → Prop) : Prop :=
  (∀ k ver, Good k ver (c.make k ver)) ∧
  ∀ k ver a wf, Good k ver a → Good k ver (c.use a wf).1 ∧ (c.use a wf).2 = (c.use (c.make k ver) wf).2

/-- Satisfiable: contents that are never modified. -/
example : ObservablyPure (⟨fun k ver => (k, ver), fun a (wf : Nat) => (a, (a, wf))⟩ :
    Content (Key × Nat) Nat ((Key × Nat) × Nat)) (fun k ver a => a = (k, ver)) :=
  ⟨fun _ _ => rfl, fun k ver a wf h => by subst h; exact ⟨rfl, rfl⟩⟩

/-- Invariant of the content of an instance that owns a memo cell (`memoContent`): it belongs to the
instance `(k, ver)` and its cell is well formed. -/
def MemoContentOk {τ β : Type} (compute : Key → Nat → τ → β) (k : Key) (ver : Nat)
    (a : Key × Nat × Memo τ β) : Prop :=
  a.1 = k ∧ a.2.1 = ver ∧ MemoOk (compute k ver) a.2.2

/-- **Bridge: memo cells discharge `ObservablyPure`.**  The content the driver op `reqc` executes
(`memoContent`: an instance owning a `FourierFilter`-like cell read through `Memo.get`) is observably
pure, with `MemoContentOk` as invariant. -/
theorem memo_content_pure {τ β : Type} [DecidableEq τ] (compute : Key → Nat → τ → β) :
    ObservablyPure (memoContent compute) (MemoContentOk compute) := by
  refine ⟨fun k ver => ⟨rfl, rfl, fun t v h => by cases h⟩, ?_⟩
  rintro k ver ⟨k', ver', m⟩ t ⟨rfl, rfl, hm⟩
  obtain ⟨h1, h2⟩ := memo_get_transparent (compute k' ver') m hm t
  refine ⟨⟨rfl, rfl, h2⟩, ?_⟩
  show (m.get (compute k' ver') t).2 = ((⟨none⟩ : Memo τ β).get (compute k' ver') t).2
  rw [h1]; rfl

theorem stepC_state {α W R} (e : Elem) (c : Content α W R) (s : St) (heap : Inst → α) (op : OpC W) :
    (stepC e c s heap op).1 = (step e s (match op with
      | .req i o w _ => .req i o w | .clear => .clear | .set => .set)).1 := by
  cases op with
  | clear => rfl
  | set => rfl
  | req i o w wf =>
    simp only [stepC, step]
    cases getInstanceData e s i o w with
    | error err => rfl
    | ok r => rfl

/-- **Transparency with results (the abstraction made explicit).**  The cache stores instance objects
with contents of any type `α`; a request with wavefront `wf` returns `use (content of the instance
handed out) wf` and may update that content in place.  If contents are `ObservablyPure`, then for every
truthful element with `max_in_cache ≥ 1` every history of requests, `clear_cache()` and setters returns,
request by request, what a freshly constructed element (empty cache, freshly made instance) returns. -/
theorem transparent_results_from {α W R} {e : Elem} (hT : Truthful e) (hmax : 1 ≤ e.maxN)
    (c : Content α W R) (Good : Key → Nat → α → Prop) (hc : ObservablyPure c Good)
    (ops : List (OpC W)) :
    ∀ (s : St) (heap : Inst → α), Inv e s → (∀ v, Good v.key v.ver (heap v)) →
      runC e c s heap ops = specC e c s.ver ops := by
  induction ops with
  | nil => intro s heap _ _; rfl
  | cons op ops ih =>
    intro s heap hi hh
    cases op with
    | clear =>
      simp only [runC, specC, stepC]
      rw [ih _ _ (inv_clear e s) hh]
      rfl
    | set =>
      simp only [runC, specC, stepC]
      rw [ih _ _ (inv_setParam e s) hh]
      rfl
    | req i o w wf =>
      have htr := request_transparent hT hmax hi i o w
      obtain ⟨hi', hver⟩ := step_req_inv hT hmax hi (.req i o w)
      simp only [runC, specC]
      cases h : getInstanceData e s i o w with
      | error err =>
        rw [step_req_err h] at htr hi' hver
        have h1 : stepC e c s heap (.req i o w wf) = (s, heap, .error err) := by
          simp only [stepC]; rw [h]
        rw [h1, ← htr]
        simp only
        rw [ih _ _ hi hh]
      | ok r =>
        obtain ⟨s', v⟩ := r
        rw [step_req_ok h] at htr hi' hver
        have h1 : stepC e c s heap (.req i o w wf) =
            (s', (fun v' => if v' = v then (c.use (heap v) wf).1 else heap v'),
              .result (c.use (heap v) wf).2) := by
          simp only [stepC]; rw [h]
        rw [h1, ← htr]
        simp only
        obtain ⟨hg, hr⟩ := hc.2 v.key v.ver (heap v) wf (hh v)
        have hh' : ∀ v', Good v'.key v'.ver ((fun v' => if v' = v then (c.use (heap v) wf).1 else heap v') v') := by
          intro v'
          simp only
          split
          · rename_i hv; subst hv; exact hg
          · exact hh v'
        simp only at hver
        rw [ih _ _ hi' hh', hr, hver]

theorem transparent_results {α W R} {e : Elem} (hT : Truthful e) (hmax : 1 ≤ e.maxN)
    (c : Content α W R) (Good : Key → Nat → α → Prop) (hc : ObservablyPure c Good) (ver : Nat)
    (ops : List (OpC W)) :
    runC e c (St.init ver) c.heap0 ops = specC e c ver ops :=
  transparent_results_from hT hmax c Good hc ops _ _ (inv_init e ver) (fun v => hc.1 v.key v.ver)

/-- **Transparency with results for instances that own a memo cell — no hypothesis on contents.**
The cache composed with the memo-cell content (exactly what `C05 reqc` runs): every history of
propagations with fields of any dtypes, `clear_cache()` and setters returns, request by request, the
kernel a freshly constructed element computes for that request, whatever dtype the cell of a reused
instance was left with. -/
theorem transparent_results_memo {τ β : Type} [DecidableEq τ] {e : Elem} (hT : Truthful e)
    (hmax : 1 ≤ e.maxN) (compute : Key → Nat → τ → β) (ver : Nat) (ops : List (OpC τ)) :
    runC e (memoContent compute) (St.init ver) (memoContent compute).heap0 ops
      = specC e (memoContent compute) ver ops :=
  transparent_results hT hmax _ _ (memo_content_pure compute) ver ops

/-- **`ObservablyPure` is needed**: an instance that keeps state it does not re-check (a memo cell
without tag comparison: it answers every later wavefront with the value of the first) makes the very
same, proved-transparent cache return a stale result. -/
theorem content_hypothesis_needed :
    let e : Elem := ⟨true, true, 11, fun _ _ g => some g, fun _ _ g => some g⟩
    let c : Content (Option Nat) Nat Nat :=
      ⟨fun _ _ => none, fun a wf => match a with | some v => (a, v) | none => (some wf, wf)⟩
    let ops : List (OpC Nat) := [.req (some 1) none (some 5) 7, .req (some 1) none (some 5) 8]
    runC e c (St.init 0) c.heap0 ops = [.result 7, .result 7] ∧
    specC e c 0 ops = [.result 7, .result 8] := by
  decide

/-! ## `Truthful` is needed -/

/-- **A `Truthful`-failing element is not transparent.**  A grid-dependent element declared wavelength
*in*dependent whose `get_output_grid` nevertheless depends on the wavelength (output grid = wavelength
key): a forward request on grid 1 at wavelength 5 creates the instance for `(1, 5)` and registers it
under the request key `(1, -)`; the same grid at wavelength 6 hits that key and is handed the instance
for output grid 5, while a fresh element builds the one for output grid 6.  No shipped class is of this
kind (`truthful_of_declared_deps`). -/
theorem truthful_needed :
    let e : Elem := ⟨true, false, 11, fun _ _ g => some g, fun _ w _ => w⟩
    ¬ Truthful e ∧
    run e (St.init 0) [.req (some 1) none (some 5), .req (some 1) none (some 6)]
      = [.inst ⟨some 1, some 5, none⟩ 0, .inst ⟨some 1, some 5, none⟩ 0] ∧
    specRun e 0 [.req (some 1) none (some 5), .req (some 1) none (some 6)]
      = [.inst ⟨some 1, some 5, none⟩ 0, .inst ⟨some 1, some 6, none⟩ 0] := by
  refine ⟨?_, by decide, by decide⟩
  intro hT
  have := hT 0 (some 1) none (some 5) (some 1) none (some 6)
  revert this
  decide

/-! ## The second cache: `make_agnostic_optical_element` (exported, deprecated) -/

open HcipyVerif.Cache.Deco

/-- The element of the counterexample: grid and wavelength dependent, `num_in_cache = 50` (the
default), output grid of the element built on grid `a` = grid `a + 100`. -/
def decoExample : DElem := ⟨true, true, 50, fun a _ => a + 100⟩

/-- **`make_agnostic_optical_element` is history dependent** (open finding
`history-dependent make_agnostic_optical_element backward-after-forward`; replayed on the real code by
the harness): forward on grid 1, then backward on that element's output grid 101.  The shared object
answers the backward request with the element built for grid 1; a freshly constructed one raises
`RuntimeError('Output grid is not known. Perform a forward propagation first …')`. -/
theorem decorator_counterexample :
    drun decoExample DSt.init [⟨some 1, none, some 5⟩, ⟨none, some 101, some 5⟩]
      = [.inst (some 1) (some 5), .inst (some 1) (some 5)] ∧
    dspecRun decoExample [⟨some 1, none, some 5⟩, ⟨none, some 101, some 5⟩]
      = [.inst (some 1) (some 5), .error .runtime] := by
  decide

/-- The negative statement: the analogue of `transparent` is false for the decorator's cache. -/
theorem decorator_history_dependent :
    ∃ (e : DElem) (ops : List DOp), 1 ≤ e.num ∧ drun e DSt.init ops ≠ dspecRun e ops :=
  ⟨decoExample, [⟨some 1, none, some 5⟩, ⟨none, some 101, some 5⟩], by decide, by decide⟩

/-- A freshly constructed decorated element never answers a request that names an output grid with an
element: it raises (`RuntimeError`, or `ValueError` for an incomplete request). -/
theorem decorator_fresh_backward_raises (e : DElem) (i : Option GridId) (b : GridId) (w : Option WlKey) :
    (dstep e DSt.init ⟨i, some b, w⟩).2 = .error .value ∨
    (dstep e DSt.init ⟨i, some b, w⟩).2 = .error .runtime := by
  unfold dstep getInstance
  cases dreqKey e i (some b) w with
  | none => left; rfl
  | some k => right; rfl

/-- What the shared object answers to a backward request (grid dependent element): an exception, or an
element that some earlier forward request built and whose output grid is the requested grid, at the
requested wavelength — never an element for another output grid or wavelength. -/
theorem decorator_backward_answer {e : DElem} (hg : e.gridDep = true) {s : DSt} (hs : DSound e s)
    (b : GridId) (w : Option WlKey) :
    (∃ err, (dstep e s ⟨none, some b, w⟩).2 = .error err) ∨
    (∃ a, (dstep e s ⟨none, some b, w⟩).2 = .inst (some a) (if e.wlDep then w else none) ∧
      e.outOf a (if e.wlDep then w else none) = b) := by
  cases h : getInstance e s none (some b) w with
  | error err => left; exact ⟨err, by rw [dstep_err (op := ⟨none, some b, w⟩) h]⟩
  | ok r =>
    obtain ⟨s', v⟩ := r
    right
    rw [dstep_ok (op := ⟨none, some b, w⟩) h]
    obtain ⟨_, k, hk, hw, hgrid⟩ := getInstance_sound hs h
    have hk' : k = ⟨some (Side.output, b), if e.wlDep then w else none⟩ := by
      unfold dreqKey at hk
      simp only [hg, Option.isNone_none, Option.isNone_some, Bool.true_and] at hk
      split at hk
      · rename_i h0; simp at h0
      · split at hk
        · cases hk
        · simp at hk; exact hk.symm
    subst hk'
    simp only at hgrid hw
    obtain ⟨a, ha, hout⟩ := hgrid
    exact ⟨a, by rw [ha, hw], hout⟩

/-- **Forward requests through the decorator are transparent**: for every history (any mixture of
forward, backward and malformed requests, beyond any cache size, `num_in_cache ≥ 1`) the answers to the
requests that name no output grid are those of freshly constructed elements. -/
theorem decorator_forward_transparent {e : DElem} (hnum : 1 ≤ e.num) (ops : List DOp) :
    ∀ s, DSound e s → forwardOnly ops (drun e s ops) = forwardOnly ops (dspecRun e ops) := by
  induction ops with
  | nil => intro s _; rfl
  | cons op ops ih =>
    intro s hs
    have hs' := dstep_sound hs op
    simp only [drun, dspecRun, List.map_cons, forwardOnly]
    have ih' := ih _ hs'
    simp only [dspecRun] at ih'
    obtain ⟨i, o, w⟩ := op
    cases o with
    | some b => simpa using ih'
    | none =>
      simp only [Option.isNone_none, if_true]
      rw [forward_answer hnum hs i w, forward_answer hnum (dsound_init e) i w, ih']

example : ∃ e : DElem, 1 ≤ e.num ∧ DSound e DSt.init := ⟨decoExample, by decide, dsound_init _⟩

/-- The size bound `2 * num_in_cache` is not kept either: when two input grids share an output grid the
second registration overwrites the `('output', …)` entry in place, the length becomes odd, the test
`len(cache) == 2 * num_in_cache` is stepped over and nothing is ever evicted again
(`num_in_cache = 2`: 7 entries after four forward requests). -/
theorem decorator_cache_exceeds_bound :
    let e : DElem := ⟨true, true, 2, fun a _ => if a ≤ 2 then 100 else 100 + a⟩
    let ops : List DOp := [⟨some 1, none, some 5⟩, ⟨some 2, none, some 5⟩, ⟨some 3, none, some 5⟩,
      ⟨some 4, none, some 5⟩]
    (ops.foldl (fun s op => (dstep e s op).1) DSt.init).cache.length = 7 := by
  decide

/-! ## Setters: what the instances are built from (driver ops `pnew` / `pset` / `preq`)

The version counter of the cache model stands for "the current parameter values".  `pstep` keeps the values themselves
(object identity, content, kind) next to it.  Two classes of setter histories get their own statements: the setter is
handed the object the element already holds (edited in place by the caller), and the setter changes the *kind* of the
value (constant <-> function of grid / wavelength / both). -/

theorem builtFrom_current {vals : List PVal} {ver : Nat} (h : vals.length = ver + 1) :
    builtFrom vals ver = vals.headD default := by
  cases vals with
  | nil => simp at h
  | cons a t =>
    have h0 : t.length - ver = 0 := by simp at h; omega
    simp [builtFrom, h0]

/-- The invariants of an element with a parameter -- the cache invariants, and one recorded value per parameter
version -- hold at construction and after every step. -/
theorem pstep_inv {e : Elem} (hT : Truthful e) (hmax : 1 ≤ e.maxN) {p : PSt} (hi : Inv e p.st)
    (hl : p.vals.length = p.st.ver + 1) (op : POp) :
    Inv e (pstep e p op).1.st ∧ (pstep e p op).1.vals.length = (pstep e p op).1.st.ver + 1 := by
  obtain ⟨hi', hver⟩ := step_req_inv hT hmax hi op.toOp
  cases op with
  | req i o w => exact ⟨hi', by simpa [pstep, POp.toOp] using hl.trans (by simp [POp.toOp] at hver; omega)⟩
  | clear => exact ⟨hi', by simpa [pstep, POp.toOp] using hl.trans (by simp [POp.toOp] at hver; omega)⟩
  | set v =>
    refine ⟨hi', ?_⟩
    simp only [POp.toOp] at hver
    simp only [pstep, POp.toOp, List.length_cons, hl]
    omega

example : ∃ (e : Elem) (p : PSt), Inv e p.st ∧ p.vals.length = p.st.ver + 1 :=
  ⟨⟨true, true, 11, fun _ _ g => some g, fun _ _ g => some g⟩, PSt.init ⟨0, 0, 0⟩, inv_init _ 0, rfl⟩

/-- **Setters are transparent in the values**: after any history of requests, `clear_cache()` calls and setters --
whatever objects the setters were handed (the same object again, edited in place, included) and however the kind of
the value changed --, every request is answered by an instance built from the value the element holds *now*, exactly
as a freshly constructed element given that value would. -/
theorem transparent_values {e : Elem} (hT : Truthful e) (hmax : 1 ≤ e.maxN) (ops : List POp) :
    ∀ p : PSt, Inv e p.st → p.vals.length = p.st.ver + 1 → prun e p ops = pspec e p.stored p.st.ver ops := by
  induction ops with
  | nil => intro p _ _; rfl
  | cons op ops ih =>
    intro p hi hl
    obtain ⟨hi2, hl2⟩ := pstep_inv hT hmax hi hl op
    have ih' := ih _ hi2 hl2
    obtain ⟨_, hver⟩ := step_req_inv hT hmax hi op.toOp
    cases op with
    | set v =>
      simp only [prun, pspec]
      rw [ih']
      simp [pstep, POp.toOp, step, PResp.ofResp, PSt.stored, St.setParam]
    | clear =>
      simp only [prun, pspec]
      rw [ih']
      simp [pstep, POp.toOp, step, PResp.ofResp, PSt.stored, St.clear]
    | req i o w =>
      simp only [prun, pspec]
      rw [ih']
      have h1 : (step e p.st (.req i o w)).2 = (step e (St.init p.st.ver) (.req i o w)).2 := by
        have := transparent_from hT hmax [.req i o w] p.st hi
        simpa [run, specRun] using this
      have hv : (step e p.st (.req i o w)).1.ver = p.st.ver := by simpa [POp.toOp] using hver
      have h2 : (pstep e p (.req i o w)).2 =
          PResp.ofResp (fun _ => p.stored) (step e (St.init p.st.ver) (.req i o w)).2 := by
        simp only [pstep, POp.toOp]
        rw [h1]
        rcases fresh_spec hT hmax p.st.ver i o w with ⟨_, herr⟩ | ⟨k, k2, _, _, hf⟩
        · rw [herr]; rfl
        · rw [hf]; simp only [PResp.ofResp]; rw [builtFrom_current hl]; rfl
      rw [h2]
      simp [pstep, POp.toOp, PSt.stored, hv]

/-- **Setter that changes the kind of the value** (or anything else about it): the next complete request is answered by an
instance built from the new value with its new kind, whatever kind the element was constructed with. -/
theorem setter_kind_change_takes_effect {e : Elem} (hT : Truthful e) (hmax : 1 ≤ e.maxN) {p : PSt} (hi : Inv e p.st)
    (hl : p.vals.length = p.st.ver + 1) (v : PVal) (i o : Option GridId) (w : Option WlKey) {k : Key}
    (hk : reqKey e i o w = some k) :
    ∃ k2, (pstep e (pstep e p (.set v)).1 (.req i o w)).2 = .built k2 v := by
  have h := transparent_values hT hmax [.set v, .req i o w] p hi hl
  rcases fresh_spec hT hmax (p.st.ver + 1) i o w with ⟨hnone, _⟩ | ⟨_, k2, _, _, hf⟩
  · rw [hnone] at hk; cases hk
  · refine ⟨k2, ?_⟩
    simp only [prun, pspec] at h
    rw [hf] at h
    simpa [PResp.ofResp] using (List.cons.inj (List.cons.inj h).2).1

/-- **Setter handed the object the element already holds** (the caller edited it in place): the next complete request is
answered by an instance built from the object's *new* content. -/
theorem setter_same_object_takes_effect {e : Elem} (hT : Truthful e) (hmax : 1 ≤ e.maxN) {p : PSt} (hi : Inv e p.st)
    (hl : p.vals.length = p.st.ver + 1) (c : Nat) (i o : Option GridId) (w : Option WlKey) {k : Key}
    (hk : reqKey e i o w = some k) :
    ∃ k2, (pstep e (pstep e p (.set { p.stored with content := c })).1 (.req i o w)).2
      = .built k2 { p.stored with content := c } :=
  setter_kind_change_takes_effect hT hmax hi hl _ i o w hk

/-- The mutant "the setter returns early when it is handed the object it already holds" (seeded regression C08-11) serves
the instance built from the old content. -/
theorem setter_skip_same_object_counterexample :
    let e : Elem := ⟨true, true, 11, fun _ _ g => some g, fun _ _ g => some g⟩
    let p1 := (pstep e (PSt.init ⟨7, 1, 0⟩) (.req (some 1) none (some 5))).1
    let p2 := Mutant.psetSkipSameObject p1 ⟨7, 2, 0⟩
    (step e p2.st (.req (some 1) none (some 5))).2 = .inst ⟨some 1, some 1, some 5⟩ 0 ∧
    builtFrom p1.vals 0 = ⟨7, 1, 0⟩ ∧ p2.stored = ⟨7, 2, 0⟩ ∧
    (pstep e (PSt.set' p1 ⟨7, 2, 0⟩) (.req (some 1) none (some 5))).2 = .built ⟨some 1, some 1, some 5⟩ ⟨7, 2, 0⟩ := by
  decide

/-- The mutant "the kind of the value is decided once, at construction" (seeded regression C09-10): after a setter that
replaces a constant by a function of the wavelength the instance is built treating the function as a constant. -/
theorem kind_at_construction_counterexample :
    let vals : List PVal := [⟨2, 9, 2⟩, ⟨1, 3, 0⟩]
    Mutant.builtFromKindAtInit vals 1 = ⟨2, 9, 0⟩ ∧ builtFrom vals 1 = ⟨2, 9, 2⟩ := by
  decide

end HcipyVerif.C05
