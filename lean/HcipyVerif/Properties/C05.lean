import HcipyVerif.Lemmas.Cache
import HcipyVerif.Lemmas.WavelengthKey

/-!
# C05 — optical elements are history-independent: caching is transparent

Model: `HcipyVerif/Model/Cache.lean` (the instance cache of `AgnosticOpticalElement` after the
repair `pending_fixes/D3-agnostic-cache-partial-keys.diff`; the unrepaired code is `Cache.Old`).

* `Sound`  — soundness invariant of the cache, `Acc` — accounting invariant (`Lemmas/Cache.lean`).
* `transparent` — for every element whose declared dependencies are truthful (all shipped ones,
  `truthful_of_declared_deps`), every history of forward / backward / both-grids requests,
  `clear_cache()` calls and setters, of any length and beyond any cache size, answers every request
  exactly as a freshly constructed element with the current parameters would.
* `old_lens_counterexample` — the unrepaired lookup is not transparent (lens propagator, defect D3).
* The Fourier objects owned by the instances: memo cells and scratch buffers are transparent.
-/

set_option linter.unusedSimpArgs false
set_option linter.unusedVariables false

namespace HcipyVerif.C05
open HcipyVerif.Cache HcipyVerif.WavelengthKey

/-- The two invariants together. -/
def Inv (e : Elem) (s : St) : Prop := Sound e s ∧ Acc e s

/-! ## Invariants hold initially and after `clear_cache()` / a setter -/

theorem inv_init (e : Elem) (ver : Nat) : Inv e (St.init ver) := by
  refine ⟨?_, ?_, ?_, ?_⟩
  · intro p hp; cases hp
  · rfl
  · exact Nat.zero_le _
  · intro p hp; cases hp

theorem inv_clear (e : Elem) (s : St) : Inv e s.clear := by
  refine ⟨?_, ?_, ?_, ?_⟩
  · intro p hp; cases hp
  · rfl
  · exact Nat.zero_le _
  · intro p hp; cases hp

theorem inv_setParam (e : Elem) (s : St) : Inv e s.setParam := by
  refine ⟨?_, ?_, ?_, ?_⟩
  · intro p hp; cases hp
  · rfl
  · exact Nat.zero_le _
  · intro p hp; cases hp

/-- Every shipped element is wavelength dependent (propagators, apodizers, Jones elements, fibre,
vector vortex) or not grid dependent (magnifier): its declared dependencies are truthful. -/
theorem truthful_of_declared_deps (e : Elem) (h : e.wlDep = true ∨ e.gridDep = false) :
    Truthful e := truthful_of_deps e h

example : ∃ e : Elem, Truthful e ∧ 1 ≤ e.maxN :=
  ⟨⟨true, true, 11, fun _ _ _ => some 1, fun _ _ _ => some 9⟩,
    truthful_of_deps _ (Or.inl rfl), by decide⟩

/-! ## One request -/

/-- **Soundness invariant.** Whatever eviction removes, a request hands out an instance made for
the key this request resolves to and for the current parameter version, and every cached
`(key, instance)` pair stays sound. -/
theorem request_sound {e : Elem} (hT : Truthful e) {s s' : St} {i o : Option GridId}
    {w : Option WlKey} {v : Inst} (hs : Sound e s) (h : getInstanceData e s i o w = .ok (s', v)) :
    fullKey e s.ver i o w = some v.key ∧ v.ver = s.ver ∧ s'.ver = s.ver ∧ Sound e s' := by
  obtain ⟨how, h⟩ := getInstanceData_ok_iff.mp h
  exact getInstanceDataHow_sound hT hs h

/-- **Accounting invariant.** `_num_in_cache` stays the number of distinct live instances and never
exceeds `max_in_cache` (≥ 1). -/
theorem request_accounting {e : Elem} (hmax : 1 ≤ e.maxN) {s s' : St} {i o : Option GridId}
    {w : Option WlKey} {v : Inst} (ha : Acc e s) (h : getInstanceData e s i o w = .ok (s', v)) :
    Acc e s' := by
  obtain ⟨how, h⟩ := getInstanceData_ok_iff.mp h
  exact getInstanceDataHow_acc hmax ha h

/-- `popitem` never meets an empty dict: with the accounting invariant a request can only fail with
the `ValueError` of `_get_cache_keys`, and does so exactly when the request names no grid (grid
dependent element) or no wavelength (wavelength dependent element). -/
theorem request_error_iff {e : Elem} (hmax : 1 ≤ e.maxN) {s : St} (ha : Acc e s)
    (i o : Option GridId) (w : Option WlKey) :
    (reqKey e i o w = none ∧ getInstanceData e s i o w = .error .value) ∨
    (∃ k s' v, reqKey e i o w = some k ∧ getInstanceData e s i o w = .ok (s', v)) := by
  rcases getInstanceDataHow_total hmax ha i o w with ⟨h1, h2⟩ | ⟨⟨s', v, how⟩, h⟩
  · left
    refine ⟨h1, ?_⟩
    unfold getInstanceData; rw [h2]
  · right
    obtain ⟨k1, _, hk1, _⟩ := getInstanceDataHow_cases h
    exact ⟨k1, s', v, hk1, getInstanceData_ok_iff.mpr ⟨how, h⟩⟩

theorem step_req_inv {e : Elem} (hT : Truthful e) (hmax : 1 ≤ e.maxN) {s : St} (hi : Inv e s)
    (op : Op) : Inv e (step e s op).1 ∧
      (step e s op).1.ver = (match op with | .set => s.ver + 1 | _ => s.ver) := by
  cases op with
  | clear => exact ⟨inv_clear e s, rfl⟩
  | set => exact ⟨inv_setParam e s, rfl⟩
  | req i o w =>
    cases h : getInstanceData e s i o w with
    | error err => rw [step_req_err h]; exact ⟨hi, rfl⟩
    | ok r =>
      obtain ⟨s', v⟩ := r
      obtain ⟨_, _, hv, hs'⟩ := request_sound hT hi.1 h
      rw [step_req_ok h]
      exact ⟨⟨hs', request_accounting hmax hi.2 h⟩, hv⟩

/-- What a freshly constructed element answers: a `ValueError` exactly when the request is
incomplete, otherwise the instance for the resolved key at the current parameters. -/
theorem fresh_spec {e : Elem} (hT : Truthful e) (hmax : 1 ≤ e.maxN) (ver : Nat)
    (i o : Option GridId) (w : Option WlKey) :
    (reqKey e i o w = none ∧ (step e (St.init ver) (.req i o w)).2 = .error .value) ∨
    (∃ k k2, reqKey e i o w = some k ∧ fullKey e ver i o w = some k2 ∧
      (step e (St.init ver) (.req i o w)).2 = .inst k2 ver) := by
  rcases request_error_iff hmax (inv_init e ver).2 i o w with ⟨h1, h2⟩ | ⟨k, s', v, hk, h⟩
  · left
    refine ⟨h1, ?_⟩
    rw [step_req_err h2]
  · right
    obtain ⟨hfk, hv, _, _⟩ := request_sound hT (inv_init e ver).1 h
    refine ⟨k, v.key, hk, hfk, ?_⟩
    rw [step_req_ok h]
    show Resp.inst v.key v.ver = Resp.inst v.key ver
    rw [hv]; rfl

/-- **Transparency of one request** in any state satisfying the invariants: the shared element
answers exactly as a freshly constructed element with the same parameters. -/
theorem request_transparent {e : Elem} (hT : Truthful e) (hmax : 1 ≤ e.maxN) {s : St}
    (hi : Inv e s) (i o : Option GridId) (w : Option WlKey) :
    (step e s (.req i o w)).2 = (step e (St.init s.ver) (.req i o w)).2 := by
  rcases fresh_spec hT hmax s.ver i o w with ⟨hnone, hf⟩ | ⟨k, k2, hk, hk2, hf⟩
  · rw [hf]
    rcases request_error_iff hmax hi.2 i o w with ⟨_, h2⟩ | ⟨k, _, _, hk, _⟩
    · rw [step_req_err h2]
    · rw [hnone] at hk; cases hk
  · rw [hf]
    rcases request_error_iff hmax hi.2 i o w with ⟨h1, _⟩ | ⟨_, s', v, _, h⟩
    · rw [h1] at hk; cases hk
    · obtain ⟨hfk, hv, _, _⟩ := request_sound hT hi.1 h
      rw [step_req_ok h]
      show Resp.inst v.key v.ver = Resp.inst k2 s.ver
      rw [hk2] at hfk
      cases hfk
      rw [hv]

/-! ## Whole histories -/

/-- **Transparency (full strength).** For every truthful element with `max_in_cache ≥ 1`, from
every state satisfying the invariants, every finite history — forward, backward and both-grid
requests in any order and repetition, more distinct combinations than the cache holds,
`clear_cache()` calls and setters interleaved — is answered request by request exactly as by
freshly constructed elements carrying the current parameters. -/
theorem transparent_from {e : Elem} (hT : Truthful e) (hmax : 1 ≤ e.maxN) (ops : List Op) :
    ∀ s : St, Inv e s → run e s ops = specRun e s.ver ops := by
  induction ops with
  | nil => intro s _; rfl
  | cons op ops ih =>
    intro s hi
    obtain ⟨hi', hver⟩ := step_req_inv hT hmax hi op
    cases op with
    | req i o w =>
      simp only [run, specRun]
      rw [request_transparent hT hmax hi, ih _ hi', hver]
    | clear =>
      simp only [run, specRun]
      rw [ih _ hi', hver]
      rfl
    | set =>
      simp only [run, specRun]
      rw [ih _ hi', hver]
      rfl

/-- Transparency for an element used from its construction on. -/
theorem transparent {e : Elem} (hT : Truthful e) (hmax : 1 ≤ e.maxN) (ver : Nat) (ops : List Op) :
    run e (St.init ver) ops = specRun e ver ops :=
  transparent_from hT hmax ops _ (inv_init e ver)

/-- The invariants hold in every reachable state. -/
theorem inv_reachable {e : Elem} (hT : Truthful e) (hmax : 1 ≤ e.maxN) (ops : List Op) :
    ∀ s : St, Inv e s → Inv e (ops.foldl (fun s op => (step e s op).1) s) := by
  induction ops with
  | nil => intro s hi; exact hi
  | cons op ops ih =>
    intro s hi
    exact ih _ (step_req_inv hT hmax hi op).1

/-- Accounting in every reachable state: `_num_in_cache` is the number of live instances, at most
`max_in_cache`. -/
theorem accounting_reachable {e : Elem} (hT : Truthful e) (hmax : 1 ≤ e.maxN) (ver : Nat)
    (ops : List Op) :
    let s := ops.foldl (fun s op => (step e s op).1) (St.init ver)
    s.num = (s.cache.map (·.2.id)).toFinset.card ∧ s.num ≤ e.maxN := by
  have := (inv_reachable hT hmax ops _ (inv_init e ver)).2
  exact ⟨this.1, this.2.1⟩

/-- No history makes `popitem` fail: a `KeyError` is never answered. -/
theorem no_key_error {e : Elem} (hT : Truthful e) (hmax : 1 ≤ e.maxN) (ver : Nat) (ops : List Op) :
    Resp.error .key ∉ run e (St.init ver) ops := by
  rw [transparent hT hmax]
  generalize ver = v
  induction ops generalizing v with
  | nil => simp [specRun]
  | cons op ops ih =>
    cases op with
    | req i o w =>
      simp only [specRun, List.mem_cons, not_or]
      refine ⟨?_, ih v⟩
      rcases fresh_spec hT hmax v i o w with ⟨_, hf⟩ | ⟨_, _, _, _, hf⟩ <;> rw [hf] <;> simp
    | clear =>
      simp only [specRun, List.mem_cons, not_or]
      exact ⟨by simp, ih v⟩
    | set =>
      simp only [specRun, List.mem_cons, not_or]
      exact ⟨by simp, ih (v + 1)⟩

/-! ## Eviction order -/

theorem fifo_init (ver : Nat) : Fifo (St.init ver) := FirstSorted.nil

/-- Every step keeps the dict ordered oldest instance first. -/
theorem fifo_step {e : Elem} (hT : Truthful e) (hmax : 1 ≤ e.maxN) {s : St} (hi : Inv e s)
    (hf : Fifo s) (op : Op) : Fifo (step e s op).1 := by
  cases op with
  | clear => exact FirstSorted.nil
  | set => exact FirstSorted.nil
  | req i o w =>
    cases h : getInstanceData e s i o w with
    | error err => rw [step_req_err h]; exact hf
    | ok r =>
      obtain ⟨s', v⟩ := r
      rw [step_req_ok h]
      obtain ⟨how, h'⟩ := getInstanceData_ok_iff.mp h
      exact getInstanceDataHow_fifo hi.2 hf h'

theorem fifo_reachable {e : Elem} (hT : Truthful e) (hmax : 1 ≤ e.maxN) (ops : List Op) :
    ∀ s : St, Inv e s → Fifo s → Fifo (ops.foldl (fun s op => (step e s op).1) s) := by
  induction ops with
  | nil => intro s _ hf; exact hf
  | cons op ops ih =>
    intro s hi hf
    exact ih _ (step_req_inv hT hmax hi op).1 (fifo_step hT hmax hi hf op)

/-- **The oldest instance is the one evicted**, with all of its keys and nothing else: when the
cache is full, eviction removes exactly the entries of the live instance with the least identity
(creation counter). -/
theorem evicts_oldest {e : Elem} {s s' : St} (hf : Fifo s) (hfull : s.num = e.maxN)
    (h : evict e s = .ok s') :
    ∃ k v rest, s.cache = (k, v) :: rest ∧ (∀ p ∈ s.cache, v.id ≤ p.2.id) ∧
      s'.cache = s.cache.filter (fun p => p.2.id != v.id) ∧ s'.num = s.num - 1 := by
  unfold evict at h
  rw [if_pos hfull] at h
  cases hc : s.cache with
  | nil => rw [hc] at h; cases h
  | cons p rest =>
    obtain ⟨k, v⟩ := p
    rw [hc] at h
    cases h
    refine ⟨k, v, rest, rfl, ?_, ?_, rfl⟩
    · intro p hp
      have hmin := FirstSorted.head_le hf v.id (rest.map (·.2.id)) (by rw [hc]; rfl)
      apply hmin
      rw [hc]
      exact List.mem_map.mpr ⟨p, hp, rfl⟩
    · show rest.filter _ = ((k, v) :: rest).filter _
      simp [List.filter_cons]

/-- **A setter takes effect on the very next propagation**: after any history, a setter followed
by a complete request hands out an instance built with the new parameter version. -/
theorem setter_takes_effect {e : Elem} (hT : Truthful e) (hmax : 1 ≤ e.maxN) {s : St}
    (hi : Inv e s) (i o : Option GridId) (w : Option WlKey) {k : Key}
    (hk : reqKey e i o w = some k) :
    ∃ k2, fullKey e (s.ver + 1) i o w = some k2 ∧
      run e s [.set, .req i o w] = [.done, .inst k2 (s.ver + 1)] := by
  rw [transparent_from hT hmax _ s hi]
  rcases fresh_spec hT hmax (s.ver + 1) i o w with ⟨hnone, _⟩ | ⟨_, k2, _, hk2, hf⟩
  · rw [hnone] at hk; cases hk
  · exact ⟨k2, hk2, by simp only [specRun]; rw [hf]⟩

/-- The mutant "setter without `clear_cache()`" is not transparent: the request after the setter
is answered with the instance built for the old parameters. -/
theorem setter_without_clear_counterexample :
    let e : Elem := ⟨true, true, 11, fun _ _ g => some g, fun _ _ g => some g⟩
    let s1 := (step e (St.init 0) (.req (some 1) none (some 5))).1
    (step e s1.setParamNoClear (.req (some 1) none (some 5))).2 = .inst ⟨some 1, some 1, some 5⟩ 0 ∧
    (step e (St.init 1) (.req (some 1) none (some 5))).2 = .inst ⟨some 1, some 1, some 5⟩ 1 := by
  decide

/-! ## The unrepaired code (defect D3) -/

/-- On the unrepaired lookup the lens propagator (fixed pupil grid 1, focal grid 9) used forward on
pupil grid 1 and then on pupil grid 2 hands out, for the second call, the instance made for
grid 1 (through the partial key `(None, hash(focal), wl)`), whereas a fresh element builds the one
for grid 2. -/
theorem old_lens_counterexample :
    Old.hist2 = some (⟨some 1, some 9, some 5, 0⟩, ⟨some 2, some 9, some 5, 0⟩) := by decide

/-- The unrepaired two-stage lookup was transparent only in part: for *forward* requests on
elements that are grid- and wavelength-dependent and *consistent* (`get_input_grid` and
`get_output_grid` total and mutually inverse — every shipped element except the lens propagator),
starting from a sound cache.  Gap to the property: backward and both-grid requests, and
inconsistent elements (for which `old_lens_counterexample` shows it false). -/
theorem old_forward_transparent_partial (e : Old.Elem) (hc : Old.Consistent e) (s s' : Old.St)
    (hs : Old.Sound e s) (a : GridId) (k : WlKey) (v : Old.Inst)
    (h : Old.getInstanceData e s (some a) none (some k) = some (s', v)) :
    v = Old.fresh e s.ver (some a) none (some k) ∧ Old.Sound e s' :=
  Old.forward_transparent e hc s s' hs a k v h

example : Old.Consistent ⟨true, true, 11, fun g => some g, fun g => some g⟩ :=
  ⟨rfl, rfl, fun a b h => by simp at h; simp [h], fun a b h => by simp at h; simp [h],
    fun a => ⟨a, rfl⟩, fun b => ⟨b, rfl⟩⟩

/-- The repaired lookup answers the same history correctly. -/
theorem lens_history_repaired :
    let e : Elem := ⟨true, true, 11, fun _ _ _ => some 1, fun _ _ _ => some 9⟩
    run e (St.init 0) [.req (some 1) none (some 5), .req (some 2) none (some 5)]
      = [.inst ⟨some 1, some 9, some 5⟩ 0, .inst ⟨some 2, some 9, some 5⟩ 0] := by decide

/-! ## Grids versus the ids under which the cache sees them

The model identifies a grid with its id (`hash(grid)` in the code).  That identification is an assumption of the
tie, made explicit here; it is discharged by C10 (equal grids hash equal, the hash is a function of the *current*
coordinate values, different grids do not collide), not by this file. -/

/-- **Tie assumption `HashFaithful`**: the id is an injective function of the grid (its current coordinates). -/
def HashFaithful {G : Type} (hash : G → GridId) : Prop := ∀ g1 g2 : G, hash g1 = hash g2 → g1 = g2

example : HashFaithful (fun n : Nat => n + 1) := fun a b h => by simpa using h

/-- The instance key of a forward request names the grid of the request. -/
theorem forward_key_names_grid {e : Elem} (hg : e.gridDep = true) {ver : Nat} {a : GridId}
    {w : Option WlKey} {k : Key} (h : fullKey e ver (some a) none w = some k) : k.i = some a := by
  unfold fullKey reqKey at h
  simp only [hg, resolve, if_true, Option.isNone_some, Bool.false_and, Bool.false_eq_true, if_false] at h
  split at h
  · rename_i a' b' k' h1 h2
    simp at h1
    cases h
    exact h1.1.symm
  · cases h

/-- **Different grids never share an instance** (under `HashFaithful`): if two forward requests, in any two
reachable states of a grid-dependent element, are handed instances made for the same key, they were made on the
same grid. -/
theorem distinct_grids_distinct_instances {G : Type} (hash : G → GridId) (hf : HashFaithful hash)
    {e : Elem} (hT : Truthful e) (hmax : 1 ≤ e.maxN) (hg : e.gridDep = true) {s1 s2 : St}
    (h1 : Inv e s1) (h2 : Inv e s2) (g1 g2 : G) (w : Option WlKey) (k : Key) (v1 v2 : Nat)
    (r1 : (step e s1 (.req (some (hash g1)) none w)).2 = .inst k v1)
    (r2 : (step e s2 (.req (some (hash g2)) none w)).2 = .inst k v2) : g1 = g2 := by
  have key_of : ∀ (s : St), Inv e s → ∀ (g : G) (v : Nat),
      (step e s (.req (some (hash g)) none w)).2 = .inst k v → k.i = some (hash g) := by
    intro s hi g v r
    rw [request_transparent hT hmax hi] at r
    rcases fresh_spec hT hmax s.ver (some (hash g)) none w with ⟨_, hf'⟩ | ⟨_, k2, _, hk2, hf'⟩
    · rw [hf'] at r; cases r
    · rw [hf'] at r
      cases r
      exact forward_key_names_grid hg hk2
  have e1 := key_of s1 h1 g1 v1 r1
  have e2 := key_of s2 h2 g2 v2 r2
  rw [e1] at e2
  exact hf g1 g2 (by simpa using e2)

/-- Without `HashFaithful` the cache cannot tell colliding grids apart: every history is answered identically
for two grids with the same id (this is what a lossy or stale `Grid.__hash__` does). -/
theorem colliding_grids_share_instance {G : Type} (hash : G → GridId) (e : Elem) (s : St) (g1 g2 : G)
    (w : Option WlKey) (h : hash g1 = hash g2) :
    step e s (.req (some (hash g1)) none w) = step e s (.req (some (hash g2)) none w) := by
  rw [h]

/-! ## The wavelength key (the property's side condition "wavelengths at least 1e-6 apart")

`wavelength_key = int(np.round(np.log(wavelength) / np.log(1 + 1e-9)))`, modelled over ℝ as
`wlKey r b lam = r (log lam / log b)` for any round-to-nearest `r` (ties broken either way) and any
base `b ∈ [1 + 1e-9/2, 1 + 2e-9]` — in particular the exact `1 + 1e-9` and the double the code uses. -/

/-- The double nearest to `1 + 1e-9` (what `1 + 1e-9` evaluates to in the code), `1 + 4503600·2⁻⁵²`
(the harness checks this identity on the running interpreter), is an admissible base. -/
theorem base_double_ok : BaseOk (1 + 4503600 / 2 ^ 52) := by
  constructor <;> norm_num

example : Nearest (round : ℝ → ℤ) := nearest_round
example : BaseOk (1 + 1 / 10 ^ 9) := baseOk_exact

/-- **Wavelengths at least a relative 1e-6 apart never share an instance**: their keys differ (by at
least 498), whatever the tie-breaking of the rounding and for the exact as well as the double base. -/
theorem wavelength_key_separates {r : ℝ → ℤ} (hr : Nearest r) {b : ℝ} (hb : BaseOk b)
    {l1 l2 : ℝ} (h1 : 0 < l1) (h : l1 * (1 + 1 / 10 ^ 6) ≤ l2) :
    wlKey r b l1 ≠ wlKey r b l2 ∧ wlKey r b l1 + 498 ≤ wlKey r b l2 := by
  have := wavelength_key_separates_base hr hb h1 h
  exact ⟨by omega, this⟩

/-- **Coalescing is local**: wavelengths within a relative 1e-10 get the same or neighbouring keys. -/
theorem wavelength_key_stable {r : ℝ → ℤ} (hr : Nearest r) {b : ℝ} (hb : BaseOk b)
    {l1 l2 : ℝ} (h1 : 0 < l1) (hle : l1 ≤ l2) (h : l2 ≤ l1 * (1 + 1 / 10 ^ 10)) :
    |wlKey r b l2 - wlKey r b l1| ≤ 1 :=
  wavelength_key_stable_base hr hb h1 hle h

/-- **What the cache coalesces**: two wavelengths that share a key (hence an instance) are within one
factor `base` (a relative 1e-9) of each other, in both directions. -/
theorem wavelength_key_shared_close {r : ℝ → ℤ} (hr : Nearest r) {b : ℝ} (hb : BaseOk b)
    {l1 l2 : ℝ} (h1 : 0 < l1) (h2 : 0 < l2) (h : wlKey r b l1 = wlKey r b l2) :
    l2 ≤ l1 * b ∧ l1 ≤ l2 * b :=
  ⟨wavelength_key_shared_close_base hr hb h1 h2 h, wavelength_key_shared_close_base hr hb h2 h1 h.symm⟩

/-- The instance as in the code up to tie-breaking: Mathlib's `round`, exact base. -/
theorem wavelength_key_separates_round {l1 l2 : ℝ} (h1 : 0 < l1) (h : l1 * (1 + 1 / 10 ^ 6) ≤ l2) :
    wlKey round (1 + 1 / 10 ^ 9) l1 ≠ wlKey round (1 + 1 / 10 ^ 9) l2 :=
  (wavelength_key_separates nearest_round baseOk_exact h1 h).1

/-! ## Scratch state of the Fourier objects -/

/-- A memo cell is well formed when its value is what `compute` gives for its tag. -/
def MemoOk {τ α} (compute : τ → α) (m : Memo τ α) : Prop :=
  ∀ t v, m.slot = some (t, v) → v = compute t

/-- **Memo cells are transparent** (`MatrixFourierTransform` matrices per dtype, `FourierFilter`
transfer function per dtype and internal array per (dtype, tensor shape)): whatever was asked
before, `get` returns what a fresh computation returns, and the cell stays well formed. -/
theorem memo_get_transparent {τ α} [DecidableEq τ] (compute : τ → α) (m : Memo τ α)
    (hm : MemoOk compute m) (t : τ) :
    (m.get compute t).2 = compute t ∧ MemoOk compute (m.get compute t).1 := by
  unfold Memo.get
  cases hs : m.slot with
  | none =>
    refine ⟨rfl, ?_⟩
    intro t' v' h
    simp at h
    obtain ⟨rfl, rfl⟩ := h
    rfl
  | some p =>
    obtain ⟨t', v⟩ := p
    by_cases ht : t' = t
    · simp only [if_pos ht]
      exact ⟨hm t v (ht ▸ hs), hm⟩
    · simp only [if_neg ht]
      refine ⟨trivial, ?_⟩
      intro t'' v'' h
      simp at h
      obtain ⟨rfl, rfl⟩ := h
      rfl

example : MemoOk (fun (b : Bool) => if b then 64 else 128) ⟨none⟩ := by
  intro t v h; cases h

/-- Histories of memo-cell reads (alternating dtypes / tensor shapes, with `_remove_matrices()` in
between or not): every read returns the fresh computation. -/
theorem memo_history_transparent {τ α} [DecidableEq τ] (compute : τ → α) (ts : List (τ × Bool)) :
    ∀ m : Memo τ α, MemoOk compute m →
      (ts.foldl (fun (acc : Memo τ α × List α) (tb : τ × Bool) =>
          let r := acc.1.get compute tb.1
          ((if tb.2 then r.1.drop else r.1), acc.2 ++ [r.2])) (m, [])).2
        = ts.map (fun tb => compute tb.1) := by
  suffices h : ∀ (out : List α) (m : Memo τ α), MemoOk compute m →
      (ts.foldl (fun (acc : Memo τ α × List α) (tb : τ × Bool) =>
          let r := acc.1.get compute tb.1
          ((if tb.2 then r.1.drop else r.1), acc.2 ++ [r.2])) (m, out)).2
        = out ++ ts.map (fun tb => compute tb.1) by
    intro m hm; simpa using h [] m hm
  induction ts with
  | nil => intro out m _; simp
  | cons tb ts ih =>
    intro out m hm
    obtain ⟨hv, hok⟩ := memo_get_transparent compute m hm tb.1
    simp only [List.foldl_cons, List.map_cons]
    have hok' : MemoOk compute (if tb.2 then (m.get compute tb.1).1.drop else (m.get compute tb.1).1) := by
      split
      · intro t v h; simp [Memo.drop] at h
      · exact hok
    rw [ih _ _ hok', hv]
    simp

/-- The mutant "matrices not rebuilt on dtype change" is not transparent. -/
theorem memo_stale_counterexample :
    let compute : Bool → Nat := fun b => if b then 64 else 128
    let m1 := (Memo.getStale compute ⟨none⟩ true).1
    (Memo.getStale compute m1 false).2 = 64 ∧ compute false = 128 := by decide

/-- **Scratch buffers are transparent**: the zero-padded internal array that is transformed does
not depend on what the buffer held before (every read is preceded by a full write). -/
theorem padInto_independent {K} [OfNat K 0] (buf buf' : List K) (h : buf.length = buf'.length)
    (start : Nat) (x : List K) : padInto buf start x = padInto buf' start x := by
  unfold padInto
  rw [h]

/-- The mutant "`internal_array` not re-zeroed" depends on the previous call. -/
theorem padInto_stale_counterexample :
    padIntoStale [7, 7, 7, 7] 1 [1, 2] = [7, 1, 2, 7] ∧ padInto [7, 7, 7, 7] 1 [1, 2] = ([0, 1, 2, 0] : List Int) := by
  decide

end HcipyVerif.C05
