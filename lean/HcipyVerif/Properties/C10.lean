import HcipyVerif.Lemmas.GridMut
import HcipyVerif.Lemmas.GridHeap
import HcipyVerif.Lemmas.GridOld
import HcipyVerif.Lemmas.GridLayout
import HcipyVerif.Lemmas.GridShare

/-!
# C10 — Grid identity: equality is an equivalence consistent with hashing

All theorems are about `HcipyVerif.Grid.Grid.eq` / `Coords.eq` (the model of `Grid.__eq__` /
`Coords.__eq__`: coordinate-system test, type test, then the `np.array_equal` comparisons, per
axis for separated coordinates) and `Grid.hashInput` (the byte string `Grid.__hash__` feeds to
xxhash: system name, then the float64 / int64 values), for grids of **every** dimension, size and
value.  The model is tied to the code by the C10 correspondence (harness/props/c10.py): `==`
matrices are compared exactly and `hash(grid)` must equal xxh64 of the model's hash input.

Hypothesis used: `Coords.WF` — at least one dimension, and the columns of unstructured coordinates
all have one length (otherwise the object is not a grid; `np.array_equal` on a ragged list is
`False`).  The definitions model the code after the repairs D2, D24, D25, D26; the old behaviour
is `sepEqOld` / `regHashInputOld`, with proved counterexamples at the end (section `Old`, documentation only).

Floating point: the exact-rational statements (`shift_changes`, …) describe the code whenever the float
arithmetic is exact; `shiftF_keeps_iff` / `shiftF_absorbed` state what happens in general (`Coords.shiftR`
with a rounding function; binary64 = `roundF64`, tied bit for bit through the driver ops `shiftf`/`shiftedf`).
NaN / ±inf remain outside the model (with NaN the real `==` is not reflexive).
-/
set_option linter.unusedSimpArgs false
set_option linter.unusedVariables false
set_option linter.dupNamespace false

namespace HcipyVerif.Grid

/-! ## Equivalence -/

/-- **Reflexivity**: every grid equals itself — in particular separated grids whose axes have
different lengths. -/
theorem eq_refl (g : Grid) (h : g.coords.WF) : g.eq g = true :=
  (Grid.eq_iff h).mpr ⟨rfl, rfl⟩

/-- **Reflexivity holds exactly for the grids without NaN**: with IEEE comparison (`np.array_equal`
without `equal_nan`) a grid one of whose coordinates is NaN is *not* equal to itself (nor to its copy),
although it can be hashed and its copy has the same hash.  This is the behaviour of the code (tied:
driver op `eqnan` against `==` on real grids with NaN coordinates); `eq_refl` and all statements below
are about grids with finite coordinates. -/
theorem eq_refl_iff_no_nan (g : Grid) (h : g.coords.WF) (nan : Bool) : g.eqNaN g nan nan = true ↔ nan = false := by
  simp [Grid.eqNaN, (Grid.eq_iff h).mpr ⟨rfl, rfl⟩]

/-- … NaN on either side makes `==` false; without NaN it is `Grid.eq`; symmetric in any case. -/
theorem eqNaN_spec (a b : Grid) (na nb : Bool) :
    (na = true ∨ nb = true → a.eqNaN b na nb = false) ∧ a.eqNaN b false false = a.eq b ∧
      a.eqNaN b na nb = b.eqNaN a nb na := by
  refine ⟨?_, by simp [Grid.eqNaN], ?_⟩
  · rintro (h | h) <;> simp [Grid.eqNaN, h]
  · have hs : a.eq b = b.eq a := by
      rw [Bool.eq_iff_iff]
      constructor
      · intro h
        obtain ⟨h1, h2⟩ := Grid.eq_true_imp h
        simpa [Grid.eq, h1, h2] using h
      · intro h
        obtain ⟨h1, h2⟩ := Grid.eq_true_imp h
        simpa [Grid.eq, h1, h2] using h
    simp only [Grid.eqNaN, hs]
    cases na <;> cases nb <;> simp

/-- **Symmetry** (no hypothesis). -/
theorem eq_symm (a b : Grid) : a.eq b = b.eq a := by
  rw [Bool.eq_iff_iff]
  constructor
  · intro h
    obtain ⟨h1, h2⟩ := Grid.eq_true_imp h
    have : a = { b with weights := a.weights } := by cases a; cases b; simp_all
    simpa [Grid.eq, h1, h2] using h
  · intro h
    obtain ⟨h1, h2⟩ := Grid.eq_true_imp h
    simpa [Grid.eq, h1, h2] using h

/-- **Transitivity** (no hypothesis). -/
theorem eq_trans (a b c : Grid) (hab : a.eq b = true) (hbc : b.eq c = true) : a.eq c = true := by
  obtain ⟨h1, h2⟩ := Grid.eq_true_imp hab
  simpa [Grid.eq, h1, h2] using hbc

/-- `==` decides exactly "same coordinate system and same coordinate data" (weights are ignored). -/
theorem eq_iff_same (a b : Grid) (h : a.coords.WF) :
    a.eq b = true ↔ a.system = b.system ∧ a.coords = b.coords := Grid.eq_iff h

/-! ## Consistency with hashing -/

/-- **Equal grids feed the same bytes to the hash**, hence have the same hash. -/
theorem eq_imp_hashInput_eq (a b : Grid) (h : a.eq b = true) : a.hashInput = b.hashInput := by
  obtain ⟨h1, h2⟩ := Grid.eq_true_imp h
  simp [Grid.hashInput, h1, h2]

/-- The converse is not claimed (and is false): the hash input carries no axis lengths. -/
theorem hashInput_collision :
    ∃ a b : Grid, a.coords.WF ∧ b.coords.WF ∧ a.hashInput = b.hashInput ∧ a.eq b = false :=
  ⟨⟨.cartesian, .separated [[1, 2], [3]], .none⟩, ⟨.cartesian, .separated [[1], [2, 3]], .none⟩,
    by decide, by decide, by decide, by decide⟩

/-! ## Copies and round trips -/

/-- **Identity does not depend on the weights**: replacing the stored weights by anything (in
particular caching the automatic weights, which reading `grid.weights` does behind the user's back)
changes neither `==` against any grid nor the bytes fed to the hash.  (This replaces the former
`copy_eq`, which only restated the value semantics of the model's store; that a `copy()`, a pickle or
a dictionary round trip *is* the same value is carried by the correspondence — the `rt copy|dict|pickle`
operations are compared through `show`, the full `==` matrix and the exact hash — and by
`dict_roundtrip` below.) -/
theorem eq_weights_irrelevant (g h : Grid) (w : Weights) :
    ({ g with weights := w } : Grid).eq h = g.eq h ∧ h.eq { g with weights := w } = h.eq g ∧
    ({ g with weights := w } : Grid).hashInput = g.hashInput := ⟨rfl, rfl, rfl⟩

/-- **Materialising the weights** (`grid.weights` read for the first time, model `Grid.materialize`,
driver op `mat`) yields a grid equal to the one before, with the same hash input. -/
theorem materialize_eq (g g' : Grid) (hw : g.coords.WF) (h : g.materialize = some g') :
    g'.eq g = true ∧ g.eq g' = true ∧ g'.hashInput = g.hashInput := by
  simp only [Grid.materialize, Option.map_eq_some_iff] at h
  obtain ⟨w, _, rfl⟩ := h
  exact ⟨eq_refl g hw, eq_refl g hw, rfl⟩

/-- … and so does scaling by one / shifting by zero, whatever happened to the weights on the way:
`scale` materialises the weights, the identity stays. -/
theorem scale_one_eq (g g' : Grid) (hw : g.coords.WF) (hc : g.system = .cartesian)
    (h : g.scale (.scalar 1) = some g') : g'.eq g = true ∧ g'.hashInput = g.hashInput := by
  simp only [Grid.scale, hc, Option.map_eq_some_iff] at h
  obtain ⟨w, _, rfl⟩ := h
  have hc1 : g.coords.scale (List.replicate g.coords.ndim 1) = g.coords := Coords.scale_one g.coords
  simp only [Grid.eq, Grid.hashInput, ScaleArg.factors, hc1, hc, decide_true, Bool.true_and]
  exact ⟨Coords.eq_self hw, trivial⟩

example : ∃ g g' : Grid, g.coords.WF ∧ g.materialize = some g' ∧ g'.weights ≠ g.weights :=
  ⟨⟨.cartesian, .regular [⟨1 / 2, 3, 0⟩], .none⟩, _, by decide, rfl, by decide⟩

/-- **`Grid.from_dict(g.to_dict())` is `g`** (coordinates, system and stored weights). -/
theorem dict_roundtrip (g : Grid) : Grid.fromDict g.toDict = some g := by
  obtain ⟨s, c, w⟩ := g
  cases s <;> cases c <;> simp [Grid.toDict, Grid.fromDict, sysName, zip3_maps]

theorem dict_roundtrip_eq (g : Grid) (h : g.coords.WF) :
    ∃ g', Grid.fromDict g.toDict = some g' ∧ g'.eq g = true ∧ g.eq g' = true ∧ g'.hashInput = g.hashInput :=
  ⟨g, dict_roundtrip g, eq_refl g h, eq_refl g h, rfl⟩

/-- An independently constructed grid with identical coordinates and system is equal, whatever
its weights. -/
theorem rebuilt_eq (s : System) (c : Coords) (w w' : Weights) (h : c.WF) :
    (Grid.mk s c w).eq (Grid.mk s c w') = true := (Grid.eq_iff h).mpr ⟨rfl, rfl⟩

/-! ## Grids that differ are unequal -/

theorem ne_of_system_ne (a b : Grid) (h : a.system ≠ b.system) : a.eq b = false := by
  rw [Bool.eq_false_iff]; intro e; exact h (Grid.eq_true_imp e).1

theorem ne_of_coords_ne (a b : Grid) (h : a.coords ≠ b.coords) : a.eq b = false := by
  rw [Bool.eq_false_iff]; intro e; exact h (Grid.eq_true_imp e).2

/-- different coordinate kind (regular / separated / unstructured), even with the same points -/
theorem ne_of_kind_ne (a b : Grid) (h : a.coords.kind ≠ b.coords.kind) : a.eq b = false :=
  ne_of_coords_ne a b (fun e => h (by rw [e]))

theorem ne_of_ndim_ne (a b : Grid) (h : a.coords.ndim ≠ b.coords.ndim) : a.eq b = false :=
  ne_of_coords_ne a b (fun e => h (by rw [e]))

theorem ne_of_size_ne (a b : Grid) (h : a.coords.size ≠ b.coords.size) : a.eq b = false :=
  ne_of_coords_ne a b (fun e => h (by rw [e]))

/-- any differing coordinate value of any point -/
theorem ne_of_points_ne (a b : Grid) (h : a.coords.points ≠ b.coords.points) : a.eq b = false :=
  ne_of_coords_ne a b (fun e => h (by rw [e]))

/-- a differing spacing, count or origin of a regular axis (even where the points coincide) -/
theorem ne_of_regular_axis_ne (s : System) (a b : List RegAxis) (w w' : Weights) (h : a ≠ b) :
    (Grid.mk s (.regular a) w).eq (Grid.mk s (.regular b) w') = false :=
  ne_of_coords_ne _ _ (by simpa using h)

/-! ## In-place mutation changes the identity accordingly -/

/-- **Shifting** by a vector with a non-zero component along an axis that carries at least one
coordinate makes the grid unequal to its former self (and to every earlier copy, by `eq_trans`). -/
theorem shift_changes (g : Grid) (b : List Rat) (i : Nat) (v : Rat) (hv : g.coords.axisHas i v)
    (hb : ∃ bi, b[i]? = some bi ∧ bi ≠ 0) : (g.shift b).eq g = false ∧ g.eq (g.shift b) = false := by
  have h := Coords.shift_ne g.coords b i v hv hb
  exact ⟨ne_of_coords_ne _ _ h, ne_of_coords_ne _ _ (Ne.symm h)⟩

/-- **Scaling** a Cartesian grid by factors with `f_i ≠ 1` along an axis that carries a non-zero
coordinate value changes its identity; the scalar form is the case `factors = replicate ndim s`. -/
theorem scale_changes (g g' : Grid) (s : ScaleArg) (hc : g.system = .cartesian) (h : g.scale s = some g')
    (i : Nat) (v : Rat) (hv : g.coords.axisHas i v) (hv0 : v ≠ 0)
    (hf : ∃ fi, (s.factors g.coords.ndim)[i]? = some fi ∧ fi ≠ 1) : g'.eq g = false ∧ g.eq g' = false := by
  have hne := Coords.scale_ne g.coords _ i v hv hv0 hf
  simp only [Grid.scale, hc] at h
  cases hw : g.getWeights with
  | none => simp [hw] at h
  | some w =>
    simp only [hw, Option.map_some, Option.some.injEq] at h
    subst h
    exact ⟨ne_of_coords_ne _ _ hne, ne_of_coords_ne _ _ (Ne.symm hne)⟩

/-- **Scaling a polar grid** by `k ≠ 1` changes its identity as soon as some radius is non-zero
(`PolarGrid.scale` multiplies the radial axis by `k` and the angular axis by one). -/
theorem polar_scale_changes (g g' : Grid) (k : Rat) (hp : g.system = .polar) (h : g.scale (.scalar k) = some g')
    (v : Rat) (hv : g.coords.axisHas 0 v) (hv0 : v ≠ 0) (hk : k ≠ 1) : g'.eq g = false ∧ g.eq g' = false := by
  have hne := Coords.scale_ne g.coords [k, 1] 0 v hv hv0 ⟨k, rfl, hk⟩
  simp only [Grid.scale, hp, Option.map_eq_some_iff] at h
  obtain ⟨w, _, rfl⟩ := h
  exact ⟨ne_of_coords_ne _ _ hne, ne_of_coords_ne _ _ (Ne.symm hne)⟩

example : ∃ g g' : Grid, g.system = .polar ∧ g.scale (.scalar 2) = some g' ∧ g.coords.axisHas 0 (1 / 2) :=
  ⟨⟨.polar, .unstructured [[1 / 2, 3], [0, 1]], .none⟩, _, rfl, rfl, ⟨[1 / 2, 3], rfl, by simp⟩⟩

/-- **Reversing** changes the identity as soon as one axis is not symmetric under reversal … -/
theorem reverse_changes (g : Grid) (i : Nat) (h : g.coords.axisAsym i) :
    g.reverse.eq g = false ∧ g.eq g.reverse = false := by
  have hne := Coords.reverse_ne g.coords i h
  exact ⟨ne_of_coords_ne _ _ hne, ne_of_coords_ne _ _ (Ne.symm hne)⟩

/-- … and reversing twice restores it (so the hash returns to its old value as well). -/
theorem reverse_reverse_eq (g : Grid) (h : g.coords.WF) :
    g.reverse.reverse.eq g = true ∧ g.reverse.reverse.hashInput = g.hashInput := by
  have : g.reverse.reverse.coords = g.coords := Coords.reverse_reverse g.coords
  refine ⟨?_, by simp [Grid.hashInput, Grid.reverse, Coords.reverse_reverse]⟩
  simp only [Grid.eq, Grid.reverse, Bool.and_eq_true, decide_eq_true_eq, true_and]
  simp only [Grid.reverse] at this
  rw [this]; exact Coords.eq_self h

/-! ### Floating point: a shift changes the identity exactly when some stored sum changes

`shift_changes` above is about exact arithmetic (the rationals the correspondence feeds are dyadic,
so that float addition is exact).  On floats `x += b` stores `fl(x + b)`; the statement that holds for
**every** rounding function `rnd` (round-to-nearest-even binary64 is `roundF64`, executed by the driver
ops `shiftf` / `shiftedf` and compared bit for bit with the real code) is: -/

/-- **In-place float shift**: the grid stays equal to its former self iff every value the shift rewrites
(the origin of a regular axis, every coordinate of a separated / unstructured axis) absorbs its shift,
`fl(x + b_i) = x` — i.e. the identity changes *accordingly*: exactly when the data changes. -/
theorem shiftF_keeps_iff (rnd : Rat → Rat) (g : Grid) (b : List Rat) (hl : b.length = g.coords.ndim) (hw : g.coords.WF) :
    (g.shiftR rnd b).eq g = true ↔
      ∀ i (h1 : i < g.coords.shiftVals.length) (h2 : i < b.length), ∀ x ∈ g.coords.shiftVals[i], rnd (x + b[i]) = x := by
  rw [Grid.eq_iff (Coords.WF_shiftR rnd g.coords b hl hw)]
  simp only [Grid.shiftR, true_and]
  exact Coords.shiftR_eq_self_iff rnd g.coords b hl

/-- … in the decidable form the driver evaluates (`absorbs i b` with `rnd = roundF64`, compared with
`g.shifted(b) == g` / "the in-place shift left every stored value as it was" on the real code): the
shifted grid equals the original iff the model predicts that every sum is absorbed. -/
theorem shiftF_keeps_iff_absorbs (rnd : Rat → Rat) (g : Grid) (b : List Rat) (hl : b.length = g.coords.ndim) (hw : g.coords.WF) :
    (g.shiftR rnd b).eq g = true ↔ g.coords.absorbs rnd b = true := by
  rw [shiftF_keeps_iff rnd g b hl hw, Coords.absorbs_iff]

/-- with exact arithmetic (`rnd = id`) the float shift is the exact shift of `shift_changes` -/
theorem shiftF_exact (g : Grid) (b : List Rat) : g.shiftR id b = g.shift b := by
  simp only [Grid.shiftR, Grid.shift, Coords.shiftR_id]

/-- **The caveat, concretely (binary64)**: a non-zero shift below half an ulp of every coordinate is
absorbed — the grid still equals its former self and hashes the same — whereas in exact arithmetic
(`shift_changes`) the same shift changes the identity.  The harness replays exactly this on the real
code (`g.shifted(2**-54) == g`, same hash). -/
theorem shiftF_absorbed :
    ∃ (g : Grid) (b : List Rat), g.coords.WF ∧ b = [1 / 2 ^ 54] ∧
      (g.shiftR roundF64 b).eq g = true ∧ (g.shiftR roundF64 b).hashInput = g.hashInput ∧
      (g.shift b).eq g = false :=
  ⟨⟨.cartesian, .separated [[1, 2, -3 / 2]], .none⟩, _, by decide, rfl, by decide +kernel, by decide +kernel,
    by decide +kernel⟩

/-- … and a shift of a whole ulp is not: the float model agrees with the exact one there -/
theorem shiftF_not_absorbed :
    (Grid.shiftR roundF64 [1 / 2 ^ 52] ⟨.cartesian, .regular [⟨1 / 2, 3, 1⟩], .none⟩).eq
      ⟨.cartesian, .regular [⟨1 / 2, 3, 1⟩], .none⟩ = false := by decide +kernel

example : (Coords.separated [[0, 1], [5]]).axisHas 0 1 := ⟨[0, 1], rfl, by simp⟩
example : (Coords.regular [⟨1 / 2, 3, 0⟩]).axisAsym 0 := ⟨⟨1 / 2, 3, 0⟩, rfl, by norm_num⟩

/-- **Equal grids have the same number of axes** (and the same number of points and the same coordinate
kind): `==` is never a comparison of a common prefix of the axes. -/
theorem eq_imp_same_ndim (a b : Grid) (h : a.eq b = true) :
    a.coords.ndim = b.coords.ndim ∧ a.coords.size = b.coords.size ∧ a.coords.kind = b.coords.kind := by
  refine ⟨?_, ?_, ?_⟩
  · by_contra hn; rw [ne_of_ndim_ne a b hn] at h; exact absurd h (by decide)
  · by_contra hn; rw [ne_of_size_ne a b hn] at h; exact absurd h (by decide)
  · by_contra hn; rw [ne_of_kind_ne a b hn] at h; exact absurd h (by decide)

/-- The projection of a point cloud is not the cloud: an unstructured grid and the grid with one more
column (same point count, same leading columns) are unequal, in both orders. -/
theorem prefix_axes_ne (s : System) (cols : List (List Rat)) (z : List Rat) (w w' : Weights) :
    (Grid.mk s (.unstructured cols) w).eq (Grid.mk s (.unstructured (cols ++ [z])) w') = false ∧
    (Grid.mk s (.unstructured (cols ++ [z])) w').eq (Grid.mk s (.unstructured cols) w) = false := by
  constructor <;> apply ne_of_ndim_ne <;> simp [Coords.ndim]

/-! ## Sharing at the level of the `Coords` object (Model/GridShare.lean, executed by the driver) -/

/-- **Every holder of the `Coords` object follows a write through it** — whichever holder (or the caller)
made it: afterwards it reads the new coordinates, with its own coordinate system and weights. -/
theorem shared_holders_follow (grids : Store) (cell : List Nat) (c : Nat) (co : Coords) (j : Nat) (g : Grid)
    (hc : cell[j]? = some c) (hg : grids[j]? = some g) :
    (shareCoords grids cell c co)[j]? = some { g with coords := co } := by
  simp [shareCoords_getElem?, hc, hg]

/-- Grids on other `Coords` objects (copies, pickles, round trips, `scaled` …) are untouched. -/
theorem other_cells_untouched (grids : Store) (cell : List Nat) (c : Nat) (co : Coords) (j : Nat)
    (hc : cell[j]? ≠ some c) : (shareCoords grids cell c co)[j]? = grids[j]? := by
  rw [shareCoords_getElem?]; cases grids[j]? <;> simp [hc]

/-- **After a write through a shared `Coords` object, equality and hashing agree on all its holders**:
two holders with the same coordinate system are equal and have the same hash input; holders with different
systems are unequal (`PolarGrid(g.coords)` against `g`). -/
theorem shared_holders_eq_hash (grids : Store) (cell : List Nat) (c : Nat) (co : Coords) (j k : Nat) (g h : Grid)
    (hw : co.WF) (hj : cell[j]? = some c) (hk : cell[k]? = some c) (hg : grids[j]? = some g) (hh : grids[k]? = some h) :
    ∃ g' h', (shareCoords grids cell c co)[j]? = some g' ∧ (shareCoords grids cell c co)[k]? = some h' ∧
      g'.coords = co ∧ h'.coords = co ∧
      (g.system = h.system → g'.eq h' = true ∧ g'.hashInput = h'.hashInput) ∧
      (g.system ≠ h.system → g'.eq h' = false) := by
  refine ⟨_, _, shared_holders_follow grids cell c co j g hj hg, shared_holders_follow grids cell c co k h hk hh, rfl, rfl, ?_, ?_⟩
  · intro hs
    have he : ({ g with coords := co } : Grid).eq { h with coords := co } = true := by
      have := eq_refl { g with coords := co } hw
      simpa [Grid.eq, hs] using this
    exact ⟨he, eq_imp_hashInput_eq _ _ he⟩
  · intro hs; exact ne_of_system_ne _ _ hs

example : (Coords.separated [[0, 1], [5]]).WF := by decide

/-- **Coherence is re-established by the propagation**: if all grids other than the writer `i` that share a
`Coords` object agree, then after slot `i`'s coordinates are propagated to the holders of its object, *all*
grids that share an object read the same coordinates. -/
theorem shareCoords_coherent (grids : Store) (cell : List Nat) (i c : Nat) (gi : Grid)
    (hi : cell[i]? = some c) (hgi : grids[i]? = some gi)
    (hco : ∀ j k g h, j ≠ i → k ≠ i → cell[j]? = cell[k]? → cell[j]? ≠ none → grids[j]? = some g → grids[k]? = some h →
      g.coords = h.coords) :
    Coherent (shareCoords grids cell c gi.coords) cell := by
  intro j k g h hjk hn hg hh
  rw [shareCoords_getElem?] at hg hh
  cases hgj : grids[j]? with
  | none => simp [hgj] at hg
  | some g0 =>
    cases hgk : grids[k]? with
    | none => simp [hgk] at hh
    | some h0 =>
      simp only [hgj, hgk, Option.map_some, Option.some.injEq] at hg hh
      by_cases hc : cell[j]? = some c
      · have hc' : cell[k]? = some c := hjk ▸ hc
        rw [if_pos hc] at hg; rw [if_pos hc'] at hh
        rw [← hg, ← hh]
      · have hc' : ¬ cell[k]? = some c := hjk ▸ hc
        rw [if_neg hc] at hg; rw [if_neg hc'] at hh
        subst hg; subst hh
        have hji : j ≠ i := fun e => hc (e ▸ hi)
        have hki : k ≠ i := fun e => hc' (e ▸ hi)
        exact hco j k _ _ hji hki hjk hn hgj hgk

example : Coherent (shareCoords [⟨.cartesian, .separated [[0, 2]], .none⟩] [0] 0 (.separated [[0, 2]])) [0] :=
  shareCoords_coherent _ _ 0 0 ⟨.cartesian, .separated [[0, 2]], .none⟩ rfl rfl (by
    intro j k g h hj _ _ _ hg _
    match j, hj, hg with
    | j + 1, _, hg => simp at hg)

/-- **A memoised hash that is dropped by the grid's own API only goes stale** (the defect class, proved
counterexample): `b` is hashed, then another holder of the same `Coords` object scales it; `b` follows, is
equal to a freshly built grid with the same coordinates, and answers the old hash. -/
theorem Bad.memo_hash_stale :
    ∃ (b : Bad.MGrid) (co : Coords), co.WF ∧
      let b1 := (b.hash).2.follow co
      let fresh : Bad.MGrid := { grid := { b.grid with coords := co } }
      b1.grid.eq fresh.grid = true ∧ (b1.hash).1 ≠ (fresh.hash).1 :=
  ⟨{ grid := ⟨.cartesian, .separated [[0, 1]], .none⟩ }, .separated [[0, 2]], by decide, by decide⟩

/-! ## Value semantics of the store: earlier copies are untouched -/

/-- An in-place operation on slot `i` leaves every other live grid as it was. -/
theorem copies_untouched_inplace (st : Store) (i j : Nat) (g : Grid) (h : i ≠ j) :
    (st.update i g)[j]? = st[j]? := by
  simp [Store.update, List.getElem?_set_ne h]

/-- A non-mutating operation only adds a slot. -/
theorem copies_untouched_push (st : Store) (j : Nat) (g : Grid) (h : j < st.length) :
    (st.push g)[j]? = st[j]? := by
  simp [Store.push, List.getElem?_append_left h]

/-- **Frame property of the whole protocol** (what the correspondence re-reads after every request):
apart from `reset`, a request changes at most one already existing slot. -/
theorem stepStore_frame (st st' : Store) (toks : List String) (out : String)
    (h : stepStore st toks = some (st', out)) (hr : toks ≠ ["reset"]) :
    ∃ i, ∀ j, j < st.length → j ≠ i → st'[j]? = st[j]? := by
  unfold stepStore at h
  rw [if_neg hr] at h
  split at h
  · simp only [Option.some.injEq, Prod.mk.injEq] at h
    rw [← h.1]; exact ⟨0, fun _ _ _ => rfl⟩
  simp only [Option.map_eq_some_iff, Prod.mk.injEq] at h
  obtain ⟨⟨e, o⟩, _, rfl, _⟩ := h
  cases e with
  | keep => exact ⟨0, fun _ _ _ => rfl⟩
  | push g => exact ⟨0, fun j hj _ => copies_untouched_push st j g hj⟩
  | update i g => exact ⟨i, fun j _ hji => copies_untouched_inplace st i j g (Ne.symm hji)⟩

/-! ## Caller-owned arrays: construction copies, so nothing leaks -/

/-- **No request ever changes an array the caller owns** — whether it was used for one axis or
several, for `delta` and `zero`, for coordinates and weights, or for several grids. -/
theorem caller_arrays_untouched (w w' : World) (toks : List String) (out : String)
    (h : stepWorld w toks = some (w', out)) (hr : toks ≠ ["reset"]) :
    ∀ k, k < w.arrays.length → w'.arrays[k]? = w.arrays[k]? := by
  intro k hk
  unfold stepWorld at h
  split at h
  · exact absurd rfl hr
  · simp only [Option.map_eq_some_iff, Prod.mk.injEq] at h
    obtain ⟨l, _, rfl, _⟩ := h
    simp [List.getElem?_append_left hk]
  · simp only [Option.some.injEq, Prod.mk.injEq] at h
    rw [← h.1]
  · split at h
    · simp only [Option.map_eq_some_iff, Prod.mk.injEq] at h
      obtain ⟨wt, _, rfl, _⟩ := h
      rfl
    · exact absurd h (by simp)
  · simp only [Option.map_eq_some_iff, Prod.mk.injEq] at h
    obtain ⟨r, _, rfl, _⟩ := h
    rfl

/-- **Frame property with caller arrays**: apart from `reset`, a request changes at most one
existing grid — in particular a grid built from the same caller arrays as another one is not
affected by operations on that other grid. -/
theorem world_frame (w w' : World) (toks : List String) (out : String)
    (h : stepWorld w toks = some (w', out)) (hr : toks ≠ ["reset"]) :
    ∃ i, ∀ j, j < w.grids.length → j ≠ i → w'.grids[j]? = w.grids[j]? := by
  unfold stepWorld at h
  split at h
  · exact absurd rfl hr
  · simp only [Option.map_eq_some_iff, Prod.mk.injEq] at h
    obtain ⟨l, _, rfl, _⟩ := h
    exact ⟨0, fun _ _ _ => rfl⟩
  · simp only [Option.some.injEq, Prod.mk.injEq] at h
    rw [← h.1]; exact ⟨0, fun _ _ _ => rfl⟩
  · split at h
    · simp only [Option.map_eq_some_iff, Prod.mk.injEq] at h
      obtain ⟨wt, _, rfl, _⟩ := h
      exact ⟨0, fun j hj _ => copies_untouched_push _ j _ hj⟩
    · exact absurd h (by simp)
  · simp only [Option.map_eq_some_iff, Prod.mk.injEq] at h
    obtain ⟨⟨st', o⟩, hs, rfl, _⟩ := h
    exact stepStore_frame w.grids st' _ o hs hr

/-! ## The invariant of the `Coords`-sharing world the driver executes (`stepShare`) -/

/-- `Grid(g.coords)` keeps the invariant: the new holder reads the coordinates of the object it was built on -/
theorem share_on_inv (s s' : SWorld) (i : Nat) (sys : System) (hi : s.Inv) (h : s.on i sys = some s') : s'.Inv := by
  unfold SWorld.on at h
  split at h
  · rename_i g c hg hc
    simp only [Option.some.injEq] at h
    subst h
    have hcm : c < s.next := hi.lt c (List.mem_of_getElem? hc)
    refine ⟨by simp [Store.push, hi.len], ?_, ?_⟩
    · intro d hd
      simp only [List.mem_append, List.mem_singleton] at hd
      rcases hd with hd | hd
      · exact hi.lt d hd
      · rw [hd]; exact hcm
    · -- the new grid reads the coordinates of slot `i`, whose cell it holds
      have key : ∀ (j : Nat) (g' : Grid), (s.world.grids.push ⟨sys, g.coords, .none⟩)[j]? = some g' → (s.cell ++ [c])[j]? ≠ none →
          ∃ (j0 : Nat) (g0 : Grid), s.world.grids[j0]? = some g0 ∧ s.cell[j0]? = (s.cell ++ [c])[j]? ∧ g0.coords = g'.coords := by
        intro j g' hg' hn
        by_cases hj : j < s.world.grids.length
        · refine ⟨j, g', ?_, ?_, rfl⟩
          · rw [← hg']; simp [Store.push, List.getElem?_append_left hj]
          · rw [List.getElem?_append_left (by rw [hi.len]; exact hj)]
        · have hj' : j = s.world.grids.length := by
            by_contra hne
            rw [List.getElem?_eq_none (by simp [Store.push]; omega)] at hg'
            exact absurd hg' (by simp)
          refine ⟨i, g, hg, ?_, ?_⟩
          · rw [hj', ← hi.len]; simp [hc]
          · rw [hj'] at hg'; simp [Store.push] at hg'; rw [← hg']
      intro j k g1 g2 hjk hn h1 h2
      obtain ⟨j0, a, ha, hca, hea⟩ := key j g1 h1 hn
      obtain ⟨k0, b, hb, hcb, heb⟩ := key k g2 h2 (hjk ▸ hn)
      rw [← hea, ← heb]
      exact hi.coh j0 k0 a b (by rw [hca, hcb, hjk]) (by rw [hca]; exact hn) ha hb
  · exact absurd h (by simp)

/-- a write to the `Coords` object itself keeps the invariant -/
theorem share_cedit_inv (s s' : SWorld) (i : Nat) (f : Coords → Coords) (hi : s.Inv) (h : s.cedit i f = some s') : s'.Inv := by
  unfold SWorld.cedit at h
  split at h
  · simp only [Option.some.injEq] at h
    subst h
    exact ⟨by simp [shareCoords_length, hi.len], hi.lt, shareCoords_keeps_coherent _ _ _ _ hi.coh⟩
  · exact absurd h (by simp)


/-- the changed slot wrote through its `Coords` object: after the propagation the invariant holds again -/
theorem share_propagate_inv (s : SWorld) (i : Nat) (hl : s.cell.length = s.world.grids.length) (hlt : ∀ c ∈ s.cell, c < s.next)
    (hco : CohEx (some i) s.world.grids s.cell) : (s.propagate i).Inv := by
  unfold SWorld.propagate
  split
  · rename_i g c hg hc
    refine ⟨by simp [shareCoords_length, hl], hlt, ?_⟩
    exact shareCoords_coherent _ _ i c g hc hg (fun j k a b hj hk => hco j k a b (by simpa using hj) (by simpa using hk))
  · rename_i hno
    have hgi : s.world.grids[i]? = none := by
      cases hg : s.world.grids[i]? with
      | none => rfl
      | some g =>
        cases hc : s.cell[i]? with
        | some c => exact absurd hc (hno g c hg)
        | none =>
          have h1 : i < s.world.grids.length := (List.getElem?_eq_some_iff.mp hg).1
          have h2 : s.cell.length ≤ i := by
            by_contra hlt'; rw [List.getElem?_eq_getElem (by omega)] at hc; exact absurd hc (by simp)
          omega
    refine ⟨hl, hlt, ?_⟩
    intro j k a b hjk hn ha hb
    have hj : j ≠ i := by intro e; rw [e, hgi] at ha; exact absurd ha (by simp)
    have hk : k ≠ i := by intro e; rw [e, hgi] at hb; exact absurd hb (by simp)
    exact hco j k a b (by simpa using hj) (by simpa using hk) hjk hn ha hb

/-- the changed slot got a `Coords` object of its own: the invariant holds again -/
theorem share_rebind_inv (s : SWorld) (i : Nat) (hl : s.cell.length = s.world.grids.length) (hlt : ∀ c ∈ s.cell, c < s.next)
    (hco : CohEx (some i) s.world.grids s.cell) : (s.rebind i).Inv := by
  refine ⟨by simp [SWorld.rebind, hl], ?_, ?_⟩
  · intro c hc
    simp only [SWorld.rebind] at hc ⊢
    rcases List.mem_or_eq_of_mem_set hc with hc | hc
    · have := hlt c hc; omega
    · omega
  · intro j k a b hjk hn ha hb
    simp only [SWorld.rebind] at hjk hn ha hb
    rw [List.getElem?_set] at hjk hn
    rw [List.getElem?_set] at hjk
    by_cases hj : i = j <;> by_cases hk : i = k
    · subst hj; subst hk; rw [ha] at hb; simp at hb; rw [hb]
    · rw [if_pos hj, if_neg hk] at hjk
      rw [if_pos hj] at hn
      split at hjk
      · cases hck : s.cell[k]? with
        | none => rw [hck] at hjk; exact absurd hjk (by simp)
        | some c =>
          rw [hck] at hjk; simp at hjk
          have := hlt c (List.mem_of_getElem? hck); omega
      · rename_i hlt'; rw [if_neg hlt'] at hn; exact absurd rfl hn
    · rw [if_neg hj, if_pos hk] at hjk
      rw [if_neg hj] at hn
      split at hjk
      · cases hcj : s.cell[j]? with
        | none => exact absurd hcj hn
        | some c =>
          rw [hcj] at hjk; simp at hjk
          have := hlt c (List.mem_of_getElem? hcj); omega
      · exact absurd hjk hn
    · rw [if_neg hj, if_neg hk] at hjk
      rw [if_neg hj] at hn
      exact hco j k a b (by simpa using Ne.symm hj) (by simpa using Ne.symm hk) hjk hn ha hb

/-- **Every request the driver executes keeps the invariant** (`stepShare`, all requests: the whole value-store protocol,
`on`, `cedit`, `reset`). -/
theorem share_step_inv (s s' : SWorld) (toks : List String) (out : String) (hi : s.Inv)
    (h : stepShare s toks = some (s', out)) : s'.Inv := by
  unfold stepShare at h
  split at h
  · simp only [Option.some.injEq, Prod.mk.injEq] at h; rw [← h.1]; exact inv_empty
  · simp only [Option.some.injEq, Prod.mk.injEq] at h; rw [← h.1]; exact hi
  · simp only [bind, Option.bind_eq_some_iff] at h
    obtain ⟨i, _, sys, _, h⟩ := h
    split at h
    · rename_i s2 hs2
      simp only [pure, Option.some.injEq, Prod.mk.injEq] at h; rw [← h.1]; exact share_on_inv s s2 i sys hi hs2
    · simp only [pure, Option.some.injEq, Prod.mk.injEq] at h; rw [← h.1]; exact hi
  · simp only [bind, Option.bind_eq_some_iff] at h
    obtain ⟨i, _, f, _, h⟩ := h
    split at h
    · rename_i s2 hs2
      simp only [pure, Option.some.injEq, Prod.mk.injEq] at h; rw [← h.1]; exact share_cedit_inv s s2 i f hi hs2
    · simp only [pure, Option.some.injEq, Prod.mk.injEq] at h; rw [← h.1]; exact hi
  · rename_i hnr _ _ _
    simp only [Option.map_eq_some_iff] at h
    obtain ⟨r, hr, h⟩ := h
    have hne : toks ≠ ["reset"] := fun e => hnr e
    have hf := world_frame s.world r.1 toks r.2 hr hne
    have hce := cohEx_of_frame s.world.grids r.1.grids s.cell hi.len hi.coh hf
    obtain ⟨h1, h2, h3⟩ := sync_inv r.1.grids s.cell s.next _ hi.lt hce
    split at h
    · rename_i i hci
      rw [hci] at h3
      simp only [Prod.mk.injEq] at h
      rw [← h.1]
      split
      · exact share_rebind_inv _ i h1 h2 h3
      · exact share_propagate_inv _ i h1 h2 h3
    · rename_i hci
      rw [hci, cohEx_none] at h3
      simp only [Prod.mk.injEq] at h
      rw [← h.1]
      exact ⟨h1, h2, h3⟩


/-- **In every world the driver can reach, grids on one `Coords` object have one identity**: whatever sequence of requests
(constructors, copies and round trips, `on`, in-place operations through any holder, writes to the `Coords` object or to an
accessor's array, rejected requests) is run from the empty world, two live grids that hold the same `Coords` object read the
same coordinates; if they also have the same coordinate system they have the same hash input and (well-formed coordinates)
are equal. -/
theorem share_reachable_coherent (reqs : List (List String)) :
    let s := reqs.foldl (fun s toks => match stepShare s toks with | some (s', _) => s' | none => s) ({} : SWorld)
    ∀ (j k : Nat) (g h : Grid), s.cell[j]? = s.cell[k]? → s.cell[j]? ≠ none →
      s.world.grids[j]? = some g → s.world.grids[k]? = some h →
      g.coords = h.coords ∧ (g.system = h.system → g.hashInput = h.hashInput ∧ (g.coords.WF → g.eq h = true)) := by
  have key : ∀ (reqs : List (List String)) (s : SWorld), s.Inv →
      (reqs.foldl (fun s toks => match stepShare s toks with | some (s', _) => s' | none => s) s).Inv := by
    intro reqs
    induction reqs with
    | nil => intro s hs; exact hs
    | cons t ts ih =>
      intro s hs
      simp only [List.foldl_cons]
      apply ih
      cases h : stepShare s t with
      | none => exact hs
      | some r => exact share_step_inv s r.1 t r.2 hs (by rw [h])
  intro s j k g h hjk hn hg hh
  have hc := (key reqs {} inv_empty).coh j k g h hjk hn hg hh
  refine ⟨hc, fun hs => ?_⟩
  have hgh : g.hashInput = h.hashInput := by simp [Grid.hashInput, hs, hc]
  refine ⟨hgh, fun hw => ?_⟩
  have := eq_refl g hw
  simpa [Grid.eq, hs, hc] using this

/-- **One array passed for two axes is scaled / shifted once per axis**: the grid holds two
independent copies, so the result is the same as for two separate equal arrays. -/
theorem shared_axis_acts_once (ax : List Rat) (f1 f2 b1 b2 : Rat) :
    (Coords.separated [ax, ax]).scale [f1, f2] = .separated [ax.map (· * f1), ax.map (· * f2)] ∧
    (Coords.separated [ax, ax]).shift [b1, b2] = .separated [ax.map (· + b1), ax.map (· + b2)] ∧
    (Coords.unstructured [ax, ax]).scale [f1, f2] = .unstructured [ax.map (· * f1), ax.map (· * f2)] ∧
    (Coords.unstructured [ax, ax]).shift [b1, b2] = .unstructured [ax.map (· + b1), ax.map (· + b2)] :=
  ⟨rfl, rfl, rfl, rfl⟩

/-- the same for one array used as `delta` and as `zero` of a regular grid -/
theorem shared_delta_zero_acts_once (v : Rat) (n : Nat) (f b : Rat) :
    (Coords.regular [⟨v, n, v⟩]).scale [f] = .regular [⟨v * f, n, v * f⟩] ∧
    (Coords.regular [⟨v, n, v⟩]).shift [b] = .regular [⟨v, n, v + b⟩] := ⟨rfl, rfl⟩

/-! ## Reference semantics: why "copies are untouched" holds, and when it would not

The store of `Model/GridOps.lean` has value semantics, so the frame statements above (`stepStore_frame`,
`copies_untouched_*`) restate a modelling decision.  The statements below are about the **reference
model** of `Model/GridHeap.lean` (arrays in a heap, objects holding references, in-place operations
writing through them), in which aliasing *can* happen: they say that it does not, as long as construction
and `copy()` allocate (`Sep`, kept by every operation), and that it does as soon as one of them keeps a
reference (`Bad.*`).  Tie: the driver runs this model (`ref …` requests) on the same histories; the
harness compares the values every object sees and the number of shared arrays (`np.shares_memory`
over all arrays of all live grids and the caller's arrays). -/

/-- the invariant holds initially and is kept by every operation of the reference model -/
theorem ref_sep_invariant (w : RWorld) (hs : w.Sep) (a : List (List Rat)) (refs : List Nat) (i : Nat) (ops : List ArrOp) :
    RWorld.Sep {} ∧ (w.new a).Sep ∧ (w.construct refs).Sep ∧ (w.copy i).Sep ∧ (w.inplace i ops).Sep ∧ (w.copied i ops).Sep :=
  ⟨by decide, w.Sep_new hs a, w.Sep_construct hs refs, w.Sep_construct hs _, w.Sep_inplace hs i ops,
    RWorld.Sep_inplace _ (w.Sep_construct hs _) _ _⟩

/-- **every world the driver can reach satisfies the invariant**: whatever sequence of `ref …` requests
(`stepRef`, the function the driver executes; rejected requests leave the world as it is) is run from a
world satisfying `Sep` — in particular from the empty one after `ref reset`. -/
theorem ref_reachable_sep (reqs : List (List String)) (w : RWorld) (hs : w.Sep) :
    (reqs.foldl (fun w toks => match stepRef w toks with | some (w', _) => w' | none => w) w).Sep := by
  induction reqs generalizing w with
  | nil => exact hs
  | cons t ts ih =>
    simp only [List.foldl_cons]
    apply ih
    cases h : stepRef w t with
    | none => exact hs
    | some r => exact stepRef_sep w r.1 t r.2 hs (by rw [h])

/-- **an in-place operation (`scale`, `shift`) changes the value of its target only — every other live
grid, earlier copies and the caller's arrays included, reads the same values as before — and on the
target every array is acted on exactly once** -/
theorem ref_inplace_only_target (w : RWorld) (hs : w.Sep) (i : Nat) (hi : i < w.objs.length) (ops : List ArrOp)
    (hl : ops.length = (w.objs[i]).refs.length) :
    (w.inplace i ops).abs = w.abs.set i (List.zipWith (fun op a => op.apply a) ops (w.objs[i].val w.heap)) :=
  w.abs_inplace hs i hi ops hl

/-- **`copy()` / construction from arrays held elsewhere**: one more object with the same values; nothing else
changes; and a later in-place operation on the source does not reach the copy. -/
theorem ref_copy_independent (w : RWorld) (hs : w.Sep) (i : Nat) (hi : i < w.objs.length) (ops : List ArrOp)
    (hl : ops.length = (w.objs[i]).refs.length) :
    (w.copy i).abs = w.abs ++ [w.objs[i].val w.heap] ∧
    ((w.copy i).inplace i ops).abs =
      w.abs.set i (List.zipWith (fun op a => op.apply a) ops (w.objs[i].val w.heap)) ++ [w.objs[i].val w.heap] := by
  have hget : w.objs.getD i ⟨[]⟩ = w.objs[i] := by simp [List.getD_eq_getElem?_getD, hi]
  have hget' : w.objs[i]?.getD ⟨[]⟩ = w.objs[i] := by simp [hi]
  have hc : (w.copy i).abs = w.abs ++ [w.objs[i].val w.heap] := by
    have := w.abs_alloc hs (RObj.val w.heap w.objs[i])
    simpa [RWorld.copy, RWorld.construct, RObj.deepCopy, RObj.val, hget, hget'] using this
  refine ⟨hc, ?_⟩
  have hs' : (w.copy i).Sep := w.Sep_construct hs _
  have hi' : i < (w.copy i).objs.length := by simp [RWorld.copy, RWorld.construct]; omega
  have hobj : (w.copy i).objs[i] = w.objs[i] := by simp [RWorld.copy, RWorld.construct, List.getElem_append_left hi]
  have hval : (w.copy i).objs[i].val (w.copy i).heap = w.objs[i].val w.heap := by
    rw [hobj]
    exact w.val_grow hs.1 _ _ (List.getElem_mem hi)
  rw [(w.copy i).abs_inplace hs' i hi' ops (by rw [hobj]; exact hl), hc, hval]
  have : i < w.abs.length := by simpa [RWorld.abs] using hi
  rw [List.set_append_left _ _ this]

/-- **the non-mutating forms (`scaled`, `shifted`)**: a new object holding the transformed values; every
existing object, the source included, untouched. -/
theorem ref_copied_independent (w : RWorld) (hs : w.Sep) (i : Nat) (hi : i < w.objs.length) (ops : List ArrOp)
    (hl : ops.length = (w.objs[i]).refs.length) :
    (w.copied i ops).abs = w.abs ++ [List.zipWith (fun op a => op.apply a) ops (w.objs[i].val w.heap)] := by
  have hget : w.objs.getD i ⟨[]⟩ = w.objs[i] := by simp [List.getD_eq_getElem?_getD, hi]
  have hget' : w.objs[i]?.getD ⟨[]⟩ = w.objs[i] := by simp [hi]
  have hc := (ref_copy_independent w hs i hi ops hl).1
  have hs' : (w.copy i).Sep := w.Sep_construct hs _
  have hn : w.objs.length < (w.copy i).objs.length := by simp [RWorld.copy, RWorld.construct]
  have hobj : (w.copy i).objs[w.objs.length] = ⟨List.range' w.heap.length (w.objs[i]).refs.length⟩ := by
    simp [RWorld.copy, RWorld.construct, RObj.deepCopy, hget, hget']
  have hval : (w.copy i).objs[w.objs.length].val (w.copy i).heap = w.objs[i].val w.heap := by
    have := RObj.deepCopy_val w.heap w.objs[i]
    rw [hobj]
    simpa [RWorld.copy, RWorld.construct, RObj.deepCopy, hget, hget'] using this
  unfold RWorld.copied
  rw [(w.copy i).abs_inplace hs' _ hn ops (by rw [hobj]; simpa using hl), hc, hval]
  have : w.objs.length = w.abs.length := by simp [RWorld.abs]
  rw [this, List.set_append_right _ _ (le_refl _)]
  simp

/-- **a copy that keeps the references aliases**: after `Bad.copy` an in-place operation on the source
changes what the "copy" reads (and `Sep` fails) -/
theorem Bad.copy_aliases :
    ∃ w : RWorld, w.Sep ∧ ¬ (Bad.copy w 0).Sep ∧
      ((Bad.copy w 0).inplace 0 [.mulS 2]).abs = [[[2, 4]], [[2, 4]]] ∧ ((w.copy 0).inplace 0 [.mulS 2]).abs = [[[2, 4]], [[1, 2]]] :=
  ⟨RWorld.new {} [[1, 2]], by decide, by decide, by decide +kernel, by decide +kernel⟩

/-- **a constructor that keeps the caller's array** (the defect repaired by D3/D4/D83): scaling the
grid in place changes the caller's array; with one array passed for two axes the grid's own axes move
twice. -/
theorem Bad.construct_aliases :
    ((Bad.construct (RWorld.new {} [[1, 2]]) [0, 0]).inplace 1 [.mulS 2, .mulS 2]).abs = [[[4, 8]], [[4, 8], [4, 8]]] ∧
    (((RWorld.new {} [[1, 2]]).construct [0, 0]).inplace 1 [.mulS 2, .mulS 2]).abs = [[[1, 2]], [[2, 4], [2, 4]]] :=
  ⟨by decide +kernel, by decide +kernel⟩

/-- the array operations of the reference model are the coordinate arithmetic of the value model:
separated / unstructured coordinates multiply (add to) array `k` by `f_k`; regular coordinates
multiply `delta` and `zero` elementwise (add to `zero`) -/
theorem ref_ops_are_coords_ops (a : List (List Rat)) (f b : List Rat) (r : List RegAxis) :
    (Coords.separated a).scale f = .separated (List.zipWith (fun (op : ArrOp) x => op.apply x) (f.map ArrOp.mulS) a) ∧
    (Coords.unstructured a).shift b = .unstructured (List.zipWith (fun (op : ArrOp) x => op.apply x) (b.map ArrOp.addS) a) ∧
    (match (Coords.regular r).scale f with
      | .regular r' => r'.map (·.delta) = ArrOp.apply (.mulV f) (r.map (·.delta)) ∧ r'.map (·.zero) = ArrOp.apply (.mulV f) (r.map (·.zero))
      | _ => False) := by
  refine ⟨?_, ?_, ?_⟩
  · simp only [Coords.scale, Coords.separated.injEq, List.zipWith_map_left, ArrOp.apply]
    rw [List.zipWith_comm]
  · simp only [Coords.shift, Coords.unstructured.injEq, List.zipWith_map_left, ArrOp.apply]
    rw [List.zipWith_comm]
  · simp only [Coords.scale, ArrOp.apply, List.map_zipWith, List.zipWith_map_left]
    exact ⟨trivial, trivial⟩

/-! ## Memory layout: `==` and the hash read values, not bytes (`Model/GridLayout.lean`; driver op `hashl`) -/

/-- **The hash input is independent of the memory layout**: coordinate arrays that denote the same values —
contiguous, negative stride (what `reverse()` leaves behind), strided or offset views of other buffers — give the
same hash input. -/
theorem hash_layout_independent (sys : System) (sep : Bool) (a b : List LArr)
    (h : a.map LArr.values = b.map LArr.values) : hashInputL sys sep a = hashInputL sys sep b := by
  simp [hashInputL, coordsOfLayout, h]

/-- the four layouts the driver builds (`LArr.make`: contiguous / negative stride / stride 2 / offset) all denote
the values they were made from, so the hash input through any mixture of them is the hash input of the grid. -/
theorem hash_of_any_layout (sys : System) (sep : Bool) (modes : List Nat) (arrays : List (List Rat))
    (h : modes.length = arrays.length) :
    hashInputL sys sep (List.zipWith LArr.make modes arrays) =
      (Grid.mk sys (if sep then .separated arrays else .unstructured arrays) .none).hashInput := by
  simp [hashInputL, coordsOfLayout, map_values_zipWith_make modes arrays h]

example : ([1, 2] : List Nat).length = ([[0, 1], [2]] : List (List Rat)).length := rfl

/-- **`reverse()` in place leaves negative-stride views behind; their hash is the hash of an independently
constructed grid with the reversed values** (and `==` holds between the two: both read values). -/
theorem hash_reversed_view (sys : System) (axes : List (List Rat)) :
    hashInputL sys true (axes.map fun v => (LArr.ofList v).rev) =
      (Grid.mk sys (.separated axes) .none).reverse.hashInput ∧
    coordsOfLayout true (axes.map fun v => (LArr.ofList v).rev) = (Coords.separated axes).reverse := by
  have : (axes.map fun v => (LArr.ofList v).rev).map LArr.values = axes.map List.reverse := by
    simp [List.map_map, Function.comp_def, LArr.values_rev _ (LArr.valid_ofList _), LArr.values_ofList]
  simp [hashInputL, coordsOfLayout, this, Grid.reverse, Coords.reverse, Grid.hashInput]

/-- the layout flag itself: a reversed view of two or more elements is not C-contiguous, a fresh array is -/
theorem rev_not_contiguous (v : List Rat) (h : 2 ≤ v.length) :
    (LArr.ofList v).contiguous = true ∧ (LArr.ofList v).rev.contiguous = false := by
  simp [LArr.contiguous, LArr.rev, LArr.ofList]; omega

example : (2 : Nat) ≤ ([0, 1] : List Rat).length := by decide

/-! ## Old — the code before the repairs (documentation of D2 / D24; code that no longer exists in /repo:
not evidence for the property) -/

/-- D2: with the old `SeparatedCoords.__eq__` a separated grid with unequal axis lengths is not equal
to itself. -/
theorem Old.eq_not_refl : ∃ g : Grid, g.coords.WF ∧ g.eqOld g = false :=
  ⟨⟨.cartesian, .separated [[0, 1, 2], [0, 1]], .none⟩, by decide, by decide⟩

/-- … while on rectangular separated grids old and new comparison agree. -/
theorem Old.sepEq_eq_of_rect (a b : List (List Rat)) (ha : rect a = true) (hb : rect b = true) :
    sepEqOld a b = allZip arrEq a b := by simp [sepEqOld, ha, hb]

/-- D24: the old hash fed dtype-dependent bytes: an integer-typed and a float-typed regular grid
compare equal but hash differently. -/
theorem Old.hash_int_float :
    ∃ a b : List Old.RegAxisOld, Old.regEqOld a b = true ∧ Old.regHashInputOld a ≠ Old.regHashInputOld b :=
  ⟨[⟨⟨1, true⟩, 4, ⟨0, true⟩⟩], [⟨⟨1, false⟩, 4, ⟨0, false⟩⟩], by decide, by decide⟩

/-- D26: the old hash read the raw buffer: after an in-place `reverse()` (negative stride) it raised, while the
repaired hash input is defined for every layout. -/
theorem Old.raw_hash_raises_on_reversed_view :
    Old.rawHashInput? [(LArr.ofList [0, 1, 3]).rev] = none ∧ Old.rawHashInput? [LArr.ofList [3, 1, 0]] = some [3, 1, 0] ∧
    (LArr.ofList [0, 1, 3]).rev.values = [3, 1, 0] := by decide +kernel

example : ∃ g : Grid, g.coords.WF := ⟨⟨.cartesian, .separated [[0, 1, 2], [0, 1]], .none⟩, by decide⟩

end HcipyVerif.Grid
