import HcipyVerif.Lemmas.Fraunhofer
import HcipyVerif.Lemmas.FourierLink

/-!
# C03 — lens (Fraunhofer) propagation equals the scaled Fourier integral

Model of `FraunhoferPropagator` (hcipy/propagation/fraunhofer.py) over an abstract Fourier transform
(`Lemmas/Fraunhofer.lean`): per wavelength `λ` the instance holds `uv = focal.scaled(2π/(f(λ)·λ))`, a transform
`ft λ` built for `(pupil, uv)` and `norm = 1/(i f λ)`;  `forward` multiplies `ft.forward` by `norm`, `backward`
divides `ft.backward` by it, both copy wavelength and Stokes vector.  Tensor (Jones vector / Jones matrix)
fields are transformed component by component (`multiplex_for_tensor_fields`); `τ` indexes the components.

The three facts about the Fourier transform are hypotheses, to be discharged by C01/C02:
`EvaluatesFourierSum` (any focal grid kind, any selected method), `ParsevalOn` and `InverseOn`
(full FFT conjugate grid).
-/

set_option linter.unusedSimpArgs false
set_option linter.unusedVariables false
set_option linter.unusedSectionVars false

open Finset Complex ComplexConjugate

namespace HcipyVerif.Fraunhofer

variable {ι κ τ : Type*} [Fintype ι] [Fintype κ] [Fintype τ] {d : ℕ}

/-- `Wavefront`: electric field (one scalar field per tensor component), wavelength, optional Stokes vector. -/
structure Wavefront (ι τ : Type*) where
  field : τ → ι → ℂ
  wavelength : ℝ
  stokes : Option (Fin 4 → ℝ)

/-- `FraunhoferPropagator`: pupil grid, focal grid, focal length (constant or a function of the wavelength),
and the Fourier transform `make_instance` builds for each wavelength. -/
structure Propagator (ι κ : Type*) (d : ℕ) where
  pupil : Grid ι d
  focal : Grid κ d
  focalLength : ℝ → ℝ
  ft : ℝ → FourierTransform ι κ

/-- `instance_data.uv_grid` for wavelength `lam`. -/
noncomputable def Propagator.uvGrid (P : Propagator ι κ d) (lam : ℝ) : Grid κ d :=
  P.focal.scaled (uvScaleR lam (P.focalLength lam))

/-- `FraunhoferPropagator.forward`. -/
noncomputable def Propagator.forward (P : Propagator ι κ d) (wf : Wavefront ι τ) : Wavefront κ τ :=
  { field := fun t => normFactorC wf.wavelength (P.focalLength wf.wavelength) • (P.ft wf.wavelength).fwd (wf.field t)
    wavelength := wf.wavelength
    stokes := wf.stokes }

/-- `FraunhoferPropagator.backward`. -/
noncomputable def Propagator.backward (P : Propagator ι κ d) (wf : Wavefront κ τ) : Wavefront ι τ :=
  { field := fun t => (normFactorC wf.wavelength (P.focalLength wf.wavelength))⁻¹ • (P.ft wf.wavelength).bwd (wf.field t)
    wavelength := wf.wavelength
    stokes := wf.stokes }

/-- **C01 hypothesis for a propagator**: for every wavelength the selected transform evaluates the weighted
Fourier sum on the uv grid it was built for. -/
def Propagator.TransformsCorrect (P : Propagator ι κ d) : Prop :=
  ∀ lam, EvaluatesFourierSum (P.ft lam) P.pupil (P.uvGrid lam)

/-! ## the scaled Fourier integral -/

/-- The scaling algebra of `grid.scaled(2π/(fλ))`: the kernel phase `uv_k · u_j` is `2π x_k·u_j/(λ f)`. -/
theorem uv_dot (P : Propagator ι κ d) (lam : ℝ) (k : κ) (u : Fin d → ℝ) :
    dot ((P.uvGrid lam).pts k) u = 2 * Real.pi * dot (P.focal.pts k) u / (lam * P.focalLength lam) := by
  unfold Propagator.uvGrid Grid.scaled uvScaleR
  simp only
  rw [dot_smul_left]
  ring

/-- **`fraunhofer_eq_integral`.** At every focal point `x_k`, every tensor component `t`, whatever the kind of
focal grid and whichever transform was selected:
`E_out(x) = 1/(i λ f) · Σ_u E_in(u) w(u) exp(-2πi x·u/(λ f))`. -/
theorem fraunhofer_eq_integral (P : Propagator ι κ d) (hT : P.TransformsCorrect) (wf : Wavefront ι τ)
    (t : τ) (k : κ) :
    (P.forward wf).field t k
      = 1 / (I * (wf.wavelength : ℂ) * (P.focalLength wf.wavelength : ℂ))
        * ∑ j, wf.field t j * (P.pupil.weights j : ℂ)
            * cexp (-(2 * (Real.pi : ℂ) * I * ((dot (P.focal.pts k) (P.pupil.pts j) : ℝ) : ℂ))
                / ((wf.wavelength : ℂ) * (P.focalLength wf.wavelength : ℂ))) := by
  unfold Propagator.forward
  simp only [Pi.smul_apply, smul_eq_mul]
  rw [hT wf.wavelength (wf.field t) k]
  unfold fourierSum normFactorC
  congr 1
  · rw [mul_right_comm]
  · apply Finset.sum_congr rfl
    intro j _
    rw [uv_dot]
    congr 2
    push_cast
    ring

/-! ## weights of the two grids -/

/-- `w_uv = w_focal · (2π/(λf))^d`, hence `w_focal = w_uv · (λf/2π)^d` (for `λ f > 0`). -/
theorem focal_weight_eq (P : Propagator ι κ d) (lam : ℝ) (h : 0 < lam * P.focalLength lam) (k : κ) :
    P.focal.weights k = (P.uvGrid lam).weights k * (lam * P.focalLength lam / (2 * Real.pi)) ^ d := by
  unfold Propagator.uvGrid Grid.scaled
  simp only
  have hs : 0 < uvScaleR lam (P.focalLength lam) := uvScaleR_pos h
  rw [abs_of_pos hs, mul_right_comm, ← mul_pow]
  have : uvScaleR lam (P.focalLength lam) * (lam * P.focalLength lam / (2 * Real.pi)) = 1 := by
    unfold uvScaleR
    have hpi : (2 * Real.pi) ≠ 0 := by positivity
    have h' : P.focalLength lam * lam ≠ 0 := by rw [mul_comm]; exact h.ne'
    rw [mul_comm lam (P.focalLength lam), div_mul_div_comm, mul_comm (2 * Real.pi)]
    exact div_self (mul_ne_zero h' hpi)
  rw [this, one_pow, one_mul]

/-! ## power and inverse on the full conjugate grid (two dimensions) -/

/-- Inner products of any two propagated components equal those of the inputs:
`Σ_k conj(E_out) G_out w_focal = Σ_j conj(E) G w_pupil` on a full conjugate grid (`ParsevalOn`).
The factors: `|1/(iλf)|² = 1/(λf)²`, `w_focal = w_uv (λf/2π)²`, Parseval's `(2π)²`. -/
theorem fraunhofer_inner (P : Propagator ι κ 2) (wf : Wavefront ι τ)
    (hpos : 0 < wf.wavelength * P.focalLength wf.wavelength)
    (hPars : ParsevalOn (P.ft wf.wavelength) P.pupil (P.uvGrid wf.wavelength)) (s t : τ) :
    wip P.focal.weights ((P.forward wf).field s) ((P.forward wf).field t)
      = wip P.pupil.weights (wf.field s) (wf.field t) := by
  have hw : P.focal.weights = fun k => (wf.wavelength * P.focalLength wf.wavelength / (2 * Real.pi)) ^ 2
      * (P.uvGrid wf.wavelength).weights k := by
    funext k
    rw [focal_weight_eq P wf.wavelength hpos k, mul_comm]
  unfold Propagator.forward
  simp only
  rw [wip_smul_smul, hw, wip_scale_weights, hPars, norm_normFactorC_sq]
  have hlf : ((wf.wavelength * P.focalLength wf.wavelength : ℝ) : ℂ) ≠ 0 := by exact_mod_cast hpos.ne'
  have hpi : ((2 * Real.pi : ℝ) : ℂ) ≠ 0 := by
    have : (2 * Real.pi) ≠ 0 := by positivity
    exact_mod_cast this
  push_cast at hlf hpi ⊢
  field_simp
  exact mul_div_cancel_left₀ _ hlf

/-- **`fraunhofer_power`.** Total power `Σ_t Σ |E_t|² w` (scalar and Jones-vector wavefronts) is conserved on
the full conjugate grid. -/
theorem fraunhofer_power (P : Propagator ι κ 2) (wf : Wavefront ι τ)
    (hpos : 0 < wf.wavelength * P.focalLength wf.wavelength)
    (hPars : ParsevalOn (P.ft wf.wavelength) P.pupil (P.uvGrid wf.wavelength)) :
    ∑ t, power P.focal.weights ((P.forward wf).field t) = ∑ t, power P.pupil.weights (wf.field t) := by
  apply Finset.sum_congr rfl
  intro t _
  have h := fraunhofer_inner P wf hpos hPars t t
  rw [wip_self, wip_self] at h
  exact_mod_cast h

/-- Intensity `I` of a partially polarised wavefront exactly as `Wavefront.I` computes it from the Jones
matrix field `(x y; z w)` and the input Stokes vector `(a, b, c, d)`. -/
noncomputable def stokesI (S : Fin 4 → ℝ) (x y z w : ℂ) : ℝ :=
  let M11 := normSq x + normSq y + normSq z + normSq w
  let M12 := normSq x - normSq y + normSq z - normSq w
  let M13 := 2 * (x.re * y.re + x.im * y.im + z.re * w.re + z.im * w.im)
  let M14 := 2 * (-x.re * y.im + x.im * y.re - z.re * w.im + z.im * w.re)
  0.5 * (M11 * S 0 + M12 * S 1 + M13 * S 2 + M14 * S 3)

/-- `I` is the real part of a combination of products `conj(p)·q` of components. -/
theorem stokesI_eq_re (S : Fin 4 → ℝ) (x y z w : ℂ) :
    stokesI S x y z w =
      ((1 / 2 : ℂ) * (((S 0 + S 1 : ℝ) : ℂ) * (conj x * x + conj z * z)
        + ((S 0 - S 1 : ℝ) : ℂ) * (conj y * y + conj w * w)
        + 2 * ((S 2 : ℂ) - (S 3 : ℂ) * I) * (conj y * x + conj w * z))).re := by
  unfold stokesI
  simp only [Complex.mul_re, Complex.add_re, Complex.sub_re, Complex.mul_im, Complex.add_im, Complex.sub_im,
    Complex.conj_re, Complex.conj_im, Complex.ofReal_re, Complex.ofReal_im, Complex.I_re, Complex.I_im,
    Complex.one_re, Complex.one_im, Complex.div_re, Complex.div_im, Complex.normSq_apply,
    Complex.re_ofNat, Complex.im_ofNat]
  norm_num
  ring

/-- Total power of a Jones-matrix wavefront with Stokes vector: `Σ_k I_k w_k` (`Wavefront.power` for tensor
order 2), components indexed by `Fin 2 × Fin 2`. -/
noncomputable def stokesPower {α : Type*} [Fintype α] (w : α → ℝ) (S : Fin 4 → ℝ) (E : Fin 2 × Fin 2 → α → ℂ) : ℝ :=
  ∑ i, stokesI S (E (0, 0) i) (E (0, 1) i) (E (1, 0) i) (E (1, 1) i) * w i

theorem stokesPower_eq_re {α : Type*} [Fintype α] (w : α → ℝ) (S : Fin 4 → ℝ) (E : Fin 2 × Fin 2 → α → ℂ) :
    stokesPower w S E =
      ((1 / 2 : ℂ) * (((S 0 + S 1 : ℝ) : ℂ) * (wip w (E (0, 0)) (E (0, 0)) + wip w (E (1, 0)) (E (1, 0)))
        + ((S 0 - S 1 : ℝ) : ℂ) * (wip w (E (0, 1)) (E (0, 1)) + wip w (E (1, 1)) (E (1, 1)))
        + 2 * ((S 2 : ℂ) - (S 3 : ℂ) * I) * (wip w (E (0, 1)) (E (0, 0)) + wip w (E (1, 1)) (E (1, 0))))).re := by
  unfold stokesPower wip
  simp only [← Finset.sum_add_distrib, Finset.mul_sum, Complex.re_sum]
  apply Finset.sum_congr rfl
  intro i _
  rw [stokesI_eq_re]
  have hre : ∀ (c : ℂ) (r : ℝ), c.re * r = (c * (r : ℂ)).re := by
    intro c r; simp [Complex.mul_re]
  rw [hre]
  congr 1
  ring

/-- **`fraunhofer_power` for Jones-matrix wavefronts**: the Stokes-`I` power is conserved as well. -/
theorem fraunhofer_stokes_power (P : Propagator ι κ 2) (wf : Wavefront ι (Fin 2 × Fin 2)) (S : Fin 4 → ℝ)
    (hpos : 0 < wf.wavelength * P.focalLength wf.wavelength)
    (hPars : ParsevalOn (P.ft wf.wavelength) P.pupil (P.uvGrid wf.wavelength)) :
    stokesPower P.focal.weights S (P.forward wf).field = stokesPower P.pupil.weights S wf.field := by
  rw [stokesPower_eq_re, stokesPower_eq_re]
  simp only [fraunhofer_inner P wf hpos hPars]

/-- **`fraunhofer_inverse`.** On the full conjugate grid backward propagation restores the input wavefront
(field, wavelength and Stokes vector). -/
theorem fraunhofer_inverse (P : Propagator ι κ d) (wf : Wavefront ι τ)
    (hne : wf.wavelength * P.focalLength wf.wavelength ≠ 0)
    (hInv : InverseOn (P.ft wf.wavelength)) :
    P.backward (P.forward wf) = wf := by
  unfold Propagator.backward Propagator.forward
  cases wf with
  | mk field lam stokes =>
    simp only [Wavefront.mk.injEq, and_true]
    funext t
    rw [map_smul, hInv, smul_smul, inv_mul_cancel₀ (normFactorC_ne_zero hne), one_smul]

/-! ## one propagator object used repeatedly

`forward`/`backward` are functions of the propagator's *current* fields and of the wavefront: no call leaves
anything behind that a later call could see (the real object's scratch arrays and instance cache must be
transparent — C05 proves that for the cache; the harness replays call sequences on one object).  The setter
`prop.focal_length = g` replaces the focal length and, having cleared the cache, the transforms. -/

/-- `prop.focal_length = g`: new focal length, transforms rebuilt by `make_instance` on the next call. -/
def Propagator.setFocalLength (P : Propagator ι κ d) (g : ℝ → ℝ) (ft' : ℝ → FourierTransform ι κ) :
    Propagator ι κ d :=
  { P with focalLength := g, ft := ft' }

/-- After the setter, forward is the Fourier integral for the **new** focal length (constant or
wavelength-dependent) — nothing of the old one survives, whatever was propagated before. -/
theorem fraunhofer_eq_integral_after_set (P : Propagator ι κ d) (g : ℝ → ℝ) (ft' : ℝ → FourierTransform ι κ)
    (hT : (P.setFocalLength g ft').TransformsCorrect) (wf : Wavefront ι τ) (t : τ) (k : κ) :
    ((P.setFocalLength g ft').forward wf).field t k
      = 1 / (I * (wf.wavelength : ℂ) * (g wf.wavelength : ℂ))
        * ∑ j, wf.field t j * (P.pupil.weights j : ℂ)
            * cexp (-(2 * (Real.pi : ℂ) * I * ((dot (P.focal.pts k) (P.pupil.pts j) : ℝ) : ℂ))
                / ((wf.wavelength : ℂ) * (g wf.wavelength : ℂ))) :=
  fraunhofer_eq_integral (P.setFocalLength g ft') hT wf t k

/-- The last assignment wins. -/
theorem setFocalLength_setFocalLength (P : Propagator ι κ d) (g h : ℝ → ℝ) (f1 f2 : ℝ → FourierTransform ι κ) :
    (P.setFocalLength g f1).setFocalLength h f2 = P.setFocalLength h f2 := rfl

/-- **Backward is the adjoint Fourier integral** (two dimensions), for any focal grid on which the selected
transform's `backward` evaluates the adjoint sum (C02 `adjoint_sum`):
`E_back(u) = i/(λf) · Σ_x E(x) w_focal(x) exp(+2πi x·u/(λf))`.  This is what the harness compares every
`backward` of a call sequence with. -/
theorem fraunhofer_backward_eq_adjoint_integral (P : Propagator ι κ 2) (wg : Wavefront κ τ)
    (hpos : 0 < wg.wavelength * P.focalLength wg.wavelength)
    (hA : EvaluatesAdjointSum (P.ft wg.wavelength) P.pupil (P.uvGrid wg.wavelength)) (t : τ) (j : ι) :
    (P.backward wg).field t j
      = I / ((wg.wavelength : ℂ) * (P.focalLength wg.wavelength : ℂ))
        * ∑ k, wg.field t k * (P.focal.weights k : ℂ)
            * cexp (2 * (Real.pi : ℂ) * I * ((dot (P.focal.pts k) (P.pupil.pts j) : ℝ) : ℂ)
                / ((wg.wavelength : ℂ) * (P.focalLength wg.wavelength : ℂ))) := by
  unfold Propagator.backward
  simp only [Pi.smul_apply, smul_eq_mul]
  rw [hA (wg.field t) j]
  have hlf : ((wg.wavelength : ℂ) * (P.focalLength wg.wavelength : ℂ)) ≠ 0 := by exact_mod_cast hpos.ne'
  have hl : (wg.wavelength : ℂ) ≠ 0 := left_ne_zero_of_mul hlf
  have hf : (P.focalLength wg.wavelength : ℂ) ≠ 0 := right_ne_zero_of_mul hlf
  have hpi : ((2 * Real.pi : ℝ) : ℂ) ≠ 0 := by
    have : (2 * Real.pi) ≠ 0 := by positivity
    exact_mod_cast this
  rw [Finset.mul_sum, Finset.mul_sum, Finset.mul_sum]
  apply Finset.sum_congr rfl
  intro k _
  rw [focal_weight_eq P wg.wavelength hpos k, uv_dot]
  have hexp : cexp (I * ((2 * Real.pi * dot (P.focal.pts k) (P.pupil.pts j) / (wg.wavelength * P.focalLength wg.wavelength) : ℝ) : ℂ))
      = cexp (2 * (Real.pi : ℂ) * I * ((dot (P.focal.pts k) (P.pupil.pts j) : ℝ) : ℂ)
          / ((wg.wavelength : ℂ) * (P.focalLength wg.wavelength : ℂ))) := by
    congr 1; push_cast; ring
  rw [hexp]
  unfold normFactorC
  push_cast at hpi ⊢
  field_simp

/-- Model: the instance a call uses after any history of `focal_length` assignments is the one of the last
assigned value (unbounded histories). -/
theorem session_instance_after_sets (s : Session) (fs : List FocalSpec) (f : FocalSpec) (lam : ℚ) :
    ((fs ++ [f]).foldl Session.setFocalLength s).instanceAt lam
      = { lam := lam, f := f.eval lam, pupil := s.pupil } := by
  rw [List.foldl_append]
  simp only [List.foldl_cons, List.foldl_nil, Session.instanceAt, Session.setFocalLength]
  congr 1
  induction fs generalizing s with
  | nil => rfl
  | cons g gs ih => exact (ih (s.setFocalLength g)).trans rfl

/-! ## wavelength and Stokes vector -/

/-- **`meta_carried`.** Forward and backward copy the wavelength and the Stokes vector unchanged. -/
theorem meta_carried (P : Propagator ι κ d) (wf : Wavefront ι τ) (wg : Wavefront κ τ) :
    (P.forward wf).wavelength = wf.wavelength ∧ (P.forward wf).stokes = wf.stokes ∧
    (P.backward wg).wavelength = wg.wavelength ∧ (P.backward wg).stokes = wg.stokes :=
  ⟨rfl, rfl, rfl, rfl⟩

/-! ## the executable model's exact data are these real numbers -/

/-- The model's `normFactor` pair `(0, -1/(λf))` is `1/(i f λ)`. -/
theorem model_normFactor (s : Setup) :
    normFactorC (s.lam : ℝ) (s.f : ℝ) = (((normFactor s).1 : ℝ) : ℂ) + (((normFactor s).2 : ℝ) : ℂ) * I := by
  rw [normFactorC_eq]
  unfold normFactor lamf
  push_cast
  ring

/-- The model's `uvScaleTurns` is the uv scale factor in units of 2π. -/
theorem model_uvScale (s : Setup) :
    uvScaleR (s.lam : ℝ) (s.f : ℝ) = 2 * Real.pi * ((uvScaleTurns s : ℚ) : ℝ) := by
  unfold uvScaleR uvScaleTurns lamf
  push_cast
  rw [mul_comm (s.f : ℝ)]
  ring

/-- The model's predicted power gain on a full conjugate grid is exactly one in two dimensions:
with `Δ_i = λf/(M_i δ_i)` the product `|norm|² · w_pupil · M_x M_y · w_focal` equals `1`. -/
theorem model_powerGain_eq_one (lf δx δy : ℚ) (Mx My : ℕ) (hlf : 0 < lf) (hx : 0 < δx) (hy : 0 < δy)
    (hMx : 0 < Mx) (hMy : 0 < My) :
    (1 / lf) * (1 / lf) * (δx * δy) * ((Mx : ℚ) * (My : ℚ)) * ((lf / (δx * Mx)) * (lf / (δy * My))) = 1 := by
  have h1 : (Mx : ℚ) ≠ 0 := by exact_mod_cast hMx.ne'
  have h2 : (My : ℚ) ≠ 0 := by exact_mod_cast hMy.ne'
  field_simp

/-! ## the hypotheses are satisfiable -/

/-- `TransformsCorrect` is satisfiable for every pupil and focal grid: take the transform *defined* as the
weighted Fourier sum (hcipy's `NaiveFourierTransform`). -/
example (pupil : Grid ι d) (focal : Grid κ d) (f : ℝ → ℝ) :
    ∃ P : Propagator ι κ d, P.pupil = pupil ∧ P.focal = focal ∧ P.focalLength = f ∧ P.TransformsCorrect := by
  refine ⟨{ pupil := pupil, focal := focal, focalLength := f,
            ft := fun lam => { fwd := { toFun := fun E k => fourierSum pupil ((focal.scaled (uvScaleR lam (f lam))).pts k) E,
                                        map_add' := ?_, map_smul' := ?_ },
                               bwd := 0 } }, rfl, rfl, rfl, fun lam E k => rfl⟩
  · intro x y; funext k
    simp only [fourierSum, Pi.add_apply, ← Finset.sum_add_distrib]
    apply Finset.sum_congr rfl; intro j _; ring
  · intro a x; funext k
    simp only [fourierSum, Pi.smul_apply, smul_eq_mul, RingHom.id_apply, Finset.mul_sum]
    apply Finset.sum_congr rfl; intro j _; ring

/-- `ParsevalOn` and `InverseOn` are satisfiable together in two dimensions: one pupil sample of weight `1`
at the origin, one uv sample of weight `(2π)²`; the transform is the identity. -/
example : ∃ (T : FourierTransform Unit Unit) (pupil uv : Grid Unit 2),
    EvaluatesFourierSum T pupil uv ∧ ParsevalOn T pupil uv ∧ InverseOn T := by
  refine ⟨{ fwd := LinearMap.id, bwd := LinearMap.id }, { pts := fun _ _ => 0, weights := fun _ => 1 },
    { pts := fun _ _ => 0, weights := fun _ => (2 * Real.pi) ^ 2 }, ?_, ?_, fun _ => rfl⟩
  · intro E k
    simp [fourierSum, dot]
  · intro E G
    simp [wip]
    ring

/-! ## the Fourier hypotheses discharged: the FFT model of C01/C02 (`Lemmas/FourierLink.lean`)

`fftPropagator` is a Fraunhofer propagator between the regular pupil grid of two axis configurations
`gy gx : Cfg ℝ ℂ` (sizes `N`, padded sizes `M`, output sizes `Mo`, spacings, offsets, shifts — the data of a
`FastFourierTransform`, `AxisOK` = `N ≤ M`, `Mo ≤ M`, `Δ·M·δ = 2π`, weight `δ`) and the focal grid that is
FFT-native at the wavelength `lam0`; its transform is the *model of the code*: the literal 2-D pipelines
`fastForward2` / `fastBackward2` (zero padding, (emulated) fftshifts, `fftn`, cropping, multipliers).
The theorems below carry no hypothesis about the Fourier transform any more. -/

section fft
open HcipyVerif.Fft HcipyVerif.FourierLink

/-- `fraunhofer_eq_integral` needs the C01 hypothesis only at the wavelength of the wavefront. -/
theorem fraunhofer_eq_integral_at (P : Propagator ι κ d) (wf : Wavefront ι τ)
    (hT : EvaluatesFourierSum (P.ft wf.wavelength) P.pupil (P.uvGrid wf.wavelength)) (t : τ) (k : κ) :
    (P.forward wf).field t k
      = 1 / (I * (wf.wavelength : ℂ) * (P.focalLength wf.wavelength : ℂ))
        * ∑ j, wf.field t j * (P.pupil.weights j : ℂ)
            * cexp (-(2 * (Real.pi : ℂ) * I * ((dot (P.focal.pts k) (P.pupil.pts j) : ℝ) : ℂ))
                / ((wf.wavelength : ℂ) * (P.focalLength wf.wavelength : ℂ))) := by
  unfold Propagator.forward
  simp only [Pi.smul_apply, smul_eq_mul]
  rw [hT (wf.field t) k]
  unfold fourierSum normFactorC
  congr 1
  · rw [mul_right_comm]
  · apply Finset.sum_congr rfl
    intro j _
    rw [uv_dot]
    congr 2
    push_cast
    ring

/-- The propagator built on the FFT model: pupil grid of `(gy, gx)`, focal grid FFT-native at `lam0`. -/
noncomputable def fftPropagator (gy gx : Cfg ℝ ℂ) (oky : AxisOK gy) (okx : AxisOK gx) (hemu : gy.emu = gx.emu)
    (f lam0 : ℝ) : Propagator (Fin gy.N × Fin gx.N) (Fin gy.Mo × Fin gx.Mo) 2 :=
  { pupil := pupilGrid2 gy gx
    focal := (uvGrid2 gy gx).scaled (uvScaleR lam0 f)⁻¹
    focalLength := fun _ => f
    ft := fun _ => fftTransform2 gy gx oky okx hemu }

/-- at `lam0` the uv grid of the propagator is the FFT's own output grid -/
theorem fftPropagator_uvGrid (gy gx : Cfg ℝ ℂ) (oky : AxisOK gy) (okx : AxisOK gx) (hemu : gy.emu = gx.emu)
    (f lam0 : ℝ) (hpos : 0 < lam0 * f) :
    (fftPropagator gy gx oky okx hemu f lam0).uvGrid lam0 = uvGrid2 gy gx := by
  have hs : 0 < uvScaleR lam0 f := uvScaleR_pos hpos
  unfold Propagator.uvGrid fftPropagator Grid.scaled
  simp only
  congr 1
  · funext k i
    rw [← mul_assoc, mul_inv_cancel₀ hs.ne', one_mul]
    rfl
  · funext k
    rw [← mul_assoc, ← mul_pow, abs_inv, mul_inv_cancel₀ (abs_pos.mpr hs.ne').ne', one_pow, one_mul]
    rfl

/-- **`fraunhofer_eq_integral` for the FFT model**: on every consistent FFT grid (any padding `q`, cropping
`fov`, shift, either `emulate_fftshifts` setting) the propagated field is the scaled Fourier integral. -/
theorem fraunhofer_eq_integral_fft (gy gx : Cfg ℝ ℂ) (oky : AxisOK gy) (okx : AxisOK gx) (hemu : gy.emu = gx.emu)
    (f lam0 : ℝ) (hpos : 0 < lam0 * f) (wf : Wavefront (Fin gy.N × Fin gx.N) τ) (hwl : wf.wavelength = lam0)
    (t : τ) (k : Fin gy.Mo × Fin gx.Mo) :
    ((fftPropagator gy gx oky okx hemu f lam0).forward wf).field t k
      = 1 / (I * (lam0 : ℂ) * (f : ℂ))
        * ∑ j, wf.field t j * ((gy.δ * gx.δ : ℝ) : ℂ)
            * cexp (-(2 * (Real.pi : ℂ) * I
                * ((dot ((fftPropagator gy gx oky okx hemu f lam0).focal.pts k) ((pupilGrid2 gy gx).pts j) : ℝ) : ℂ))
                / ((lam0 : ℂ) * (f : ℂ))) := by
  have hT : EvaluatesFourierSum ((fftPropagator gy gx oky okx hemu f lam0).ft wf.wavelength)
      (fftPropagator gy gx oky okx hemu f lam0).pupil
      ((fftPropagator gy gx oky okx hemu f lam0).uvGrid wf.wavelength) := by
    rw [hwl, fftPropagator_uvGrid gy gx oky okx hemu f lam0 hpos]
    exact fft2_evaluates gy gx oky okx hemu
  have h := fraunhofer_eq_integral_at (fftPropagator gy gx oky okx hemu f lam0) wf hT t k
  rw [hwl] at h
  exact h

/-- **`fraunhofer_power` for the FFT model** on the full conjugate pair (`fov = 1` on both axes). -/
theorem fraunhofer_power_fft (gy gx : Cfg ℝ ℂ) (oky : AxisOK gy) (okx : AxisOK gx) (hemu : gy.emu = gx.emu)
    (hfy : gy.Mo = gy.M) (hfx : gx.Mo = gx.M)
    (f lam0 : ℝ) (hpos : 0 < lam0 * f) (wf : Wavefront (Fin gy.N × Fin gx.N) τ) (hwl : wf.wavelength = lam0) :
    ∑ t, power (fftPropagator gy gx oky okx hemu f lam0).focal.weights
        (((fftPropagator gy gx oky okx hemu f lam0).forward wf).field t)
      = ∑ t, power (pupilGrid2 gy gx).weights (wf.field t) := by
  apply fraunhofer_power (fftPropagator gy gx oky okx hemu f lam0) wf
  · rw [hwl]; exact hpos
  · rw [hwl, fftPropagator_uvGrid gy gx oky okx hemu f lam0 hpos]
    exact fft2_parseval gy gx oky okx hemu hfy hfx

/-- … and for Jones-matrix wavefronts with a Stokes vector. -/
theorem fraunhofer_stokes_power_fft (gy gx : Cfg ℝ ℂ) (oky : AxisOK gy) (okx : AxisOK gx) (hemu : gy.emu = gx.emu)
    (hfy : gy.Mo = gy.M) (hfx : gx.Mo = gx.M) (f lam0 : ℝ) (hpos : 0 < lam0 * f)
    (wf : Wavefront (Fin gy.N × Fin gx.N) (Fin 2 × Fin 2)) (S : Fin 4 → ℝ) (hwl : wf.wavelength = lam0) :
    stokesPower (fftPropagator gy gx oky okx hemu f lam0).focal.weights S
        ((fftPropagator gy gx oky okx hemu f lam0).forward wf).field
      = stokesPower (pupilGrid2 gy gx).weights S wf.field := by
  apply fraunhofer_stokes_power (fftPropagator gy gx oky okx hemu f lam0) wf S
  · rw [hwl]; exact hpos
  · rw [hwl, fftPropagator_uvGrid gy gx oky okx hemu f lam0 hpos]
    exact fft2_parseval gy gx oky okx hemu hfy hfx

/-- **`fraunhofer_inverse` for the FFT model** on the full conjugate pair. -/
theorem fraunhofer_inverse_fft (gy gx : Cfg ℝ ℂ) (oky : AxisOK gy) (okx : AxisOK gx) (hemu : gy.emu = gx.emu)
    (hfy : gy.Mo = gy.M) (hfx : gx.Mo = gx.M)
    (f lam0 : ℝ) (hpos : 0 < lam0 * f) (wf : Wavefront (Fin gy.N × Fin gx.N) τ) (hwl : wf.wavelength = lam0) :
    (fftPropagator gy gx oky okx hemu f lam0).backward ((fftPropagator gy gx oky okx hemu f lam0).forward wf) = wf := by
  apply fraunhofer_inverse (fftPropagator gy gx oky okx hemu f lam0) wf
  · rw [hwl]; exact hpos.ne'
  · exact fft2_inverse gy gx oky okx hemu hfy hfx

/-- The transform *defined* as the weighted Fourier sum (`NaiveFourierTransform`; C01 shows that
`MatrixFourierTransform` and `ZoomFastFourierTransform` compute the same numbers). -/
noncomputable def naiveTransform (pupil : Grid ι d) (uv : Grid κ d) : FourierTransform ι κ :=
  { fwd := { toFun := fun E k => fourierSum pupil (uv.pts k) E
             map_add' := by
               intro x y; funext k
               simp only [fourierSum, Pi.add_apply, ← Finset.sum_add_distrib]
               apply Finset.sum_congr rfl; intro j _; ring
             map_smul' := by
               intro a x; funext k
               simp only [fourierSum, Pi.smul_apply, smul_eq_mul, RingHom.id_apply, Finset.mul_sum]
               apply Finset.sum_congr rfl; intro j _; ring }
    bwd := { toFun := fun G j => (((2 * Real.pi) ^ d : ℝ) : ℂ)⁻¹ *
                ∑ k, G k * (uv.weights k : ℂ) * cexp (I * ((dot (uv.pts k) (pupil.pts j) : ℝ) : ℂ))
             map_add' := by
               intro x y; funext j
               simp only [Pi.add_apply, ← mul_add, ← Finset.sum_add_distrib]
               congr 1
               apply Finset.sum_congr rfl; intro k _; ring
             map_smul' := by
               intro a x; funext j
               simp only [Pi.smul_apply, smul_eq_mul, RingHom.id_apply, Finset.mul_sum]
               apply Finset.sum_congr rfl; intro k _; ring } }

/-- What `make_fourier_transform` does for a lens: the FFT (model) at the wavelength for which the focal grid
is FFT-native, the defining sum at every other wavelength. -/
noncomputable def autoPropagator (gy gx : Cfg ℝ ℂ) (oky : AxisOK gy) (okx : AxisOK gx) (hemu : gy.emu = gx.emu)
    (f lam0 : ℝ) : Propagator (Fin gy.N × Fin gx.N) (Fin gy.Mo × Fin gx.Mo) 2 := by
  classical
  exact
  { pupil := pupilGrid2 gy gx
    focal := (uvGrid2 gy gx).scaled (uvScaleR lam0 f)⁻¹
    focalLength := fun _ => f
    ft := fun lam => if lam = lam0 then fftTransform2 gy gx oky okx hemu
      else naiveTransform (pupilGrid2 gy gx) (((uvGrid2 gy gx).scaled (uvScaleR lam0 f)⁻¹).scaled (uvScaleR lam f)) }

/-- **`Propagator.TransformsCorrect` discharged**: every wavelength, FFT branch by C01. -/
theorem autoPropagator_transformsCorrect (gy gx : Cfg ℝ ℂ) (oky : AxisOK gy) (okx : AxisOK gx)
    (hemu : gy.emu = gx.emu) (f lam0 : ℝ) (hpos : 0 < lam0 * f) :
    (autoPropagator gy gx oky okx hemu f lam0).TransformsCorrect := by
  intro lam
  by_cases h : lam = lam0
  · subst h
    have hu : (autoPropagator gy gx oky okx hemu f lam).uvGrid lam = uvGrid2 gy gx :=
      fftPropagator_uvGrid gy gx oky okx hemu f lam hpos
    rw [hu]
    have hft : (autoPropagator gy gx oky okx hemu f lam).ft lam = fftTransform2 gy gx oky okx hemu := by
      unfold autoPropagator; simp
    rw [hft]
    exact fft2_evaluates gy gx oky okx hemu
  · have hft : (autoPropagator gy gx oky okx hemu f lam0).ft lam
        = naiveTransform (pupilGrid2 gy gx) (((uvGrid2 gy gx).scaled (uvScaleR lam0 f)⁻¹).scaled (uvScaleR lam f)) := by
      unfold autoPropagator; simp [h]
    rw [hft]
    intro E k
    rfl

/-- **`fraunhofer_eq_integral` with no hypothesis left**, every wavelength, every wavefront. -/
theorem fraunhofer_eq_integral_auto (gy gx : Cfg ℝ ℂ) (oky : AxisOK gy) (okx : AxisOK gx) (hemu : gy.emu = gx.emu)
    (f lam0 : ℝ) (hpos : 0 < lam0 * f) (wf : Wavefront (Fin gy.N × Fin gx.N) τ) (t : τ)
    (k : Fin gy.Mo × Fin gx.Mo) :
    ((autoPropagator gy gx oky okx hemu f lam0).forward wf).field t k
      = 1 / (I * (wf.wavelength : ℂ) * (f : ℂ))
        * ∑ j, wf.field t j * ((gy.δ * gx.δ : ℝ) : ℂ)
            * cexp (-(2 * (Real.pi : ℂ) * I
                * ((dot ((autoPropagator gy gx oky okx hemu f lam0).focal.pts k) ((pupilGrid2 gy gx).pts j) : ℝ) : ℂ))
                / ((wf.wavelength : ℂ) * (f : ℂ))) :=
  fraunhofer_eq_integral (autoPropagator gy gx oky okx hemu f lam0)
    (autoPropagator_transformsCorrect gy gx oky okx hemu f lam0 hpos) wf t k

/-- `EvaluatesAdjointSum` for the propagator of `make_fourier_transform`'s choices, every wavelength:
FFT branch by C01/C02 (`fft2_adjoint`), defining-sum branch by definition. -/
theorem autoPropagator_adjointCorrect (gy gx : Cfg ℝ ℂ) (oky : AxisOK gy) (okx : AxisOK gx)
    (hemu : gy.emu = gx.emu) (f lam0 : ℝ) (hpos : 0 < lam0 * f) (lam : ℝ) :
    EvaluatesAdjointSum ((autoPropagator gy gx oky okx hemu f lam0).ft lam)
      (autoPropagator gy gx oky okx hemu f lam0).pupil ((autoPropagator gy gx oky okx hemu f lam0).uvGrid lam) := by
  by_cases h : lam = lam0
  · subst h
    have hu : (autoPropagator gy gx oky okx hemu f lam).uvGrid lam = uvGrid2 gy gx :=
      fftPropagator_uvGrid gy gx oky okx hemu f lam hpos
    rw [hu]
    have hft : (autoPropagator gy gx oky okx hemu f lam).ft lam = fftTransform2 gy gx oky okx hemu := by
      unfold autoPropagator; simp
    rw [hft]
    exact fft2_adjoint gy gx oky okx hemu
  · have hft : (autoPropagator gy gx oky okx hemu f lam0).ft lam
        = naiveTransform (pupilGrid2 gy gx) (((uvGrid2 gy gx).scaled (uvScaleR lam0 f)⁻¹).scaled (uvScaleR lam f)) := by
      unfold autoPropagator; simp [h]
    rw [hft]
    intro G j
    rfl

/-- **`fraunhofer_backward_eq_adjoint_integral` for the FFT model**: on every consistent FFT grid
(cropped or not, either shift setting) `backward` is the adjoint Fourier integral
`i/(λf)·Σ_x E(x) w_focal(x) exp(+2πi x·u/(λf))`. -/
theorem fraunhofer_backward_eq_adjoint_integral_fft (gy gx : Cfg ℝ ℂ) (oky : AxisOK gy) (okx : AxisOK gx)
    (hemu : gy.emu = gx.emu) (f lam0 : ℝ) (hpos : 0 < lam0 * f)
    (wg : Wavefront (Fin gy.Mo × Fin gx.Mo) τ) (hwl : wg.wavelength = lam0) (t : τ) (j : Fin gy.N × Fin gx.N) :
    ((fftPropagator gy gx oky okx hemu f lam0).backward wg).field t j
      = I / ((lam0 : ℂ) * (f : ℂ))
        * ∑ k, wg.field t k * ((fftPropagator gy gx oky okx hemu f lam0).focal.weights k : ℂ)
            * cexp (2 * (Real.pi : ℂ) * I
                * ((dot ((fftPropagator gy gx oky okx hemu f lam0).focal.pts k) ((pupilGrid2 gy gx).pts j) : ℝ) : ℂ)
                / ((lam0 : ℂ) * (f : ℂ))) := by
  have hA : EvaluatesAdjointSum ((fftPropagator gy gx oky okx hemu f lam0).ft wg.wavelength)
      (fftPropagator gy gx oky okx hemu f lam0).pupil
      ((fftPropagator gy gx oky okx hemu f lam0).uvGrid wg.wavelength) := by
    rw [hwl, fftPropagator_uvGrid gy gx oky okx hemu f lam0 hpos]
    exact fft2_adjoint gy gx oky okx hemu
  have h := fraunhofer_backward_eq_adjoint_integral (fftPropagator gy gx oky okx hemu f lam0) wg
    (by rw [hwl]; exact hpos) hA t j
  rw [hwl] at h
  exact h

/-- … and with no hypothesis about the transform at all: every wavelength with `λ f > 0`. -/
theorem fraunhofer_backward_eq_adjoint_integral_auto (gy gx : Cfg ℝ ℂ) (oky : AxisOK gy) (okx : AxisOK gx)
    (hemu : gy.emu = gx.emu) (f lam0 : ℝ) (hpos : 0 < lam0 * f)
    (wg : Wavefront (Fin gy.Mo × Fin gx.Mo) τ) (hwpos : 0 < wg.wavelength * f) (t : τ) (j : Fin gy.N × Fin gx.N) :
    ((autoPropagator gy gx oky okx hemu f lam0).backward wg).field t j
      = I / ((wg.wavelength : ℂ) * (f : ℂ))
        * ∑ k, wg.field t k * ((autoPropagator gy gx oky okx hemu f lam0).focal.weights k : ℂ)
            * cexp (2 * (Real.pi : ℂ) * I
                * ((dot ((autoPropagator gy gx oky okx hemu f lam0).focal.pts k) ((pupilGrid2 gy gx).pts j) : ℝ) : ℂ)
                / ((wg.wavelength : ℂ) * (f : ℂ))) :=
  fraunhofer_backward_eq_adjoint_integral (autoPropagator gy gx oky okx hemu f lam0) wg hwpos
    (autoPropagator_adjointCorrect gy gx oky okx hemu f lam0 hpos wg.wavelength) t j

/-- Assigning a new (constant) focal length `f₂` to the propagator and rebuilding its transforms gives the
propagator of the new focal length: the focal grid is then FFT-native at `λ₀ f / f₂`. -/
theorem autoPropagator_setFocalLength (gy gx : Cfg ℝ ℂ) (oky : AxisOK gy) (okx : AxisOK gx)
    (hemu : gy.emu = gx.emu) (f lam0 f2 : ℝ) (hf2 : f2 ≠ 0) :
    (autoPropagator gy gx oky okx hemu f lam0).setFocalLength (fun _ => f2)
        (autoPropagator gy gx oky okx hemu f2 (lam0 * f / f2)).ft
      = autoPropagator gy gx oky okx hemu f2 (lam0 * f / f2) := by
  have hs : uvScaleR (lam0 * f / f2) f2 = uvScaleR lam0 f := by
    unfold uvScaleR
    congr 1
    field_simp
  unfold Propagator.setFocalLength autoPropagator
  simp only [hs]

/-- **`fraunhofer_eq_integral_after_set` with no hypothesis left**: after `focal_length = f₂` the forward
propagation is the Fourier integral for `f₂`, at every wavelength. -/
theorem fraunhofer_eq_integral_after_set_auto (gy gx : Cfg ℝ ℂ) (oky : AxisOK gy) (okx : AxisOK gx)
    (hemu : gy.emu = gx.emu) (f lam0 f2 : ℝ) (hpos : 0 < lam0 * f) (hf2 : f2 ≠ 0)
    (wf : Wavefront (Fin gy.N × Fin gx.N) τ) (t : τ) (k : Fin gy.Mo × Fin gx.Mo) :
    (((autoPropagator gy gx oky okx hemu f lam0).setFocalLength (fun _ => f2)
        (autoPropagator gy gx oky okx hemu f2 (lam0 * f / f2)).ft).forward wf).field t k
      = 1 / (I * (wf.wavelength : ℂ) * (f2 : ℂ))
        * ∑ j, wf.field t j * ((pupilGrid2 gy gx).weights j : ℂ)
            * cexp (-(2 * (Real.pi : ℂ) * I
                * ((dot ((autoPropagator gy gx oky okx hemu f lam0).focal.pts k) ((pupilGrid2 gy gx).pts j) : ℝ) : ℂ))
                / ((wf.wavelength : ℂ) * (f2 : ℂ))) := by
  have hT : ((autoPropagator gy gx oky okx hemu f lam0).setFocalLength (fun _ => f2)
      (autoPropagator gy gx oky okx hemu f2 (lam0 * f / f2)).ft).TransformsCorrect := by
    rw [autoPropagator_setFocalLength gy gx oky okx hemu f lam0 f2 hf2]
    apply autoPropagator_transformsCorrect
    have : lam0 * f / f2 * f2 = lam0 * f := by field_simp
    rw [this]; exact hpos
  exact fraunhofer_eq_integral_after_set (autoPropagator gy gx oky okx hemu f lam0) (fun _ => f2) _ hT wf t k

/-- Non-vacuity: a consistent full pair exists (`N = 2`, `M = Mo = 4`, `δ = 1/2`, `dT = 1/2` on both axes). -/
example : ∃ g : Cfg ℝ ℂ, AxisOK g ∧ g.Mo = g.M :=
  ⟨{ N := 2, M := 4, Mo := 4, δ := 1 / 2, z := 0, dT := 1 / 2, s := 0, w := ((1 / 2 : ℝ) : ℂ), emu := false },
    ⟨by norm_num, by norm_num, by norm_num, rfl⟩, rfl⟩

end fft

end HcipyVerif.Fraunhofer
