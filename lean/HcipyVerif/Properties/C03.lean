import HcipyVerif.Lemmas.FraunhoferAbstract
import HcipyVerif.Lemmas.FraunhoferObj

/-!
# C03 — lens (Fraunhofer) propagation equals the scaled Fourier integral

Property theorems about the definitions the native driver executes (`Model/Fraunhofer.lean`, `Model/FraunhoferPipe.lean`,
`Model/FraunhoferObj.lean`), at `ℝ`/`ℂ`:

* the executed **pipeline** `lensForward`/`lensBackward` (selection → FFT or MFT pipeline of C01 → norm factor),
  `lensNaiveForward`/`lensNaiveBackward` (C01's naive transform for unstructured / polar focal grids),
  `lensMftForward` (separated grids);
* the executed **propagator object** `LensProp.forward/backward` on a whole wavefront record `Wf` (every tensor
  component, wavelength, Stokes vector; `focal_length` setter histories);
* the executable ℚ bookkeeping (`classify`, `lensMethod`, `planOf`, `lensObj`, the two focal-grid constructors,
  `Session`), and the allocation model `runCalls` (object identity of results).

The abstract, hypothesis-carrying layer (a propagator over an abstract Fourier transform; the `_fft/_mft/_sel` propagator
wrappers; Stokes algebra) is in `Lemmas/FraunhoferAbstract.lean` and is used here as lemmas only.
-/

set_option linter.unusedSimpArgs false
set_option linter.unusedVariables false
set_option linter.unusedSectionVars false

open Finset Complex ComplexConjugate

namespace HcipyVerif.Fraunhofer

variable {ι κ τ : Type*} [Fintype ι] [Fintype κ] [Fintype τ] {d : ℕ}

/-! ## the executable session -/

/-- Executable model (driver ops `session`/`setf`/`at`, compared with the instance the running object uses after the
same assignments): after any history of `focal_length` assignments the instance of a call is the one of the last
assigned value (unbounded histories).  The model keeps no cache, so this is a fold over overwrites; the content
is in the comparison with the real object, whose cache must be cleared by the setter. -/
theorem session_instance_after_sets (s : Session) (fs : List FocalSpec) (f : FocalSpec) (lam : ℚ) :
    ((fs ++ [f]).foldl Session.setFocalLength s).instanceAt lam
      = { lam := lam, f := f.eval lam, pupil := s.pupil } := by
  rw [List.foldl_append]
  simp only [List.foldl_cons, List.foldl_nil, Session.instanceAt, Session.setFocalLength]
  congr 1
  induction fs generalizing s with
  | nil => rfl
  | cons g gs ih => exact (ih (s.setFocalLength g)).trans rfl

/-! ## the executable model's exact data are these real numbers -/

/-- The model's `normFactor` pair `(0, -1/(λf))` is `1/(i f λ)`. -/
theorem model_normFactor (s : Setup) :
    normFactorC (s.lam : ℝ) (s.f : ℝ) = (((normFactor s).1 : ℝ) : ℂ) + (((normFactor s).2 : ℝ) : ℂ) * I := by
  rw [normFactorC_eq]
  unfold normFactor lamf
  push_cast
  ring

/-- The model's `uvScaleTurns` is the uv scale factor in units of 2π. -/
theorem model_uvScale (s : Setup) :
    uvScaleR (s.lam : ℝ) (s.f : ℝ) = 2 * Real.pi * ((uvScaleTurns s : ℚ) : ℝ) := by
  unfold uvScaleR uvScaleTurns lamf
  push_cast
  rw [mul_comm (s.f : ℝ)]
  ring

/-! ## the executed pipeline

The theorems of this section speak about the **very functions the native driver runs** on every check
(`Model/FraunhoferPipe.lean`: `lensForward`/`lensBackward` = selection result → `lensCfg` → `fastForward2` /
`lensMftForward` → norm factor; `Fft.choose detectFix`; `classify`; `lensMethod`), here at `K = ℝ`, `C = ℂ`, `T = expT`,
`E = expE`, `unit = 2π`; the driver runs them at `Rat`/`PSum`/`PSum.turns`/`unit = 1` on unit impulses and the harness
compares the outcome with `FraunhoferPropagator.forward/backward` of the running code (op `lens`).
`numFft`, `My Mx` are the inputs the executable selection takes from `classify` and `cheaper` is the planner's
outcome (any value). -/
section pipeline
open HcipyVerif.Fft HcipyVerif.FourierLink

/-- **The executed forward pipeline equals the scaled Fourier integral**, whatever method the modelled
`make_fourier_transform` returns from sound inputs (`hn`: `numFft` only if the uv grid is FFT-native with padded sizes
`My Mx`), every wavelength and focal length (also `λ f < 0`), both shift settings, every focal point. -/
theorem lens_forward_eq_integral (py px Fy Fx : RegAxis) (lam f : ℝ) (My Mx : ℕ) (emu numFft cheaper : Bool) (m : Method)
    (hm : (Fft.choose detectFix regDesc (some ⟨regDesc, numFft⟩) cheaper).map (·.method) = some m)
    (hn : numFft = true → lam * f ≠ 0 ∧ NativeAxis py Fy (lam * f) My ∧ NativeAxis px Fx (lam * f) Mx)
    (E : Fin py.n × Fin px.n → ℂ) (k : Fin Fy.n × Fin Fx.n) :
    lensForward expT expE (2 * Real.pi) Complex.ofReal (normFactorC lam f) m emu (axOf py) (axOf px) (axOf Fy) (axOf Fx)
        (lam * f) My Mx (ext2 E) k.1 k.2
      = 1 / (I * (lam : ℂ) * (f : ℂ))
        * ∑ j : Fin py.n × Fin px.n, E j * ((py.δ * px.δ : ℝ) : ℂ)
            * cexp (-(2 * (Real.pi : ℂ) * I * ((dot ![Fx.x k.2, Fy.x k.1] ![px.x j.2, py.x j.1] : ℝ) : ℂ))
                / ((lam : ℂ) * (f : ℂ))) := by
  obtain ⟨T, hT, _, hF, _⟩ := lens_transform py px Fy Fx (lam * f) My Mx emu numFft cheaper m hm hn
  rw [hF]
  exact fraunhofer_eq_integral_at (τ := Unit) ⟨regGrid2 py px, regGrid2 Fy Fx, fun _ => f, fun _ => T⟩
    ⟨fun _ => E, lam, none⟩ (by
      show EvaluatesFourierSum T (regGrid2 py px) ((regGrid2 Fy Fx).scaled (uvScaleR lam f))
      rw [uvScaleR_eq]; exact hT) () k

/-- **The executed backward pipeline is the adjoint Fourier integral** (`λ f > 0`, positive focal spacings). -/
theorem lens_backward_eq_adjoint_integral (py px Fy Fx : RegAxis) (lam f : ℝ) (My Mx : ℕ) (emu numFft cheaper : Bool)
    (m : Method)
    (hm : (Fft.choose detectFix regDesc (some ⟨regDesc, numFft⟩) cheaper).map (·.method) = some m)
    (hn : numFft = true → lam * f ≠ 0 ∧ NativeAxis py Fy (lam * f) My ∧ NativeAxis px Fx (lam * f) Mx)
    (hpos : 0 < lam * f) (hy : 0 < Fy.δ) (hx : 0 < Fx.δ)
    (G : Fin Fy.n × Fin Fx.n → ℂ) (j : Fin py.n × Fin px.n) :
    lensBackward expT expE (starRingEnd ℂ) (2 * Real.pi) Complex.ofReal (fun r => |r|) (normFactorC lam f) m emu
        (axOf py) (axOf px) (axOf Fy) (axOf Fx) (lam * f) My Mx (ext2 G) j.1 j.2
      = I / ((lam : ℂ) * (f : ℂ))
        * ∑ k : Fin Fy.n × Fin Fx.n, G k * ((Fy.δ * Fx.δ : ℝ) : ℂ)
            * cexp (2 * (Real.pi : ℂ) * I * ((dot ![Fx.x k.2, Fy.x k.1] ![px.x j.2, py.x j.1] : ℝ) : ℂ)
                / ((lam : ℂ) * (f : ℂ))) := by
  obtain ⟨T, _, hA, _, hB⟩ := lens_transform py px Fy Fx (lam * f) My Mx emu numFft cheaper m hm hn
  rw [hB hy hx]
  exact fraunhofer_backward_eq_adjoint_integral (τ := Unit) ⟨regGrid2 py px, regGrid2 Fy Fx, fun _ => f, fun _ => T⟩
    ⟨fun _ => G, lam, none⟩ hpos (by
      show EvaluatesAdjointSum T (regGrid2 py px) ((regGrid2 Fy Fx).scaled (uvScaleR lam f))
      rw [uvScaleR_eq]; exact hA) () j

/-- **The executed forward pipeline conserves power on a full conjugate grid** (`FullAt`), whichever method was
selected. -/
theorem lens_power (py px Fy Fx : RegAxis) (lam f : ℝ) (My Mx : ℕ) (emu numFft cheaper : Bool) (m : Method)
    (hm : (Fft.choose detectFix regDesc (some ⟨regDesc, numFft⟩) cheaper).map (·.method) = some m)
    (hn : numFft = true → lam * f ≠ 0 ∧ NativeAxis py Fy (lam * f) My ∧ NativeAxis px Fx (lam * f) Mx)
    (hpos : 0 < lam * f) (hfull : FullAt py px Fy Fx (lam * f)) (E : Fin py.n × Fin px.n → ℂ) :
    power (regGrid2 Fy Fx).weights (fun k : Fin Fy.n × Fin Fx.n =>
        lensForward expT expE (2 * Real.pi) Complex.ofReal (normFactorC lam f) m emu (axOf py) (axOf px) (axOf Fy)
          (axOf Fx) (lam * f) My Mx (ext2 E) k.1 k.2)
      = power (regGrid2 py px).weights E := by
  obtain ⟨T, hT, _, hF, _⟩ := lens_transform py px Fy Fx (lam * f) My Mx emu numFft cheaper m hm hn
  have h := fraunhofer_power (τ := Unit) ⟨regGrid2 py px, regGrid2 Fy Fx, fun _ => f, fun _ => T⟩
    ⟨fun _ => E, lam, none⟩ hpos (by
      show ParsevalOn T (regGrid2 py px) ((regGrid2 Fy Fx).scaled (uvScaleR lam f))
      rw [uvScaleR_eq]; exact parseval_of_full hfull hT)
  simp only [Finset.univ_unique, Finset.sum_singleton] at h
  rw [← h]
  congr 1
  funext k
  exact hF _ E k

/-- … in inner-product form for two fields (two components of a Jones vector / Jones matrix, which
`multiplex_for_tensor_fields` sends through the same pipeline): `Σ conj(E') G' w_focal = Σ conj(E) G w_pupil`. -/
theorem lens_inner (py px Fy Fx : RegAxis) (lam f : ℝ) (My Mx : ℕ) (emu numFft cheaper : Bool) (m : Method)
    (hm : (Fft.choose detectFix regDesc (some ⟨regDesc, numFft⟩) cheaper).map (·.method) = some m)
    (hn : numFft = true → lam * f ≠ 0 ∧ NativeAxis py Fy (lam * f) My ∧ NativeAxis px Fx (lam * f) Mx)
    (hpos : 0 < lam * f) (hfull : FullAt py px Fy Fx (lam * f)) (E G : Fin py.n × Fin px.n → ℂ) :
    wip (regGrid2 Fy Fx).weights
        (fun k : Fin Fy.n × Fin Fx.n =>
          lensForward expT expE (2 * Real.pi) Complex.ofReal (normFactorC lam f) m emu (axOf py) (axOf px) (axOf Fy)
            (axOf Fx) (lam * f) My Mx (ext2 E) k.1 k.2)
        (fun k : Fin Fy.n × Fin Fx.n =>
          lensForward expT expE (2 * Real.pi) Complex.ofReal (normFactorC lam f) m emu (axOf py) (axOf px) (axOf Fy)
            (axOf Fx) (lam * f) My Mx (ext2 G) k.1 k.2)
      = wip (regGrid2 py px).weights E G := by
  obtain ⟨T, hT, _, hF, _⟩ := lens_transform py px Fy Fx (lam * f) My Mx emu numFft cheaper m hm hn
  have h := fraunhofer_inner (τ := Bool) ⟨regGrid2 py px, regGrid2 Fy Fx, fun _ => f, fun _ => T⟩
    ⟨fun b => if b then E else G, lam, none⟩ hpos (by
      show ParsevalOn T (regGrid2 py px) ((regGrid2 Fy Fx).scaled (uvScaleR lam f))
      rw [uvScaleR_eq]; exact parseval_of_full hfull hT) true false
  have hE : (fun k : Fin Fy.n × Fin Fx.n =>
      lensForward expT expE (2 * Real.pi) Complex.ofReal (normFactorC lam f) m emu (axOf py) (axOf px) (axOf Fy)
        (axOf Fx) (lam * f) My Mx (ext2 E) k.1 k.2) = normFactorC lam f • T.fwd E := by
    funext k; exact hF _ E k
  have hG : (fun k : Fin Fy.n × Fin Fx.n =>
      lensForward expT expE (2 * Real.pi) Complex.ofReal (normFactorC lam f) m emu (axOf py) (axOf px) (axOf Fy)
        (axOf Fx) (lam * f) My Mx (ext2 G) k.1 k.2) = normFactorC lam f • T.fwd G := by
    funext k; exact hF _ G k
  rw [hE, hG]
  exact h

/-- **Stokes-`I` power of a Jones-matrix wavefront through the executed pipeline** is conserved on a full conjugate
grid (each of the four components goes through `lensForward`). -/
theorem lens_stokes_power (py px Fy Fx : RegAxis) (lam f : ℝ) (My Mx : ℕ) (emu numFft cheaper : Bool) (m : Method)
    (hm : (Fft.choose detectFix regDesc (some ⟨regDesc, numFft⟩) cheaper).map (·.method) = some m)
    (hn : numFft = true → lam * f ≠ 0 ∧ NativeAxis py Fy (lam * f) My ∧ NativeAxis px Fx (lam * f) Mx)
    (hpos : 0 < lam * f) (hfull : FullAt py px Fy Fx (lam * f)) (S : Fin 4 → ℝ)
    (E : Fin 2 × Fin 2 → Fin py.n × Fin px.n → ℂ) :
    stokesPower (regGrid2 Fy Fx).weights S (fun c (k : Fin Fy.n × Fin Fx.n) =>
        lensForward expT expE (2 * Real.pi) Complex.ofReal (normFactorC lam f) m emu (axOf py) (axOf px) (axOf Fy)
          (axOf Fx) (lam * f) My Mx (ext2 (E c)) k.1 k.2)
      = stokesPower (regGrid2 py px).weights S E := by
  rw [stokesPower_eq_re, stokesPower_eq_re]
  simp only [lens_inner py px Fy Fx lam f My Mx emu numFft cheaper m hm hn hpos hfull]

/-- **Backward after forward of the executed pipeline restores the field** on a full conjugate grid. -/
theorem lens_inverse (py px Fy Fx : RegAxis) (lam f : ℝ) (My Mx : ℕ) (emu numFft cheaper : Bool) (m : Method)
    (hm : (Fft.choose detectFix regDesc (some ⟨regDesc, numFft⟩) cheaper).map (·.method) = some m)
    (hn : numFft = true → lam * f ≠ 0 ∧ NativeAxis py Fy (lam * f) My ∧ NativeAxis px Fx (lam * f) Mx)
    (hy : 0 < Fy.δ) (hx : 0 < Fx.δ) (hfull : FullAt py px Fy Fx (lam * f)) (E : Fin py.n × Fin px.n → ℂ)
    (j : Fin py.n × Fin px.n) :
    lensBackward expT expE (starRingEnd ℂ) (2 * Real.pi) Complex.ofReal (fun r => |r|) (normFactorC lam f) m emu
        (axOf py) (axOf px) (axOf Fy) (axOf Fx) (lam * f) My Mx
        (ext2 fun k : Fin Fy.n × Fin Fx.n =>
          lensForward expT expE (2 * Real.pi) Complex.ofReal (normFactorC lam f) m emu (axOf py) (axOf px) (axOf Fy)
            (axOf Fx) (lam * f) My Mx (ext2 E) k.1 k.2) j.1 j.2
      = E j := by
  obtain ⟨T, hT, hA, hF, hB⟩ := lens_transform py px Fy Fx (lam * f) My Mx emu numFft cheaper m hm hn
  have hfun : (fun k : Fin Fy.n × Fin Fx.n =>
      lensForward expT expE (2 * Real.pi) Complex.ofReal (normFactorC lam f) m emu (axOf py) (axOf px) (axOf Fy)
        (axOf Fx) (lam * f) My Mx (ext2 E) k.1 k.2) = normFactorC lam f • T.fwd E := by
    funext k; exact hF _ E k
  rw [hfun, hB hy hx, map_smul, inverse_of_full hfull hT hA E, Pi.smul_apply, smul_eq_mul, ← mul_assoc,
    inv_mul_cancel₀ (normFactorC_ne_zero hfull.1), one_mul]

/-- the hypotheses `hm`, `hn` are satisfiable with the FFT selected: pupil `2×2`, `δ = 1/2`; focal `4×4`, `Δ = 1/2`;
`λ f = 1·1`, padded sizes `4` -/
example : (Fft.choose detectFix regDesc (some ⟨regDesc, true⟩) true).map (·.method) = some Method.fft ∧
    (true = true → (1 : ℝ) * 1 ≠ 0 ∧ NativeAxis ⟨2, 1 / 2, 0⟩ ⟨4, 1 / 2, -1⟩ (1 * 1) 4 ∧
      NativeAxis ⟨2, 1 / 2, 0⟩ ⟨4, 1 / 2, -1⟩ (1 * 1) 4) := by
  refine ⟨by decide, fun _ => ⟨by norm_num, ⟨?_, ?_, ?_⟩, ⟨?_, ?_, ?_⟩⟩⟩ <;> norm_num

/-! ### … from the executable classification (ℚ model, compared with the running code on every run) -/

/-- **End to end**: for a rational setup `s` (`λ`, `f`, 2-D pupil grid) and a rational regular focal grid, the method
`lensMethod` returns and the padded sizes `classify` returns — exactly what the driver's `lensImpulse` feeds into
`lensForward` — give the scaled Fourier integral.  No hypothesis about the transform, the selection or the grids
besides `λ f ≠ 0`. -/
theorem lens_forward_eq_integral_of_model (s : Setup) (focal : RegGrid) {δx δy Δx Δy zx zy Zx Zy : ℚ}
    {Nx Ny Mox Moy : ℕ} (hp : s.pupil = ⟨[δx, δy], [Nx, Ny], [zx, zy]⟩)
    (hf : focal = ⟨[Δx, Δy], [Mox, Moy], [Zx, Zy]⟩) (hlf : lamf s ≠ 0) (cheaper emu : Bool) (m : Method)
    (hm : lensMethod s focal cheaper = some m) (Mx My : ℕ)
    (hM : (classify s focal).1 ≠ .other → (classify s focal).2 = [Mx, My])
    (E : Fin Ny × Fin Nx → ℂ) (k : Fin Moy × Fin Mox) :
    lensForward expT expE (2 * Real.pi) Complex.ofReal (normFactorC (s.lam : ℝ) (s.f : ℝ)) m emu
        (axOf (axisR Ny δy zy)) (axOf (axisR Nx δx zx)) (axOf (axisR Moy Δy Zy)) (axOf (axisR Mox Δx Zx))
        ((s.lam : ℝ) * (s.f : ℝ)) My Mx (ext2 E) k.1 k.2
      = 1 / (I * ((s.lam : ℝ) : ℂ) * ((s.f : ℝ) : ℂ))
        * ∑ j : Fin Ny × Fin Nx, E j * (((δy : ℝ) * (δx : ℝ) : ℝ) : ℂ)
            * cexp (-(2 * (Real.pi : ℂ) * I * ((dot ![(axisR Mox Δx Zx).x k.2, (axisR Moy Δy Zy).x k.1]
                  ![(axisR Nx δx zx).x j.2, (axisR Ny δy zy).x j.1] : ℝ) : ℂ))
                / (((s.lam : ℝ) : ℂ) * ((s.f : ℝ) : ℂ))) := by
  have hcast : ((lamf s : ℚ) : ℝ) = (s.lam : ℝ) * (s.f : ℝ) := by unfold lamf; push_cast; rfl
  apply lens_forward_eq_integral (axisR Ny δy zy) (axisR Nx δx zx) (axisR Moy Δy Zy) (axisR Mox Δx Zx) (s.lam : ℝ)
    (s.f : ℝ) My Mx emu ((classify s focal).1 != FocalClass.other) cheaper m
  · have h2 : s.pupil.ndim = 2 := by rw [hp]; rfl
    have h3 : focal.ndim = 2 := by rw [hf]; rfl
    unfold lensMethod at hm
    rw [h2, h3] at hm
    exact hm
  · intro hnum
    have hne : (classify s focal).1 ≠ .other := by simpa using hnum
    obtain ⟨Mx', My', hMs, ⟨hNx, hMox, hx⟩, ⟨hNy, hMoy, hy⟩⟩ := classify_native_2d hp hf hne
    have := hM hne
    rw [hMs] at this
    simp only [List.cons.injEq, and_true] at this
    obtain ⟨rfl, rfl⟩ := this
    rw [← hcast]
    exact ⟨by exact_mod_cast hlf, nativeAxis_cast hNy hMoy hy, nativeAxis_cast hNx hMox hx⟩

/-- **One propagator object after any history of `focal_length` assignments** (executable `Session`, unbounded
history `fs`, last assignment `g`, constant or wavelength-dependent): the pipeline run on the instance the object
uses at wavelength `lam` is the scaled integral for the **last** assigned focal length `g(λ)`. -/
theorem lens_forward_eq_integral_after_sets (ss : Session) (fs : List FocalSpec) (g : FocalSpec) (lam : ℚ)
    (focal : RegGrid) {δx δy Δx Δy zx zy Zx Zy : ℚ} {Nx Ny Mox Moy : ℕ}
    (hp : ss.pupil = ⟨[δx, δy], [Nx, Ny], [zx, zy]⟩) (hf : focal = ⟨[Δx, Δy], [Mox, Moy], [Zx, Zy]⟩)
    (hlf : lam * g.eval lam ≠ 0) (cheaper emu : Bool) (m : Method)
    (hm : lensMethod (((fs ++ [g]).foldl Session.setFocalLength ss).instanceAt lam) focal cheaper = some m)
    (Mx My : ℕ)
    (hM : (classify (((fs ++ [g]).foldl Session.setFocalLength ss).instanceAt lam) focal).1 ≠ .other →
      (classify (((fs ++ [g]).foldl Session.setFocalLength ss).instanceAt lam) focal).2 = [Mx, My])
    (E : Fin Ny × Fin Nx → ℂ) (k : Fin Moy × Fin Mox) :
    lensForward expT expE (2 * Real.pi) Complex.ofReal (normFactorC (lam : ℝ) ((g.eval lam : ℚ) : ℝ)) m emu
        (axOf (axisR Ny δy zy)) (axOf (axisR Nx δx zx)) (axOf (axisR Moy Δy Zy)) (axOf (axisR Mox Δx Zx))
        ((lam : ℝ) * ((g.eval lam : ℚ) : ℝ)) My Mx (ext2 E) k.1 k.2
      = 1 / (I * ((lam : ℝ) : ℂ) * (((g.eval lam : ℚ) : ℝ) : ℂ))
        * ∑ j : Fin Ny × Fin Nx, E j * (((δy : ℝ) * (δx : ℝ) : ℝ) : ℂ)
            * cexp (-(2 * (Real.pi : ℂ) * I * ((dot ![(axisR Mox Δx Zx).x k.2, (axisR Moy Δy Zy).x k.1]
                  ![(axisR Nx δx zx).x j.2, (axisR Ny δy zy).x j.1] : ℝ) : ℂ))
                / (((lam : ℝ) : ℂ) * (((g.eval lam : ℚ) : ℝ) : ℂ))) := by
  rw [session_instance_after_sets ss fs g lam] at hm hM
  exact lens_forward_eq_integral_of_model ⟨lam, g.eval lam, ss.pupil⟩ focal hp hf hlf cheaper emu m hm Mx My hM E k

/-- **… and conserves power when `classify` says `full`** (`λ f > 0`): the executable classification the harness
compares with the class `make_fourier_transform` returned implies the hypothesis of `lens_power`. -/
theorem lens_power_of_model (s : Setup) (focal : RegGrid) {δx δy Δx Δy zx zy Zx Zy : ℚ}
    {Nx Ny Mox Moy : ℕ} {Ms : List ℕ} (hp : s.pupil = ⟨[δx, δy], [Nx, Ny], [zx, zy]⟩)
    (hf : focal = ⟨[Δx, Δy], [Mox, Moy], [Zx, Zy]⟩) (hlf : 0 < lamf s) (hfull : classify s focal = (.full, Ms))
    (cheaper emu : Bool) (m : Method) (hm : lensMethod s focal cheaper = some m) (E : Fin Ny × Fin Nx → ℂ) :
    power (regGrid2 (axisR Moy Δy Zy) (axisR Mox Δx Zx)).weights (fun k : Fin Moy × Fin Mox =>
        lensForward expT expE (2 * Real.pi) Complex.ofReal (normFactorC (s.lam : ℝ) (s.f : ℝ)) m emu
          (axOf (axisR Ny δy zy)) (axOf (axisR Nx δx zx)) (axOf (axisR Moy Δy Zy)) (axOf (axisR Mox Δx Zx))
          ((s.lam : ℝ) * (s.f : ℝ)) Moy Mox (ext2 E) k.1 k.2)
      = power (regGrid2 (axisR Ny δy zy) (axisR Nx δx zx)).weights E := by
  have hcast : ((lamf s : ℚ) : ℝ) = (s.lam : ℝ) * (s.f : ℝ) := by unfold lamf; push_cast; rfl
  have hF := fullAt_of_classify hp hf hfull hlf.ne'
  rw [hcast] at hF
  have hpos : 0 < (s.lam : ℝ) * (s.f : ℝ) := by rw [← hcast]; exact_mod_cast hlf
  apply lens_power (axisR Ny δy zy) (axisR Nx δx zx) (axisR Moy Δy Zy) (axisR Mox Δx Zx) (s.lam : ℝ)
    (s.f : ℝ) Moy Mox emu ((classify s focal).1 != FocalClass.other) cheaper m ?_ (fun _ => ⟨hF.1, hF.2.1, hF.2.2⟩) hpos hF
  have h2 : s.pupil.ndim = 2 := by rw [hp]; rfl
  have h3 : focal.ndim = 2 := by rw [hf]; rfl
  unfold lensMethod at hm
  rw [h2, h3] at hm
  exact hm

/-- **The executable selection is total on 2-D regular grids and never returns `naive`**: the hypothesis `hm` of the
`_of_model` theorems can always be met, and the FFT is returned only when `classify ≠ other` and the planner
prefers it. -/
theorem lensMethod_some (s : Setup) (focal : RegGrid) {δx δy Δx Δy zx zy Zx Zy : ℚ} {Nx Ny Mox Moy : ℕ}
    (hp : s.pupil = ⟨[δx, δy], [Nx, Ny], [zx, zy]⟩) (hf : focal = ⟨[Δx, Δy], [Mox, Moy], [Zx, Zy]⟩) (cheaper : Bool) :
    lensMethod s focal cheaper
      = some (if (classify s focal).1 ≠ .other ∧ cheaper = true then Method.fft else Method.mft) := by
  have h2 : s.pupil.ndim = 2 := by rw [hp]; rfl
  have h3 : focal.ndim = 2 := by rw [hf]; rfl
  unfold lensMethod
  rw [h2, h3]
  cases hc : (classify s focal).1 <;> cases cheaper <;>
    simp [Fft.choose, detectFix, detectLit, GridDesc.isRegular, GridDesc.isSeparated]

/-- **Orientation**: when the uv grid `focal.scaled(2π/(λ f))` is mirrored on an axis — focal spacing and `λ f` of
opposite sign there (`focal.scaled([1,-1])`, `.scaled(-1)`, `.reversed()`, or a negative focal length) — the executable
classification says `other` and the executable selection returns the MFT whatever the planner says: an FFT cannot
produce a mirrored output grid.  (With both signs negative the quotient is positive and the grid may be native again.)
The harness compares exactly this with the class `make_fourier_transform` builds. -/
theorem lensMethod_mirrored (s : Setup) (focal : RegGrid) {δx δy Δx Δy zx zy Zx Zy : ℚ} {Nx Ny Mox Moy : ℕ}
    (hp : s.pupil = ⟨[δx, δy], [Nx, Ny], [zx, zy]⟩) (hf : focal = ⟨[Δx, Δy], [Mox, Moy], [Zx, Zy]⟩)
    (h : lamf s / (δx * Δx) < 0 ∨ lamf s / (δy * Δy) < 0) (cheaper : Bool) :
    (classify s focal).1 = .other ∧ lensMethod s focal cheaper = some Method.mft := by
  have hc : (classify s focal).1 = .other := by
    rcases h with h | h
    · exact classify_other_of_mirrored_x hp hf h
    · exact classify_other_of_mirrored_y hp hf h
  refine ⟨hc, ?_⟩
  rw [lensMethod_some s focal hp hf cheaper, hc]
  simp

/-- non-vacuity: the full pair of the examples above with the y axis mirrored -/
example : lamf ⟨4, 1, ⟨[1, 1], [2, 2], [0, 0]⟩⟩ / (1 * 1) < 0 ∨ lamf ⟨4, 1, ⟨[1, 1], [2, 2], [0, 0]⟩⟩ / (1 * (-1)) < 0 := by
  right; unfold lamf; norm_num

/-- **The classification is exact**: the executable `classify` says "native FFT grid" (`≠ other`) **iff** the
commensurability equations hold exactly — on both axes there is a natural padded size `M ≥ N`, `M ≥` the focal size, with
`M·δ_pupil·Δ_focal = λf`.  No tolerance: a grid at any non-zero distance from commensurate sampling is `other`. -/
theorem classify_native_iff (s : Setup) (focal : RegGrid) {δx δy Δx Δy zx zy Zx Zy : ℚ} {Nx Ny Mox Moy : ℕ}
    (hp : s.pupil = ⟨[δx, δy], [Nx, Ny], [zx, zy]⟩) (hf : focal = ⟨[Δx, Δy], [Mox, Moy], [Zx, Zy]⟩) (hlf : lamf s ≠ 0) :
    (classify s focal).1 ≠ .other ↔
      ∃ Mx My : ℕ, (Nx ≤ Mx ∧ Mox ≤ Mx ∧ (Mx : ℚ) * (δx * Δx) = lamf s) ∧
        (Ny ≤ My ∧ Moy ≤ My ∧ (My : ℚ) * (δy * Δy) = lamf s) := by
  constructor
  · intro h
    obtain ⟨Mx, My, _, hx, hy⟩ := classify_native_2d hp hf h
    exact ⟨Mx, My, hx, hy⟩
  · rintro ⟨Mx, My, ⟨hNx, hox, hx⟩, ⟨hNy, hoy, hy⟩⟩
    have aux : ∀ {M : ℕ} {d : ℚ}, (M : ℚ) * d = lamf s → d ≠ 0 ∧ 0 < M := by
      intro M d h
      refine ⟨fun h0 => hlf (by rw [← h, h0, mul_zero]), Nat.pos_of_ne_zero fun h0 => hlf ?_⟩
      rw [← h, h0]; simp
    exact (classify_of_comm hp hf (paddedSize_of_eq (aux hx).1 (aux hx).2 hNx hx)
      (paddedSize_of_eq (aux hy).1 (aux hy).2 hNy hy) hox hoy).1

example : lamf ⟨4, 1, ⟨[1, 1], [2, 2], [0, 0]⟩⟩ ≠ 0 := by unfold lamf; norm_num

/-- **Near-miss grids**: if the exact slack `|q·N − round(q·N)|` reported by the executed `commSlack` is non-zero on an
axis — the sampling `λf/(δΔ)` is not an integer there, however close (`2^-50` relative) — the executable classification is
`other` and the executable selection returns the MFT (which evaluates the integral on the *supplied* grid) whatever the
planner says.  The harness compares this with the class `make_fourier_transform` builds for every generated
perturbation above the code's own `1e-10` float test. -/
theorem lensMethod_nearmiss (s : Setup) (focal : RegGrid) {δx δy Δx Δy zx zy Zx Zy : ℚ} {Nx Ny Mox Moy : ℕ}
    (hp : s.pupil = ⟨[δx, δy], [Nx, Ny], [zx, zy]⟩) (hf : focal = ⟨[Δx, Δy], [Mox, Moy], [Zx, Zy]⟩)
    (h : ∃ r ∈ commSlack s focal, r ≠ 0) (cheaper : Bool) :
    (classify s focal).1 = .other ∧ lensMethod s focal cheaper = some Method.mft := by
  have hc : (classify s focal).1 = .other := by
    obtain ⟨r, hr, hr0⟩ := h
    rw [commSlack_2d hp hf] at hr
    simp only [List.mem_cons, List.not_mem_nil, or_false] at hr
    rcases hr with rfl | rfl
    · exact classify_other_of_slack_x hp hf hr0
    · exact classify_other_of_slack_y hp hf hr0
  refine ⟨hc, ?_⟩
  rw [lensMethod_some s focal hp hf cheaper, hc]
  simp

/-- non-vacuity: the full pair of the examples above used at `λ = 4·(1 + 2^-20)` -/
example : ∃ r ∈ commSlack ⟨4 + 1 / 2 ^ 18, 1, ⟨[1, 1], [2, 2], [0, 0]⟩⟩ ⟨[1, 1], [4, 4], [-2, -2]⟩, r ≠ 0 := by
  decide +kernel

/-- the slack is zero exactly at the integers: `commSlack` entries vanish iff `λf/(δΔ)` is an integer -/
theorem commSlack_zero_iff (q : ℚ) : truncSlack q = 0 ↔ q.den = 1 := truncSlack_eq_zero_iff q

/-- **The tolerant classification specialises to the exact one**: with `atol = rtol = 0` the executed `classifyLoose`
(whose instances `1e-10, 0` and `1e-8, 1e-5` the driver reports as `tolclass` / `allclose`) *is* `classify`, for all setups
and grids of any dimension. -/
theorem classifyLoose_zero (s : Setup) (focal : RegGrid) : classifyLoose 0 0 s focal = classify s focal := by
  unfold classifyLoose classify paddedSizes
  simp only [paddedSizeLoose_zero]

/-- **Counterexample for a tolerant test** (`np.allclose(q·N, round(q·N))`, `atol = 1e-8`, `rtol = 1e-5`, in place of the
exact/`1e-10` one): the full conjugate grid of a 2×2 pupil for `λf = 4`, used at `λ = 4·(1 + 2^-20)`, is `other` for the exact
classification but `full` with padded sizes `[4, 4]` for `classifyLoose`; the FFT built for those sizes evaluates on
`snappedGrid`, whose sample `[3, 3]` lies at `x·(1 + 2^-20)` instead of `x = (1, 1)`, and the response of the Fourier integral to
the pupil sample at `u = (1, 1)` differs between the two points: the result is labelled with a grid it was not computed on. -/
theorem Bad.classifyLoose_mislabels :
    let s : Setup := ⟨4 + 1 / 2 ^ 18, 1, ⟨[1, 1], [2, 2], [0, 0]⟩⟩
    let focal : RegGrid := ⟨[1, 1], [4, 4], [-2, -2]⟩
    (classify s focal).1 = .other ∧
    classifyLoose (1 / 10 ^ 8) (1 / 10 ^ 5) s focal = (.full, [4, 4]) ∧
    focal.point [3, 3] = [1, 1] ∧
    (snappedGrid s focal [4, 4]).point [3, 3] = [1 + 1 / 2 ^ 20, 1 + 1 / 2 ^ 20] ∧
    impulseResponse s 1 (focal.point [3, 3]) [1, 1] ≠ impulseResponse s 1 ((snappedGrid s focal [4, 4]).point [3, 3]) [1, 1] := by
  decide +kernel

/-- **Backward through the executed pipeline from the executable classification** (`λ f > 0`, positive focal
spacings): the adjoint Fourier integral. -/
theorem lens_backward_eq_adjoint_integral_of_model (s : Setup) (focal : RegGrid) {δx δy Δx Δy zx zy Zx Zy : ℚ}
    {Nx Ny Mox Moy : ℕ} (hp : s.pupil = ⟨[δx, δy], [Nx, Ny], [zx, zy]⟩)
    (hf : focal = ⟨[Δx, Δy], [Mox, Moy], [Zx, Zy]⟩) (hlf : 0 < lamf s) (hΔy : 0 < Δy) (hΔx : 0 < Δx)
    (cheaper emu : Bool) (m : Method) (hm : lensMethod s focal cheaper = some m) (Mx My : ℕ)
    (hM : (classify s focal).1 ≠ .other → (classify s focal).2 = [Mx, My])
    (G : Fin Moy × Fin Mox → ℂ) (j : Fin Ny × Fin Nx) :
    lensBackward expT expE (starRingEnd ℂ) (2 * Real.pi) Complex.ofReal (fun r => |r|)
        (normFactorC (s.lam : ℝ) (s.f : ℝ)) m emu
        (axOf (axisR Ny δy zy)) (axOf (axisR Nx δx zx)) (axOf (axisR Moy Δy Zy)) (axOf (axisR Mox Δx Zx))
        ((s.lam : ℝ) * (s.f : ℝ)) My Mx (ext2 G) j.1 j.2
      = I / (((s.lam : ℝ) : ℂ) * ((s.f : ℝ) : ℂ))
        * ∑ k : Fin Moy × Fin Mox, G k * (((Δy : ℝ) * (Δx : ℝ) : ℝ) : ℂ)
            * cexp (2 * (Real.pi : ℂ) * I * ((dot ![(axisR Mox Δx Zx).x k.2, (axisR Moy Δy Zy).x k.1]
                  ![(axisR Nx δx zx).x j.2, (axisR Ny δy zy).x j.1] : ℝ) : ℂ)
                / (((s.lam : ℝ) : ℂ) * ((s.f : ℝ) : ℂ))) := by
  have hcast : ((lamf s : ℚ) : ℝ) = (s.lam : ℝ) * (s.f : ℝ) := by unfold lamf; push_cast; rfl
  have hpos : 0 < (s.lam : ℝ) * (s.f : ℝ) := by rw [← hcast]; exact_mod_cast hlf
  apply lens_backward_eq_adjoint_integral (axisR Ny δy zy) (axisR Nx δx zx) (axisR Moy Δy Zy) (axisR Mox Δx Zx)
    (s.lam : ℝ) (s.f : ℝ) My Mx emu ((classify s focal).1 != FocalClass.other) cheaper m ?_ ?_ hpos
    (by show (0 : ℝ) < ((Δy : ℚ) : ℝ); exact_mod_cast hΔy) (by show (0 : ℝ) < ((Δx : ℚ) : ℝ); exact_mod_cast hΔx)
  · have h2 : s.pupil.ndim = 2 := by rw [hp]; rfl
    have h3 : focal.ndim = 2 := by rw [hf]; rfl
    unfold lensMethod at hm
    rw [h2, h3] at hm
    exact hm
  · intro hnum
    have hne : (classify s focal).1 ≠ .other := by simpa using hnum
    obtain ⟨Mx', My', hMs, ⟨hNx, hMox, hx⟩, ⟨hNy, hMoy, hy⟩⟩ := classify_native_2d hp hf hne
    have := hM hne
    rw [hMs] at this
    simp only [List.cons.injEq, and_true] at this
    obtain ⟨rfl, rfl⟩ := this
    rw [← hcast]
    exact ⟨by exact_mod_cast hlf.ne', nativeAxis_cast hNy hMoy hy, nativeAxis_cast hNx hMox hx⟩

/-- **Backward after forward restores the field when `classify` says `full`** (positive focal spacings). -/
theorem lens_inverse_of_model (s : Setup) (focal : RegGrid) {δx δy Δx Δy zx zy Zx Zy : ℚ}
    {Nx Ny Mox Moy : ℕ} {Ms : List ℕ} (hp : s.pupil = ⟨[δx, δy], [Nx, Ny], [zx, zy]⟩)
    (hf : focal = ⟨[Δx, Δy], [Mox, Moy], [Zx, Zy]⟩) (hlf : lamf s ≠ 0) (hΔy : 0 < Δy) (hΔx : 0 < Δx)
    (hfull : classify s focal = (.full, Ms))
    (cheaper emu : Bool) (m : Method) (hm : lensMethod s focal cheaper = some m) (E : Fin Ny × Fin Nx → ℂ)
    (j : Fin Ny × Fin Nx) :
    lensBackward expT expE (starRingEnd ℂ) (2 * Real.pi) Complex.ofReal (fun r => |r|)
        (normFactorC (s.lam : ℝ) (s.f : ℝ)) m emu
        (axOf (axisR Ny δy zy)) (axOf (axisR Nx δx zx)) (axOf (axisR Moy Δy Zy)) (axOf (axisR Mox Δx Zx))
        ((s.lam : ℝ) * (s.f : ℝ)) Moy Mox
        (ext2 fun k : Fin Moy × Fin Mox =>
          lensForward expT expE (2 * Real.pi) Complex.ofReal (normFactorC (s.lam : ℝ) (s.f : ℝ)) m emu
            (axOf (axisR Ny δy zy)) (axOf (axisR Nx δx zx)) (axOf (axisR Moy Δy Zy)) (axOf (axisR Mox Δx Zx))
            ((s.lam : ℝ) * (s.f : ℝ)) Moy Mox (ext2 E) k.1 k.2) j.1 j.2
      = E j := by
  have hcast : ((lamf s : ℚ) : ℝ) = (s.lam : ℝ) * (s.f : ℝ) := by unfold lamf; push_cast; rfl
  have hF := fullAt_of_classify hp hf hfull hlf
  rw [hcast] at hF
  apply lens_inverse (axisR Ny δy zy) (axisR Nx δx zx) (axisR Moy Δy Zy) (axisR Mox Δx Zx) (s.lam : ℝ)
    (s.f : ℝ) Moy Mox emu ((classify s focal).1 != FocalClass.other) cheaper m ?_ (fun _ => ⟨hF.1, hF.2.1, hF.2.2⟩)
    (by show (0 : ℝ) < ((Δy : ℚ) : ℝ); exact_mod_cast hΔy) (by show (0 : ℝ) < ((Δx : ℚ) : ℝ); exact_mod_cast hΔx) hF
  have h2 : s.pupil.ndim = 2 := by rw [hp]; rfl
  have h3 : focal.ndim = 2 := by rw [hf]; rfl
  unfold lensMethod at hm
  rw [h2, h3] at hm
  exact hm

/-- **The two executable ties agree, proved**: the executed pipeline on the unit impulse at pupil sample `j` is the
executable `impulseResponse` (the exact amplitude / turns pair the driver returns for `impulse-idx` and the harness
compares with the running code). -/
theorem lens_forward_impulse_eq_impulseResponse (s : Setup) (focal : RegGrid) {δx δy Δx Δy zx zy Zx Zy : ℚ}
    {Nx Ny Mox Moy : ℕ} (hp : s.pupil = ⟨[δx, δy], [Nx, Ny], [zx, zy]⟩)
    (hf : focal = ⟨[Δx, Δy], [Mox, Moy], [Zx, Zy]⟩) (hlf : lamf s ≠ 0) (hδx : 0 < δx) (hδy : 0 < δy)
    (cheaper emu : Bool) (m : Method) (hm : lensMethod s focal cheaper = some m) (Mx My : ℕ)
    (hM : (classify s focal).1 ≠ .other → (classify s focal).2 = [Mx, My])
    (j : Fin Ny × Fin Nx) (k : Fin Moy × Fin Mox) :
    lensForward expT expE (2 * Real.pi) Complex.ofReal (normFactorC (s.lam : ℝ) (s.f : ℝ)) m emu
        (axOf (axisR Ny δy zy)) (axOf (axisR Nx δx zx)) (axOf (axisR Moy Δy Zy)) (axOf (axisR Mox Δx Zx))
        ((s.lam : ℝ) * (s.f : ℝ)) My Mx (ext2 (Pi.single j 1)) k.1 k.2
      = ((((impulseResponse s s.pupil.weight (focal.point [k.2, k.1]) (s.pupil.point [j.2, j.1])).1 : ℚ) : ℝ) : ℂ)
        * expT (((impulseResponse s s.pupil.weight (focal.point [k.2, k.1]) (s.pupil.point [j.2, j.1])).2 : ℚ) : ℝ) := by
  rw [lens_forward_eq_integral_of_model s focal hp hf hlf cheaper emu m hm Mx My hM]
  rw [Finset.sum_eq_single j (by
    intro b _ hb
    rw [Pi.single_eq_of_ne hb]; ring) (by intro h; exact absurd (Finset.mem_univ j) h)]
  rw [Pi.single_eq_same]
  unfold impulseResponse
  simp only
  rw [expT_frac]
  have hw : s.pupil.weight = δx * δy := by
    rw [hp]; simp [RegGrid.weight, prodRat, ratAbs_of_pos hδx, ratAbs_of_pos hδy]
  have hkt : ((kernelTurns s (focal.point [(k.2 : ℕ), (k.1 : ℕ)]) (s.pupil.point [(j.2 : ℕ), (j.1 : ℕ)]) : ℚ) : ℝ)
      = -(dot ![(axisR Mox Δx Zx).x k.2, (axisR Moy Δy Zy).x k.1] ![(axisR Nx δx zx).x j.2, (axisR Ny δy zy).x j.1])
          / ((s.lam : ℝ) * (s.f : ℝ)) := by
    rw [hp, hf]
    simp only [kernelTurns, RegGrid.point, List.zip_cons_cons, List.zip_nil_right, List.map_cons, List.map_nil, dotRat,
      dot, Fin.sum_univ_two, Matrix.cons_val_zero, Matrix.cons_val_one, RegAxis.x, axisR, lamf]
    push_cast
    ring
  have hadd : (((-(1 / 4 : ℚ) + kernelTurns s (focal.point [(k.2 : ℕ), (k.1 : ℕ)]) (s.pupil.point [(j.2 : ℕ), (j.1 : ℕ)]) : ℚ)) : ℝ)
      = -(1 / 4) + ((kernelTurns s (focal.point [(k.2 : ℕ), (k.1 : ℕ)]) (s.pupil.point [(j.2 : ℕ), (j.1 : ℕ)]) : ℚ) : ℝ) := by
    push_cast; ring
  rw [hadd, expT_isChar.add, expT_neg_quarter, hkt, hw]
  have hab : ((s.lam : ℚ) : ℂ) * ((s.f : ℚ) : ℂ) ≠ 0 := by
    have : ((lamf s : ℚ) : ℂ) ≠ 0 := by exact_mod_cast hlf
    unfold lamf at this
    push_cast at this
    exact this
  have hI : 1 / (I * ((s.lam : ℚ) : ℂ) * ((s.f : ℚ) : ℂ)) = -I / (((s.lam : ℚ) : ℂ) * ((s.f : ℚ) : ℂ)) := by
    rw [div_eq_div_iff (by rw [mul_assoc]; exact mul_ne_zero Complex.I_ne_zero hab) hab]
    linear_combination (((s.lam : ℚ) : ℂ) * ((s.f : ℚ) : ℂ)) * Complex.I_mul_I
  have harg : ∀ D : ℂ, -(2 * (Real.pi : ℂ) * I * D) / (((s.lam : ℚ) : ℂ) * ((s.f : ℚ) : ℂ))
      = 2 * (Real.pi : ℂ) * (-D / (((s.lam : ℚ) : ℂ) * ((s.f : ℚ) : ℂ))) * I := by
    intro D; ring
  unfold expT lamf
  push_cast
  rw [harg, hI]
  ring

/-- **The executable `powerGain` (the number the harness compares with the measured power ratio of the running code)
is exactly `1` on every focal grid `classify` calls `full`** — any signs of the spacings, `λ f ≠ 0`. -/
theorem model_powerGain_of_full {s : Setup} {focal : RegGrid} {δx δy Δx Δy zx zy Zx Zy : ℚ} {Nx Ny Mox Moy : ℕ}
    {Ms : List ℕ} (hp : s.pupil = ⟨[δx, δy], [Nx, Ny], [zx, zy]⟩) (hf : focal = ⟨[Δx, Δy], [Mox, Moy], [Zx, Zy]⟩)
    (h : classify s focal = (.full, Ms)) (hlf : lamf s ≠ 0) : powerGain s focal Ms = 1 :=
  powerGain_of_full hp hf h hlf

/-- **What `classify = full` means**: padded sizes = focal sizes, `N ≤ Mo`, `Mo·δ·Δ = λ f` on both axes, centred. -/
theorem model_classify_full {s : Setup} {focal : RegGrid} {δx δy Δx Δy zx zy Zx Zy : ℚ} {Nx Ny Mox Moy : ℕ}
    {Ms : List ℕ} (hp : s.pupil = ⟨[δx, δy], [Nx, Ny], [zx, zy]⟩) (hf : focal = ⟨[Δx, Δy], [Mox, Moy], [Zx, Zy]⟩)
    (h : classify s focal = (.full, Ms)) :
    Ms = [Mox, Moy] ∧ (Nx ≤ Mox ∧ (Mox : ℚ) * (δx * Δx) = lamf s ∧ 0 < Mox) ∧
      (Ny ≤ Moy ∧ (Moy : ℚ) * (δy * Δy) = lamf s ∧ 0 < Moy) ∧ Zx = nativeZero Δx Mox ∧ Zy = nativeZero Δy Moy :=
  classify_full_2d hp hf h

/-- non-vacuity: a setup and focal grid that `classify` calls `full` (pupil `2×2`, `δ = 1`; focal `4×4`, `Δ = 1`,
centred; `λ f = 4`) … -/
example : classify ⟨4, 1, ⟨[1, 1], [2, 2], [0, 0]⟩⟩ ⟨[1, 1], [4, 4], [-2, -2]⟩ = (.full, [4, 4]) := classify_example_full

/-- … for which the executable selection returns the FFT when the planner prefers it and the MFT otherwise
(hypothesis `hm` of the `_of_model` theorems) -/
example : lensMethod ⟨4, 1, ⟨[1, 1], [2, 2], [0, 0]⟩⟩ ⟨[1, 1], [4, 4], [-2, -2]⟩ true = some .fft ∧
    lensMethod ⟨4, 1, ⟨[1, 1], [2, 2], [0, 0]⟩⟩ ⟨[1, 1], [4, 4], [-2, -2]⟩ false = some .mft := by
  unfold lensMethod
  rw [classify_example_full]
  exact ⟨by decide, by decide⟩

/-- **`make_focal_grid` contains the origin**: sample `⌊M/2⌋` of every axis is `0` (any number of axes, any `q`,
`num_airy`, `spatial_resolution`). -/
theorem makeFocalGrid_contains_origin (q a sr : List ℚ) :
    (makeFocalGrid q a sr).1.point ((makeFocalGrid q a sr).1.dims.map (· / 2))
      = (makeFocalGrid q a sr).1.dims.map fun _ => 0 := makeFocalGrid_origin q a sr

/-- **`make_focal_grid_from_pupil_grid` contains the origin.** -/
theorem focalFromPupil_contains_origin (pupil : RegGrid) (q : ℚ) (na : Option ℚ) (lf : ℚ) :
    (focalFromPupil pupil q na lf).1.point ((focalFromPupil pupil q na lf).1.dims.map (· / 2))
      = (focalFromPupil pupil q na lf).1.dims.map fun _ => 0 := focalFromPupil_origin pupil q na lf

/-- **`make_focal_grid_from_pupil_grid(pupil, q)` with the full field of view and `q ≥ 1` is a full conjugate of the
pupil grid** at the `λ f` it was built for (the executable constructor and the executable classification, both
compared with the running code): hence `lens_power_of_model` and `model_powerGain_of_full` apply to it. -/
theorem focalFromPupil_full_conjugate {s : Setup} {δx δy zx zy : ℚ} {Nx Ny : ℕ} {q : ℚ}
    (hp : s.pupil = ⟨[δx, δy], [Nx, Ny], [zx, zy]⟩) (hlf : lamf s ≠ 0) (hδx : δx ≠ 0) (hδy : δy ≠ 0)
    (hNx : 0 < Nx) (hNy : 0 < Ny) (hq : 1 ≤ q) :
    classify s (focalFromPupil s.pupil q none (lamf s)).1
      = (.full, [(roundHalfEven (q * (Nx : ℚ))).toNat, (roundHalfEven (q * (Ny : ℚ))).toNat]) :=
  classify_focalFromPupil_full hp hlf hδx hδy hNx hNy hq

/-- **Sampling of `make_focal_grid_from_pupil_grid`**: with the effective oversampling `q_eff = M/N`
(`M = round(q·N)`), the focal spacing times `q_eff` is `λ f / D`, `D = δ·N` the pupil extent — "`q` samples per
`λ f/D`" on both axes. -/
theorem focalFromPupil_sampling (δx δy zx zy : ℚ) (Nx Ny : ℕ) (q lf : ℚ) (hδx : δx ≠ 0) (hδy : δy ≠ 0)
    (hNx : 0 < Nx) (hNy : 0 < Ny) (hq : 1 ≤ q) :
    ∃ Δx Δy : ℚ, (focalFromPupil ⟨[δx, δy], [Nx, Ny], [zx, zy]⟩ q none lf).1.delta = [Δx, Δy] ∧
      Δx * (((roundHalfEven (q * (Nx : ℚ))).toNat : ℚ) / (Nx : ℚ)) = lf / (δx * (Nx : ℚ)) ∧
      Δy * (((roundHalfEven (q * (Ny : ℚ))).toNat : ℚ) / (Ny : ℚ)) = lf / (δy * (Ny : ℚ)) := by
  rw [focalFromPupil_2d]
  refine ⟨_, _, rfl, ?_, ?_⟩
  · have hM : ((roundHalfEven (q * (Nx : ℚ))).toNat : ℚ) ≠ 0 := by
      have := le_round_of_one_le hq (N := Nx)
      have : 0 < (roundHalfEven (q * (Nx : ℚ))).toNat := lt_of_lt_of_le hNx this
      exact_mod_cast this.ne'
    have hN : (Nx : ℚ) ≠ 0 := by exact_mod_cast hNx.ne'
    field_simp
  · have hM : ((roundHalfEven (q * (Ny : ℚ))).toNat : ℚ) ≠ 0 := by
      have := le_round_of_one_le hq (N := Ny)
      have : 0 < (roundHalfEven (q * (Ny : ℚ))).toNat := lt_of_lt_of_le hNy this
      exact_mod_cast this.ne'
    have hN : (Ny : ℚ) ≠ 0 := by exact_mod_cast hNy.ne'
    field_simp

/-- … so the executed pipeline conserves power on the grid the constructor returns (`λ f > 0`, `q ≥ 1`). -/
theorem lens_power_on_focalFromPupil (s : Setup) {δx δy zx zy : ℚ} {Nx Ny : ℕ} {q : ℚ}
    (hp : s.pupil = ⟨[δx, δy], [Nx, Ny], [zx, zy]⟩) (hlf : 0 < lamf s) (hδx : δx ≠ 0) (hδy : δy ≠ 0)
    (hNx : 0 < Nx) (hNy : 0 < Ny) (hq : 1 ≤ q) (cheaper emu : Bool) (m : Method)
    (hm : lensMethod s (focalFromPupil s.pupil q none (lamf s)).1 cheaper = some m) (E : Fin Ny × Fin Nx → ℂ) :
    let Mx := (roundHalfEven (q * (Nx : ℚ))).toNat
    let My := (roundHalfEven (q * (Ny : ℚ))).toNat
    let Δx := lamf s / (δx * (Mx : ℚ))
    let Δy := lamf s / (δy * (My : ℚ))
    power (regGrid2 (axisR My Δy (centredZero Δy My)) (axisR Mx Δx (centredZero Δx Mx))).weights
        (fun k : Fin My × Fin Mx =>
          lensForward expT expE (2 * Real.pi) Complex.ofReal (normFactorC (s.lam : ℝ) (s.f : ℝ)) m emu
            (axOf (axisR Ny δy zy)) (axOf (axisR Nx δx zx)) (axOf (axisR My Δy (centredZero Δy My)))
            (axOf (axisR Mx Δx (centredZero Δx Mx))) ((s.lam : ℝ) * (s.f : ℝ)) My Mx (ext2 E) k.1 k.2)
      = power (regGrid2 (axisR Ny δy zy) (axisR Nx δx zx)).weights E := by
  intro Mx My Δx Δy
  have hfull := classify_focalFromPupil_full hp hlf.ne' hδx hδy hNx hNy hq
  have hf : (focalFromPupil s.pupil q none (lamf s)).1
      = ⟨[Δx, Δy], [Mx, My], [centredZero Δx Mx, centredZero Δy My]⟩ := by
    rw [hp]; exact focalFromPupil_2d δx δy zx zy Nx Ny q (lamf s)
  exact lens_power_of_model s _ hp hf hlf hfull cheaper emu m hm E

/-- **The executed MFT pipeline on any separated Cartesian focal grid** (regular or not — driver op `lens-sep`),
any pupil weights (`hw`), every wavelength and focal length: `lensMftForward · norm` is the scaled integral. -/
theorem lens_mft_forward_eq_integral {Ny Nx Nv Nu : ℕ} (x y X Y : ℕ → ℝ) (wp : Fin Ny × Fin Nx → ℝ) (w : Weights ℂ)
    (hw : ∀ p : Fin Ny × Fin Nx, w.get (p.1 * Nx + p.2) = ((wp p : ℝ) : ℂ)) (lam f : ℝ)
    (E : Fin Ny × Fin Nx → ℂ) (k : Fin Nv × Fin Nu) :
    lensMftForward expT Nx Ny Nu Nv x y X Y (lam * f) w (flat2 E) (k.1 * Nu + k.2) * normFactorC lam f
      = 1 / (I * (lam : ℂ) * (f : ℂ))
        * ∑ j : Fin Ny × Fin Nx, E j * (wp j : ℂ)
            * cexp (-(2 * (Real.pi : ℂ) * I * ((dot ![X k.2, Y k.1] ![x j.2, y j.1] : ℝ) : ℂ))
                / ((lam : ℂ) * (f : ℂ))) := by
  rw [mul_comm _ (normFactorC lam f)]
  exact fraunhofer_eq_integral_mft (τ := Unit) x y X Y wp (fun _ : Fin Nv × Fin Nu => 0) (fun _ => f) w
    (fun _ => w) hw ⟨fun _ => E, lam, none⟩ () k

end pipeline

/-! ## the propagator object and the wavefront record (executed: driver op `obj`)

`LensProp.forward/backward` (`Model/FraunhoferObj.lean`) are `FraunhoferPropagator.forward/backward` on a whole
`Wavefront` record: instance for the wavefront's wavelength (focal length evaluated there, the transform
`make_fourier_transform` returned = `plan λ`), every tensor component through the selected pipeline, wavelength and
Stokes vector handed on.  The native driver runs these very functions with `scalarsQ` on every check and the harness
compares all components, the wavelength and the Stokes vector of the result with the running code; the theorems below are
about the same functions with `scalarsR`.  `regObj`/`ptsObj`/`wfOf` only name the record literals. -/
section object
open HcipyVerif.Fft HcipyVerif.FourierLink
variable {σ : Type}

/-- **Wavelength and Stokes vector are carried, forward and backward** — by the executed record functions, at every
scalar type (in particular the instance the driver runs and the harness compares with `out.wavelength`,
`out.input_stokes_vector` of the running code on every `obj` request), for every kind of focal grid, plan and
wavefront. -/
theorem obj_meta_carried {K C : Type} [Zero K] [Add K] [Sub K] [Mul K] [Neg K] [Div K] [One K] [NatCast K] [IntCast K]
    [Zero C] [One C] [Add C] [Mul C] [Inv C] [NatCast C] (S : Scalars K C) (P : LensProp K) (wf : Wf σ K C) :
    (P.forward S wf).wavelength = wf.wavelength ∧ (P.forward S wf).stokes = wf.stokes ∧
    (P.backward S wf).wavelength = wf.wavelength ∧ (P.backward S wf).stokes = wf.stokes :=
  ⟨rfl, rfl, rfl, rfl⟩

/-- **Tensor components are transformed independently** (`multiplex_for_tensor_fields`): component `t` of the result of the
executed `forward`/`backward` depends only on component `t` of the input and on the wavelength — at every scalar type, for
every kind of focal grid and plan. -/
theorem obj_componentwise {K C : Type} [Zero K] [Add K] [Sub K] [Mul K] [Neg K] [Div K] [One K] [NatCast K] [IntCast K]
    [Zero C] [One C] [Add C] [Mul C] [Inv C] [NatCast C] (S : Scalars K C) (P : LensProp K) (wf wf' : Wf σ K C) (t : σ)
    (h : wf.field t = wf'.field t) (hl : wf.wavelength = wf'.wavelength) :
    (P.forward S wf).field t = (P.forward S wf').field t ∧ (P.backward S wf).field t = (P.backward S wf').field t := by
  unfold LensProp.forward LensProp.backward
  simp only [h, hl, and_self]

/-- **`forward` of the object is the scaled Fourier integral for every tensor component** (scalar, Jones vector, Jones
matrix: `σ` arbitrary), every wavelength, wavelength-dependent focal length, whatever sound plan the instance holds. -/
theorem obj_forward_eq_integral (py px Fy Fx : RegAxis) (f : ℝ → ℝ) (plan : ℝ → Plan) (emu : Bool)
    (E : σ → Fin py.n × Fin px.n → ℂ) (lam : ℝ) (S : Option (ℝ × ℝ × ℝ × ℝ))
    (hs : PlanSound py px Fy Fx (lam * f lam) (plan lam)) (t : σ) (k : Fin Fy.n × Fin Fx.n) :
    ((regObj py px Fy Fx f plan emu).forward scalarsR (wfOf E lam S)).field t k.1 k.2
      = 1 / (I * (lam : ℂ) * (f lam : ℂ))
        * ∑ j : Fin py.n × Fin px.n, E t j * ((py.δ * px.δ : ℝ) : ℂ)
            * cexp (-(2 * (Real.pi : ℂ) * I * ((dot ![Fx.x k.2, Fy.x k.1] ![px.x j.2, py.x j.1] : ℝ) : ℂ))
                / ((lam : ℂ) * (f lam : ℂ))) := by
  obtain ⟨numFft, cheaper, hm, hn⟩ := hs
  rw [regObj_forward_field, clip2_apply]
  exact lens_forward_eq_integral py px Fy Fx lam (f lam) _ _ emu numFft cheaper _ hm hn (E t) k

/-- **`backward` of the object is the adjoint Fourier integral for every tensor component** (`λ f > 0`, positive focal
spacings). -/
theorem obj_backward_eq_adjoint_integral (py px Fy Fx : RegAxis) (f : ℝ → ℝ) (plan : ℝ → Plan) (emu : Bool)
    (G : σ → Fin Fy.n × Fin Fx.n → ℂ) (lam : ℝ) (S : Option (ℝ × ℝ × ℝ × ℝ))
    (hs : PlanSound py px Fy Fx (lam * f lam) (plan lam)) (hpos : 0 < lam * f lam) (hy : 0 < Fy.δ) (hx : 0 < Fx.δ)
    (t : σ) (j : Fin py.n × Fin px.n) :
    ((regObj py px Fy Fx f plan emu).backward scalarsR (wfOf G lam S)).field t j.1 j.2
      = I / ((lam : ℂ) * (f lam : ℂ))
        * ∑ k : Fin Fy.n × Fin Fx.n, G t k * ((Fy.δ * Fx.δ : ℝ) : ℂ)
            * cexp (2 * (Real.pi : ℂ) * I * ((dot ![Fx.x k.2, Fy.x k.1] ![px.x j.2, py.x j.1] : ℝ) : ℂ)
                / ((lam : ℂ) * (f lam : ℂ))) := by
  obtain ⟨numFft, cheaper, hm, hn⟩ := hs
  rw [regObj_backward_field, clip2_apply]
  exact lens_backward_eq_adjoint_integral py px Fy Fx lam (f lam) _ _ emu numFft cheaper _ hm hn hpos hy hx (G t) j

/-- **Total power of the wavefront record is conserved on a full conjugate grid** (sum over all tensor components:
scalar and Jones-vector wavefronts). -/
theorem obj_power [Fintype σ] (py px Fy Fx : RegAxis) (f : ℝ → ℝ) (plan : ℝ → Plan) (emu : Bool)
    (E : σ → Fin py.n × Fin px.n → ℂ) (lam : ℝ) (S : Option (ℝ × ℝ × ℝ × ℝ))
    (hs : PlanSound py px Fy Fx (lam * f lam) (plan lam)) (hpos : 0 < lam * f lam)
    (hfull : FullAt py px Fy Fx (lam * f lam)) :
    ∑ t, power (regGrid2 Fy Fx).weights (fun k : Fin Fy.n × Fin Fx.n =>
        ((regObj py px Fy Fx f plan emu).forward scalarsR (wfOf E lam S)).field t k.1 k.2)
      = ∑ t, power (regGrid2 py px).weights (E t) := by
  obtain ⟨numFft, cheaper, hm, hn⟩ := hs
  apply Finset.sum_congr rfl
  intro t _
  rw [regObj_forward_field]
  simp only [clip2_apply]
  exact lens_power py px Fy Fx lam (f lam) _ _ emu numFft cheaper _ hm hn hpos hfull (E t)

/-- **Stokes-`I` power of a Jones-matrix wavefront record** (any Stokes vector) is conserved on a full conjugate grid. -/
theorem obj_stokes_power (py px Fy Fx : RegAxis) (f : ℝ → ℝ) (plan : ℝ → Plan) (emu : Bool)
    (E : Fin 2 × Fin 2 → Fin py.n × Fin px.n → ℂ) (lam : ℝ) (S : Option (ℝ × ℝ × ℝ × ℝ)) (Sv : Fin 4 → ℝ)
    (hs : PlanSound py px Fy Fx (lam * f lam) (plan lam)) (hpos : 0 < lam * f lam)
    (hfull : FullAt py px Fy Fx (lam * f lam)) :
    stokesPower (regGrid2 Fy Fx).weights Sv (fun c (k : Fin Fy.n × Fin Fx.n) =>
        ((regObj py px Fy Fx f plan emu).forward scalarsR (wfOf E lam S)).field c k.1 k.2)
      = stokesPower (regGrid2 py px).weights Sv E := by
  obtain ⟨numFft, cheaper, hm, hn⟩ := hs
  simp only [regObj_forward_field, clip2_apply]
  exact lens_stokes_power py px Fy Fx lam (f lam) _ _ emu numFft cheaper _ hm hn hpos hfull Sv E

/-- **`backward(forward(wf)) = wf` as records** on a full conjugate grid: every tensor component, the wavelength and the
Stokes vector. -/
theorem obj_inverse (py px Fy Fx : RegAxis) (f : ℝ → ℝ) (plan : ℝ → Plan) (emu : Bool)
    (E : σ → Fin py.n × Fin px.n → ℂ) (lam : ℝ) (S : Option (ℝ × ℝ × ℝ × ℝ))
    (hs : PlanSound py px Fy Fx (lam * f lam) (plan lam)) (hy : 0 < Fy.δ) (hx : 0 < Fx.δ)
    (hfull : FullAt py px Fy Fx (lam * f lam)) :
    (regObj py px Fy Fx f plan emu).backward scalarsR ((regObj py px Fy Fx f plan emu).forward scalarsR (wfOf E lam S))
      = wfOf E lam S := by
  obtain ⟨numFft, cheaper, hm, hn⟩ := hs
  have hfield : ∀ t, ((regObj py px Fy Fx f plan emu).backward scalarsR
      ((regObj py px Fy Fx f plan emu).forward scalarsR (wfOf E lam S))).field t = ext2 (E t) := by
    intro t
    rw [regObj_backward_field, regObj_forward_field, clip2_eq_ext2, clip2_eq_ext2]
    congr 1
    funext j
    exact lens_inverse py px Fy Fx lam (f lam) _ _ emu numFft cheaper _ hm hn hy hx hfull (E t) j
  show Wf.mk _ _ _ = Wf.mk _ _ _
  congr 1
  funext t
  exact hfield t

/-- **One object after any history of `focal_length` assignments** (unbounded; each assignment clears the cache, so the
plans are those of the new focal length): `forward` is the integral for the **last** assigned focal length. -/
theorem obj_forward_eq_integral_after_sets (py px Fy Fx : RegAxis) (emu : Bool)
    (sets : List ((ℝ → ℝ) × (ℝ → Plan))) (f0 : ℝ → ℝ) (plan0 : ℝ → Plan) (g : ℝ → ℝ) (pl : ℝ → Plan)
    (E : σ → Fin py.n × Fin px.n → ℂ) (lam : ℝ) (S : Option (ℝ × ℝ × ℝ × ℝ))
    (hs : PlanSound py px Fy Fx (lam * g lam) (pl lam)) (t : σ) (k : Fin Fy.n × Fin Fx.n) :
    (((sets ++ [(g, pl)]).foldl (fun P s => P.setFocalLength s.1 s.2) (regObj py px Fy Fx f0 plan0 emu)).forward
        scalarsR (wfOf E lam S)).field t k.1 k.2
      = 1 / (I * (lam : ℂ) * (g lam : ℂ))
        * ∑ j : Fin py.n × Fin px.n, E t j * ((py.δ * px.δ : ℝ) : ℂ)
            * cexp (-(2 * (Real.pi : ℂ) * I * ((dot ![Fx.x k.2, Fy.x k.1] ![px.x j.2, py.x j.1] : ℝ) : ℂ))
                / ((lam : ℂ) * (g lam : ℂ))) := by
  rw [regObj_sets]
  exact obj_forward_eq_integral py px Fy Fx g pl emu E lam S hs t k

/-- `PlanSound` is satisfiable for every pair of grids and every `λ f` (the MFT plan) … -/
example (py px Fy Fx : RegAxis) (lf : ℝ) : ∃ pl, PlanSound py px Fy Fx lf pl := ⟨_, planSound_mft py px Fy Fx lf 0 0 false⟩

/-- … and with the FFT selected: pupil `2×2`, `δ = 1/2`; focal `4×4`, `Δ = 1/2`; `λ f = 1`, padded sizes `4`. -/
example : PlanSound ⟨2, 1 / 2, 0⟩ ⟨2, 1 / 2, 0⟩ ⟨4, 1 / 2, -1⟩ ⟨4, 1 / 2, -1⟩ 1 ⟨.fft, 4, 4, false⟩ := by
  refine ⟨true, true, by decide, fun _ => ⟨by norm_num, ⟨?_, ?_, ?_⟩, ⟨?_, ?_, ?_⟩⟩⟩ <;> norm_num

/-- `prop.focal_length = …` twice: the last assignment wins (the executed setter overwrites focal length and plans). -/
theorem obj_setFocalLength_setFocalLength {K : Type} (P : LensProp K) (g h : K → K) (p q : K → Plan) :
    (P.setFocalLength g p).setFocalLength h q = P.setFocalLength h q := rfl

/-- **The clause "the Stokes vector is carried" is not empty**: a `forward` of the object that forgets the optional third
constructor argument (`Bad.objForwardDropStokes`) returns a different record, and for the Stokes vector `(1, 1, 0, 0)` and
the Jones matrix `(0 1; 0 0)` a different intensity (`0` vs `1/2`) — whatever the grids, plan and field. -/
theorem Bad.obj_forward_dropStokes_changes_power (P : LensProp ℝ) (wf : Wf σ ℝ ℂ) (hS : wf.stokes = some (1, 1, 0, 0)) :
    (Bad.objForwardDropStokes scalarsR P wf).stokes ≠ (P.forward scalarsR wf).stokes ∧
      recordI (Bad.objForwardDropStokes scalarsR P wf).stokes 0 1 0 0 ≠ recordI (P.forward scalarsR wf).stokes 0 1 0 0 := by
  have h1 : (P.forward scalarsR wf).stokes = some (1, 1, 0, 0) := hS
  have h2 : (Bad.objForwardDropStokes scalarsR P wf).stokes = none := rfl
  rw [h1, h2]
  refine ⟨by simp, ?_⟩
  unfold recordI stokesI
  simp
  norm_num

/-- the hypothesis is satisfiable -/
example : ∃ wf : Wf Unit ℝ ℂ, wf.stokes = some (1, 1, 0, 0) := ⟨⟨fun _ _ _ => 0, 1, some (1, 1, 0, 0)⟩, rfl⟩

/-! ### the executable plan and object (ℚ), what the driver builds -/

/-- **The executable plan is sound**: what `planOf` (the executable `lensMethod` and `classify`) puts into the object
the driver runs satisfies `PlanSound` for the casts of the rational grids, whatever the planner's outcome. -/
theorem planOf_sound (s : Setup) (focal : RegGrid) {δx δy Δx Δy zx zy Zx Zy : ℚ} {Nx Ny Mox Moy : ℕ}
    (hp : s.pupil = ⟨[δx, δy], [Nx, Ny], [zx, zy]⟩) (hf : focal = ⟨[Δx, Δy], [Mox, Moy], [Zx, Zy]⟩)
    (hlf : lamf s ≠ 0) (cheaper mat : Bool) :
    PlanSound (axisR Ny δy zy) (axisR Nx δx zx) (axisR Moy Δy Zy) (axisR Mox Δx Zx) ((lamf s : ℚ) : ℝ)
      (planOf s (.regular focal) cheaper mat) := by
  refine ⟨(classify s focal).1 != FocalClass.other, cheaper, ?_, ?_⟩
  · have h2 : s.pupil.ndim = 2 := by rw [hp]; rfl
    have h3 : focal.ndim = 2 := by rw [hf]; rfl
    have hsome := lensMethod_some s focal hp hf cheaper
    have hm : (planOf s (.regular focal) cheaper mat).m
        = (if (classify s focal).1 ≠ .other ∧ cheaper = true then Method.fft else Method.mft) := by
      simp only [planOf, hsome, Option.getD_some]
    rw [hm, ← hsome]
    unfold lensMethod
    rw [h2, h3]
    rfl
  · intro hnum
    have hne : (classify s focal).1 ≠ .other := by simpa using hnum
    obtain ⟨Mx', My', hMs, ⟨hNx, hMox, hx⟩, ⟨hNy, hMoy, hy⟩⟩ := classify_native_2d hp hf hne
    have hMy : (planOf s (.regular focal) cheaper mat).My = My' := by simp only [planOf, hMs]
    have hMx : (planOf s (.regular focal) cheaper mat).Mx = Mx' := by simp only [planOf, hMs]
    rw [hMy, hMx]
    exact ⟨by exact_mod_cast hlf, nativeAxis_cast hNy hMoy hy, nativeAxis_cast hNx hMox hx⟩

/-- **What the driver's object is** for a 2-D regular pupil and focal grid: the axes of the two grids, the session's
current focal length, and per wavelength the executable plan of the instance. -/
theorem lensObj_regular (ss : Session) (focal : RegGrid) {δx δy Δx Δy zx zy Zx Zy : ℚ} {Nx Ny Mox Moy : ℕ}
    (hp : ss.pupil = ⟨[δx, δy], [Nx, Ny], [zx, zy]⟩) (hf : focal = ⟨[Δx, Δy], [Mox, Moy], [Zx, Zy]⟩)
    (cheaper mat emu : Bool) :
    lensObj ss (.regular focal) cheaper mat emu
      = some ⟨⟨Ny, δy, zy⟩, ⟨Nx, δx, zx⟩, .regular ⟨Moy, Δy, Zy⟩ ⟨Mox, Δx, Zx⟩, ss.focalLength.eval,
          fun lam => planOf (ss.instanceAt lam) (.regular focal) cheaper mat, emu⟩ := by
  unfold lensObj axesOf
  rw [hp, hf]
  rfl

/-- **The executed setter on the executed object, unbounded histories**: the object the driver runs after any history of
`prop.focal_length = …` assignments (`lensObjAfter`: `LensProp.setFocalLength` folded over the history, each step installing
the plans of the new focal length) *is* the object constructed with the last assigned value — for every kind of focal grid.
Nothing of earlier focal lengths survives; the harness compares this object's results with the one real propagator object
that went through the same assignments. -/
theorem lensObjAfter_last (ss0 : Session) (fs : List FocalSpec) (g : FocalSpec) (focal : FocalSpecGrid)
    (cheaper mat emu : Bool) :
    lensObjAfter ss0 (fs ++ [g]) focal cheaper mat emu = lensObj (ss0.setFocalLength g) focal cheaper mat emu := by
  have key : ∀ P0 : LensProp Rat,
      (fs ++ [g]).foldl (fun P g => P.setFocalLength g.eval
        (fun lam => planOf ((ss0.setFocalLength g).instanceAt lam) focal cheaper mat)) P0
      = P0.setFocalLength g.eval (fun lam => planOf ((ss0.setFocalLength g).instanceAt lam) focal cheaper mat) := by
    intro P0
    rw [List.foldl_append]
    simp only [List.foldl_cons, List.foldl_nil]
    generalize (fun lam => planOf ((ss0.setFocalLength g).instanceAt lam) focal cheaper mat) = b
    generalize g.eval = a
    induction fs generalizing P0 with
    | nil => rfl
    | cons x xs ih => exact (ih _).trans rfl
  unfold lensObjAfter
  simp only [key]
  unfold lensObj
  show (match axesOf ss0.pupil with | none => none | some (py, px) => _).map _
    = (match axesOf ss0.pupil with | none => none | some (py, px) => _)
  cases axesOf ss0.pupil with
  | none => rfl
  | some a =>
    obtain ⟨py, px⟩ := a
    simp only [Option.map_map]
    rfl

/-- **End to end from the executable object**: an object over `ℝ` whose focal length and plan at the (rational)
wavelength are those of the object the driver builds (`lensObj_regular`) — after any history of `focal_length`
assignments on the session — computes the scaled integral for the session's current focal length. -/
theorem obj_forward_eq_integral_of_model (ss : Session) (fs : List FocalSpec) (g : FocalSpec) (focal : RegGrid)
    {δx δy Δx Δy zx zy Zx Zy : ℚ} {Nx Ny Mox Moy : ℕ}
    (hp : ss.pupil = ⟨[δx, δy], [Nx, Ny], [zx, zy]⟩) (hf : focal = ⟨[Δx, Δy], [Mox, Moy], [Zx, Zy]⟩)
    (cheaper mat emu : Bool) (lam : ℚ) (hlf : lam * g.eval lam ≠ 0) (f : ℝ → ℝ) (plan : ℝ → Plan)
    (hfl : f (lam : ℝ) = ((g.eval lam : ℚ) : ℝ))
    (hpl : plan (lam : ℝ) = planOf (((fs ++ [g]).foldl Session.setFocalLength ss).instanceAt lam) (.regular focal) cheaper mat)
    (E : σ → Fin Ny × Fin Nx → ℂ) (S : Option (ℝ × ℝ × ℝ × ℝ)) (t : σ) (k : Fin Moy × Fin Mox) :
    ((regObj (axisR Ny δy zy) (axisR Nx δx zx) (axisR Moy Δy Zy) (axisR Mox Δx Zx) f plan emu).forward scalarsR
        (wfOf E (lam : ℝ) S)).field t k.1 k.2
      = 1 / (I * ((lam : ℝ) : ℂ) * (((g.eval lam : ℚ) : ℝ) : ℂ))
        * ∑ j : Fin Ny × Fin Nx, E t j * (((δy : ℝ) * (δx : ℝ) : ℝ) : ℂ)
            * cexp (-(2 * (Real.pi : ℂ) * I * ((dot ![(axisR Mox Δx Zx).x k.2, (axisR Moy Δy Zy).x k.1]
                  ![(axisR Nx δx zx).x j.2, (axisR Ny δy zy).x j.1] : ℝ) : ℂ))
                / (((lam : ℝ) : ℂ) * (((g.eval lam : ℚ) : ℝ) : ℂ))) := by
  have hsound := planOf_sound ⟨lam, g.eval lam, ss.pupil⟩ focal hp hf (by unfold lamf; exact hlf) cheaper mat
  rw [session_instance_after_sets ss fs g lam] at hpl
  have hcast : ((lamf ⟨lam, g.eval lam, ss.pupil⟩ : ℚ) : ℝ) = (lam : ℝ) * f (lam : ℝ) := by
    unfold lamf; rw [hfl]; push_cast; rfl
  rw [hcast, ← hpl] at hsound
  have h := obj_forward_eq_integral (axisR Ny δy zy) (axisR Nx δx zx) (axisR Moy Δy Zy) (axisR Mox Δx Zx) f plan emu E
    (lam : ℝ) S hsound t k
  rw [hfl] at h
  exact h

/-! ### unstructured and polar focal grids: the naive transform inside the pipeline -/

/-- **The executable selection returns the naive transform for a focal grid that is not separated** (unstructured,
polar), whatever the planner says. -/
theorem planOf_points_naive (s : Setup) (X Y w : List ℚ) (cheaper mat : Bool) (h2 : s.pupil.ndim = 2) :
    (planOf s (.points X Y w) cheaper mat).m = .naive := by
  simp [planOf, h2, Fft.choose, detectFix, detectLit, GridDesc.isRegular, GridDesc.isSeparated]

/-- **The executed naive pipeline equals the scaled Fourier integral** on any list of focal points (unstructured grids,
polar grids through their Cartesian coordinates), both code paths of `NaiveFourierTransform` (`mat`), every wavelength
and focal length: C01's `nftForwardFly`/`nftForwardMat` composed into the lens. -/
theorem lens_naive_forward_eq_integral (mat : Bool) (py px : RegAxis) (X Y : ℕ → ℝ) (lam f : ℝ)
    (E : Fin py.n × Fin px.n → ℂ) (k : ℕ) :
    lensNaiveForward expT mat Complex.ofReal (axOf py) (axOf px) X Y (lam * f) (ext2 E) k * normFactorC lam f
      = 1 / (I * (lam : ℂ) * (f : ℂ))
        * ∑ j : Fin py.n × Fin px.n, E j * ((py.δ * px.δ : ℝ) : ℂ)
            * cexp (-(2 * (Real.pi : ℂ) * I * ((dot ![X k, Y k] ![px.x j.2, py.x j.1] : ℝ) : ℂ))
                / ((lam : ℂ) * (f : ℂ))) := by
  rw [lensNaiveForward_eq_sum, mul_comm]
  unfold normFactorC
  congr 1
  · rw [mul_right_comm]
  · apply Finset.sum_congr rfl
    intro j _
    congr 1
    unfold expT
    congr 1
    simp only [dot, Fin.sum_univ_two, Matrix.cons_val_zero, Matrix.cons_val_one]
    push_cast
    ring

/-- **… and backward is the adjoint Fourier integral** over the focal points with their weights `w_k` (`λ f ≠ 0`). -/
theorem lens_naive_backward_eq_adjoint_integral (mat : Bool) (py px : RegAxis) (n : ℕ) (X Y w : ℕ → ℝ) (lam f : ℝ)
    (hne : lam * f ≠ 0) (G : ℕ → ℂ) (j : Fin py.n × Fin px.n) :
    lensNaiveBackward expT mat Complex.ofReal (axOf py) (axOf px) n X Y w (lam * f) G (j.1 * px.n + j.2)
        * (normFactorC lam f)⁻¹
      = I / ((lam : ℂ) * (f : ℂ))
        * ∑ k ∈ Finset.range n, G k * (w k : ℂ)
            * cexp (2 * (Real.pi : ℂ) * I * ((dot ![X k, Y k] ![px.x j.2, py.x j.1] : ℝ) : ℂ)
                / ((lam : ℂ) * (f : ℂ))) := by
  rw [lensNaiveBackward_eq_sum, Finset.sum_mul, Finset.mul_sum]
  have hlf : ((lam : ℂ) * (f : ℂ)) ≠ 0 := by exact_mod_cast hne
  have hl : (lam : ℂ) ≠ 0 := left_ne_zero_of_mul hlf
  have hf : (f : ℂ) ≠ 0 := right_ne_zero_of_mul hlf
  apply Finset.sum_congr rfl
  intro k _
  have hexp : expT (X k / (lam * f) * px.x j.2 + Y k / (lam * f) * py.x j.1)
      = cexp (2 * (Real.pi : ℂ) * I * ((dot ![X k, Y k] ![px.x j.2, py.x j.1] : ℝ) : ℂ) / ((lam : ℂ) * (f : ℂ))) := by
    unfold expT
    congr 1
    simp only [dot, Fin.sum_univ_two, Matrix.cons_val_zero, Matrix.cons_val_one]
    push_cast
    ring
  rw [hexp]
  unfold normFactorC
  push_cast
  field_simp

/-- **`forward` of the object onto a point-list focal grid** (unstructured, polar) is the scaled Fourier integral for
every tensor component — the record function the driver runs (op `obj … pts`). -/
theorem obj_forward_points_eq_integral (py px : RegAxis) (n : ℕ) (X Y w : ℕ → ℝ) (f : ℝ → ℝ) (plan : ℝ → Plan)
    (emu : Bool) (E : σ → Fin py.n × Fin px.n → ℂ) (lam : ℝ) (S : Option (ℝ × ℝ × ℝ × ℝ)) (t : σ) (k : Fin n) :
    ((ptsObj py px n X Y w f plan emu).forward scalarsR (wfOf E lam S)).field t 0 k
      = 1 / (I * (lam : ℂ) * (f lam : ℂ))
        * ∑ j : Fin py.n × Fin px.n, E t j * ((py.δ * px.δ : ℝ) : ℂ)
            * cexp (-(2 * (Real.pi : ℂ) * I * ((dot ![X k, Y k] ![px.x j.2, py.x j.1] : ℝ) : ℂ))
                / ((lam : ℂ) * (f lam : ℂ))) := by
  rw [ptsObj_forward_field]
  have : clip2 1 n (fun _ k => lensNaiveForward expT (plan (wfOf E lam S).wavelength).mat Complex.ofReal (axOf py)
      (axOf px) X Y ((wfOf E lam S).wavelength * f (wfOf E lam S).wavelength) ((wfOf E lam S).field t) k
        * normFactorC (wfOf E lam S).wavelength (f (wfOf E lam S).wavelength)) 0 k
      = lensNaiveForward expT (plan lam).mat Complex.ofReal (axOf py) (axOf px) X Y (lam * f lam) (ext2 (E t)) k
        * normFactorC lam (f lam) := by
    simp [clip2, k.2, wfOf]
  rw [this]
  exact lens_naive_forward_eq_integral _ py px X Y lam (f lam) (E t) k

/-- **`backward` of the object from a point-list focal grid** is the adjoint Fourier integral over the focal points with
their weights, for every tensor component (`λ f ≠ 0`). -/
theorem obj_backward_points_eq_adjoint_integral (py px : RegAxis) (n : ℕ) (X Y w : ℕ → ℝ) (f : ℝ → ℝ) (plan : ℝ → Plan)
    (emu : Bool) (G : σ → ℕ → ℕ → ℂ) (lam : ℝ) (S : Option (ℝ × ℝ × ℝ × ℝ)) (hne : lam * f lam ≠ 0) (t : σ)
    (j : Fin py.n × Fin px.n) :
    ((ptsObj py px n X Y w f plan emu).backward scalarsR ⟨G, lam, S⟩).field t j.1 j.2
      = I / ((lam : ℂ) * (f lam : ℂ))
        * ∑ k ∈ Finset.range n, G t 0 k * (w k : ℂ)
            * cexp (2 * (Real.pi : ℂ) * I * ((dot ![X k, Y k] ![px.x j.2, py.x j.1] : ℝ) : ℂ)
                / ((lam : ℂ) * (f lam : ℂ))) := by
  rw [ptsObj_backward_field, clip2_apply]
  exact lens_naive_backward_eq_adjoint_integral _ py px n X Y w lam (f lam) hne (G t 0) j

/-! ### object identity: what a call history creates -/

/-- **Results are new objects, for every call history** (unbounded; fresh wavefronts with or without Stokes vector,
results fed back in): in the executed allocation model (`runCalls`, driver op `alias`, compared with `np.shares_memory`
on the real objects after the same history) all field arrays and Stokes-vector arrays of all wavefronts — inputs and
results — are pairwise distinct objects: `forward`/`backward` never return or keep an array of their input or of an
earlier result, and the Stokes vector of a result is a copy. -/
theorem calls_create_distinct_arrays (cs : List Call) :
    ((runCalls ⟨0⟩ [] cs).2.flatMap WfRef.ids).Nodup :=
  (heapOk_runCalls cs ⟨0⟩ [] ⟨by simp, by simp⟩).1

/-- … and a result carries a Stokes vector exactly when its input does. -/
theorem propagate_stokes_iff (h : Heap) (w : WfRef) : (h.propagate w).2.stokes.isSome = w.stokes.isSome := by
  unfold Heap.propagate
  cases w.stokes <;> rfl

end object

end HcipyVerif.Fraunhofer
