import HcipyVerif.Lemmas.Detector
import Mathlib.Algebra.Order.Field.Rat

/-!
# C17 — Detectors accumulate linearly, conserve counts and reset on read-out

All theorems are about `HcipyVerif.Detector.run` / `pRun`, the model of
`NoiselessDetector` / `NoisyDetector` (with the pending repairs D15, D29, D30, D31 applied), for
**every** history of `integrate` / `readOut` operations, every detector shape and subsampling
factor, over an arbitrary field `K`; the model is tied to the code by the C17 correspondence
(harness/props/c17.py).  In `run` images are values (lists of pixels); aliasing — arrays as heap cells, the caller
overwriting buffers it passed in and images it got back — is the subject of the reference-level model `rStep`
(section "reference level" below: bridge to `run`, `caller_arrays_untouched`; a variant that does alias is in `Lemmas/DetectorOld.lean`), which
the driver runs next to every noiseless history and the harness compares with the real objects (contents of every
array the caller holds after every operation, `np.shares_memory`).  The grid an image is labelled with is modelled by
`tStep` (`image_grid_is_detector_grid`).

The only hypothesis that occurs, `Rep g st cur` ("the accumulator of `st` is the sum of the pending
integrations `cur`"), holds for the freshly constructed detector with `cur = []` (`Rep.init`).
-/
set_option linter.unusedSimpArgs false
set_option linter.unusedVariables false
set_option linter.unusedSectionVars false
set_option linter.unnecessarySeqFocus false

namespace HcipyVerif.Detector
open HcipyVerif.Binning

variable {K : Type} [Field K]

/-- **Read-out = sum since the last read-out**, for every history, from every state that
represents some pending integrations `cur`: the images returned are, in order, the sums
`Σ bin(p)·dt·w` over the completed exposures, and the final state represents the integrations
made after the last read-out. -/
theorem readout_is_sum_from (g : Geom) (ops : List (Op K)) (st : St K) (cur : List (List K × K × K))
    (hr : Rep g st cur) :
    images (run g st ops).2 = (exposures g cur ops).map (sumCharges g) ∧
      Rep g (run g st ops).1 (pendingFrom g cur ops) := by
  induction ops generalizing st cur with
  | nil => exact ⟨rfl, hr⟩
  | cons op ops ih =>
    cases op with
    | readOut =>
      have h0 : Rep g (step g st .readOut).1 [] := Rep.init g
      obtain ⟨h1, h2⟩ := ih _ _ h0
      refine ⟨?_, h2⟩
      simp only [run_cons, step, readOut, images, exposures, List.map_cons]
      rw [← hr.img]
      simp only [step, readOut] at h1
      rw [h1]; rfl
    | integrate p dt w =>
      by_cases hp : p.length = g.ninput
      · obtain ⟨h1, h2⟩ := ih _ _ (hr.integrate p dt w hp)
        simp only [run_cons, step, exposures, pendingFrom, hp, if_true]
        refine ⟨?_, h2⟩
        have : (Detector.integrate g st p dt w).2 = Obs.done := by simp [Detector.integrate, hp]
        rw [this]; simpa [images] using h1
      · have hst : Detector.integrate g st p dt w = (st, Obs.refused) := by simp [Detector.integrate, hp]
        obtain ⟨h1, h2⟩ := ih st cur hr
        simp only [run_cons, step, exposures, pendingFrom, hp, if_false, hst]
        exact ⟨by simpa [images] using h1, h2⟩

/-- **C17, first clause**: on a freshly constructed detector, for every history, the `k`-th
read-out is the sum over the integrations of the `k`-th exposure of `power·dt·weight` (binned
onto the detector grid) — the zero image when the exposure is empty. -/
theorem readout_is_sum (g : Geom) (ops : List (Op K)) :
    images (run g ({} : St K) ops).2 = (exposures g [] ops).map (sumCharges g) :=
  (readout_is_sum_from g ops {} [] (Rep.init g)).1

/-- what a read-out issued right after the history `ops` returns -/
theorem next_readout_is_sum (g : Geom) (ops : List (Op K)) :
    (step g (run g ({} : St K) ops).1 .readOut).2 = .image (sumCharges g (pendingFrom g [] ops)) := by
  have := (readout_is_sum_from g ops {} [] (Rep.init g)).2.img
  simp only [step, readOut]
  rw [← this]; rfl

/-- **Pixel by pixel**: pixel `i` of the sum image is `Σ_j bin(p_j)[i]·dt_j·w_j`. -/
theorem sumCharges_pixel (g : Geom) (l : List (List K × K × K)) (hv : Valid g l) (i : Nat)
    (hi : i < g.npix) :
    (sumCharges g l).getD i 0 =
      (l.map fun x => (binNDs g.ss g.dims x.1).getD i 0 * x.2.1 * x.2.2).sum := by
  induction l using List.rec with
  | nil => simp [sumCharges_nil, vzero, List.getD_eq_getElem?_getD, hi]
  | cons x l ih =>
    -- peel the *last* element instead: restate through the fold with a general start value
    have key : ∀ (l : List (List K × K × K)) (a : List K), a.length = g.npix → Valid g l →
        (l.foldl (fun a (x : List K × K × K) => vadd a (charge (binNDs g.ss g.dims x.1) x.2.1 x.2.2)) a).getD i 0
          = a.getD i 0 + (l.map fun x => (binNDs g.ss g.dims x.1).getD i 0 * x.2.1 * x.2.2).sum := by
      intro l
      induction l with
      | nil => intro a _ _; simp
      | cons y l ih' =>
        intro a ha hv'
        have hy : y.1.length = g.ninput := hv' y (by simp)
        have hc := binCharge_length g y.1 y.2.1 y.2.2 hy
        simp only [List.foldl_cons, List.map_cons, List.sum_cons]
        rw [ih' _ (by rw [vadd_length, ha, hc]; simp) (fun z hz => hv' z (by simp [hz])),
          vadd_getD _ _ _ (by omega) (by omega)]
        have : (charge (binNDs g.ss g.dims y.1) y.2.1 y.2.2).getD i 0
            = (binNDs g.ss g.dims y.1).getD i 0 * y.2.1 * y.2.2 := by
          have hb : i < (binNDs g.ss g.dims y.1).length := by rw [binNDs_length _ _ g.hl _ hy]; exact hi
          simp [charge, List.getD_eq_getElem?_getD, List.getElem?_eq_getElem hb]
        rw [this]; ring
    have := key (x :: l) (vzero g.npix) (by simp [vzero]) hv
    simp only [sumCharges]
    rw [this]
    simp [vzero, List.getD_eq_getElem?_getD, hi]

/-- **Reset**: a read-out leaves the detector in the state of a freshly constructed one, so
whatever follows is independent of everything that happened before. -/
theorem readout_resets (g : Geom) (st : St K) (ops : List (Op K)) :
    (step g st .readOut).1 = ({} : St K) ∧
      (run g st (.readOut :: ops)).2.tail = (run g ({} : St K) ops).2 := by
  constructor <;> simp [run_cons, step, readOut]

/-- two read-outs in a row: the second image is the zero image -/
theorem readout_twice_zero (g : Geom) (st : St K) :
    (run g st [.readOut, .readOut]).2.tail = [.image (vzero g.npix)] := by
  simp [run_cons, run_nil, step, readOut]

/-- **Value semantics of returned images**: the images returned during a history are a prefix of
the images returned during any extension of it — later operations cannot change them. -/
theorem returned_images_immutable (g : Geom) (st : St K) (ops more : List (Op K)) :
    images (run g st (ops ++ more)).2 =
      images (run g st ops).2 ++ images (run g (run g st ops).1 more).2 := by
  rw [run_append, images_append]

/-- **Images live on the detector grid**: every image returned has exactly `npix` pixels. -/
theorem on_detector_grid (g : Geom) (ops : List (Op K)) :
    ∀ img ∈ images (run g ({} : St K) ops).2, img.length = g.npix := by
  rw [readout_is_sum]
  intro img h
  obtain ⟨e, he, rfl⟩ := List.mem_map.mp h
  apply sumCharges_length
  exact exposures_valid g ops [] (by intro x hx; simp at hx) e he

/-! ### well-sized histories

The model refuses an integration whose power array has not the size of the input grid (`Obs.refused`,
state unchanged) — what `reshape` raising does in the code, and what `NoiselessDetector` with
subsampling 1 does after the repair D170 (before it, that one detector kind accepted any array; the
harness sends wrong-size arrays and compares refusal and the unchanged state).  Independently of how a
wrong-size array is treated, the clauses hold for every history that contains none: -/

/-- a well-sized history is never refused -/
theorem wellsized_never_refused (g : Geom) (ops : List (Op K)) (h : WellSized g ops) (st : St K) :
    Obs.refused ∉ (run g st ops).2 := by
  induction ops generalizing st with
  | nil => simp [run_nil]
  | cons op ops ih =>
    rw [run_cons]
    intro hm
    rcases List.mem_cons.mp hm with h1 | h1
    · cases op with
      | readOut => simp [step, readOut] at h1
      | integrate p dt w => simp [step, Detector.integrate, h.head_integrate] at h1
    · exact ih h.tail _ h1

/-- **first clause, for well-sized histories**: no size test occurs in the statement — the images are
the sums over *all* integrations between consecutive read-outs -/
theorem readout_is_sum_wellsized (g : Geom) (ops : List (Op K)) (h : WellSized g ops) :
    images (run g ({} : St K) ops).2 = (exposuresAll [] ops).map (sumCharges g) := by
  rw [readout_is_sum, exposures_eq_all g ops [] h]

/-- **Pixel by pixel, assembled**: the `k`-th image a history returns exists as soon as there is a
`k`-th exposure, and its pixel `i` is `Σ_j bin(p_j)[i]·dt_j·w_j` over the integrations of that
exposure.  (Which fine pixels `bin(p)[i]` adds up: `readout_pixel_index` below.) -/
theorem readout_pixel (g : Geom) (ops : List (Op K)) (k : Nat) (e : List (List K × K × K))
    (he : (exposures g [] ops)[k]? = some e) (i : Nat) (hi : i < g.npix) :
    ∃ img, (images (run g ({} : St K) ops).2)[k]? = some img ∧
      img.getD i 0 = (e.map fun x => (binNDs g.ss g.dims x.1).getD i 0 * x.2.1 * x.2.2).sum := by
  refine ⟨sumCharges g e, ?_, ?_⟩
  · rw [readout_is_sum, List.getElem?_map, he]; rfl
  · exact sumCharges_pixel g e
      (exposures_valid g ops [] (by intro x hx; simp at hx) e (List.mem_of_getElem? he)) i hi

/-- **Pixel by pixel, down to the fine samples**: pixel `c` (multi-index on the detector grid) of the `k`-th
image is `Σ_j (Σ_{r in the s×…×s box of c} p_j[fine index of c·s + r])·dt_j·w_j` — `boxSums` is that box sum in closed
form (Model/Binning.lean).  No `binND` occurs on the right-hand side: a binning that permuted pixels would
violate this. -/
theorem readout_pixel_index (g : Geom) (ops : List (Op K)) (k : Nat) (e : List (List K × K × K))
    (he : (exposures g [] ops)[k]? = some e) (c : List Nat) (hc : InBounds g.dims c) :
    ∃ img, (images (run g ({} : St K) ops).2)[k]? = some img ∧
      img.getD (flatIdx g.dims c) 0 = (e.map fun x =>
        boxSums g.dims g.ss c (fun f => x.1.getD f 0) * x.2.1 * x.2.2).sum := by
  obtain ⟨img, h1, h2⟩ := readout_pixel g ops k e he (flatIdx g.dims c) (flatIdx_lt g.dims c hc)
  refine ⟨img, h1, ?_⟩
  rw [h2]
  congr 1
  apply List.map_congr_left
  intro x hx
  have hv := exposures_valid g ops [] (by intro x hx; simp at hx) e (List.mem_of_getElem? he) x hx
  rw [binNDs_getD g.dims g.ss c g.hl hc x.1 hv]

example : WellSized (Geom.uniform [1, 2] 2)
    ([.readOut, .integrate [1, 2, 3, 4, 5, 6, 7, 8] (1/2) 3, .readOut] : List (Op Rat)) := by decide

/-- **Binning conserves counts** (`statistic='sum'`, any shape, any per-axis factors): stated about the binning the
detector model executes, `binNDs g.ss g.dims`. -/
theorem binning_conserves_counts (g : Geom) (p : List K) (h : p.length = g.ninput) :
    (binNDs g.ss g.dims p).sum = p.sum :=
  binNDs_sum g.ss g.dims g.hl p h

/-- one common factor `s` (`subsamping=<scalar>`) is the per-axis detector with `s` on every axis: its binning is
`binND s`, its input grid has `fineSize s dims` samples -/
theorem uniform_is_scalar_factor (dims : List Nat) (s : Nat) (p : List K) :
    binNDs (Geom.uniform dims s).ss (Geom.uniform dims s).dims p = binND s dims p ∧
      (Geom.uniform dims s).ninput = fineSize s dims :=
  ⟨binNDs_replicate s dims p, fineSizes_replicate s dims⟩

/-- total counts of a read-out = `Σ_j total(p_j)·dt_j·w_j`: nothing is lost or created by the
sub-pixel binning or by the accumulation. -/
theorem readout_total (g : Geom) (l : List (List K × K × K)) (hv : Valid g l) :
    (sumCharges g l).sum = (l.map fun x => x.1.sum * x.2.1 * x.2.2).sum := by
  have key : ∀ (l : List (List K × K × K)) (a : List K), a.length = g.npix → Valid g l →
      (l.foldl (fun a (x : List K × K × K) => vadd a (charge (binNDs g.ss g.dims x.1) x.2.1 x.2.2)) a).sum
        = a.sum + (l.map fun x => x.1.sum * x.2.1 * x.2.2).sum := by
    intro l
    induction l with
    | nil => intro a _ _; simp
    | cons y l ih =>
      intro a ha hv'
      have hy : y.1.length = g.ninput := hv' y (by simp)
      have hc := binCharge_length g y.1 y.2.1 y.2.2 hy
      simp only [List.foldl_cons, List.map_cons, List.sum_cons]
      rw [ih _ (by rw [vadd_length, ha, hc]; simp) (fun z hz => hv' z (by simp [hz])),
        vadd_sum _ _ (by rw [ha, hc])]
      have : (charge (binNDs g.ss g.dims y.1) y.2.1 y.2.2).sum = y.1.sum * y.2.1 * y.2.2 := by
        rw [← binNDs_sum g.ss g.dims g.hl y.1 hy]
        simp only [charge]
        rw [show (fun x => x * y.2.1 * y.2.2) = (fun x => x * (y.2.1 * y.2.2)) from by funext x; ring,
          List.sum_map_mul_right]
        simp; ring
      rw [this]; ring
  have := key l (vzero g.npix) (by simp [vzero]) hv
  simp only [sumCharges]
  rw [this, vzero_sum]; ring

/-- **A noisy detector with all noise sources off returns the same observations as the noiseless
one**, operation by operation, for every history.  The statement is about `pRun`/`pStep`, the
definitions the driver executes for every noisy detector (`Driver/C17.lean`, kind `noisy`), started
from `allOff g` = `NoisyDetector(grid, 0, 0, 0, False, s)`. -/
theorem noisy_off_eq_noiseless [DecidableEq K] (g : Geom) (ops : List (Op K)) :
    (pRun g (allOff g : PSt K) (ops.map lift)).2 = (run g ({} : St K) ops).2 := by
  have key : ∀ (ops : List (Op K)) (pst : PSt K) (st : St K), ParamsOff g pst → pst.acc = st.acc →
      (∀ a, st.acc = some a → a.length = g.npix) →
      (pRun g pst (ops.map lift)).2 = (run g st ops).2 := by
    intro ops
    induction ops with
    | nil => intro _ _ _ _ _; rfl
    | cons op ops ih =>
      intro pst st hoff hacc hlen
      obtain ⟨h1, h2, h3⟩ := pStep_lift_off hoff hacc hlen op
      simp only [List.map_cons, pRun_cons, run_cons, h1]
      congr 1
      exact ih _ _ (hoff.step _ (offOp_lift g op)) h2 h3
  exact key ops _ _ (allOff_paramsOff g) rfl (by intro a h; simp at h)

/-- **The "everything is off" flag is true whenever nothing was switched on**: from a state in
which every noise parameter has its off value, along any history of integrations, read-outs and
assignments of *off* values (re-assigning what is already off, in any spelling), every read-out is
flagged `off`.  (`pReads` pairs each read-out with `PSt.off`, the flag the driver prints and the
harness compares with its own account of the real object's parameters.) -/
theorem off_flag_true [DecidableEq K] (g : Geom) (ops : List (POp K))
    (hops : ∀ op ∈ ops, OffOp g op = true) (pst : PSt K) (h : ParamsOff g pst) :
    ∀ r ∈ pReads g pst ops, r.1 = true := by
  induction ops generalizing pst with
  | nil => intro r hr; simp [pReads] at hr
  | cons op ops ih =>
    have hnext := ih (fun o ho => hops o (by simp [ho])) _ (h.step op (hops op (by simp)))
    intro r hr
    cases op with
    | readOut =>
      simp only [pReads, List.mem_cons] at hr
      rcases hr with rfl | hr
      · exact h.off
      · exact hnext r hr
    | integrate p dt w => exact hnext r (by simpa [pReads] using hr)
    | setFlat m => exact hnext r (by simpa [pReads] using hr)
    | setDark d => exact hnext r (by simpa [pReads] using hr)
    | setSigma s' => exact hnext r (by simpa [pReads] using hr)
    | setPhoton b => exact hnext r (by simpa [pReads] using hr)

/-- the flag on the freshly constructed all-off detector with no setters at all -/
theorem off_flag_true_no_setters [DecidableEq K] (g : Geom) (ops : List (Op K)) :
    ∀ r ∈ pReads g (allOff g : PSt K) (ops.map lift), r.1 = true :=
  off_flag_true g _ (by intro op ho; obtain ⟨o, _, rfl⟩ := List.mem_map.mp ho; exact offOp_lift g o) _
    (allOff_paramsOff g)

/-- **Parameter setters between operations**: `flat_field`, `dark_current_rate`, `read_noise`,
`include_photon_noise` may be assigned at any point of a history.  Whenever a read-out happens
while every noise source is off *now* (unit flat field, zero read noise, no photon noise) and no
dark current was in force during the integrations of that exposure, it returns exactly what the
noiseless detector returns at the same point of the history with the setters removed — whatever
the parameters were before, and whatever was assigned and re-assigned in between. -/
theorem setters_off_eq_noiseless [DecidableEq K] (g : Geom) :
    ∀ (ops : List (POp K)) (pst : PSt K) (st : St K),
      (pst.clean = true → pst.acc = st.acc) →
      (∀ a, st.acc = some a → a.length = g.npix) →
      List.Forall₂ (fun (r : Bool × Obs K) (o : Obs K) => r.1 = true → r.2 = o)
        (pReads g pst ops) (reads g st (strip ops)) := by
  intro ops
  induction ops with
  | nil => intro _ _ _ _; exact List.Forall₂.nil
  | cons op ops ih =>
    intro pst st hacc hlen
    cases op with
    | readOut =>
      simp only [pReads, strip, reads]
      refine List.Forall₂.cons ?_ (ih _ _ (by intro _; rw [pStep_readOut_fst]; simp [step, readOut]) (by intro a h; simp [step, readOut] at h))
      intro hoff
      simp only [PSt.off, Bool.and_eq_true, Bool.not_eq_true', decide_eq_true_eq] at hoff
      obtain ⟨⟨⟨hclean, hph⟩, hflat⟩, hsig⟩ := hoff
      have hdet : pst.deterministic g = true := by simp [PSt.deterministic, hph, hsig]
      have hl : (st.acc.getD (vzero g.npix)).length = g.npix := by
        cases h : st.acc with
        | none => simp [vzero]
        | some a => simpa using hlen a h
      simp only [pStep, hdet, if_true, step, readOut, hacc hclean, hflat]
      rw [zipWith_mul_ones _ _ hl]
    | integrate p dt w =>
      by_cases hp : p.length = g.ninput
      · simp only [pReads, strip, reads]
        have hc := binCharge_length g p dt w hp
        apply ih
        · intro hclean
          simp only [pStep, hp, if_true, Bool.and_eq_true, decide_eq_true_eq] at hclean
          obtain ⟨hcl, hdark⟩ := hclean
          simp only [pStep, hp, if_true, step, Detector.integrate, hacc hcl, hdark]
          rw [zipWith_add_zero_dark _ _ dt w (accAdd_length g st.acc _ hc hlen)]
        · intro a h
          simp only [step, Detector.integrate, hp, if_true, Option.some.injEq] at h
          subst h
          exact accAdd_length g st.acc _ hc hlen
      · simp only [pReads, strip, reads]
        have e1 : (pStep g pst (.integrate p dt w)).1 = pst := by simp [pStep, hp]
        have e2 : (step g st (.integrate p dt w)).1 = st := by simp [step, Detector.integrate, hp]
        rw [e1, e2]
        exact ih pst st hacc hlen
    | setFlat m => simp only [pReads, strip]; exact ih _ st (by simpa [pStep] using hacc) hlen
    | setDark d => simp only [pReads, strip]; exact ih _ st (by simpa [pStep] using hacc) hlen
    | setSigma s' => simp only [pReads, strip]; exact ih _ st (by simpa [pStep] using hacc) hlen
    | setPhoton b => simp only [pReads, strip]; exact ih _ st (by simpa [pStep] using hacc) hlen

/-- **Clause 4 with setters, unconditional form**: on a noisy detector constructed with everything
off, along any history in which parameters are only ever assigned their off values, *every*
read-out equals the noiseless detector's read-out at the same point of the history without the
setters (the flag of `setters_off_eq_noiseless` is discharged by `off_flag_true`). -/
theorem off_setters_eq_noiseless [DecidableEq K] (g : Geom) (ops : List (POp K))
    (hops : ∀ op ∈ ops, OffOp g op = true) :
    (pReads g (allOff g : PSt K) ops).map Prod.snd = reads g ({} : St K) (strip ops) := by
  have h2 := setters_off_eq_noiseless g ops (allOff g : PSt K) ({} : St K) (fun _ => rfl)
    (by intro a h; simp at h)
  have h1 := off_flag_true g ops hops _ (allOff_paramsOff g)
  generalize pReads g (allOff g : PSt K) ops = l1 at h1 h2
  generalize reads g ({} : St K) (strip ops) = l2 at h2
  induction h2 with
  | nil => rfl
  | cons hab _ ih =>
    simp only [List.map_cons]
    rw [hab (h1 _ (by simp)), ih (fun r hr => h1 r (by simp [hr]))]

/-- the seeded-defect shape, concretely: scalar 0 (unit map) → explicit map → scalar 0 again: the
last read-out is flagged "off" and equals the noiseless image -/
example :
    pReads (Geom.uniform [2] 1)
      ({ flat := [1, 1], dark := [0, 0], sigma := [0, 0] } : PSt Rat)
      [.setFlat [2, 3], .integrate [1, 1] 1 1, .readOut, .setFlat [1, 1], .integrate [1, 2] 1 1, .readOut]
      = [(false, .image [2, 3]), (true, .image [1, 2])] := by decide +kernel

/-! ### noise sources on: the order of operations of `NoisyDetector.read_out` (`pReadOutRng`, driver op `readrng`) -/

section
variable [DecidableEq K]

/-- **Read-out resets, noise or no noise**: whatever the draws, the state after a noisy read-out is the state after
the deterministic one — accumulator empty — so nothing of one exposure's noise leaks into the next. -/
theorem noisy_readout_resets (g : Geom) (pst : PSt K) (δ z : List K) :
    (pReadOutRng g pst δ z).1 = (pStep g pst .readOut).1 ∧ (pReadOutRng g pst δ z).1.acc = none ∧
      (pReadOutRng g pst δ z).1.lam g = vzero g.npix := by
  refine ⟨?_, rfl, rfl⟩
  rw [pStep_readOut_fst]; rfl

/-- **Bridge to the deterministic read-out**: with photon noise off and zero read noise the draws do not matter:
`pReadOutRng` is the read-out `pStep` performs (the op `read` of the driver). -/
theorem noisy_readout_deterministic (g : Geom) (pst : PSt K) (δ z : List K)
    (hdet : pst.deterministic g = true) (hz : z.length = g.npix)
    (hl : (vmul (pst.lam g) pst.flat).length = g.npix) :
    (pStep g pst .readOut).2 = .image (pReadOutRng g pst δ z).2 := by
  simp only [PSt.deterministic, Bool.and_eq_true, Bool.not_eq_true', decide_eq_true_eq] at hdet
  have hd2 : pst.deterministic g = true := by simp [PSt.deterministic, hdet.1, hdet.2]
  simp only [pStep, hd2, if_true, pReadOutRng, noisyImage, hdet.1, hdet.2, Bool.false_eq_true, if_false]
  rw [vmul_vzero_left _ _ hz, vadd_vzero_right _ _ hl]
  rfl

/-- **Every noise source at its neutral value: the pipeline is the identity** on the accumulated charge, whatever the
draws. -/
theorem noise_neutral_identity (g : Geom) (pst : PSt K) (δ z : List K) (hoff : ParamsOff g pst)
    (hz : z.length = g.npix) (hl : (pst.lam g).length = g.npix) :
    (pReadOutRng g pst δ z).2 = pst.lam g := by
  simp only [pReadOutRng, noisyImage, hoff.photon, hoff.flat, hoff.sigma, Bool.false_eq_true, if_false]
  rw [vmul_vzero_left _ _ hz, vmul_ones _ _ hl, vadd_vzero_right _ _ hl]

/-- **What the photon-noise stage sees** (order of operations, first half): after the integrations `l` of an exposure
the accumulated charge — the expectation handed to the Poisson draw — is `Σ_j bin(p_j)·dt_j·w_j + dark·Σ_j dt_j·w_j`:
binned power *and* dark current, not yet multiplied by the flat field, no read noise. -/
theorem noisy_charge_is_sum_plus_dark (g : Geom) (l : List (List K × K × K)) (hv : Valid g l) (pst : PSt K)
    (h0 : pst.acc = none) (hd : pst.dark.length = g.npix) :
    (pIntegrateAll g pst l).lam g = vadd (sumCharges g l) (pst.dark.map (· * darkTime l)) := by
  have := (pIntegrateAll_rep g l hv pst [] (PRep.init g pst h0 hd)).lam
  rw [(pIntegrateAll_params g l pst).2.1] at this
  simpa using this

/-- **Binning conserves counts before the noise**: the total charge handed to the photon-noise stage is
`Σ_j total(p_j)·dt_j·w_j` plus the dark counts `Σ_i dark_i · Σ_j dt_j·w_j`. -/
theorem noisy_charge_total (g : Geom) (l : List (List K × K × K)) (hv : Valid g l) (pst : PSt K)
    (h0 : pst.acc = none) (hd : pst.dark.length = g.npix) :
    ((pIntegrateAll g pst l).lam g).sum =
      (l.map fun x => x.1.sum * x.2.1 * x.2.2).sum + pst.dark.sum * darkTime l := by
  rw [noisy_charge_is_sum_plus_dark g l hv pst h0 hd,
    vadd_sum _ _ (by rw [sumCharges_length g l hv]; simp [hd]), readout_total g l hv, List.sum_map_mul_right]
  simp

/-- **The noise pipeline, pixel by pixel** (order of operations, complete): an exposure `l` on an empty detector
followed by a read-out whose draws came out as `δ` (Poisson deviation) and `z` (read-noise deviates) gives, in pixel
`i`, `((Σ_j bin(p_j)[i]·dt_j·w_j + dark_i·Σ_j dt_j·w_j) + [photon noise] δ_i) · flat_i + σ_i·z_i`: the dark current is
inside the Poisson expectation, the flat field multiplies charge and photon noise, the read noise is added last and
is not multiplied by the flat field. -/
theorem noisy_exposure_pixel (g : Geom) (l : List (List K × K × K)) (hv : Valid g l) (pst : PSt K)
    (h0 : pst.acc = none) (hd : pst.dark.length = g.npix) (hf : pst.flat.length = g.npix)
    (hs : pst.sigma.length = g.npix) (δ z : List K) (hδ : δ.length = g.npix) (hz : z.length = g.npix)
    (i : Nat) (hi : i < g.npix) :
    (pReadOutRng g (pIntegrateAll g pst l) δ z).2.getD i 0 =
      (((l.map fun x => (binNDs g.ss g.dims x.1).getD i 0 * x.2.1 * x.2.2).sum + pst.dark.getD i 0 * darkTime l)
        + (if pst.photon then δ.getD i 0 else 0)) * pst.flat.getD i 0 + pst.sigma.getD i 0 * z.getD i 0 := by
  obtain ⟨e1, e2, e3, e4⟩ := pIntegrateAll_params g l pst
  have hlam := noisy_charge_is_sum_plus_dark g l hv pst h0 hd
  have hS := sumCharges_length g l hv
  have hD : (pst.dark.map (· * darkTime l)).length = g.npix := by simp [hd]
  have hL : ((pIntegrateAll g pst l).lam g).length = g.npix := by rw [hlam, vadd_length, hS, hD]; simp
  have hlam_i : ((pIntegrateAll g pst l).lam g).getD i 0 =
      (l.map fun x => (binNDs g.ss g.dims x.1).getD i 0 * x.2.1 * x.2.2).sum + pst.dark.getD i 0 * darkTime l := by
    rw [hlam, vadd_getD _ _ _ (by omega) (by omega), sumCharges_pixel g l hv i hi]
    congr 1
    simp [List.getD_eq_getElem?_getD, List.getElem?_map, List.getElem?_eq_getElem (show i < pst.dark.length by omega)]
  simp only [pReadOutRng, noisyImage, e1, e3, e4]
  by_cases hph : pst.photon = true
  · simp only [hph, if_true]
    have h1 : (vadd ((pIntegrateAll g pst l).lam g) δ).length = g.npix := by rw [vadd_length, hL, hδ]; simp
    rw [vadd_getD _ _ _ (by rw [vmul_length]; omega) (by rw [vmul_length]; omega),
      vmul_getD _ _ _ (by omega) (by omega), vmul_getD _ _ _ (by omega) (by omega),
      vadd_getD _ _ _ (by omega) (by omega), hlam_i]
  · simp only [hph, Bool.false_eq_true, if_false, add_zero]
    rw [vadd_getD _ _ _ (by rw [vmul_length]; omega) (by rw [vmul_length]; omega),
      vmul_getD _ _ _ (by omega) (by omega), vmul_getD _ _ _ (by omega) (by omega), hlam_i]

/-- the hypotheses of the noise theorems are satisfiable, and the formula on a concrete exposure: per-axis factors
`[1, 2]`, dark current ½, flat field `[2, 3]`, read noise `[1, ½]`, photon noise on -/
example :
    let g : Geom := { dims := [1, 2], ss := [1, 2] }
    let pst : PSt Rat := { flat := [2, 3], dark := [1/2, 1/2], sigma := [1, 1/2], photon := true }
    Valid g [([1, 2, 3, 4], (1 : Rat), (2 : Rat))] ∧ pst.acc = none ∧ pst.dark.length = g.npix ∧
      (pIntegrateAll g pst [([1, 2, 3, 4], 1, 2)]).lam g = [7, 15] ∧
      (pReadOutRng g (pIntegrateAll g pst [([1, 2, 3, 4], 1, 2)]) [1, -1] [2, 4]).2 = [18, 44] := by
  refine ⟨by intro x hx; simp at hx; subst hx; decide +kernel, rfl, by decide +kernel, by decide +kernel, by decide +kernel⟩

end

/-! ### the grid an image is labelled with -/

/-- **Images live on the detector grid — the grid label**: whatever the caller hands to `integrate` (a Field on the
input grid, a Field on a foreign grid, a plain array), every image of every history is labelled with the
detector grid (driver ops `tint` / `tread`, compared with `image.grid` of the real object). -/
theorem image_grid_is_detector_grid (ops : List TOp) (st : TSt)
    (h : st.acc = none ∨ st.acc = some .detector) : ∀ t ∈ tRunWith relabel st ops, t = .detector := by
  induction ops generalizing st with
  | nil => simp [tRunWith]
  | cons op ops ih =>
    cases op with
    | integrate p =>
      simp only [tRunWith, tStepWith]
      apply ih
      rcases h with h | h <;> simp [h, tagAdd, relabel]
    | readOut =>
      simp only [tRunWith, tStepWith, List.mem_cons]
      rintro t (rfl | ht)
      · rcases h with h | h <;> simp [h]
      · exact ih _ (Or.inl rfl) t ht

/-! ### reference level: aliasing

Model/Detector.lean `rStep`: arrays are heap cells, the caller holds handles and may write through them. -/

/-- **Bridge reference level → value level**: with arrays as heap cells and the caller free to overwrite every
array it holds (buffers it passed in, images it got back) at any time, the images the read-outs return — each
as it is when it is returned — are those of the value model `run` on the history in which every integration
sees the content its buffer has at the call.  So every theorem above about `run` (`readout_is_sum`,
`readout_pixel_index`, `readout_total`, …) holds for the reference-level detector, whatever the caller scribbles. -/
theorem ref_images_eq_value_images (g : Geom) (ops : List (ROp K)) (st : RSt K) (h : RInv st) :
    rImages g st ops = images (run g (absSt st) (valueOps g st ops)).2 := by
  induction ops generalizing st with
  | nil => simp [rImages, valueOps, run_nil, images]
  | cons op ops ih =>
    have hi := rStep_inv g st op h
    cases op with
    | alloc v =>
      simp only [rImages, valueOps]
      rw [ih _ hi, absSt_alloc g st v h]
    | write r v =>
      simp only [rImages, valueOps]
      rw [ih _ hi, absSt_write g st r v h]
    | integrate buf dt w =>
      simp only [rImages, valueOps, run_cons]
      rw [ih _ hi, absSt_integrate g st buf dt w h]
      cases hs : (step g (absSt st) (Op.integrate (st.at buf) dt w)).2 <;>
        simp [images] <;> simp [step, Detector.integrate] at hs <;> split at hs <;> simp at hs
    | readOut =>
      obtain ⟨e1, e2⟩ := absSt_readOut g st
      simp only [rImages, valueOps, run_cons]
      rw [ih _ hi, e1, e2]
      simp [images]

/-- **No aliasing**: an array the caller holds (a buffer it passed in, an image it got back) keeps its
content through every later operation of the detector; only the caller's own writes to *that* array
change it. -/
theorem caller_arrays_untouched (g : Geom) (ops : List (ROp K)) (st : RSt K) (h : RInv st) (r : Nat)
    (hr : r ∈ st.known) (hw : ∀ v, ROp.write r v ∉ ops) : (rRun g st ops).1.at r = st.at r := by
  induction ops generalizing st with
  | nil => rfl
  | cons op ops ih =>
    rw [rRun_cons]
    simp only
    rw [ih _ (rStep_inv g st op h) (rStep_known_sub g st op r hr) (fun v hv => hw v (by simp [hv]))]
    have hlt := h.known_lt r hr
    cases op with
    | alloc v => simp only [rStep, RSt.at]; exact getD_append_lt _ _ _ hlt
    | write r' v =>
      simp only [rStep]
      split
      · have : r' ≠ r := by
          rintro rfl
          exact hw v (by simp)
        simp only [RSt.at]; exact getD_set_ne _ _ _ _ this
      · rfl
    | integrate buf dt w =>
      simp only [rStep]
      split
      · simp only [RSt.at]; exact getD_append_lt _ _ _ hlt
      · rfl
    | readOut => simp only [rStep, RSt.at]; exact getD_append_lt _ _ _ hlt


/-- the first clause at reference level: the images are the sums over the exposures of the value history -/
theorem ref_readout_is_sum (g : Geom) (ops : List (ROp K)) :
    rImages g ({} : RSt K) ops = (exposures g [] (valueOps g {} ops)).map (sumCharges g) := by
  rw [ref_images_eq_value_images g ops {} RInv.init]
  exact readout_is_sum g _

/-- the hypotheses of `caller_arrays_untouched` are satisfiable, and a write to another array is allowed -/
example : RInv (rRun (Geom.uniform [2] 1) ({} : RSt Rat) [.alloc [1, 2], .integrate 0 2 1]).1 ∧
    (0 : Nat) ∈ (rRun (Geom.uniform [2] 1) ({} : RSt Rat) [.alloc [1, 2], .integrate 0 2 1]).1.known :=
  ⟨by
    have h0 : RInv ({} : RSt Rat) := RInv.init
    exact rStep_inv _ _ _ (rStep_inv _ _ _ h0), by decide +kernel⟩

/-! ### non-vacuity: a concrete history -/

example :
    images (run (Geom.uniform [1, 2] 2) ({} : St Rat)
      [.readOut, .integrate [1, 2, 3, 4, 5, 6, 7, 8] (1/2) 3, .integrate [1, 1, 1, 1, 1, 1, 1, 1] 2 1,
       .readOut, .readOut]).2 = [[0, 0], [29, 41], [0, 0]] := by decide +kernel

/-- one factor per axis: a 1×2 detector with factors (2, 3) — input 2×6, slowest axis first — over two integrations -/
example :
    images (run ({ dims := [1, 2], ss := [2, 3] } : Geom) ({} : St Rat)
      [.integrate [1, 2, 3, 4, 5, 6, 7, 8, 9, 10, 11, 12] 1 1, .integrate [1, 1, 1, 1, 1, 1, 1, 1, 1, 1, 1, 1] (1/2) 2,
       .readOut, .readOut]).2 = [[36, 54], [0, 0]] ∧
    WellSized ({ dims := [1, 2], ss := [2, 3] } : Geom)
      ([.integrate [1, 2, 3, 4, 5, 6, 7, 8, 9, 10, 11, 12] 1 1, .readOut] : List (Op Rat)) := by
  constructor <;> decide +kernel

/-- `allOff` is what the driver builds for `new noisy <s> <dims> 0 -`, and the flag is `true` on it -/
example : (allOff (Geom.uniform [2] 1) : PSt Rat).flat = [1, 1] ∧
    (allOff (Geom.uniform [2] 1) : PSt Rat).dark = [0, 0] ∧
    pReads (Geom.uniform [2] 1) (allOff (Geom.uniform [2] 1) : PSt Rat)
      [.setFlat [1, 1], .integrate [1, 2] 1 1, .setPhoton false, .readOut] = [(true, .image [1, 2])] := by
  refine ⟨by decide +kernel, by decide +kernel, by decide +kernel⟩

/-! ### round 6: re-used wavefront objects, parameter maps on other grids -/

/-- **Re-used wavefront objects** (driver ops `wcreate` / `wfield` / `wweights` / `wint` / `wread`): the caller keeps
Wavefront objects, changes their electric field or the weights of their grid at any time and integrates the same
object again.  What the detector observes is the value-level history `run` in which every integration sees
`|E|²·weights` of what its wavefront holds **at the call** — so every theorem about `run` (`readout_is_sum`,
`readout_pixel_index`, `readout_total`, …) holds for such histories; no power computed earlier survives an edit. -/
theorem reused_wavefront_eq_value_history (g : Geom) (ops : List (WOp K)) (st : WSt K) :
    wRun g st ops = (run g st.det (wValueOps st.wfs ops)).2 := by
  induction ops generalizing st with
  | nil => simp [wRun, wValueOps, run_nil]
  | cons op ops ih =>
    cases op with
    | integrate j dt w => simp only [wRun, wStep, wValueOps, run_cons]; rw [ih]
    | readOut => simp only [wRun, wStep, wValueOps, run_cons]; rw [ih]
    | create re im wt => simp only [wRun, wStep, wValueOps]; rw [ih]
    | setField j re im => simp only [wRun, wStep, wValueOps]; rw [ih]
    | setWeights j wt => simp only [wRun, wStep, wValueOps]; rw [ih]

/-- **Read-out = sum of the powers the re-used wavefronts had when they were integrated**: the images of a history
with re-used, edited wavefront objects are the sums `Σ bin(|E_j|²·w_j)·dt·w` over the exposures, with `E_j`, `w_j` the
contents at the time of the `j`-th call. -/
theorem reused_wavefront_readout_is_sum (g : Geom) (ops : List (WOp K)) (wfs : List (Wf K)) :
    images (wRun g { det := {}, wfs := wfs } ops) = (exposures g [] (wValueOps wfs ops)).map (sumCharges g) := by
  rw [reused_wavefront_eq_value_history]
  exact readout_is_sum g (wValueOps wfs ops)

/-- the seeded shape: integrate, edit the same object in place, integrate again, read out — the image is the sum of
the two binned powers, the second one of the **edited** contents -/
theorem reintegrated_after_edit (g : Geom) (f : Wf K) (re im : List K) (dt₁ w₁ dt₂ w₂ : K)
    (h₁ : f.power.length = g.ninput) (h₂ : ({ f with re := re, im := im } : Wf K).power.length = g.ninput) :
    images (wRun g { det := {}, wfs := [f] } [.integrate 0 dt₁ w₁, .setField 0 re im, .integrate 0 dt₂ w₂, .readOut]) =
      [sumCharges g [(f.power, dt₁, w₁), (({ f with re := re, im := im } : Wf K).power, dt₂, w₂)]] := by
  rw [reused_wavefront_readout_is_sum]
  simp [wValueOps, wfsStep, wfAt, exposures, h₁, h₂]

example : ∃ (g : Geom) (f : Wf ℚ) (re im : List ℚ), f.power.length = g.ninput ∧
    ({ f with re := re, im := im } : Wf ℚ).power.length = g.ninput :=
  ⟨Geom.uniform [2] 1, ⟨[1, 2], [0, 1], [1, 1]⟩, [0, 0], [1, 1], by decide, by decide⟩

/-- **Images of the noisy detector live on the detector grid, whatever grid the parameter maps live on** (driver ops
`ntset` / `ntint` / `ntread`, compared with `image.grid` of the real `NoisyDetector`): flat field, dark current
and read noise may be scalars, plain arrays or Fields on any grid object, set in the constructor or between any two
operations — every image of every history carries the detector grid. -/
theorem noisy_image_grid_is_detector_grid (ops : List NTOp) (st : NTSt)
    (h : st.acc = none ∨ st.acc = some .detector) : ∀ t ∈ ntRun st ops, t = .detector := by
  induction ops generalizing st with
  | nil => simp [ntRun]
  | cons op ops ih =>
    cases op with
    | integrate p =>
      simp only [ntRun, ntStep]
      apply ih
      rcases h with h | h <;> simp [h, tagOp, relabel]
    | readOut =>
      simp only [ntRun, ntStep, tagOp, List.mem_cons]
      rintro t (rfl | ht)
      · rcases h with h | h <;> simp [h]
      · exact ih _ (Or.inl rfl) t ht
    | setDark m => simp only [ntRun, ntStep]; exact ih _ h
    | setFlat m => simp only [ntRun, ntStep]; exact ih _ h
    | setSigma m => simp only [ntRun, ntStep]; exact ih _ h

example : (({} : NTSt).acc = none ∨ ({} : NTSt).acc = some .detector) := Or.inl rfl

/-! ### Linear accumulation in time (session 4) -/

/-- **Time-additivity of an exposure**: integrating the same light with the same weight for `dt₁` and then for `dt₂`
accumulates exactly what one integration of `dt₁ + dt₂` accumulates, after any pending integrations `l`. -/
theorem integrate_split_time (g : Geom) (l : List (List K × K × K)) (p : List K) (dt₁ dt₂ w : K) :
    sumCharges g (l ++ [(p, dt₁, w), (p, dt₂, w)]) = sumCharges g (l ++ [(p, dt₁ + dt₂, w)]) := by
  have e : l ++ [(p, dt₁, w), (p, dt₂, w)] = (l ++ [(p, dt₁, w)]) ++ [(p, dt₂, w)] := by simp
  rw [e, sumCharges_snoc, sumCharges_snoc, sumCharges_snoc, vadd_assoc_det, ← charge_add_dt]

example : sumCharges (Geom.uniform [2] 1) ([] ++ [(([1, 2] : List Rat), (1/2 : Rat), (1 : Rat)), ([1, 2], 1/4, 1)]) = [3/4, 3/2] := by
  decide +kernel

/-- **Homogeneity of an exposure in the incident power**: making every integrated power image `c` times brighter makes
the accumulated image `c` times brighter, for every detector geometry (any subsampling), every list of integrations. -/
theorem exposure_scales_with_power (g : Geom) (c : K) (l : List (List K × K × K)) :
    sumCharges g (l.map fun x => (x.1.map (c * ·), x.2)) = (sumCharges g l).map (c * ·) := by
  have key : ∀ (l : List (List K × K × K)) (a : List K),
      (l.map fun x => (x.1.map (c * ·), x.2)).foldl
        (fun a (x : List K × K × K) => vadd a (charge (binNDs g.ss g.dims x.1) x.2.1 x.2.2)) (a.map (c * ·))
      = (l.foldl (fun a (x : List K × K × K) => vadd a (charge (binNDs g.ss g.dims x.1) x.2.1 x.2.2)) a).map (c * ·) := by
    intro l
    induction l with
    | nil => intro a; rfl
    | cons x xs ih =>
      intro a
      simp only [List.map_cons, List.foldl_cons]
      rw [binNDs_smul, charge_smul_power, vadd_smul, ih]
  have hz : (vzero g.npix : List K) = (vzero g.npix : List K).map (c * ·) := by simp [vzero]
  unfold sumCharges
  rw [hz, key, ← hz]

example : sumCharges (Geom.uniform [1] 2) ([(([1, 2] : List Rat), (1/2 : Rat), (1 : Rat))].map fun x => (x.1.map ((3 : Rat) * ·), x.2))
    = [9/2] := by decide +kernel

/-- **Additivity in the weight**: integrating the same light for the same time with weights `w₁` and then `w₂`
(two spectral channels of a broadband exposure, say) accumulates what one integration with weight `w₁ + w₂` does. -/
theorem integrate_split_weight (g : Geom) (l : List (List K × K × K)) (p : List K) (dt w₁ w₂ : K) :
    sumCharges g (l ++ [(p, dt, w₁), (p, dt, w₂)]) = sumCharges g (l ++ [(p, dt, w₁ + w₂)]) := by
  have e : l ++ [(p, dt, w₁), (p, dt, w₂)] = (l ++ [(p, dt, w₁)]) ++ [(p, dt, w₂)] := by simp
  rw [e, sumCharges_snoc, sumCharges_snoc, sumCharges_snoc, vadd_assoc_det, ← charge_add_w]

end HcipyVerif.Detector
