import HcipyVerif.Lemmas.ApertureMain
import HcipyVerif.Lemmas.AperturePolygon
import HcipyVerif.Lemmas.ApertureKeck
import HcipyVerif.Lemmas.AperturePolar
import HcipyVerif.Lemmas.AperturePolarInexact
import HcipyVerif.Lemmas.ApertureStat
import HcipyVerif.Lemmas.AperturePupil
import HcipyVerif.Model.ApertureHistory
import HcipyVerif.Model.ApertureTelescopes

/-!
# C12 — Apertures depend only on the physical points, not on the grid representation

All theorems are about `HcipyVerif.Aperture` (Model/Aperture.lean), the model of
`hcipy/aperture/generic.py` and `evaluate_supersampled` after the repairs in `pending_fixes/`
(D6, D7, D8, D28, D30); the model is tied to the code by the C12 correspondence
(harness/props/c12.py).

* `val s p` is the value of shape `s` at the physical point `p` (the point predicate `inside`,
  as a 0/1/transmission value);
* `evalSep s xs ys` is the code path on a **separated** grid with axes `xs`, `ys` (regular grids are
  separated): broadcast of `x[newaxis,:]`, `y[:,newaxis]`, bounding slices, masked assignment into
  the 2-D view, `ravel()`;
* `evalPts s pts` is the code path on a **non-separated** grid (unstructured Cartesian; every polar
  grid after `as_('cartesian')`): element-wise on the coordinate arrays, `x[m]`, `f[m] = …`;
* `evalPolar s qs` is the code path on a **polar** grid whose points are `(r, cos θ, sin θ)`: the
  radius shortcut of the centre-less circle (`.disk`), `PolarGrid.rotate` for rotated apertures,
  `as_('cartesian')` (→ `evalPts`) for every other maker.

All four are executed by the driver (`C12 eval sep|pts|polar`, `C12 regsub`, `C12 keck`, `C12 vlt`,
`C12 hexpos`, `C12 hexpupil`, `C12 hicat`, `C12 super`, `C12 superstat`, `C12 superlist`) and compared with the running code — values, and for the regular polygon also the
bounding slices / the mask and the sub-array that `func(grid, return_with_mask=True)` returns.

Every statement holds for **all** axis lists (any length, unsorted, repeated values) and all
rational parameters.  Hypotheses (each has a satisfiability `example` at the end):
* `WF s`     — every regular polygon in `s` has a non-negative circum-radius;
* `Binary s` — `s` is built from the binary makers (no transmissions other than 1, differences
               only of nested shapes);
* `PolarWF s` — centre-less circles evaluated on the polar grid itself have radius ≥ 0 and the
               rotations above them satisfy `c² + s² = 1`;
* `PolarPt q` — `0 ≤ r` and `cos² + sin² = 1`.

The refutations of code that no longer exists in /repo (D6 `circlePolarOld`, D7 `regpolySlowOld`)
are kept as documentation in Lemmas/ApertureList.lean (section D); they are not property theorems.
-/
set_option linter.unusedSimpArgs false
set_option linter.unusedVariables false

namespace HcipyVerif.Aperture

/-! ## representation independence -/

/-- **The separated-grid code path computes the point semantics**: the fast path of every maker
(and of every composition of makers) on the separated grid `xs × ys` is the list of values at the
grid's points, x fastest. -/
theorem fast_path_eq_inside (s : Shape) (xs ys : List Rat) (h : WF s) :
    evalSep s xs ys = (sepPoints xs ys).map (val s) :=
  evalSep_eq_val s xs ys h

/-- **The non-separated code path computes the point semantics.** -/
theorem slow_path_eq_inside (s : Shape) (pts : List Pt) : evalPts s pts = pts.map (val s) :=
  evalPts_eq_val s pts

/-- **Representation independence**: a separated grid and the unstructured grid holding the same
points get the same field. -/
theorem representation_independent (s : Shape) (xs ys : List Rat) (h : WF s) :
    evalSep s xs ys = evalPts s (sepPoints xs ys) :=
  evalSep_eq_evalPts s xs ys h

/-- … and so do any two point lists that agree as physical points, whatever produced them
(`as_('polar')` and back, a rotated copy, a subset). -/
theorem value_depends_on_point_only (s : Shape) (pts pts' : List Pt) (k k' : Nat)
    (hk : k < pts.length) (hk' : k' < pts'.length) (h : pts.getD k (0, 0) = pts'.getD k' (0, 0)) :
    (evalPts s pts)[k]? = (evalPts s pts')[k']? := by
  rw [evalPts_getElem? s pts k hk, evalPts_getElem? s pts' k' hk', h]

/-! ### polar grids -/

/-- **The polar code path computes the point semantics** at `(r cos θ, r sin θ)`, for every shape
tree: the radius shortcut of the centre-less circle, rotation by adding to θ, conversion for the
rest. -/
theorem polar_path_eq_inside (s : Shape) (qs : List PPt) (h : PolarWF s) (hq : ∀ q ∈ qs, PolarPt q) :
    evalPolar s qs = (qs.map toCart).map (val s) :=
  evalPolar_eq_val s qs h hq

/-- **Representation independence, polar ↔ Cartesian**: a polar grid and the unstructured Cartesian
grid holding the same physical points get the same field. -/
theorem polar_representation_independent (s : Shape) (qs : List PPt) (h : PolarWF s)
    (hq : ∀ q ∈ qs, PolarPt q) : evalPolar s qs = evalPts s (qs.map toCart) := by
  rw [evalPolar_eq_val s qs h hq, evalPts_eq_val]

/-- the shortcut `grid.as_('polar').r <= diameter / 2` of `make_circular_aperture` without a centre
is the Cartesian test, for a non-negative diameter -/
theorem polar_circle_shortcut {R : Rat} (hR : 0 ≤ R) (qs : List PPt) (hq : ∀ q ∈ qs, PolarPt q) :
    evalPolar (.disk R) qs = qs.map (fun q => b2r (decide (q.1 ≤ R))) ∧
    evalPolar (.disk R) qs = (qs.map toCart).map (val (.disk R)) :=
  ⟨rfl, evalPolar_eq_val (.disk R) qs hR hq⟩

/-- **… and for a negative diameter it is not**: at the origin the shortcut says "outside", the
Cartesian test (which squares the radius) "inside".  The real code does the same
(`make_circular_aperture(-1.0)`: 12 pixels on a Cartesian 8×8 grid, none on the same grid as polar —
replayed by the harness, `negative-diameter` in c12.py); a negative diameter is outside the domain
of the property ("sizes"), so this is documented, not repaired. -/
theorem polar_circle_negative_diameter_counterexample :
    ∃ R qs, (∀ q ∈ qs, PolarPt q) ∧ evalPolar (.disk R) qs ≠ (qs.map toCart).map (val (.disk R)) := by
  refine ⟨-1, [(0, 1, 0)], ?_, ?_⟩
  · intro q hq
    simp only [List.mem_singleton] at hq
    subst hq
    exact evalPolar_negative_radius.1
  · rw [evalPolar_negative_radius.2.1, evalPolar_negative_radius.2.2]
    decide

/-! #### … on the direction cosines the code really has (floats: not exactly a unit vector)

`PolarPt` above asks for `cos² + sin² = 1` exactly; that is false for almost every float pair
`(cos θ, sin θ)` the driver is sent.  `diskAgree s q` (Model; computed by the driver for every point of
every polar request) is the decidable condition that carries the statement instead. -/

/-- **The polar code path computes the point semantics wherever the radius shortcuts agree with the
Cartesian test** — no hypothesis on the direction cosines, the rotations or the radii. -/
theorem polar_path_eq_inside_float (s : Shape) (qs : List PPt) (h : ∀ q ∈ qs, diskAgree s q = true) :
    evalPolar s qs = (qs.map toCart).map (val s) :=
  evalPolar_eq_val_of_agree s qs h

/-- **… and they agree except within one rounding error of the rim**: if `cos² + sin²` is within `ε`
of 1 then `r ≤ R` and `(r cos)² + (r sin)² ≤ R²` agree whenever `ε·r² < |r² − R²|`. -/
theorem polar_float_rim {R ε : Rat} (hR : 0 ≤ R) {q : PPt} (hr : 0 ≤ q.1)
    (hn : |q.2.1 * q.2.1 + q.2.2 * q.2.2 - 1| ≤ ε) (hfar : ε * sq q.1 < |sq q.1 - sq R|) :
    diskAgree (.disk R) q = true :=
  diskAgree_of_far hR hr hn hfar

/-- `PolarGrid.rotate` on float cosines multiplies the squared norm of the direction by the squared
norm of the rotation (so `ε` grows to at most `2ε + ε²` per rotation) -/
theorem polar_rotate_norm (c s : Rat) (q : PPt) :
    (rotDir c s q).2.1 * (rotDir c s q).2.1 + (rotDir c s q).2.2 * (rotDir c s q).2.2
      = (c * c + s * s) * (q.2.1 * q.2.1 + q.2.2 * q.2.2) :=
  rotDir_norm c s q

/-- the exact case: a unit direction and a radius ≥ 0 always agree -/
theorem polar_exact_agrees {R : Rat} (hR : 0 ≤ R) {q : PPt} (hq : PolarPt q) :
    diskAgree (.disk R) q = true :=
  diskAgree_of_polarPt hR hq

/-- **Index theorem** (`fast_eq_slow` for every maker): at flat index `iy·Nx + ix` the separated
path holds exactly the value at the point `(x[ix], y[iy])`. -/
theorem fast_eq_slow_index (s : Shape) (xs ys : List Rat) (h : WF s) {ix iy : Nat}
    (hx : ix < xs.length) (hy : iy < ys.length) :
    (evalSep s xs ys)[iy * xs.length + ix]? = some (val s (xs.getD ix 0, ys.getD iy 0)) := by
  rw [evalSep_eq_val s xs ys h, List.getElem?_map, sepPoints_getElem? xs ys hx hy]
  rfl

/-- index form of the non-separated path -/
theorem slow_index (s : Shape) (pts : List Pt) (k : Nat) (hk : k < pts.length) :
    (evalPts s pts)[k]? = some (val s (pts.getD k (0, 0))) :=
  evalPts_getElem? s pts k hk

/-- C order of `ravel()`: element `(i, j)` of an `nr × nc` array lands at `i·nc + j`. -/
theorem ravel_x_fastest {α : Type} (A : Arr α) {i j : Nat} (hi : i < A.nr) (hj : j < A.nc) :
    A.ravel[i * A.nc + j]? = some (A.get i j) :=
  Arr.ravel_getElem? A hi hj

/-! ### the individual makers, as the code writes them -/

theorem fast_eq_slow_circular (r cx cy : Rat) (xs ys : List Rat) :
    circleFast r cx cy xs ys = (sepPoints xs ys).map fun p => b2r (inCircle r cx cy p) :=
  circleFast_eq r cx cy xs ys

theorem fast_eq_slow_elliptical (cM sM cm sm cx cy : Rat) (xs ys : List Rat) :
    ellipseFast cM sM cm sm cx cy xs ys
      = (sepPoints xs ys).map fun p => b2r (inEllipse cM sM cm sm cx cy p) :=
  ellipseFast_eq cM sM cm sm cx cy 0 xs ys

theorem fast_eq_slow_rectangular (hx hy cx cy : Rat) (xs ys : List Rat) :
    rectFast hx hy cx cy xs ys = (sepPoints xs ys).map fun p => b2r (inRect hx hy cx cy p) :=
  rectFast_eq hx hy cx cy xs ys

theorem fast_eq_slow_spider (sx sy c s hl hw : Rat) (xs ys : List Rat) :
    spiderFast sx sy c s hl hw xs ys
      = (sepPoints xs ys).map fun p => 1 - b2r (inSpider sx sy c s hl hw p) :=
  spiderFast_eq sx sy c s hl hw xs ys

theorem fast_eq_slow_spider_infinite (px py c s hw : Rat) (xs ys : List Rat) :
    spiderInfFast px py c s hw xs ys
      = (sepPoints xs ys).map fun p => 1 - b2r (inSpiderInf px py c s hw p) :=
  spiderInfFast_eq px py c s hw xs ys

/-- the regular polygon: bounding slices `ind[0] … ind[-1]`, the loop over `thetas`, the
assignment `f[m_y, m_x] = f_sub` — equal to the fallback path (rectangular mask, `x[m]`,
`f[m] = f_sub`) on the same points -/
theorem fast_eq_slow_regular_polygon {r : Rat} (h : 0 ≤ r) (even : Bool) (a : Rat)
    (dirs : List (Rat × Rat)) (cx cy : Rat) (xs ys : List Rat) :
    regpolyFast even r a dirs cx cy xs ys = regpolySlow even r a dirs cx cy (sepPoints xs ys) := by
  rw [regpolyFast_eq h, regpolySlow_eq]

/-- the segmented aperture with a mask-returning segment: `res.shaped[mask][sub > 0.5] = t` on the
separated grid equals `res[flatnonzero(mask)[sub > 0.5]] = t` on the unstructured grid -/
theorem fast_eq_slow_segmented {r : Rat} (h : 0 ≤ r) (even : Bool) (a : Rat)
    (dirs : List (Rat × Rat)) (cx cy : Rat) (xs ys : List Rat) (segs : List (Pt × Rat)) :
    (segFastArr even r a dirs cx cy xs ys segs).ravel
      = evalPts (.seg segs (.regpoly even r a dirs cx cy)) (sepPoints xs ys) := by
  rw [segFast_eq h, evalPts_eq_val]

/-! ## bounding boxes -/

/-- a point of the regular polygon lies in the bounding square around the polygon's **centre**
(so masking with that square, or slicing to it, loses nothing) -/
theorem bounding_box_sound {even : Bool} {r a : Rat} {dirs : List (Rat × Rat)} {cx cy : Rat} {p : Pt}
    (h : val (.regpoly even r a dirs cx cy) p ≠ 0) : |p.1 - cx| ≤ r ∧ |p.2 - cy| ≤ r := by
  simp only [val, inRegpoly, b2r] at h
  rw [← rabs_eq_abs, ← rabs_eq_abs]
  by_contra hc
  apply h
  have : (decide (rabs (p.1 - cx) ≤ r) && decide (rabs (p.2 - cy) ≤ r)) = false := by
    rcases not_and_or.mp hc with h1 | h1 <;> simp [h1]
  simp [this]

/-- every pixel outside the bounding slices `[y0, y0+nr) × [x0, x0+nc)` chosen by the fast path is
outside the box, every pixel inside them carries box ∧ half-planes -/
theorem bounding_slices_sound {even : Bool} {r a : Rat} {dirs : List (Rat × Rat)} {xs ys : List Rat}
    {sub : Sub} (h : regpolySub even r a dirs xs ys = some sub) (i j : Nat) (hi : i < ys.length)
    (hj : j < xs.length)
    (hout : ¬ (sub.y0 ≤ i ∧ i < sub.y0 + sub.F.nr ∧ sub.x0 ≤ j ∧ j < sub.x0 + sub.F.nc)) :
    (decide (sq (xs.getD j 0) ≤ sq r) && decide (sq (ys.getD i 0) ≤ sq r)) = false :=
  (regpolySub_some h).2.2.2 i j hi hj hout

/-- no index inside the box at all ⇒ the field is zero everywhere -/
theorem bounding_slices_empty {even : Bool} {r a : Rat} {dirs : List (Rat × Rat)} {xs ys : List Rat}
    (h : regpolySub even r a dirs xs ys = none) (i j : Nat) (hi : i < ys.length) (hj : j < xs.length) :
    (decide (sq (xs.getD j 0) ≤ sq r) && decide (sq (ys.getD i 0) ≤ sq r)) = false :=
  regpolySub_none h i j hi hj

/-- **Irregular polygon: the bounding box of the vertices is sound on all four sides.**  A point
with odd crossing number has a vertex at or left of it, one strictly right of it, one at or below
it and one strictly above it.  (+x: the intercept of a straddling edge is a convex combination of
its end points, so no edge is crossed from the right of all vertices; −x: every straddling edge is
crossed, and a closed polygon straddles a horizontal line an even number of times.) -/
theorem bounding_box_irregular {vs : List Pt} {p : Pt} (h : containsPt vs p = true) :
    (∃ v ∈ vs, v.1 ≤ p.1) ∧ (∃ w ∈ vs, p.1 < w.1) ∧ (∃ v ∈ vs, v.2 ≤ p.2) ∧ (∃ w ∈ vs, p.2 < w.2) :=
  containsPt_bbox h

/-- a closed polygon straddles any horizontal line an even number of times -/
theorem closed_polygon_straddles_even (vs : List Pt) (p : Pt) :
    ((edges vs).filter (straddle p)).length % 2 = 0 :=
  straddles_even vs p

/-- hence the rectangular pre-selection `res[mask] = contains_points(points[mask])` loses nothing
whenever the rectangle covers the vertices: the aperture *is* the even-odd polygon -/
theorem irregular_mask_redundant {vs : List Pt} {hx hy bx by_ : Rat}
    (hbox : ∀ v ∈ vs, |v.1 - bx| ≤ hx ∧ |v.2 - by_| ≤ hy) (p : Pt) :
    val (.irrpoly vs hx hy bx by_) p = b2r (containsPt vs p) :=
  irrpoly_mask_redundant hbox p

/-! ## masked assignment of segments -/

/-- non-separated grids (repaired D8): the assignment writes `t` to exactly the masked pixels the
segment covers and leaves every other pixel alone -/
theorem segmented_assign {α : Type} (pts : List α) (mask sel : α → Bool) (res : α → Rat) (t : Rat) :
    scatterWhere (pts.map mask) ((compress (pts.map mask) pts).map sel) (pts.map res) t
      = pts.map fun p => if mask p && sel p then t else res p :=
  scatterWhere_eq pts mask sel res t

/-- separated grids: `res.shaped[mask][sub] = t` writes through the view, at exactly the pixels of
the slice where `sub` holds -/
theorem segmented_assign_view {α : Type} (A : Arr α) (r0 c0 : Nat) (M : Arr Bool) (t : α) (i j : Nat) :
    (A.setWhere r0 c0 M t).get i j =
      if r0 ≤ i ∧ i < r0 + M.nr ∧ c0 ≤ j ∧ j < c0 + M.nc ∧ M.get (i - r0) (j - c0) = true then t
      else A.get i j :=
  Arr.setWhere_get A r0 c0 M t i j

/-- the whole loop over the segments, pixel by pixel -/
theorem segmented_pixels {r : Rat} (h : 0 ≤ r) (even : Bool) (a : Rat) (dirs : List (Rat × Rat))
    (cx cy : Rat) (xs ys : List Rat) (segs : List (Pt × Rat)) (i j : Nat) (hi : i < ys.length)
    (hj : j < xs.length) :
    (segFastArr even r a dirs cx cy xs ys segs).get i j
      = val (.seg segs (.regpoly even r a dirs cx cy)) (xs.getD j 0, ys.getD i 0) :=
  (segFastArr_get h even a dirs cx cy xs ys segs).2.2 i j hi hj

/-- later segments overwrite earlier ones exactly where they cover the point -/
theorem segmented_later_overwrites (segs : List (Pt × Rat)) (s : Pt × Rat) (a : Shape) (p : Pt) :
    val (.seg (segs ++ [s]) a) p =
      if val a (shiftPt s.1.1 s.1.2 p) > 1/2 then s.2 else val (.seg segs a) p :=
  seg_snoc segs s a p

/-! ## values -/

theorem values_in_unit_interval_binary {s : Shape} (h : Binary s) (p : Pt) :
    0 ≤ val s p ∧ val s p ≤ 1 :=
  values_in_unit_interval h p

/-- binary apertures are 0/1-valued -/
theorem values_zero_or_one {s : Shape} (h : Binary s) (p : Pt) : val s p = 0 ∨ val s p = 1 :=
  binary_val h p

/-- segment transmissions aside: a segmented aperture is 0 or one of its transmissions -/
theorem segmented_values (segs : List (Pt × Rat)) (a : Shape) (p : Pt) :
    val (.seg segs a) p = 0 ∨ ∃ s ∈ segs, val (.seg segs a) p = s.2 :=
  seg_val_mem segs a p

theorem segmented_in_unit_interval {segs : List (Pt × Rat)} {a : Shape} {p : Pt}
    (h : ∀ s ∈ segs, 0 ≤ s.2 ∧ s.2 ≤ 1) : 0 ≤ val (.seg segs a) p ∧ val (.seg segs a) p ≤ 1 :=
  seg_val_in_unit_interval h

/-- the obstructed circular aperture `(outer − inner)·spiders` is binary when the obscuration is
not larger than the pupil -/
theorem obstructed_circular_binary {ri ro cx cy : Rat} (h : rabs ri ≤ rabs ro) :
    Binary (.sub (.circle ro cx cy) (.circle ri cx cy)) :=
  binary_obstructed_circle h

/-- the mean of fields with values in [0,1] has values in [0,1] -/
theorem mean_in_unit_interval (n : Nat) (fs : List (List Rat)) (hne : fs ≠ [])
    (hlen : ∀ f ∈ fs, f.length = n) (hu : ∀ f ∈ fs, ∀ v ∈ f, 0 ≤ v ∧ v ≤ 1) :
    ∀ v ∈ meanFields n fs, 0 ≤ v ∧ v ≤ 1 :=
  meanFields_mem_unit n fs hne hlen hu

/-- **supersampled binary apertures take values in [0,1]** — for every oversampling `nx, ny`
and every separated grid on which `evaluate_supersampled` is defined -/
theorem supersampled_in_unit_interval {s : Shape} (hb : Binary s) (hw : WF s) {nx ny : Nat}
    {xs ys f : List Rat} (h : supersampled s nx ny xs ys = .ok f) : ∀ v ∈ f, 0 ≤ v ∧ v ≤ 1 :=
  supersampled_mem_unit hb hw h

/-- **where it is defined**: each axis has ≥ 2 points and both oversampling factors are ≥ 1 (the
model has no totalised `x / 0`: a factor 0 is an error, as in the code) -/
theorem supersampled_defined_iff (s : Shape) (nx ny : Nat) (xs ys : List Rat) :
    (∃ f, supersampled s nx ny xs ys = .ok f) ↔ (2 ≤ xs.length ∧ 2 ≤ ys.length ∧ 1 ≤ nx ∧ 1 ≤ ny) :=
  supersampled_isOk_iff s nx ny xs ys

/-- which exception otherwise: IndexError for a one-point axis, else ZeroDivisionError for a
factor 0 (the order in which the code computes spacings and the dither grid) -/
theorem supersampled_error_kinds (s : Shape) (nx ny : Nat) (xs ys : List Rat) :
    (supersampled s nx ny xs ys = .error .index ↔ (xs.length < 2 ∨ ys.length < 2)) ∧
    (supersampled s nx ny xs ys = .error .zeroDiv ↔
      (2 ≤ xs.length ∧ 2 ≤ ys.length ∧ (nx = 0 ∨ ny = 0))) :=
  supersampled_error_iff s nx ny xs ys

/-! ### the other statistics: 'sum', 'min', 'max' (`supersampledStat`, driver op `C12 superstat`) -/

/-- statistic 'mean' of the general form is the `supersampled` of the theorems above -/
theorem supersampled_statistic_mean (s : Shape) (nx ny : Nat) (xs ys : List Rat) :
    supersampledStat .mean s nx ny xs ys = supersampled s nx ny xs ys :=
  supersampledStat_mean s nx ny xs ys

/-- which exception a statistic raises: IndexError for a one-point axis whatever the statistic;
for an oversampling factor 0 ZeroDivisionError with 'mean' (`0 / len(dithers)`), AttributeError with
'sum' / 'min' / 'max' (`field.grid = grid` on the initial `0` / `None`) — found by the `superstat`
tie: the first model said ZeroDivisionError for all four -/
theorem supersampled_statistic_error_kinds (st : Stat) (s : Shape) (nx ny : Nat) (xs ys : List Rat) :
    (supersampledStat st s nx ny xs ys = .error .index ↔ (xs.length < 2 ∨ ys.length < 2)) ∧
    (supersampledStat st s nx ny xs ys = .error .zeroDiv ↔
      (st = .mean ∧ 2 ≤ xs.length ∧ 2 ≤ ys.length ∧ (nx = 0 ∨ ny = 0))) ∧
    (supersampledStat st s nx ny xs ys = .error .attribute ↔
      (st ≠ .mean ∧ 2 ≤ xs.length ∧ 2 ≤ ys.length ∧ (nx = 0 ∨ ny = 0))) :=
  ⟨supersampledStat_index_iff st s nx ny xs ys, supersampledStat_zero_iff st s nx ny xs ys⟩

/-- … and every statistic is defined exactly where 'mean' is -/
theorem supersampled_statistic_defined_iff (st : Stat) (s : Shape) (nx ny : Nat) (xs ys : List Rat) :
    (∃ f, supersampledStat st s nx ny xs ys = .ok f) ↔ (2 ≤ xs.length ∧ 2 ≤ ys.length ∧ 1 ≤ nx ∧ 1 ≤ ny) :=
  supersampledStat_isOk_iff st s nx ny xs ys

/-- **'min' and 'max' only select**: every value they return is the aperture's value at some
physical point — whatever the aperture (transmissions included) -/
theorem supersampled_min_max_selects {st : Stat} (hst : st = .min ∨ st = .max) {s : Shape} (hw : WF s)
    {nx ny : Nat} {xs ys f : List Rat} (h : supersampledStat st s nx ny xs ys = .ok f) :
    ∀ v ∈ f, ∃ p, v = val s p :=
  supersampledStat_minmax_val hst hw h

/-- hence the 'min' / 'max' of a binary aperture is again 0/1-valued (in particular in [0,1]) -/
theorem supersampled_min_max_binary {st : Stat} (hst : st = .min ∨ st = .max) {s : Shape}
    (hb : Binary s) (hw : WF s) {nx ny : Nat} {xs ys f : List Rat}
    (h : supersampledStat st s nx ny xs ys = .ok f) : ∀ v ∈ f, v = 0 ∨ v = 1 := by
  intro v hv
  obtain ⟨p, rfl⟩ := supersampledStat_minmax_val hst hw h v hv
  exact binary_val hb p

/-- **min ≤ mean ≤ max at every pixel** — any aperture, any oversampling -/
theorem supersampled_min_le_mean_le_max {s : Shape} (hw : WF s) {nx ny : Nat} {xs ys fmin fmean fmax : List Rat}
    (hmin : supersampledStat .min s nx ny xs ys = .ok fmin) (hmean : supersampled s nx ny xs ys = .ok fmean)
    (hmax : supersampledStat .max s nx ny xs ys = .ok fmax) (k : Nat) (hk : k < xs.length * ys.length) :
    fmin.getD k 0 ≤ fmean.getD k 0 ∧ fmean.getD k 0 ≤ fmax.getD k 0 :=
  supersampledStat_order hw hmin hmean hmax k hk

/-- 'mean' is 'sum' divided by the number of dithered grids `ny·nx` -/
theorem supersampled_sum_mean {s : Shape} {nx ny : Nat} {xs ys f : List Rat}
    (h : supersampledStat .sum s nx ny xs ys = .ok f) :
    supersampled s nx ny xs ys = .ok (f.map fun v => v / ((ny * nx : Nat) : Rat)) :=
  supersampledStat_sum_mean h

/-- the 'sum' of a binary aperture counts sub-samples: between 0 and `ny·nx` (so 'sum' does **not**
stay in [0,1]; the clause is about 'mean', 'min', 'max') -/
theorem supersampled_sum_bounds {s : Shape} (hb : Binary s) (hw : WF s) {nx ny : Nat}
    {xs ys f : List Rat} (h : supersampledStat .sum s nx ny xs ys = .ok f) :
    ∀ v ∈ f, 0 ≤ v ∧ v ≤ ((ny * nx : Nat) : Rat) :=
  supersampledStat_sum_bounds hb hw h

/-! ### a list of generators (→ ModeBasis; `supersampledList`, driver op `C12 superlist`) -/

/-- **the list form holds, in order, exactly the fields of its generators**: it succeeds iff every
generator does (any statistic) -/
theorem supersampled_list_ok_iff (st : Stat) (nx ny : Nat) (xs ys : List Rat) {ss : List Shape}
    (hne : ss ≠ []) (fs : List (List Rat)) :
    supersampledList st nx ny xs ys ss = .ok fs ↔
      List.Forall₂ (fun s f => supersampledStat st s nx ny xs ys = .ok f) ss fs :=
  supersampledList_ok_iff st nx ny xs ys hne fs

/-- an empty list is rejected (ValueError from `ModeBasis`) -/
theorem supersampled_list_empty (st : Stat) (nx ny : Nat) (xs ys : List Rat) :
    supersampledList st nx ny xs ys [] = .error .value := rfl

/-- a non-empty list fails exactly when, and as, its first generator does -/
theorem supersampled_list_error_iff (st : Stat) (nx ny : Nat) (xs ys : List Rat) (s : Shape)
    (rest : List Shape) (e : SuperErr) :
    supersampledList st nx ny xs ys (s :: rest) = .error e ↔ supersampledStat st s nx ny xs ys = .error e :=
  supersampledListAux_error_iff st nx ny xs ys s rest e

/-- every mode of a supersampled list of binary apertures has values in [0,1] -/
theorem supersampled_list_in_unit_interval {nx ny : Nat} {xs ys : List Rat} {s : Shape} {rest : List Shape}
    (hs : ∀ t ∈ s :: rest, Binary t ∧ WF t) {fs : List (List Rat)}
    (h : supersampledList .mean nx ny xs ys (s :: rest) = .ok fs) : ∀ f ∈ fs, ∀ v ∈ f, 0 ≤ v ∧ v ≤ 1 :=
  supersampledListAux_mem_unit hs h

/-- one mode per generator -/
theorem supersampled_list_length {st : Stat} {nx ny : Nat} {xs ys : List Rat} {s : Shape} {rest : List Shape}
    {fs : List (List Rat)} (h : supersampledList st nx ny xs ys (s :: rest) = .ok fs) :
    fs.length = (s :: rest).length :=
  supersampledListAux_length h

/-! ## one sample per grid point

The clause "the returned field is attached to the grid it was asked for" is about object identity
(`field.grid is grid`) and is **oracle-only**: the harness checks it on the real code for every
maker, every representation and the supersampled form.  What the model can say is only that each
code path returns one sample per grid point, in the grid's own order: -/

theorem field_length_separated (s : Shape) (xs ys : List Rat) (h : WF s) :
    (evalSep s xs ys).length = (sepPoints xs ys).length := by
  rw [evalSep_length s xs ys h, sepPoints_length, Nat.mul_comm]

theorem field_length_unstructured (s : Shape) (pts : List Pt) : (evalPts s pts).length = pts.length :=
  evalPts_length s pts

theorem field_length_polar (s : Shape) (qs : List PPt) (h : PolarWF s) (hq : ∀ q ∈ qs, PolarPt q) :
    (evalPolar s qs).length = qs.length := by
  rw [evalPolar_eq_val s qs h hq]; simp

theorem field_length_supersampled {s : Shape} (hw : WF s) {nx ny : Nat} {xs ys f : List Rat}
    (h : supersampled s nx ny xs ys = .ok f) : f.length = (sepPoints xs ys).length := by
  rw [supersampled_length hw h, sepPoints_length, Nat.mul_comm]

theorem field_length_supersampled_statistic {st : Stat} {s : Shape} (hw : WF s) {nx ny : Nat}
    {xs ys f : List Rat} (h : supersampledStat st s nx ny xs ys = .ok f) :
    f.length = (sepPoints xs ys).length := by
  rw [supersampledStat_length hw h, sepPoints_length, Nat.mul_comm]

/-! ## the regular polygon's tests versus their definition -/

/-- even number of sides: one squared test is the pair of opposite half-planes -/
theorem halfplane_even {a c s x y : Rat} (ha : 0 ≤ a) :
    hp true a (c, s) x y = true ↔ (-a ≤ c * x + s * y ∧ c * x + s * y ≤ a) :=
  hp_even_iff ha

/-- odd number of sides: `|sin θ·x| − cos θ·y ≤ a` is a half-plane and its mirror image in the
symmetry axis -/
theorem halfplane_odd {a c s x y : Rat} :
    hp false a (c, s) x y = true ↔ (s * x - c * y ≤ a ∧ -(s * x) - c * y ≤ a) :=
  hp_odd_iff

/-- the running product `f_sub *= (…) <= apothem` is the conjunction of the tests -/
theorem halfplane_product (even : Bool) (a : Rat) (dirs : List (Rat × Rat)) (x y : Rat) :
    hpProd even a dirs x y = b2r (allHp even a dirs x y) :=
  hpProd_eq even a dirs x y

/-- the two spellings of the bounding box, `x² ≤ R²` (fast path) and `|x| ≤ R` (rectangular mask) -/
theorem box_spellings_agree {x r : Rat} (h : 0 ≤ r) : sq x ≤ sq r ↔ |x| ≤ r := by
  rw [sq_le_sq_iff_rabs h, rabs_eq_abs]

/-! ## a telescope pupil inside the model: Keck -/

/-- `make_hexagonal_grid(·, n)` produces `1 + 3n(n+1)` segment centres (37 for Keck's 3 rings) -/
theorem hexagonal_grid_size (n : Nat) (cd ap : Rat) :
    (hexPositions n cd ap).length = 1 + 3 * n * (n + 1) :=
  hexPositions_length n cd ap

/-- the Keck pupil (37 hexagonal segments with transmissions, central obscuration, six spiders)
gets the same field on a separated grid and on the unstructured grid with the same points -/
theorem keck_representation_independent {segR : Rat} (h : 0 ≤ segR) (rings : Nat)
    (pitch ap segA : Rat) (dirs : List (Rat × Rat)) (trs : List Rat) (obsR : Rat)
    (spiders : List (Rat × Rat)) (hw : Rat) (xs ys : List Rat) :
    evalSep (keckShape rings pitch ap segR segA dirs trs obsR spiders hw) xs ys
      = evalPts (keckShape rings pitch ap segR segA dirs trs obsR spiders hw) (sepPoints xs ys) :=
  evalSep_eq_evalPts _ xs ys (keck_wf h rings pitch ap segA dirs trs obsR spiders hw)

/-- … and takes values in [0,1] for transmissions in [0,1] -/
theorem keck_in_unit_interval (rings : Nat) (pitch ap segR segA : Rat) (dirs : List (Rat × Rat))
    {trs : List Rat} (htr : ∀ t ∈ trs, 0 ≤ t ∧ t ≤ 1) (obsR : Rat) (spiders : List (Rat × Rat))
    (hw : Rat) (p : Pt) :
    0 ≤ val (keckShape rings pitch ap segR segA dirs trs obsR spiders hw) p ∧
      val (keckShape rings pitch ap segR segA dirs trs obsR spiders hw) p ≤ 1 :=
  keck_mem_unit rings pitch ap segR segA dirs htr obsR spiders hw p

/-- with all transmissions 1 the Keck recipe is a binary aperture: `values_zero_or_one` and
`supersampled_in_unit_interval` apply to it -/
theorem keck_binary (rings : Nat) (pitch ap segR segA : Rat) (dirs : List (Rat × Rat))
    {trs : List Rat} (htr : ∀ t ∈ trs, t = 1) (obsR : Rat) (spiders : List (Rat × Rat)) (hw : Rat) :
    Binary (keckShape rings pitch ap segR segA dirs trs obsR spiders hw) :=
  keck_binary_of_unit rings pitch ap segR segA dirs htr obsR spiders hw

/-- the Keck pupil on a polar grid (the central obscuration takes the radius shortcut) equals the
Keck pupil on the unstructured Cartesian grid with the same points -/
theorem keck_polar_representation_independent {obsR : Rat} (h : 0 ≤ obsR) (rings : Nat)
    (pitch ap segR segA : Rat) (dirs : List (Rat × Rat)) (trs : List Rat)
    (spiders : List (Rat × Rat)) (hw : Rat) (qs : List PPt) (hq : ∀ q ∈ qs, PolarPt q) :
    evalPolar (keckShape rings pitch ap segR segA dirs trs obsR spiders hw) qs
      = evalPts (keckShape rings pitch ap segR segA dirs trs obsR spiders hw) (qs.map toCart) := by
  rw [evalPolar_eq_val _ qs (keck_polarWF h rings pitch ap segR segA dirs trs spiders hw) hq,
    evalPts_eq_val]

/-! ## a non-hexagonal telescope pupil inside the model: the VLT

`vltShape` = `make_vlt_aperture(…)`: obstructed circular aperture × four finite spiders [× M3 cover];
`vltSegment i` = the `i`-th quadrant of `return_segments=True`, whose three half-planes are computed
**in the model** from the spiders' start/end points (`spiderLine`, `vltThird`). -/

/-- the VLT pupil gets the same field on a separated grid and on the unstructured grid with the
same points (every parameter value; there is no regular polygon in it, so no side condition) -/
theorem vlt_representation_independent (ro ri : Rat) (sp : List SpiderC)
    (m3 : Option (Rat × Rat × Rat × Rat)) (xs ys : List Rat) :
    evalSep (vltShape ro ri sp m3) xs ys = evalPts (vltShape ro ri sp m3) (sepPoints xs ys) :=
  evalSep_eq_evalPts _ xs ys (vlt_wf ro ri sp m3)

/-- … and on a polar grid (both circles take the radius shortcut) -/
theorem vlt_polar_representation_independent {ro ri : Rat} (ho : 0 ≤ ro) (hi : 0 ≤ ri)
    (sp : List SpiderC) (m3 : Option (Rat × Rat × Rat × Rat)) (qs : List PPt)
    (hq : ∀ q ∈ qs, PolarPt q) :
    evalPolar (vltShape ro ri sp m3) qs = evalPts (vltShape ro ri sp m3) (qs.map toCart) := by
  rw [evalPolar_eq_val _ qs (vlt_polarWF ho hi sp m3) hq, evalPts_eq_val]

/-- the VLT recipe is binary when the central obscuration is not larger than the pupil -/
theorem vlt_binary {ro ri : Rat} (h : rabs ri ≤ rabs ro) (sp : List SpiderC)
    (m3 : Option (Rat × Rat × Rat × Rat)) : Binary (vltShape ro ri sp m3) :=
  vlt_binary_of_le h sp m3

/-- every quadrant (segment generator) of the VLT pupil: same field on separated, unstructured
and polar grids, and binary -/
theorem vlt_segment_representation_independent {ro ri : Rat} (ho : 0 ≤ ro) (hi : 0 ≤ ri)
    (hio : ri ≤ ro) (sp : List SpiderC) (m3 : Option (Rat × Rat × Rat × Rat)) {i : Nat}
    {lines : List ((Rat × Rat) × Rat)} {q : Shape}
    (h : vltSegment i lines (vltShape ro ri sp m3) m3 = some q) :
    (∀ xs ys, evalSep q xs ys = evalPts q (sepPoints xs ys)) ∧
    (∀ qs, (∀ p ∈ qs, PolarPt p) → evalPolar q qs = evalPts q (qs.map toCart)) ∧ Binary q := by
  obtain ⟨hw, hb, hp⟩ := vltSegment_props h
  refine ⟨fun xs ys => evalSep_eq_evalPts q xs ys (hw (vlt_wf ro ri sp m3)), ?_, ?_⟩
  · intro qs hq
    rw [evalPolar_eq_val q qs (hp (vlt_polarWF ho hi sp m3)) hq, evalPts_eq_val]
  · apply hb
    apply vlt_binary_of_le _ sp m3
    have h1 : rabs ri = ri := by unfold rabs; simp [hi]
    have h2 : rabs ro = ro := by unfold rabs; simp [ho]
    rw [h1, h2]; exact hio

/-! ## the hexagonally segmented telescope pupils inside the model (round 5)

`HexCfg` (Model/AperturePupil.lean) = `make_luvoir_a_aperture`, `make_luvoir_b_aperture`, `make_elt_aperture`,
`make_tmt_aperture` (and `make_keck_aperture`): the lattice of segment centres, the `Grid.subset` calls that
drop segments, the segmented aperture, the central obscuration, the spiders (product or loop form) and the
list of returned segments are all computed by the model (`C12 hexpos`, `C12 hexpupil`); `HicatCfg` =
`make_hicat_aperture` (`C12 hicat`). -/

/-- **which segments are dropped**: the successive `subset` calls keep exactly the lattice sites that satisfy
every criterium, each decided at that site alone (`selKeeps`: the criterium's aperture value at the site) —
order and multiplicity of the sites are preserved, no site's fate depends on the other sites -/
theorem dropped_segments_pointwise (sels : List Sel) (pos : List Pt) :
    selectPositions sels pos = pos.filter fun p => sels.all fun s => selKeeps s p :=
  selectPositions_eq_filter' sels pos

/-- the kept segment centres are a sub-list of the hexagonal lattice, at most `1 + 3n(n+1)` of them -/
theorem kept_segments_sublattice (c : HexCfg) :
    c.positions.Sublist (hexPositions c.rings c.pitch c.ap) ∧
      c.positions.length ≤ 1 + 3 * c.rings * (c.rings + 1) := by
  have h : c.positions.Sublist (hexPositions c.rings c.pitch c.ap) := by
    rw [HexCfg.positions, selectPositions_eq_filter']
    exact List.filter_sublist
  exact ⟨h, by simpa [hexPositions_length] using h.length_le⟩

/-- the composed pupil takes the fast path to the point semantics on every separated grid … -/
theorem hexpupil_fast_path_eq_inside (c : HexCfg) (h : WF c.segment) (xs ys : List Rat) :
    evalSep c.shape xs ys = (sepPoints xs ys).map (val c.shape) :=
  evalSep_eq_val _ xs ys (hexcfg_wf c h)

/-- … hence the same field on a separated grid and on the unstructured grid with the same points -/
theorem hexpupil_representation_independent (c : HexCfg) (h : WF c.segment) (xs ys : List Rat) :
    evalSep c.shape xs ys = evalPts c.shape (sepPoints xs ys) :=
  evalSep_eq_evalPts _ xs ys (hexcfg_wf c h)

/-- … and on a polar grid (the central obscuration of TMT/Keck takes the radius shortcut there) -/
theorem hexpupil_polar_representation_independent (c : HexCfg) (h : ∀ R, c.obs = some R → 0 ≤ R)
    (qs : List PPt) (hq : ∀ q ∈ qs, PolarPt q) :
    evalPolar c.shape qs = evalPts c.shape (qs.map toCart) := by
  rw [evalPolar_eq_val _ qs (hexcfg_polarWF c h) hq, evalPts_eq_val]

/-- every segment of `return_segments=True` (with the spiders / obscuration the maker wraps around it) is
representation independent as well -/
theorem hexpupil_segment_representation_independent (c : HexCfg) (h : WF c.segment) :
    ∀ s ∈ c.segmentShapes, ∀ xs ys, evalSep s xs ys = evalPts s (sepPoints xs ys) :=
  fun s hs xs ys => evalSep_eq_evalPts s xs ys (hexcfg_segment_wf c h s hs)

/-- one returned segment per kept centre (and transmission) -/
theorem hexpupil_segment_count (c : HexCfg) :
    c.segmentShapes.length = min c.positions.length c.trs.length := by
  simp [HexCfg.segmentShapes, HexCfg.segs]

/-- values in [0,1] for transmissions in [0,1], whatever is dropped and whichever flags are set -/
theorem hexpupil_in_unit_interval (c : HexCfg) (htr : ∀ t ∈ c.trs, 0 ≤ t ∧ t ≤ 1) (p : Pt) :
    0 ≤ val c.shape p ∧ val c.shape p ≤ 1 := by
  rw [val_shape]
  have hseg : ∀ s ∈ c.segs, 0 ≤ s.2 ∧ s.2 ≤ 1 := by
    intro s hs
    obtain ⟨a, b⟩ := s
    exact htr b (List.of_mem_zip hs).2
  have h1 : 0 ≤ segFold (val c.segment) p c.segs 0 ∧ segFold (val c.segment) p c.segs 0 ≤ 1 :=
    seg_val_in_unit_interval (a := c.segment) (p := p) hseg
  have h2 : 0 ≤ obsFactor c.obs p ∧ obsFactor c.obs p ≤ 1 := by
    rcases obsFactor_cases c.obs p with h | h <;> rw [h] <;> constructor <;> norm_num
  have h3 : 0 ≤ spFactor c.hw p c.spiders ∧ spFactor c.hw p c.spiders ≤ 1 := by
    rcases spFactor_cases c.hw p c.spiders with h | h <;> rw [h] <;> constructor <;> norm_num
  exact mul_mem_unit (mul_mem_unit h1 h2) h3

/-- **the segment list is consistent with the pupil (1)**: at every point the pupil is 0 or has exactly the
value of one of the returned segments (a segment that covers the point) — any transmissions -/
theorem hexpupil_value_is_a_segment (c : HexCfg) (hb : Binary c.segment) (p : Pt) :
    val c.shape p = 0 ∨ ∃ s ∈ c.segmentShapes, val c.shape p = val s p := by
  rcases segFold_cover (val c.segment) p c.segs 0 with ⟨_, h0⟩ | ⟨s, hs, hc, hv⟩
  · left; rw [val_shape, h0]; ring
  · right
    refine ⟨decorateSegment c (baseSegment c.segment s), List.mem_map.mpr ⟨s, hs, rfl⟩, ?_⟩
    have h1 : val c.segment (shiftPt s.1.1 s.1.2 p) = 1 := by
      rcases binary_val hb (shiftPt s.1.1 s.1.2 p) with h | h
      · rw [h] at hc; norm_num at hc
      · exact h
    rw [val_shape, val_decorateSegment, val_baseSegment, hv, h1]
    ring

/-- **(2)**: with unit transmissions no returned segment exceeds the pupil anywhere … -/
theorem hexpupil_segment_le_pupil (c : HexCfg) (hb : Binary c.segment) (htr : ∀ t ∈ c.trs, t = 1) (p : Pt) :
    ∀ s ∈ c.segmentShapes, val s p ≤ val c.shape p := by
  intro s hs
  obtain ⟨pt, hpt, rfl⟩ := List.mem_map.mp hs
  have hunit : ∀ s ∈ c.segs, s.2 = 1 := by
    intro s hs
    obtain ⟨a, b⟩ := s
    exact htr b (List.of_mem_zip hs).2
  have hnn : 0 ≤ val c.shape p :=
    (hexpupil_in_unit_interval c (fun t ht => by rw [htr t ht]; constructor <;> norm_num) p).1
  rw [val_decorateSegment, val_baseSegment, hunit pt hpt]
  rcases binary_val hb (shiftPt pt.1.1 pt.1.2 p) with h | h
  · rw [h]; simpa using hnn
  · rcases segFold_cover (val c.segment) p c.segs 0 with ⟨hno, _⟩ | ⟨s', hs', _, hv⟩
    · exact absurd (by rw [h]; norm_num) (hno pt hpt)
    · rw [val_shape, hv, hunit s' hs', h]
      exact le_of_eq (by ring)

/-- **(3) pupil = union of the returned segments** (unit transmissions): the pupil is 1 exactly where some
returned segment is 1 -/
theorem hexpupil_union_of_segments (c : HexCfg) (hb : Binary c.segment) (htr : ∀ t ∈ c.trs, t = 1) (p : Pt) :
    val c.shape p = 1 ↔ ∃ s ∈ c.segmentShapes, val s p = 1 := by
  constructor
  · intro h1
    rcases hexpupil_value_is_a_segment c hb p with h | ⟨s, hs, h⟩
    · rw [h] at h1; norm_num at h1
    · exact ⟨s, hs, by rw [← h, h1]⟩
  · rintro ⟨s, hs, h1⟩
    have hle := hexpupil_segment_le_pupil c hb htr p s hs
    have hub := (hexpupil_in_unit_interval c (fun t ht => by rw [htr t ht]; constructor <;> norm_num) p).2
    rw [h1] at hle
    exact le_antisymm hub hle

/-- the HiCAT pupil (contour − central segment, × segmentation, × spiders) is representation independent -/
theorem hicat_representation_independent (c : HicatCfg) (hA : WF c.segA) (hB : WF c.segB) (hC : WF c.central)
    (xs ys : List Rat) :
    evalSep c.shape xs ys = evalPts c.shape (sepPoints xs ys) ∧
      evalSep c.shape xs ys = (sepPoints xs ys).map (val c.shape) :=
  ⟨evalSep_eq_evalPts _ xs ys (hicat_wf c hA hB hC), evalSep_eq_val _ xs ys (hicat_wf c hA hB hC)⟩

/-- … and so is every returned HiCAT segment (`func(grid) * seg(grid)`) -/
theorem hicat_segment_representation_independent (c : HicatCfg) (hA : WF c.segA) (hB : WF c.segB)
    (hC : WF c.central) : ∀ s ∈ c.segmentShapes, ∀ xs ys, evalSep s xs ys = evalPts s (sepPoints xs ys) := by
  intro s hs xs ys
  obtain ⟨pt, _, rfl⟩ := List.mem_map.mp hs
  exact evalSep_eq_evalPts _ xs ys ⟨hicat_wf c hA hB hC, hB, trivial⟩

/-! ## which side of a decision boundary the model takes (round 5)

Where a maker's decision is exactly representable in floating point (dyadic sizes and centres, axis-aligned) the
harness compares ON the boundary too (`run_exact_boundary`, tolerance 0).  The sides: apertures are **closed**
(`<=`), obstructing spiders are closed as well — so the *transmitted* set of a spider is open —, the half-plane
tests of the VLT quadrants are **strict**. -/

/-- the rectangle is closed: value 1 exactly where `|x − cx| ≤ hx ∧ |y − cy| ≤ hy`, edges and corners included -/
theorem rect_boundary_closed (hx hy cx cy : Rat) (p : Pt) :
    val (.rect hx hy cx cy) p = 1 ↔ |p.1 - cx| ≤ hx ∧ |p.2 - cy| ≤ hy := by
  simp only [val, inRect, rabs_eq_abs]
  by_cases h1 : |p.1 - cx| ≤ hx <;> by_cases h2 : |p.2 - cy| ≤ hy <;> simp [h1, h2, b2r]

/-- the circle is closed: value 1 exactly where `(x − cx)² + (y − cy)² ≤ r²`, the rim included (also `r = 0`:
the centre alone) -/
theorem circle_boundary_closed (r cx cy : Rat) (p : Pt) :
    val (.circle r cx cy) p = 1 ↔ (p.1 - cx) * (p.1 - cx) + (p.2 - cy) * (p.2 - cy) ≤ r * r := by
  simp only [val, inCircle, sq]
  by_cases h : (p.1 - cx) * (p.1 - cx) + (p.2 - cy) * (p.2 - cy) ≤ r * r <;> simp [h, b2r]

/-- an axis-aligned finite spider (`c = 1, s = 0`) blocks its closed rectangle: transmitted (value 1) exactly
**strictly** outside, i.e. the edges `|y − sy| = hw`, `|x − sx| = hl` are dark -/
theorem spider_boundary_blocked (sx sy hl hw : Rat) (p : Pt) :
    val (.spider sx sy 1 0 hl hw) p = 0 ↔ |p.1 - sx| ≤ hl ∧ |p.2 - sy| ≤ hw := by
  simp only [val, inSpider, mul_one, mul_zero, add_zero, sub_zero, abs_le]
  by_cases h1 : p.1 - sx ≤ hl <;> by_cases h2 : -hl ≤ p.1 - sx <;> by_cases h3 : p.2 - sy ≤ hw <;>
    by_cases h4 : -hw ≤ p.2 - sy <;> simp [h1, h2, h3, h4, b2r]

/-- an infinite spider along +x (`angle = 0`; the start point is *added*, as the code has it) blocks the closed
half-strip `x + px ≥ 0`, `|y + py| ≤ hw` -/
theorem spider_infinite_boundary_blocked (px py hw : Rat) (p : Pt) :
    val (.spiderInf px py 1 0 hw) p = 0 ↔ 0 ≤ p.1 + px ∧ |p.2 + py| ≤ hw := by
  simp only [val, inSpiderInf, mul_one, mul_zero, add_zero, sub_zero, abs_le]
  by_cases h1 : 0 ≤ p.1 + px <;> by_cases h3 : p.2 + py ≤ hw <;> by_cases h4 : -hw ≤ p.2 + py <;>
    simp [h1, h3, h4, b2r]

/-- the half-plane tests of the VLT quadrants are strict: a point on the line belongs to neither side -/
theorem halfplane_boundary_open (gt : Bool) (a b c : Rat) (p : Pt) (h : a * p.1 + b * p.2 = c) :
    val (.halfplane gt a b c) p = 0 := by
  cases gt <;> simp [val, inHalf, h, b2r]

/-! ## the hypotheses are satisfiable -/

example : WF (HexCfg.mk 1 1 (7/16) [.nonzero (.disk 1)] (.regpoly true 1 (7/8) [(1, 0)] 0 0) [1, 1] (some (1/4))
    [(0, 0, 1, 0)] (1/16) true).segment := by
  show (0 : Rat) ≤ 1
  norm_num

example : Binary (HexCfg.mk 1 1 (7/16) [.nonzero (.disk 1)] (.regpoly true 1 (7/8) [(1, 0)] 0 0) [1, 1] (some (1/4))
    [(0, 0, 1, 0)] (1/16) true).segment := Binary.regpoly ..

example : ∀ R, (HexCfg.mk 1 1 (7/16) [] (.regpoly true 1 (7/8) [(1, 0)] 0 0) [1, 1] (some (1/4)) [] 0 true).obs = some R →
    0 ≤ R := by
  intro R h
  simp at h
  rw [← h]; norm_num


example : WF (.seg [((0, 0), 1/2)] (.rot 1 0 (.regpoly true 1 (7/8) [(1, 0), (0, 1)] 0 0))) := by
  show (0 : Rat) ≤ 1
  norm_num

example : Binary (.mul (.sub (.circle 2 0 0) (.circle 1 0 0)) (.mul (.const 1) (.spider 0 0 1 0 1 (1/8)))) :=
  Binary.mul (binary_obstructed_circle (by simp [rabs])) (Binary.mul Binary.const1 (Binary.spider ..))

example : containsPt [(0, 0), (2, 0), (0, 2)] (1/2, 1/2) = true := by decide +kernel

example : ∀ v ∈ [((0 : Rat), (0 : Rat)), (2, 0), (0, 2)], |v.1 - 1| ≤ (1 : Rat) ∧ |v.2 - 1| ≤ (1 : Rat) := by
  intro v hv
  simp at hv
  rcases hv with rfl | rfl | rfl <;> norm_num [abs_le]

example : ∀ t ∈ [(1 : Rat), 1/2, 0], 0 ≤ t ∧ t ≤ 1 := by
  intro t ht
  simp at ht
  rcases ht with rfl | rfl | rfl <;> norm_num

/-! ## concrete segment counts (Model/ApertureTelescopes.lean; finite tables fixed by the makers' constants) -/

/-- **LUVOIR A keeps 120 of the 127 lattice sites** (6 rings; the outer clip at `0.98·D/2` drops the six corners,
the inner circle the central segment) -/
theorem luvoir_a_keeps_120_segments : luvoirAPos.positions.length = 120 := by decide +kernel

/-- **LUVOIR B keeps 55 of the 61 lattice sites** (4 rings; the clip at `0.9·D/2` drops the six corners) -/
theorem luvoir_b_keeps_55_segments : luvoirBPos.positions.length = 55 := by decide +kernel

/-- the concrete configurations are instances of the general pupil model: the positions are those of the `HexCfg`
with the same lattice and criteria, whatever segment shape, transmissions and spiders it has -/
theorem poscfg_positions_eq_hexcfg (p : PosCfg) (c : HexCfg) (hr : c.rings = p.rings) (hp : c.pitch = p.pitch)
    (ha : c.ap = p.ap) (hs : c.sels = p.sels) : c.positions = p.positions := by
  simp [HexCfg.positions, PosCfg.positions, hr, hp, ha, hs]

/-! ## history on one grid object: in-place operations between two evaluations (Model/ApertureHistory.lean) -/

/-- **Every in-place operation moves the physical points by the same geometric map, whatever the representation**:
after `scale / shift / rotate / reverse / weights = …` the points of the object are the transformed points (in
reversed order for `reverse`), on a Cartesian and on a polar object alike. -/
theorem inplace_op_moves_points {o : IOp} {g g' : GObj} (h : o.apply g = some g') :
    g'.points = o.reorder (g.points.map o.onPt) := by
  cases o <;> cases g <;> simp [IOp.apply] at h
  all_goals try subst h
  all_goals try simp [GObj.points, IOp.reorder, IOp.onPt, List.map_reverse]
  · rename_i sx sy qs
    obtain ⟨rfl, rfl⟩ := h
    simp only [GObj.points, IOp.reorder, IOp.onPt, List.map_map]
    apply List.map_congr_left
    intro q _
    simp only [Function.comp, toCart, scaleRad, scalePt]
    ext <;> simp <;> ring
  · rename_i c s qs
    intro r c0 s0 _
    simp only [toCart, rotDir, rotPt, Prod.mk.injEq]
    constructor <;> ring

/-- **After any history the field is the point predicate at the CURRENT points** (for a polar object: wherever its
radius shortcuts agree with the Cartesian test, `polar_path_eq_inside_float`). -/
theorem inplace_history_values (s : Shape) (ops : List IOp) {g g' : GObj} (_h : runOps ops g = some g')
    (ha : g'.agree s = true) : evalObj s g' = g'.points.map (val s) := by
  cases g' with
  | cart pts => exact evalPts_eq_val s pts
  | polar qs =>
    simp only [GObj.agree, List.all_eq_true] at ha
    exact evalPolar_eq_val_of_agree s qs ha

/-- **The history of the object does not matter**: two objects with the same current points — reached by whatever
in-place operations from whatever grids, Cartesian or polar, in particular a used object and a fresh one
(`ops' = []`) — get the same field. -/
theorem inplace_history_independent (s : Shape) {ops ops' : List IOp} {g0 g0' g g' : GObj}
    (h : runOps ops g0 = some g) (h' : runOps ops' g0' = some g') (hp : g.points = g'.points)
    (ha : g.agree s = true) (ha' : g'.agree s = true) : evalObj s g = evalObj s g' := by
  rw [inplace_history_values s ops h ha, inplace_history_values s ops' h' ha', hp]

/-- **`Grid.reverse()` between two evaluations reverses the field**: the value at point `i` afterwards is the value
that belonged to point `N-1-i` before — the same physical position. -/
theorem inplace_reverse_values (s : Shape) (g : GObj) (ha : g.agree s = true) :
    evalAfter s [.reverse] g = some (evalObj s g).reverse := by
  cases g with
  | cart pts =>
    simp [evalAfter, runOps, IOp.apply, evalObj, evalPts_eq_val, List.map_reverse]
  | polar qs =>
    simp only [GObj.agree, List.all_eq_true] at ha
    have hr : ∀ q ∈ qs.reverse, diskAgree s q = true := fun q hq => ha q (List.mem_reverse.mp hq)
    simp [evalAfter, runOps, IOp.apply, evalObj, evalPolar_eq_val_of_agree s qs ha,
      evalPolar_eq_val_of_agree s qs.reverse hr, List.map_reverse]

/-- **Assigning the weights between two evaluations changes nothing.** -/
theorem inplace_weights_irrelevant (s : Shape) (ops : List IOp) (g : GObj) :
    evalAfter s (.weights :: ops) g = evalAfter s ops g := by
  simp [evalAfter, runOps, IOp.apply]

/-- the history composes: evaluating after `ops ++ ops'` is evaluating after `ops'` on the object `ops` produced -/
theorem inplace_history_append (s : Shape) (ops ops' : List IOp) (g : GObj) :
    evalAfter s (ops ++ ops') g = (runOps ops g).bind (evalAfter s ops') := by
  induction ops generalizing g with
  | nil => simp [evalAfter, runOps]
  | cons o os ih =>
    cases ho : o.apply g with
    | none => simp [evalAfter, runOps, ho]
    | some g1 =>
      have := ih g1
      simp only [evalAfter] at this
      simp [evalAfter, runOps, ho, this]

/-- which histories are defined: on a Cartesian object every one -/
theorem inplace_history_defined_cartesian (ops : List IOp) (pts : List Pt) :
    ∃ pts', runOps ops (.cart pts) = some (.cart pts') ∧ pts'.length = pts.length := by
  induction ops generalizing pts with
  | nil => exact ⟨pts, rfl, rfl⟩
  | cons o os ih =>
    cases o <;> simp only [runOps, IOp.apply, Option.bind_some]
    · obtain ⟨p, hp, hl⟩ := ih (pts.map (scalePt _ _)); exact ⟨p, hp, by simpa using hl⟩
    · obtain ⟨p, hp, hl⟩ := ih (pts.map (movePt _ _)); exact ⟨p, hp, by simpa using hl⟩
    · obtain ⟨p, hp, hl⟩ := ih (pts.map (rotPt _ _)); exact ⟨p, hp, by simpa using hl⟩
    · obtain ⟨p, hp, hl⟩ := ih pts.reverse; exact ⟨p, hp, by simpa using hl⟩
    · exact ih pts

example : runOps [.scale 2 2, .rot (3/5) (4/5), .reverse, .weights] (.polar [(1, 1, 0), (2, 0, 1)])
    = some (.polar [(4, -4/5, 3/5), (2, 3/5, 4/5)]) := by decide +kernel

example : (GObj.polar [((2 : Rat), (3/5 : Rat), (4/5 + 1/1000 : Rat)), (1/2, 1, 1/1000)]).agree (.sub (.disk 1) (.disk (1/4))) = true := by
  decide +kernel

example : (IOp.scale 2 3).apply (.polar [(1, 1, 0)]) = none := by decide +kernel

example : ∃ c : HexCfg, c.rings = luvoirAPos.rings ∧ c.pitch = luvoirAPos.pitch ∧ c.ap = luvoirAPos.ap ∧ c.sels = luvoirAPos.sels :=
  ⟨⟨luvoirAPos.rings, luvoirAPos.pitch, luvoirAPos.ap, luvoirAPos.sels, .disk 1, [], none, [], 0, false⟩, rfl, rfl, rfl, rfl⟩

example : ∃ f, supersampled (.circle 1 0 0) 2 2 [0, 1] [0, 1, 2] = .ok f :=
  (supersampled_isOk_iff _ 2 2 [0, 1] [0, 1, 2]).mpr (by simp)

example : supersampled (.circle 1 0 0) 0 2 [0, 1] [0, 1, 2] = .error .zeroDiv :=
  ((supersampled_error_iff _ 0 2 [0, 1] [0, 1, 2]).2).mpr (by simp)

example : PolarWF (.mul (.sub (.disk 2) (.disk 1)) (.rot (3/5) (4/5) (.compl (.disk (1/2))))) :=
  ⟨⟨show (0 : Rat) ≤ 2 by norm_num, show (0 : Rat) ≤ 1 by norm_num⟩,
    show (3/5 : Rat) * (3/5) + (4/5) * (4/5) = 1 by norm_num, show (0 : Rat) ≤ 1/2 by norm_num⟩

example : ∀ q ∈ [((0 : Rat), (1 : Rat), (0 : Rat)), (2, 3/5, -4/5)], PolarPt q := by
  intro q hq
  simp at hq
  rcases hq with rfl | rfl <;> exact ⟨by norm_num, by norm_num⟩

example : ∃ f, supersampledStat .max (.circle 1 0 0) 2 1 [0, 1] [0, 1, 2] = .ok f :=
  (supersampledStat_isOk_iff .max _ 2 1 [0, 1] [0, 1, 2]).mpr (by simp)

example : ∀ q ∈ [((2 : Rat), (3/5 : Rat), (4/5 + 1/1000 : Rat)), (1/2, 1, 1/1000)],
    diskAgree (.sub (.disk 1) (.disk (1/4))) q = true := by decide +kernel

example : |(3/5 : Rat) * (3/5) + (4/5 + 1/1000) * (4/5 + 1/1000) - 1| ≤ 1/500 ∧
    (1/500 : Rat) * sq 2 < |sq 2 - sq 1| := by
  unfold sq; constructor <;> norm_num [abs_le, abs_of_pos]

example : ∃ fs, supersampledList .min 2 1 [0, 1] [0, 1, 2] [.circle 1 0 0, .disk 2] = .ok fs := by
  obtain ⟨f, hf⟩ := (supersampledStat_isOk_iff .min (.circle 1 0 0) 2 1 [0, 1] [0, 1, 2]).mpr (by simp)
  obtain ⟨g, hg⟩ := (supersampledStat_isOk_iff .min (.disk 2) 2 1 [0, 1] [0, 1, 2]).mpr (by simp)
  exact ⟨[f, g], (supersampledList_ok_iff _ _ _ _ _ (by simp) _).mpr (List.Forall₂.cons hf (List.Forall₂.cons hg List.Forall₂.nil))⟩

example : (vltSegment 3 (vltLines [((-1, -1), (-4, 0)), ((-1, -1), (0, -4)), ((1, 1), (4, 0)), ((1, 1), (0, 4))])
    (vltShape 4 (1/2) [] none) none).isSome = true := by decide +kernel

example : ∀ t ∈ [(1 : Rat), 1, 1], t = 1 := by simp

example : (regpolySub true 1 (7/8) [(1, 0)] [5, 0, 7] [0]).isSome = true := by decide +kernel

example : regpolySub true 1 (7/8) [(1, 0)] [5] [0] = none := by decide +kernel

end HcipyVerif.Aperture
