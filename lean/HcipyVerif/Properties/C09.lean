import HcipyVerif.Lemmas.Coronagraph
import HcipyVerif.Lemmas.CoronagraphMat
import HcipyVerif.Lemmas.CoronagraphMS
import HcipyVerif.Lemmas.CoronagraphLyot
import HcipyVerif.Lemmas.CoronagraphVV
import Mathlib.Data.Complex.Basic
import Mathlib.Tactic.LinearCombination
import Mathlib.Tactic.FieldSimp
import Mathlib.Algebra.Order.Field.Rat
import Mathlib.Algebra.Order.Floor.Ring
import Mathlib.Data.Rat.Floor
import Mathlib.Algebra.BigOperators.Pi
import Mathlib.Tactic.Positivity

/-!
# C09 — coronagraphs null what they are designed to null and pass the rest

Theorems about the executable model `HcipyVerif/Model/Coronagraph.lean`.

* Perfect coronagraph (`perfect_coronagraph.py`), two models, both run by the driver.
  (a) `perfect`: exact Gram–Schmidt on the sampled modes; the `perfect_*` theorems hold for every
  list of modes over any ordered field (run at `ℚ`, read at `ℝ`).  For linearly *dependent* modes
  this is a statement about the model only (`0/0 = 0` makes a dependent step the identity, LAPACK's
  QR completes the basis with arbitrary directions): the harness compares (a) with the code only
  when the model finds full rank.
  (b) `perfectMat T T⁺ c E = E − T (c ∘ (T⁺ E))` (round 4): the expression `forward` evaluates, for
  arbitrary matrices; the `perfectMat_*` theorems derive the clauses from three decidable
  predicates (`LeftInv`, `WAdjoint`, `NullsModes`) that the driver evaluates on the real object's
  matrices on every run — dependent modes, complex apertures (real `2n × 2k` form), weighted
  grids and user-supplied `coeffs` included.  What stays an assumption is only that these
  predicates hold up to rounding (1e-9) for what LAPACK returns; their defects are reported.
  Complex fields are the pair (real part, imaginary part) of vectors.
* Lyot coronagraphs (`lyot.py`): identities of the forward algebra for arbitrary matrices `F`, `B`
  over any commutative ring (run at the Gaussian rationals).
* Multi-scale coronagraphs (`multi_scale.py`, `vortex.py`): level bookkeeping, and (round 4) the
  algebra of the constructor's mask recursion and of `forward` on arbitrary linear stand-ins for
  the Fourier operators (telescoping on nested supports, wavelength bookkeeping).  The clause
  "< 1 % on axis, > 50 % at 10 λ/D" is a statement about discretisation error with no identity
  behind it: it is **not decided by any theorem here**; the harness measures it.
-/
set_option linter.unusedSimpArgs false
set_option linter.unusedVariables false
set_option linter.unusedSectionVars false

namespace HcipyVerif.Coronagraph

open Finset

/-! ## perfect coronagraph: bookkeeping -/

/-- The double loop appends `Σ_{i<order/2}(i+1) = (order/2)(order/2+1)/2` modes — for every order —
and for every even order this is exactly the length `int(order * (order / 2 + 1) / 4)` the code
gives `coeffs`. -/
theorem mode_count (order : ℕ) :
    modeCount order = ∑ i ∈ Finset.range (order / 2), (i + 1) ∧
    modeCount order = (order / 2) * (order / 2 + 1) / 2 ∧
    (order % 2 = 0 → coeffsLen order = modeCount order) := by
  have hs := two_mul_sum_succ (order / 2)
  have h1 := modeCount_eq_sum order
  refine ⟨h1, ?_, ?_⟩
  · rw [h1]; omega
  · intro hev
    obtain ⟨h, rfl⟩ : ∃ h, order = 2 * h := ⟨order / 2, by omega⟩
    have hh : 2 * h / 2 = h := by omega
    have hs' := two_mul_sum_succ h
    rw [modeCount_eq_sum, hh]
    unfold coeffsLen
    have : 2 * h * (2 * h + 2) = 8 * ∑ i ∈ Finset.range h, (i + 1) := by
      have e : 2 * h * (2 * h + 2) = 4 * (h * (h + 1)) := by ring
      rw [e, ← hs']; ring
    rw [this]; omega

/-- After the repair D30 the number of coefficients used never exceeds the number of
orthogonalised modes, whatever the grid size; on a grid with at least as many points as modes
and an even order it is the full count. -/
theorem coeffs_used (order npix : ℕ) :
    coeffsUsed order npix ≤ min npix (modeCount order) ∧
    (order % 2 = 0 → modeCount order ≤ npix → coeffsUsed order npix = modeCount order) := by
  unfold coeffsUsed
  refine ⟨min_le_right _ _, fun hev hle => ?_⟩
  rw [(mode_count order).2.2 hev]
  omega

/-- The defect D30 in numbers: order 8 on a 3×3 grid asks for 10 coefficients but QR can return
only 9 modes. -/
theorem coeffs_old_mismatch : coeffsLen 8 = 10 ∧ min 9 (modeCount 8) = 9 := by decide

/-! ## perfect coronagraph: the projector -/
section Perfect
variable {K : Type} [Field K] [LinearOrder K] [IsStrictOrderedRing K] {n : ℕ}

/-- Every field in the linear span of the modes is mapped to zero — for any list of modes,
linearly dependent or not. -/
theorem perfect_nulls_span (ms : List (Vector K n)) (x : Vector K n)
    (hx : toFn x ∈ Submodule.span K {f | ∃ m ∈ ms, toFn m = f}) :
    perfect ms x = zeroVec K n := by
  apply toFn_injective
  rw [toFn_perfect, toFn_zeroVec]
  apply perfectF_span
  convert hx using 2
  ext f
  simp [List.mem_map]

/-- **Aperture × any polynomial of total degree below `order/2` is nulled**, for every aperture,
every sampling `(x, y)` of the grid, every order and every coefficient table `c`. -/
theorem perfect_nulls_polynomial (a x y : Vector K n) (order : ℕ) (c : ℕ → ℕ → K) (E : Vector K n)
    (hE : ∀ i : Fin n, E[i] = a[i] * ∑ d ∈ Finset.range (order / 2), ∑ j ∈ Finset.range (d + 1),
      c j (d - j) * x[i] ^ j * y[i] ^ (d - j)) :
    perfectCoronagraph a x y order E = zeroVec K n := by
  unfold perfectCoronagraph
  apply perfect_nulls_span
  have hsum : toFn E = ∑ d ∈ Finset.range (order / 2), ∑ j ∈ Finset.range (d + 1),
      c j (d - j) • toFn (mode a x y (j, d - j)) := by
    funext i
    simp only [Finset.sum_apply, Pi.smul_apply, smul_eq_mul, toFn_mode]
    have := hE i
    simp only [toFn] at *
    rw [this, Finset.mul_sum]
    refine Finset.sum_congr rfl fun d _ => ?_
    rw [Finset.mul_sum]
    refine Finset.sum_congr rfl fun j _ => ?_
    ring
  rw [hsum]
  refine Submodule.sum_mem _ fun d hd => Submodule.sum_mem _ fun j hj => Submodule.smul_mem _ _ ?_
  apply Submodule.subset_span
  refine ⟨mode a x y (j, d - j), ?_, rfl⟩
  unfold modes
  rw [List.mem_map]
  have hd' := Finset.mem_range.1 hd
  have hj' := Finset.mem_range.1 hj
  exact ⟨(j, d - j), mem_modeExps (by omega), rfl⟩

/-- **The flat wavefront over the aperture is nulled** (any order ≥ 2). -/
theorem perfect_nulls_flat (a x y : Vector K n) (order : ℕ) (ho : 2 ≤ order) :
    perfectCoronagraph a x y order a = zeroVec K n := by
  apply perfect_nulls_polynomial a x y order (fun j k => if j = 0 ∧ k = 0 then 1 else 0)
  intro i
  have h0 : 0 < order / 2 := by omega
  rw [Finset.sum_eq_single_of_mem 0 (Finset.mem_range.2 h0)]
  · simp
  · intro d _ hd
    apply Finset.sum_eq_zero
    intro j _
    have : ¬ (j = 0 ∧ d - j = 0) := by omega
    simp [this]

/-- **Idempotent**: `P (P E) = P E`. -/
theorem perfect_idempotent (ms : List (Vector K n)) (x : Vector K n) :
    perfect ms (perfect ms x) = perfect ms x := by
  apply toFn_injective
  rw [toFn_perfect, toFn_perfect, perfectF_idem]

/-- **Power never increases** (one real component). -/
theorem perfect_power_le (ms : List (Vector K n)) (x : Vector K n) :
    power (perfect ms x) ≤ power x := by
  unfold power
  rw [dot_eq_ip, dot_eq_ip, toFn_perfect]
  exact perfectF_power_le _ _

/-- Power of a complex field `re + i·im` never increases. -/
theorem perfect_power_le_complex (ms : List (Vector K n)) (re im : Vector K n) :
    power (perfect ms re) + power (perfect ms im) ≤ power re + power im :=
  add_le_add (perfect_power_le ms re) (perfect_power_le ms im)

/-- The operator is linear. -/
theorem perfect_linear (ms : List (Vector K n)) (x y : Vector K n) (c : K) :
    toFn (perfect ms (Vector.ofFn fun i => x[i] + c * y[i])) =
      toFn (perfect ms x) + c • toFn (perfect ms y) := by
  rw [toFn_perfect, toFn_perfect, toFn_perfect, toFn_ofFn]
  unfold perfectF
  rw [← residualF_smul, ← residualF_add]
  rfl

end Perfect

/-- Non-vacuity / executable sanity at `ℚ`: on the three points `x = -1, 0, 1` with full aperture,
order 4 nulls `1 + 2x` and leaves `x²`'s residual. -/
example : (perfectCoronagraph (K := Rat) #v[1, 1, 1] #v[-1, 0, 1] #v[0, 0, 0] 4 #v[-1, 1, 3]).toList
    = [0, 0, 0] := by decide +kernel

/-! ## perfect coronagraph: the operator the code literally evaluates (round 4)

`perfectMat T T⁺ c E = E − T (c ∘ (T⁺ E))` is `PerfectCoronagraph.forward` for *arbitrary*
matrices.  The driver runs this very definition on the real object's `transformation`,
`transformation_inverse`, `coeffs` (exact rationals; complex matrices in their real `2n × 2k`
form) and reports the defects of the three hypotheses below for them (op `pmat`), so the clauses
are tied to the code through the predicates `LeftInv` (`T⁺ T = I`), `WAdjoint` (`T⁺ = μ Tᵀ W`,
i.e. `T⁺ = Tᴴ` on a regular grid) and `NullsModes` (`span(modes) ⊆ range T`, stated as "every
mode is mapped to zero") — whatever QR did with linearly dependent modes. -/
section Literal
variable {K : Type} {n k : ℕ}

/-- The operator is linear (any commutative ring, any matrices, any `coeffs`). -/
theorem perfectMat_linear [CommRing K] (T : Vector (Vector K k) n) (Tinv : Vector (Vector K n) k)
    (c : Vector K k) (x y : Vector K n) (a : K) :
    toFn (perfectMat T Tinv c (Vector.ofFn fun i => x[i] + a * y[i])) =
      toFn (perfectMat T Tinv c x) + a • toFn (perfectMat T Tinv c y) := by
  rw [toFn_perfectMat, toFn_perfectMat, toFn_perfectMat, toFn_ofFn, ← perfectMatF_smul, ← perfectMatF_add]
  rfl

/-- **Aperture × any polynomial of total degree below `order/2` is nulled** by the code's operator
as soon as it nulls the `order/2·(order/2+1)/2` modes themselves (`NullsModes`: decidable, reported
by the driver for the real matrices). -/
theorem perfectMat_nulls_polynomial [CommRing K] (T : Vector (Vector K k) n) (Tinv : Vector (Vector K n) k)
    (cf : Vector K k) (a x y : Vector K n) (order : ℕ) (hm : NullsModes T Tinv cf a x y order)
    (c : ℕ → ℕ → K) (E : Vector K n)
    (hE : ∀ i : Fin n, E[i] = a[i] * ∑ d ∈ Finset.range (order / 2), ∑ j ∈ Finset.range (d + 1),
      c j (d - j) * x[i] ^ j * y[i] ^ (d - j)) :
    perfectMat T Tinv cf E = zeroVec K n := by
  apply toFn_injective
  have hsum : toFn E = ∑ d ∈ Finset.range (order / 2), ∑ j ∈ Finset.range (d + 1),
      c j (d - j) • toFn (mode a x y (j, d - j)) := by
    funext i
    simp only [Finset.sum_apply, Pi.smul_apply, smul_eq_mul, toFn_mode']
    have := hE i
    simp only [toFn] at *
    rw [this, Finset.mul_sum]
    refine Finset.sum_congr rfl fun d _ => ?_
    rw [Finset.mul_sum]
    refine Finset.sum_congr rfl fun j _ => ?_
    ring
  rw [toFn_perfectMat, hsum, toFn_zeroVec]
  have hadd : ∀ (s : Finset ℕ) (f : ℕ → Fin n → K),
      perfectMatF (toFn2 T) (toFn2 Tinv) (toFn cf) (∑ d ∈ s, f d) =
        ∑ d ∈ s, perfectMatF (toFn2 T) (toFn2 Tinv) (toFn cf) (f d) := by
    intro s f
    induction s using Finset.induction_on with
    | empty => simp [perfectMatF_zero]
    | insert d s hd ih => rw [Finset.sum_insert hd, Finset.sum_insert hd, perfectMatF_add, ih]
  rw [hadd]
  refine Finset.sum_eq_zero fun d hd => ?_
  rw [hadd]
  refine Finset.sum_eq_zero fun j hj => ?_
  rw [perfectMatF_smul]
  have hd' := Finset.mem_range.1 hd
  have hj' := Finset.mem_range.1 hj
  have := hm (j, d - j) (mem_modeExps (by omega))
  rw [← toFn_perfectMat, this, toFn_zeroVec, smul_zero]

/-- **The flat wavefront over the aperture is nulled** (any order ≥ 2) under `NullsModes`. -/
theorem perfectMat_nulls_flat [CommRing K] (T : Vector (Vector K k) n) (Tinv : Vector (Vector K n) k)
    (cf : Vector K k) (a x y : Vector K n) (order : ℕ) (ho : 2 ≤ order)
    (hm : NullsModes T Tinv cf a x y order) : perfectMat T Tinv cf a = zeroVec K n := by
  apply perfectMat_nulls_polynomial T Tinv cf a x y order hm (fun j k => if j = 0 ∧ k = 0 then 1 else 0)
  intro i
  have h0 : 0 < order / 2 := by omega
  rw [Finset.sum_eq_single_of_mem 0 (Finset.mem_range.2 h0)]
  · simp
  · intro d _ hd
    apply Finset.sum_eq_zero
    intro j _
    have : ¬ (j = 0 ∧ d - j = 0) := by omega
    simp [this]

/-- Everything in the range of `T` is nulled when `T⁺ T = I` and `coeffs = 1`. -/
theorem perfectMat_nulls_range [CommRing K] (T : Vector (Vector K k) n) (Tinv : Vector (Vector K n) k)
    (h : LeftInv T Tinv) (b : Vector K k) :
    perfectMat T Tinv (onesVec K k) (matVec T b) = zeroVec K n := by
  apply toFn_injective
  rw [toFn_perfectMat, toFn_onesVec, toFn_zeroVec, toFn_matVec]
  exact perfectMatF_range _ _ ((leftInv_iff T Tinv).1 h) (toFn b)

/-- **Partial suppression** (user-supplied `coeffs`, [Guyon2006]): when `T⁺ T = I` the `l`-th
orthogonalised mode is attenuated by exactly `1 − coeffs_l`, for every combination `T b` of them:
`P_c (T b) = T ((1 − c) ∘ b)`.  (`coeffs = 1`: nulled — `perfectMat_nulls_range`; `coeffs = 0`: passed.)
Tied by harness part B, cases with user coefficients: op `papply` on the columns of the real
`transformation` with the real `coeffs`. -/
theorem perfectMat_partial_suppression [CommRing K] (T : Vector (Vector K k) n) (Tinv : Vector (Vector K n) k)
    (h : LeftInv T Tinv) (c b : Vector K k) :
    perfectMat T Tinv c (matVec T b) = matVec T (Vector.ofFn fun j => (1 - c[j]) * b[j]) := by
  apply toFn_injective
  rw [toFn_perfectMat, toFn_matVec, toFn_matVec, toFn_ofFn]
  exact perfectMatF_range_coeffs _ _ ((leftInv_iff T Tinv).1 h) (toFn c) (toFn b)

/-- **The matrix the object reports for itself is the operator `forward` applies**:
`get_transformation_matrix_forward() · E = forward(E)` for any matrices and coefficients
(`perfectMatrix` = `np.eye(n) − T.dot(coeffs[:, None] * T⁺)`, the expression after D109; op `pmatrix`
compares it entry by entry with what the real method returns). -/
theorem perfectMatrix_apply [CommRing K] (T : Vector (Vector K k) n) (Tinv : Vector (Vector K n) k)
    (c : Vector K k) (E : Vector K n) :
    matVec (perfectMatrix T Tinv c) E = perfectMat T Tinv c E :=
  toFn_injective (toFn_matVec_perfectMatrix T Tinv c E)

/-- **Idempotent** when `T⁺ T = I` and `coeffs = 1` (any commutative ring: no orthogonality is
needed, so this covers complex apertures directly). -/
theorem perfectMat_idempotent [CommRing K] (T : Vector (Vector K k) n) (Tinv : Vector (Vector K n) k)
    (h : LeftInv T Tinv) (E : Vector K n) :
    perfectMat T Tinv (onesVec K k) (perfectMat T Tinv (onesVec K k) E) =
      perfectMat T Tinv (onesVec K k) E := by
  apply toFn_injective
  rw [toFn_perfectMat, toFn_perfectMat, toFn_onesVec]
  exact perfectMatF_idem _ _ ((leftInv_iff T Tinv).1 h) _

/-- **Weighted power never increases** — `total_power = Σ w_i |E_i|²` with the grid weights `w ≥ 0` —
when `T⁺ T = I` and `T⁺` is (a positive multiple `μ` of) the adjoint of `T` *in the inner product
weighted by `w`*.  For the code (`T⁺ = Tᴴ`, unweighted QR) `WAdjoint` holds exactly when the
weights are constant on the support of `T`: this is the restriction to regular grids, and
`perfectMat_weighted_power_counterexample` shows it cannot be dropped. -/
theorem perfectMat_power_le [Field K] [LinearOrder K] [IsStrictOrderedRing K]
    (T : Vector (Vector K k) n) (Tinv : Vector (Vector K n) k) (w : Vector K n) (mu : K)
    (h : LeftInv T Tinv) (hadj : WAdjoint T Tinv w mu) (hmu : 0 < mu) (hw : ∀ i : Fin n, 0 ≤ w[i])
    (E : Vector K n) :
    powerW w (perfectMat T Tinv (onesVec K k) E) ≤ powerW w E := by
  rw [powerW_eq, powerW_eq, toFn_perfectMat, toFn_onesVec]
  exact perfectMatF_pw_le _ _ (toFn w) mu ((leftInv_iff T Tinv).1 h) ((wAdjoint_iff T Tinv w mu).1 hadj) hmu hw _

/-- The hypotheses are satisfiable: two points, the normalised constant mode, unit weights. -/
example : let T : Vector (Vector ℚ 1) 2 := #v[#v[1], #v[1]]
    let Tinv : Vector (Vector ℚ 2) 1 := #v[#v[1/2, 1/2]]
    LeftInv T Tinv ∧ WAdjoint T Tinv #v[1, 1] (1/2) ∧
      NullsModes T Tinv (onesVec ℚ 1) #v[1, 1] #v[0, 1] #v[0, 0] 2 := by decide +kernel

/-- **The restriction to constant weights is necessary**: on the two-point grid with weights
`(1, 8)` the projector onto the complement of the flat mode — orthogonal in the *unweighted*
product, as the code's QR makes it — maps `E = (1, 0)` (power 1) to `(1/2, −1/2)` (power 9/4).
The same numbers come out of the real `PerfectCoronagraph` (harness part B, weighted grids). -/
theorem perfectMat_weighted_power_counterexample :
    let T : Vector (Vector ℚ 1) 2 := #v[#v[1], #v[1]]
    let Tinv : Vector (Vector ℚ 2) 1 := #v[#v[1/2, 1/2]]
    let w : Vector ℚ 2 := #v[1, 8]
    LeftInv T Tinv ∧ WAdjoint T Tinv #v[1, 1] (1/2) ∧
      powerW w #v[1, 0] = 1 ∧ powerW w (perfectMat T Tinv (onesVec ℚ 1) #v[1, 0]) = 9 / 4 ∧
      powerW w (perfect [#v[1, 1]] #v[1, 0]) = 9 / 4 := by decide +kernel

end Literal

/-! ## Lyot coronagraphs -/
section Lyot
variable {K : Type} [CommRing K] {m n : ℕ}

/-- **A fully transmissive focal-plane mask** (`m = 1`): the Lyot coronagraph returns the input
times its Lyot stop — for arbitrary `F`, `B` (nothing about `B ∘ F` is needed: the subtracted
term is `B` applied to the zero field). -/
theorem lyot_transparent_mask (F : Vector (Vector K n) m) (B : Vector (Vector K m) n)
    (mask : Vector K m) (stop : Option (Vector K n)) (E : Vector K n)
    (h : ∀ k : Fin m, mask[k] = 1) :
    lyotForward F B mask stop E =
      match stop with
      | none => E
      | some s => Vector.ofFn fun i => E[i] * s[i] := by
  have hz : (Vector.ofFn fun k : Fin m => (matVec F E)[k] - (matVec F E)[k] * mask[k]) = zeroVec K m := by
    unfold zeroVec
    congr 1
    funext k
    rw [h k]; ring
  have hE : (Vector.ofFn fun i : Fin n => E[i] - (zeroVec K n)[i]) = E := by
    apply Vector.ext
    intro i hi
    simp [zeroVec]
  unfold lyotForward
  simp only [hz, matVec_zeroVec, hE]
  cases stop <;> rfl

/-- **A fully opaque mask** (`m = 0`): the occulting Lyot coronagraph returns nothing. -/
theorem occulted_opaque_mask (F : Vector (Vector K n) m) (B : Vector (Vector K m) n)
    (mask : Vector K m) (E : Vector K n) (h : ∀ k : Fin m, mask[k] = 0) :
    occultedForward F B mask E = zeroVec K n := by
  have hz : (Vector.ofFn fun k : Fin m => (matVec F E)[k] * mask[k]) = zeroVec K m := by
    unfold zeroVec
    congr 1
    funext k
    rw [h k]; ring
  unfold occultedForward
  simp only [hz, matVec_zeroVec]

/-! ### `backward` (round 4)

`lyotBackward` / `occultedBackward` are the literal `backward` methods (the stop acts first and
conjugated, the mask conjugated, the propagator pair used in the same order); ops `lyotb`,
`occultedb` run them on the stand-ins of harness part C next to the real methods. -/

/-- `backward` is `forward` through the conjugated mask, without a stop, applied to the field
already multiplied by the conjugated stop. -/
theorem lyot_backward_eq_forward (cj : K → K) (F : Vector (Vector K n) m) (B : Vector (Vector K m) n)
    (mask : Vector K m) (stop : Option (Vector K n)) (y : Vector K n) :
    lyotBackward cj F B mask stop y =
      lyotForward F B (Vector.ofFn fun k => cj mask[k]) none
        (match stop with
         | none => y
         | some s => Vector.ofFn fun i => y[i] * cj s[i]) :=
  lyotBackward_eq_forward cj F B mask stop y

/-- **Fully transmissive mask, backward**: the input times the conjugated Lyot stop (arbitrary `F`, `B`). -/
theorem lyot_backward_transparent_mask (cj : K → K) (hcj : cj 1 = 1) (F : Vector (Vector K n) m)
    (B : Vector (Vector K m) n) (mask : Vector K m) (stop : Option (Vector K n)) (y : Vector K n)
    (h : ∀ k : Fin m, mask[k] = 1) :
    lyotBackward cj F B mask stop y =
      match stop with
      | none => y
      | some s => Vector.ofFn fun i => y[i] * cj s[i] := by
  have hk : ∀ k : Fin m, (Vector.ofFn fun k : Fin m => cj mask[k])[k] = 1 := fun k => by have hm := h k; simp only [Fin.getElem_fin] at hm; simp [hm, hcj]
  rw [lyotBackward_eq_forward, lyot_transparent_mask F B _ none _ hk]
  cases stop <;> rfl

/-- **Fully opaque mask, backward**: the occulting Lyot coronagraph returns nothing. -/
theorem occulted_backward_opaque_mask (cj : K → K) (hcj : cj 0 = 0) (F : Vector (Vector K n) m)
    (B : Vector (Vector K m) n) (mask : Vector K m) (y : Vector K n) (h : ∀ k : Fin m, mask[k] = 0) :
    occultedBackward cj F B mask y = zeroVec K n := by
  have hk : ∀ k : Fin m, (Vector.ofFn fun k : Fin m => cj mask[k])[k] = 0 := fun k => by have hm := h k; simp only [Fin.getElem_fin] at hm; simp [hm, hcj]
  have he : occultedBackward cj F B mask y = occultedForward F B (Vector.ofFn fun k => cj mask[k]) y := by
    unfold occultedBackward occultedForward
    simp
  rw [he, occulted_opaque_mask F B _ y hk]

/-- **`backward` is the adjoint of `forward`** in `⟨u, v⟩ = Σ conj(u_i) v_i` whenever the
propagator's `backward` is the adjoint of its `forward` (`B = Fᴴ`: the decidable predicate
`propAdjointDefect = 0`, reported by op `lyotadj` for the stand-ins), for every mask, stop and
conjugation `cj` (an involutive ring homomorphism): `⟨y, forward x⟩ = ⟨backward y, x⟩`. -/
theorem lyot_backward_adjoint (cj : K →+* K) (hinv : ∀ a, cj (cj a) = a)
    (F : Vector (Vector K n) m) (B : Vector (Vector K m) n) (mask : Vector K m) (stop : Option (Vector K n))
    (x y : Vector K n) (hadj : ∀ (i : Fin n) (k : Fin m), propAdjointDefect cj F B i k = 0) :
    cdot cj y (lyotForward F B mask stop x) = cdot cj (lyotBackward cj F B mask stop y) x := by
  have hb : ∀ i k, toFn2 B i k = cj (toFn2 F k i) := by
    intro i k
    have := hadj i k
    unfold propAdjointDefect at this
    exact sub_eq_zero.1 this
  rw [cdot_eq, cdot_eq, lyotBackward_eq_forward, toFn_lyotForward_none]
  have hm : toFn (Vector.ofFn fun k => cj mask[k]) = fun k => cj (toFn mask k) := by rw [toFn_ofFn]; rfl
  rw [hm]
  cases stop with
  | none =>
    rw [toFn_lyotForward_none]
    exact lyotCoreF_adjoint cj hinv _ _ hb _ _ _
  | some s =>
    rw [toFn_lyotForward_some]
    simp only [toFn_ofFn]
    have := lyotCoreF_adjoint cj hinv (toFn2 F) (toFn2 B) hb (toFn mask) (toFn x) (fun i : Fin n => y[i] * cj s[i])
    rw [← this]
    refine Finset.sum_congr rfl fun i _ => ?_
    simp only [toFn]
    rw [map_mul, hinv]; ring


/-- The hypothesis is satisfiable and the identity evaluated at the Gaussian rationals is checked by the
driver on every run (op `lyotadj`); here over `ℚ` with the trivial conjugation. -/
example : ∀ (i : Fin 2) (k : Fin 1), propAdjointDefect (K := ℚ) id #v[#v[1, 2]] #v[#v[1], #v[2]] i k = 0 := by
  decide +kernel

end Lyot

/-! ## multi-scale coronagraphs: level bookkeeping -/
section MultiScale

/-- **Number of levels**: the finest level reaches the requested sampling `q`, and no smaller
number of levels does (whenever the search ended within its fuel). -/
theorem levels_spec (q s : ℚ) (fuel : ℕ) (hfuel : levels q s fuel ≤ fuel) :
    q ≤ qLevel s (levels q s fuel - 1) ∧ ∀ j, j + 1 < levels q s fuel → qLevel s j < q := by
  unfold levels at *
  have h := levelSearch_spec (q / 2) s fuel 0 (by simpa using (by omega : levelSearch (q / 2) s fuel 0 1 < 0 + fuel))
  simp only [pow_zero] at h
  obtain ⟨h1, h2⟩ := h
  refine ⟨?_, fun j hj => ?_⟩
  · simp only [Nat.add_sub_cancel]; unfold qLevel; linarith
  · have := h2 j (Nat.zero_le _) (by omega)
    unfold qLevel; linarith

example : levels 32 4 = 3 ∧ levels 1024 2 = 10 ∧ levels 2 4 = 1 := by decide +kernel

/-- Pixel counts: level 0 has `2·shape` pixels, every finer level `⌊window·s⌋` on both axes. -/
theorem level_dims (p : MSParams) (hs : 0 < p.s) :
    dimsLevel p 0 = (2 * p.ny, 2 * p.nx) ∧ ∀ i, dimsLevel p (i + 1) = (levelPix p, levelPix p) :=
  ⟨dimsLevel_zero p, fun i => dimsLevel_succ p i hs⟩

/-- **Each level covers exactly the window of the previous one** when `window·s` is an integer
(every integer scaling factor, and e.g. `s = 5/2` with an even window): `dims_i · δ_i = window · δ_{i-1}`
on both axes, for every level. -/
theorem level_extent (p : MSParams) (i m : ℕ) (hs : 0 < p.s) (hm : (p.w : ℚ) * p.s = m) :
    dimsLevel p (i + 1) = (m, m) ∧
    (m : ℚ) * (deltaLevel p (i + 1)).1 = p.w * (deltaLevel p i).1 ∧
    (m : ℚ) * (deltaLevel p (i + 1)).2 = p.w * (deltaLevel p i).2 := by
  have hL : levelPix p = m := by unfold levelPix; rw [hm]; exact floor_natCast' m
  have hsn := hs.ne'
  have hp : p.s ^ i ≠ 0 := pow_ne_zero _ hsn
  refine ⟨by rw [dimsLevel_succ p i hs, hL], ?_, ?_⟩ <;>
  · rw [← hm]; unfold deltaLevel qLevel; simp only [pow_succ]; field_simp

/-- In general a finer level covers the window up to less than one of its own pixels. -/
theorem level_extent_bounds (p : MSParams) (i : ℕ) (hs : 0 < p.s) (hny : 0 < p.ny) (hdx : 0 < p.dx) :
    ((dimsLevel p (i + 1)).1 : ℚ) * (deltaLevel p (i + 1)).1 ≤ p.w * (deltaLevel p i).1 ∧
    (p.w : ℚ) * (deltaLevel p i).1 < ((dimsLevel p (i + 1)).1 + 1) * (deltaLevel p (i + 1)).1 := by
  rw [dimsLevel_succ p i hs]
  have hws : 0 ≤ (p.w : ℚ) * p.s := by positivity
  have hfl : ((levelPix p : ℕ) : ℚ) = ((⌊(p.w : ℚ) * p.s⌋ : ℤ) : ℚ) := by
    unfold levelPix; rw [rat_floor_eq]
    have : 0 ≤ ⌊(p.w : ℚ) * p.s⌋ := Int.floor_nonneg.2 hws
    rw [← Int.cast_natCast, Int.toNat_of_nonneg this]
  have hd : 0 < (deltaLevel p (i + 1)).1 := by
    unfold deltaLevel; simp only
    have := qLevel_pos p.s hs (i + 1)
    have hn : (0 : ℚ) < p.ny := by exact_mod_cast hny
    positivity
  have hr : (p.w : ℚ) * (deltaLevel p i).1 = (p.w * p.s) * (deltaLevel p (i + 1)).1 := by
    have hp : p.s ^ i ≠ 0 := pow_ne_zero _ hs.ne'
    unfold deltaLevel qLevel; simp only [pow_succ]; field_simp
  simp only
  rw [hr, hfl]
  exact ⟨mul_le_mul_of_nonneg_right (Int.floor_le _) hd.le,
    mul_lt_mul_of_pos_right (Int.lt_floor_add_one _) hd⟩

/-- The recursion the code used before D32 gives, in exact arithmetic, the same pixel counts: the
defect was purely one of float rounding followed by truncation. -/
theorem dims_old_eq (p : MSParams) (hs : 0 < p.s) (hny : 0 < p.ny) (hnx : 0 < p.nx) (hw : 0 < p.w)
    (i : ℕ) : dimsLevelOld p i = dimsLevel p i := by
  have hcl : ∀ i, numAiryOld p (i + 1) = ((p.w : ℚ) / (2 * qLevel p.s i), (p.w : ℚ) / (2 * qLevel p.s i)) := by
    intro i
    have hq := qLevel_pos p.s hs
    have hwq : (0 : ℚ) < p.w := by exact_mod_cast hw
    induction i with
    | zero =>
      have h1 : ((p.ny : ℚ) / 2) ≠ 0 := by positivity
      have h2 : ((p.nx : ℚ) / 2) ≠ 0 := by positivity
      have := (hq 0).ne'
      simp only [numAiryOld]
      congr 1 <;> field_simp
    | succ k ih =>
      have h1 : (p.w : ℚ) / (2 * qLevel p.s k) ≠ 0 := (div_pos hwq (by have := hq k; positivity)).ne'
      have := (hq (k + 1)).ne'
      have hqk := (hq k).ne'
      rw [numAiryOld, ih]
      simp only
      congr 1 <;> field_simp
  cases i with
  | zero => rfl
  | succ k =>
    rw [dimsLevel_succ p k hs]
    unfold dimsLevelOld
    rw [hcl k]
    have hp : p.s ^ k ≠ 0 := pow_ne_zero _ hs.ne'
    have key : 2 * ((p.w : ℚ) / (2 * qLevel p.s k)) * qLevel p.s (k + 1) = p.w * p.s := by
      unfold qLevel; rw [pow_succ]; field_simp
    simp only [key]
    rfl

/-- **Window padding** on a square level grid of `d` pixels with a window of `w ≥ 2` samples: the
constructor succeeds exactly when the window fits and `d − w` is even, and then pads the same
number of samples `(d − w)/2` before and after (so the padded window has exactly `d` samples);
in every other case the real code raises — it never produces a shifted window. -/
theorem window_padding (d w : ℕ) (hw : 2 ≤ w) :
    (w ≤ d ∧ (d - w) % 2 = 0 →
      padWindow (d, d) w = .ok ((d - w) / 2) ((d - w) / 2) ∧ w + 2 * ((d - w) / 2) = d) ∧
    (¬ (w ≤ d ∧ (d - w) % 2 = 0) → padWindow (d, d) w = .raises) := by
  rw [padWindow_square d w hw]
  constructor
  · intro h; rw [if_pos h]; exact ⟨rfl, by omega⟩
  · intro h; rw [if_neg h]

/-- **Level geometry of every accepted configuration** (square pupil, window ≥ 2, at least two
levels): the window size is even, and at every level that applies a window the grid is square
with an even number of pixels, the window is padded symmetrically to exactly the grid shape, and
the window's peak sample `before + w/2` is the grid's origin sample `d/2`. -/
theorem level_geometry (p : MSParams) (lv : ℕ) (hsq : p.ny = p.nx) (hs : 0 < p.s) (hw : 2 ≤ p.w)
    (hlv : 2 ≤ lv) (hacc : accepted p lv = true) :
    p.w % 2 = 0 ∧ ∀ i, i + 1 < lv →
      (dimsLevel p i).2 = (dimsLevel p i).1 ∧ p.w ≤ (dimsLevel p i).1 ∧ (dimsLevel p i).1 % 2 = 0 ∧
      padWindow (dimsLevel p i) p.w =
        .ok (((dimsLevel p i).1 - p.w) / 2) (((dimsLevel p i).1 - p.w) / 2) ∧
      p.w + 2 * (((dimsLevel p i).1 - p.w) / 2) = (dimsLevel p i).1 ∧
      ((dimsLevel p i).1 - p.w) / 2 + p.w / 2 = originIndex (dimsLevel p i).1 := by
  have hall : ∀ i, i + 1 < lv → padWindow (dimsLevel p i) p.w ≠ .raises := by
    intro i hi
    unfold accepted padLevels at hacc
    rw [List.all_eq_true] at hacc
    have := hacc (padWindow (dimsLevel p i) p.w)
      (List.mem_map.2 ⟨i, List.mem_range.2 (by omega), rfl⟩)
    intro heq
    rw [heq] at this
    exact absurd this (by decide)
  have hsqd : ∀ i, (dimsLevel p i).2 = (dimsLevel p i).1 := by
    intro i
    cases i with
    | zero => rw [dimsLevel_zero, hsq]
    | succ k => rw [dimsLevel_succ p k hs]
  have hfit : ∀ i, i + 1 < lv → p.w ≤ (dimsLevel p i).1 ∧ ((dimsLevel p i).1 - p.w) % 2 = 0 := by
    intro i hi
    by_contra hcon
    have hd : dimsLevel p i = ((dimsLevel p i).1, (dimsLevel p i).1) := Prod.ext rfl (hsqd i)
    apply hall i hi
    rw [hd]
    exact (window_padding _ _ hw).2 hcon
  have hw2 : p.w % 2 = 0 := by
    have h0 := hfit 0 (by omega)
    rw [dimsLevel_zero] at h0
    simp only at h0
    omega
  refine ⟨hw2, fun i hi => ?_⟩
  obtain ⟨h1, h2⟩ := hfit i hi
  have hd : dimsLevel p i = ((dimsLevel p i).1, (dimsLevel p i).1) := Prod.ext rfl (hsqd i)
  refine ⟨hsqd i, h1, by omega, ?_, by omega, by unfold originIndex; omega⟩
  conv_lhs => rw [hd]
  exact ((window_padding _ _ hw).1 ⟨h1, h2⟩).1

/-- Non-vacuity: the default configuration (`q = 1024, s = 4, window 32`) on a 32-pixel pupil is
accepted with six levels; an odd window is refused at level 0. -/
example : let p : MSParams := ⟨32, 32, 1/32, 1/32, 1024, 4, 32⟩
    levels p.q p.s = 6 ∧ accepted p 6 = true ∧ accepted { p with w := 31 } 6 = false := by
  decide +kernel

end MultiScale

/-! ## multi-scale coronagraphs: the algebra of the construction (round 4)

`msMasks` / `msForward` model the constructor's mask recursion (`focal_mask *= 1 - w`,
`focal_mask -= resample(focal_masks[j])`) and `forward` (`Σ_i prop_i.backward(mask_i · prop_i(E))`,
Lyot stop) for arbitrary linear stand-ins of the propagators and resamplers; the driver op
`msalg` runs them and the harness compares masks level by level and the output with the real
`MultiScaleCoronagraph` / `VortexCoronagraph` / `FQPMCoronagraph` running on the same stand-ins. -/
section MultiScaleAlgebra
variable {K : Type} {d n : ℕ}

/-- **Telescoping — the design invariant behind the window and padding arithmetic.**  When every
level samples the same mask `m` on one focal plane, sees the samples of its support `S_i` through
the restrictions of one pair of operators `F`, `B`, resampling between levels is exact, and the
windows are nested in the supports (`nestedOK`: the window of level `i` vanishes outside `S_i` and
outside `S_{i+1}`; `S_0` is everything) — then the masks the constructor's recursion arrives at
are `m (w_{i-1} − w_i)` and the sum over the levels collapses:
`Σ_i B_i (M_i · F_i E) = B (m · F E)`, whatever the windows, for any number of levels.
`level_extent` / `level_geometry` are what makes the real level grids satisfy the hypotheses
(finer level = exactly the window of the coarser one, window centred on the origin sample). -/
theorem multiscale_telescopes [CommRing K] [BEq K] [LawfulBEq K]
    (m : Vector K d) (F : Vector (Vector K n) d) (B : Vector (Vector K d) n)
    (sps : List (Vector Bool d × Vector K d)) (hne : sps ≠ [])
    (hok : nestedOK (onesVec K d) sps = true) (stop : Option (Vector K n)) (E : Vector K n) :
    msForward (exactLevels m F B sps) stop E =
      match stop with
      | none => idealForward m F B E
      | some s => Vector.ofFn fun i => (idealForward m F B E)[i] * s[i] := by
  have h : msSum (exactLevels m F B sps) (msMasks (exactLevels m F B sps)) E = idealForward m F B E :=
    toFn_injective (toFn_msForward_exact m F B sps hne hok E)
  unfold msForward
  simp only [h]
  cases stop <;> rfl

/-- The masks themselves: on the exact design the recursion yields `m (w_{i-1} − w_i)` (with
`w_{-1} = 1`) and `m w_{L-2}` on the last level. -/
theorem multiscale_masks [CommRing K] (m : Vector K d) (F : Vector (Vector K n) d) (B : Vector (Vector K d) n)
    (sps : List (Vector Bool d × Vector K d)) :
    (msMasks (exactLevels m F B sps)).map toFn = expMasks (toFn m) (fun _ => 1) sps := by
  have := msMasksAux_exact m F B sps [] (fun _ => 1) (by funext p; simp)
  simpa [msMasks, exactLevels] using this

/-- Hypotheses satisfiable, and the identity evaluated: three levels on a six-sample plane with
supports `6 ⊇ 4 ⊇ 2`, windows supported in the next level, arbitrary `F`, `B`, mask. -/
example : let m : Vector ℚ 6 := #v[2, -1, 3, 5, -2, 7]
    let F : Vector (Vector ℚ 2) 6 := #v[#v[1, 2], #v[0, 1], #v[3, -1], #v[1, 1], #v[2, 0], #v[-1, 4]]
    let B : Vector (Vector ℚ 6) 2 := #v[#v[1, 0, 2, -1, 3, 1], #v[0, 1, 1, 2, -2, 5]]
    let sps : List (Vector Bool 6 × Vector ℚ 6) :=
      [(#v[true, true, true, true, true, true], #v[0, 1/2, 1, 1, 1/2, 0]),
       (#v[false, true, true, true, true, false], #v[0, 0, 1/3, 1, 0, 0]),
       (#v[false, false, true, true, false, false], #v[0, 0, 0, 0, 0, 0])]
    nestedOK (onesVec ℚ 6) sps = true ∧
      msForward (exactLevels m F B sps) none #v[1, 3] = idealForward m F B #v[1, 3] := by
  decide +kernel

/-- **Telescoping for `backward`.**  `msBackward` is the literal `MultiScaleCoronagraph.backward`
(conjugated Lyot stop first, every stored mask conjugated).  On the exact design the conjugated
masks `conj(m)(conj w_{i-1} − conj w_i)` telescope exactly like the masks themselves (windows real
or not): `backward(y) = B (conj(m) · F (conj(stop) · y))`, for any number of levels and any ring
homomorphism `cj`.  Ops `msalgb` (real constructor + real `backward` on
stand-ins) and `msteleb` (this identity at the Gaussian rationals). -/
theorem multiscale_backward_telescopes [CommRing K] [BEq K] [LawfulBEq K] (cj : K →+* K)
    (m : Vector K d) (F : Vector (Vector K n) d) (B : Vector (Vector K d) n)
    (sps : List (Vector Bool d × Vector K d)) (hne : sps ≠ [])
    (hok : nestedOK (onesVec K d) sps = true)
    (stop : Option (Vector K n)) (y : Vector K n) :
    msBackward cj (exactLevels m F B sps) stop y =
      idealForward (Vector.ofFn fun p => cj m[p]) F B
        (match stop with
         | none => y
         | some s => Vector.ofFn fun i => y[i] * cj s[i]) := by
  have h : ∀ y' : Vector K n, msBackward cj (exactLevels m F B sps) none y' =
      idealForward (Vector.ofFn fun p => cj m[p]) F B y' :=
    fun y' => toFn_injective (toFn_msBackward_exact cj m F B sps hne hok y')
  cases stop with
  | none => exact h y
  | some s => exact h _

/-- **Achromaticity after rescaling**: `forward` calls its propagators at wavelength 1 whatever
the wavelength of the input, so the output field does not depend on the wavelength, and the output
carries the input's wavelength.  (Tied by op `msalg`: the stand-in propagators record the
wavelength they are called with.) -/
theorem multiscale_wavelength_free [OfNat K 0] [OfNat K 1] [Add K] [Sub K] [Mul K] [Div K] [Pow K ℕ]
    (lsAt : K → List (MSLevel K d n)) (stop : Option (Vector K n)) (E : Vector K n) (wl wl' : K) :
    (msForwardWf lsAt stop ⟨E, wl⟩).E = (msForwardWf lsAt stop ⟨E, wl'⟩).E ∧
    (msForwardWf lsAt stop ⟨E, wl⟩).E = msForward (lsAt 1) stop E ∧
    (msForwardWf lsAt stop ⟨E, wl⟩).wavelength = wl := ⟨rfl, rfl, rfl⟩

/-- Without the rescaling the output does depend on the wavelength (so the previous theorem is a
statement about the bookkeeping, not an artefact of the model): one level, one sample, a
propagator that scales with the wavelength. -/
theorem multiscale_wavelength_bad_counterexample :
    let lsAt : ℚ → List (MSLevel ℚ 1 1) := fun wl =>
      [{ raw := #v[1], win := #v[0], R := [], F := #v[#v[wl]], B := #v[#v[1]] }]
    (msForwardWfBad lsAt none ⟨#v[1], 1⟩).E ≠ (msForwardWfBad lsAt none ⟨#v[1], 2⟩).E ∧
    (msForwardWf lsAt none ⟨#v[1], 1⟩).E = (msForwardWf lsAt none ⟨#v[1], 2⟩).E := by
  decide +kernel

end MultiScaleAlgebra

/-! ## round 5: the executed Gram–Schmidt output, the multi-scale partition, the vector-vortex Jones
algebra, and one object used at several wavelengths -/

section GramSchmidtOutput
variable {K : Type} [Field K] [LinearOrder K] [IsStrictOrderedRing K] {n : ℕ}

/-- **The executed Gram–Schmidt returns an orthogonal family** — for every list of modes (dependent
or not; the model's `gs` is total, a dependent mode contributes the zero vector).  `gs` is the
definition the driver runs in `setup` / `apply`. -/
theorem gs_orthogonal (ms : List (Vector K n)) :
    (gs ms).Pairwise (fun u v => dot u v = 0) := by
  have h := gsAuxF_pairwise [] (ms.map toFn) List.Pairwise.nil
  have hm : (gs ms).map toFn = gsAuxF [] (ms.map toFn) := by
    unfold gs; rw [map_gsAux]; rfl
  rw [← hm, List.pairwise_map] at h
  exact h.imp (fun {u v} huv => by rw [dot_eq_ip]; exact huv)

/-- **The executed `perfect` is the orthogonal projector of the executed Gram–Schmidt family**:
`perfect ms x = x − Σ_{u ∈ gs ms} (⟨u,x⟩/⟨u,u⟩) u` (a zero `u` contributes nothing, `0/0 = 0`).
This instantiates the abstract `x ↦ x − Σ⟪v i, x⟫ v i` of `Lemmas.orthonormal_*` at the family the
driver computes, with `v = u/‖u‖` written without square roots. -/
theorem perfect_eq_orthogonal_projector (ms : List (Vector K n)) (x : Vector K n) :
    toFn (perfect ms x) = projOutList ((gs ms).map toFn) (toFn x) := by
  have hm : (gs ms).map toFn = gsAuxF [] (ms.map toFn) := by
    unfold gs; rw [map_gsAux]; rfl
  rw [toFn_perfect, hm]
  exact residualF_eq_projOutList _ (gsAuxF_pairwise [] _ List.Pairwise.nil) _

/-- **What holds on a grid with non-constant weights**: the code orthogonalises in the unweighted
product (`T⁺ = μ Tᵀ`, `WAdjoint` with unit weights — evaluated by op `pmat` on the real matrices of
every weighted-grid case), so the *unweighted* `Σ E_i²` never increases, whatever the grid weights.
What can increase is `total_power = Σ w_i E_i²` (`perfectMat_weighted_power_counterexample`). -/
theorem perfectMat_unweighted_power_le {k : ℕ}
    (T : Vector (Vector K k) n) (Tinv : Vector (Vector K n) k) (mu : K)
    (h : LeftInv T Tinv) (hadj : WAdjoint T Tinv (onesVec K n) mu) (hmu : 0 < mu) (E : Vector K n) :
    powerW (onesVec K n) (perfectMat T Tinv (onesVec K k) E) ≤ powerW (onesVec K n) E :=
  perfectMat_power_le T Tinv (onesVec K n) mu h hadj hmu (by intro i; simp [onesVec]) E

/-- Satisfiable on the very grid of the counterexample (weights 1 and 8 are irrelevant here). -/
example : let T : Vector (Vector ℚ 1) 2 := #v[#v[1], #v[1]]
    let Tinv : Vector (Vector ℚ 2) 1 := #v[#v[1/2, 1/2]]
    LeftInv T Tinv ∧ WAdjoint T Tinv (onesVec ℚ 2) (1/2) ∧
      powerW (onesVec ℚ 2) (perfectMat T Tinv (onesVec ℚ 1) #v[1, 0]) = 1 / 2 := by decide +kernel

end GramSchmidtOutput

section Partition
variable {K : Type} {d n : ℕ}

/-- **The level masks tile the focal plane.**  On the exact design the masks the constructor's
recursion arrives at add up to the mask itself, sample by sample — the window complements
`(1 − w₀), (w₀ − w₁), …, w_{L−2}` are a partition of unity — for every number of levels and any
windows (hence any scaling factor and window size).  About `msMasks`, the definition op `msalg` runs
against the real constructors. -/
theorem levels_partition [CommRing K] (m : Vector K d) (F : Vector (Vector K n) d) (B : Vector (Vector K d) n)
    (sps : List (Vector Bool d × Vector K d)) (hne : sps ≠ []) :
    ((msMasks (exactLevels m F B sps)).map toFn).sum = toFn m := by
  rw [multiscale_masks, expMasks_sum _ _ _ hne]
  funext p; simp

end Partition

section VectorVortex
variable {K : Type}

/-- **Jones algebra of the vortex plate**: a linear retarder with retardance `δ` and fast axis `φ`
acts as `cos(δ/2)·E + i sin(δ/2)·V(φ) E`, `V` the pure vortex term.  (`retarderJones` is compared
entry by entry with the real `LinearRetarder.jones_matrix` and, through the linear closed form
`out(δ) = cos(δ/2) out(0) + sin(δ/2) out(π)`, with the real `VectorVortexCoronagraph.forward`, op `vvrun`.) -/
theorem vector_vortex_decomposition [CommRing K] (i ch sh c2 s2 : K) (e : K × K) :
    (retarderJones i ch sh c2 s2).apply e =
      (ch * e.1 + i * sh * ((vortexTerm c2 s2).apply e).1,
       ch * e.2 + i * sh * ((vortexTerm c2 s2).apply e).2) := by
  simp only [retarderJones, vortexTerm, Jones.apply, Prod.mk.injEq]
  constructor <;> ring

/-- **The multi-scale construction is linear in the mask.**  Take any levels (windows, resamplers,
propagator stand-ins) and two families of raw masks `m₁`, `m₂`; build the stored masks with the
constructor's recursion and run `forward`: the result for the raw masks `a·m₁ + b·m₂` is
`a·forward₁ + b·forward₂` — for every number of levels, with or without Lyot stop.  With
`vector_vortex_decomposition` (every Jones component of the raw vortex mask is
`cos(δ/2)·(identity part) + sin(δ/2)·(i·vortex part)`) this is the closed form the harness checks on
the real `VectorVortexCoronagraph` at every wavelength of a history:
`out(δ) = cos(δ/2)·out(0) + sin(δ/2)·out(π)`.  About `msForward` / `msMasks`, the definitions op
`msalg` runs against the real constructors and `VectorVortexCoronagraph.make_instance`. -/
theorem multiscale_linear_in_mask [CommRing K] {d n : ℕ} (a b : K)
    (ts : List (MSLevel K d n × Vector K d × Vector K d)) (stop : Option (Vector K n)) (E : Vector K n) :
    toFn (msForward (ts.map fun t => { t.1 with raw := Vector.ofFn fun p => a * t.2.1[p] + b * t.2.2[p] }) stop E) =
      a • toFn (msForward (ts.map fun t => { t.1 with raw := t.2.1 }) stop E) +
      b • toFn (msForward (ts.map fun t => { t.1 with raw := t.2.2 }) stop E) :=
  toFn_msForward_comb a b ts stop E

/-- A circular state `(1, ±i)` keeps the amplitude `cos(δ/2)` in its own state, without any
dependence on the fast-axis angle (no vortex phase: this part is not nulled), and `i sin(δ/2) e^{±2iφ}`
goes to the opposite state (the vortex of charge `2φ/θ`). -/
theorem vector_vortex_co_cross [CommRing K] (cj : K →+* K) (i ch sh c2 s2 : K) (hi : i * i = -1)
    (hci : cj i = -i) (plus : Bool) :
    coPolar cj i ch sh c2 s2 plus = 2 * ch ∧
    crossPolar cj i ch sh c2 s2 plus = 2 * (i * sh * (c2 + (if plus then i else -i) * s2)) := by
  cases plus <;>
  · simp only [coPolar, crossPolar, cdot2, circ, retarderJones, Jones.apply, Bool.not_true, Bool.not_false,
      if_true, if_false, Bool.false_eq_true, map_one, zero_sub, map_neg, hci, neg_neg]
    constructor <;>
      first
      | linear_combination (-ch + i*sh*c2) * hi
      | linear_combination (ch - i*sh*c2) * hi

/-- **The leak of a vector vortex that is not half wave is `cos²(δ/2)`** of the input power, for
every fast-axis angle (every focal-plane position and charge) and both circular states. -/
theorem vector_vortex_leak_eq_cos_sq [Field K] [CharZero K] (cj : K →+* K) (i ch sh c2 s2 : K)
    (hi : i * i = -1) (hci : cj i = -i)
    (hch : cj ch = ch) (hsh : cj sh = sh) (hc2 : cj c2 = c2) (hs2 : cj s2 = s2)
    (hd : ch ^ 2 + sh ^ 2 = 1) (hf : c2 ^ 2 + s2 ^ 2 = 1) (plus : Bool) :
    vvLeak cj i ch sh c2 s2 plus = ch ^ 2 := by
  obtain ⟨ha, hb⟩ := vector_vortex_co_cross cj i ch sh c2 s2 hi hci plus
  have hden : cj (2 * ch) * (2 * ch) +
      cj (2 * (i * sh * (c2 + (if plus then i else -i) * s2))) *
        (2 * (i * sh * (c2 + (if plus then i else -i) * s2))) = 4 := by
    cases plus <;>
    · simp only [if_true, if_false, Bool.false_eq_true, map_mul, map_add, map_neg, map_ofNat, hci, hch, hsh, hc2, hs2]
      linear_combination (4 : K) * hd + (4 * sh ^ 2) * hf +
        (-(4 * sh ^ 2 * c2 ^ 2) - 4 * sh ^ 2 * s2 ^ 2 + 4 * sh ^ 2 * s2 ^ 2 * i ^ 2) * hi
  unfold vvLeak
  simp only [ha, hb, hden]
  simp only [map_mul, map_ofNat, hch]
  have h4 : (4 : K) ≠ 0 := by norm_num
  field_simp
  ring

/-- The hypotheses are satisfiable (complex numbers, `cos(δ/2) = 3/5`, `cos 2φ = 5/13`). -/
example : ∃ (cj : ℂ →+* ℂ) (i ch sh c2 s2 : ℂ), i * i = -1 ∧ cj i = -i ∧ cj ch = ch ∧ cj sh = sh ∧
    cj c2 = c2 ∧ cj s2 = s2 ∧ ch ^ 2 + sh ^ 2 = 1 ∧ c2 ^ 2 + s2 ^ 2 = 1 ∧ ch ≠ 0 ∧ sh ≠ 0 :=
  ⟨starRingEnd ℂ, Complex.I, 3 / 5, 4 / 5, 5 / 13, 12 / 13, by simp, by simp,
    by simp only [map_div₀, map_ofNat], by simp only [map_div₀, map_ofNat],
    by simp only [map_div₀, map_ofNat], by simp only [map_div₀, map_ofNat],
    by norm_num, by norm_num, by norm_num, by norm_num⟩

/-- **One object, any history of wavelengths**: with one instance per wavelength, made by evaluating
the wavelength-dependent parameter at *that* wavelength, the instance data `forward` runs with at
every step is the parameter at the wavelength of that step — whatever was propagated before, in
whatever order, with repetitions.  (`chromRun` is executed by op `vvrun` on the history the real
object is driven through.) -/
theorem chromatic_history_free {P : Type} [BEq K] [LawfulBEq K] (param : K → P) (wls : List K) :
    chromRun param wls = wls.map param :=
  chromRunFrom_step param wls [] (by simp)

/-- Sharing the instance data of another wavelength (the seeded "masks are in λ/D" shortcut) breaks
exactly this: the second wavelength runs with the first one's parameter. -/
theorem chromatic_shared_counterexample :
    chromRunShared (K := ℕ) (fun wl => wl) [22, 16] = [22, 22] ∧
    chromRun (K := ℕ) (fun wl => wl) [22, 16] = [22, 16] := by
  decide

/-- Together: the leak of one chromatic vortex object at every step of any history is
`cos²(δ(λ)/2)` of the wavelength of that step — in particular zero wherever the plate is half wave,
whether or not that wavelength came first. -/
theorem vector_vortex_history_leak [Field K] [CharZero K] [BEq K] [LawfulBEq K] (cj : K →+* K) (i c2 s2 : K)
    (hi : i * i = -1) (hci : cj i = -i) (hc2 : cj c2 = c2) (hs2 : cj s2 = s2) (hf : c2 ^ 2 + s2 ^ 2 = 1)
    (param : K → K × K) (hreal : ∀ wl, cj (param wl).1 = (param wl).1 ∧ cj (param wl).2 = (param wl).2)
    (hunit : ∀ wl, (param wl).1 ^ 2 + (param wl).2 ^ 2 = 1) (plus : Bool) (wls : List K) :
    (chromRun param wls).map (fun p => vvLeak cj i p.1 p.2 c2 s2 plus) = wls.map (fun wl => (param wl).1 ^ 2) := by
  rw [chromatic_history_free, List.map_map]
  apply List.map_congr_left
  intro wl _
  exact vector_vortex_leak_eq_cos_sq cj i _ _ c2 s2 hi hci (hreal wl).1 (hreal wl).2 hc2 hs2 (hunit wl) hf plus

/-- The hypotheses on `param` are satisfiable together with those of the `example` above (a plate
whose retardance does not depend on the wavelength; any real-valued unit `(cos, sin)` table does). -/
example : ∃ param : ℂ → ℂ × ℂ,
    (∀ wl, (starRingEnd ℂ) (param wl).1 = (param wl).1 ∧ (starRingEnd ℂ) (param wl).2 = (param wl).2) ∧
    ∀ wl, (param wl).1 ^ 2 + (param wl).2 ^ 2 = 1 :=
  ⟨fun _ => (3 / 5, 4 / 5), fun _ => ⟨by simp only [map_div₀, map_ofNat], by simp only [map_div₀, map_ofNat]⟩,
    fun _ => by norm_num⟩

/-! ### Setter histories (round 6): a parameter of a used object is re-assigned, possibly changing its kind -/

/-- **Setter histories are history-free.**  One object, any initial parameter (constant or function of
wavelength), any sequence of uses and of assignments (each followed by `clear_cache()`) — constant → function,
function → constant, function → another function, repeated wavelengths, in any order: the instance data
`forward` runs with at every use is the *current* parameter evaluated at the wavelength of that use, i.e.
what a freshly constructed object would use (`setSpec`).  (`setRun` is executed by op `vvset` on the event
list the real object is driven through.) -/
theorem setter_history_free {P : Type} [BEq K] [LawfulBEq K] (p0 : Param K P) (evs : List (Ev K P)) :
    setRun p0 evs = setSpec p0 evs :=
  setRunFrom_step evs (ObjSt.init p0) (by intro e he; cases he)

/-- Deciding the kind of the parameter once, in the constructor (the seeded "achromatic ⇒ one shared
instance" shortcut) breaks exactly this: built with a constant, later given a function of wavelength, the
object evaluates the function at the dummy wavelength. -/
theorem setter_frozen_kind_counterexample :
    setRunFrozen (K := ℕ) 1 (.const 0) [.use 5, .set (.fn fun wl => wl), .use 5] = [0, 1] ∧
    setRun (K := ℕ) (.const 0) [.use 5, .set (.fn fun wl => wl), .use 5] = [0, 5] := by
  decide

/-- A setter that does not invalidate the instances (no `clear_cache()`) breaks it too: the wavelength that
was used before the assignment keeps running with the old parameter. -/
theorem setter_no_clear_counterexample :
    setRunNoClear (K := ℕ) (.fn fun wl => wl) [.use 5, .set (.const 0), .use 5, .use 7] = [5, 5, 0] ∧
    setRun (K := ℕ) (.fn fun wl => wl) [.use 5, .set (.const 0), .use 5, .use 7] = [5, 0, 0] := by
  decide

/-- Together with the Jones algebra: the leak of one vector-vortex object at every use of any setter
history is `cos²(δ/2)` of the retardance that is *current* at that use, at the wavelength of that use — zero
wherever the current plate is half wave, whatever the object was constructed with. -/
theorem vector_vortex_setter_history_leak [Field K] [CharZero K] [BEq K] [LawfulBEq K] (cj : K →+* K) (i c2 s2 : K)
    (hi : i * i = -1) (hci : cj i = -i) (hc2 : cj c2 = c2) (hs2 : cj s2 = s2) (hf : c2 ^ 2 + s2 ^ 2 = 1)
    (p0 : Param K (K × K)) (evs : List (Ev K (K × K)))
    (hp : ∀ p ∈ setSpec p0 evs, cj p.1 = p.1 ∧ cj p.2 = p.2 ∧ p.1 ^ 2 + p.2 ^ 2 = 1) (plus : Bool) :
    (setRun p0 evs).map (fun p => vvLeak cj i p.1 p.2 c2 s2 plus) = (setSpec p0 evs).map (fun p => p.1 ^ 2) := by
  rw [setter_history_free]
  apply List.map_congr_left
  intro p hmem
  obtain ⟨h1, h2, h3⟩ := hp p hmem
  exact vector_vortex_leak_eq_cos_sq cj i _ _ c2 s2 hi hci h1 h2 hc2 hs2 h3 hf plus

/-- The hypothesis on the history is satisfiable with a genuine change of kind (constant quarter-wave-like
plate, then a function of wavelength). -/
example : ∃ (p0 : Param ℂ (ℂ × ℂ)) (evs : List (Ev ℂ (ℂ × ℂ))), (setSpec p0 evs).length = 2 ∧
    ∀ p ∈ setSpec p0 evs, (starRingEnd ℂ) p.1 = p.1 ∧ (starRingEnd ℂ) p.2 = p.2 ∧ p.1 ^ 2 + p.2 ^ 2 = 1 := by
  refine ⟨.const (3 / 5, 4 / 5), [.use 1, .set (.fn fun _ => (0, 1)), .use 2], rfl, ?_⟩
  intro p hmem
  simp only [setSpec, Param.eval, List.mem_cons, List.not_mem_nil, or_false] at hmem
  rcases hmem with h | h <;> subst h
  · exact ⟨by simp only [map_div₀, map_ofNat], by simp only [map_div₀, map_ofNat], by norm_num⟩
  · exact ⟨by simp, by simp, by norm_num⟩

end VectorVortex

end HcipyVerif.Coronagraph
