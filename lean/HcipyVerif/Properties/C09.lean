import HcipyVerif.Lemmas.Coronagraph
import Mathlib.Algebra.Order.Field.Rat
import Mathlib.Algebra.Order.Floor.Ring
import Mathlib.Data.Rat.Floor
import Mathlib.Algebra.BigOperators.Pi

/-!
# C09 — coronagraphs null what they are designed to null and pass the rest

Theorems about the executable model `HcipyVerif/Model/Coronagraph.lean`.

* Perfect coronagraph (`perfect_coronagraph.py`).  The model's operator is exact Gram–Schmidt on
  the sampled modes; the theorems hold for *every* list of modes (linearly dependent or not),
  every aperture, every grid and every order, over any ordered field (run at `ℚ`, read at `ℝ`).
  What is modelled, not proved: that LAPACK's QR followed by the truncated-SVD pseudo-inverse
  yields this operator — checked by the correspondence on every run.  Complex fields are the
  pair (real part, imaginary part) of vectors; the operator acts on each (real modes).
* Lyot coronagraphs (`lyot.py`): identities of the forward algebra for arbitrary matrices `F`, `B`
  over any commutative ring (run at the Gaussian rationals).
* Multi-scale coronagraphs (`multi_scale.py`, `vortex.py`): level bookkeeping.  The clause
  "< 1 % on axis, > 50 % at 10 λ/D" is a statement about discretisation error with no identity
  behind it: it is **not decided by any theorem here**; the harness measures it.
-/
set_option linter.unusedSimpArgs false
set_option linter.unusedVariables false
set_option linter.unusedSectionVars false

namespace HcipyVerif.Coronagraph

open Finset

/-! ## perfect coronagraph: bookkeeping -/

/-- The double loop appends `Σ_{i<order/2}(i+1) = (order/2)(order/2+1)/2` modes — for every order —
and for every even order this is exactly the length `int(order * (order / 2 + 1) / 4)` the code
gives `coeffs`. -/
theorem mode_count (order : ℕ) :
    modeCount order = ∑ i ∈ Finset.range (order / 2), (i + 1) ∧
    modeCount order = (order / 2) * (order / 2 + 1) / 2 ∧
    (order % 2 = 0 → coeffsLen order = modeCount order) := by
  have hs := two_mul_sum_succ (order / 2)
  have h1 := modeCount_eq_sum order
  refine ⟨h1, ?_, ?_⟩
  · rw [h1]; omega
  · intro hev
    obtain ⟨h, rfl⟩ : ∃ h, order = 2 * h := ⟨order / 2, by omega⟩
    have hh : 2 * h / 2 = h := by omega
    have hs' := two_mul_sum_succ h
    rw [modeCount_eq_sum, hh]
    unfold coeffsLen
    have : 2 * h * (2 * h + 2) = 8 * ∑ i ∈ Finset.range h, (i + 1) := by
      have e : 2 * h * (2 * h + 2) = 4 * (h * (h + 1)) := by ring
      rw [e, ← hs']; ring
    rw [this]; omega

/-- After the repair D30 the number of coefficients used never exceeds the number of
orthogonalised modes, whatever the grid size; on a grid with at least as many points as modes
and an even order it is the full count. -/
theorem coeffs_used (order npix : ℕ) :
    coeffsUsed order npix ≤ min npix (modeCount order) ∧
    (order % 2 = 0 → modeCount order ≤ npix → coeffsUsed order npix = modeCount order) := by
  unfold coeffsUsed
  refine ⟨min_le_right _ _, fun hev hle => ?_⟩
  rw [(mode_count order).2.2 hev]
  omega

/-- The defect D30 in numbers: order 8 on a 3×3 grid asks for 10 coefficients but QR can return
only 9 modes. -/
theorem coeffs_old_mismatch : coeffsLen 8 = 10 ∧ min 9 (modeCount 8) = 9 := by decide

/-! ## perfect coronagraph: the projector -/
section Perfect
variable {K : Type} [Field K] [LinearOrder K] [IsStrictOrderedRing K] {n : ℕ}

/-- The all-zero field. -/
def zeroVec (K : Type) [OfNat K 0] (n : ℕ) : Vector K n := Vector.ofFn fun _ => 0

theorem toFn_zeroVec : toFn (zeroVec K n) = 0 := by
  unfold zeroVec; rw [toFn_ofFn]; rfl

/-- Every field in the linear span of the modes is mapped to zero — for any list of modes,
linearly dependent or not. -/
theorem perfect_nulls_span (ms : List (Vector K n)) (x : Vector K n)
    (hx : toFn x ∈ Submodule.span K {f | ∃ m ∈ ms, toFn m = f}) :
    perfect ms x = zeroVec K n := by
  apply toFn_injective
  rw [toFn_perfect, toFn_zeroVec]
  apply perfectF_span
  convert hx using 2
  ext f
  simp [List.mem_map]

/-- **Aperture × any polynomial of total degree below `order/2` is nulled**, for every aperture,
every sampling `(x, y)` of the grid, every order and every coefficient table `c`. -/
theorem perfect_nulls_polynomial (a x y : Vector K n) (order : ℕ) (c : ℕ → ℕ → K) (E : Vector K n)
    (hE : ∀ i : Fin n, E[i] = a[i] * ∑ d ∈ Finset.range (order / 2), ∑ j ∈ Finset.range (d + 1),
      c j (d - j) * x[i] ^ j * y[i] ^ (d - j)) :
    perfectCoronagraph a x y order E = zeroVec K n := by
  unfold perfectCoronagraph
  apply perfect_nulls_span
  have hsum : toFn E = ∑ d ∈ Finset.range (order / 2), ∑ j ∈ Finset.range (d + 1),
      c j (d - j) • toFn (mode a x y (j, d - j)) := by
    funext i
    simp only [Finset.sum_apply, Pi.smul_apply, smul_eq_mul, toFn_mode]
    have := hE i
    simp only [toFn] at *
    rw [this, Finset.mul_sum]
    refine Finset.sum_congr rfl fun d _ => ?_
    rw [Finset.mul_sum]
    refine Finset.sum_congr rfl fun j _ => ?_
    ring
  rw [hsum]
  refine Submodule.sum_mem _ fun d hd => Submodule.sum_mem _ fun j hj => Submodule.smul_mem _ _ ?_
  apply Submodule.subset_span
  refine ⟨mode a x y (j, d - j), ?_, rfl⟩
  unfold modes
  rw [List.mem_map]
  have hd' := Finset.mem_range.1 hd
  have hj' := Finset.mem_range.1 hj
  exact ⟨(j, d - j), mem_modeExps (by omega), rfl⟩

/-- **The flat wavefront over the aperture is nulled** (any order ≥ 2). -/
theorem perfect_nulls_flat (a x y : Vector K n) (order : ℕ) (ho : 2 ≤ order) :
    perfectCoronagraph a x y order a = zeroVec K n := by
  apply perfect_nulls_polynomial a x y order (fun j k => if j = 0 ∧ k = 0 then 1 else 0)
  intro i
  have h0 : 0 < order / 2 := by omega
  rw [Finset.sum_eq_single_of_mem 0 (Finset.mem_range.2 h0)]
  · simp
  · intro d _ hd
    apply Finset.sum_eq_zero
    intro j _
    have : ¬ (j = 0 ∧ d - j = 0) := by omega
    simp [this]

/-- **Idempotent**: `P (P E) = P E`. -/
theorem perfect_idempotent (ms : List (Vector K n)) (x : Vector K n) :
    perfect ms (perfect ms x) = perfect ms x := by
  apply toFn_injective
  rw [toFn_perfect, toFn_perfect, perfectF_idem]

/-- **Power never increases** (one real component). -/
theorem perfect_power_le (ms : List (Vector K n)) (x : Vector K n) :
    power (perfect ms x) ≤ power x := by
  unfold power
  rw [dot_eq_ip, dot_eq_ip, toFn_perfect]
  exact perfectF_power_le _ _

/-- Power of a complex field `re + i·im` never increases. -/
theorem perfect_power_le_complex (ms : List (Vector K n)) (re im : Vector K n) :
    power (perfect ms re) + power (perfect ms im) ≤ power re + power im :=
  add_le_add (perfect_power_le ms re) (perfect_power_le ms im)

/-- The operator is linear. -/
theorem perfect_linear (ms : List (Vector K n)) (x y : Vector K n) (c : K) :
    toFn (perfect ms (Vector.ofFn fun i => x[i] + c * y[i])) =
      toFn (perfect ms x) + c • toFn (perfect ms y) := by
  rw [toFn_perfect, toFn_perfect, toFn_perfect, toFn_ofFn]
  unfold perfectF
  rw [← residualF_smul, ← residualF_add]
  rfl

end Perfect

/-- Non-vacuity / executable sanity at `ℚ`: on the three points `x = -1, 0, 1` with full aperture,
order 4 nulls `1 + 2x` and leaves `x²`'s residual. -/
example : (perfectCoronagraph (K := Rat) #v[1, 1, 1] #v[-1, 0, 1] #v[0, 0, 0] 4 #v[-1, 1, 3]).toList
    = [0, 0, 0] := by decide +kernel

/-! ## Lyot coronagraphs -/
section Lyot
variable {K : Type} [CommRing K] {m n : ℕ}

theorem dot_zeroVec (r : Vector K m) : dot r (zeroVec K m) = 0 := by
  rw [dot_eq_ip, toFn_zeroVec' ]
  exact ip_zero_right _
where
  toFn_zeroVec' : toFn (zeroVec K m) = 0 := by unfold zeroVec; rw [toFn_ofFn]; rfl

theorem matVec_zeroVec (B : Vector (Vector K m) n) : matVec B (zeroVec K m) = zeroVec K n := by
  unfold matVec
  simp only [dot_zeroVec]
  rfl

/-- **A fully transmissive focal-plane mask** (`m = 1`): the Lyot coronagraph returns the input
times its Lyot stop — for arbitrary `F`, `B` (nothing about `B ∘ F` is needed: the subtracted
term is `B` applied to the zero field). -/
theorem lyot_transparent_mask (F : Vector (Vector K n) m) (B : Vector (Vector K m) n)
    (mask : Vector K m) (stop : Option (Vector K n)) (E : Vector K n)
    (h : ∀ k : Fin m, mask[k] = 1) :
    lyotForward F B mask stop E =
      match stop with
      | none => E
      | some s => Vector.ofFn fun i => E[i] * s[i] := by
  have hz : (Vector.ofFn fun k : Fin m => (matVec F E)[k] - (matVec F E)[k] * mask[k]) = zeroVec K m := by
    unfold zeroVec
    congr 1
    funext k
    rw [h k]; ring
  have hE : (Vector.ofFn fun i : Fin n => E[i] - (zeroVec K n)[i]) = E := by
    apply Vector.ext
    intro i hi
    simp [zeroVec]
  unfold lyotForward
  simp only [hz, matVec_zeroVec, hE]
  cases stop <;> rfl

/-- **A fully opaque mask** (`m = 0`): the occulting Lyot coronagraph returns nothing. -/
theorem occulted_opaque_mask (F : Vector (Vector K n) m) (B : Vector (Vector K m) n)
    (mask : Vector K m) (E : Vector K n) (h : ∀ k : Fin m, mask[k] = 0) :
    occultedForward F B mask E = zeroVec K n := by
  have hz : (Vector.ofFn fun k : Fin m => (matVec F E)[k] * mask[k]) = zeroVec K m := by
    unfold zeroVec
    congr 1
    funext k
    rw [h k]; ring
  unfold occultedForward
  simp only [hz, matVec_zeroVec]

end Lyot

end HcipyVerif.Coronagraph
