import HcipyVerif.Model.PhaseOptics
import HcipyVerif.Lemmas.Jones
import HcipyVerif.Lemmas.PassiveOptics
import HcipyVerif.Lemmas.PhaseOptics
import HcipyVerif.Lemmas.NearFieldGRat
import HcipyVerif.Gen.PhaseCoef
import HcipyVerif.Gen.Stokes
import Mathlib.Analysis.Complex.Exponential
import Mathlib.Analysis.Complex.Norm
import Mathlib.Tactic.NormNum
import Mathlib.Analysis.Real.Sqrt
import Mathlib.Algebra.BigOperators.Ring.Finset
import Mathlib.Algebra.Order.BigOperators.Ring.Finset
import Mathlib.Algebra.Order.Chebyshev
import Mathlib.Tactic.Ring
import Mathlib.Tactic.FieldSimp
import Mathlib.Tactic.Linarith
import Mathlib.Tactic.Positivity
import Mathlib.Algebra.Order.Field.Rat

/-!
# C07 — passive optics never create power; phase-only optics conserve it exactly

`HcipyVerif.Gen.PhaseCoef` is **regenerated from the running hcipy on every check** (tie T2): for each
phase-only element family it holds the rational coefficient κ of the multiplier
`exp(i · κ · unit · parameter)` that `forward` (`…Fwd`) and `backward` (`…Bwd`) apply to every pixel.
The theorems are stated for an arbitrary unimodular character `χ` (instantiated by `t ↦ exp(i t)`).

Round 4: the passive half and the total-power / backward clauses are stated about the executable model
`Model/PassiveOptics.lean` (`maskFwd`, `maskBwd`, `power`, `fibreAmp`, `fibreBack`, `knifeRow`) that driver ops `mask`, `fibre`,
`knife`, `knifet` run on the numbers the code sees; the generic inequalities they instantiate live in `Lemmas/PhaseOptics.lean`.
-/
set_option linter.unusedSimpArgs false
set_option linter.unusedVariables false
set_option linter.unusedSectionVars false

namespace HcipyVerif.C07
open HcipyVerif.PhaseOptics HcipyVerif.Gen.PhaseCoef Finset
open HcipyVerif.Passive HcipyVerif.Jones

/-! ## Phase-only elements -/

/-- Jones-matrix (partially polarised) wavefront: the intensity hcipy reports (the *generated* `stokesI` polynomial of the running
code, see C08) evaluated on the entries the executable `maskJ` produces (driver op `maskpol`: every entry times the scalar
multiplier `u`) is the intensity before the element when `|u| = 1`. -/
theorem phase_only_pixel_power_tensor (u : Cx ℝ) (e : J2 ℝ) (a b cc d w : ℝ) (hu : u.normSq = 1) :
    Gen.Stokes.stokesI (maskJ u e).a11.re (maskJ u e).a11.im (maskJ u e).a12.re (maskJ u e).a12.im
        (maskJ u e).a21.re (maskJ u e).a21.im (maskJ u e).a22.re (maskJ u e).a22.im a b cc d * w
      = Gen.Stokes.stokesI e.a11.re e.a11.im e.a12.re e.a12.im e.a21.re e.a21.im e.a22.re e.a22.im a b cc d * w := by
  obtain ⟨⟨xr, xi⟩, ⟨yr, yi⟩, ⟨zr, zi⟩, ⟨wr, wi⟩⟩ := e
  obtain ⟨ur, ui⟩ := u
  simp only [Cx.normSq] at hu
  have h : Gen.Stokes.stokesI (xr * ur - xi * ui) (xr * ui + xi * ur) (yr * ur - yi * ui) (yr * ui + yi * ur)
        (zr * ur - zi * ui) (zr * ui + zi * ur) (wr * ur - wi * ui) (wr * ui + wi * ur) a b cc d
      = (ur * ur + ui * ui) * Gen.Stokes.stokesI xr xi yr yi zr zi wr wi a b cc d := by
    simp only [Gen.Stokes.stokesI]; ring
  simp only [maskJ, J2.scale, Cx.mul_re, Cx.mul_im]
  rw [h, hu, one_mul]

/-! ### The identified coefficients of the real elements -/

/-- κ of the running code, per family and direction (from the generated file). -/
def genCoef (f : Family) (d : Dir) (n : Rat) : Rat :=
  match f, d with
  | .phaseApodizer, .fwd => phaseApodizerFwd | .phaseApodizer, .bwd => phaseApodizerBwd
  | .surfaceApodizer, .fwd => surfaceApodizerFwdN0 + surfaceApodizerFwdN1 * n
  | .surfaceApodizer, .bwd => surfaceApodizerBwdN0 + surfaceApodizerBwdN1 * n
  | .deformableMirror, .fwd => deformableMirrorFwd | .deformableMirror, .bwd => deformableMirrorBwd
  | .segmentedMirror, .fwd => segmentedMirrorFwd | .segmentedMirror, .bwd => segmentedMirrorBwd
  | .tipTiltMirror, .fwd => tipTiltMirrorFwd | .tipTiltMirror, .bwd => tipTiltMirrorBwd
  | .microLensArray, .fwd => microLensArrayFwd | .microLensArray, .bwd => microLensArrayBwd
  | .atmosphericLayer, .fwd => atmosphericLayerFwd | .atmosphericLayer, .bwd => atmosphericLayerBwd
  | .thinLens, .fwd => thinLensFwdN0 + thinLensFwdN1 * n | .thinLens, .bwd => thinLensBwdN0 + thinLensBwdN1 * n
  | .tiltElement, .fwd => tiltElementFwdN0 + tiltElementFwdN1 * n
  | .tiltElement, .bwd => tiltElementBwdN0 + tiltElementBwdN1 * n
  | .thinPrism, .fwd => thinPrismFwdN0 + thinPrismFwdN1 * n | .thinPrism, .bwd => thinPrismBwdN0 + thinPrismBwdN1 * n
  | .prism, .fwd => prismFwdN0 + prismFwdN1 * n | .prism, .bwd => prismBwdN0 + prismBwdN1 * n
  | .phaseGrating, .fwd => phaseGratingFwd | .phaseGrating, .bwd => phaseGratingBwd
  | .unimodularApodizer, .fwd => unimodularApodizerFwd | .unimodularApodizer, .bwd => unimodularApodizerBwd
  | .multiLayerAtmosphere, .fwd => multiLayerAtmosphereFwd | .multiLayerAtmosphere, .bwd => multiLayerAtmosphereBwd

/-- The identified exponents are the model's formulas: `1·φ`, `(n−1)·k·sag`, `2·k·surface`,
`(2−1)·k·opd`, `phase_for(1)/λ`. -/
theorem gen_coef_eq_model (f : Family) (d : Dir) (n : ℚ) : genCoef f d n = coef f d n := by
  cases f <;> cases d <;>
  simp only [genCoef, coef, coefFwd, phaseApodizerFwd, phaseApodizerBwd, surfaceApodizerFwdN0, surfaceApodizerFwdN1,
    surfaceApodizerBwdN0, surfaceApodizerBwdN1, deformableMirrorFwd, deformableMirrorBwd, segmentedMirrorFwd,
    segmentedMirrorBwd, tipTiltMirrorFwd, tipTiltMirrorBwd, microLensArrayFwd, microLensArrayBwd,
    thinLensFwdN0, thinLensFwdN1, thinLensBwdN0, thinLensBwdN1, tiltElementFwdN0, tiltElementFwdN1, tiltElementBwdN0,
    tiltElementBwdN1, thinPrismFwdN0, thinPrismFwdN1, thinPrismBwdN0, thinPrismBwdN1, prismFwdN0, prismFwdN1, prismBwdN0, prismBwdN1,
    phaseGratingFwd, phaseGratingBwd, unimodularApodizerFwd, unimodularApodizerBwd, multiLayerAtmosphereFwd, multiLayerAtmosphereBwd,
    atmosphericLayerFwd, atmosphericLayerBwd] <;> ring

/-- In every family the backward exponent identified on the running code is minus the forward one, and both are the
coefficients the executable model returns (driver op `coef`), whose backward value is therefore minus its forward value too. -/
theorem gen_backward_coef_eq_neg_forward (f : Family) (n : ℚ) :
    genCoef f .bwd n = -genCoef f .fwd n ∧ coef f .bwd n = -coef f .fwd n ∧ genCoef f .bwd n = coef f .bwd n := by
  have hc : coef f .bwd n = -coef f .fwd n := rfl
  exact ⟨by rw [gen_coef_eq_model, gen_coef_eq_model, hc], hc, gen_coef_eq_model f .bwd n⟩

/-- For every family of the running code (multipliers `χ(κ·u·pᵢ)` with the κ identified on the code), on the executable pixelwise
product `maskFwd` (driver op `mask`, compared with every family's `forward` / `backward`): `backward ∘ forward = id` and
`forward ∘ backward = id` on every pixel, for every parameter value `p`, unit `u` (`2π/λ`, `1/λ`, `1`) and refractive index `n`. -/
theorem family_backward_inverts_forward (c : UChar) (f : Family) (n : ℚ) (u : ℝ) (p : ℕ → ℝ) (tf tb E : ℕ → Cx ℝ)
    (hf : ∀ i, (tf i).toComplex = c.χ ((genCoef f .fwd n : ℝ) * u * p i))
    (hb : ∀ i, (tb i).toComplex = c.χ ((genCoef f .bwd n : ℝ) * u * p i)) (i : ℕ) :
    maskFwd tb (maskFwd tf E) i = E i ∧ maskFwd tf (maskFwd tb E) i = E i := by
  have h : ((genCoef f .bwd n : ℚ) : ℝ) * u * p i = -(((genCoef f .fwd n : ℚ) : ℝ) * u * p i) := by
    rw [(gen_backward_coef_eq_neg_forward f n).1]; push_cast; ring
  have key := phase_only_inverse c (E i).toComplex (((genCoef f .fwd n : ℚ) : ℝ) * u * p i)
  constructor <;> apply Cx.toComplex_injective
  · simp only [maskFwd, Cx.toComplex_mul, hf, hb, h]; exact key.1
  · simp only [maskFwd, Cx.toComplex_mul, hf, hb, h]; exact key.2

/-- The multiplier of the running code (κ from the generated table) **is** the model's multiplier
`χ(coef f d n · u · p)` — this is where κ matters: a wrong coefficient in the code changes `genCoef` and breaks
`gen_coef_eq_model` — and, being a value of the unimodular character, conserves the power of the pixel.
(Replaces round 3's `family_pixel_power`, which did not depend on κ.) -/
theorem family_multiplier_eq_model (c : UChar) (f : Family) (d : Dir) (n : ℚ) (E : ℂ) (u p w : ℝ) :
    c.χ ((genCoef f d n : ℝ) * u * p) = c.χ ((coef f d n : ℝ) * u * p) ∧
    Complex.normSq (E * c.χ ((genCoef f d n : ℝ) * u * p)) * w = Complex.normSq E * w := by
  rw [gen_coef_eq_model]
  exact ⟨rfl, phase_only_pixel_power c E _ w⟩

/-! ## Magnifier -/

/-- The model of the weights / divisor agrees with the real-number statement (`|·|` of the product),
and the unrepaired divisor `sqrt (M₁ M₂)` does not exist for magnifications of opposite sign. -/
theorem magnifier_old_counterexample : magDivisorSqOld 2 (-1) = none ∧ magDivisorSq 2 (-1) = 2 ∧ magWeightFactor 2 (-1) = 2 := by
  refine ⟨?_, ?_, ?_⟩ <;> norm_num [magDivisorSqOld, magDivisorSq, magWeightFactor, absRat]

/-- The model's `absRat` is the absolute value. -/
theorem absRat_eq_abs (q : ℚ) : absRat q = |q| := by
  unfold absRat
  split
  · rename_i h; rw [abs_of_neg h]
  · rename_i h; rw [abs_of_nonneg (not_lt.mp h)]

/-- In the executable magnifier model the weight factor and the squared field divisor are the same number … -/
theorem magWeightFactor_eq_divisorSq (m1 m2 : ℚ) : magWeightFactor m1 m2 = magDivisorSq m1 m2 := rfl

/-- … namely `|M₁ M₂|`. -/
theorem magDivisorSq_cast (m1 m2 : ℚ) : ((magDivisorSq m1 m2 : ℚ) : ℝ) = |(m1 : ℝ) * (m2 : ℝ)| := by
  unfold magDivisorSq
  rw [absRat_eq_abs]; push_cast; rfl

/-- **Audit R4.** Per-pixel power is conserved by the *executable* magnifier model (what driver op `magnify`
evaluates and the harness compares with `Magnifier.forward`): field divided by `sqrt (magDivisorSq m₁ m₂)`, weight
multiplied by `magWeightFactor m₁ m₂`, for all non-zero rational magnifications of either sign. -/
theorem magnifier_model_power (m1 m2 : ℚ) (h1 : m1 ≠ 0) (h2 : m2 ≠ 0) (E : ℂ) (w : ℝ) :
    Complex.normSq (E / ((Real.sqrt ((magDivisorSq m1 m2 : ℚ) : ℝ) : ℝ) : ℂ)) * (w * ((magWeightFactor m1 m2 : ℚ) : ℝ))
      = Complex.normSq E * w := by
  have hpos : 0 < ((magDivisorSq m1 m2 : ℚ) : ℝ) := by
    rw [magDivisorSq_cast]
    exact abs_pos.mpr (mul_ne_zero (by exact_mod_cast h1) (by exact_mod_cast h2))
  rw [magWeightFactor_eq_divisorSq, Complex.normSq_div, Complex.normSq_ofReal, Real.mul_self_sqrt hpos.le]
  field_simp

/-- The hypotheses are satisfiable by magnifications of opposite sign. -/
example : (2 : ℚ) ≠ 0 ∧ (-1 / 2 : ℚ) ≠ 0 := by norm_num

/-! ## Passive elements -/

/-- A linear polariser `[[c², cs], [cs, s²]]` (`c² + s² = 1`) never increases the intensity of a
Jones vector (it is an orthogonal projector). -/
theorem polarizer_passive (c s : ℝ) (h : c ^ 2 + s ^ 2 = 1) (e : Jones.V2 ℝ) :
    ((Jones.polarizer c s).apply e).x.normSq + ((Jones.polarizer c s).apply e).y.normSq
      ≤ e.x.normSq + e.y.normSq := by
  obtain ⟨⟨pr, pi⟩, ⟨qr, qi⟩⟩ := e
  simp only [Jones.polarizer, Jones.J2.apply_x, Jones.J2.apply_y, Jones.Cx.normSq, Jones.Cx.add_re, Jones.Cx.add_im,
    Jones.Cx.mul_re, Jones.Cx.mul_im]
  have key : (c * c * pr - 0 * pi + (c * s * qr - 0 * qi)) * (c * c * pr - 0 * pi + (c * s * qr - 0 * qi))
      + (c * c * pi + 0 * pr + (c * s * qi + 0 * qr)) * (c * c * pi + 0 * pr + (c * s * qi + 0 * qr))
      + ((c * s * pr - 0 * pi + (s * s * qr - 0 * qi)) * (c * s * pr - 0 * pi + (s * s * qr - 0 * qi))
      + (c * s * pi + 0 * pr + (s * s * qi + 0 * qr)) * (c * s * pi + 0 * pr + (s * s * qi + 0 * qr)))
      = (c ^ 2 + s ^ 2) * ((c * pr + s * qr) ^ 2 + (c * pi + s * qi) ^ 2) := by ring
  rw [key, h, one_mul]
  have e1 : (c * pr + s * qr) ^ 2 + (s * pr - c * qr) ^ 2 = (c ^ 2 + s ^ 2) * (pr * pr + qr * qr) := by ring
  have e2 : (c * pi + s * qi) ^ 2 + (s * pi - c * qi) ^ 2 = (c ^ 2 + s ^ 2) * (pi * pi + qi * qi) := by ring
  rw [h, one_mul] at e1 e2
  nlinarith [sq_nonneg (s * pr - c * qr), sq_nonneg (s * pi - c * qi)]

/-! ## Executable passive model -/

theorem phase_model_pixel_power (t E : ℕ → Cx ℝ) (w : ℕ → ℝ) (i : ℕ) (ht : (t i).normSq = 1) :
    (maskFwd t E i).normSq * w i = (E i).normSq * w i ∧ (maskBwd t E i).normSq * w i = (E i).normSq * w i := by
  simp only [maskFwd, maskBwd, Cx.normSq_mul', Cx.normSq_conj', ht, mul_one, and_self]

theorem phase_model_total_power (t E : ℕ → Cx ℝ) (w : ℕ → ℝ) (n : ℕ) (ht : ∀ i < n, (t i).normSq = 1) :
    power (maskFwd t E) w n = power E w n := by
  rw [power_eq_sum, power_eq_sum]
  exact Finset.sum_congr rfl fun i hi => (phase_model_pixel_power t E w i (ht i (Finset.mem_range.mp hi))).1

theorem phase_model_inverse (t E : ℕ → Cx ℝ) (i : ℕ) (ht : (t i).normSq = 1) :
    maskBwd t (maskFwd t E) i = E i ∧ maskFwd t (maskBwd t E) i = E i := by
  simp only [Cx.normSq] at ht
  constructor <;>
  · apply cx_ext <;>
    simp only [maskFwd, maskBwd, Cx.mul_re, Cx.mul_im, Cx.conj_re, Cx.conj_im]
    · linear_combination (E i).re * ht
    · linear_combination (E i).im * ht

theorem mask_model_passive (t E : ℕ → Cx ℝ) (w : ℕ → ℝ) (n : ℕ) (ht : ∀ i < n, (t i).normSq ≤ 1)
    (hw : ∀ i < n, 0 ≤ w i) :
    power (maskFwd t E) w n ≤ power E w n ∧ power (maskBwd t E) w n ≤ power E w n := by
  rw [power_eq_sum, power_eq_sum, power_eq_sum]
  constructor <;>
  · apply Finset.sum_le_sum
    intro i hi
    have hi' := Finset.mem_range.mp hi
    simp only [maskFwd, maskBwd, Cx.normSq_mul', Cx.normSq_conj']
    have h1 := ht i hi'
    have h2 := hw i hi'
    have h3 := Cx.normSq_nonneg' (E i)
    nlinarith [mul_nonneg h3 h2]

theorem polarizer_passive_tensor (c s : ℝ) (h : c ^ 2 + s ^ 2 = 1) (e : J2 ℝ) (sv : S4 ℝ) (ha : 0 ≤ sv.i)
    (hphys : sv.q ^ 2 + sv.u ^ 2 + sv.v ^ 2 ≤ sv.i ^ 2) :
    (jonesStokes (polarizer c s * e) sv).i ≤ (jonesStokes e sv).i := by
  have h1 := polarizer_ports_split c s h e sv
  have h2 := jonesStokes_i_nonneg (polarizer (-s) c * e) sv ha hphys
  linarith

/-- **Executable fibre model** (`Passive.fibreAmp`, driver op `fibre`): the coupled power is at most the
input power times the mode norm `Σ|m|²w` (which the code normalises to 1; the driver reports it). -/
theorem fibre_model_passive (E m : ℕ → Cx ℝ) (w : ℕ → ℝ) (n : ℕ) (hw : ∀ i < n, 0 ≤ w i) :
    (fibreAmp E m w n).normSq ≤ power E w n * power m w n := by
  rw [Cx.toComplex_normSq, fibreAmp_toComplex, power_eq_sum, power_eq_sum]
  have := fibre_cauchy_schwarz (Finset.range n) (fun i => (E i).toComplex) (fun i => (m i).toComplex) w
    (fun i hi => hw i (Finset.mem_range.mp hi))
  simpa only [← Cx.toComplex_normSq] using this

/-- `backward` re-expands the amplitude on the mode: its power is `|a|²·Σ|m|²w`. -/
theorem fibre_model_backward_power (a : Cx ℝ) (m : ℕ → Cx ℝ) (w : ℕ → ℝ) (n : ℕ) :
    power (fibreBack a m) w n = a.normSq * power m w n := by
  rw [power_eq_sum, power_eq_sum, Finset.mul_sum]
  apply Finset.sum_congr rfl
  intro i _
  simp only [fibreBack, Cx.normSq_mul']; ring

/-- **Executable knife-edge model** (`Passive.knifeRow`, driver op `knife`), any internal length `M > 0`, any
cut-out `start + N ≤ M`, any focal mask with `|mask| ≤ 1` (the code's is 0, ½ or 1), pre-apodizer and Lyot stop
with modulus ≤ 1: the row leaves with at most the energy it came with. -/
theorem knife_model_passive (N M start : ℕ) (hM : 0 < M) (h : start + N ≤ M) (mask apod lyot x : ℕ → ℂ)
    (hmask : ∀ q < M, ‖mask q‖ ≤ 1) (hap : ∀ j < N, ‖apod j‖ ≤ 1) (hly : ∀ j < N, ‖lyot j‖ ≤ 1) :
    ∑ j ∈ Finset.range N, ‖lyot j * knifeRow N M start (NearField.kF M) (NearField.kB M) ((M : ℂ)⁻¹) mask (fun i => x i * apod i) j‖ ^ 2
      ≤ ∑ j ∈ Finset.range N, ‖x j‖ ^ 2 := by
  have hfil := filter_contracts (NearField.dftPair M hM) (cut_injective N M start h)
    (D := fun q : Fin M => mask q.1) (fun q => hmask q.1 q.2) (fun j : Fin N => x j.1 * apod j.1)
  unfold NearField.nsq at hfil
  rw [← Fin.sum_univ_eq_sum_range (fun j => ‖lyot j * knifeRow N M start (NearField.kF M) (NearField.kB M) ((M : ℂ)⁻¹) mask (fun i => x i * apod i) j‖ ^ 2),
    ← Fin.sum_univ_eq_sum_range (fun j => ‖x j‖ ^ 2)]
  calc ∑ j : Fin N, ‖lyot j * knifeRow N M start (NearField.kF M) (NearField.kB M) ((M : ℂ)⁻¹) mask (fun i => x i * apod i) j‖ ^ 2
      ≤ ∑ j : Fin N, ‖knifeRow N M start (NearField.kF M) (NearField.kB M) ((M : ℂ)⁻¹) mask (fun i => x i * apod i) j‖ ^ 2 := by
        apply Finset.sum_le_sum
        intro j _
        rw [norm_mul, mul_pow]
        have h1 := hly j.1 j.2
        have h0 := norm_nonneg (lyot j.1)
        have : ‖lyot j.1‖ ^ 2 ≤ 1 := by nlinarith
        nlinarith [sq_nonneg ‖knifeRow N M start (NearField.kF M) (NearField.kB M) ((M : ℂ)⁻¹) mask (fun i => x i * apod i) j‖]
    _ = ∑ j : Fin N, ‖NearField.filter (NearField.dftPair M hM) (cut N M start h) (fun q : Fin M => mask q.1) (fun j : Fin N => x j.1 * apod j.1) j‖ ^ 2 := by
        apply Finset.sum_congr rfl
        intro j _
        rw [knifeRow_eq_filter N M start hM h mask (fun i => x i * apod i) j]
    _ ≤ ∑ j : Fin N, ‖x j.1 * apod j.1‖ ^ 2 := hfil
    _ ≤ ∑ j : Fin N, ‖x j.1‖ ^ 2 := by
        apply Finset.sum_le_sum
        intro j _
        rw [norm_mul, mul_pow]
        have h1 := hap j.1 j.2
        have h0 := norm_nonneg (apod j.1)
        have : ‖apod j.1‖ ^ 2 ≤ 1 := by nlinarith
        nlinarith [sq_nonneg ‖x j.1‖]

/-- The kernels the driver runs at `Rat` (Gaussian integers, `M ∣ 4`) are these DFT kernels. -/
theorem knife_exec_kernels (M : ℕ) (hM : M = 1 ∨ M = 2 ∨ M = 4) (n : ℤ) :
    (gaussKerF M n : Cx ℝ).toComplex = NearField.kF M n ∧ (gaussKerB M n : Cx ℝ).toComplex = NearField.kB M n :=
  ⟨gaussKerF_eq M hM n, gaussKerB_eq M hM n⟩

/-! ## Round 4: composites on the executable model -/

/-- **Phase-only families on the executable model.**  Let the forward / backward multipliers of a family be the values of the
character at `coef f d n · u · p_i` (`coef`: driver op `coef`, compared with the multiplier the code applies; `maskFwd`, `power`:
driver op `mask`, compared with the element's `forward` / `backward` and `Wavefront.total_power`).  Then both directions conserve
the total power `Σ|E_i|² w_i` for any weights, `backward ∘ forward = id` on every pixel, and the backward multiplier is the
conjugate of the forward one (so `Apodizer.backward`'s `conj` is the same map). -/
theorem family_model_roundtrip (c : UChar) (f : Family) (n : ℚ) (u : ℝ) (p : ℕ → ℝ) (tf tb E : ℕ → Cx ℝ) (w : ℕ → ℝ) (N : ℕ)
    (hf : ∀ i, (tf i).toComplex = c.χ ((coef f .fwd n : ℝ) * u * p i))
    (hb : ∀ i, (tb i).toComplex = c.χ ((coef f .bwd n : ℝ) * u * p i)) :
    power (maskFwd tf E) w N = power E w N ∧ power (maskFwd tb E) w N = power E w N ∧
    (∀ i, maskFwd tb (maskFwd tf E) i = E i) ∧ ∀ i, tb i = (tf i).conj := by
  have nf : ∀ i, (tf i).normSq = 1 := fun i => by rw [Cx.toComplex_normSq, hf, c.normSq_eq_one]
  have nb : ∀ i, (tb i).normSq = 1 := fun i => by rw [Cx.toComplex_normSq, hb, c.normSq_eq_one]
  have hconj : ∀ i, tb i = (tf i).conj := by
    intro i
    apply Cx.toComplex_injective
    rw [Cx.toComplex_conj, hf, hb, c.conj]
    congr 1
    have : coef f .bwd n = -coef f .fwd n := by
      exact (gen_backward_coef_eq_neg_forward f n).2.1
    rw [this]; push_cast; ring
  refine ⟨phase_model_total_power tf E w N fun i _ => nf i, phase_model_total_power tb E w N fun i _ => nb i, ?_, hconj⟩
  intro i
  have := (phase_model_inverse tf E i (nf i)).1
  unfold maskBwd at this
  unfold maskFwd at this ⊢
  rw [hconj i]; exact this

/-- The hypotheses of `family_model_roundtrip` are satisfiable for every family (take the real and imaginary part). -/
example (c : UChar) (f : Family) (d : Dir) (n : ℚ) (u : ℝ) (p : ℕ → ℝ) :
    ∃ t : ℕ → Cx ℝ, ∀ i, (t i).toComplex = c.χ ((coef f d n : ℝ) * u * p i) :=
  ⟨fun i => ⟨(c.χ ((coef f d n : ℝ) * u * p i)).re, (c.χ ((coef f d n : ℝ) * u * p i)).im⟩, fun i => rfl⟩

/-- `Magnifier.backward` multiplies by the number `forward` divided by (the square root of the executable `magDivisorSq`,
which is positive for non-zero magnifications): `backward ∘ forward = id` on the field. -/
theorem magnifier_model_backward_inverse (m1 m2 : ℚ) (h1 : m1 ≠ 0) (h2 : m2 ≠ 0) (E : ℂ) :
    E / ((Real.sqrt ((magDivisorSq m1 m2 : ℚ) : ℝ) : ℝ) : ℂ) * ((Real.sqrt ((magDivisorSq m1 m2 : ℚ) : ℝ) : ℝ) : ℂ) = E := by
  have hpos : 0 < ((magDivisorSq m1 m2 : ℚ) : ℝ) := by
    rw [magDivisorSq_cast]
    exact abs_pos.mpr (mul_ne_zero (by exact_mod_cast h1) (by exact_mod_cast h2))
  have : ((Real.sqrt ((magDivisorSq m1 m2 : ℚ) : ℝ) : ℝ) : ℂ) ≠ 0 := by
    exact_mod_cast (Real.sqrt_pos.mpr hpos).ne'
  exact div_mul_cancel₀ E this

/-- With the mode normalised as the code does (`Σ|m|²w = 1`; the harness checks the model's `mnorm` output is 1 on the code's
mode) the fibre couples at most the input power, and `backward` returns exactly the coupled power. -/
theorem fibre_model_passive_normalised (E m : ℕ → Cx ℝ) (w : ℕ → ℝ) (n : ℕ) (hw : ∀ i < n, 0 ≤ w i) (hnorm : power m w n = 1) :
    (fibreAmp E m w n).normSq ≤ power E w n ∧
    power (fibreBack (fibreAmp E m w n) m) w n = (fibreAmp E m w n).normSq := by
  have h := fibre_model_passive E m w n hw
  rw [hnorm, mul_one] at h
  refine ⟨h, ?_⟩
  rw [fibre_model_backward_power, hnorm, mul_one]

/-- `hnorm` is satisfiable (one pixel, unit weight, unit mode). -/
example : power (fun _ => (⟨1, 0⟩ : Cx ℝ)) (fun _ => (1 : ℝ)) 1 = 1 := by
  simp [power, Fft.sumRange, Cx.normSq]

/-- **Scalar transmissions on polarised light** (`Passive.maskJ`, `maskV`, driver op `maskpol`, compared per pixel with
`Apodizer` / every phase-only family acting on Jones-matrix and Jones-vector wavefronts): the whole Stokes vector of the pixel
scales by `|t|²` — whatever the input Stokes vector. -/
theorem mask_model_polarised_stokes (t : Cx ℝ) (e : J2 ℝ) (s : S4 ℝ) (v : V2 ℝ) :
    (jonesStokes (maskJ t e) s).i = t.normSq * (jonesStokes e s).i ∧ (jonesStokes (maskJ t e) s).q = t.normSq * (jonesStokes e s).q ∧
    (jonesStokes (maskJ t e) s).u = t.normSq * (jonesStokes e s).u ∧ (jonesStokes (maskJ t e) s).v = t.normSq * (jonesStokes e s).v ∧
    (vecStokes (maskV t v)).i = t.normSq * (vecStokes v).i ∧ (vecStokes (maskV t v)).q = t.normSq * (vecStokes v).q ∧
    (vecStokes (maskV t v)).u = t.normSq * (vecStokes v).u ∧ (vecStokes (maskV t v)).v = t.normSq * (vecStokes v).v := by
  obtain ⟨⟨xr, xi⟩, ⟨yr, yi⟩, ⟨zr, zi⟩, ⟨wr, wi⟩⟩ := e
  obtain ⟨a, b, c, d⟩ := s
  obtain ⟨⟨pr, pi⟩, ⟨qr, qi⟩⟩ := v
  obtain ⟨tr, ti⟩ := t
  refine ⟨?_, ?_, ?_, ?_, ?_, ?_, ?_, ?_⟩ <;> (simp only [maskJ, maskV, J2.scale]; jones_model_expand; ring)

/-- Phase-only elements (`|t| = 1`) leave the intensity — and the whole Stokes vector — of every partially / fully polarised pixel
unchanged; masks with `|t| ≤ 1` never increase the intensity (for a physical input Stokes vector, where the intensity is ≥ 0). -/
theorem mask_model_polarised_passive (t : Cx ℝ) (e : J2 ℝ) (s : S4 ℝ) (v : V2 ℝ) (ha : 0 ≤ s.i)
    (hphys : s.q ^ 2 + s.u ^ 2 + s.v ^ 2 ≤ s.i ^ 2) :
    (t.normSq = 1 → jonesStokes (maskJ t e) s = jonesStokes e s ∧ vecStokes (maskV t v) = vecStokes v) ∧
    (t.normSq ≤ 1 → (jonesStokes (maskJ t e) s).i ≤ (jonesStokes e s).i ∧ (vecStokes (maskV t v)).i ≤ (vecStokes v).i) := by
  obtain ⟨h1, h2, h3, h4, h5, h6, h7, h8⟩ := mask_model_polarised_stokes t e s v
  constructor
  · intro ht
    rw [ht, one_mul] at h1 h2 h3 h4 h5 h6 h7 h8
    constructor
    · cases hj : jonesStokes (maskJ t e) s; cases hk : jonesStokes e s
      rw [hj, hk] at h1 h2 h3 h4; simp only at h1 h2 h3 h4; rw [h1, h2, h3, h4]
    · cases hj : vecStokes (maskV t v); cases hk : vecStokes v
      rw [hj, hk] at h5 h6 h7 h8; simp only at h5 h6 h7 h8; rw [h5, h6, h7, h8]
  · intro ht
    have i1 := jonesStokes_i_nonneg e s ha hphys
    have i2 : 0 ≤ (vecStokes v).i := by
      obtain ⟨⟨pr, pi⟩, ⟨qr, qi⟩⟩ := v
      jones_model_expand
      nlinarith [mul_self_nonneg pr, mul_self_nonneg pi, mul_self_nonneg qr, mul_self_nonneg qi]
    rw [h1, h5]
    constructor <;> nlinarith

/-- The hypotheses are satisfiable: unpolarised input, a half-transparent pixel. -/
example : (0 : ℝ) ≤ (⟨1, 0, 0, 0⟩ : S4 ℝ).i ∧ (⟨1, 0, 0, 0⟩ : S4 ℝ).q ^ 2 + (⟨1, 0, 0, 0⟩ : S4 ℝ).u ^ 2 + (⟨1, 0, 0, 0⟩ : S4 ℝ).v ^ 2 ≤ (⟨1, 0, 0, 0⟩ : S4 ℝ).i ^ 2
    ∧ (⟨1 / 2, 0⟩ : Cx ℝ).normSq ≤ 1 := by
  norm_num [Cx.normSq]

/-- The whole 2-D field: the coronagraph transforms the `R` rows (columns for the `±y` directions) independently, each with its
own slice of the pre-apodizer, of the Lyot stop and of the field, so the total energy `Σ_r Σ_j |·|²` (total power on the regular
pupil grid, uniform weights) is not increased.  `backward` is the same pipeline with `conj lyot` in front and `conj apod` behind,
hence also covered (the hypotheses only bound moduli). -/
theorem knife_model_passive_rows (R N M start : ℕ) (hM : 0 < M) (h : start + N ≤ M) (mask : ℕ → ℂ)
    (apod lyot x : ℕ → ℕ → ℂ) (hmask : ∀ q < M, ‖mask q‖ ≤ 1)
    (hap : ∀ r < R, ∀ j < N, ‖apod r j‖ ≤ 1) (hly : ∀ r < R, ∀ j < N, ‖lyot r j‖ ≤ 1) :
    ∑ r ∈ Finset.range R, ∑ j ∈ Finset.range N,
        ‖lyot r j * knifeRow N M start (NearField.kF M) (NearField.kB M) ((M : ℂ)⁻¹) mask (fun i => x r i * apod r i) j‖ ^ 2
      ≤ ∑ r ∈ Finset.range R, ∑ j ∈ Finset.range N, ‖x r j‖ ^ 2 := by
  apply Finset.sum_le_sum
  intro r hr
  have hr' := Finset.mem_range.mp hr
  exact knife_model_passive N M start hM h mask (apod r) (lyot r) (x r) hmask (hap r hr') (hly r hr')

/-- Conjugation does not change the modulus: the backward direction satisfies the same hypotheses. -/
example (z : ℂ) (h : ‖z‖ ≤ 1) : ‖(starRingEnd ℂ) z‖ ≤ 1 := by rwa [Complex.norm_conj]

/-- **Total power of polarised wavefronts** (`Passive.powerJ`, `powerV` = `Wavefront.total_power` of Jones-matrix / Jones-vector
wavefronts, driver op `powerpol`): per-pixel scalar transmissions with `|t_i| = 1` conserve it, with `|t_i| ≤ 1` never increase it,
for arbitrary non-negative cell areas and any physical input Stokes vector. -/
theorem mask_model_polarised_total (t : ℕ → Cx ℝ) (e : ℕ → J2 ℝ) (v : ℕ → V2 ℝ) (s : S4 ℝ) (w : ℕ → ℝ) (n : ℕ)
    (ha : 0 ≤ s.i) (hphys : s.q ^ 2 + s.u ^ 2 + s.v ^ 2 ≤ s.i ^ 2) (hw : ∀ i < n, 0 ≤ w i) :
    ((∀ i < n, (t i).normSq = 1) →
      powerJ (fun i => maskJ (t i) (e i)) s w n = powerJ e s w n ∧ powerV (fun i => maskV (t i) (v i)) w n = powerV v w n) ∧
    ((∀ i < n, (t i).normSq ≤ 1) →
      powerJ (fun i => maskJ (t i) (e i)) s w n ≤ powerJ e s w n ∧ powerV (fun i => maskV (t i) (v i)) w n ≤ powerV v w n) := by
  unfold powerJ powerV
  simp only [Fft.sumRange_eq]
  constructor
  · intro ht
    constructor <;>
    · apply Finset.sum_congr rfl
      intro i hi
      have h := ((mask_model_polarised_passive (t i) (e i) s (v i) ha hphys).1 (ht i (Finset.mem_range.mp hi)))
      first | rw [h.1] | rw [h.2]
  · intro ht
    constructor <;>
    · apply Finset.sum_le_sum
      intro i hi
      have h := ((mask_model_polarised_passive (t i) (e i) s (v i) ha hphys).2 (ht i (Finset.mem_range.mp hi)))
      have hwi := hw i (Finset.mem_range.mp hi)
      first | exact mul_le_mul_of_nonneg_right h.1 hwi | exact mul_le_mul_of_nonneg_right h.2 hwi

/-! ## Round 5 -/

/-- **Phase-only families on polarised light, on the executed definitions** (`maskJ`, `maskV`: driver op `maskpol`; `powerJ`, `powerV`:
op `powerpol`; `coef`: op `coef`).  A pixel multiplier that is a value of the character at `coef f d n · u · p` leaves the whole
Stokes vector of a Jones-matrix pixel (any input Stokes vector) and of a Jones-vector pixel unchanged; with one such multiplier per
pixel the total power `Σ I_i w_i` is unchanged for **any** cell areas `w` (explicit, per point, of either sign). -/
theorem family_model_polarised (c : UChar) (f : Family) (d : Dir) (n : ℚ) (u : ℝ) (p : ℕ → ℝ) (t : ℕ → Cx ℝ)
    (ht : ∀ i, (t i).toComplex = c.χ ((coef f d n : ℝ) * u * p i)) (e : ℕ → J2 ℝ) (v : ℕ → V2 ℝ) (s : S4 ℝ) (w : ℕ → ℝ) (N : ℕ) :
    (∀ i, jonesStokes (maskJ (t i) (e i)) s = jonesStokes (e i) s ∧ vecStokes (maskV (t i) (v i)) = vecStokes (v i)) ∧
    powerJ (fun i => maskJ (t i) (e i)) s w N = powerJ e s w N ∧ powerV (fun i => maskV (t i) (v i)) w N = powerV v w N := by
  have nt : ∀ i, (t i).normSq = 1 := fun i => by rw [Cx.toComplex_normSq, ht, c.normSq_eq_one]
  have pix : ∀ i, jonesStokes (maskJ (t i) (e i)) s = jonesStokes (e i) s ∧ vecStokes (maskV (t i) (v i)) = vecStokes (v i) := by
    intro i
    obtain ⟨h1, h2, h3, h4, h5, h6, h7, h8⟩ := mask_model_polarised_stokes (t i) (e i) s (v i)
    rw [nt i, one_mul] at h1 h2 h3 h4 h5 h6 h7 h8
    constructor
    · cases hj : jonesStokes (maskJ (t i) (e i)) s; cases hk : jonesStokes (e i) s
      rw [hj, hk] at h1 h2 h3 h4; simp only at h1 h2 h3 h4; rw [h1, h2, h3, h4]
    · cases hj : vecStokes (maskV (t i) (v i)); cases hk : vecStokes (v i)
      rw [hj, hk] at h5 h6 h7 h8; simp only at h5 h6 h7 h8; rw [h5, h6, h7, h8]
  refine ⟨pix, ?_, ?_⟩
  · unfold powerJ; simp only [(pix _).1]
  · unfold powerV; simp only [(pix _).2]

/-- **Magnifier on grids with explicit cell areas** (`magWeights`, `magWeightsBack`: driver op `magweights`, compared with the weights
of the grid `Magnifier.forward` / `backward` return for scalar, all-ones and per-point input weights, also when the same
`Magnifier` object has seen a grid with the same coordinates and other weights before).  With the field divided by
`sqrt (magDivisorSq)` and the weights of the *returned* grid, the power of every pixel, hence the total power over any number of
pixels, is what came in, whatever the input weights; and `backward` returns the input weights. -/
theorem magnifier_model_weights_power (m1 m2 : ℚ) (h1 : m1 ≠ 0) (h2 : m2 ≠ 0) (E : ℕ → ℂ) (w : ℕ → ℚ) (N : ℕ) :
    (∀ i, Complex.normSq (E i / ((Real.sqrt ((magDivisorSq m1 m2 : ℚ) : ℝ) : ℝ) : ℂ)) * ((magWeights m1 m2 w i : ℚ) : ℝ)
        = Complex.normSq (E i) * (w i : ℝ)) ∧
    ∑ i ∈ Finset.range N, Complex.normSq (E i / ((Real.sqrt ((magDivisorSq m1 m2 : ℚ) : ℝ) : ℝ) : ℂ)) * ((magWeights m1 m2 w i : ℚ) : ℝ)
      = ∑ i ∈ Finset.range N, Complex.normSq (E i) * (w i : ℝ) ∧
    ∀ i, magWeightsBack m1 m2 (magWeights m1 m2 w) i = w i := by
  have pix : ∀ i, Complex.normSq (E i / ((Real.sqrt ((magDivisorSq m1 m2 : ℚ) : ℝ) : ℝ) : ℂ)) * ((magWeights m1 m2 w i : ℚ) : ℝ)
        = Complex.normSq (E i) * (w i : ℝ) := by
    intro i
    have := magnifier_model_power m1 m2 h1 h2 (E i) (w i : ℝ)
    unfold magWeights; push_cast; exact this
  refine ⟨pix, Finset.sum_congr rfl fun i _ => pix i, ?_⟩
  intro i
  have hne : magWeightFactor m1 m2 ≠ 0 := by
    unfold magWeightFactor; rw [absRat_eq_abs]; exact abs_ne_zero.mpr (mul_ne_zero h1 h2)
  unfold magWeightsBack magWeights
  exact mul_div_cancel_right₀ _ hne

/-- The hypotheses are satisfiable (anamorphic magnification of mixed sign). -/
example : (3 / 2 : ℚ) ≠ 0 ∧ (-2 : ℚ) ≠ 0 := by norm_num

/-- **The knife-edge coronagraph exactly, for every internal length** (`Passive.knifeRowP`, driver op `knifep`: `knifeRow` run at the
formal phase sums, compared row by row with `KnifeEdgeLyotCoronagraph.forward` / `backward` for internal lengths that do not divide 4
as well).  The complex number its output denotes is the complex pipeline of `knife_model_passive` with the DFT kernels of C01/C02,
applied to the numbers the inputs denote … -/
theorem knifep_denotes_complex_row (N M start : ℕ) (mask apod lyot x : ℕ → Cx Rat) (j : ℕ) :
    NearField.PSum.ev (knifeRowP N M start mask apod lyot x j)
      = cxC (lyot j) * knifeRow N M start (NearField.kF M) (NearField.kB M) ((M : ℂ)⁻¹) (fun q => cxC (mask q))
          (fun i => cxC (x i) * cxC (apod i)) j := by
  unfold knifeRowP cxToPSum cxC
  rw [NearField.PSum.ev_mul, knifeRow_map NearField.PSum.ev NearField.PSum.ev_zero NearField.PSum.ev_add NearField.PSum.ev_mul,
    NearField.ev_scale, funext (NearField.ev_pKerF M), funext (NearField.ev_pKerB M)]
  simp only [NearField.PSum.ev_mul, NearField.ev_psumOfGRat]

/-- … hence what op `knifep` computes never carries more energy than the row that came in: any `M > 0`, any cut-out, focal mask,
pre-apodizer and Lyot stop of modulus ≤ 1 (`backward`: the same with conjugated apodizer / stop in swapped roles). -/
theorem knifep_passive (N M start : ℕ) (hM : 0 < M) (h : start + N ≤ M) (mask apod lyot x : ℕ → Cx Rat)
    (hmask : ∀ q < M, ‖cxC (mask q)‖ ≤ 1) (hap : ∀ j < N, ‖cxC (apod j)‖ ≤ 1) (hly : ∀ j < N, ‖cxC (lyot j)‖ ≤ 1) :
    ∑ j ∈ Finset.range N, ‖NearField.PSum.ev (knifeRowP N M start mask apod lyot x j)‖ ^ 2
      ≤ ∑ j ∈ Finset.range N, ‖cxC (x j)‖ ^ 2 := by
  simp only [knifep_denotes_complex_row]
  exact knife_model_passive N M start hM h (fun q => cxC (mask q)) (fun j => cxC (apod j)) (fun j => cxC (lyot j))
    (fun j => cxC (x j)) hmask hap hly

/-- The hypotheses are satisfiable with an internal length that does not divide 4 (`M = 9`, the code's mask values 0, ½, 1). -/
example : (0 : ℕ) < 9 ∧ 3 + 3 ≤ 9 ∧ ‖cxC ⟨1 / 2, 0⟩‖ ≤ 1 ∧ ‖cxC ⟨0, 0⟩‖ ≤ 1 ∧ ‖cxC ⟨1, 0⟩‖ ≤ 1 := by
  have e : ∀ a : ℚ, cxC ⟨a, 0⟩ = ((a : ℝ) : ℂ) := fun a => by
    unfold cxC NearField.GRat.toC; apply Complex.ext <;> simp
  refine ⟨by norm_num, by norm_num, ?_, ?_, ?_⟩ <;> rw [e] <;> rw [Complex.norm_real] <;> norm_num

/-! ### Round 6: lazily materialised grid weights — the order of observation does not matter (seed C07-10) -/

/-- **Reading the weights before or after `CartesianGrid.scale` makes no difference** (`LazyW.read`, `LazyW.scale`, `LazyW.seen`: driver
op `lazyw`, compared with the weights of the grid `Magnifier.forward` / `backward` return for grids whose `_weights` slot is empty
(with and without automatic weights), a scalar or per point, read before the call or not).  For every state of the slot: scaling
after a read is scaling; the result is materialised (a later read changes nothing, whatever the automatic weights of the scaled
coordinates are); and every point shows the weight a reader would have seen before, times the Jacobian. -/
theorem lazy_scale_order_independent (auto : Option ℚ) (j : ℚ) (s : LazyW) :
    (s.read auto).scale auto j = s.scale auto j ∧
    (∀ auto', (s.scale auto j).read auto' = s.scale auto j) ∧
    ∀ auto' i, (s.scale auto j).seen auto' i = s.seen auto i * j := by
  cases s with
  | unset => simp [LazyW.read, LazyW.scale, LazyW.seen]
  | scalar w => simp [LazyW.read, LazyW.scale, LazyW.seen]
  | points ws =>
    refine ⟨by simp [LazyW.read, LazyW.scale], by simp [LazyW.read, LazyW.scale], ?_⟩
    intro auto' i
    simp only [LazyW.read, LazyW.scale, LazyW.seen, List.getD_eq_getElem?_getD, List.getElem?_map]
    cases ws[i]? <;> simp

/-- **The magnifier on a grid with a lazy weight slot**: whether or not somebody read the weights of the input grid first (`rd`), a
reader of the returned grid sees `magWeights` of what a reader of the input grid would have seen — the very function of
`magnifier_model_weights_power`; so, with the field divided by `sqrt (magDivisorSq)`, every pixel carries the power it carried. -/
theorem lazy_magnifier_pixel_power (auto auto' : Option ℚ) (m1 m2 : ℚ) (h1 : m1 ≠ 0) (h2 : m2 ≠ 0) (s : LazyW) (rd : Bool)
    (E : ℕ → ℂ) (i : ℕ) :
    ((if rd then s.read auto else s).scale auto (magWeightFactor m1 m2)).seen auto' i = magWeights m1 m2 (s.seen auto) i ∧
    Complex.normSq (E i / ((Real.sqrt ((magDivisorSq m1 m2 : ℚ) : ℝ) : ℝ) : ℂ))
        * (((((if rd then s.read auto else s).scale auto (magWeightFactor m1 m2)).seen auto' i : ℚ)) : ℝ)
      = Complex.normSq (E i) * ((s.seen auto i : ℚ) : ℝ) := by
  have h := lazy_scale_order_independent auto (magWeightFactor m1 m2) s
  have hw : ((if rd then s.read auto else s).scale auto (magWeightFactor m1 m2)).seen auto' i = magWeights m1 m2 (s.seen auto) i := by
    cases rd
    · simp only [Bool.false_eq_true, if_false]; rw [h.2.2]; rfl
    · simp only [if_true]; rw [h.1, h.2.2]; rfl
  refine ⟨hw, ?_⟩
  rw [hw]
  exact (magnifier_model_weights_power m1 m2 h1 h2 E (s.seen auto) 0).1 i

/-- The hypotheses are satisfiable. -/
example : (2 : ℚ) ≠ 0 ∧ (-3 / 2 : ℚ) ≠ 0 := by norm_num

/-- "Rescale only what has been materialised" (`LazyW.scaleOld`, the seeded variant) is the same function whenever the coordinates
have automatic weights (regular / separated grids: the empty slot is refilled from the scaled coordinates) … -/
theorem lazy_scaleOld_agrees_with_automatic_weights (a j : ℚ) (s : LazyW) (i : ℕ) :
    (s.scaleOld j).seen (some (a * j)) i = (s.scale (some a) j).seen (some (a * j)) i := by
  cases s <;> simp [LazyW.scaleOld, LazyW.scale, LazyW.read, LazyW.seen]

/-- … and wrong for a grid without automatic weights that nobody has read yet, while right after a read: order dependence. -/
theorem lazy_scaleOld_counterexample :
    (LazyW.unset.scaleOld 4).seen none 0 ≠ LazyW.unset.seen none 0 * 4 ∧
    ((LazyW.unset.read none).scaleOld 4).seen none 0 = LazyW.unset.seen none 0 * 4 := by
  constructor <;> simp [LazyW.scaleOld, LazyW.read, LazyW.seen]

end HcipyVerif.C07
