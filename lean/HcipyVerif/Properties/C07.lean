import HcipyVerif.Model.PhaseOptics
namespace HcipyVerif.C07
theorem placeholder_partial : True := trivial
end HcipyVerif.C07
