import HcipyVerif.Lemmas.FftPipeline
import HcipyVerif.Lemmas.FftPipeline2
import HcipyVerif.Lemmas.FftBackward2
import HcipyVerif.Lemmas.FftPipelineN
import HcipyVerif.Lemmas.FourierC02
import HcipyVerif.Lemmas.Mft
import HcipyVerif.Lemmas.Czt
import HcipyVerif.Lemmas.Axes
import HcipyVerif.Lemmas.FftSelect
import HcipyVerif.Lemmas.FftState
import HcipyVerif.Lemmas.FftMulti
import HcipyVerif.Lemmas.FftDecide
import HcipyVerif.Lemmas.FftPlan
import HcipyVerif.Lemmas.ZoomN
import HcipyVerif.Model.FftWeights
import HcipyVerif.Lemmas.Nft
import HcipyVerif.Lemmas.Multiplex
import HcipyVerif.Lemmas.MftState

/-!
# C01 — every Fourier transform evaluates the same weighted Fourier sum

Model: `HcipyVerif/Model/FftGrid.lean` (sizes, cut-outs, output grid), `Model/FftIndex.lean`
(`fastForward`/`fastBackward`: the FastFourierTransform pipeline on one axis, both
`emulate_fftshifts` settings), `Model/FftIndex2/2b/N.lean` (the literal 2-D / 3-D array programs,
the iterated `n`-axis pipeline, the `n`-D defining sums), `Model/FftWeights.lean` (per-point
weights), `Model/FftState.lean` (the persistent internal array), `Model/Mft.lean` (the two gemm
products), `Model/Czt.lean` (Bluestein), `Model/ZoomN.lean` (the ZoomFFT axis loop with weights),
`Model/Axes.lean` (its `moveaxis` bookkeeping), `Model/FftSelect.lean` (`make_fourier_transform`,
`get_fft_parameters`).  Every one of these definitions is executed by the native driver
(`Driver/C01.lean`) and compared with the running code by `harness/props/c01.py` /
`c01_ties.py`; `tools/tie_report.py` measures this mechanically (no theorem of this file is about
a definition the driver does not run, except the `Complex.exp` casts `expT`/`expE`/`Cfg.ofPlanCast`
and the index helper `flat2`).

`exp` enters through abstract characters `T` (argument in turns, 1-periodic) and `E` (radians);
`expT`, `expE` (Lemmas/FourierC02.lean) instantiate them with `Complex.exp`, which also shows that
every hypothesis bundle below is satisfiable.

Hypotheses: `N ≤ M`, `Mo ≤ M` (zero padding, cropping), and the grid consistency
`dT·M·δ = 1`, i.e. `Δ·M·δ = 2π` — the frequency spacing belongs to the array the FFT is taken of
(this is what defect D4 violated; `plan` of the repaired code satisfies it by construction).
-/
set_option linter.unusedSimpArgs false
set_option linter.unusedVariables false
set_option linter.unusedSectionVars false

namespace HcipyVerif.C01
open HcipyVerif.Fft HcipyVerif.Axes Finset

section abstract
variable {K C : Type} [Field K] [Field C] {T E : K → C}

/-- **FastFourierTransform.forward = the defining sum**, one axis, for both settings of
`emulate_fftshifts`, all `N ≤ M`, `Mo ≤ M`, all offsets/shifts:
`forward f k = Σ_{j<N} f_j·w·exp(-i·u_k·x_j)`, `x_j = z + jδ`, `u_k = 2π·dT·(k-⌊Mo/2⌋) + s`. -/
theorem fast_forward_eq_sum (hT : IsChar T) (hE : IsChar E) (hper : ∀ n : ℤ, T (n : K) = 1)
    (g : Cfg K C) (hN : g.N ≤ g.M) (hMo : g.Mo ≤ g.M) (hcons : g.dT * (g.M : K) * g.δ = 1)
    (f : ℕ → C) (k : ℕ) (hk : k < g.Mo) :
    fastForward T E g f k
      = ∑ j ∈ range g.N, f j * g.w * (T (-(g.a k * g.x j)) * E (-(g.s * g.x j))) := by
  rw [fastForward_eq_sumForward hT hE hper g hN hMo hcons f k hk, sumForward, sumRange_eq]

/-- the emulated-fftshift configuration, stated on its own -/
theorem fast_forward_emulated_eq_sum (hT : IsChar T) (hE : IsChar E) (hper : ∀ n : ℤ, T (n : K) = 1)
    (g : Cfg K C) (hemu : g.emu = true) (hN : g.N ≤ g.M) (hMo : g.Mo ≤ g.M)
    (hcons : g.dT * (g.M : K) * g.δ = 1) (f : ℕ → C) (k : ℕ) (hk : k < g.Mo) :
    fastForward T E g f k
      = ∑ j ∈ range g.N, f j * g.w * (T (-(g.a k * g.x j)) * E (-(g.s * g.x j))) :=
  fast_forward_eq_sum hT hE hper g hN hMo hcons f k hk

/-- **FastFourierTransform.backward = the defining backward sum** with the output weight
`wOut = Δ/(2π)` (`wOut·M·w = 1`): `backward F j = Σ_{k<Mo} F_k·wOut·exp(+i·u_k·x_j)`. -/
theorem fast_backward_eq_sum (hT : IsChar T) (hE : IsChar E) (hper : ∀ n : ℤ, T (n : K) = 1)
    (g : Cfg K C) (hN : g.N ≤ g.M) (hMo : g.Mo ≤ g.M) (hcons : g.dT * (g.M : K) * g.δ = 1)
    (wOut : C) (hw : wOut * (g.M : C) * g.w = 1) (F : ℕ → C) (j : ℕ) (hj : j < g.N) :
    fastBackward T E g F j
      = ∑ k ∈ range g.Mo, F k * wOut * (T (g.a k * g.x j) * E (g.s * g.x j)) := by
  rw [fastBackward_eq_sumBackward hT hE hper g hN hMo hcons wOut hw F j hj, sumBackward, sumRange_eq]

/-- **Separability**: the literal 2-D pipeline (`pad`/`ifftshift`/`fftn`/`fftshift`/crop on both
axes at once, 2-D multipliers `exp(-i·(c_x u_x + c_y u_y))` with one piston, one weight) is the 1-D
pipeline along `x` followed by the 1-D pipeline along `y`. -/
theorem fast_forward_2d_separable (hT : IsChar T) (hE : IsChar E) (gy gx : Cfg K C)
    (hemu : gy.emu = gx.emu) (f : ℕ → ℕ → C) (ky kx : ℕ) :
    fastForward2 T E gy gx f ky kx = fastForward T E gy (fun iy => fastForward T E gx (f iy) kx) ky :=
  fastForward2_eq_iter hT hE gy gx hemu f ky kx

/-- **FastFourierTransform.forward on a 2-D grid = the 2-D defining sum**
`Σ_{iy,ix} f[iy,ix]·w·exp(-i(u_x x + u_y y))`, non-square sizes, per-axis q/fov/shift, both
shift settings. -/
theorem fast_forward_eq_sum_2d (hT : IsChar T) (hE : IsChar E) (hper : ∀ n : ℤ, T (n : K) = 1)
    (gy gx : Cfg K C) (hemu : gy.emu = gx.emu)
    (hNy : gy.N ≤ gy.M) (hMoy : gy.Mo ≤ gy.M) (hcy : gy.dT * (gy.M : K) * gy.δ = 1)
    (hNx : gx.N ≤ gx.M) (hMox : gx.Mo ≤ gx.M) (hcx : gx.dT * (gx.M : K) * gx.δ = 1)
    (f : ℕ → ℕ → C) (ky kx : ℕ) (hky : ky < gy.Mo) (hkx : kx < gx.Mo) :
    fastForward2 T E gy gx f ky kx
      = ∑ iy ∈ range gy.N, ∑ ix ∈ range gx.N, f iy ix * (gy.w * gx.w) *
          (T (-(gx.a kx * gx.x ix + gy.a ky * gy.x iy)) * E (-(gx.s * gx.x ix + gy.s * gy.x iy))) := by
  rw [fastForward2_eq_iter hT hE gy gx hemu]
  exact fastForward2Iter_eq_sum hT hE hper gy gx hNy hMoy hcy hNx hMox hcx f ky kx hky hkx

/-- **Separability of `backward`** (literal 2-D pipeline, `ifftn` factor `1/(My·Mx)`). -/
theorem fast_backward_2d_separable (hT : IsChar T) (hE : IsChar E) (gy gx : Cfg K C)
    (hemu : gy.emu = gx.emu) (F : ℕ → ℕ → C) (jy jx : ℕ) :
    fastBackward2 T E gy gx F jy jx = fastBackward T E gy (fun ky => fastBackward T E gx (F ky) jx) jy :=
  fastBackward2_eq_iter hT hE gy gx hemu F jy jx

/-- **FastFourierTransform.backward on a 2-D grid = the 2-D backward sum** with the output weight
`woy·wox = Δy·Δx/(2π)²`. -/
theorem fast_backward_eq_sum_2d (hT : IsChar T) (hE : IsChar E) (hper : ∀ n : ℤ, T (n : K) = 1)
    (gy gx : Cfg K C) (hemu : gy.emu = gx.emu)
    (hNy : gy.N ≤ gy.M) (hMoy : gy.Mo ≤ gy.M) (hcy : gy.dT * (gy.M : K) * gy.δ = 1)
    (hNx : gx.N ≤ gx.M) (hMox : gx.Mo ≤ gx.M) (hcx : gx.dT * (gx.M : K) * gx.δ = 1)
    (woy wox : C) (hwy : woy * (gy.M : C) * gy.w = 1) (hwx : wox * (gx.M : C) * gx.w = 1)
    (F : ℕ → ℕ → C) (jy jx : ℕ) (hjy : jy < gy.N) (hjx : jx < gx.N) :
    fastBackward2 T E gy gx F jy jx
      = ∑ ky ∈ range gy.Mo, ∑ kx ∈ range gx.Mo, F ky kx * (woy * wox) *
          (T (gx.a kx * gx.x jx + gy.a ky * gy.x jy) * E (gx.s * gx.x jx + gy.s * gy.x jy)) := by
  rw [fastBackward2_eq_iter hT hE gy gx hemu]
  exact fastBackward2Iter_eq_sum hT hE hper gy gx hNy hMoy hcy hNx hMox hcx woy wox hwy hwx F jy jx hjy hjx

/-- **Three axes, literally**: one 3-D pad / ifftshift / `fftn` / fftshift / crop with 3-D
multiplier arrays is the 1-D pipeline along `x`, `y`, `z`. -/
theorem fast_forward_3d_separable (hT : IsChar T) (hE : IsChar E) (gz gy gx : Cfg K C)
    (hey : gy.emu = gx.emu) (hez : gz.emu = gx.emu) (f : ℕ → ℕ → ℕ → C) (kz ky kx : ℕ) :
    fastForward3 T E gz gy gx f kz ky kx = fastForward3Iter T E gz gy gx f kz ky kx :=
  fastForward3_eq_iter hT hE gz gy gx hey hez f kz ky kx

/-- **FastFourierTransform.forward on a 3-D grid = the 3-D defining sum.** -/
theorem fast_forward_eq_sum_3d (hT : IsChar T) (hE : IsChar E) (hper : ∀ n : ℤ, T (n : K) = 1)
    (gz gy gx : Cfg K C) (hey : gy.emu = gx.emu) (hez : gz.emu = gx.emu)
    (hNz : gz.N ≤ gz.M) (hMoz : gz.Mo ≤ gz.M) (hcz : gz.dT * (gz.M : K) * gz.δ = 1)
    (hNy : gy.N ≤ gy.M) (hMoy : gy.Mo ≤ gy.M) (hcy : gy.dT * (gy.M : K) * gy.δ = 1)
    (hNx : gx.N ≤ gx.M) (hMox : gx.Mo ≤ gx.M) (hcx : gx.dT * (gx.M : K) * gx.δ = 1)
    (f : ℕ → ℕ → ℕ → C) (kz ky kx : ℕ) (hkz : kz < gz.Mo) (hky : ky < gy.Mo) (hkx : kx < gx.Mo) :
    fastForward3 T E gz gy gx f kz ky kx
      = ∑ iz ∈ range gz.N, ∑ iy ∈ range gy.N, ∑ ix ∈ range gx.N,
          f iz iy ix * (gz.w * gy.w * gx.w) *
            (T (-(gx.a kx * gx.x ix + gy.a ky * gy.x iy + gz.a kz * gz.x iz))
              * E (-(gx.s * gx.x ix + gy.s * gy.x iy + gz.s * gz.x iz))) :=
  fastForward3_eq_sum hT hE hper gz gy gx hey hez hNz hMoz hcz hNy hMoy hcy hNx hMox hcx f kz ky kx hkz hky hkx

/-- **FastFourierTransform.backward on a 3-D grid = the 3-D backward sum.** -/
theorem fast_backward_eq_sum_3d (hT : IsChar T) (hE : IsChar E) (hper : ∀ n : ℤ, T (n : K) = 1)
    (gz gy gx : Cfg K C) (hey : gy.emu = gx.emu) (hez : gz.emu = gx.emu)
    (hNz : gz.N ≤ gz.M) (hMoz : gz.Mo ≤ gz.M) (hcz : gz.dT * (gz.M : K) * gz.δ = 1)
    (hNy : gy.N ≤ gy.M) (hMoy : gy.Mo ≤ gy.M) (hcy : gy.dT * (gy.M : K) * gy.δ = 1)
    (hNx : gx.N ≤ gx.M) (hMox : gx.Mo ≤ gx.M) (hcx : gx.dT * (gx.M : K) * gx.δ = 1)
    (wz wy wx : C) (hwz : wz * (gz.M : C) * gz.w = 1) (hwy : wy * (gy.M : C) * gy.w = 1)
    (hwx : wx * (gx.M : C) * gx.w = 1)
    (F : ℕ → ℕ → ℕ → C) (jz jy jx : ℕ) (hjz : jz < gz.N) (hjy : jy < gy.N) (hjx : jx < gx.N) :
    fastBackward3 T E gz gy gx F jz jy jx
      = ∑ kz ∈ range gz.Mo, ∑ ky ∈ range gy.Mo, ∑ kx ∈ range gx.Mo,
          F kz ky kx * (wz * wy * wx) *
            (T (gx.a kx * gx.x jx + gy.a ky * gy.x jy + gz.a kz * gz.x jz)
              * E (gx.s * gx.x jx + gy.s * gy.x jy + gz.s * gz.x jz)) :=
  fastBackward3_eq_sum hT hE hper gz gy gx hey hez hNz hMoz hcz hNy hMoy hcy hNx hMox hcx wz wy wx hwz hwy hwx
    F jz jy jx hjz hjy hjx

/-- **n axes, by induction over the list of axes**: the pipeline applied axis by axis (arrays
indexed by index lists) evaluates the n-dimensional defining sum
`Σ_js f js · Πw · T(-Σ a_k x_j) · E(-Σ s x_j)`.  This is the *iterated* pipeline; that the literal
n-D array program (one n-D pad / shift / `fftn` / crop, n-D multiplier arrays) coincides with it is
proved for 2 axes (`fast_forward_2d_separable`) and 3 axes (`fast_forward_3d_separable`), and is
NumPy's specification (`fftn` = iterated 1-D DFT; `ifftshift`, slicing act per axis) beyond. -/
theorem fast_forward_nd_eq_sum (hT : IsChar T) (hE : IsChar E) (hper : ∀ n : ℤ, T (n : K) = 1)
    (gs : List (Cfg K C))
    (hgs : ∀ g ∈ gs, g.N ≤ g.M ∧ g.Mo ≤ g.M ∧ g.dT * (g.M : K) * g.δ = 1)
    (f : List ℕ → C) (ks : List ℕ) (hks : List.Forall₂ (fun k g => k < g.Mo) ks gs) :
    fastForwardN T E gs f ks = sumForwardN T E gs f ks :=
  fastForwardN_eq_sumForwardN hT hE hper gs hgs f ks hks

/-- the same for `backward` (per-axis output weights `wOut g = Δ/(2π)`) -/
theorem fast_backward_nd_eq_sum (hT : IsChar T) (hE : IsChar E) (hper : ∀ n : ℤ, T (n : K) = 1)
    (wOut : Cfg K C → C) (gs : List (Cfg K C))
    (hgs : ∀ g ∈ gs, g.N ≤ g.M ∧ g.Mo ≤ g.M ∧ g.dT * (g.M : K) * g.δ = 1 ∧
      wOut g * (g.M : C) * g.w = 1)
    (F : List ℕ → C) (js : List ℕ) (hjs : List.Forall₂ (fun j g => j < g.N) js gs) :
    fastBackwardN T E gs F js = sumBackwardN T E wOut gs F js :=
  fastBackwardN_eq_sumBackwardN hT hE hper wOut gs hgs F js hjs

/-- **FastFourierTransform.forward on a grid with per-point weights** (`relative_weights`
multiplied into the internal array, the cell area `g.w` in `shift_input`): the sum with the
grid's own weights `w_j = rel_j · g.w`, one axis. -/
theorem fast_forward_weights_eq_sum (hT : IsChar T) (hE : IsChar E) (hper : ∀ n : ℤ, T (n : K) = 1)
    (g : Cfg K C) (hN : g.N ≤ g.M) (hMo : g.Mo ≤ g.M) (hcons : g.dT * (g.M : K) * g.δ = 1)
    (rel f : ℕ → C) (k : ℕ) (hk : k < g.Mo) :
    fastForwardW T E g rel f k
      = ∑ j ∈ range g.N, f j * (rel j * g.w) * (T (-(g.a k * g.x j)) * E (-(g.s * g.x j))) := by
  unfold fastForwardW
  rw [fast_forward_eq_sum hT hE hper g hN hMo hcons _ k hk]
  exact Finset.sum_congr rfl fun j _ => by ring

/-- … on `n` axes (iterated pipeline), `relative_weights` an arbitrary `n`-D array: the `n`-D sum
with per-point weights `rel(js) · Π w_i`. -/
theorem fast_forward_weights_nd_eq_sum (hT : IsChar T) (hE : IsChar E)
    (hper : ∀ n : ℤ, T (n : K) = 1) (gs : List (Cfg K C))
    (hgs : ∀ g ∈ gs, g.N ≤ g.M ∧ g.Mo ≤ g.M ∧ g.dT * (g.M : K) * g.δ = 1)
    (rel f : List ℕ → C) (ks : List ℕ) (hks : List.Forall₂ (fun k g => k < g.Mo) ks gs) :
    fastForwardNW T E gs rel f ks
      = sumOverN (gs.map fun g => g.N) fun js =>
          f js * (rel js * weightN gs) * (T (-(dotA gs ks js)) * E (-(dotS gs js))) := by
  unfold fastForwardNW
  rw [fastForwardN_eq_sumForwardN hT hE hper gs hgs _ ks hks, sumForwardN]
  exact congrArg _ (funext fun js => by ring)

/-- **NaiveFourierTransform.forward = the defining sum**, for both code paths — the list
comprehension over output points (`precompute_matrices = False`) and the precomputed matrix of
`get_transformation_matrix_forward` (`A = exp(-i·coords_outᵀ·coords_in); A *= weights`) — on
arbitrary (unstructured) points in any number of dimensions (`dotCoords us xs k j = u_k · x_j`),
per-point weights.  The code *is* the sum up to the order of the factors; the statement is kept
because it is what ties the specification the other theorems refer to to running code (driver op
`nft`, family `tie-nft`). -/
theorem naive_forward_eq_sum (n : ℕ) (us xs : List (ℕ → K)) (w f : ℕ → C) (k : ℕ) :
    nftForwardFly E n us xs w f k = ∑ j ∈ range n, f j * w j * E (-(dotCoords us xs k j)) ∧
    nftForwardMat E n us xs w f k = ∑ j ∈ range n, f j * w j * E (-(dotCoords us xs k j)) :=
  ⟨nft_forward_fly_eq_sum E n us xs w f k, nft_forward_mat_eq_sum E n us xs w f k⟩

/-- **NaiveFourierTransform.backward = the backward sum** (`wOut = output weights/(2π)^ndim`),
both code paths. -/
theorem naive_backward_eq_sum (m : ℕ) (us xs : List (ℕ → K)) (wOut F : ℕ → C) (j : ℕ) :
    nftBackwardFly E m us xs wOut F j = ∑ k ∈ range m, F k * wOut k * E (dotCoords us xs k j) ∧
    nftBackwardMat E m us xs wOut F j = ∑ k ∈ range m, F k * wOut k * E (dotCoords us xs k j) :=
  ⟨nft_backward_fly_eq_sum E m us xs wOut F j, nft_backward_mat_eq_sum E m us xs wOut F j⟩

/-! ### Tensor fields: `multiplex_for_tensor_fields` -/

/-- **A tensor field is transformed component by component** — for every tensor shape `ts`
(any order, any extents), every valid tensor multi-index `idx` and every wrapped function `func`
(`n` samples ↦ `m` samples): sample `k` of component `idx` of the result (raveled position
`tensorRavel ts idx · m + k`, which lies inside the `tensorSize ts · m` output samples) is
`func` applied to component `idx` of the input (raveled block `tensorRavel ts idx · n + ·`).
`multiplexTensor` is the model of the decorator run by the driver op `C01 mux` and compared with
`NaiveFourierTransform.forward/backward` on tensor fields (family `tie-mux`). -/
theorem multiplex_componentwise (func : (ℕ → C) → ℕ → C) (ts idx : List ℕ) (hts : ts ≠ [])
    (hidx : TensorIdx ts idx) (n m : ℕ) (X : ℕ → C) (k : ℕ) (hk : k < m) :
    multiplexTensor func ts n m X (tensorRavel ts idx * m + k)
        = func (fun j => X (tensorRavel ts idx * n + j)) k ∧
      tensorRavel ts idx * m + k < tensorSize ts * m := by
  refine ⟨multiplexTensor_block func ts hts n m X _ k hk, ?_⟩
  have h := tensorRavel_lt ts idx hidx
  calc tensorRavel ts idx * m + k < tensorRavel ts idx * m + m := by omega
    _ = (tensorRavel ts idx + 1) * m := by ring
    _ ≤ tensorSize ts * m := Nat.mul_le_mul_right _ h

/-- a scalar field (`tensor_shape = ()`) goes straight to the wrapped function -/
theorem multiplex_scalar (func : (ℕ → C) → ℕ → C) (n m : ℕ) (X : ℕ → C) :
    multiplexTensor func [] n m X = func X := rfl

/-- **Transform of a tensor field = the defining sum of every component** (forward and backward,
both NaiveFourierTransform paths, any tensor shape, arbitrary point sets in any dimension): the
executed composition `multiplexTensor ∘ nft…` evaluates, at component `idx` and output sample `k`,
the weighted Fourier sum of component `idx` of the input. -/
theorem tensor_field_transform_eq_sums (ts idx : List ℕ) (hts : ts ≠ []) (hidx : TensorIdx ts idx)
    (n m : ℕ) (us xs : List (ℕ → K)) (w wOut : ℕ → C) (X : ℕ → C) :
    (∀ k < m, multiplexTensor (nftForwardFly E n us xs w) ts n m X (tensorRavel ts idx * m + k)
        = ∑ j ∈ range n, X (tensorRavel ts idx * n + j) * w j * E (-(dotCoords us xs k j))) ∧
    (∀ k < m, multiplexTensor (nftForwardMat E n us xs w) ts n m X (tensorRavel ts idx * m + k)
        = ∑ j ∈ range n, X (tensorRavel ts idx * n + j) * w j * E (-(dotCoords us xs k j))) ∧
    (∀ j < n, multiplexTensor (nftBackwardFly E m us xs wOut) ts m n X (tensorRavel ts idx * n + j)
        = ∑ k ∈ range m, X (tensorRavel ts idx * m + k) * wOut k * E (dotCoords us xs k j)) ∧
    (∀ j < n, multiplexTensor (nftBackwardMat E m us xs wOut) ts m n X (tensorRavel ts idx * n + j)
        = ∑ k ∈ range m, X (tensorRavel ts idx * m + k) * wOut k * E (dotCoords us xs k j)) := by
  refine ⟨fun k hk => ?_, fun k hk => ?_, fun j hj => ?_, fun j hj => ?_⟩
  · rw [multiplexTensor_block _ ts hts n m X _ k hk, nft_forward_fly_eq_sum]
  · rw [multiplexTensor_block _ ts hts n m X _ k hk, nft_forward_mat_eq_sum]
  · rw [multiplexTensor_block _ ts hts m n X _ j hj, nft_backward_fly_eq_sum]
  · rw [multiplexTensor_block _ ts hts m n X _ j hj, nft_backward_mat_eq_sum]

/-- satisfiability: the index `(1, 0, 2)` of a field of tensor shape `(2, 1, 3)` -/
example : ([2, 1, 3] : List ℕ) ≠ [] ∧ TensorIdx [2, 1, 3] [1, 0, 2] ∧ tensorRavel [2, 1, 3] [1, 0, 2] = 5 := by
  refine ⟨by simp, ?_, rfl⟩
  simp [TensorIdx]

/-- **NaiveFourierTransform = MatrixFourierTransform (1-D)** on the same coordinates, both weight
branches of the MFT, both NFT paths. -/
theorem naive_eq_mft_1d (n : ℕ) (x u : ℕ → K) (w : Weights C) (f : ℕ → C) (k : ℕ) :
    nftForwardFly E n [u] [x] w.get f k = mftForward1 E n x u w f k ∧
    nftForwardMat E n [u] [x] w.get f k = mftForward1 E n x u w f k := by
  rw [nft_forward_fly_eq_sum, nft_forward_mat_eq_sum, mft_forward_eq_sum_1d]
  simp only [dotCoords_one, and_self]

/-- The index core on its own (the round-0 spike): pad → ifftshift → DFT → fftshift → crop is the
centred sum, for every `M`-periodic kernel. -/
theorem fft_core_centred {M : ℕ} (c : PChar C M) (N Mo : ℕ) (hM : 0 < M) (hNM : N ≤ M)
    (hMo : Mo ≤ M) (f : ℕ → C) (k : ℕ) (hk : k < Mo) :
    core true N M Mo c.χ f k
      = ∑ j ∈ range N, f j * c.χ (((j : ℤ) - (N / 2 : ℕ)) * ((k : ℤ) - (Mo / 2 : ℕ))) :=
  fft_core_eq_sum c N Mo hM hNM hMo f k hk

/-- **MatrixFourierTransform.forward (2-D) = the 2-D sum**: the two gemm products with the
row-major `(Ny, Nx)` reshape (x fastest), array-weights branch. -/
theorem mft_eq_sum_2d (hE : IsChar E) (Nx Ny Nu Nv : ℕ) (x y u v : ℕ → K) (w f : ℕ → C)
    (iu iv : ℕ) (hiu : iu < Nu) (hiv : iv < Nv) :
    mftForward E Nx Ny Nu Nv x y u v (.array w) f (iv * Nu + iu)
      = ∑ iy ∈ range Ny, ∑ ix ∈ range Nx,
          f (iy * Nx + ix) * w (iy * Nx + ix) * E (-(u iu * x ix + v iv * y iy)) :=
  mft_forward_eq_sum_2d hE Nx Ny Nu Nv x y u v w f hiu hiv

/-- the scalar-weights branch (`alpha = w0` folded into the second gemm) -/
theorem mft_eq_sum_2d_scalar (hE : IsChar E) (Nx Ny Nu Nv : ℕ) (x y u v : ℕ → K) (w0 : C)
    (w f : ℕ → C) (hw : ∀ i, w i = w0) (iu iv : ℕ) (hiu : iu < Nu) (hiv : iv < Nv) :
    mftForward E Nx Ny Nu Nv x y u v (.scalar w0) f (iv * Nu + iu)
      = ∑ iy ∈ range Ny, ∑ ix ∈ range Nx,
          f (iy * Nx + ix) * w (iy * Nx + ix) * E (-(u iu * x ix + v iv * y iy)) :=
  mft_forward_eq_sum_2d_scalar hE Nx Ny Nu Nv x y u v w w0 hw f hiu hiv

/-- **MatrixFourierTransform.backward (2-D)**: the conjugate-transposed products (`trans=2`)
evaluate the backward sum. -/
theorem mft_backward_eq_sum_2d' (hE : IsChar E) (cj : C → C) (hcj : ∀ a, cj (E a) = E (-a))
    (Nx Ny Nu Nv : ℕ) (x y u v : ℕ → K) (wOut F : ℕ → C) (ix iy : ℕ) (hix : ix < Nx) (hiy : iy < Ny) :
    mftBackward E cj Nx Ny Nu Nv x y u v (.array wOut) F (iy * Nx + ix)
      = ∑ iv ∈ range Nv, ∑ iu ∈ range Nu,
          F (iv * Nu + iu) * wOut (iv * Nu + iu) * E (u iu * x ix + v iv * y iy) :=
  mft_backward_eq_sum_2d hE cj hcj Nx Ny Nu Nv x y u v wOut F hix hiy

/-- **Chirp-z transform**: Bluestein's pipeline (chirp multiply, circular convolution of length
`nfft ≥ n+m-1`, slice `[n-1, n+m-1)`, chirp multiply) equals `Σ_i x_i a^{-i} w^{ik}`. -/
theorem czt_eq_sum' {W : K → C} (hW : IsChar W) (h2 : (2 : K) ≠ 0) (n m nfft : ℕ) (hn : 0 < n)
    (hnfft : n + m - 1 ≤ nfft) (ω α : K) (x : ℕ → C) (k : ℕ) (hk : k < m) :
    cztBluestein n m nfft W ω α x k = cztSum n W ω α x k :=
  czt_eq_sum hW h2 n m nfft hn hnfft ω α x k hk

/-- **ZoomFastFourierTransform on one axis** (`w = exp(-iΔδ)`, `a = exp(i u₀ δ)`, shift
`exp(-i u_k x₀)`) evaluates the defining sum on arbitrary regular grids. -/
theorem zoom_axis_eq_sum' (hE : IsChar E) (h2 : (2 : K) ≠ 0) (n m nfft : ℕ) (hn : 0 < n)
    (hnfft : n + m - 1 ≤ nfft) (x0 δ u0 Δ : K) (f : ℕ → C) (k : ℕ) (hk : k < m) :
    zoomAxis n m nfft E x0 δ u0 Δ f k = zoomSum n E x0 δ u0 Δ f k :=
  zoom_axis_eq_sum hE h2 n m nfft hn hnfft x0 δ u0 Δ f k hk

/-- **MatrixFourierTransform.backward (2-D), both weight branches** (`Weights.get` is the scalar or
the array entry). -/
theorem mft_backward_eq_sum_2d_weights (hE : IsChar E) (cj : C → C) (hcj : ∀ a, cj (E a) = E (-a))
    (Nx Ny Nu Nv : ℕ) (x y u v : ℕ → K) (wOut : Weights C) (F : ℕ → C) (ix iy : ℕ) (hix : ix < Nx) :
    mftBackward E cj Nx Ny Nu Nv x y u v wOut F (iy * Nx + ix)
      = ∑ iv ∈ range Nv, ∑ iu ∈ range Nu,
          F (iv * Nu + iu) * wOut.get (iv * Nu + iu) * E (u iu * x ix + v iv * y iy) :=
  mft_backward_eq_sum_2d_get hE cj hcj Nx Ny Nu Nv x y u v wOut F hix

/-- **MatrixFourierTransform, ndim = 1** (`np.dot(M, field*weights)` and
`np.dot(M.conj().T, field*weights_output)`): forward and backward evaluate the 1-D sums, arbitrary
coordinates, both weight branches. -/
theorem mft_eq_sum_1d (cj : C → C) (hcj : ∀ a, cj (E a) = E (-a)) (Nx Nu : ℕ) (x u : ℕ → K)
    (w wOut : Weights C) (f F : ℕ → C) (iu ix : ℕ) :
    mftForward1 E Nx x u w f iu = ∑ jx ∈ range Nx, f jx * w.get jx * E (-(u iu * x jx)) ∧
    mftBackward1 E cj Nu x u wOut F ix = ∑ ju ∈ range Nu, F ju * wOut.get ju * E (u ju * x ix) :=
  ⟨mft_forward_eq_sum_1d Nx x u w f iu, mft_backward_eq_sum_1d cj hcj Nu x u wOut F ix⟩

/-- **ZoomFFT, one axis, whatever branch the code's powers use**: `w**(k²/2)` and `a**(-k)` are
computed from the complex numbers `w = exp(-iΔδ)`, `a = exp(i·u₀δ)`, i.e. with *some*
representatives `ω'`, `α'` with `E ω' = E(-(Δδ))`, `E α' = E(u₀δ)` (numpy: principal values, which
differ from `-(Δδ)` as soon as `|Δδ| > π`).  For every such pair the Bluestein pipeline times the
shift is the defining sum — `zoomChirp` (driver op `zoomchirp`) gives the canonical pair. -/
theorem zoom_eq_sum_any_branch (hE : IsChar E) (h2 : (2 : K) ≠ 0) (n m nfft : ℕ)
    (hn : 0 < n) (hnfft : n + m - 1 ≤ nfft) (x0 δ u0 Δ ω' α' : K)
    (hω : E ω' = E (zoomChirp δ u0 Δ).1) (hα : E α' = E (zoomChirp δ u0 Δ).2)
    (f : ℕ → C) (k : ℕ) (hk : k < m) :
    cztBluestein n m nfft E ω' α' f k * E (-((u0 + (k : K) * Δ) * x0))
      = zoomSum n E x0 δ u0 Δ f k :=
  zoom_eq_sum_branch hE h2 n m nfft hn hnfft x0 δ u0 Δ ω' α' hω hα f k hk

/-- **ZoomFastFourierTransform.forward on `n` axes, including `field * input_weights`**: the
axis loop (`czt(f)·shift` on every axis, Model/ZoomN.lean) evaluates the `n`-D defining sum
`Σ_js f(js)·w(js)·exp(-i·Σ_i (u0_i + k_i Δ_i)(x0_i + j_i δ_i))`, for every list of axes, all
`nfft_i ≥ n_i + m_i - 1`, per-point weights, every in-range output index list. -/
theorem zoom_forward_nd_eq_sum (hE : IsChar E) (h2 : (2 : K) ≠ 0) (axs : List (ZAx K))
    (haxs : ∀ a ∈ axs, 0 < a.n ∧ a.n + a.m - 1 ≤ a.nfft)
    (w f : List ℕ → C) (ks : List ℕ) (hks : List.Forall₂ (fun k a => k < a.m) ks axs) :
    zoomForwardN E axs w f ks = zoomSumForwardN E axs w f ks :=
  zoomN_eq_sumN hE h2 axs haxs w f ks hks

/-- **ZoomFastFourierTransform.backward on `n` axes, including `field * output_weights`**
(`wOut = output_grid.weights/(2π)^n`). -/
theorem zoom_backward_nd_eq_sum (hE : IsChar E) (h2 : (2 : K) ≠ 0) (axs : List (ZAx K))
    (haxs : ∀ a ∈ axs, 0 < a.m ∧ a.m + a.n - 1 ≤ a.nfftInv)
    (wOut F : List ℕ → C) (js : List ℕ) (hjs : List.Forall₂ (fun j a => j < a.n) js axs) :
    zoomBackwardN E axs wOut F js = zoomSumBackwardN E axs wOut F js :=
  zoomN_backward_eq_sumN hE h2 axs haxs wOut F js hjs

/-- the `n`-axis forward loop run with arbitrary admissible branches `(ω'_i, α'_i)` per axis (the
loop as numpy executes it) evaluates the same `n`-D sum -/
theorem zoom_forward_nd_any_branch_eq_sum (hE : IsChar E) (h2 : (2 : K) ≠ 0)
    (axs : List (ZAx K × K × K))
    (haxs : ∀ p ∈ axs, 0 < p.1.n ∧ p.1.n + p.1.m - 1 ≤ p.1.nfft ∧
      E p.2.1 = E (-(p.1.Δ * p.1.δ)) ∧ E p.2.2 = E (p.1.u0 * p.1.δ))
    (w f : List ℕ → C) (ks : List ℕ) (hks : List.Forall₂ (fun k p => k < p.1.m) ks axs) :
    zoomLoopBranchN E axs (fun js => f js * w js) ks
      = zoomSumForwardN E (axs.map Prod.fst) w f ks :=
  zoomN_branch_eq_sumN hE h2 axs haxs w f ks hks

/-- **MatrixFourierTransform (2-D) = ZoomFastFourierTransform (2 axes)** on regular separated
grids, both weight branches of the MFT (flat C-ordered indices `iy·Nx+ix`, `iv·Nu+iu`). -/
theorem mft_eq_zoom_2d' (hE : IsChar E) (h2 : (2 : K) ≠ 0) (ay ax : ZAx K)
    (hy : 0 < ay.n ∧ ay.n + ay.m - 1 ≤ ay.nfft) (hx : 0 < ax.n ∧ ax.n + ax.m - 1 ≤ ax.nfft)
    (w : Weights C) (f : ℕ → C) (iv iu : ℕ) (hiv : iv < ay.m) (hiu : iu < ax.m) :
    mftForward E ax.n ay.n ax.m ay.m (fun i => ax.x0 + (i : K) * ax.δ) (fun i => ay.x0 + (i : K) * ay.δ)
        (fun k => ax.u0 + (k : K) * ax.Δ) (fun k => ay.u0 + (k : K) * ay.Δ) w f (iv * ax.m + iu)
      = zoomForwardN E [ay, ax] (flat2 ax.n w.get) (flat2 ax.n f) [iv, iu] :=
  mft_eq_zoom_2d hE h2 ay ax hy hx w f iv iu hiv hiu

end abstract

/-- **ZoomFFT axis bookkeeping (repaired code)**: for every tensor rank and every number of
dimensions, iteration `i` transforms the axis of `dims[i]` and the layout is restored. -/
theorem zoom_axes_ok' (r ndim : ℕ) :
    zoomLoop r ndim = ((List.range ndim).map Ax.g, initLayout r ndim) :=
  zoom_axes_ok r ndim

/-! ### `make_fourier_transform`: method selection (`Model/FftSelect.lean`)

`choose`/`makeFT` follow the decision logic literally (the planner's float comparison is an oracle
input `fftCheaper`; `numFft` is the numeric part of `get_fft_parameters`, modelled exactly per axis
by `getFftParameters`).  `detectFix` is the detection after repair D63 (an FFT grid must be
Cartesian and have the input's number of axes), `detectLit` the code as written. -/

/-- **Preconditions**: whichever detection, whichever way the planner decides — if a constructor
is reached (and an explicit output grid has the input's number of axes) its checks pass:
FFT ⇐ input regular Cartesian; MFT ⇐ both separated Cartesian, 1 or 2 axes; NFT ⇐ equal axes. -/
theorem selection_pre' (detect : GridDesc → GridDesc → Bool → Bool) (i : GridDesc)
    (o : Option OutReq) (fftCheaper : Bool) (ch : Choice)
    (hnd : ∀ r, o = some r → r.grid.ndim = i.ndim)
    (h : choose detect i o fftCheaper = some ch) : ctorPre i o ch :=
  selection_pre detect i o fftCheaper ch hnd h

/-- **`get_fft_parameters` ∘ `make_fft_grid` round trip**, one axis, exact arithmetic: the
FastFourierTransform built from the reconstructed `(q, fov, shift)` reports exactly the requested
axis (same `Mo`, spacing, zero), its value checks pass and its sizes are grid-consistent. -/
theorem fft_grid_roundtrip' (a : InAxis) (o : OutAxis) (p : FftParams) (z : Rat)
    (h : getFftParameters a o = some p) :
    AxisReproduced a z o p ∧ FftValuePre (p.toAxisIn a z) ∧
      ((plan (p.toAxisIn a z)).M : Rat) = p.q * (a.N : Rat) ∧
      FftConsistent a.N (plan (p.toAxisIn a z)).M (plan (p.toAxisIn a z)).Mo a.delta
        (plan (p.toAxisIn a z)).dT :=
  fft_grid_roundtrip a o p z h

/-- **`selection_sound`** (detection repaired, D63): whenever `make_fourier_transform` returns an
object, the chosen class's preconditions hold, the object's output grid is the requested grid, and
where the grid was replaced by reconstructed FFT parameters every axis is reproduced exactly. -/
theorem selection_sound' (i : GridDesc) (o : Option OutReq) (fftCheaper : Bool) (ch : Choice)
    (ins : List InAxis) (outs : List OutAxis)
    (hnum : ∀ r, o = some r → r.numFft = numFftAxes ins outs)
    (h : makeFT detectFix i o fftCheaper = .ok ch) :
    ctorPre i o ch ∧ ctorGrid i o ch = requestedDesc i o ∧
      (∀ r, o = some r → ch.via = .params → AxesReproduced ins outs) :=
  selection_sound_fix i o fftCheaper ch ins outs hnum h

/-- Non-vacuity of the round trip: `N = 87`, `M = Mo = 218`. -/
example : getFftParameters ⟨87, 1 / 4⟩ ⟨218, 2 / 109, 3 / 8, 0⟩
    = some ⟨218 / 87, 1, 3 / 8 + 2 / 109 * 109, 0⟩ := by decide +kernel

/-! ### the persistent internal array (`Model/FftState.lean`) -/

/-- **History independence**: `forward`/`backward` fully overwrite the object's internal array
before reading it (`internal_array[:] = field`, or `[:] = 0` followed by the cut-out assignment),
so for every previous content `buf` the FFT core equals the stateless model the theorems above
are about — a transform object may be re-used in any call sequence. -/
theorem fft_core_history_independent {C : Type} [CommRing C] (b : Bool) (N M Mo : ℕ) (hM : 0 < M)
    (hNM : N ≤ M) (ker : ℤ → C) (buf f : ℕ → C) (k : ℕ) :
    coreState b N M Mo ker buf f k = core b N M Mo ker f k :=
  coreState_eq_core b N M Mo hM hNM ker buf f k

/-- skipping the clearing (the seeded "padding is clean" flags) makes the result depend on the
previous call -/
theorem fft_core_no_clear_counterexample :
    coreStateNoClear false 1 2 2 (fun _ => (1 : ℤ)) (fun _ => 1) (fun _ => 0) 0
      ≠ coreStateNoClear false 1 2 2 (fun _ => (1 : ℤ)) (fun _ => 0) (fun _ => 0) 0 :=
  coreStateNoClear_history_dependent

/-! ### several live objects, interleaved histories (`Model/FftMulti.lean`) -/

/-- **Independence from the history of the whole population**: any number of `FastFourierTransform`
objects alive at the same time (any sizes, equal or different padded sizes `M`, both
`emulate_fftshifts` settings), any initial contents of their internal arrays, any interleaving of
`forward`/`backward` calls on them: every call returns the value of the stateless model on a fresh
object (`callFresh` = `core`, the definition the sum theorems above are about).  `runOwn` is executed by the
driver op `C01 multi` and compared with a real population of objects (family `tie-multi`). -/
theorem multi_object_history_independent {C : Type} [CommRing C] (cfg : ℕ → ObjCfg)
    (h : ∀ i, 0 < (cfg i).M ∧ (cfg i).N ≤ (cfg i).M ∧ (cfg i).Mo ≤ (cfg i).M)
    (ker : Bool → ℕ → ℤ → C) (bufs : Bufs C) (cs : List (MCall C)) :
    runOwn cfg ker bufs cs = cs.map (callFresh cfg ker) :=
  runOwn_eq_map cfg h ker cs bufs

/-- the hypothesis is satisfiable (two objects sharing the padded size 4: `N = 2, q = 2` next to `N = 4, q = 1`) -/
example : ∀ i, 0 < ((fun i => if i = 0 then (⟨false, 2, 4, 4⟩ : ObjCfg) else ⟨true, 4, 4, 3⟩) i).M ∧
    ((fun i => if i = 0 then (⟨false, 2, 4, 4⟩ : ObjCfg) else ⟨true, 4, 4, 3⟩) i).N ≤
      ((fun i => if i = 0 then (⟨false, 2, 4, 4⟩ : ObjCfg) else ⟨true, 4, 4, 3⟩) i).M ∧
    ((fun i => if i = 0 then (⟨false, 2, 4, 4⟩ : ObjCfg) else ⟨true, 4, 4, 3⟩) i).Mo ≤
      ((fun i => if i = 0 then (⟨false, 2, 4, 4⟩ : ObjCfg) else ⟨true, 4, 4, 3⟩) i).M := by
  intro i; by_cases hi : i = 0 <;> simp [hi]

/-- **Calls on other objects are irrelevant**: the results an object `i` returns inside an interleaved
history are the results it returns when only its own calls are made (from any other array contents). -/
theorem multi_object_other_calls_irrelevant {C : Type} [CommRing C] (cfg : ℕ → ObjCfg)
    (h : ∀ i, 0 < (cfg i).M ∧ (cfg i).N ≤ (cfg i).M ∧ (cfg i).Mo ≤ (cfg i).M)
    (ker : Bool → ℕ → ℤ → C) (bufs bufs' : Bufs C) (cs : List (MCall C)) (i : ℕ) :
    ((cs.zip (runOwn cfg ker bufs cs)).filter (fun p => decide (p.1.obj = i))).map Prod.snd
      = runOwn cfg ker bufs' (cs.filter (fun c => decide (c.obj = i))) := by
  rw [runOwn_eq_map cfg h, runOwn_eq_map cfg h]
  induction cs with
  | nil => rfl
  | cons c cs ih =>
    by_cases hc : c.obj = i
    · simp only [List.map_cons, List.zip_cons_cons, List.filter_cons, hc, decide_true, if_true, ih]
    · simp only [List.map_cons, List.zip_cons_cons, List.filter_cons, hc, decide_false]
      exact ih

/-- a call rewrites only the called object's array -/
theorem multi_object_buffers_private {C : Type} [CommRing C] (cfg : ℕ → ObjCfg) (bufs : Bufs C)
    (c : MCall C) (i : ℕ) (hi : i ≠ c.obj) : callBufs cfg bufs c i = bufs i :=
  callBufs_other cfg bufs c i hi

/-- Work arrays taken from a pool keyed by the padded size, together with a per-object "my padding is still zero"
flag (the seeded class): with two live objects of the same padded size, `A.forward(0)`, `B.backward(1)`,
`A.forward(0)` makes `A` return `B`'s leftovers (`1` instead of the stateless value `0`). -/
theorem Bad.sharedPool :
    ((runPool (fun _ => ⟨false, 1, 2, 2⟩) (fun _ _ _ => (1 : ℤ)) ⟨fun _ _ => 0, fun _ => false⟩
        [⟨0, false, fun _ => 0⟩, ⟨1, true, fun _ => 1⟩, ⟨0, false, fun _ => 0⟩]).map (fun r => r 0))
      ≠ ([⟨0, false, fun _ => 0⟩, ⟨1, true, fun _ => 1⟩, ⟨0, false, fun _ => (0 : ℤ)⟩].map
          (callFresh (fun _ => ⟨false, 1, 2, 2⟩) (fun _ _ _ => (1 : ℤ)))).map (fun r => r 0) := by
  rw [runPool_leftovers]; decide

/-- the same counterexample on the two executed front ends (`C01 multipool` vs `C01 multi`): two objects `N = 1`,
`M = Mo = 2`, history `A.forward, B.backward, A.forward` on unit impulses — the pooled model and the per-object model
disagree, so the correspondence with the real population (family `tie-multi`) tells them apart -/
theorem Bad.sharedPool_executed :
    multiPoolImpulse [⟨false, 1, 2, 2⟩, ⟨false, 1, 2, 2⟩] [(0, false, 0), (1, true, 0), (0, false, 0)] 0
      ≠ multiImpulse [⟨false, 1, 2, 2⟩, ⟨false, 1, 2, 2⟩] [(0, false, 0), (1, true, 0), (0, false, 0)] 0 := by
  decide +kernel

/-! ### the float decisions of `__init__` (`Model/FftDecide.lean`; repaired by D65, D66) -/

/-- the phase ramp of the output shift is skipped exactly when the shift is zero on every axis — the only
case in which the multiplication is the identity (`shiftNeeded` is run by `C01 decide shift`) -/
theorem shift_multiplier_skipped_iff_zero (s : List ℚ) : shiftNeeded s = false ↔ ∀ x ∈ s, x = 0 :=
  shiftNeeded_false_iff s

/-- the decision does not depend on the unit of the coordinates -/
theorem shift_decision_scale_free (c : ℚ) (hc : c ≠ 0) (s : List ℚ) :
    shiftNeeded (s.map (fun x => c * x)) = shiftNeeded s :=
  shiftNeeded_scale c hc s

/-- the zero-padding / cropping cut-out is omitted exactly when the two shapes are equal -/
theorem cutout_omitted_iff_same_shape (M N : List ℕ) : cutoutNeeded M N = false ↔ M = N :=
  cutoutNeeded_false_iff M N

/-- D65: `np.allclose(shift, 0)` drops a quarter-pixel shift once the unit makes it smaller than `1e-8`,
although the same shift in another unit (scaled by `2^30`) is applied -/
theorem Bad.shiftDroppedOld :
    shiftNeededOld [1 / 2 ^ 30] = false ∧ shiftNeededOld ([1 / 2 ^ 30].map (fun x => 2 ^ 30 * x)) = true ∧
      shiftNeeded [1 / 2 ^ 30] = true := by
  decide +kernel

/-- D66: `np.allclose` on shapes: an axis of 100001 samples padded to 100002 is taken to need no cut-out -/
theorem Bad.cutoutDroppedOld :
    cutoutNeededOld [100002] [100001] = false ∧ cutoutNeeded [100002] [100001] = true := by
  decide +kernel

/-! ### MatrixFourierTransform: `precompute_matrices` / `allocate_intermediate` (`Model/MftState.lean`) -/

/-- **The result of an MFT call does not depend on the call history or on the switches**: for every
setting of `precompute_matrices`, `allocate_intermediate`, one or two axes, every history of calls
(precisions `ds`; a tensor field contributes one call per component) on one object starting from
`__init__`, at the `k`-th call the stored matrices are exactly the ones a fresh object builds for the
precision of this call, and on two axes the intermediate buffer has this precision — so the products
taken from the stored state (`mftResult`, for any `run`) are `run (build d) d f`, the value on a
fresh object.  `mftHistory` is run by the driver op `C01 mftstate` and compared, call by call, with
the attributes of the real object (family `tie-mftstate`). -/
theorem mft_call_history_independent {α β γ : Type} (c : MftCfg) (build : Prec → α)
    (run : α → Prec → β → γ) (ds : List Prec) (k : ℕ) (hk : k < ds.length) (f : β) :
    ∃ r, (mftHistory c build MftSt.init ds)[k]? = some r ∧
      mftResult c run r.1 ds[k] f = some (run (build ds[k]) ds[k] f) := by
  obtain ⟨r, hr, hm, hi⟩ := mftHistory_at_use c build ds MftSt.init (MftSt.init_good build) k hk
  refine ⟨r, hr, ?_⟩
  unfold mftResult
  rw [hm]
  simp only [true_and]
  rw [if_pos hi]

/-! ### Concrete instance: `Complex.exp` -/

/-- With `T = exp(2πi·)`, `E = exp(i·)`: the kernel is `exp(-i·u_k·x_j)`, `u_k = 2π·a_k + s`. -/
theorem fast_forward_eq_fourier_sum (g : Cfg ℝ ℂ) (hN : g.N ≤ g.M) (hMo : g.Mo ≤ g.M)
    (hcons : g.dT * (g.M : ℝ) * g.δ = 1) (f : ℕ → ℂ) (k : ℕ) (hk : k < g.Mo) :
    fastForward expT expE g f k
      = ∑ j ∈ range g.N, f j * g.w *
          Complex.exp (-(Complex.I * (((2 * Real.pi * g.a k + g.s : ℝ) : ℂ) * ((g.x j : ℝ) : ℂ)))) := by
  rw [fast_forward_eq_sum expT_isChar expE_isChar expT_period g hN hMo hcons f k hk]
  apply Finset.sum_congr rfl
  intro j _
  congr 1
  unfold expT expE
  rw [← Complex.exp_add]
  congr 1
  push_cast
  ring

/-- the same for `backward`, weight `Δ/(2π)` -/
theorem fast_backward_eq_fourier_sum (g : Cfg ℝ ℂ) (hN : g.N ≤ g.M) (hMo : g.Mo ≤ g.M)
    (hcons : g.dT * (g.M : ℝ) * g.δ = 1) (wOut : ℂ) (hw : wOut * (g.M : ℂ) * g.w = 1)
    (F : ℕ → ℂ) (j : ℕ) (hj : j < g.N) :
    fastBackward expT expE g F j
      = ∑ k ∈ range g.Mo, F k * wOut *
          Complex.exp (Complex.I * (((2 * Real.pi * g.a k + g.s : ℝ) : ℂ) * ((g.x j : ℝ) : ℂ))) := by
  rw [fast_backward_eq_sum expT_isChar expE_isChar expT_period g hN hMo hcons wOut hw F j hj]
  apply Finset.sum_congr rfl
  intro k _
  congr 1
  unfold expT expE
  rw [← Complex.exp_add]
  congr 1
  push_cast
  ring

/-! ### "Consequently all implementations agree" -/

/-- **FastFourierTransform = MatrixFourierTransform = ZoomFastFourierTransform = naive sum**
(`Complex.exp`, one axis): on a consistent FFT axis, with output coordinates `u_k = 2π·a_k + s`,
for every in-range output sample and every `nfft ≥ N + Mo - 1`. -/
theorem implementations_agree' (g : Cfg ℝ ℂ) (hN0 : 0 < g.N) (hN : g.N ≤ g.M) (hMo : g.Mo ≤ g.M)
    (hcons : g.dT * (g.M : ℝ) * g.δ = 1) (nfft : ℕ) (hnfft : g.N + g.Mo - 1 ≤ nfft)
    (f : ℕ → ℂ) (k : ℕ) (hk : k < g.Mo) :
    fastForward expT expE g f k
        = mftForward1 expE g.N g.x (fun k => 2 * Real.pi * g.a k + g.s) (.scalar g.w) f k
    ∧ fastForward expT expE g f k
        = zoomAxis g.N g.Mo nfft expE g.z g.δ (2 * Real.pi * g.a 0 + g.s) (2 * Real.pi * g.dT)
            (fun j => f j * g.w) k
    ∧ fastForward expT expE g f k
        = ∑ j ∈ range g.N, f j * g.w *
            Complex.exp (-(Complex.I * (((2 * Real.pi * g.a k + g.s : ℝ) : ℂ) * ((g.x j : ℝ) : ℂ)))) :=
  implementations_agree g hN0 hN hMo hcons nfft hnfft f k hk

/-- **… on `n` axes**: the iterated FFT pipeline = the `n`-axis zoom loop on the same grids (fed
with `field * weights`) = the `n`-D defining sum. -/
theorem implementations_agree_nd' (nf : Cfg ℝ ℂ → ℕ) (gs : List (Cfg ℝ ℂ))
    (hgs : ∀ g ∈ gs, 0 < g.N ∧ g.N ≤ g.M ∧ g.Mo ≤ g.M ∧ g.dT * (g.M : ℝ) * g.δ = 1 ∧
      g.N + g.Mo - 1 ≤ nf g)
    (f : List ℕ → ℂ) (ks : List ℕ) (hks : List.Forall₂ (fun k g => k < g.Mo) ks gs) :
    fastForwardN expT expE gs f ks
        = zoomForwardN expE (gs.map (Cfg.toZAx (2 * Real.pi) nf)) (fun _ => weightN gs) f ks
    ∧ fastForwardN expT expE gs f ks = sumForwardN expT expE gs f ks :=
  implementations_agree_nd nf gs hgs f ks hks

/-- **ZoomFFT, one axis, `Complex.exp`, every branch** `ω' = -Δδ + 2π·nω`, `α' = u₀δ + 2π·nα`
(in particular numpy's principal values). -/
theorem zoom_eq_fourier_sum_any_branch (n m nfft : ℕ) (hn : 0 < n) (hnfft : n + m - 1 ≤ nfft)
    (x0 δ u0 Δ : ℝ) (nω nα : ℤ) (f : ℕ → ℂ) (k : ℕ) (hk : k < m) :
    cztBluestein n m nfft expE (-(Δ * δ) + 2 * Real.pi * (nω : ℝ)) (u0 * δ + 2 * Real.pi * (nα : ℝ))
        f k * expE (-((u0 + (k : ℝ) * Δ) * x0))
      = ∑ i ∈ range n, f i *
          Complex.exp (-(Complex.I * (((u0 + (k : ℝ) * Δ : ℝ) : ℂ) * ((x0 + (i : ℝ) * δ : ℝ) : ℂ)))) :=
  zoom_eq_sum_branch_exp n m nfft hn hnfft x0 δ u0 Δ nω nα f k hk

/-- satisfiability of the hypothesis bundles of the zoom theorems: two axes
`(n, m, nfft, nfftInv) = (2, 3, 4, 4)`, `(3, 2, 5, 4)`; and a non-trivial branch
(`Δδ = 4 > π`, representative `-4 + 2π`) -/
example : ∃ (axs : List (ZAx ℝ)) (ks js : List ℕ),
    (∀ a ∈ axs, 0 < a.n ∧ a.n + a.m - 1 ≤ a.nfft) ∧
    (∀ a ∈ axs, 0 < a.m ∧ a.m + a.n - 1 ≤ a.nfftInv) ∧
    List.Forall₂ (fun k a => k < a.m) ks axs ∧ List.Forall₂ (fun j a => j < a.n) js axs :=
  ⟨[⟨2, 3, 4, 4, 0, 1, 0, 1⟩, ⟨3, 2, 5, 4, -1, 1 / 2, 0, 1⟩], [2, 1], [1, 2],
    by simp, by simp,
    List.Forall₂.cons (by norm_num) (List.Forall₂.cons (by norm_num) List.Forall₂.nil),
    List.Forall₂.cons (by norm_num) (List.Forall₂.cons (by norm_num) List.Forall₂.nil)⟩

example : ∃ ω' : ℝ, ω' ≠ (zoomChirp (1 : ℝ) 0 4).1 ∧ expE ω' = expE (zoomChirp (1 : ℝ) 0 4).1 :=
  ⟨-(4 * 1) + 2 * Real.pi * ((1 : ℤ) : ℝ), by intro h; simp [zoomChirp] at h,
    expE_add_two_pi_int _ 1⟩

/-- satisfiability of the hypothesis bundle of `implementations_agree'` / `implementations_agree_nd'`
(`N = 2, M = 4, Mo = 3, δ = dT = 1/2, nfft = 4`) -/
example : ∃ (g : Cfg ℝ ℂ) (nfft k : ℕ), 0 < g.N ∧ g.N ≤ g.M ∧ g.Mo ≤ g.M ∧
    g.dT * (g.M : ℝ) * g.δ = 1 ∧ g.N + g.Mo - 1 ≤ nfft ∧ k < g.Mo :=
  ⟨{ N := 2, M := 4, Mo := 3, δ := 1 / 2, z := 0, dT := 1 / 2, s := 0, w := 1, emu := false },
    4, 2, by norm_num, by norm_num, by norm_num, by norm_num, by norm_num, by norm_num⟩

/-! ### "The selected transform evaluates the sum": `make_fourier_transform` composed with the classes -/

/-- what "an object of class `m` built for an input grid `i` evaluates the defining sum" means, at the
generality of each class (`Complex.exp`): the FFT pipeline on any number of consistent axes, the MFT on
one or two axes with arbitrary separated coordinates (both weight branches), the naive transform on
arbitrary point sets in any dimension (both code paths) -/
def EvaluatesSum (i : GridDesc) : Method → Prop
  | .fft => ∀ (gs : List (Cfg ℝ ℂ)),
      (∀ g ∈ gs, g.N ≤ g.M ∧ g.Mo ≤ g.M ∧ g.dT * (g.M : ℝ) * g.δ = 1) →
      ∀ (f : List ℕ → ℂ) (ks : List ℕ), List.Forall₂ (fun k g => k < g.Mo) ks gs →
        fastForwardN expT expE gs f ks = sumForwardN expT expE gs f ks
  | .mft => (i.ndim = 1 ∨ i.ndim = 2) ∧
      (∀ (Nx Nu : ℕ) (x u : ℕ → ℝ) (w : Weights ℂ) (f : ℕ → ℂ) (iu : ℕ),
        mftForward1 expE Nx x u w f iu = ∑ jx ∈ range Nx, f jx * w.get jx * expE (-(u iu * x jx))) ∧
      (∀ (Nx Ny Nu Nv : ℕ) (x y u v : ℕ → ℝ) (w : Weights ℂ) (wa : ℕ → ℂ) (f : ℕ → ℂ) (iu iv : ℕ),
        (∀ p, w.get p = wa p) → iu < Nu → iv < Nv →
        mftForward expE Nx Ny Nu Nv x y u v w f (iv * Nu + iu)
          = ∑ iy ∈ range Ny, ∑ ix ∈ range Nx,
              f (iy * Nx + ix) * wa (iy * Nx + ix) * expE (-(u iu * x ix + v iv * y iy)))
  | .naive => ∀ (n : ℕ) (us xs : List (ℕ → ℝ)) (w f : ℕ → ℂ) (k : ℕ),
      nftForwardFly expE n us xs w f k = ∑ j ∈ range n, f j * w j * expE (-(dotCoords us xs k j)) ∧
      nftForwardMat expE n us xs w f k = ∑ j ∈ range n, f j * w j * expE (-(dotCoords us xs k j))

/-- **Whatever branch `make_fourier_transform` takes, the object it returns evaluates the defining
sum on the requested grid**: for every input-grid descriptor, every request (parameters or an
explicit output grid), every outcome of the planner's comparison — if `makeFT` (detection repaired)
returns a choice `ch`, then (1) the chosen constructor's preconditions hold, (2) the object's output
grid is the requested grid, and when an explicit grid was replaced by reconstructed FFT parameters
every axis of it is reproduced exactly (so the sum is taken over the requested points), and (3) the
class `ch.method` evaluates the defining sum at its full generality (`EvaluatesSum`; for the MFT the
selection guarantees the one or two axes its model covers).  Composes `selection_sound'` with
`fast_forward_nd_eq_sum`, `mft_eq_sum_1d`, `mft_eq_sum_2d(_scalar)`, `naive_forward_eq_sum`. -/
theorem selected_transform_evaluates_sum (i : GridDesc) (o : Option OutReq) (fftCheaper : Bool)
    (ch : Choice) (ins : List InAxis) (outs : List OutAxis)
    (hnum : ∀ r, o = some r → r.numFft = numFftAxes ins outs)
    (h : makeFT detectFix i o fftCheaper = .ok ch) :
    ctorPre i o ch ∧ ctorGrid i o ch = requestedDesc i o ∧
      (∀ r, o = some r → ch.via = .params → AxesReproduced ins outs) ∧
      EvaluatesSum i ch.method := by
  obtain ⟨hpre, hgrid, hax⟩ := selection_sound_fix i o fftCheaper ch ins outs hnum h
  refine ⟨hpre, hgrid, hax, ?_⟩
  cases hm : ch.method with
  | fft =>
    intro gs hgs f ks hks
    exact fastForwardN_eq_sumForwardN expT_isChar expE_isChar expT_period gs hgs f ks hks
  | mft =>
    have hp : mftPre i (ctorGrid i o ch) := by
      have := hpre
      unfold ctorPre at this
      rw [hm] at this
      exact this
    refine ⟨hp.2.2.2.2.1, ?_, ?_⟩
    · intro Nx Nu x u w f iu
      exact mft_forward_eq_sum_1d Nx x u w f iu
    · intro Nx Ny Nu Nv x y u v w wa f iu iv hw hiu hiv
      cases w with
      | scalar w0 =>
        exact mft_forward_eq_sum_2d_scalar expE_isChar Nx Ny Nu Nv x y u v wa w0
          (fun p => (hw p).symm) f hiu hiv
      | array w' =>
        have hwa : w' = wa := funext hw
        subst hwa
        exact mft_forward_eq_sum_2d expE_isChar Nx Ny Nu Nv x y u v w' f hiu hiv
  | naive =>
    intro n us xs w f k
    exact ⟨nft_forward_fly_eq_sum expE n us xs w f k, nft_forward_mat_eq_sum expE n us xs w f k⟩

/-- non-vacuity: each of the three classes is selected for some request -/
example : makeFT detectFix ⟨.regular, true, 3⟩ none true = .ok ⟨.fft, .params⟩ ∧
    makeFT detectFix ⟨.regular, true, 2⟩ none false = .ok ⟨.mft, .params⟩ ∧
    makeFT detectFix ⟨.separated, true, 2⟩ (some ⟨⟨.separated, true, 2⟩, false⟩) true = .ok ⟨.mft, .grid⟩ ∧
    makeFT detectFix ⟨.unstructured, true, 3⟩ (some ⟨⟨.unstructured, true, 3⟩, false⟩) true = .ok ⟨.naive, .grid⟩ := by
  decide

/-! ### Hypothesis-free: the configuration comes out of `plan`

`plan` (`Model/FftGrid.lean`) is what the driver op `C01 plan` runs and what the harness compares
with the sizes, cut-outs, output spacing and zero the real `FastFourierTransform` reports.  For every
request the constructor accepts the hypotheses of the pipeline theorems hold. -/

/-- **`plan` is grid-consistent** for every request `FastFourierTransform.__init__` accepts
(`0 < N`, `δ ≠ 0`, `1 ≤ q`, `fov ≤ 1`; `q < 1` and `fov > 1` raise in the code, and
`plan_inconsistent_q_lt_one` / `plan_inconsistent_fov_gt_one` show that they are needed). -/
theorem plan_consistent' (a : AxisIn) (hN : 0 < a.N) (hδ : a.delta ≠ 0) (hq : 1 ≤ a.q)
    (hf : a.fov ≤ 1) :
    FftConsistent a.N (plan a).M (plan a).Mo a.delta (plan a).dT :=
  plan_consistent a hN hδ hq hf

/-- satisfiability of the side conditions (the D4 request `N = 87, q = 5/2`) -/
example : ∃ a : AxisIn, 0 < a.N ∧ a.delta ≠ 0 ∧ 1 ≤ a.q ∧ a.fov ≤ 1 :=
  ⟨⟨87, 1 / 4, -3, 5 / 2, 1, 0⟩, by decide +kernel, by decide +kernel, by decide +kernel, by decide +kernel⟩

/-- **`forward` of the FastFourierTransform that `plan` describes = the defining sum**, with no
hypothesis on sizes or spacings: any accepted request `(N, δ, z, q, fov, s)`, any weight, both
shift settings.  `g` is the pipeline configuration built from the plan (the reals that the plan's
rationals denote). -/
theorem fast_forward_of_plan (a : AxisIn) (hN : 0 < a.N) (hδ : a.delta ≠ 0) (hq : 1 ≤ a.q)
    (hf : a.fov ≤ 1) (w : ℂ) (emu : Bool) (f : ℕ → ℂ) (k : ℕ) (hk : k < (plan a).Mo) :
    let g : Cfg ℝ ℂ := Cfg.ofPlanCast (Rat.castHom ℝ) (plan a) w emu
    fastForward expT expE g f k
      = ∑ j ∈ range a.N, f j * w *
          Complex.exp (-(Complex.I * (((2 * Real.pi * g.a k + g.s : ℝ) : ℂ) * ((g.x j : ℝ) : ℂ)))) := by
  intro g
  obtain ⟨h1, h2, h3⟩ := Cfg.ofPlanCast_cons (C := ℂ) (Rat.castHom ℝ) a w emu hN hδ hq hf
  exact fast_forward_eq_fourier_sum g h1 h2 h3 f k hk

/-- **`backward` of the FastFourierTransform that `plan` describes = the backward sum** with the
weights of the two grids as the code has them on one axis: input weight `δ`, output weight
`Δ/(2π) = dT`. -/
theorem fast_backward_of_plan (a : AxisIn) (hN : 0 < a.N) (hδ : a.delta ≠ 0) (hq : 1 ≤ a.q)
    (hf : a.fov ≤ 1) (emu : Bool) (F : ℕ → ℂ) (j : ℕ) (hj : j < a.N) :
    let g : Cfg ℝ ℂ := Cfg.ofPlanCast (Rat.castHom ℝ) (plan a) (((a.delta : ℚ) : ℝ) : ℂ) emu
    fastBackward expT expE g F j
      = ∑ k ∈ range (plan a).Mo, F k * ((((plan a).dT : ℚ) : ℝ) : ℂ) *
          Complex.exp (Complex.I * (((2 * Real.pi * g.a k + g.s : ℝ) : ℂ) * ((g.x j : ℝ) : ℂ))) := by
  intro g
  obtain ⟨h1, h2, h3⟩ := Cfg.ofPlanCast_cons (C := ℂ) (Rat.castHom ℝ) a
    ((((a.delta : ℚ) : ℝ) : ℂ)) emu hN hδ hq hf
  have hw : ((((plan a).dT : ℚ) : ℝ) : ℂ) * (g.M : ℂ) * g.w = 1 := by
    have h3' : (((plan a).dT : ℚ) : ℝ) * ((plan a).M : ℝ) * ((a.delta : ℚ) : ℝ) = 1 := h3
    have : ((((plan a).dT : ℚ) : ℝ) : ℂ) * (((plan a).M : ℕ) : ℂ) * ((((a.delta : ℚ) : ℝ)) : ℂ) = 1 := by
      exact_mod_cast h3'
    exact this
  exact fast_backward_eq_fourier_sum g h1 h2 h3 _ hw F j hj

/-! ### `Old.*` — statements about code that no longer exists in /repo

Documentation of the defects D4, D5, D63 (all repaired in the tree): counterexamples for the
`…Old` / `detectLit` definitions and the soundness of the unrepaired selection on its restricted
domain.  They are **not evidence about the working tree**; none of the theorems above uses them.
(`zoomLoopOld`, `detectLit` are kept in the model only for these statements.) -/

/-- D5: the old loop (`moveaxis(f, -i, 0)` twice) leaves a tensor field on a 2-D grid permuted. -/
theorem Old.zoom_axes_counterexample_tensor :
    zoomLoopOld 1 2 ≠ ((List.range 2).map Ax.g, initLayout 1 2) := by decide

/-- D5: … and a scalar field on a 3-D grid. -/
theorem Old.zoom_axes_counterexample_3d :
    zoomLoopOld 0 3 ≠ ((List.range 3).map Ax.g, initLayout 0 3) := by decide

/-- D4: the sizes the unrepaired code reported for `N = 87, q = 2.5` (FFT taken at 217 samples,
spacing `2π/(218·δ)`) are not grid-consistent, whatever the input spacing. -/
theorem Old.d4_reported_sizes_inconsistent (δ : Rat) :
    ¬ FftConsistent 87 217 217 δ (1 / ((218 : Rat) * δ)) := by
  intro ⟨_, _, _, h⟩
  by_cases hδ : δ = 0
  · subst hδ; simp at h
  · have h' : (217 : Rat) / 218 = 1 := by
      rw [← h]; push_cast; field_simp
    norm_num at h'

/-- the code as written is sound on requested grids that are Cartesian when regular and have the
input's number of axes -/
theorem Old.selection_sound_detectLit (i : GridDesc) (o : Option OutReq) (fftCheaper : Bool) (ch : Choice)
    (ins : List InAxis) (outs : List OutAxis)
    (hreq : ∀ r, o = some r → r.grid.ndim = i.ndim ∧
      (r.grid.isRegular = true → r.grid.cartesian = true) ∧ r.numFft = numFftAxes ins outs)
    (h : choose detectLit i o fftCheaper = some ch) :
    ctorPre i o ch ∧ ctorGrid i o ch = requestedDesc i o ∧
      (∀ r, o = some r → ch.via = .params → AxesReproduced ins outs) :=
  selection_sound i o fftCheaper ch ins outs hreq h

/-- D63: a regular polar grid with FFT-grid numbers is answered with a Cartesian grid. -/
theorem Old.selection_counterexample_noncartesian :
    ∃ (i : GridDesc) (r : OutReq) (c : Bool) (ch : Choice),
      makeFT detectLit i (some r) c = .ok ch ∧ r.grid.ndim = i.ndim ∧
        ctorGrid i (some r) ch ≠ requestedDesc i (some r) :=
  selection_unsound_noncartesian_old

/-- D63: a regular grid with fewer axes is answered with a grid of the input's dimension. -/
theorem Old.selection_counterexample_ndim :
    ∃ (i : GridDesc) (r : OutReq) (c : Bool) (ch : Choice),
      makeFT detectLit i (some r) c = .ok ch ∧ r.grid.cartesian = true ∧
        ctorGrid i (some r) ch ≠ requestedDesc i (some r) :=
  selection_unsound_ndim_old

/-- Non-vacuity: a consistent configuration exists (N = 2, M = 4, Mo = 3, δ = 1/2, dT = 1/2). -/
example : ∃ g : Cfg ℝ ℂ, g.N ≤ g.M ∧ g.Mo ≤ g.M ∧ g.dT * (g.M : ℝ) * g.δ = 1 :=
  ⟨{ N := 2, M := 4, Mo := 3, δ := 1 / 2, z := 0, dT := 1 / 2, s := 0, w := 1, emu := false },
    by norm_num, by norm_num, by norm_num⟩

/-- Non-vacuity of the model's consistency predicate: the plan of the repaired code for
`N = 87, q = 5/2` is consistent. -/
example : FftConsistent 87 218 218 (1 / 4) (plan ⟨87, 1 / 4, -3, 5 / 2, 1, 0⟩).dT := by decide +kernel

end HcipyVerif.C01
