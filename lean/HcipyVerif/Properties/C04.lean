import HcipyVerif.Lemmas.NearField
import HcipyVerif.Lemmas.FourierLinkC04
import HcipyVerif.Lemmas.NearFieldExec
import HcipyVerif.Lemmas.NearFieldGRat
import HcipyVerif.Lemmas.NearFieldMatrixExec
import HcipyVerif.Lemmas.NearFieldTensor
import HcipyVerif.Lemmas.NearFieldAbstract
import HcipyVerif.Lemmas.NearFieldScalar

/-!
# C04 — near-field propagators are linear, passive, adjoint-backward and additive

`FresnelPropagator.forward = FourierFilter.forward`, `.backward = FourierFilter.backward`, with the
`FourierFilter` operator `T_D = P† F⁻¹ D F P` (`filter`) and its backward `T_{conj D}` (`filterBackward`)
of `Lemmas/NearField.lean`.  `P : FourierPair μ` is *any* pair of linear maps with `F⁻¹ F = F F⁻¹ = id` and
`⟨y, F x⟩ = c ⟨F⁻¹ y, x⟩`, `c > 0` — the facts C01/C02 prove about `fftn`/`ifftn`; `e : ι → μ` is the
cut-out (injective; bijective when `zero_padding = 1`).  The inner product of the property carries the grid
weight, which is one constant `w` on a regular grid.

The transfer functions are those of the code: `fresnelD` (every regime of the transfer-function branch),
`angularD` (repaired, D30) / `angularDOld`, each averaged over sub-samples by `meanOver`.
Polarised wavefronts are propagated component by component (`filterT`).
-/

set_option linter.unusedSimpArgs false
set_option linter.unusedVariables false
set_option linter.unusedSectionVars false

open Finset Complex ComplexConjugate

namespace HcipyVerif.NearField

variable {ι μ τ : Type*} [Fintype ι] [Fintype μ] [Fintype τ] [DecidableEq μ]

/-- The regime as the property words it (pixel ≥ λ|z|/extent and ≥ λ/2) does *not* exclude evanescent
waves on a 2-D grid: for an 8×8 grid with pixel `5λ/8` the corner frequencies have negative radicand. -/
theorem stated_regime_admits_evanescent :
    ∃ p : Params, p.kind = .angular ∧ statedRegime p = true ∧ noEvanescent p = false :=
  ⟨{ kind := .angular, nx := 8, ny := 8, dx := 5/8, dy := 5/8, lam := 1, z := -1/4, n := 1, qx := 2, qy := 2, sx := 1, sy := 1 },
    by decide +kernel⟩

/-- Same sign ⇒ same branch: if `z₁ z₂ ≥ 0` and the *sum* is adequately sampled (the code takes the
transfer-function branch for `z₁ + z₂`), the code takes that branch for `z₁` and for `z₂` as well, so
`fresnel_additive` is a statement about the three propagators the code actually builds. -/
theorem same_sign_same_branch (p : Params) (z₁ z₂ : ℚ) (hs : 0 ≤ z₁ * z₂) (hlam : 0 ≤ p.lam)
    (hL : 0 < lmax p)
    (h : impulseBranch { p with z := z₁ + z₂ } = false) :
    impulseBranch { p with z := z₁ } = false ∧ impulseBranch { p with z := z₂ } = false :=
  impulseBranch_of_same_sign p z₁ z₂ hs hlam hL h

/-- `same_sign_same_branch` is not vacuous: `z₁ = z₂ = 1/4` on an 8×6 grid, all three on the
transfer-function branch. -/
example : ∃ (p : Params) (z₁ z₂ : ℚ), 0 ≤ z₁ * z₂ ∧ 0 ≤ p.lam ∧ 0 < lmax p ∧ z₁ ≠ 0 ∧ z₂ ≠ 0 ∧
    impulseBranch { p with z := z₁ + z₂ } = false :=
  ⟨{ kind := .fresnel, nx := 8, ny := 6, dx := 1/4, dy := 1/4, lam := 1/16, z := 0, n := 1, qx := 1, qy := 1,
     sx := 1, sy := 1 }, 1/4, 1/4, by decide +kernel⟩

/-! ## one propagator object used repeatedly: setters between calls

A call computes `filter P e D` with `D` sampled from the parameters *in force* — nothing else.  The executable
model carries the parameters through the setters (`withParam`, `afterSetters`); these theorems say which
bookkeeping survives a setter and that only the last assignment of each parameter matters, for unbounded
histories.  (That the real object's cached transfer function / scratch arrays do not leak between calls is
replayed by the harness on call sequences; the cache itself is C05.) -/


/-- `distance`, `refractive_index`, `num_oversampling` and the wavelength leave the padded sizes and the
cut-out untouched (the internal array keeps its shape); only `zero_padding` changes them. -/
theorem sizes_unchanged_by_setter (p : Params) (su : Setter) (h : ∀ qx qy, su ≠ .zeroPadding qx qy) :
    mx (withParam p su) = mx p ∧ my (withParam p su) = my p ∧ cutout (withParam p su) = cutout p := by
  cases su with
  | zeroPadding qx qy => exact absurd rfl (h qx qy)
  | distance z => exact ⟨rfl, rfl, rfl⟩
  | refractiveIndex n => exact ⟨rfl, rfl, rfl⟩
  | oversampling sx sy => exact ⟨rfl, rfl, rfl⟩
  | wavelength lam => exact ⟨rfl, rfl, rfl⟩

/-- The branch taken after `prop.distance = z` is decided by the new distance alone (other parameters as
they were) — also when the assignment crosses the sampling limit in either direction. -/
theorem branch_after_distance_setter (p : Params) (z : ℚ) :
    impulseBranch (withParam p (.distance z))
      = (decide (p.dx < p.lam * ratAbs z / lmax p) || decide (p.dy < p.lam * ratAbs z / lmax p)) := rfl

/-- Histories compose. -/
theorem afterSetters_append (p : Params) (l₁ l₂ : List Setter) :
    afterSetters p (l₁ ++ l₂) = afterSetters (afterSetters p l₁) l₂ := by
  unfold afterSetters
  rw [List.foldl_append]

/-- The distance in force after any history that ends with `distance := z` is `z`; the grid never changes. -/
theorem afterSetters_distance_last (p : Params) (l : List Setter) (z : ℚ) :
    (afterSetters p (l ++ [.distance z])).z = z ∧
    (afterSetters p (l ++ [.distance z])).nx = p.nx ∧ (afterSetters p (l ++ [.distance z])).ny = p.ny ∧
    (afterSetters p (l ++ [.distance z])).dx = p.dx ∧ (afterSetters p (l ++ [.distance z])).dy = p.dy := by
  have grid : ∀ (l : List Setter) (p : Params),
      (afterSetters p l).nx = p.nx ∧ (afterSetters p l).ny = p.ny ∧ (afterSetters p l).dx = p.dx ∧
      (afterSetters p l).dy = p.dy := by
    intro l
    induction l with
    | nil => intro p; exact ⟨rfl, rfl, rfl, rfl⟩
    | cons su l ih =>
      intro p
      have h := ih (withParam p su)
      have h0 : (withParam p su).nx = p.nx ∧ (withParam p su).ny = p.ny ∧ (withParam p su).dx = p.dx ∧
          (withParam p su).dy = p.dy := by cases su <;> exact ⟨rfl, rfl, rfl, rfl⟩
      simp only [afterSetters, List.foldl_cons] at h ⊢
      exact ⟨h.1.trans h0.1, h.2.1.trans h0.2.1, h.2.2.1.trans h0.2.2.1, h.2.2.2.trans h0.2.2.2⟩
  refine ⟨?_, grid _ p⟩
  rw [afterSetters_append]
  rfl

/-- Per-axis padding: when only `y` is padded (`zero_padding = [1, q]`, or a scalar whose rounding leaves the
`x` size unchanged) the cut-out spans complete rows `0 … nx` — it is one contiguous block of the internal
array (the shape in which a careless `reshape` returns a view instead of a copy). -/
theorem cutout_full_rows_of_x_unpadded (p : Params) (hx : mx p = p.nx) (hy : my p ≠ p.ny) :
    cutout p = some (cutStart (my p) p.ny, cutStart (my p) p.ny + p.ny, 0, p.nx) := by
  unfold cutout
  rw [if_neg (fun h => hy h.2), hx]
  simp [cutStart]

/-- A padding factor of exactly one leaves that axis unpadded, whatever the other axis does. -/
theorem padded_one (N : ℕ) : padded 1 N = N := by
  unfold padded roundHalfEven
  have h1 : ((1 : ℚ) * (N : ℚ)).floor = (N : ℤ) := by
    rw [one_mul, ← Int.cast_natCast]; exact Rat.floor_intCast _
  simp only [h1]
  have h2 : (1 : ℚ) * (N : ℚ) - ((N : ℤ) : ℚ) = 0 := by push_cast; ring
  rw [h2]
  norm_num

/-! ## the executable model's exact phases are the phases of these transfer functions -/

/-- The rational phase (in turns) the model reports for a Fresnel sub-sample is the phase of `fresnelD` at
`k = 2π n/λ`, `k⊥ = 2π ν`:  `D = exp(2πi · fresnelTurns)`. -/
theorem model_fresnelTurns (p : Params) (νx νy : ℚ) (hn : p.n ≠ 0) (hl : p.lam ≠ 0) :
    fresnelD (2 * Real.pi * (p.n : ℝ) / (p.lam : ℝ)) (p.z : ℝ) (2 * Real.pi * (νx : ℝ)) (2 * Real.pi * (νy : ℝ))
      = cexp (((2 * Real.pi * ((fresnelTurns p νx νy : ℚ) : ℝ) : ℝ) : ℂ) * I) :=
  fresnelD_eq_turns p νx νy hn hl

/-- The model's radicand is `(k² - |k⊥|²)/(2π)²`: its sign decides "evanescent" exactly as `kz` does. -/
theorem model_radicand (p : Params) (νx νy : ℚ) (hl : p.lam ≠ 0) :
    (2 * Real.pi * (p.n : ℝ) / (p.lam : ℝ)) ^ 2
        - ((2 * Real.pi * (νx : ℝ)) ^ 2 + (2 * Real.pi * (νy : ℝ)) ^ 2)
      = (2 * Real.pi) ^ 2 * ((radicand p νx νy : ℚ) : ℝ) := by
  unfold radicand
  have hl' : (p.lam : ℝ) ≠ 0 := by exact_mod_cast hl
  push_cast
  field_simp

/-! ## the propagator the code builds: executable cut-out, executable sample points, the DFT

`propagate p h Dir = filter (dftPair2 (my p) (mx p)) (cutoutEmb p h) (modelD p Dir)` (`Lemmas/NearFieldExec.lean`)
is assembled from the very definitions the driver runs and the harness compares with the real objects:
`my`/`mx` (op `setup`: `M=`), `embY`/`embX` (op `emb`; the harness lays the input out with these indices when it
recomputes `forward` *and* `backward`), `impulseBranch` (`branch=`), `subFreqs` at the `ifftshiftIdx`-ed index
(op `tfq`: the phases of exactly these sub-samples, compared with the array the real filter multiplies with, in
FFT layout), and `fftn`/`ifftn` by their specification `Fft.dft2`.  The only hypothesis is `padOK p` (non-empty
grid, padding factors `≥ 1` — what the driver and hcipy's constructor insist on); `Dir` is the transfer function
of the impulse-response branch, about which nothing is assumed. -/

section exec
variable (p : Params) (h : padOK p = true)

/-- The executable cut-out is injective (item (i) of the audit) … -/
theorem cutout_embedding_injective : Function.Injective (cutoutEmb p h) := cutoutEmb_injective p h

/-- … and a bijection when `cutout p = none` (nothing padded). -/
theorem cutout_embedding_bijective_of_unpadded (hc : cutout p = none) :
    Function.Bijective (cutoutEmb p h) := cutoutEmb_bijective p h hc

/-- A padding factor of one on both axes (`zero_padding = 1`) gives `cutout p = none`. -/
theorem cutout_none_of_unit_padding (hk : p.kind = .fresnel) (hqx : p.qx = 1) (hqy : p.qy = 1) :
    cutout p = none := by
  rw [cutout_eq_none_iff]
  unfold mx my effQx effQy
  rw [hk]
  simp only [hqx, hqy]
  exact ⟨padded_one _, padded_one _⟩

/-- Bridge (iii): `z` and `-z` take the same branch. -/
theorem impulseBranch_symmetric_in_z :
    impulseBranch (withParam p (.distance (-p.z))) = impulseBranch p := impulseBranch_neg_z p

/-! ### what the driver prints for a transfer-function sample *is* the sample of `modelD`

The harness turns the driver's answer to `tfq` into a complex number by `mean(exp(2πi·turns))` (Fresnel) or
`mean(exp(2πi z √r))` / `exp(-2π·evz·√(-r))` (angular spectrum) and compares it with the array the real filter
multiplies with.  These theorems say that this very number is `sampledTF` (hence `modelD` on the
transfer-function branch, `modelD_of_tf`). -/

/-- Angular spectrum: the sample at frequency `ν` from the radicand the driver prints — `exp(2πi z √r)` for a
propagating wave (`r ≥ 0`), `exp(-2π |z| √(-r))` (`evz = |z|`) for an evanescent one. -/
theorem angularAt_of_radicand (p : Params) (hl : p.lam ≠ 0) (ν : ℚ × ℚ) :
    angularAt p ν = if 0 ≤ radicand p ν.1 ν.2
      then cexp (((2 * Real.pi * Real.sqrt ((radicand p ν.1 ν.2 : ℚ) : ℝ) * (p.z : ℝ) : ℝ) : ℂ) * I)
      else cexp (((-(2 * Real.pi * Real.sqrt (-((radicand p ν.1 ν.2 : ℚ) : ℝ)) * ((evanescentZ p : ℚ) : ℝ)) : ℝ) : ℂ)) := by
  have hr := model_radicand p ν.1 ν.2 hl
  have h2pi : (0 : ℝ) ≤ 2 * Real.pi := by positivity
  unfold angularAt waveK
  split_ifs with h
  · have hR : (0 : ℝ) ≤ ((radicand p ν.1 ν.2 : ℚ) : ℝ) := by exact_mod_cast h
    have hk : (2 * Real.pi * (ν.1 : ℝ)) ^ 2 + (2 * Real.pi * (ν.2 : ℝ)) ^ 2
        ≤ (2 * Real.pi * (p.n : ℝ) / (p.lam : ℝ)) ^ 2 := by
      have : 0 ≤ (2 * Real.pi) ^ 2 * ((radicand p ν.1 ν.2 : ℚ) : ℝ) := by positivity
      linarith
    rw [angularD_of_propagating hk, hr, Real.sqrt_mul (sq_nonneg _), Real.sqrt_sq h2pi]
  · have hR : ((radicand p ν.1 ν.2 : ℚ) : ℝ) < 0 := by exact_mod_cast not_le.mp h
    have hk : ¬ (2 * Real.pi * (ν.1 : ℝ)) ^ 2 + (2 * Real.pi * (ν.2 : ℝ)) ^ 2
        ≤ (2 * Real.pi * (p.n : ℝ) / (p.lam : ℝ)) ^ 2 := by
      have : (2 * Real.pi) ^ 2 * ((radicand p ν.1 ν.2 : ℚ) : ℝ) < 0 :=
        mul_neg_of_pos_of_neg (by positivity) hR
      intro hle
      linarith
    have hneg : (2 * Real.pi * (ν.1 : ℝ)) ^ 2 + (2 * Real.pi * (ν.2 : ℝ)) ^ 2
        - (2 * Real.pi * (p.n : ℝ) / (p.lam : ℝ)) ^ 2 = (2 * Real.pi) ^ 2 * (-((radicand p ν.1 ν.2 : ℚ) : ℝ)) := by
      linarith
    rw [angularD_of_evanescent hk, hneg, Real.sqrt_mul (sq_nonneg _), Real.sqrt_sq h2pi]
    unfold evanescentZ
    rw [ratAbs_eq_abs, Rat.cast_abs]

end exec

/-- The hypotheses of the `propagate_*` theorems are satisfiable together: an 8×6 Fresnel propagator with
`zero_padding = 1`, `num_oversampling = 1` inside the stated regime. -/
example : ∃ p : Params, padOK p = true ∧ p.kind = .fresnel ∧ p.sx = 1 ∧ p.sy = 1 ∧ cutout p = none ∧
    statedRegime p = true ∧ impulseBranch p = false ∧ 0 ≤ p.lam ∧ 0 < lmax p :=
  ⟨{ kind := .fresnel, nx := 8, ny := 6, dx := 1/4, dy := 1/4, lam := 1/16, z := 1/2, n := 1, qx := 1, qy := 1,
     sx := 1, sy := 1 }, by decide +kernel⟩

/-- … and a padded, oversampled angular-spectrum propagator satisfies `padOK` with a genuine cut-out. -/
example : ∃ p : Params, padOK p = true ∧ cutout p = some (3, 9, 4, 12) ∧ impulseBranch p = false :=
  ⟨{ kind := .angular, nx := 8, ny := 6, dx := 1/4, dy := 1/4, lam := 1/16, z := -1/2, n := 1, qx := 1, qy := 1,
     sx := 2, sy := 2 }, by decide +kernel⟩

/-! ## polarised wavefronts: Stokes-`I` power, matrix-valued transfer functions

`Wavefront.total_power` of a Jones-matrix wavefront with an input Stokes vector is `stokesPower` — the sum over the
grid of the executable polynomial `stokesI` (driver op `stokesI`, compared with `Wavefront.I` of the real input and
output wavefronts) times the pixel weight.  `FourierFilter` with a tensor transfer function multiplies with the
executable `matVec` (`field_dot`) and, backward, with `conjT conj` (`field_conjugate_transpose`) — driver op `mdot`,
compared with those two hcipy functions; the harness recomputes `forward`/`backward` of the real filter with them. -/

/-- `stokesPhysical` (the decidable predicate the driver reports, over `ℚ`) is the hypothesis above. -/
theorem stokesPhysical_iff (a b c d : ℚ) :
    stokesPhysical a b c d = true ↔ 0 ≤ a ∧ b ^ 2 + c ^ 2 + d ^ 2 ≤ a ^ 2 := by
  unfold stokesPhysical
  simp only [Bool.and_eq_true, decide_eq_true_eq, pow_two]

example : stokesPhysical 1 (1/2) (-1/4) (1/8) = true := by decide +kernel

/-- The hypothesis matters: for the (unphysical) Stokes vector `(0, 1, 0, 0)` the form is `‖x‖² − ‖y‖²`, and
blocking everything (`D = 0`, certainly `|D| ≤ 1`) *raises* it from `−1/2` to `0`. -/
theorem stokes_power_unphysical_counterexample :
    ∃ (P : FourierPair (Fin 1)) (D : Fin 1 → ℂ) (S : Fin 4 → ℝ) (E : Fin 2 × Fin 2 → Fin 1 → ℂ),
      (∀ m, ‖D m‖ ≤ 1) ∧ stokesPower 1 S E < stokesPower 1 S (filterT P id D E) := by
  refine ⟨FourierPair.idPair (Fin 1), fun _ => 0, ![0, 1, 0, 0], fun t _ => if t = (0, 1) then 1 else 0,
    fun m => by simp, ?_⟩
  simp [stokesPower, stokesI, filterT, filter, crop, mulD, pad, FourierPair.idPair]
  norm_num

/-- The product at one sample is the matrix–vector product, the backward matrix the conjugate transpose. -/
theorem filterM_pointwise {n : ℕ} (D : Fin n → Fin n → ℂ) (v : Fin n → ℂ) :
    matVec D v = Matrix.mulVec (Matrix.of D) v ∧
      Matrix.of (conjT (fun z => conj z) D) = (Matrix.of D).conjTranspose :=
  ⟨matVec_eq_mulVec D v, conjT_eq_conjTranspose D⟩

/-! ### one axis (`fft` / `ifft`, `c = M`) -/

/-! ## The operator of all the theorems above is the pipeline the driver runs

`filterP` / `filterPBackward` (`Model/NearField.lean`: `padAt` at `cutStart`, `Fft.dft2`, multiply, inverse `Fft.dft2`,
`cropAt`) are scalar-polymorphic; the driver op `filt` runs them on Gaussian rationals (exact kernels of the sizes
1, 2, 4) and the harness compares the result with the real `FourierFilter.forward` / `.backward`.  Here they are taken
at `ℂ` with the kernels `exp(∓2πi n/M)`: they *are* `filter (dftPair2 …) (cutoutEmb p h)` (bridge
`filter_dft2_eq_filterP`), so every clause holds for the executed definition itself (`filterP_*`), and the
propagators are that pipeline with the transfer function `modelD` (`propagate_eq_filterP`). -/

section pipeline
variable (p : Params) (h : padOK p = true)
include h

local notation "runF" => filterP p (kF (my p)) (kF (mx p)) (kB (my p)) (kB (mx p)) (((my p * mx p : ℕ) : ℂ)⁻¹)
local notation "runB" => filterPBackward (starRingEnd ℂ) p (kF (my p)) (kF (mx p)) (kB (my p)) (kB (mx p))
  (((my p * mx p : ℕ) : ℂ)⁻¹)

/-- Linear: the executed pipeline, any transfer function, any padding. -/
theorem filterP_linear (D : Fin (my p) × Fin (mx p) → ℂ) (a b : ℂ) (x y : Fin p.ny × Fin p.nx → ℂ)
    (j : Fin p.ny × Fin p.nx) :
    runF (ext2 D) (ext2 (a • x + b • y)) (j.1 : ℕ) (j.2 : ℕ)
      = a * runF (ext2 D) (ext2 x) (j.1 : ℕ) (j.2 : ℕ) + b * runF (ext2 D) (ext2 y) (j.1 : ℕ) (j.2 : ℕ) := by
  have hl := congrFun (filter_linear (dftPair2 (my p) (mx p) (my_pos h) (mx_pos h)) (cutoutEmb p h) D a b x y) j
  rw [filter_dft2_eq_filterP, filter_dft2_eq_filterP, filter_dft2_eq_filterP] at hl
  exact hl

/-- `backward` (the pipeline with `conj D`) is the exact adjoint of `forward`: the executed pipeline, any transfer
function, any padding. -/
theorem filterP_adjoint (D : Fin (my p) × Fin (mx p) → ℂ) (x y : Fin p.ny × Fin p.nx → ℂ) :
    ip y (fun j => runF (ext2 D) (ext2 x) (j.1 : ℕ) (j.2 : ℕ))
      = ip (fun j => runB (ext2 D) (ext2 y) (j.1 : ℕ) (j.2 : ℕ)) x := by
  rw [← filter_dft2_eq_filterP p h, ← filterBackward_dft2_eq_filterPBackward p h]
  exact filter_adjoint _ _ D x y

/-- Passive: `|D| ≤ 1` everywhere ⇒ the executed pipeline never increases the power. -/
theorem filterP_power_nonincreasing {D : Fin (my p) × Fin (mx p) → ℂ} (hD : ∀ m, ‖D m‖ ≤ 1)
    (x : Fin p.ny × Fin p.nx → ℂ) :
    nsq (fun j : Fin p.ny × Fin p.nx => runF (ext2 D) (ext2 x) (j.1 : ℕ) (j.2 : ℕ)) ≤ nsq x := by
  rw [← filter_dft2_eq_filterP p h]
  exact power_nonincreasing _ (cutoutEmb_injective p h) hD x

/-- No padding (`cutout p = none`) and `|D| = 1`: the executed pipeline conserves the power … -/
theorem filterP_unitary (hc : cutout p = none) {D : Fin (my p) × Fin (mx p) → ℂ} (hD : ∀ m, ‖D m‖ = 1)
    (x : Fin p.ny × Fin p.nx → ℂ) :
    nsq (fun j : Fin p.ny × Fin p.nx => runF (ext2 D) (ext2 x) (j.1 : ℕ) (j.2 : ℕ)) = nsq x := by
  rw [← filter_dft2_eq_filterP p h]
  exact filter_unitary _ (cutoutEmb_bijective p h hc) hD x

/-- … and the executed `backward` pipeline inverts the executed `forward` pipeline. -/
theorem filterP_backward_inverse (hc : cutout p = none) {D : Fin (my p) × Fin (mx p) → ℂ} (hD : ∀ m, ‖D m‖ = 1)
    (x : Fin p.ny × Fin p.nx → ℂ) (j : Fin p.ny × Fin p.nx) :
    runB (ext2 D) (ext2 fun i : Fin p.ny × Fin p.nx => runF (ext2 D) (ext2 x) (i.1 : ℕ) (i.2 : ℕ)) (j.1 : ℕ) (j.2 : ℕ)
      = x j := by
  have hi := congrFun (filter_backward_inverse (dftPair2 (my p) (mx p) (my_pos h) (mx_pos h))
    (cutoutEmb_bijective p h hc) hD x) j
  rw [filterBackward_dft2_eq_filterPBackward, filter_dft2_eq_filterP] at hi
  exact hi

end pipeline

/-! ## every clause, stated about the executed definitions only (no hypothesis on the transform)

`fourierFilter`, `fourierFilterBackward`, `fresnelForward`, `fresnelBackward`, `fourierFilterM`, `fourierFilterMBackward`
(`Model/NearField.lean`) are defined once for any `Scalar C`.  The driver ops `filtp`, `prop`, `filtmp` run them at
`psumScalar` and the harness compares every output pixel with the running `FourierFilter` / `FresnelPropagator`; the
theorems below are about the *same definitions* at `cScalar = (ℂ, exp(2πi t), conj)`; `filtp_*_denotes_*`,
`prop_*_denotes_*`, `filtmp_*_denotes_*` (further down) say that `PSum.ev` maps the driver's run onto them.  The only
hypothesis is the decidable `padOK p` (non-empty grid, padding factors `≥ 1`: what the driver and hcipy insist on).
A field on the input grid is `x : Fin p.ny × Fin p.nx → ℂ`, handed to the pipeline as `ext2 x`. -/

section scalar
variable (p : Params) (h : padOK p = true)
include h

/-- Linear: any transfer function (either branch of `make_instance`), any padding. -/
theorem fourierFilter_linear (D : ℕ → ℕ → ℂ) (a b : ℂ) (x y : Fin p.ny × Fin p.nx → ℂ) (j : Fin p.ny × Fin p.nx) :
    fourierFilter cScalar p D (ext2 (a • x + b • y)) (j.1 : ℕ) (j.2 : ℕ)
      = a * fourierFilter cScalar p D (ext2 x) (j.1 : ℕ) (j.2 : ℕ)
        + b * fourierFilter cScalar p D (ext2 y) (j.1 : ℕ) (j.2 : ℕ) := by
  rw [fourierFilter_eq_filter p h, fourierFilter_eq_filter p h, fourierFilter_eq_filter p h, filter_linear]
  rfl

/-- `backward` is the exact adjoint of `forward`: any transfer function, any padding. -/
theorem fourierFilter_adjoint (D : ℕ → ℕ → ℂ) (x y : Fin p.ny × Fin p.nx → ℂ) :
    ip y (fun j => fourierFilter cScalar p D (ext2 x) (j.1 : ℕ) (j.2 : ℕ))
      = ip (fun j => fourierFilterBackward cScalar p D (ext2 y) (j.1 : ℕ) (j.2 : ℕ)) x := by
  rw [fourierFilter_fun p h, fourierFilterBackward_fun p h]
  exact filter_adjoint _ _ _ x y

/-- Passive: `|D| ≤ 1` everywhere ⇒ the power never increases. -/
theorem fourierFilter_power_nonincreasing {D : ℕ → ℕ → ℂ} (hD : ∀ qy qx, ‖D qy qx‖ ≤ 1)
    (x : Fin p.ny × Fin p.nx → ℂ) :
    nsq (fun j : Fin p.ny × Fin p.nx => fourierFilter cScalar p D (ext2 x) (j.1 : ℕ) (j.2 : ℕ)) ≤ nsq x := by
  rw [fourierFilter_fun p h]
  exact power_nonincreasing _ (cutoutEmb_injective p h) (fun m => hD _ _) x

/-- Nothing padded (`cutout p = none`) and `|D| = 1`: the power is conserved … -/
theorem fourierFilter_unitary (hc : cutout p = none) {D : ℕ → ℕ → ℂ} (hD : ∀ qy qx, ‖D qy qx‖ = 1)
    (x : Fin p.ny × Fin p.nx → ℂ) :
    nsq (fun j : Fin p.ny × Fin p.nx => fourierFilter cScalar p D (ext2 x) (j.1 : ℕ) (j.2 : ℕ)) = nsq x := by
  rw [fourierFilter_fun p h]
  exact filter_unitary _ (cutoutEmb_bijective p h hc) (fun m => hD _ _) x

/-- … `backward` inverts `forward` … -/
theorem fourierFilter_backward_inverse (hc : cutout p = none) {D : ℕ → ℕ → ℂ} (hD : ∀ qy qx, ‖D qy qx‖ = 1)
    (x : Fin p.ny × Fin p.nx → ℂ) (j : Fin p.ny × Fin p.nx) :
    fourierFilterBackward cScalar p D
        (ext2 fun i : Fin p.ny × Fin p.nx => fourierFilter cScalar p D (ext2 x) (i.1 : ℕ) (i.2 : ℕ)) (j.1 : ℕ) (j.2 : ℕ)
      = x j := by
  rw [fourierFilter_fun p h, fourierFilterBackward_eq_filterBackward p h]
  exact congrFun (filter_backward_inverse _ (cutoutEmb_bijective p h hc) (fun m => hD _ _) x) j

/-- … and two filters compose by multiplying their transfer functions. -/
theorem fourierFilter_comp (hc : cutout p = none) (D₁ D₂ : ℕ → ℕ → ℂ) (x : Fin p.ny × Fin p.nx → ℂ)
    (j : Fin p.ny × Fin p.nx) :
    fourierFilter cScalar p D₂
        (ext2 fun i : Fin p.ny × Fin p.nx => fourierFilter cScalar p D₁ (ext2 x) (i.1 : ℕ) (i.2 : ℕ)) (j.1 : ℕ) (j.2 : ℕ)
      = fourierFilter cScalar p (fun a b => D₂ a b * D₁ a b) (ext2 x) (j.1 : ℕ) (j.2 : ℕ) := by
  rw [fourierFilter_fun p h, fourierFilter_eq_filter p h, fourierFilter_eq_filter p h,
    filter_comp _ (cutoutEmb_bijective p h hc)]
  rfl

/-- Passivity in the Stokes-`I` form (`Wavefront.total_power` of a Jones-matrix wavefront with an input Stokes vector,
`stokesPower` = the grid sum of the executed polynomial `stokesI`): a physical Stokes vector (`0 ≤ S0`,
`S1² + S2² + S3² ≤ S0²`) does not gain power when every component goes through the pipeline with `|D| ≤ 1`. -/
theorem fourierFilter_stokes_power_nonincreasing {D : ℕ → ℕ → ℂ} (hD : ∀ qy qx, ‖D qy qx‖ ≤ 1) (w : ℝ) (hw : 0 ≤ w)
    (S : Fin 4 → ℝ) (hS0 : 0 ≤ S 0) (hphys : S 1 ^ 2 + S 2 ^ 2 + S 3 ^ 2 ≤ S 0 ^ 2)
    (E : Fin 2 × Fin 2 → Fin p.ny × Fin p.nx → ℂ) :
    stokesPower w S (fun t (j : Fin p.ny × Fin p.nx) => fourierFilter cScalar p D (ext2 (E t)) (j.1 : ℕ) (j.2 : ℕ))
      ≤ stokesPower w S E := by
  have e : (fun t (j : Fin p.ny × Fin p.nx) => fourierFilter cScalar p D (ext2 (E t)) (j.1 : ℕ) (j.2 : ℕ))
      = filterT (dftPair2 (my p) (mx p) (my_pos h) (mx_pos h)) (cutoutEmb p h) (onGrid D) E := by
    funext t
    exact fourierFilter_fun p h D (E t)
  rw [e]
  exact stokes_power_nonincreasing _ (cutoutEmb_injective p h) (fun m => hD _ _) w hw S hS0 hphys E

/-! ### the Fresnel propagator (`fresnelForward` / `fresnelBackward`: op `prop`) -/

theorem fresnelForward_linear (a b : ℂ) (x y : Fin p.ny × Fin p.nx → ℂ) (j : Fin p.ny × Fin p.nx) :
    fresnelForward cScalar p (ext2 (a • x + b • y)) (j.1 : ℕ) (j.2 : ℕ)
      = a * fresnelForward cScalar p (ext2 x) (j.1 : ℕ) (j.2 : ℕ)
        + b * fresnelForward cScalar p (ext2 y) (j.1 : ℕ) (j.2 : ℕ) :=
  fourierFilter_linear p h (fresnelTF cScalar p) a b x y j

/-- `FresnelPropagator.backward` is the exact adjoint of `.forward` (any padding, any oversampling, any distance). -/
theorem fresnelForward_adjoint (x y : Fin p.ny × Fin p.nx → ℂ) :
    ip y (fun j => fresnelForward cScalar p (ext2 x) (j.1 : ℕ) (j.2 : ℕ))
      = ip (fun j => fresnelBackward cScalar p (ext2 y) (j.1 : ℕ) (j.2 : ℕ)) x :=
  fourierFilter_adjoint p h (fresnelTF cScalar p) x y

/-- Fresnel propagation never increases the power: any padding, any oversampling, either sign of `z`. -/
theorem fresnelForward_power_nonincreasing (x : Fin p.ny × Fin p.nx → ℂ) :
    nsq (fun j : Fin p.ny × Fin p.nx => fresnelForward cScalar p (ext2 x) (j.1 : ℕ) (j.2 : ℕ)) ≤ nsq x :=
  fourierFilter_power_nonincreasing p h (norm_fresnelTF_le_one p) x

theorem fresnelForward_stokes_power_nonincreasing (w : ℝ) (hw : 0 ≤ w) (S : Fin 4 → ℝ) (hS0 : 0 ≤ S 0)
    (hphys : S 1 ^ 2 + S 2 ^ 2 + S 3 ^ 2 ≤ S 0 ^ 2) (E : Fin 2 × Fin 2 → Fin p.ny × Fin p.nx → ℂ) :
    stokesPower w S (fun t (j : Fin p.ny × Fin p.nx) => fresnelForward cScalar p (ext2 (E t)) (j.1 : ℕ) (j.2 : ℕ))
      ≤ stokesPower w S E :=
  fourierFilter_stokes_power_nonincreasing p h (norm_fresnelTF_le_one p) w hw S hS0 hphys E

/-- `zero_padding = 1` (`cutout p = none`), `num_oversampling = 1`: Fresnel propagation is unitary … -/
theorem fresnelForward_unitary (hx : p.sx = 1) (hy : p.sy = 1) (hc : cutout p = none) (x : Fin p.ny × Fin p.nx → ℂ) :
    nsq (fun j : Fin p.ny × Fin p.nx => fresnelForward cScalar p (ext2 x) (j.1 : ℕ) (j.2 : ℕ)) = nsq x :=
  fourierFilter_unitary p h hc (norm_fresnelTF_eq_one hx hy) x

/-- … `backward` inverts `forward` … -/
theorem fresnelBackward_inverse (hx : p.sx = 1) (hy : p.sy = 1) (hc : cutout p = none) (x : Fin p.ny × Fin p.nx → ℂ)
    (j : Fin p.ny × Fin p.nx) :
    fresnelBackward cScalar p
        (ext2 fun i : Fin p.ny × Fin p.nx => fresnelForward cScalar p (ext2 x) (i.1 : ℕ) (i.2 : ℕ)) (j.1 : ℕ) (j.2 : ℕ)
      = x j :=
  fourierFilter_backward_inverse p h hc (norm_fresnelTF_eq_one hx hy) x j

/-- … and the propagator built for `z₁` followed by the one built for `z₂` is the one built for `z₁ + z₂`
(all three by the setter `distance` on the same object).  No sign condition is needed for the transfer-function
pipeline itself; the property's "same sign" guarantees that the code takes this pipeline for `z₁` and `z₂` whenever it
takes it for `z₁ + z₂` (`same_sign_same_branch`). -/
theorem fresnelForward_additive (hx : p.sx = 1) (hy : p.sy = 1) (hc : cutout p = none) (z₁ z₂ : ℚ)
    (x : Fin p.ny × Fin p.nx → ℂ) (j : Fin p.ny × Fin p.nx) :
    fresnelForward cScalar (withParam p (.distance z₂))
        (ext2 fun i : Fin p.ny × Fin p.nx =>
          fresnelForward cScalar (withParam p (.distance z₁)) (ext2 x) (i.1 : ℕ) (i.2 : ℕ)) (j.1 : ℕ) (j.2 : ℕ)
      = fresnelForward cScalar (withParam p (.distance (z₁ + z₂))) (ext2 x) (j.1 : ℕ) (j.2 : ℕ) := by
  show fourierFilter cScalar p (fresnelTF cScalar (withParam p (.distance z₂)))
        (ext2 fun i : Fin p.ny × Fin p.nx =>
          fourierFilter cScalar p (fresnelTF cScalar (withParam p (.distance z₁))) (ext2 x) (i.1 : ℕ) (i.2 : ℕ))
        (j.1 : ℕ) (j.2 : ℕ)
      = fourierFilter cScalar p (fresnelTF cScalar (withParam p (.distance (z₁ + z₂)))) (ext2 x) (j.1 : ℕ) (j.2 : ℕ)
  rw [fourierFilter_comp p h hc]
  congr 1
  funext a b
  exact fresnelTF_mul hx hy z₁ z₂ a b

omit h in
/-- Propagating by `-z` forward is propagating by `+z` backward: the propagator built for `-z` (setter `distance`),
`.forward`, and the one built for `+z`, `.backward`, are the same function — any padding, any oversampling, any input. -/
theorem fresnelForward_neg_z_eq_backward (X : ℕ → ℕ → ℂ) :
    fresnelForward cScalar (withParam p (.distance (-p.z))) X = fresnelBackward cScalar p X := by
  show filterN (my p) (mx p) _ _ _ _ _ _ _ _ _ (fresnelTF cScalar (withParam p (.distance (-p.z)))) X
    = filterN (my p) (mx p) _ _ _ _ _ _ _ _ _ (fun py px => cScalar.conj (fresnelTF cScalar p py px)) X
  congr 1
  funext qy qx
  exact fresnelTF_neg_z p qy qx

/-! ### the Fresnel propagator *with the regime switch* (`fresnelPropagatorForward` / `…Backward`: what op `prop` runs)

`make_instance` chooses between the sampled transfer function (`fresnelForward`, above) and the Fourier transform of the
sampled impulse response (`fresnelIrTF`) by `np.any(delta < λ|z|/L_max)` = `impulseBranch p`.  Linearity and adjointness
hold on either branch; the regime clauses are those of `fresnelForward_*`, because inside the regime the switch selects that
pipeline (`fresnelPropagator_eq_fresnelForward_of_sampled`). -/

/-- `FresnelPropagator.forward` is linear on either branch of the regime switch, any padding, oversampling, distance. -/
theorem fresnelPropagator_linear (a b : ℂ) (x y : Fin p.ny × Fin p.nx → ℂ) (j : Fin p.ny × Fin p.nx) :
    fresnelPropagatorForward cScalar p (ext2 (a • x + b • y)) (j.1 : ℕ) (j.2 : ℕ)
      = a * fresnelPropagatorForward cScalar p (ext2 x) (j.1 : ℕ) (j.2 : ℕ)
        + b * fresnelPropagatorForward cScalar p (ext2 y) (j.1 : ℕ) (j.2 : ℕ) := by
  simp only [fresnelPropagatorForward_eq]
  exact fourierFilter_linear p h _ a b x y j

/-- `FresnelPropagator.backward` is the exact adjoint of `.forward` on either branch of the regime switch (also outside the
sampled regime, where the transfer function is the transformed impulse response and is not unimodular). -/
theorem fresnelPropagator_adjoint (x y : Fin p.ny × Fin p.nx → ℂ) :
    ip y (fun j => fresnelPropagatorForward cScalar p (ext2 x) (j.1 : ℕ) (j.2 : ℕ))
      = ip (fun j => fresnelPropagatorBackward cScalar p (ext2 y) (j.1 : ℕ) (j.2 : ℕ)) x := by
  simp only [fresnelPropagatorForward_eq, fresnelPropagatorBackward_eq]
  exact fourierFilter_adjoint p h _ x y

omit h in
/-- Inside the sampled regime (`pixel ≥ λ|z|/extent` on both axes, i.e. `impulseBranch p = false`) the switch selects the
transfer-function pipeline: `forward` / `backward` *are* `fresnelForward` / `fresnelBackward`. -/
theorem fresnelPropagator_eq_fresnelForward_of_sampled (hs : impulseBranch p = false) :
    fresnelPropagatorForward cScalar p = fresnelForward cScalar p ∧
      fresnelPropagatorBackward cScalar p = fresnelBackward cScalar p := by
  constructor <;> funext X
  · unfold fresnelPropagatorForward
    rw [hs]
    rfl
  · unfold fresnelPropagatorBackward
    rw [hs]
    rfl

/-- Sampled regime ⇒ the propagator the code builds never increases the power (any padding, oversampling, sign of `z`). -/
theorem fresnelPropagator_power_nonincreasing (hs : impulseBranch p = false) (x : Fin p.ny × Fin p.nx → ℂ) :
    nsq (fun j : Fin p.ny × Fin p.nx => fresnelPropagatorForward cScalar p (ext2 x) (j.1 : ℕ) (j.2 : ℕ)) ≤ nsq x := by
  rw [(fresnelPropagator_eq_fresnelForward_of_sampled p hs).1]
  exact fresnelForward_power_nonincreasing p h x

/-- Sampled regime, `zero_padding = 1`, `num_oversampling = 1`: unitary … -/
theorem fresnelPropagator_unitary (hs : impulseBranch p = false) (hx : p.sx = 1) (hy : p.sy = 1) (hc : cutout p = none)
    (x : Fin p.ny × Fin p.nx → ℂ) :
    nsq (fun j : Fin p.ny × Fin p.nx => fresnelPropagatorForward cScalar p (ext2 x) (j.1 : ℕ) (j.2 : ℕ)) = nsq x := by
  rw [(fresnelPropagator_eq_fresnelForward_of_sampled p hs).1]
  exact fresnelForward_unitary p h hx hy hc x

/-- … `backward` inverts `forward` … -/
theorem fresnelPropagator_backward_inverse (hs : impulseBranch p = false) (hx : p.sx = 1) (hy : p.sy = 1)
    (hc : cutout p = none) (x : Fin p.ny × Fin p.nx → ℂ) (j : Fin p.ny × Fin p.nx) :
    fresnelPropagatorBackward cScalar p
        (ext2 fun i : Fin p.ny × Fin p.nx => fresnelPropagatorForward cScalar p (ext2 x) (i.1 : ℕ) (i.2 : ℕ))
        (j.1 : ℕ) (j.2 : ℕ) = x j := by
  rw [(fresnelPropagator_eq_fresnelForward_of_sampled p hs).1, (fresnelPropagator_eq_fresnelForward_of_sampled p hs).2]
  exact fresnelBackward_inverse p h hx hy hc x j

/-- … and, for distances of the same sign whose *sum* is adequately sampled, the propagator the code builds for `z₁`
followed by the one for `z₂` is the one for `z₁ + z₂` — the switch takes the transfer-function pipeline for all three. -/
theorem fresnelPropagator_additive (hx : p.sx = 1) (hy : p.sy = 1) (hc : cutout p = none) (z₁ z₂ : ℚ)
    (hsign : 0 ≤ z₁ * z₂) (hlam : 0 ≤ p.lam) (hL : 0 < lmax p)
    (hs : impulseBranch (withParam p (.distance (z₁ + z₂))) = false)
    (x : Fin p.ny × Fin p.nx → ℂ) (j : Fin p.ny × Fin p.nx) :
    fresnelPropagatorForward cScalar (withParam p (.distance z₂))
        (ext2 fun i : Fin p.ny × Fin p.nx =>
          fresnelPropagatorForward cScalar (withParam p (.distance z₁)) (ext2 x) (i.1 : ℕ) (i.2 : ℕ)) (j.1 : ℕ) (j.2 : ℕ)
      = fresnelPropagatorForward cScalar (withParam p (.distance (z₁ + z₂))) (ext2 x) (j.1 : ℕ) (j.2 : ℕ) := by
  have h12 := impulseBranch_of_same_sign p z₁ z₂ hsign hlam hL hs
  have h1 : impulseBranch (withParam p (.distance z₁)) = false := h12.1
  have h2 : impulseBranch (withParam p (.distance z₂)) = false := h12.2
  rw [(fresnelPropagator_eq_fresnelForward_of_sampled _ hs).1, (fresnelPropagator_eq_fresnelForward_of_sampled _ h1).1,
    (fresnelPropagator_eq_fresnelForward_of_sampled _ h2).1]
  exact fresnelForward_additive p h hx hy hc z₁ z₂ x j

omit h in
/-- Sampled regime: the propagator built for `-z`, `.forward`, is the one built for `+z`, `.backward` (the branch decision
depends on `|z|` only, so both are on the transfer-function pipeline). -/
theorem fresnelPropagator_neg_z_eq_backward (hs : impulseBranch p = false) (X : ℕ → ℕ → ℂ) :
    fresnelPropagatorForward cScalar (withParam p (.distance (-p.z))) X = fresnelPropagatorBackward cScalar p X := by
  have hs' : impulseBranch (withParam p (.distance (-p.z))) = false := by rw [impulseBranch_neg_z]; exact hs
  rw [(fresnelPropagator_eq_fresnelForward_of_sampled _ hs').1, (fresnelPropagator_eq_fresnelForward_of_sampled _ hs).2]
  exact fresnelForward_neg_z_eq_backward p X

/-! ### the angular-spectrum propagator: the pipeline with `angularTF` (from the executed radicands, op `tfq`) -/

/-- Angular spectrum (repaired, D30): the power never increases — propagating components are unimodular, evanescent ones
decay with `|z|`; any oversampling, either sign of `z`. -/
theorem angular_power_nonincreasing_exec (x : Fin p.ny × Fin p.nx → ℂ) :
    nsq (fun j : Fin p.ny × Fin p.nx => fourierFilter cScalar p (angularTF p) (ext2 x) (j.1 : ℕ) (j.2 : ℕ)) ≤ nsq x :=
  fourierFilter_power_nonincreasing p h (norm_angularTF_le_one p) x

theorem angular_stokes_power_nonincreasing_exec (w : ℝ) (hw : 0 ≤ w) (S : Fin 4 → ℝ) (hS0 : 0 ≤ S 0)
    (hphys : S 1 ^ 2 + S 2 ^ 2 + S 3 ^ 2 ≤ S 0 ^ 2) (E : Fin 2 × Fin 2 → Fin p.ny × Fin p.nx → ℂ) :
    stokesPower w S (fun t (j : Fin p.ny × Fin p.nx) =>
        fourierFilter cScalar p (angularTF p) (ext2 (E t)) (j.1 : ℕ) (j.2 : ℕ))
      ≤ stokesPower w S E :=
  fourierFilter_stokes_power_nonincreasing p h (norm_angularTF_le_one p) w hw S hS0 hphys E

omit h in
/-- Angular spectrum: forward by `-z` is backward by `+z`, at every frequency, evanescent ones included. -/
theorem angular_neg_z_eq_backward_exec (X : ℕ → ℕ → ℂ) :
    fourierFilter cScalar (withParam p (.distance (-p.z))) (angularTF (withParam p (.distance (-p.z)))) X
      = fourierFilterBackward cScalar p (angularTF p) X := by
  show filterN (my p) (mx p) _ _ _ _ _ _ _ _ _ (angularTF (withParam p (.distance (-p.z)))) X
    = filterN (my p) (mx p) _ _ _ _ _ _ _ _ _ (fun py px => cScalar.conj (angularTF p py px)) X
  congr 1
  funext qy qx
  exact angularTF_neg_z p qy qx

end scalar

/-- The branch decision propagating / evanescent is the sign of the executed `radicand`; on the propagating set the
angular-spectrum sample is unimodular, for both signs of `z` … -/
theorem angular_sample_unimodular_of_propagating (p : Params) (a b : ℚ) (hr : 0 ≤ radicand p a b) :
    ‖angSample p.z (evanescentZ p) (radicand p a b)‖ = 1 :=
  norm_angSample_of_propagating hr

/-- … on the evanescent set it has modulus `exp(-2π |z| √(-radicand)) ≤ 1`, for both signs of `z` (repaired code). -/
theorem angular_sample_decays_of_evanescent (p : Params) (a b : ℚ) (hr : radicand p a b < 0) :
    ‖angSample p.z (evanescentZ p) (radicand p a b)‖
        = Real.exp (-(2 * Real.pi * Real.sqrt (-((radicand p a b : ℚ) : ℝ)) * ((|p.z| : ℚ) : ℝ))) ∧
      ‖angSample p.z (evanescentZ p) (radicand p a b)‖ ≤ 1 := by
  refine ⟨?_, norm_angSample_le_one (evanescentZ_nonneg p)⟩
  rw [norm_angSample_of_evanescent hr]
  unfold evanescentZ
  rw [ratAbs_eq_abs]

/-- Unrepaired code (finding D30; `evanescentZOld p = z`): an evanescent component propagated by a negative distance is
amplified. -/
theorem Old.angular_sample_grows_of_evanescent (p : Params) (a b : ℚ) (hr : radicand p a b < 0) (hz : p.z < 0) :
    1 < ‖angSample p.z (evanescentZOld p) (radicand p a b)‖ := by
  rw [norm_angSample_of_evanescent hr, Real.one_lt_exp_iff]
  have hR : (0 : ℝ) < -((radicand p a b : ℚ) : ℝ) := by
    have : ((radicand p a b : ℚ) : ℝ) < 0 := by exact_mod_cast hr
    linarith
  have hs : 0 < Real.sqrt (-((radicand p a b : ℚ) : ℝ)) := Real.sqrt_pos.mpr hR
  have hz' : ((evanescentZOld p : ℚ) : ℝ) < 0 := by
    unfold evanescentZOld
    exact_mod_cast hz
  have hpi := Real.pi_pos
  have : 2 * Real.pi * Real.sqrt (-((radicand p a b : ℚ) : ℝ)) * ((evanescentZOld p : ℚ) : ℝ) < 0 :=
    mul_neg_of_pos_of_neg (by positivity) hz'
  linarith

/-- `angSample` at the executed radicand *is* `transfer_function_native` of the angular-spectrum propagator as the code
writes it (`exp(i k_z z)`, `k_z = √(k² - k⊥²)` conjugated for `z < 0`), at `k = 2πn/λ`, `k⊥ = 2πν`. -/
theorem angSample_is_native_transfer_function (p : Params) (hl : p.lam ≠ 0) (ν : ℚ × ℚ) :
    angularAt p ν = angSample p.z (evanescentZ p) (radicand p ν.1 ν.2) :=
  angularAt_of_radicand p hl ν

/-- The Fresnel transfer function of the executed pipeline *is* the sub-pixel mean (over the executed sample frequencies
`subFreqs` of the centred pixel) of `transfer_function_native` as the code writes it: `fresnelAt p ν =
exp(ikz)·exp(-iz k⊥²/2k)` at `k = 2πn/λ`, `k⊥ = 2πν`. -/
theorem fresnelTF_is_sampled_native_transfer_function (p : Params) (hn : p.n ≠ 0) (hl : p.lam ≠ 0) (qy qx : ℕ) :
    fresnelTF cScalar p qy qx
      = listMean ((subFreqs p (ifftshiftIdx (mx p) qx) (ifftshiftIdx (my p) qy)).map (fresnelAt p)) := by
  unfold fresnelTF fresnelSubTurns
  rw [meanTurns_c, List.map_map]
  congr 1
  apply List.map_congr_left
  rintro ⟨a, b⟩ _
  simp only [Function.comp]
  rw [expT_frac, expT_eq_cexp]
  exact (fresnelD_eq_turns p a b hn hl).symm

/-! ### the regime switch: which wavelength decides

The property's regime is worded with *the* wavelength `λ` of the wavefront (`pixel ≥ λ|z|/extent`): the vacuum wavelength.
The code decides with exactly that quantity; the refractive index enters `k` only. -/

/-- **The regime switch is the property's sampling criterion with the vacuum wavelength**: `make_instance` takes the
transfer-function pipeline iff `λ|z|/L_max ≤ δ` on both axes (`L_max = max(dims·delta)`). -/
theorem regime_switch_is_vacuum_wavelength_criterion (p : Params) :
    impulseBranch p = false ↔ p.lam * |p.z| / lmax p ≤ p.dx ∧ p.lam * |p.z| / lmax p ≤ p.dy := by
  unfold impulseBranch threshold
  rw [ratAbs_eq_abs]
  simp [not_lt]

/-- … and does not depend on the refractive index (real, any value: also `n < 1`), nor on padding or oversampling. -/
theorem regime_switch_independent_of_refractive_index (p : Params) (n' : ℚ) :
    impulseBranch (withParam p (.refractiveIndex n')) = impulseBranch p ∧
      statedRegime (withParam p (.refractiveIndex n')) = statedRegime p := ⟨rfl, rfl⟩

/-- The variant that decides with the wavelength in the medium `λ/n` (`impulseBranchMedium`; seeded patch C04-11) agrees
with the property's regime for `n ≥ 1`: whatever the code's switch sends to the transfer-function pipeline, it does too … -/
theorem Alt.medium_wavelength_switch_contains_regime_of_index_ge_one (p : Params) (hn : 1 ≤ p.n) (hlam : 0 ≤ p.lam)
    (hL : 0 < lmax p) (hs : impulseBranch p = false) : impulseBranchMedium p = false := by
  have hle : p.lam / p.n * |p.z| / lmax p ≤ p.lam * |p.z| / lmax p := by
    apply div_le_div_of_nonneg_right _ hL.le
    apply mul_le_mul_of_nonneg_right _ (abs_nonneg _)
    exact div_le_self hlam hn
  obtain ⟨h1, h2⟩ := (regime_switch_is_vacuum_wavelength_criterion p).1 hs
  unfold impulseBranchMedium
  rw [ratAbs_eq_abs]
  simp only [Bool.or_eq_false_iff, decide_eq_false_iff_not, not_lt]
  exact ⟨hle.trans h1, hle.trans h2⟩

/-- … but for `n < 1` it leaves the property's regime: a propagator inside the stated regime (8×8, pixel `4λ`, `n = 1/2`,
`|z| = ¾ z_max`, no padding, no oversampling) for which the medium-wavelength switch takes the impulse-response pipeline,
where unitarity is lost. This is why the model (and the property) fix the vacuum wavelength. -/
theorem Alt.medium_wavelength_switch_leaves_stated_regime :
    ∃ p : Params, padOK p = true ∧ statedRegime p = true ∧ impulseBranch p = false ∧ 0 < p.n ∧ p.n < 1 ∧
      p.sx = 1 ∧ p.sy = 1 ∧ cutout p = none ∧ impulseBranchMedium p = true :=
  ⟨{ kind := .fresnel, nx := 8, ny := 8, dx := 1/4, dy := 1/4, lam := 1/16, z := 6, n := 1/2, qx := 1, qy := 1,
     sx := 1, sy := 1 }, by decide +kernel⟩

/-- The transfer function of the impulse-response branch that the driver computes (`fresnelIrTFc`) *is* the code's:
`δx δy Σ_j ⟨h⟩_j exp(-2πi (i-c)(j-c)/M)` (the centred transform of `FastFourierTransform.forward` on `make_fft_grid` of the
internal grid) of the sub-pixel means of `impulse_response` **as the code writes it**, `fresnelIrAt p x y =
exp(ikz)/(iλz)·exp(i k (x²+y²)/2z)`, `k = 2πn/λ`, at the executed sample points `xCoord`. -/
theorem fresnelIrTF_is_transformed_sampled_impulse_response (p : Params) (hl : p.lam ≠ 0) (hz : p.z ≠ 0) (iy ix : ℕ) :
    fresnelIrTFc cScalar p iy ix
      = ((p.dx * p.dy : ℚ) : ℂ) * Fft.sumRange (my p) fun jy => Fft.sumRange (mx p) fun jx =>
          listMean ((dithers p.sy).flatMap fun dy => (dithers p.sx).map fun dx =>
              fresnelIrAt p (xCoord p.dx (mx p) jx dx) (xCoord p.dy (my p) jy dy))
            * (kF (my p) (centred (my p) jy * centred (my p) iy) * kF (mx p) (centred (mx p) jx * centred (mx p) ix)) :=
  fresnelIrTFc_eq_sampled p hl hz iy ix

/-- The hypotheses of the `fresnelForward_*` theorems are satisfiable together (8×6, `zero_padding = 1`,
`num_oversampling = 1`, inside the stated regime). -/
example : ∃ p : Params, padOK p = true ∧ p.sx = 1 ∧ p.sy = 1 ∧ cutout p = none ∧ statedRegime p = true :=
  ⟨{ kind := .fresnel, nx := 8, ny := 6, dx := 1/4, dy := 1/4, lam := 1/16, z := 1/2, n := 1, qx := 1, qy := 1,
     sx := 1, sy := 1 }, by decide +kernel⟩

/-- … and both signs of the radicand occur on one grid (8×8, pixel `5λ/8`): DC is propagating, the corner evanescent. -/
example : ∃ p : Params, 0 ≤ radicand p 0 0 ∧ radicand p (nu p.dx (mx p) 0 0) (nu p.dy (my p) 0 0) < 0 ∧ p.z < 0 :=
  ⟨{ kind := .angular, nx := 8, ny := 8, dx := 5/8, dy := 5/8, lam := 1, z := -1/4, n := 1, qx := 2, qy := 2,
     sx := 1, sy := 1 }, by decide +kernel⟩

/-! ## dtype / tensor-shape bookkeeping of one `FourierFilter` object: history-independence

`callStep` is `_compute_functions` (driver op `dtypes`, compared with `_transfer_function.dtype`, `internal_array.dtype`,
`internal_array.shape` and the identity of both arrays after every call of a session on one real object). -/

/-- Whatever the state before, after a call with dtype `dt` and tensor shape `ts` the cached transfer function has dtype
`dt` and the scratch array has dtype `dt` and tensor shape `ts`. -/
theorem callStep_state (s : FState) (c : Call) : callStep s c = ⟨some c.dt, some (c.dt, c.ts)⟩ := by
  obtain ⟨tf, arr⟩ := s
  unfold callStep tfRecomputed arrRecomputed
  cases tf <;> cases arr <;> simp <;> grind

/-- **History-independence** (unbounded histories): the state a call leaves behind depends on that call only — not on the
dtypes and tensor shapes of the calls before it, nor on the state the object started from. -/
theorem dtype_state_history_independent (s : FState) (l : List Call) (c : Call) :
    runCalls s (l ++ [c]) = runCalls {} [c] := by
  unfold runCalls
  rw [List.foldl_append]
  simp only [List.foldl_cons, List.foldl_nil]
  rw [callStep_state, callStep_state]

/-- A cached transfer function is reused only when its dtype is the dtype of the field: whenever the dtype of the field
differs from that of the previous call the transfer function is recomputed from its source (never re-cast from the cached,
possibly single-precision, copy). -/
theorem transfer_function_recomputed_on_dtype_change (s : FState) (c c' : Call) (hd : c.dt ≠ c'.dt) :
    tfRecomputed (callStep s c) c' = true := by
  rw [callStep_state]
  unfold tfRecomputed
  simpa using hd

/-- … and it is *not* recomputed when the dtype is unchanged, whatever the tensor shapes (the cache is effective). -/
theorem transfer_function_reused_on_same_dtype (s : FState) (c c' : Call) (hd : c.dt = c'.dt) :
    tfRecomputed (callStep s c) c' = false := by
  rw [callStep_state]
  unfold tfRecomputed
  simpa using hd

/-! ### what the driver op `filt` computes denotes the complex pipeline

The driver runs `filterP` / `filterPBackward` at the scalar type `GRat` (Gaussian rationals) with the kernels
`gKerF`, `gKerB` (powers of `i`, exact for the internal sizes 1, 2, 4) and the scale `1/(My·Mx)`.  The complex numbers
its output denotes are the output of the *same definitions* at `ℂ` with the kernels `exp(∓2πi n/M)` — the operator of
`filterP_linear`, `filterP_adjoint`, `filterP_power_nonincreasing`, … — applied to the complex numbers the inputs denote. -/

theorem filt_forward_denotes_complex_pipeline (p : Params) (hy : my p = 1 ∨ my p = 2 ∨ my p = 4)
    (hx : mx p = 1 ∨ mx p = 2 ∨ mx p = 4) (D x : ℕ → ℕ → GRat) (ky kx : ℕ) :
    GRat.toC (filterP p (gKerF (my p)) (gKerF (mx p)) (gKerB (my p)) (gKerB (mx p))
        ⟨1 / ((my p * mx p : ℕ) : ℚ), 0⟩ D x ky kx)
      = filterP p (kF (my p)) (kF (mx p)) (kB (my p)) (kB (mx p)) (((my p * mx p : ℕ) : ℂ)⁻¹)
          (fun a b => GRat.toC (D a b)) (fun a b => GRat.toC (x a b)) ky kx := by
  unfold filterP
  rw [filterN_map GRat.toC GRat.toC_zero GRat.toC_add GRat.toC_mul, toC_scale,
    funext (toC_gKerF hy), funext (toC_gKerF hx), funext (toC_gKerB hy), funext (toC_gKerB hx)]

theorem filt_backward_denotes_complex_pipeline (p : Params) (hy : my p = 1 ∨ my p = 2 ∨ my p = 4)
    (hx : mx p = 1 ∨ mx p = 2 ∨ mx p = 4) (D x : ℕ → ℕ → GRat) (ky kx : ℕ) :
    GRat.toC (filterPBackward GRat.conj p (gKerF (my p)) (gKerF (mx p)) (gKerB (my p)) (gKerB (mx p))
        ⟨1 / ((my p * mx p : ℕ) : ℚ), 0⟩ D x ky kx)
      = filterPBackward (starRingEnd ℂ) p (kF (my p)) (kF (mx p)) (kB (my p)) (kB (mx p)) (((my p * mx p : ℕ) : ℂ)⁻¹)
          (fun a b => GRat.toC (D a b)) (fun a b => GRat.toC (x a b)) ky kx := by
  unfold filterPBackward filterNBackward
  rw [filterN_map GRat.toC GRat.toC_zero GRat.toC_add GRat.toC_mul, toC_scale,
    funext (toC_gKerF hy), funext (toC_gKerF hx), funext (toC_gKerB hy), funext (toC_gKerB hx)]
  simp only [GRat.toC_conj]

/-- **Every internal size**: the driver op `filtp` runs `fourierFilter psumScalar` — the scalar-polymorphic pipeline at the formal
phase sums (`Fft.PSum`: finite sums of `c·exp(2πi t)` with rational `c`, `t`).  The complex number its output denotes
(`PSum.ev`, which the harness evaluates in floating point and compares with the real `FourierFilter.forward`) is the *same
definition* at `cScalar` (the object of the `fourierFilter_*` theorems) on the denoted inputs. -/
theorem filtp_forward_denotes_complex_pipeline (p : Params) (D x : ℕ → ℕ → Fft.PSum) (ky kx : ℕ) :
    PSum.ev (fourierFilter psumScalar p D x ky kx)
      = fourierFilter cScalar p (fun a b => PSum.ev (D a b)) (fun a b => PSum.ev (x a b)) ky kx :=
  ev_fourierFilter p D x ky kx

theorem filtp_backward_denotes_complex_pipeline (p : Params) (D x : ℕ → ℕ → Fft.PSum) (ky kx : ℕ) :
    PSum.ev (fourierFilterBackward psumScalar p D x ky kx)
      = fourierFilterBackward cScalar p (fun a b => PSum.ev (D a b)) (fun a b => PSum.ev (x a b)) ky kx :=
  ev_fourierFilterBackward p D x ky kx

/-- The inputs of `filtp` (Gaussian rationals written as `a + b·exp(2πi/4)`) denote themselves. -/
theorem filtp_input_denotes (g : GRat) : PSum.ev (psumOfGRat g) = GRat.toC g := ev_psumOfGRat g

/-! ### the matrix-valued transfer function: the executed pipeline `filterMP` (driver op `filtmp`) -/

section pipelineM
variable (p : Params) (h : padOK p = true) {n : ℕ}
include h

local notation "runMF" => filterMP p (kF (my p)) (kF (mx p)) (kB (my p)) (kB (mx p)) (((my p * mx p : ℕ) : ℂ)⁻¹)
local notation "runMB" => filterMPBackward (starRingEnd ℂ) p (kF (my p)) (kF (mx p)) (kB (my p)) (kB (mx p))
  (((my p * mx p : ℕ) : ℂ)⁻¹)

/-- `backward` (the pipeline with the conjugate-transposed matrices) is the exact adjoint of `forward`: the executed
matrix pipeline, any matrices, any padding, any number of components. -/
theorem filterMP_adjoint (D : Fin (my p) × Fin (mx p) → Fin n → Fin n → ℂ) (x y : Fin n → Fin p.ny × Fin p.nx → ℂ) :
    ∑ t, ip (y t) (fun j => runMF (fun py px i k => ext2 (fun m => D m i k) py px) (fun k => ext2 (x k)) t (j.1 : ℕ) (j.2 : ℕ))
      = ∑ t, ip (fun j => runMB (fun py px i k => ext2 (fun m => D m i k) py px) (fun k => ext2 (y k)) t (j.1 : ℕ) (j.2 : ℕ))
          (x t) := by
  have ha := filterM_adjoint_sum (dftPair2 (my p) (mx p) (my_pos h) (mx_pos h)) (cutoutEmb p h) D x y
  rw [filterM_dft2_eq_filterMP p h, filterMBackward_dft2_eq_filterMPBackward p h] at ha
  exact ha

/-- The same about the scalar-polymorphic definitions the driver op `filtmp` runs (`fourierFilterM` /
`fourierFilterMBackward` at `cScalar`): matrix transfer function × vector field, `backward` = adjoint. -/
theorem fourierFilterM_adjoint (D : Fin (my p) × Fin (mx p) → Fin n → Fin n → ℂ) (x y : Fin n → Fin p.ny × Fin p.nx → ℂ) :
    ∑ t, ip (y t) (fun j => fourierFilterM cScalar p (fun py px i k => ext2 (fun m => D m i k) py px)
        (fun k => ext2 (x k)) t (j.1 : ℕ) (j.2 : ℕ))
      = ∑ t, ip (fun j => fourierFilterMBackward cScalar p (fun py px i k => ext2 (fun m => D m i k) py px)
          (fun k => ext2 (y k)) t (j.1 : ℕ) (j.2 : ℕ)) (x t) := by
  rw [fourierFilterM_c, fourierFilterMBackward_c]
  exact filterMP_adjoint p h D x y

/-- Matrix transfer function × matrix-valued (Jones-matrix) field, `field_dot(D, E)` column by column: `backward` is the
adjoint of `forward` in the Frobenius inner product (the family of seeded regression C02-9). -/
theorem fourierFilterM_adjoint_matrix_field {k : ℕ} (D : Fin (my p) × Fin (mx p) → Fin n → Fin n → ℂ)
    (x y : Fin n → Fin k → Fin p.ny × Fin p.nx → ℂ) :
    ∑ l, ∑ t, ip (y t l) (fun j => fourierFilterM cScalar p (fun py px i k => ext2 (fun m => D m i k) py px)
        (fun i => ext2 (x i l)) t (j.1 : ℕ) (j.2 : ℕ))
      = ∑ l, ∑ t, ip (fun j => fourierFilterMBackward cScalar p (fun py px i k => ext2 (fun m => D m i k) py px)
          (fun i => ext2 (y i l)) t (j.1 : ℕ) (j.2 : ℕ)) (x t l) :=
  Finset.sum_congr rfl fun l _ => fourierFilterM_adjoint p h D (fun i => x i l) (fun i => y i l)

end pipelineM

/-- What `filtmp` computes (`fourierFilterM psumScalar`) denotes the same definition at `cScalar` (every internal size,
every `n`). -/
theorem filtmp_forward_denotes_complex_pipeline {n : ℕ} (p : Params) (D : ℕ → ℕ → Fin n → Fin n → Fft.PSum)
    (x : Fin n → ℕ → ℕ → Fft.PSum) (t : Fin n) (ky kx : ℕ) :
    PSum.ev (fourierFilterM psumScalar p D x t ky kx)
      = fourierFilterM cScalar p (fun a b i k => PSum.ev (D a b i k)) (fun k a b => PSum.ev (x k a b)) t ky kx :=
  ev_fourierFilterM p D x t ky kx

theorem filtmp_backward_denotes_complex_pipeline {n : ℕ} (p : Params) (D : ℕ → ℕ → Fin n → Fin n → Fft.PSum)
    (x : Fin n → ℕ → ℕ → Fft.PSum) (t : Fin n) (ky kx : ℕ) :
    PSum.ev (fourierFilterMBackward psumScalar p D x t ky kx)
      = fourierFilterMBackward cScalar p (fun a b i k => PSum.ev (D a b i k)) (fun k a b => PSum.ev (x k a b)) t ky kx :=
  ev_fourierFilterMBackward p D x t ky kx

/-- **The driver's exact Fresnel propagation** (op `prop`: `fresnelForward psumScalar` / `fresnelBackward psumScalar`) denotes
`fresnelForward cScalar` / `fresnelBackward cScalar` — the object of the `fresnel_*` theorems above — of the denoted input. -/
theorem prop_forward_denotes_fresnelForward (p : Params) (X : ℕ → ℕ → Fft.PSum) (ky kx : ℕ) :
    PSum.ev (fresnelForward psumScalar p X ky kx) = fresnelForward cScalar p (fun a b => PSum.ev (X a b)) ky kx :=
  ev_fresnelForward p X ky kx

theorem prop_backward_denotes_fresnelBackward (p : Params) (X : ℕ → ℕ → Fft.PSum) (ky kx : ℕ) :
    PSum.ev (fresnelBackward psumScalar p X ky kx) = fresnelBackward cScalar p (fun a b => PSum.ev (X a b)) ky kx :=
  ev_fresnelBackward p X ky kx

/-- **Op `prop` with the regime switch**: what the driver computes (`fresnelPropagatorForward psumScalar`, either branch)
denotes `fresnelPropagatorForward cScalar` — the object of the `fresnelPropagator_*` theorems — of the denoted input. -/
theorem prop_forward_denotes_fresnelPropagator (p : Params) (X : ℕ → ℕ → Fft.PSum) (ky kx : ℕ) :
    PSum.ev (fresnelPropagatorForward psumScalar p X ky kx)
      = fresnelPropagatorForward cScalar p (fun a b => PSum.ev (X a b)) ky kx :=
  ev_fresnelPropagatorForward p X ky kx

theorem prop_backward_denotes_fresnelPropagator (p : Params) (X : ℕ → ℕ → Fft.PSum) (ky kx : ℕ) :
    PSum.ev (fresnelPropagatorBackward psumScalar p X ky kx)
      = fresnelPropagatorBackward cScalar p (fun a b => PSum.ev (X a b)) ky kx :=
  ev_fresnelPropagatorBackward p X ky kx

/-- Op `tfx`: the transfer function the driver prints (either branch) denotes the one of the theorems, and it is the one
`fresnelPropagatorForward` filters with. -/
theorem tfx_denotes_switched_transfer_function (p : Params) (qy qx : ℕ) :
    PSum.ev (tfOpP p qy qx) = fresnelTFSwitched cScalar p qy qx ∧
      ∀ X, fresnelPropagatorForward cScalar p X = fourierFilter cScalar p (fresnelTFSwitched cScalar p) X :=
  ⟨ev_fresnelTFSwitched p qy qx, fun X => fresnelPropagatorForward_eq cScalar p X⟩

/-- The impulse-response branch is reachable with the hypotheses of the either-branch theorems (4×3, padded to 6×4, `|z|`
above the sampling limit). -/
example : ∃ p : Params, padOK p = true ∧ impulseBranch p = true ∧ p.lam ≠ 0 ∧ p.z ≠ 0 :=
  ⟨{ kind := .fresnel, nx := 4, ny := 3, dx := 1/4, dy := 1/4, lam := 1/16, z := -7, n := 5/4, qx := 3/2, qy := 4/3,
     sx := 2, sy := 2 }, by decide +kernel⟩

/-- The hypotheses of the pipeline theorems are satisfiable with a genuinely padded, exactly executable size
(`2×3` padded to `4×4`, the kernels of which are powers of `i`: a case the driver op `filt` runs). -/
example : ∃ p : Params, padOK p = true ∧ my p = 4 ∧ mx p = 4 ∧ cutout p = some (1, 4, 1, 3) :=
  ⟨{ kind := .fresnel, nx := 2, ny := 3, dx := 1/4, dy := 1/4, lam := 1/16, z := 1/2, n := 1, qx := 2, qy := 4/3,
     sx := 1, sy := 1 }, by decide +kernel⟩

/-- `ifft (fft x) = x` for the DFT specification of `Model/FftIndex.lean`, any length `M > 0`. -/
theorem ifft_fft_dft1 (M : ℕ) (hM : 0 < M) (x : Fin M → ℂ) (p : Fin M) :
    (M : ℂ)⁻¹ * Fft.dft M (kB M) (ext fun q : Fin M => Fft.dft M (kF M) (ext x) (q : ℕ)) (p : ℕ) = x p :=
  congrFun ((dftPair M hM).Finv_F x) p

/-- `fft (ifft y) = y`. -/
theorem fft_ifft_dft1 (M : ℕ) (hM : 0 < M) (y : Fin M → ℂ) (q : Fin M) :
    Fft.dft M (kF M) (ext fun p : Fin M => (M : ℂ)⁻¹ * Fft.dft M (kB M) (ext y) (p : ℕ)) (q : ℕ) = y q :=
  congrFun ((dftPair M hM).F_Finv y) q

/-- Parseval for the DFT specification itself: `Σ_q |fft x q|² = M · Σ_p |x p|²`. -/
theorem parseval_dft1 (M : ℕ) (hM : 0 < M) (x : Fin M → ℂ) :
    nsq (fun q : Fin M => Fft.dft M (kF M) (ext x) (q : ℕ)) = (M : ℝ) * nsq x :=
  (dftPair M hM).nsq_F x

/-- Parseval for `fftn` (`Fft.dft2`): `Σ |fftn x|² = My·Mx · Σ |x|²`. -/
theorem parseval_dft2 (My Mx : ℕ) (hMy : 0 < My) (hMx : 0 < Mx) (x : Fin My × Fin Mx → ℂ) :
    nsq (fun q : Fin My × Fin Mx => Fft.dft2 My Mx (kF My) (kF Mx) (ext2 x) (q.1 : ℕ) (q.2 : ℕ))
      = ((My * Mx : ℕ) : ℝ) * nsq x := by
  have h := (dftPair2 My Mx hMy hMx).nsq_F x
  rw [dftPair2_c] at h
  rw [← h]
  congr 1
  funext q
  exact (dftPair2_F_eq_dft2 My Mx hMy hMx x q.1 q.2).symm

end HcipyVerif.NearField
