import HcipyVerif.Lemmas.Jones
import HcipyVerif.Gen.Stokes
import HcipyVerif.Gen.Mueller
import HcipyVerif.Gen.Retarder
import Mathlib.Tactic.Ring
import Mathlib.Tactic.FieldSimp
import Mathlib.Tactic.LinearCombination
import Mathlib.Tactic.Linarith
import Mathlib.Tactic.IntervalCases
import Mathlib.Analysis.Real.Sqrt

/-!
# C08 — Jones, Mueller and Stokes descriptions of polarisation agree

The definitions under `HcipyVerif.Gen` are **regenerated from the running hcipy on every check**
(tie T2): `stokesI … sV`, `vec*`, `sca*` are the polynomials computed by `Wavefront.I/Q/U/V`,
`sv*`/`vsv*`/`ssv*` the rows of `Wavefront.stokes_vector`, `m11 … m44` the sixteen quadratic forms of
`jones_to_mueller`, `ret*`/`retB*` the Laurent polynomials (in `t = e^{iθ}`, `p = e^{iφ/2}`,
`x = e^{iχ}`) of the matrix `PhaseRetarder.forward/backward` applies, `pol*`, `pbs1*`, `pbs2*` those of
the polariser and of the beam-splitter ports, `cbs1I/cbs2I` the circular beam-splitter port
intensities.  The theorems below compare them with the coherency-matrix specification of
`Model/Jones.lean` (`J · C(S) · Jᴴ`), so a changed coefficient in the code breaks this file's build.
-/
set_option linter.unusedSimpArgs false
set_option linter.unusedVariables false
set_option linter.unusedSectionVars false

namespace HcipyVerif.C08
open HcipyVerif.Jones HcipyVerif.Gen.Stokes HcipyVerif.Gen.Mueller HcipyVerif.Gen.Retarder

/-- The Jones matrix `[[x, y], [z, w]]` from its eight real components. -/
def mkJ (xr xi yr yi zr zi wr wi : ℝ) : J2 ℝ := ⟨⟨xr, xi⟩, ⟨yr, yi⟩, ⟨zr, zi⟩, ⟨wr, wi⟩⟩

/-- The Jones vector `(p, q)` from its four real components. -/
def mkV (pr pi qr qi : ℝ) : V2 ℝ := ⟨⟨pr, pi⟩, ⟨qr, qi⟩⟩

/-- The generated Mueller matrix as a function of (0-based) indices. -/
noncomputable def genMueller (xr xi yr yi zr zi wr wi : ℝ) : Nat → Nat → ℝ
  | 0, 0 => m11 xr xi yr yi zr zi wr wi | 0, 1 => m12 xr xi yr yi zr zi wr wi
  | 0, 2 => m13 xr xi yr yi zr zi wr wi | 0, 3 => m14 xr xi yr yi zr zi wr wi
  | 1, 0 => m21 xr xi yr yi zr zi wr wi | 1, 1 => m22 xr xi yr yi zr zi wr wi
  | 1, 2 => m23 xr xi yr yi zr zi wr wi | 1, 3 => m24 xr xi yr yi zr zi wr wi
  | 2, 0 => m31 xr xi yr yi zr zi wr wi | 2, 1 => m32 xr xi yr yi zr zi wr wi
  | 2, 2 => m33 xr xi yr yi zr zi wr wi | 2, 3 => m34 xr xi yr yi zr zi wr wi
  | 3, 0 => m41 xr xi yr yi zr zi wr wi | 3, 1 => m42 xr xi yr yi zr zi wr wi
  | 3, 2 => m43 xr xi yr yi zr zi wr wi | 3, 3 => m44 xr xi yr yi zr zi wr wi
  | _, _ => 0

/-- Expand the pair arithmetic of the model into real polynomials. -/
macro "jones_expand" : tactic => `(tactic|
  simp only [mkJ, mkV, jonesStokes, vecStokes, scalarStokes, cohOfVec, stokesOfCoh, coh2, S4.half, mulVec,
    polarizer, retarder,
    Cx.add_re, Cx.add_im, Cx.sub_re, Cx.sub_im, Cx.mul_re, Cx.mul_im, Cx.neg_re, Cx.neg_im,
    Cx.conj_re, Cx.conj_im, Cx.smul_re, Cx.smul_im, Cx.normSq,
    J2.mul_a11, J2.mul_a12, J2.mul_a21, J2.mul_a22, J2.add_a11, J2.add_a12, J2.add_a21, J2.add_a22,
    J2.adj_a11, J2.adj_a12, J2.adj_a21, J2.adj_a22, J2.apply_x, J2.apply_y,
    J2.scale_a11, J2.scale_a12, J2.scale_a21, J2.scale_a22, J2.det_def])

macro "gen_unfold" : tactic => `(tactic|
  simp only [genMueller, stokesI, stokesQ, stokesU, stokesV, svI, svQ, svU, svV,
    vecI, vecQ, vecU, vecV, vsvI, vsvQ, vsvU, vsvV, scaI, scaQ, scaU, scaV, ssvI, ssvQ, ssvU, ssvV,
    m11, m12, m13, m14, m21, m22, m23, m24, m31, m32, m33, m34, m41, m42, m43, m44, cbs1I, cbs2I])

macro "ret_unfold" : tactic => `(tactic|
  simp only [ret11, ret12, ret21, ret22, retB11, retB12, retB21, retB22,
    pol11, pol12, pol21, pol22, polB11, polB12, polB21, polB22,
    pbs111, pbs112, pbs121, pbs122, pbs211, pbs212, pbs221, pbs222])

/-- Push complex conjugation through a Laurent polynomial whose atoms satisfy `conj a = a⁻¹`. -/
macro "conj_push" "[" hs:Lean.Parser.Tactic.simpLemma,* "]" : tactic => `(tactic|
  simp only [map_add, map_sub, map_mul, map_pow, map_div₀, map_neg, map_one, map_ofNat, map_inv₀,
    Complex.conj_I, inv_inv, $hs,*])

/-- Close a Laurent-polynomial identity with Gaussian-rational coefficients. -/
macro "laurent" : tactic => `(tactic|
  (field_simp; ring_nf; (try simp only [Complex.I_sq, Complex.I_pow_four]); (try ring_nf)))

/-! ## 1. The hand-expanded I, Q, U, V formulas are the Stokes parameters of `J · C(S) · Jᴴ` -/
section stokes
variable (xr xi yr yi zr zi wr wi a b c d : ℝ)

theorem stokesI_eq : stokesI xr xi yr yi zr zi wr wi a b c d
    = (jonesStokes (mkJ xr xi yr yi zr zi wr wi) ⟨a, b, c, d⟩).i := by
  gen_unfold; jones_expand; ring

theorem stokesQ_eq : stokesQ xr xi yr yi zr zi wr wi a b c d
    = (jonesStokes (mkJ xr xi yr yi zr zi wr wi) ⟨a, b, c, d⟩).q := by
  gen_unfold; jones_expand; ring

theorem stokesU_eq : stokesU xr xi yr yi zr zi wr wi a b c d
    = (jonesStokes (mkJ xr xi yr yi zr zi wr wi) ⟨a, b, c, d⟩).u := by
  gen_unfold; jones_expand; ring

theorem stokesV_eq : stokesV xr xi yr yi zr zi wr wi a b c d
    = (jonesStokes (mkJ xr xi yr yi zr zi wr wi) ⟨a, b, c, d⟩).v := by
  gen_unfold; jones_expand; ring

/-- The sixteen identified quadratic forms of `jones_to_mueller` realise `S ↦ Stokes(J C(S) Jᴴ)`. -/
theorem gen_mueller_eq_coherency :
    mulVec (genMueller xr xi yr yi zr zi wr wi) ⟨a, b, c, d⟩
      = jonesStokes (mkJ xr xi yr yi zr zi wr wi) ⟨a, b, c, d⟩ := by
  jones_expand; gen_unfold
  congr 1 <;> ring

/-- Hence the explicit formulas and the Mueller route give the same Stokes vector. -/
theorem stokes_formulas_eq_mueller_route :
    (⟨stokesI xr xi yr yi zr zi wr wi a b c d, stokesQ xr xi yr yi zr zi wr wi a b c d,
      stokesU xr xi yr yi zr zi wr wi a b c d, stokesV xr xi yr yi zr zi wr wi a b c d⟩ : S4 ℝ)
      = mulVec (genMueller xr xi yr yi zr zi wr wi) ⟨a, b, c, d⟩ := by
  rw [gen_mueller_eq_coherency, stokesI_eq, stokesQ_eq, stokesU_eq, stokesV_eq]

/-- `Wavefront.stokes_vector` (which goes through `jones_to_mueller` and `field_dot`) reports the same
four numbers as the properties `I, Q, U, V` — Jones-matrix wavefronts. -/
theorem stokes_vector_eq_tensor :
    svI xr xi yr yi zr zi wr wi a b c d = stokesI xr xi yr yi zr zi wr wi a b c d ∧
    svQ xr xi yr yi zr zi wr wi a b c d = stokesQ xr xi yr yi zr zi wr wi a b c d ∧
    svU xr xi yr yi zr zi wr wi a b c d = stokesU xr xi yr yi zr zi wr wi a b c d ∧
    svV xr xi yr yi zr zi wr wi a b c d = stokesV xr xi yr yi zr zi wr wi a b c d := by
  refine ⟨?_, ?_, ?_, ?_⟩ <;> (gen_unfold; try ring)

/-- The hand model of `jones_to_mueller`, `Re (U (J ⊗ J̄) Uᴴ)` with hcipy's `_U_matrix`, equals the
identified quadratic forms entry by entry. -/
theorem mueller_def_eq (r k : Nat) (hr : r < 4) (hk : k < 4) :
    muellerDef (mkJ xr xi yr yi zr zi wr wi) r k = genMueller xr xi yr yi zr zi wr wi r k := by
  interval_cases r <;> interval_cases k <;>
  (simp only [muellerDef, sum4, kronConj, uMat, J2.get, mkJ, Nat.reduceDiv, Nat.reduceMod,
    Cx.add_re, Cx.add_im, Cx.mul_re, Cx.mul_im, Cx.conj_re, Cx.conj_im]; gen_unfold; ring)

end stokes

section vector
variable (pr pi qr qi er ei : ℝ)

/-- Jones-vector wavefronts: `I, Q, U, V` are the Stokes parameters of the pure state `E Eᴴ`. -/
theorem vec_stokes_eq :
    (⟨vecI pr pi qr qi, vecQ pr pi qr qi, vecU pr pi qr qi, vecV pr pi qr qi⟩ : S4 ℝ)
      = vecStokes (mkV pr pi qr qi) := by
  gen_unfold; jones_expand; congr 1 <;> ring

theorem stokes_vector_eq_vector :
    vsvI pr pi qr qi = vecI pr pi qr qi ∧ vsvQ pr pi qr qi = vecQ pr pi qr qi ∧
    vsvU pr pi qr qi = vecU pr pi qr qi ∧ vsvV pr pi qr qi = vecV pr pi qr qi := by
  refine ⟨?_, ?_, ?_, ?_⟩ <;> (gen_unfold; try ring)

/-- Scalar wavefronts: the unpolarised convention `(|e|², 0, 0, 0)`. -/
theorem sca_stokes_eq :
    (⟨scaI er ei, scaQ er ei, scaU er ei, scaV er ei⟩ : S4 ℝ) = scalarStokes ⟨er, ei⟩ := by
  gen_unfold; jones_expand; congr 1 <;> ring

theorem stokes_vector_eq_scalar :
    ssvI er ei = scaI er ei ∧ ssvQ er ei = scaQ er ei ∧ ssvU er ei = scaU er ei ∧ ssvV er ei = scaV er ei := by
  refine ⟨?_, ?_, ?_, ?_⟩ <;> (gen_unfold; try ring)

end vector

/-! ## 2. Stokes vector after a Jones element = Mueller matrix · Stokes vector before it -/
section after
variable (xr xi yr yi zr zi wr wi : ℝ)

/-- Jones-vector wavefront `E ↦ J E`. -/
theorem mueller_after_element_vector (e : V2 ℝ) :
    vecStokes ((mkJ xr xi yr yi zr zi wr wi).apply e)
      = mulVec (genMueller xr xi yr yi zr zi wr wi) (vecStokes e) := by
  obtain ⟨⟨pr, pi⟩, ⟨qr, qi⟩⟩ := e
  jones_expand; gen_unfold
  congr 1 <;> ring

/-- Scalar wavefront `e`: hcipy returns the Jones-matrix wavefront `J·e` with input Stokes vector
`(1, 0, 0, 0)`; its Stokes vector is the Mueller matrix applied to `(|e|², 0, 0, 0)`. -/
theorem mueller_after_element_scalar (e : Cx ℝ) :
    jonesStokes ((mkJ xr xi yr yi zr zi wr wi).scale e) ⟨1, 0, 0, 0⟩
      = mulVec (genMueller xr xi yr yi zr zi wr wi) (scalarStokes e) := by
  obtain ⟨er, ei⟩ := e
  jones_expand; gen_unfold
  congr 1 <;> ring

/-- Jones-matrix (partially polarised) wavefront `E ↦ J E` with any input Stokes vector. -/
theorem mueller_after_element_tensor (e : J2 ℝ) (s : S4 ℝ) :
    jonesStokes (mkJ xr xi yr yi zr zi wr wi * e) s
      = mulVec (genMueller xr xi yr yi zr zi wr wi) (jonesStokes e s) := by
  obtain ⟨⟨er1, ei1⟩, ⟨er2, ei2⟩, ⟨er3, ei3⟩, ⟨er4, ei4⟩⟩ := e
  obtain ⟨a, b, c, d⟩ := s
  jones_expand; gen_unfold
  congr 1 <;> ring

end after

/-! ## 3. Degree and angle of polarisation -/
section dop
variable (xr xi yr yi zr zi wr wi a b c d pr pi qr qi : ℝ)

/-- `I² − Q² − U² − V² = |det J|² (a² − b² − c² − d²)` for the generated formulas. -/
theorem stokes_minkowski :
    stokesI xr xi yr yi zr zi wr wi a b c d ^ 2 - stokesQ xr xi yr yi zr zi wr wi a b c d ^ 2
      - stokesU xr xi yr yi zr zi wr wi a b c d ^ 2 - stokesV xr xi yr yi zr zi wr wi a b c d ^ 2
      = (mkJ xr xi yr yi zr zi wr wi).det.normSq * (a ^ 2 - b ^ 2 - c ^ 2 - d ^ 2) := by
  gen_unfold; jones_expand; ring

/-- The reported intensity of a partially polarised wavefront is non-negative for a physical input
Stokes vector (`a ≥ 0`, `b² + c² + d² ≤ a²`). -/
theorem stokesI_nonneg (ha : 0 ≤ a) (hphys : b ^ 2 + c ^ 2 + d ^ 2 ≤ a ^ 2) :
    0 ≤ stokesI xr xi yr yi zr zi wr wi a b c d := by
  -- I = ½ Σ_rows [ a(|x|²+|y|²) + b(|x|²−|y|²) + c·2Re(x ȳ) + d·(−2 Im(x ȳ)) ]  and, per row,
  -- (b·q + c·u + d·v)² ≤ (b²+c²+d²)(q²+u²+v²) ≤ a²·i²  with q²+u²+v² = i² for a pure state
  have key : ∀ (pr pi qr qi : ℝ),
      0 ≤ a * (pr * pr + pi * pi + qr * qr + qi * qi) + b * (pr * pr + pi * pi - qr * qr - qi * qi)
        + c * (2 * (pr * qr + pi * qi)) + d * (2 * (pi * qr - pr * qi)) := by
    intro pr pi qr qi
    set i := pr * pr + pi * pi + qr * qr + qi * qi with hi
    set q := pr * pr + pi * pi - qr * qr - qi * qi with hq
    set u := 2 * (pr * qr + pi * qi) with hu
    set v := 2 * (pi * qr - pr * qi) with hv
    have hpure : q ^ 2 + u ^ 2 + v ^ 2 = i ^ 2 := by rw [hi, hq, hu, hv]; ring
    have hi0 : 0 ≤ i := by rw [hi]; nlinarith [mul_self_nonneg pr, mul_self_nonneg pi, mul_self_nonneg qr, mul_self_nonneg qi]
    have cs : (b * q + c * u + d * v) ^ 2 ≤ (b ^ 2 + c ^ 2 + d ^ 2) * (q ^ 2 + u ^ 2 + v ^ 2) := by
      nlinarith [sq_nonneg (b * u - c * q), sq_nonneg (b * v - d * q), sq_nonneg (c * v - d * u)]
    have h2 : (b * q + c * u + d * v) ^ 2 ≤ (a * i) ^ 2 := by
      have : (b ^ 2 + c ^ 2 + d ^ 2) * (q ^ 2 + u ^ 2 + v ^ 2) ≤ a ^ 2 * i ^ 2 := by
        rw [hpure]; exact mul_le_mul_of_nonneg_right hphys (sq_nonneg i)
      nlinarith
    have hai : 0 ≤ a * i := mul_nonneg ha hi0
    have := abs_le_of_sq_le_sq' h2 hai
    nlinarith [this.1]
  have h1 := key xr xi yr yi
  have h2 := key zr zi wr wi
  have : stokesI xr xi yr yi zr zi wr wi a b c d
      = (1 / 2) * ((a * (xr * xr + xi * xi + yr * yr + yi * yi) + b * (xr * xr + xi * xi - yr * yr - yi * yi)
        + c * (2 * (xr * yr + xi * yi)) + d * (2 * (xi * yr - xr * yi)))
        + (a * (zr * zr + zi * zi + wr * wr + wi * wi) + b * (zr * zr + zi * zi - wr * wr - wi * wi)
        + c * (2 * (zr * wr + zi * wi)) + d * (2 * (zi * wr - zr * wi)))) := by
    gen_unfold; ring
  rw [this]; linarith

/-- The degree of polarisation `sqrt(Q²+U²+V²)/I` computed from a Stokes vector. -/
noncomputable def dop (s : S4 ℝ) : ℝ := Real.sqrt (s.q ^ 2 + s.u ^ 2 + s.v ^ 2) / s.i

/-- `degree_of_polarization` is consistent with `stokes_vector` (both are functions of the same four
numbers — `stokes_vector_eq_*`; the first conjunct is only that rewrite, as the audit notes), and for a physical input
Stokes vector it is at most one.  `dop` is a specification function; what the *code* computes is tied in section 8
(`S4.dopSq` run by op `degrees`, `model_degrees_sqrt : √dopSq = dop`, `model_dopSq_tensor_le_one`). -/
theorem dop_consistent_tensor (ha : 0 ≤ a) (hphys : b ^ 2 + c ^ 2 + d ^ 2 ≤ a ^ 2)
    (hI : 0 < stokesI xr xi yr yi zr zi wr wi a b c d) :
    dop ⟨svI xr xi yr yi zr zi wr wi a b c d, svQ xr xi yr yi zr zi wr wi a b c d,
         svU xr xi yr yi zr zi wr wi a b c d, svV xr xi yr yi zr zi wr wi a b c d⟩
      = dop ⟨stokesI xr xi yr yi zr zi wr wi a b c d, stokesQ xr xi yr yi zr zi wr wi a b c d,
             stokesU xr xi yr yi zr zi wr wi a b c d, stokesV xr xi yr yi zr zi wr wi a b c d⟩ ∧
    dop ⟨stokesI xr xi yr yi zr zi wr wi a b c d, stokesQ xr xi yr yi zr zi wr wi a b c d,
         stokesU xr xi yr yi zr zi wr wi a b c d, stokesV xr xi yr yi zr zi wr wi a b c d⟩ ≤ 1 := by
  obtain ⟨h1, h2, h3, h4⟩ := stokes_vector_eq_tensor xr xi yr yi zr zi wr wi a b c d
  refine ⟨by rw [h1, h2, h3, h4], ?_⟩
  unfold dop
  rw [div_le_one hI, Real.sqrt_le_left hI.le]
  have hm := stokes_minkowski xr xi yr yi zr zi wr wi a b c d
  have hdet : 0 ≤ (mkJ xr xi yr yi zr zi wr wi).det.normSq := by
    unfold Cx.normSq; nlinarith [mul_self_nonneg (mkJ xr xi yr yi zr zi wr wi).det.re, mul_self_nonneg (mkJ xr xi yr yi zr zi wr wi).det.im]
  have : 0 ≤ (mkJ xr xi yr yi zr zi wr wi).det.normSq * (a ^ 2 - b ^ 2 - c ^ 2 - d ^ 2) :=
    mul_nonneg hdet (by linarith)
  simp only at this ⊢
  linarith

/-- A Jones-vector wavefront is fully polarised: `Q² + U² + V² = I²`, so its degree of polarisation is 1. -/
theorem dop_vector_eq_one (hI : 0 < vecI pr pi qr qi) :
    dop ⟨vecI pr pi qr qi, vecQ pr pi qr qi, vecU pr pi qr qi, vecV pr pi qr qi⟩ = 1 := by
  have h : vecQ pr pi qr qi ^ 2 + vecU pr pi qr qi ^ 2 + vecV pr pi qr qi ^ 2 = vecI pr pi qr qi ^ 2 := by
    gen_unfold; ring
  unfold dop
  simp only
  rw [h, Real.sqrt_sq hI.le, div_self hI.ne']

/-- A scalar wavefront is reported unpolarised: degree of polarisation 0. -/
theorem dop_scalar_eq_zero (er ei : ℝ) : dop ⟨scaI er ei, scaQ er ei, scaU er ei, scaV er ei⟩ = 0 := by
  have hq : scaQ er ei = 0 := by gen_unfold; try ring
  have hu : scaU er ei = 0 := by gen_unfold; try ring
  have hv : scaV er ei = 0 := by gen_unfold; try ring
  unfold dop
  simp [hq, hu, hv]

/-- Angle of linear polarisation: for light linearly polarised at angle ψ (Jones vector
`A·(cos ψ, sin ψ)`, `A` complex) the reported `(Q, U, V)` is `|A|²·(cos 2ψ, sin 2ψ, 0)`, so
`½ atan2(U, Q)` is ψ (mod π). -/
theorem aolp_linear (ar ai cs sn : ℝ) :
    vecQ (ar * cs) (ai * cs) (ar * sn) (ai * sn) = (ar * ar + ai * ai) * (cs ^ 2 - sn ^ 2) ∧
    vecU (ar * cs) (ai * cs) (ar * sn) (ai * sn) = (ar * ar + ai * ai) * (2 * cs * sn) ∧
    vecV (ar * cs) (ai * cs) (ar * sn) (ai * sn) = 0 := by
  refine ⟨?_, ?_, ?_⟩ <;> (gen_unfold; ring)

end dop

/-! ## 4. Retarders: unitary, backward inverts forward

Atoms: `t = e^{iθ}`, `p = e^{iφ/2}`, `x = e^{iχ}`; unimodularity is `conj a = a⁻¹`. -/
section retarder
open Complex
variable (t p x : ℂ)

/-- The matrix applied by `backward` times the matrix applied by `forward` is the identity
(only `t, p, x ≠ 0` is needed: a Laurent-polynomial identity). -/
theorem retarder_backward_inverse (ht : t ≠ 0) (hp : p ≠ 0) (hx : x ≠ 0) :
    retB11 t t⁻¹ p p⁻¹ x x⁻¹ * ret11 t t⁻¹ p p⁻¹ x x⁻¹ + retB12 t t⁻¹ p p⁻¹ x x⁻¹ * ret21 t t⁻¹ p p⁻¹ x x⁻¹ = 1 ∧
    retB11 t t⁻¹ p p⁻¹ x x⁻¹ * ret12 t t⁻¹ p p⁻¹ x x⁻¹ + retB12 t t⁻¹ p p⁻¹ x x⁻¹ * ret22 t t⁻¹ p p⁻¹ x x⁻¹ = 0 ∧
    retB21 t t⁻¹ p p⁻¹ x x⁻¹ * ret11 t t⁻¹ p p⁻¹ x x⁻¹ + retB22 t t⁻¹ p p⁻¹ x x⁻¹ * ret21 t t⁻¹ p p⁻¹ x x⁻¹ = 0 ∧
    retB21 t t⁻¹ p p⁻¹ x x⁻¹ * ret12 t t⁻¹ p p⁻¹ x x⁻¹ + retB22 t t⁻¹ p p⁻¹ x x⁻¹ * ret22 t t⁻¹ p p⁻¹ x x⁻¹ = 1 := by
  refine ⟨?_, ?_, ?_, ?_⟩ <;> (ret_unfold; laurent)

/-- `backward` applies the conjugate transpose of what `forward` applies. -/
theorem retarder_backward_is_adjoint (ht : (starRingEnd ℂ) t = t⁻¹) (hp : (starRingEnd ℂ) p = p⁻¹)
    (hx : (starRingEnd ℂ) x = x⁻¹) :
    retB11 t t⁻¹ p p⁻¹ x x⁻¹ = (starRingEnd ℂ) (ret11 t t⁻¹ p p⁻¹ x x⁻¹) ∧
    retB12 t t⁻¹ p p⁻¹ x x⁻¹ = (starRingEnd ℂ) (ret21 t t⁻¹ p p⁻¹ x x⁻¹) ∧
    retB21 t t⁻¹ p p⁻¹ x x⁻¹ = (starRingEnd ℂ) (ret12 t t⁻¹ p p⁻¹ x x⁻¹) ∧
    retB22 t t⁻¹ p p⁻¹ x x⁻¹ = (starRingEnd ℂ) (ret22 t t⁻¹ p p⁻¹ x x⁻¹) := by
  refine ⟨?_, ?_, ?_, ?_⟩ <;> (ret_unfold; conj_push [ht, hp, hx]; ring)

/-- The retarder Jones matrix is unitary: `Jᴴ J = 1`. -/
theorem retarder_unitary (ht0 : t ≠ 0) (hp0 : p ≠ 0) (hx0 : x ≠ 0)
    (ht : (starRingEnd ℂ) t = t⁻¹) (hp : (starRingEnd ℂ) p = p⁻¹) (hx : (starRingEnd ℂ) x = x⁻¹) :
    (starRingEnd ℂ) (ret11 t t⁻¹ p p⁻¹ x x⁻¹) * ret11 t t⁻¹ p p⁻¹ x x⁻¹
      + (starRingEnd ℂ) (ret21 t t⁻¹ p p⁻¹ x x⁻¹) * ret21 t t⁻¹ p p⁻¹ x x⁻¹ = 1 ∧
    (starRingEnd ℂ) (ret11 t t⁻¹ p p⁻¹ x x⁻¹) * ret12 t t⁻¹ p p⁻¹ x x⁻¹
      + (starRingEnd ℂ) (ret21 t t⁻¹ p p⁻¹ x x⁻¹) * ret22 t t⁻¹ p p⁻¹ x x⁻¹ = 0 ∧
    (starRingEnd ℂ) (ret12 t t⁻¹ p p⁻¹ x x⁻¹) * ret11 t t⁻¹ p p⁻¹ x x⁻¹
      + (starRingEnd ℂ) (ret22 t t⁻¹ p p⁻¹ x x⁻¹) * ret21 t t⁻¹ p p⁻¹ x x⁻¹ = 0 ∧
    (starRingEnd ℂ) (ret12 t t⁻¹ p p⁻¹ x x⁻¹) * ret12 t t⁻¹ p p⁻¹ x x⁻¹
      + (starRingEnd ℂ) (ret22 t t⁻¹ p p⁻¹ x x⁻¹) * ret22 t t⁻¹ p p⁻¹ x x⁻¹ = 1 := by
  obtain ⟨a11, a12, a21, a22⟩ := retarder_backward_is_adjoint t p x ht hp hx
  obtain ⟨i11, i12, i21, i22⟩ := retarder_backward_inverse t p x ht0 hp0 hx0
  rw [← a11, ← a12, ← a21, ← a22]
  exact ⟨i11, i12, i21, i22⟩

/-- Retarders conserve `I` for every Jones vector. -/
theorem retarder_conserves_intensity (e1 e2 : ℂ) (ht0 : t ≠ 0) (hp0 : p ≠ 0) (hx0 : x ≠ 0)
    (ht : (starRingEnd ℂ) t = t⁻¹) (hp : (starRingEnd ℂ) p = p⁻¹) (hx : (starRingEnd ℂ) x = x⁻¹) :
    (starRingEnd ℂ) (ret11 t t⁻¹ p p⁻¹ x x⁻¹ * e1 + ret12 t t⁻¹ p p⁻¹ x x⁻¹ * e2)
        * (ret11 t t⁻¹ p p⁻¹ x x⁻¹ * e1 + ret12 t t⁻¹ p p⁻¹ x x⁻¹ * e2)
      + (starRingEnd ℂ) (ret21 t t⁻¹ p p⁻¹ x x⁻¹ * e1 + ret22 t t⁻¹ p p⁻¹ x x⁻¹ * e2)
        * (ret21 t t⁻¹ p p⁻¹ x x⁻¹ * e1 + ret22 t t⁻¹ p p⁻¹ x x⁻¹ * e2)
      = (starRingEnd ℂ) e1 * e1 + (starRingEnd ℂ) e2 * e2 := by
  obtain ⟨h11, h12, h21, h22⟩ := retarder_unitary t p x ht0 hp0 hx0 ht hp hx
  exact unitary_conserves_intensity _ _ _ _ e1 e2 h11 h12 h21 h22

/-- The hypotheses are satisfiable: `t = p = x = 1` (θ = φ = χ = 0), more generally any point of
the unit circle. -/
example : (1 : ℂ) ≠ 0 ∧ (starRingEnd ℂ) (1 : ℂ) = (1 : ℂ)⁻¹ := by simp

example : (Complex.I) ≠ 0 ∧ (starRingEnd ℂ) Complex.I = Complex.I⁻¹ := by
  refine ⟨Complex.I_ne_zero, ?_⟩
  rw [Complex.conj_I, Complex.inv_I]

end retarder

/-! ## 5. Linear polariser: idempotent, Hermitian, Malus' law; beam splitters -/
section polarizer
open Complex
variable (t u : ℂ)

theorem polarizer_idempotent (ht : t ≠ 0) :
    pol11 t t⁻¹ * pol11 t t⁻¹ + pol12 t t⁻¹ * pol21 t t⁻¹ = pol11 t t⁻¹ ∧
    pol11 t t⁻¹ * pol12 t t⁻¹ + pol12 t t⁻¹ * pol22 t t⁻¹ = pol12 t t⁻¹ ∧
    pol21 t t⁻¹ * pol11 t t⁻¹ + pol22 t t⁻¹ * pol21 t t⁻¹ = pol21 t t⁻¹ ∧
    pol21 t t⁻¹ * pol12 t t⁻¹ + pol22 t t⁻¹ * pol22 t t⁻¹ = pol22 t t⁻¹ := by
  refine ⟨?_, ?_, ?_, ?_⟩ <;> (ret_unfold; laurent)

theorem polarizer_hermitian (ht : (starRingEnd ℂ) t = t⁻¹) :
    (starRingEnd ℂ) (pol11 t t⁻¹) = pol11 t t⁻¹ ∧ (starRingEnd ℂ) (pol12 t t⁻¹) = pol21 t t⁻¹ ∧
    (starRingEnd ℂ) (pol21 t t⁻¹) = pol12 t t⁻¹ ∧ (starRingEnd ℂ) (pol22 t t⁻¹) = pol22 t t⁻¹ := by
  refine ⟨?_, ?_, ?_, ?_⟩ <;> (ret_unfold; conj_push [ht]; ring)

/-- `backward` through a polariser applies the same (Hermitian) matrix as `forward`. -/
theorem polarizer_backward_eq_forward (ti : ℂ) :
    polB11 t ti = pol11 t ti ∧ polB12 t ti = pol12 t ti ∧ polB21 t ti = pol21 t ti ∧ polB22 t ti = pol22 t ti := by
  refine ⟨?_, ?_, ?_, ?_⟩ <;> (ret_unfold; try ring)

/-- **Malus' law.**  Light of complex amplitude `A`, linearly polarised at angle α (`u = e^{iα}`,
Jones vector `A·(cos α, sin α) = A·((u+u⁻¹)/2, (u−u⁻¹)/(2i))`), leaves a polariser at angle θ
(`t = e^{iθ}`) with intensity `|A|² cos²(θ−α)`, `cos(θ−α) = (t u⁻¹ + t⁻¹ u)/2`. -/
theorem malus (A : ℂ) (ht0 : t ≠ 0) (hu0 : u ≠ 0)
    (ht : (starRingEnd ℂ) t = t⁻¹) (hu : (starRingEnd ℂ) u = u⁻¹) :
    let e1 := A * ((u + u⁻¹) / 2)
    let e2 := A * ((u - u⁻¹) / (2 * Complex.I))
    (starRingEnd ℂ) (pol11 t t⁻¹ * e1 + pol12 t t⁻¹ * e2) * (pol11 t t⁻¹ * e1 + pol12 t t⁻¹ * e2)
      + (starRingEnd ℂ) (pol21 t t⁻¹ * e1 + pol22 t t⁻¹ * e2) * (pol21 t t⁻¹ * e1 + pol22 t t⁻¹ * e2)
      = (starRingEnd ℂ) A * A * ((t * u⁻¹ + t⁻¹ * u) / 2) ^ 2 := by
  intro e1 e2
  simp only [e1, e2]
  ret_unfold
  conj_push [ht, hu]
  have hI : Complex.I ≠ 0 := Complex.I_ne_zero
  field_simp
  ring_nf
  simp only [Complex.I_sq, Complex.I_pow_four]
  ring_nf
  try simp only [Complex.I_sq, Complex.I_pow_four]
  try ring

/-- The two ports of the linear polarising beam splitter are the polariser at θ and a complementary
projector: their Jones matrices add up to the identity … -/
theorem pbs_ports_sum (ti : ℂ) :
    pbs111 t ti = pol11 t ti ∧ pbs112 t ti = pol12 t ti ∧ pbs121 t ti = pol21 t ti ∧ pbs122 t ti = pol22 t ti ∧
    pbs111 t ti + pbs211 t ti = 1 ∧ pbs112 t ti + pbs212 t ti = 0 ∧
    pbs121 t ti + pbs221 t ti = 0 ∧ pbs122 t ti + pbs222 t ti = 1 := by
  refine ⟨?_, ?_, ?_, ?_, ?_, ?_, ?_, ?_⟩ <;> (ret_unfold; try ring)

/-- … and the port intensities add up to the input intensity for every Jones vector. -/
theorem pbs_intensities_add (e1 e2 : ℂ) (ht0 : t ≠ 0) (ht : (starRingEnd ℂ) t = t⁻¹) :
    ((starRingEnd ℂ) (pbs111 t t⁻¹ * e1 + pbs112 t t⁻¹ * e2) * (pbs111 t t⁻¹ * e1 + pbs112 t t⁻¹ * e2)
      + (starRingEnd ℂ) (pbs121 t t⁻¹ * e1 + pbs122 t t⁻¹ * e2) * (pbs121 t t⁻¹ * e1 + pbs122 t t⁻¹ * e2))
    + ((starRingEnd ℂ) (pbs211 t t⁻¹ * e1 + pbs212 t t⁻¹ * e2) * (pbs211 t t⁻¹ * e1 + pbs212 t t⁻¹ * e2)
      + (starRingEnd ℂ) (pbs221 t t⁻¹ * e1 + pbs222 t t⁻¹ * e2) * (pbs221 t t⁻¹ * e1 + pbs222 t t⁻¹ * e2))
      = (starRingEnd ℂ) e1 * e1 + (starRingEnd ℂ) e2 * e2 := by
  ret_unfold
  conj_push [ht]
  field_simp
  ring_nf
  simp only [Complex.I_sq, Complex.I_pow_four]
  ring_nf
  try simp only [Complex.I_sq, Complex.I_pow_four]
  try ring

/-- Partially polarised light through the two ports `P(θ)`, `P(θ+π/2)` (model matrices with
`c = cos θ`, `s = sin θ`): the two reported intensities add up to the input intensity. -/
theorem pbs_ports_sum_tensor (c s : ℝ) (h : c ^ 2 + s ^ 2 = 1) (e : J2 ℝ) (sv : S4 ℝ) :
    (jonesStokes (polarizer c s * e) sv).i + (jonesStokes (polarizer (-s) c * e) sv).i
      = (jonesStokes e sv).i := by
  obtain ⟨⟨er1, ei1⟩, ⟨er2, ei2⟩, ⟨er3, ei3⟩, ⟨er4, ei4⟩⟩ := e
  obtain ⟨a, b, cc, d⟩ := sv
  have e : (jonesStokes (polarizer c s * (⟨⟨er1, ei1⟩, ⟨er2, ei2⟩, ⟨er3, ei3⟩, ⟨er4, ei4⟩⟩ : J2 ℝ)) ⟨a, b, cc, d⟩).i
        + (jonesStokes (polarizer (-s) c * (⟨⟨er1, ei1⟩, ⟨er2, ei2⟩, ⟨er3, ei3⟩, ⟨er4, ei4⟩⟩ : J2 ℝ)) ⟨a, b, cc, d⟩).i
      = (c ^ 2 + s ^ 2) ^ 2 * (jonesStokes (⟨⟨er1, ei1⟩, ⟨er2, ei2⟩, ⟨er3, ei3⟩, ⟨er4, ei4⟩⟩ : J2 ℝ) ⟨a, b, cc, d⟩).i := by
    jones_expand
    ring
  rw [e, h]; ring

variable (pr pi qr qi : ℝ)

/-- Circular beam splitter: the two port intensities add up to the input intensity and their
difference is Stokes `V` (port 1 carries `(I − V)/2`, port 2 `(I + V)/2`). -/
theorem cbs_ports_sum :
    cbs1I pr pi qr qi + cbs2I pr pi qr qi = vecI pr pi qr qi ∧
    cbs2I pr pi qr qi - cbs1I pr pi qr qi = vecV pr pi qr qi := by
  refine ⟨?_, ?_⟩ <;> (gen_unfold; ring)

end polarizer

/-! ## 6. The hand model of the retarder / polariser is what the code applies -/
section model
variable (c s pc ps xc xs : ℝ)

/-- With `t = c + i s`, `p = pc + i ps`, `x = xc + i xs` on the unit circle, the Laurent polynomials
identified from `PhaseRetarder.forward` are the entries of `Model.retarder`. -/
theorem gen_retarder_eq_model (h : c ^ 2 + s ^ 2 = 1) :
    let t : ℂ := ⟨c, s⟩; let ti : ℂ := ⟨c, -s⟩
    let p : ℂ := ⟨pc, ps⟩; let pi : ℂ := ⟨pc, -ps⟩
    let x : ℂ := ⟨xc, xs⟩; let xi : ℂ := ⟨xc, -xs⟩
    ret11 t ti p pi x xi = (retarder c s ⟨pc, ps⟩ ⟨xc, xs⟩).a11.toComplex ∧
    ret12 t ti p pi x xi = (retarder c s ⟨pc, ps⟩ ⟨xc, xs⟩).a12.toComplex ∧
    ret21 t ti p pi x xi = (retarder c s ⟨pc, ps⟩ ⟨xc, xs⟩).a21.toComplex ∧
    ret22 t ti p pi x xi = (retarder c s ⟨pc, ps⟩ ⟨xc, xs⟩).a22.toComplex := by
  intro t ti p pi x xi
  have hs : s ^ 2 = 1 - c ^ 2 := by linarith
  refine ⟨?_, ?_, ?_, ?_⟩ <;>
  (apply Complex.ext <;>
   (ret_unfold
    simp only [t, ti, p, pi, x, xi, Cx.toComplex]
    jones_expand
    simp [pow_two]
    ring_nf
    try (simp only [hs]; ring)))

theorem gen_polarizer_eq_model (h : c ^ 2 + s ^ 2 = 1) :
    let t : ℂ := ⟨c, s⟩; let ti : ℂ := ⟨c, -s⟩
    pol11 t ti = (polarizer c s).a11.toComplex ∧ pol12 t ti = (polarizer c s).a12.toComplex ∧
    pol21 t ti = (polarizer c s).a21.toComplex ∧ pol22 t ti = (polarizer c s).a22.toComplex := by
  intro t ti
  have hs : s ^ 2 = 1 - c ^ 2 := by linarith
  refine ⟨?_, ?_, ?_, ?_⟩ <;>
  (apply Complex.ext <;>
   (ret_unfold
    simp only [t, ti, Cx.toComplex]
    jones_expand
    simp [pow_two]
    ring_nf
    try (simp only [hs]; ring)))

example : (3 / 5 : ℝ) ^ 2 + (4 / 5) ^ 2 = 1 := by norm_num

end model

/-! ## 7. Round 4: unitary elements and partially polarised light; port 2 of the beam splitter -/

section unitaryTensor
variable (xr xi yr yi zr zi wr wi : ℝ)

/-- First row of the generated Mueller matrix of a unitary Jones matrix is `(1, 0, 0, 0)`. -/
theorem unitary_mueller_first_row (h : IsUnitary8 xr xi yr yi zr zi wr wi) :
    genMueller xr xi yr yi zr zi wr wi 0 0 = 1 ∧ genMueller xr xi yr yi zr zi wr wi 0 1 = 0 ∧
    genMueller xr xi yr yi zr zi wr wi 0 2 = 0 ∧ genMueller xr xi yr yi zr zi wr wi 0 3 = 0 := by
  obtain ⟨h1, h2, h3, h4⟩ := h
  refine ⟨?_, ?_, ?_, ?_⟩ <;> gen_unfold
  · linear_combination (1 / 2) * h1 + (1 / 2) * h2
  · linear_combination (1 / 2) * h1 - (1 / 2) * h2
  · linear_combination h3
  · linear_combination -h4

/-- … hence a unitary Jones element conserves the reported intensity of *every* Jones-matrix (partially
polarised) wavefront, whatever its input Stokes vector. -/
theorem unitary_conserves_I_tensor (h : IsUnitary8 xr xi yr yi zr zi wr wi) (e : J2 ℝ) (s : S4 ℝ) :
    (jonesStokes (mkJ xr xi yr yi zr zi wr wi * e) s).i = (jonesStokes e s).i := by
  obtain ⟨r0, r1, r2, r3⟩ := unitary_mueller_first_row xr xi yr yi zr zi wr wi h
  rw [mueller_after_element_tensor]
  simp only [mulVec]
  rw [r0, r1, r2, r3]; ring

/-- `IsUnitary8` is satisfiable by a non-trivial matrix (`[[i, 0], [0, (3+4i)/5]]`). -/
example : IsUnitary8 0 1 0 0 0 0 (3/5) (4/5) := by
  unfold IsUnitary8; norm_num
end unitaryTensor

section retarderTensor
open Complex
variable (t p x : ℂ)

/-- **Audit R4.** The Mueller matrix (generated `jones_to_mueller`) of the matrix `PhaseRetarder.forward` applies
(generated `ret*`) has first row `(1, 0, 0, 0)`: `I` is conserved for every Stokes vector. -/
theorem retarder_mueller_first_row (ht0 : t ≠ 0) (hp0 : p ≠ 0) (hx0 : x ≠ 0)
    (ht : (starRingEnd ℂ) t = t⁻¹) (hp : (starRingEnd ℂ) p = p⁻¹) (hx : (starRingEnd ℂ) x = x⁻¹) (k : Nat) (hk : k < 4) :
    genMueller (ret11 t t⁻¹ p p⁻¹ x x⁻¹).re (ret11 t t⁻¹ p p⁻¹ x x⁻¹).im (ret12 t t⁻¹ p p⁻¹ x x⁻¹).re (ret12 t t⁻¹ p p⁻¹ x x⁻¹).im
      (ret21 t t⁻¹ p p⁻¹ x x⁻¹).re (ret21 t t⁻¹ p p⁻¹ x x⁻¹).im (ret22 t t⁻¹ p p⁻¹ x x⁻¹).re (ret22 t t⁻¹ p p⁻¹ x x⁻¹).im 0 k
      = if k = 0 then 1 else 0 := by
  obtain ⟨h11, h12, h21, h22⟩ := retarder_unitary t p x ht0 hp0 hx0 ht hp hx
  obtain ⟨r0, r1, r2, r3⟩ := unitary_mueller_first_row _ _ _ _ _ _ _ _ (unitary8_of_complex _ _ _ _ h11 h12 h22)
  interval_cases k <;> simp [r0, r1, r2, r3]

/-- Ideal retarders conserve `I` for Jones-matrix wavefronts (C07's tensor clause for retarders). -/
theorem retarder_conserves_I_tensor (ht0 : t ≠ 0) (hp0 : p ≠ 0) (hx0 : x ≠ 0)
    (ht : (starRingEnd ℂ) t = t⁻¹) (hp : (starRingEnd ℂ) p = p⁻¹) (hx : (starRingEnd ℂ) x = x⁻¹) (e : J2 ℝ) (s : S4 ℝ) :
    (jonesStokes (mkJ (ret11 t t⁻¹ p p⁻¹ x x⁻¹).re (ret11 t t⁻¹ p p⁻¹ x x⁻¹).im (ret12 t t⁻¹ p p⁻¹ x x⁻¹).re (ret12 t t⁻¹ p p⁻¹ x x⁻¹).im
      (ret21 t t⁻¹ p p⁻¹ x x⁻¹).re (ret21 t t⁻¹ p p⁻¹ x x⁻¹).im (ret22 t t⁻¹ p p⁻¹ x x⁻¹).re (ret22 t t⁻¹ p p⁻¹ x x⁻¹).im * e) s).i
      = (jonesStokes e s).i := by
  obtain ⟨h11, h12, h21, h22⟩ := retarder_unitary t p x ht0 hp0 hx0 ht hp hx
  exact unitary_conserves_I_tensor _ _ _ _ _ _ _ _ (unitary8_of_complex _ _ _ _ h11 h12 h22) e s

/-- `backward ∘ forward = id` on Jones-matrix wavefronts (matrix product with any 2×2 complex field). -/
theorem retarder_backward_forward_tensor (ht : t ≠ 0) (hp : p ≠ 0) (hx : x ≠ 0) (e11 e12 e21 e22 : ℂ) :
    let f11 := ret11 t t⁻¹ p p⁻¹ x x⁻¹ * e11 + ret12 t t⁻¹ p p⁻¹ x x⁻¹ * e21
    let f12 := ret11 t t⁻¹ p p⁻¹ x x⁻¹ * e12 + ret12 t t⁻¹ p p⁻¹ x x⁻¹ * e22
    let f21 := ret21 t t⁻¹ p p⁻¹ x x⁻¹ * e11 + ret22 t t⁻¹ p p⁻¹ x x⁻¹ * e21
    let f22 := ret21 t t⁻¹ p p⁻¹ x x⁻¹ * e12 + ret22 t t⁻¹ p p⁻¹ x x⁻¹ * e22
    retB11 t t⁻¹ p p⁻¹ x x⁻¹ * f11 + retB12 t t⁻¹ p p⁻¹ x x⁻¹ * f21 = e11 ∧
    retB11 t t⁻¹ p p⁻¹ x x⁻¹ * f12 + retB12 t t⁻¹ p p⁻¹ x x⁻¹ * f22 = e12 ∧
    retB21 t t⁻¹ p p⁻¹ x x⁻¹ * f11 + retB22 t t⁻¹ p p⁻¹ x x⁻¹ * f21 = e21 ∧
    retB21 t t⁻¹ p p⁻¹ x x⁻¹ * f12 + retB22 t t⁻¹ p p⁻¹ x x⁻¹ * f22 = e22 := by
  intro f11 f12 f21 f22
  obtain ⟨i11, i12, i21, i22⟩ := retarder_backward_inverse t p x ht hp hx
  simp only [f11, f12, f21, f22]
  refine ⟨?_, ?_, ?_, ?_⟩
  · linear_combination e11 * i11 + e21 * i12
  · linear_combination e12 * i11 + e22 * i12
  · linear_combination e11 * i21 + e21 * i22
  · linear_combination e12 * i21 + e22 * i22
end retarderTensor

section model2
variable (c s : ℝ)
/-- Port 2 of the linear polarising beam splitter applies `polarizer (-s) c` (the polariser at θ+π/2). -/
theorem pbs2_eq_model (h : c ^ 2 + s ^ 2 = 1) :
    let t : ℂ := ⟨c, s⟩; let ti : ℂ := ⟨c, -s⟩
    pbs211 t ti = (polarizer (-s) c).a11.toComplex ∧ pbs212 t ti = (polarizer (-s) c).a12.toComplex ∧
    pbs221 t ti = (polarizer (-s) c).a21.toComplex ∧ pbs222 t ti = (polarizer (-s) c).a22.toComplex := by
  intro t ti
  have hs : s ^ 2 = 1 - c ^ 2 := by linarith
  refine ⟨?_, ?_, ?_, ?_⟩ <;>
  (apply Complex.ext <;>
   (ret_unfold
    simp only [t, ti, Cx.toComplex]
    jones_expand
    simp [pow_two]
    ring_nf
    try (simp only [hs]; ring)))
end model2
/-! ## 8. Round 4: the reported degrees and angle of polarisation, on the executable model

`S4.dopSq`, `S4.dolpSq`, `S4.qn`, `S4.un`, `S4.vn` of `Model/Jones.lean` are run by driver op `degrees` on the Stokes vector
of the model (`jonesStokes` / `vecStokes` / `scalarStokes`) and compared by the harness with the code's
`degree_of_polarization²`, `degree_of_linear_polarization²`, `degree_of_circular_polarization`,
`ellipticity·(1 + dolp)` and `(cos, sin)(2·angle_of_linear_polarization)·dolp`; `model_degrees_sqrt`,
`model_ellipticity` and `model_aolp` are the bridges from the code's square-root / atan2 formulas to these. -/
section degrees

/-- `dop² = dolp² + docp²`. -/
theorem model_dopSq_split (s : S4 ℝ) : s.dopSq = s.dolpSq + s.vn ^ 2 := by
  unfold S4.dopSq S4.dolpSq S4.vn
  rw [add_div, div_pow]; ring

/-- `dolp² = (Q/I)² + (U/I)²`. -/
theorem model_dolpSq_split (s : S4 ℝ) : s.dolpSq = s.qn ^ 2 + s.un ^ 2 := by
  unfold S4.dolpSq S4.qn S4.un
  rw [add_div, div_pow, div_pow]; ring

/-- Bridge to the specification function `dop` and to the code's square-root formulas (`0 < I`). -/
theorem model_degrees_sqrt (s : S4 ℝ) (hI : 0 < s.i) :
    Real.sqrt s.dopSq = dop s ∧ Real.sqrt s.dolpSq = Real.sqrt (s.q ^ 2 + s.u ^ 2) / s.i := by
  have h2 : s.i * s.i = s.i ^ 2 := by ring
  constructor
  · unfold S4.dopSq dop
    rw [h2, Real.sqrt_div' _ (sq_nonneg _), Real.sqrt_sq hI.le]; congr 2; ring
  · unfold S4.dolpSq
    rw [h2, Real.sqrt_div' _ (sq_nonneg _), Real.sqrt_sq hI.le]; congr 2; ring

/-- `ellipticity = V/(I+√(Q²+U²))` in terms of the model outputs: `ε · (1 + dolp) = V/I`. -/
theorem model_ellipticity (s : S4 ℝ) (hI : 0 < s.i) :
    s.v / (s.i + Real.sqrt (s.q ^ 2 + s.u ^ 2)) * (1 + Real.sqrt s.dolpSq) = s.vn := by
  rw [(model_degrees_sqrt s hI).2]
  unfold S4.vn
  have hr := Real.sqrt_nonneg (s.q ^ 2 + s.u ^ 2)
  have : s.i + Real.sqrt (s.q ^ 2 + s.u ^ 2) ≠ 0 := by positivity
  field_simp

/-- `angle_of_linear_polarization = ½ atan2(U, Q)`: any angle `α` with `(cos 2α, sin 2α)·√(Q²+U²) = (Q, U)` satisfies
`cos 2α · dolp = Q/I`, `sin 2α · dolp = U/I` (what the harness compares). -/
theorem model_aolp (s : S4 ℝ) (hI : 0 < s.i) (c2 s2 : ℝ) (hc : c2 * Real.sqrt (s.q ^ 2 + s.u ^ 2) = s.q)
    (hs : s2 * Real.sqrt (s.q ^ 2 + s.u ^ 2) = s.u) :
    c2 * Real.sqrt s.dolpSq = s.qn ∧ s2 * Real.sqrt s.dolpSq = s.un := by
  rw [(model_degrees_sqrt s hI).2]
  unfold S4.qn S4.un
  constructor
  · rw [← mul_div_assoc, hc]
  · rw [← mul_div_assoc, hs]

/-- Minkowski identity for the model: `I² − Q² − U² − V² = |det J|²·(a² − b² − c² − d²)`. -/
theorem model_minkowski (e : J2 ℝ) (s : S4 ℝ) :
    (jonesStokes e s).i ^ 2 - (jonesStokes e s).q ^ 2 - (jonesStokes e s).u ^ 2 - (jonesStokes e s).v ^ 2
      = e.det.normSq * (s.i ^ 2 - s.q ^ 2 - s.u ^ 2 - s.v ^ 2) := by
  obtain ⟨⟨xr, xi⟩, ⟨yr, yi⟩, ⟨zr, zi⟩, ⟨wr, wi⟩⟩ := e
  obtain ⟨a, b, c, d⟩ := s
  have := stokes_minkowski xr xi yr yi zr zi wr wi a b c d
  rw [stokesI_eq, stokesQ_eq, stokesU_eq, stokesV_eq] at this
  exact this

/-- Partially polarised light: the reported degree of polarisation is at most one for a physical input Stokes vector. -/
theorem model_dopSq_tensor_le_one (e : J2 ℝ) (s : S4 ℝ) (hphys : s.q ^ 2 + s.u ^ 2 + s.v ^ 2 ≤ s.i ^ 2)
    (hI : 0 < (jonesStokes e s).i) : (jonesStokes e s).dopSq ≤ 1 := by
  have hm := model_minkowski e s
  have hdet : 0 ≤ e.det.normSq := by
    unfold Cx.normSq; nlinarith [mul_self_nonneg e.det.re, mul_self_nonneg e.det.im]
  have h0 : 0 ≤ e.det.normSq * (s.i ^ 2 - s.q ^ 2 - s.u ^ 2 - s.v ^ 2) := mul_nonneg hdet (by linarith)
  unfold S4.dopSq
  rw [div_le_one (by positivity)]
  nlinarith

/-- Jones-vector wavefronts are fully polarised. -/
theorem model_dopSq_vector_eq_one (e : V2 ℝ) (hI : 0 < (vecStokes e).i) : (vecStokes e).dopSq = 1 := by
  obtain ⟨⟨pr, pi⟩, ⟨qr, qi⟩⟩ := e
  unfold S4.dopSq
  rw [div_eq_one_iff_eq (by positivity)]
  jones_expand; ring

/-- Scalar wavefronts are reported unpolarised. -/
theorem model_dopSq_scalar_eq_zero (e : Cx ℝ) : (scalarStokes e).dopSq = 0 ∧ (scalarStokes e).dolpSq = 0 ∧ (scalarStokes e).vn = 0 := by
  simp [S4.dopSq, S4.dolpSq, S4.vn, scalarStokes]

/-- Light linearly polarised at angle ψ (`A·(cos ψ, sin ψ)`, `A ≠ 0` complex): `(Q/I, U/I, V/I) = (cos 2ψ, sin 2ψ, 0)`, `dolp = 1`. -/
theorem model_aolp_linear (A : Cx ℝ) (cs sn : ℝ) (h : cs ^ 2 + sn ^ 2 = 1) (hA : 0 < A.normSq) :
    (vecStokes ⟨Cx.smul cs A, Cx.smul sn A⟩).qn = cs ^ 2 - sn ^ 2 ∧
    (vecStokes ⟨Cx.smul cs A, Cx.smul sn A⟩).un = 2 * cs * sn ∧
    (vecStokes ⟨Cx.smul cs A, Cx.smul sn A⟩).vn = 0 ∧
    (vecStokes ⟨Cx.smul cs A, Cx.smul sn A⟩).dolpSq = 1 := by
  obtain ⟨ar, ai⟩ := A
  simp only [Cx.normSq] at hA
  have hi : (vecStokes ⟨Cx.smul cs ⟨ar, ai⟩, Cx.smul sn ⟨ar, ai⟩⟩).i = ar * ar + ai * ai := by
    jones_expand; linear_combination (ar * ar + ai * ai) * h
  have hq : (vecStokes ⟨Cx.smul cs ⟨ar, ai⟩, Cx.smul sn ⟨ar, ai⟩⟩).q = (ar * ar + ai * ai) * (cs ^ 2 - sn ^ 2) := by
    jones_expand; ring
  have hu : (vecStokes ⟨Cx.smul cs ⟨ar, ai⟩, Cx.smul sn ⟨ar, ai⟩⟩).u = (ar * ar + ai * ai) * (2 * cs * sn) := by
    jones_expand; ring
  have hv : (vecStokes ⟨Cx.smul cs ⟨ar, ai⟩, Cx.smul sn ⟨ar, ai⟩⟩).v = 0 := by
    jones_expand; ring
  have hne : ar * ar + ai * ai ≠ 0 := hA.ne'
  refine ⟨?_, ?_, ?_, ?_⟩
  · unfold S4.qn; rw [hi, hq]; exact mul_div_cancel_left₀ _ hne
  · unfold S4.un; rw [hi, hu]; exact mul_div_cancel_left₀ _ hne
  · unfold S4.vn; rw [hv]; simp
  · unfold S4.dolpSq; rw [hi, hq, hu, div_eq_one_iff_eq (by positivity)]
    have : (cs ^ 2 - sn ^ 2) ^ 2 + (2 * cs * sn) ^ 2 = 1 := by
      have : (cs ^ 2 - sn ^ 2) ^ 2 + (2 * cs * sn) ^ 2 = (cs ^ 2 + sn ^ 2) ^ 2 := by ring
      rw [this, h]; ring
    linear_combination (ar * ar + ai * ai) ^ 2 * this

example : (3 / 5 : ℝ) ^ 2 + (4 / 5) ^ 2 = 1 ∧ 0 < (⟨1, 2⟩ : Cx ℝ).normSq := by
  constructor <;> norm_num [Cx.normSq]

end degrees

/-! ## 9. Round 4: every retarder class, through the executable model

The subclasses map their parameters in Python; the harness sends the atoms each class implies to driver op `retarder` and compares
with the class's `jones_matrix`, so the theorems below (about `Model.retarder`) speak about all six classes. -/
section modelRetarder
variable (c s pc ps xc xs : ℝ)

/-- `Jᴴ J = 1` for the executable retarder with atoms on the unit circle. -/
theorem model_retarder_unitary (h : c ^ 2 + s ^ 2 = 1) (hp : pc ^ 2 + ps ^ 2 = 1) (hx : xc ^ 2 + xs ^ 2 = 1) :
    IsUnitary8 (retarder c s ⟨pc, ps⟩ ⟨xc, xs⟩).a11.re (retarder c s ⟨pc, ps⟩ ⟨xc, xs⟩).a11.im
      (retarder c s ⟨pc, ps⟩ ⟨xc, xs⟩).a12.re (retarder c s ⟨pc, ps⟩ ⟨xc, xs⟩).a12.im
      (retarder c s ⟨pc, ps⟩ ⟨xc, xs⟩).a21.re (retarder c s ⟨pc, ps⟩ ⟨xc, xs⟩).a21.im
      (retarder c s ⟨pc, ps⟩ ⟨xc, xs⟩).a22.re (retarder c s ⟨pc, ps⟩ ⟨xc, xs⟩).a22.im := by
  obtain ⟨t0, ti, tc⟩ := unit_circle c s h
  obtain ⟨p0, pi, pcj⟩ := unit_circle pc ps hp
  obtain ⟨x0, xi, xcj⟩ := unit_circle xc xs hx
  have hgen := gen_retarder_eq_model c s pc ps xc xs h
  simp only at hgen
  rw [← ti, ← pi, ← xi] at hgen
  obtain ⟨g11, g12, g21, g22⟩ := hgen
  obtain ⟨h11, h12, h21, h22⟩ := retarder_unitary (⟨c, s⟩ : ℂ) ⟨pc, ps⟩ ⟨xc, xs⟩ t0 p0 x0 tc pcj xcj
  have key := unitary8_of_complex _ _ _ _ h11 h12 h22
  rw [g11, g12, g21, g22] at key
  exact key

/-- **The executable retarder** (`Model.retarder`, driver op `retarder`, compared with `jones_matrix` of *every* retarder class
— `PhaseRetarder`, `LinearRetarder` (χ = 0), `CircularRetarder` (θ = π/4, χ = π/2), `QuarterWavePlate` (φ/2 = π/4),
`HalfWavePlate` and `GeometricPhaseElement` (φ/2 = π/2) — at the atoms the class implies) conserves the intensity of every
Jones-matrix (partially polarised) wavefront, for atoms on the unit circle. -/
theorem model_retarder_conserves_I_tensor (h : c ^ 2 + s ^ 2 = 1) (hp : pc ^ 2 + ps ^ 2 = 1) (hx : xc ^ 2 + xs ^ 2 = 1)
    (e : J2 ℝ) (sv : S4 ℝ) :
    (jonesStokes (retarder c s ⟨pc, ps⟩ ⟨xc, xs⟩ * e) sv).i = (jonesStokes e sv).i := by
  obtain ⟨t0, ti, tc⟩ := unit_circle c s h
  obtain ⟨p0, pi, pcj⟩ := unit_circle pc ps hp
  obtain ⟨x0, xi, xcj⟩ := unit_circle xc xs hx
  have hgen := gen_retarder_eq_model c s pc ps xc xs h
  simp only at hgen
  rw [← ti, ← pi, ← xi] at hgen
  obtain ⟨g11, g12, g21, g22⟩ := hgen
  have key := retarder_conserves_I_tensor (⟨c, s⟩ : ℂ) ⟨pc, ps⟩ ⟨xc, xs⟩ t0 p0 x0 tc pcj xcj e sv
  rw [g11, g12, g21, g22] at key
  exact key

/-- The atoms implied by the subclasses lie on the unit circle (`√½` for quarter-wave retardance and for the circular retarder). -/
example : (0 : ℝ) ^ 2 + 1 ^ 2 = 1 ∧ (1 : ℝ) ^ 2 + 0 ^ 2 = 1 ∧ Real.sqrt (1 / 2) ^ 2 + Real.sqrt (1 / 2) ^ 2 = 1 := by
  refine ⟨by norm_num, by norm_num, ?_⟩
  rw [Real.sq_sqrt (by norm_num)]; norm_num

end modelRetarder

/-- In the executable model `backward` (`Jᴴ·`, op `applyadj`) undoes `forward` (`J·`, op `apply`) for every unitary `J`. -/
theorem model_unitary_backward_forward (j : J2 ℝ)
    (h : IsUnitary8 j.a11.re j.a11.im j.a12.re j.a12.im j.a21.re j.a21.im j.a22.re j.a22.im) (e : V2 ℝ) :
    j.adj.apply (j.apply e) = e := by
  obtain ⟨⟨xr, xi⟩, ⟨yr, yi⟩, ⟨zr, zi⟩, ⟨wr, wi⟩⟩ := j
  obtain ⟨⟨pr, pi⟩, ⟨qr, qi⟩⟩ := e
  obtain ⟨h1, h2, h3, h4⟩ := h
  simp only at h1 h2 h3 h4
  have e1 : ((J2.adj ⟨⟨xr, xi⟩, ⟨yr, yi⟩, ⟨zr, zi⟩, ⟨wr, wi⟩⟩).apply ((⟨⟨xr, xi⟩, ⟨yr, yi⟩, ⟨zr, zi⟩, ⟨wr, wi⟩⟩ : J2 ℝ).apply ⟨⟨pr, pi⟩, ⟨qr, qi⟩⟩)).x.re = pr := by
    jones_model_expand; linear_combination pr * h1 + qr * h3 - qi * h4
  have e2 : ((J2.adj ⟨⟨xr, xi⟩, ⟨yr, yi⟩, ⟨zr, zi⟩, ⟨wr, wi⟩⟩).apply ((⟨⟨xr, xi⟩, ⟨yr, yi⟩, ⟨zr, zi⟩, ⟨wr, wi⟩⟩ : J2 ℝ).apply ⟨⟨pr, pi⟩, ⟨qr, qi⟩⟩)).x.im = pi := by
    jones_model_expand; linear_combination pi * h1 + qi * h3 + qr * h4
  have e3 : ((J2.adj ⟨⟨xr, xi⟩, ⟨yr, yi⟩, ⟨zr, zi⟩, ⟨wr, wi⟩⟩).apply ((⟨⟨xr, xi⟩, ⟨yr, yi⟩, ⟨zr, zi⟩, ⟨wr, wi⟩⟩ : J2 ℝ).apply ⟨⟨pr, pi⟩, ⟨qr, qi⟩⟩)).y.re = qr := by
    jones_model_expand; linear_combination pr * h3 + pi * h4 + qr * h2
  have e4 : ((J2.adj ⟨⟨xr, xi⟩, ⟨yr, yi⟩, ⟨zr, zi⟩, ⟨wr, wi⟩⟩).apply ((⟨⟨xr, xi⟩, ⟨yr, yi⟩, ⟨zr, zi⟩, ⟨wr, wi⟩⟩ : J2 ℝ).apply ⟨⟨pr, pi⟩, ⟨qr, qi⟩⟩)).y.im = qi := by
    jones_model_expand; linear_combination pi * h3 - pr * h4 + qi * h2
  generalize ((J2.adj ⟨⟨xr, xi⟩, ⟨yr, yi⟩, ⟨zr, zi⟩, ⟨wr, wi⟩⟩).apply ((⟨⟨xr, xi⟩, ⟨yr, yi⟩, ⟨zr, zi⟩, ⟨wr, wi⟩⟩ : J2 ℝ).apply ⟨⟨pr, pi⟩, ⟨qr, qi⟩⟩)) = r at e1 e2 e3 e4
  obtain ⟨⟨a, b⟩, ⟨c, d⟩⟩ := r
  simp only at e1 e2 e3 e4
  rw [e1, e2, e3, e4]


/-! ## 10. Round 4: both beam splitters on the executable model, partially polarised light included -/
section splitter
variable (c s cq sq pc ps xc xs : ℝ)

/-- **Both beam splitters, partially polarised light** (audit: "CBS for tensors: none"): the executable ports
`P(θ)·R·E`, `P(θ+π/2)·R·E` (`Model.splitterPorts`, driver op `ports`; `R` the identity for the linear splitter, the
quarter-wave plate at 45° for the circular one) carry together exactly the input intensity, for every Jones-matrix
field and every input Stokes vector. -/
theorem model_splitter_ports_sum_tensor (h : c ^ 2 + s ^ 2 = 1) (hq : cq ^ 2 + sq ^ 2 = 1) (hp : pc ^ 2 + ps ^ 2 = 1)
    (hx : xc ^ 2 + xs ^ 2 = 1) (e : J2 ℝ) (sv : S4 ℝ) :
    (jonesStokes (splitterPorts c s (retarder cq sq ⟨pc, ps⟩ ⟨xc, xs⟩) e).1 sv).i
      + (jonesStokes (splitterPorts c s (retarder cq sq ⟨pc, ps⟩ ⟨xc, xs⟩) e).2 sv).i = (jonesStokes e sv).i := by
  unfold splitterPorts
  simp only
  rw [polarizer_ports_split c s h, model_retarder_conserves_I_tensor cq sq pc ps xc xs hq hp hx]

/-- A unitary matrix conserves the intensity of a Jones vector, in the executable model. -/
theorem model_unitary_conserves_I_vector (j : J2 ℝ)
    (h : IsUnitary8 j.a11.re j.a11.im j.a12.re j.a12.im j.a21.re j.a21.im j.a22.re j.a22.im) (e : V2 ℝ) :
    (vecStokes (j.apply e)).i = (vecStokes e).i := by
  obtain ⟨⟨xr, xi⟩, ⟨yr, yi⟩, ⟨zr, zi⟩, ⟨wr, wi⟩⟩ := j
  obtain ⟨⟨pr, pi⟩, ⟨qr, qi⟩⟩ := e
  obtain ⟨h1, h2, h3, h4⟩ := h
  simp only at h1 h2 h3 h4
  jones_model_expand
  linear_combination (pr * pr + pi * pi) * h1 + (qr * qr + qi * qi) * h2 + 2 * (pr * qr + pi * qi) * h3
    - 2 * (pr * qi - pi * qr) * h4

/-- The complementary projectors split the intensity of a Jones vector. -/
theorem model_polarizer_ports_split_vector (h : c ^ 2 + s ^ 2 = 1) (e : V2 ℝ) :
    (vecStokes ((polarizer c s).apply e)).i + (vecStokes ((polarizer (-s) c).apply e)).i = (vecStokes e).i := by
  obtain ⟨⟨pr, pi⟩, ⟨qr, qi⟩⟩ := e
  have e1 : (vecStokes ((polarizer c s).apply ⟨⟨pr, pi⟩, ⟨qr, qi⟩⟩)).i + (vecStokes ((polarizer (-s) c).apply ⟨⟨pr, pi⟩, ⟨qr, qi⟩⟩)).i
      = (c ^ 2 + s ^ 2) ^ 2 * (vecStokes (⟨⟨pr, pi⟩, ⟨qr, qi⟩⟩ : V2 ℝ)).i := by
    jones_model_expand; ring
  rw [e1, h]; ring

/-- … and the two ports of either beam splitter add up to the input intensity for Jones-vector wavefronts. -/
theorem model_splitter_ports_sum_vector (h : c ^ 2 + s ^ 2 = 1) (hq : cq ^ 2 + sq ^ 2 = 1) (hp : pc ^ 2 + ps ^ 2 = 1)
    (hx : xc ^ 2 + xs ^ 2 = 1) (e : V2 ℝ) :
    (vecStokes (splitterPortsV c s (retarder cq sq ⟨pc, ps⟩ ⟨xc, xs⟩) e).1).i
      + (vecStokes (splitterPortsV c s (retarder cq sq ⟨pc, ps⟩ ⟨xc, xs⟩) e).2).i = (vecStokes e).i := by
  unfold splitterPortsV
  simp only
  rw [model_polarizer_ports_split_vector c s h,
    model_unitary_conserves_I_vector _ (model_retarder_unitary cq sq pc ps xc xs hq hp hx)]

/-- The atoms of the two splitters satisfy the hypotheses: linear (`R = 1`: `p = x = 1`, any θ) and circular
(`θ = 0`, quarter-wave plate at 45°: `cq = sq = √½`, `p = (√½, √½)`, `x = 1`). -/
example : (3 / 5 : ℝ) ^ 2 + (4 / 5) ^ 2 = 1 ∧ (1 : ℝ) ^ 2 + 0 ^ 2 = 1 ∧ Real.sqrt (1 / 2) ^ 2 + Real.sqrt (1 / 2) ^ 2 = 1 := by
  refine ⟨by norm_num, by norm_num, ?_⟩
  rw [Real.sq_sqrt (by norm_num)]; norm_num

end splitter

/-! ## 11. Round 5: the clauses about retarders, polarisers and beam splitters on the executed matrices

`retarder`, `polarizer`, `splitterPorts`, `muellerDef`, `J2.adj`, `J2.apply` are the definitions the driver runs (ops `retarder`,
`polarizer`, `ports`, `mueller`, `applyadj`, `apply`) and the harness compares with `jones_matrix`, `mueller_matrix`, `forward` and
`backward` of the real elements at Gaussian-rational atoms. -/
section round5
variable (c s pc ps xc xs : ℝ)

/-- **Mueller route = Jones route on the executed definitions**, for every Jones matrix: the Stokes vector after `J` is the executed
`muellerDef J` applied to the Stokes vector before it (partially polarised light, any input Stokes vector). -/
theorem model_mueller_route_tensor (j e : J2 ℝ) (sv : S4 ℝ) :
    jonesStokes (j * e) sv = mulVec (muellerDef j) (jonesStokes e sv) := by
  obtain ⟨⟨xr, xi⟩, ⟨yr, yi⟩, ⟨zr, zi⟩, ⟨wr, wi⟩⟩ := j
  have h := mueller_after_element_tensor xr xi yr yi zr zi wr wi e sv
  have hm : ∀ r k, r < 4 → k < 4 → muellerDef (⟨⟨xr, xi⟩, ⟨yr, yi⟩, ⟨zr, zi⟩, ⟨wr, wi⟩⟩ : J2 ℝ) r k = genMueller xr xi yr yi zr zi wr wi r k :=
    fun r k hr hk => mueller_def_eq xr xi yr yi zr zi wr wi r k hr hk
  unfold mkJ at h
  rw [h]
  simp only [mulVec]
  rw [hm 0 0, hm 0 1, hm 0 2, hm 0 3, hm 1 0, hm 1 1, hm 1 2, hm 1 3, hm 2 0, hm 2 1, hm 2 2, hm 2 3, hm 3 0, hm 3 1, hm 3 2, hm 3 3] <;>
    norm_num

/-- … in particular for the executed retarder (all six retarder classes), the executed polariser and both ports of either
beam splitter: `mueller_matrix · stokes(before) = stokes(after)`. -/
theorem model_elements_mueller_route (e : J2 ℝ) (sv : S4 ℝ) :
    jonesStokes (retarder c s ⟨pc, ps⟩ ⟨xc, xs⟩ * e) sv = mulVec (muellerDef (retarder c s ⟨pc, ps⟩ ⟨xc, xs⟩)) (jonesStokes e sv) ∧
    jonesStokes (polarizer c s * e) sv = mulVec (muellerDef (polarizer c s)) (jonesStokes e sv) ∧
    jonesStokes (splitterPorts c s (retarder pc ps ⟨xc, xs⟩ ⟨1, 0⟩) e).1 sv
      = mulVec (muellerDef (polarizer c s)) (mulVec (muellerDef (retarder pc ps ⟨xc, xs⟩ ⟨1, 0⟩)) (jonesStokes e sv)) ∧
    jonesStokes (splitterPorts c s (retarder pc ps ⟨xc, xs⟩ ⟨1, 0⟩) e).2 sv
      = mulVec (muellerDef (polarizer (-s) c)) (mulVec (muellerDef (retarder pc ps ⟨xc, xs⟩ ⟨1, 0⟩)) (jonesStokes e sv)) := by
  refine ⟨model_mueller_route_tensor _ e sv, model_mueller_route_tensor _ e sv, ?_, ?_⟩ <;>
  · unfold splitterPorts
    simp only
    rw [model_mueller_route_tensor, model_mueller_route_tensor]

/-- **The executed linear polariser is an idempotent Hermitian projector**: `P·P = P` and `Pᴴ = P` (so `backward`, which applies
`Pᴴ`, is `forward`). -/
theorem model_polarizer_projector (h : c ^ 2 + s ^ 2 = 1) :
    polarizer c s * polarizer c s = polarizer c s ∧ (polarizer c s).adj = polarizer c s := by
  have cx_ext : ∀ {a b : Cx ℝ}, a.re = b.re → a.im = b.im → a = b := by
    intro a b h1 h2; cases a; cases b; simp only at h1 h2; rw [h1, h2]
  constructor
  · have e1 : c * c * (c * c) + c * s * (c * s) = c * c := by linear_combination (c * c) * h
    have e2 : c * c * (c * s) + c * s * (s * s) = c * s := by linear_combination (c * s) * h
    have e3 : c * s * (c * s) + s * s * (s * s) = s * s := by linear_combination (s * s) * h
    have e4 : c * s * (c * c) + s * s * (c * s) = c * s := by linear_combination (c * s) * h
    show J2.mul _ _ = _
    simp only [J2.mul, polarizer, J2.mk.injEq]
    refine ⟨?_, ?_, ?_, ?_⟩ <;> apply cx_ext <;>
      simp only [Cx.add_re, Cx.add_im, Cx.mul_re, Cx.mul_im, mul_zero, zero_mul, sub_zero, add_zero] <;>
      first | exact e1 | exact e2 | exact e3 | exact e4
  · simp only [J2.adj, polarizer, Cx.conj, neg_zero]

/-- **Malus' law on the executed polariser**: linearly polarised light `A·(cos α, sin α)` behind a polariser at angle θ carries
`|A|² cos²(θ − α)` (`cos(θ − α) = c·ca + s·sa`). -/
theorem model_malus (ca sa : ℝ) (h : c ^ 2 + s ^ 2 = 1) (A : Cx ℝ) :
    (vecStokes ((polarizer c s).apply ⟨Cx.smul ca A, Cx.smul sa A⟩)).i = A.normSq * (c * ca + s * sa) ^ 2 := by
  obtain ⟨ar, ai⟩ := A
  have e1 : (vecStokes ((polarizer c s).apply ⟨Cx.smul ca ⟨ar, ai⟩, Cx.smul sa ⟨ar, ai⟩⟩)).i
      = (c ^ 2 + s ^ 2) * ((ar * ar + ai * ai) * (c * ca + s * sa) ^ 2) := by
    jones_model_expand; ring
  rw [e1, h, one_mul]; simp only [Cx.normSq]

/-- **Retarders on the executed definitions**: `backward` (`Jᴴ·`) undoes `forward` (`J·`) on Jones vectors, and the first row of the
executed Mueller matrix is `(1, 0, 0, 0)` (the intensity is conserved whatever the Stokes vector). -/
theorem model_retarder_backward_forward (h : c ^ 2 + s ^ 2 = 1) (hp : pc ^ 2 + ps ^ 2 = 1) (hx : xc ^ 2 + xs ^ 2 = 1) (e : V2 ℝ) :
    (retarder c s ⟨pc, ps⟩ ⟨xc, xs⟩).adj.apply ((retarder c s ⟨pc, ps⟩ ⟨xc, xs⟩).apply e) = e ∧
    muellerDef (retarder c s ⟨pc, ps⟩ ⟨xc, xs⟩) 0 0 = 1 ∧ muellerDef (retarder c s ⟨pc, ps⟩ ⟨xc, xs⟩) 0 1 = 0 ∧
    muellerDef (retarder c s ⟨pc, ps⟩ ⟨xc, xs⟩) 0 2 = 0 ∧ muellerDef (retarder c s ⟨pc, ps⟩ ⟨xc, xs⟩) 0 3 = 0 := by
  have hu := model_retarder_unitary c s pc ps xc xs h hp hx
  refine ⟨model_unitary_backward_forward _ hu e, ?_⟩
  generalize retarder c s ⟨pc, ps⟩ ⟨xc, xs⟩ = j at hu ⊢
  obtain ⟨⟨xr, xi⟩, ⟨yr, yi⟩, ⟨zr, zi⟩, ⟨wr, wi⟩⟩ := j
  obtain ⟨r0, r1, r2, r3⟩ := unitary_mueller_first_row xr xi yr yi zr zi wr wi hu
  have hm : ∀ k, k < 4 → muellerDef (⟨⟨xr, xi⟩, ⟨yr, yi⟩, ⟨zr, zi⟩, ⟨wr, wi⟩⟩ : J2 ℝ) 0 k = genMueller xr xi yr yi zr zi wr wi 0 k :=
    fun k hk => mueller_def_eq xr xi yr yi zr zi wr wi 0 k (by norm_num) hk
  rw [hm 0 (by norm_num), hm 1 (by norm_num), hm 2 (by norm_num), hm 3 (by norm_num)]
  exact ⟨r0, r1, r2, r3⟩

/-- The hypotheses are satisfiable (Pythagorean angle, quarter-wave retardance, circularity 0). -/
example : (3 / 5 : ℝ) ^ 2 + (4 / 5) ^ 2 = 1 ∧ Real.sqrt (1 / 2) ^ 2 + Real.sqrt (1 / 2) ^ 2 = 1 ∧ (1 : ℝ) ^ 2 + 0 ^ 2 = 1 := by
  refine ⟨by norm_num, ?_, by norm_num⟩
  rw [Real.sq_sqrt (by norm_num)]; norm_num

/-- **Circular polarising beam splitter on the executed definitions** (`splitterPorts 1 0 R`, `R` the executed retarder at the atoms of a
quarter-wave plate at 45°: `cos θ = sin θ = h`, `exp(iφ/2) = h + h i`, `exp(iχ) = 1`, `h = √½`, i.e. `2h² = 1`): `R = h·[[1, i], [i, 1]]`
and the difference of the two port intensities is the circular Stokes parameter `V` of the input, for partially polarised light and
every input Stokes vector (their sum is `I`: `model_splitter_ports_sum_tensor`). -/
theorem model_cbs_ports_difference (h : ℝ) (hh : 2 * (h * h) = 1) (e : J2 ℝ) (sv : S4 ℝ) :
    retarder h h ⟨h, h⟩ ⟨1, 0⟩ = ⟨⟨h, 0⟩, ⟨0, h⟩, ⟨0, h⟩, ⟨h, 0⟩⟩ ∧
    (jonesStokes (splitterPorts 1 0 (retarder h h ⟨h, h⟩ ⟨1, 0⟩) e).2 sv).i
      - (jonesStokes (splitterPorts 1 0 (retarder h h ⟨h, h⟩ ⟨1, 0⟩) e).1 sv).i = (jonesStokes e sv).v := by
  have cx_ext : ∀ {a b : Cx ℝ}, a.re = b.re → a.im = b.im → a = b := by
    intro a b h1 h2; cases a; cases b; simp only at h1 h2; rw [h1, h2]
  have hr : retarder h h ⟨h, h⟩ ⟨1, 0⟩ = (⟨⟨h, 0⟩, ⟨0, h⟩, ⟨0, h⟩, ⟨h, 0⟩⟩ : J2 ℝ) := by
    simp only [retarder, J2.mk.injEq]
    refine ⟨?_, ?_, ?_, ?_⟩ <;> apply cx_ext <;>
      simp only [Cx.smul, Cx.add_re, Cx.add_im, Cx.sub_re, Cx.sub_im, Cx.mul_re, Cx.mul_im, Cx.conj_re, Cx.conj_im] <;>
      first | linear_combination h * hh | linear_combination (-h) * hh | ring
  refine ⟨hr, ?_⟩
  rw [hr]
  obtain ⟨⟨er1, ei1⟩, ⟨er2, ei2⟩, ⟨er3, ei3⟩, ⟨er4, ei4⟩⟩ := e
  obtain ⟨a, b, c, d⟩ := sv
  unfold splitterPorts
  simp only
  have key : (jonesStokes (polarizer (-0) 1 * ((⟨⟨h, 0⟩, ⟨0, h⟩, ⟨0, h⟩, ⟨h, 0⟩⟩ : J2 ℝ) * ⟨⟨er1, ei1⟩, ⟨er2, ei2⟩, ⟨er3, ei3⟩, ⟨er4, ei4⟩⟩)) ⟨a, b, c, d⟩).i
      - (jonesStokes (polarizer 1 0 * ((⟨⟨h, 0⟩, ⟨0, h⟩, ⟨0, h⟩, ⟨h, 0⟩⟩ : J2 ℝ) * ⟨⟨er1, ei1⟩, ⟨er2, ei2⟩, ⟨er3, ei3⟩, ⟨er4, ei4⟩⟩)) ⟨a, b, c, d⟩).i
      = (2 * (h * h)) * (jonesStokes (⟨⟨er1, ei1⟩, ⟨er2, ei2⟩, ⟨er3, ei3⟩, ⟨er4, ei4⟩⟩ : J2 ℝ) ⟨a, b, c, d⟩).v := by
    jones_model_expand; ring
  rw [key, hh, one_mul]

/-- `2h² = 1` is satisfiable (`h = √½`). -/
example : 2 * (Real.sqrt (1 / 2) * Real.sqrt (1 / 2)) = (1 : ℝ) := by
  rw [Real.mul_self_sqrt (by norm_num)]; norm_num

/-- **`backward ∘ forward = id` on Jones-matrix wavefronts, executed definitions** (`J2.adj`, `J2.mul`: ops `adj`, `mul`): for every
unitary `J`, in particular the executed retarder of every retarder class. -/
theorem model_unitary_backward_forward_tensor (j : J2 ℝ)
    (h : IsUnitary8 j.a11.re j.a11.im j.a12.re j.a12.im j.a21.re j.a21.im j.a22.re j.a22.im) (e : J2 ℝ) :
    j.adj * (j * e) = e := by
  have cx_ext : ∀ {a b : Cx ℝ}, a.re = b.re → a.im = b.im → a = b := by
    intro a b h1 h2; cases a; cases b; simp only at h1 h2; rw [h1, h2]
  obtain ⟨⟨xr, xi⟩, ⟨yr, yi⟩, ⟨zr, zi⟩, ⟨wr, wi⟩⟩ := j
  obtain ⟨⟨pr, pi⟩, ⟨p2r, p2i⟩, ⟨qr, qi⟩, ⟨q2r, q2i⟩⟩ := e
  obtain ⟨h1, h2, h3, h4⟩ := h
  simp only at h1 h2 h3 h4
  show J2.mul _ (J2.mul _ _) = _
  simp only [J2.mul, J2.adj, J2.mk.injEq]
  refine ⟨?_, ?_, ?_, ?_⟩ <;> apply cx_ext <;>
    simp only [Cx.add_re, Cx.add_im, Cx.mul_re, Cx.mul_im, Cx.conj_re, Cx.conj_im]
  · linear_combination pr * h1 + qr * h3 - qi * h4
  · linear_combination pi * h1 + qi * h3 + qr * h4
  · linear_combination p2r * h1 + q2r * h3 - q2i * h4
  · linear_combination p2i * h1 + q2i * h3 + q2r * h4
  · linear_combination pr * h3 + pi * h4 + qr * h2
  · linear_combination pi * h3 - pr * h4 + qi * h2
  · linear_combination p2r * h3 + p2i * h4 + q2r * h2
  · linear_combination p2i * h3 - p2r * h4 + q2i * h2

theorem model_retarder_backward_forward_tensor (h : c ^ 2 + s ^ 2 = 1) (hp : pc ^ 2 + ps ^ 2 = 1) (hx : xc ^ 2 + xs ^ 2 = 1) (e : J2 ℝ) :
    (retarder c s ⟨pc, ps⟩ ⟨xc, xs⟩).adj * (retarder c s ⟨pc, ps⟩ ⟨xc, xs⟩ * e) = e :=
  model_unitary_backward_forward_tensor _ (model_retarder_unitary c s pc ps xc xs h hp hx) e

/-- The intensity of a Jones-matrix pixel with a physical input Stokes vector is non-negative (executed `jonesStokes`). -/
theorem model_stokesI_nonneg (e : J2 ℝ) (sv : S4 ℝ) (ha : 0 ≤ sv.i) (hphys : sv.q ^ 2 + sv.u ^ 2 + sv.v ^ 2 ≤ sv.i ^ 2) :
    0 ≤ (jonesStokes e sv).i := jonesStokes_i_nonneg e sv ha hphys

example : (0 : ℝ) ≤ (⟨1, 0, 0, 0⟩ : S4 ℝ).i ∧ (⟨1, 0, 0, 0⟩ : S4 ℝ).q ^ 2 + (⟨1, 0, 0, 0⟩ : S4 ℝ).u ^ 2 + (⟨1, 0, 0, 0⟩ : S4 ℝ).v ^ 2 ≤ (⟨1, 0, 0, 0⟩ : S4 ℝ).i ^ 2 := by
  norm_num

/-- **Half-wave plate** (`Model.halfWavePlate`, driver op `hwp`, compared with `HalfWavePlate` / `GeometricPhaseElement.jones_matrix`):
it is `i` times the reflection `[[cos 2θ, sin 2θ], [sin 2θ, −cos 2θ]]`, and two of them in a row are `−1` (the identity up to a global phase). -/
theorem model_hwp (h1 : c ^ 2 + s ^ 2 = 1) :
    halfWavePlate c s = ⟨⟨0, c * c - s * s⟩, ⟨0, 2 * (c * s)⟩, ⟨0, 2 * (c * s)⟩, ⟨0, s * s - c * c⟩⟩ ∧
    halfWavePlate c s * halfWavePlate c s = ⟨⟨-1, 0⟩, ⟨0, 0⟩, ⟨0, 0⟩, ⟨-1, 0⟩⟩ := by
  have cx_ext : ∀ {a b : Cx ℝ}, a.re = b.re → a.im = b.im → a = b := by
    intro a b h1 h2; cases a; cases b; simp only at h1 h2; rw [h1, h2]
  have e : halfWavePlate c s = (⟨⟨0, c * c - s * s⟩, ⟨0, 2 * (c * s)⟩, ⟨0, 2 * (c * s)⟩, ⟨0, s * s - c * c⟩⟩ : J2 ℝ) := by
    simp only [halfWavePlate, retarder, J2.mk.injEq]
    refine ⟨?_, ?_, ?_, ?_⟩ <;> apply cx_ext <;>
      simp only [Cx.smul, Cx.add_re, Cx.add_im, Cx.sub_re, Cx.sub_im, Cx.mul_re, Cx.mul_im, Cx.conj_re, Cx.conj_im] <;> ring
  refine ⟨e, ?_⟩
  rw [e]
  show J2.mul _ _ = _
  simp only [J2.mul, J2.mk.injEq]
  refine ⟨?_, ?_, ?_, ?_⟩ <;> apply cx_ext <;>
    simp only [Cx.add_re, Cx.add_im, Cx.mul_re, Cx.mul_im] <;>
    first | ring1 | linear_combination (-(c ^ 2 + s ^ 2) - 1) * h1

/-- **Quarter-wave plate** (`Model.quarterWavePlate`, driver op `qwp`, compared with `QuarterWavePlate.jones_matrix`; `h = √½`): two
quarter-wave plates at the same angle are the half-wave plate at that angle. -/
theorem model_qwp_twice (h : ℝ) (h1 : c ^ 2 + s ^ 2 = 1) (hh : 2 * (h * h) = 1) :
    quarterWavePlate c s h * quarterWavePlate c s h = halfWavePlate c s := by
  have cx_ext : ∀ {a b : Cx ℝ}, a.re = b.re → a.im = b.im → a = b := by
    intro a b h1 h2; cases a; cases b; simp only at h1 h2; rw [h1, h2]
  show J2.mul _ _ = _
  simp only [quarterWavePlate, halfWavePlate, retarder, J2.mul, J2.mk.injEq]
  refine ⟨?_, ?_, ?_, ?_⟩ <;> apply cx_ext <;>
    simp only [Cx.smul, Cx.add_re, Cx.add_im, Cx.sub_re, Cx.sub_im, Cx.mul_re, Cx.mul_im, Cx.conj_re, Cx.conj_im] <;>
    first
      | ring1
      | linear_combination ((c * c - s * s) * (c ^ 2 + s ^ 2)) * hh + (c * c - s * s) * h1
      | linear_combination ((2 * (c * s)) * (c ^ 2 + s ^ 2)) * hh + (2 * (c * s)) * h1
      | linear_combination ((s * s - c * c) * (c ^ 2 + s ^ 2)) * hh + (s * s - c * c) * h1

/-- Both wave plates are instances of the executed retarder, so they are unitary, conserve `I` for every wavefront kind and are undone by
`backward` (`model_retarder_unitary`, `model_retarder_conserves_I_tensor`, `model_retarder_backward_forward(_tensor)` at these atoms). -/
theorem model_waveplates_unitary (h : ℝ) (h1 : c ^ 2 + s ^ 2 = 1) (hh : 2 * (h * h) = 1) (e : J2 ℝ) (sv : S4 ℝ) :
    (jonesStokes (halfWavePlate c s * e) sv).i = (jonesStokes e sv).i ∧ (jonesStokes (quarterWavePlate c s h * e) sv).i = (jonesStokes e sv).i ∧
    (halfWavePlate c s).adj * (halfWavePlate c s * e) = e ∧ (quarterWavePlate c s h).adj * (quarterWavePlate c s h * e) = e := by
  have u1 : (0 : ℝ) ^ 2 + 1 ^ 2 = 1 := by norm_num
  have u2 : (1 : ℝ) ^ 2 + 0 ^ 2 = 1 := by norm_num
  have u3 : h ^ 2 + h ^ 2 = 1 := by linear_combination hh
  exact ⟨model_retarder_conserves_I_tensor c s 0 1 1 0 h1 u1 u2 e sv, model_retarder_conserves_I_tensor c s h h 1 0 h1 u3 u2 e sv,
    model_retarder_backward_forward_tensor c s 0 1 1 0 h1 u1 u2 e, model_retarder_backward_forward_tensor c s h h 1 0 h1 u3 u2 e⟩

end round5

end HcipyVerif.C08
