import HcipyVerif.Model.Proto
import HcipyVerif.Model.GridOps
import HcipyVerif.Model.GridHeap

/-! Line-protocol front end of the C11 model: an object store of grids plus the caller-owned arrays
(see Model/GridOps.lean, `stepWorld`). -/
namespace HcipyVerif.Driver.C11
open HcipyVerif.Grid

structure St where
  world : World := {}
  /-- the reference model (`ref …` requests): coordinate and weight arrays held by reference -/
  rworld : RWorld := {}

def step (st : St) (toks : List String) : St × String :=
  match toks with
  | "ref" :: rest =>
    match stepRef st.rworld rest with
    | some (w, out) => ({ st with rworld := w }, out)
    | none => (st, "bad-op")
  | _ =>
    match stepWorld st.world toks with
    | some (w, out) => ({ st with world := w }, out)
    | none => (st, "bad-op")

end HcipyVerif.Driver.C11
