import HcipyVerif.Model.Proto
import HcipyVerif.Model.Zernike
import HcipyVerif.Model.ZernikeArr
import HcipyVerif.Model.ZernikeGrid

/-!
Line-protocol front end of the C13 model.

```
C13 noll lo hi            -> ok n:m,n:m,…        noll_to_zernike(i), lo ≤ i < hi   (lo ≥ 1)
C13 ansi lo hi            -> ok n:m,…            ansi_to_zernike(i), lo ≤ i < hi
C13 tonoll n              -> ok i,i,…            zernike_to_noll(n, m), m = -n, -n+2, …, n  (x = not found)
C13 toansi n              -> ok i,i,…            zernike_to_ansi(n, m), same m
C13 tonoll1 n m / toansi1 n m                    single pair (any m)
C13 pts polar [r…] [c…] [s…]                     store polar points (r, cos θ, sin θ)
C13 pts cart [x…] [y…]                           store Cartesian points
C13 mode n m D cutoff     -> ok [q…]             rational factor of zernike(n,m,D,·,cutoff) on the stored points
C13 basis ansi start num  -> ok n:m,…            modes of make_zernike_basis(num, …, starting_mode=start, ansi=ansi)
C13 normsq n m            -> ok q                (n+1)·(2 if m≠0)
C13 radial n m r          -> ok q                zernike_radial (repaired)
C13 radialold n m r       -> ok q | nan          unrepaired recurrence (n-|m| even, |m| ≤ n)
C13 abasis ansi start num cut cache D  -> ok n:m=[q…]|…   `basisA` (make_zernike_basis with a grid, array-level cache model) on the
                                                 stored polar / separated grid: one column per mode, with the mode it is
C13 ptsB                                         the stored grid becomes grid B (a later `pts …` stores grid A)
C13 gens shared|own D n:m:cut:k,…  -> ok [q…]|[q…]|…   `runGensA`: generator calls on grid A (k = 0) or B (k = 1), in order; `own` = the
                                                 generators hold no cache (the code), `shared` = one cache for all (D130)
C13 pairs nmax            -> ok n:m,…            `pairs nmax`: the valid (n, m ≥ 0) with n ≤ nmax (the range of `radial_table`)
C13 poly n m              -> ok [q…]             `radialPoly n |m|`: coefficients (of r^0, r^1, …) the q-recursion produces
C13 defpoly n m           -> ok [q…]             `radialDef n |m|`: coefficients of the factorial definition
C13 polyeval n m r        -> ok q                `peval (radialPoly n |m|) r`
C13 ortho n n' m          -> ok q                `pint01 (pshift 1 (pmul (radialPoly n m) (radialPoly n' m)))` = ∫₀¹ R_n^m R_n'^m r dr
C13 memo D r c s old|new n:m:cut,…  -> ok [q…]   request history against one cache at one point
C13 gop reverse | scale kx ky | shift dx dy | rotate c s   `GOp.xy / GOp.polar / GOp.sep` on the stored points (in place; `err value` where
                                                 a polar grid has no exact answer: shift, anisotropic scale)
C13 getpts                -> ok cart [x…] [y…] | polar [r…] [c…] [s…] | sep [R…] [c…] [s…]   the stored points
C13 pts sep [R…] [c…] [s…]                       store a separated polar grid (axes R and (cos θ, sin θ)); `mode` then
                                                 answers in the code's layout (`plainA`: index iθ·nr + ir)
C13 amemo old|new D n:m:cut,…  -> ok step|step|… array-level cache model (`runA`) on the stored polar / separated grid;
     step = [result…];+key=val;…;~key=val;…      `+` slot added by this request, `~` slot whose array changed;
     key = rad.n.m | red.n.m | azim.m, val = s:q (a float) | r<ref>:[q…] (an ndarray, by heap reference)
```
-/
namespace HcipyVerif.Driver.C13
open HcipyVerif.Proto HcipyVerif.Zernike

inductive Pts where
  | polar (p : List (Rat × Rat × Rat))
  | cart (p : List (Rat × Rat))
  | sep (R : List Rat) (dirs : List (Rat × Rat))

structure St where
  pts : Pts := .cart []
  ptsB : Pts := .cart []

def showPair (p : Nat × Int) : String := s!"{p.1}:{p.2}"

def rowM (n : Nat) : List Int := (List.range (n + 1)).map fun (j : Nat) => 2 * (j : Int) - (n : Int)

def zip3 : List Rat → List Rat → List Rat → Option (List (Rat × Rat × Rat))
  | [], [], [] => some []
  | a :: as, b :: bs, c :: cs => (zip3 as bs cs).map ((a, b, c) :: ·)
  | _, _, _ => none

def zip2 : List Rat → List Rat → Option (List (Rat × Rat))
  | [], [] => some []
  | a :: as, b :: bs => (zip2 as bs).map ((a, b) :: ·)
  | _, _ => none

def parseBool? (s : String) : Option Bool :=
  if s == "1" then some true else if s == "0" then some false else none

def parseReq? (s : String) : Option Req :=
  match s.splitOn ":" with
  | [n, m, c] => do pure ⟨← parseNat? n, ← parseInt? m, ← parseBool? c⟩
  | _ => none

def showKey : Key → String
  | .rad n m => s!"rad.{n}.{m}"
  | .red n k => s!"red.{n}.{n - 2 * k}"
  | .azim m => s!"azim.{m}"

def showVal (h : Heap) : Val → String
  | .scalar v => "s:" ++ showRat v
  | .ref i => s!"r{i}:" ++ showRatList (h.getD i [])

/-- what a slot denotes (float, or the array behind the reference) -/
def denote (h : Heap) : Val → Option Rat × List Rat
  | .scalar v => (some v, [])
  | .ref i => (none, h.getD i [])

/-- slots added (`+`) and slots whose content changed (`~`) between two states -/
def showDelta (a b : AState) : List String :=
  b.cache.reverse.filterMap fun (k, v) =>
    match a.getC k with
    | none => some ("+" ++ showKey k ++ "=" ++ showVal b.heap v)
    | some v0 => if denote a.heap v0 == denote b.heap v then none else some ("~" ++ showKey k ++ "=" ++ showVal b.heap v)

def showSteps : AState → List (Arr × AState) → List String
  | _, [] => []
  | st, (z, st') :: rest => ";".intercalate (showRatList z :: showDelta st st') :: showSteps st' rest

def step (st : St) : List String → St × String
  | ["reset"] => ({}, "ok")
  | ["noll", lo, hi] =>
    match parseNat? lo, parseNat? hi with
    | some lo, some hi =>
      if lo = 0 then (st, "err value") else
      (st, "ok " ++ ",".intercalate ((List.range (hi - lo)).map fun k => showPair (nollToZernike (lo + k))))
    | _, _ => (st, "bad-op")
  | ["ansi", lo, hi] =>
    match parseNat? lo, parseNat? hi with
    | some lo, some hi =>
      (st, "ok " ++ ",".intercalate ((List.range (hi - lo)).map fun k => showPair (ansiToZernike (lo + k))))
    | _, _ => (st, "bad-op")
  | ["tonoll", n] =>
    match parseNat? n with
    | some n => (st, "ok " ++ ",".intercalate ((rowM n).map fun m =>
        match zernikeToNoll n m with | some i => toString i | none => "x"))
    | none => (st, "bad-op")
  | ["toansi", n] =>
    match parseNat? n with
    | some n => (st, "ok " ++ ",".intercalate ((rowM n).map fun m => toString (zernikeToAnsi n m)))
    | none => (st, "bad-op")
  | ["tonoll1", n, m] =>
    match parseNat? n, parseInt? m with
    | some n, some m => (st, match zernikeToNoll n m with | some i => s!"ok {i}" | none => "err value")
    | _, _ => (st, "bad-op")
  | ["toansi1", n, m] =>
    match parseNat? n, parseInt? m with
    | some n, some m => (st, s!"ok {zernikeToAnsi n m}")
    | _, _ => (st, "bad-op")
  | ["pts", "polar", rs, cs, ss] =>
    match parseRatList? rs, parseRatList? cs, parseRatList? ss with
    | some rs, some cs, some ss =>
      match zip3 rs cs ss with
      | some p => ({ st with pts := .polar p }, "ok")
      | none => (st, "bad-op")
    | _, _, _ => (st, "bad-op")
  | ["pts", "sep", rs, cs, ss] =>
    match parseRatList? rs, parseRatList? cs, parseRatList? ss with
    | some rs, some cs, some ss =>
      match zip2 cs ss with
      | some d => ({ st with pts := .sep rs d }, "ok")
      | none => (st, "bad-op")
    | _, _, _ => (st, "bad-op")
  | ["amemo", which, D, reqs] =>
    match parseRat? D, (reqs.splitOn ",").mapM parseReq? with
    | some D, some reqs =>
      if D = 0 || reqs.any (fun q => !valid q.n q.m) then (st, "err value") else
      let g? : Option AGrid := match st.pts with
        | .polar p => some (.pts (p.map (·.1)) (p.map fun t => (t.2.1, t.2.2)))
        | .sep R d => some (.sep R d)
        | .cart _ => none
      match g?, (if which == "new" then some false else if which == "old" then some true else none) with
      | some g, some old => (st, "ok " ++ "|".intercalate (showSteps {} (runA old D g reqs {})))
      | _, _ => (st, "bad-op")
    | _, _ => (st, "bad-op")
  | ["pts", "cart", xs, ys] =>
    match parseRatList? xs, parseRatList? ys with
    | some xs, some ys =>
      match zip2 xs ys with
      | some p => ({ st with pts := .cart p }, "ok")
      | none => (st, "bad-op")
    | _, _ => (st, "bad-op")
  | ["mode", n, m, D, cut] =>
    match parseNat? n, parseInt? m, parseRat? D, parseBool? cut with
    | some n, some m, some D, some cut =>
      if D = 0 || !valid n m then (st, "err value") else
      let out := match st.pts with
        | .polar p => modesPolar n m D cut p
        | .cart p => modesXY n m D cut p
        | .sep R d => plainA D (.sep R d) ⟨n, m, cut⟩
      (st, "ok " ++ showRatList out)
    | _, _, _, _ => (st, "bad-op")
  | ["basis", ansi, start, num] =>
    match parseBool? ansi, parseNat? start, parseNat? num with
    | some ansi, some start, some num =>
      if !ansi && start = 0 then (st, "err value") else
      (st, "ok " ++ ",".intercalate ((basisModes ansi start num).map showPair))
    | _, _, _ => (st, "bad-op")
  | ["normsq", n, m] =>
    match parseNat? n, parseInt? m with
    | some n, some m => (st, "ok " ++ showRat (normSq n m))
    | _, _ => (st, "bad-op")
  | ["radial", n, m, r] =>
    match parseNat? n, parseInt? m, parseRat? r with
    | some n, some m, some r =>
      if !valid n m then (st, "err value") else (st, "ok " ++ showRat (radialEval n m.natAbs r))
    | _, _, _ => (st, "bad-op")
  | ["abasis", ansi, start, num, cut, cache, D] =>
    match parseBool? ansi, parseNat? start, parseNat? num, parseBool? cut, parseBool? cache, parseRat? D with
    | some ansi, some start, some num, some cut, some cache, some D =>
      if D = 0 || (!ansi && start = 0) then (st, "err value") else
      let g? : Option AGrid := match st.pts with
        | .polar p => some (.pts (p.map (·.1)) (p.map fun t => (t.2.1, t.2.2)))
        | .sep R d => some (.sep R d)
        | .cart _ => none
      match g? with
      | some g =>
        let cols := basisA ansi start num D g cut cache
        let modes := basisModes ansi start num
        (st, "ok " ++ "|".intercalate ((modes.zip cols).map fun (nm, z) => showPair nm ++ "=" ++ showRatList z))
      | none => (st, "bad-op")
    | _, _, _, _, _, _ => (st, "bad-op")
  | ["ptsB"] => ({ st with ptsB := st.pts }, "ok")
  | ["gens", which, D, calls] =>
    let parseCall? (c : String) : Option (Req × Nat) :=
      match c.splitOn ":" with
      | [n, m, cut, k] => do pure (⟨← parseNat? n, ← parseInt? m, ← parseBool? cut⟩, ← parseNat? k)
      | _ => none
    let grid? : Pts → Option AGrid
      | .polar p => some (.pts (p.map (·.1)) (p.map fun t => (t.2.1, t.2.2)))
      | .sep R d => some (.sep R d)
      | .cart _ => none
    match parseRat? D, (calls.splitOn ",").mapM parseCall?, grid? st.pts, grid? st.ptsB,
        (if which == "own" then some false else if which == "shared" then some true else none) with
    | some D, some calls, some gA, some gB, some shared =>
      if D = 0 || calls.any (fun c => !valid c.1.n c.1.m) then (st, "err value") else
      (st, "ok " ++ "|".intercalate ((runGensA shared D (calls.map fun c => (if c.2 = 0 then gA else gB, c.1)) {}).map showRatList))
    | _, _, _, _, _ => (st, "bad-op")
  | ["pairs", nmax] =>
    match parseNat? nmax with
    | some nmax => (st, "ok " ++ ",".intercalate ((pairs nmax).map fun (n, m) => s!"{n}:{m}"))
    | none => (st, "bad-op")
  | ["poly", n, m] =>
    match parseNat? n, parseInt? m with
    | some n, some m => if !valid n m then (st, "err value") else (st, "ok " ++ showRatList (radialPoly n m.natAbs))
    | _, _ => (st, "bad-op")
  | ["defpoly", n, m] =>
    match parseNat? n, parseInt? m with
    | some n, some m => if !valid n m then (st, "err value") else (st, "ok " ++ showRatList (radialDef n m.natAbs))
    | _, _ => (st, "bad-op")
  | ["polyeval", n, m, r] =>
    match parseNat? n, parseInt? m, parseRat? r with
    | some n, some m, some r =>
      if !valid n m then (st, "err value") else (st, "ok " ++ showRat (peval (radialPoly n m.natAbs) r))
    | _, _, _ => (st, "bad-op")
  | ["ortho", n, n', m] =>
    match parseNat? n, parseNat? n', parseNat? m with
    | some n, some n', some m =>
      if !valid n m || !valid n' m then (st, "err value") else
      (st, "ok " ++ showRat (pint01 (pshift 1 (pmul (radialPoly n m) (radialPoly n' m)))))
    | _, _, _ => (st, "bad-op")
  | ["radialold", n, m, r] =>
    match parseNat? n, parseInt? m, parseRat? r with
    | some n, some m, some r =>
      if !valid n m then (st, "err value") else
      (st, match radialEvalOld n r ((n - m.natAbs) / 2) with | some q => "ok " ++ showRat q | none => "nan")
    | _, _, _ => (st, "bad-op")
  | ["memo", D, r, c, s, which, reqs] =>
    match parseRat? D, parseRat? r, parseRat? c, parseRat? s, (reqs.splitOn ",").mapM parseReq? with
    | some D, some r, some c, some s, some reqs =>
      if D = 0 || reqs.any (fun q => !valid q.n q.m) then (st, "err value") else
      if which == "new" then (st, "ok " ++ showRatList (runMemo D r c s reqs []))
      else if which == "old" then (st, "ok " ++ showRatList (runMemoSeparatedOld D r c s reqs []))
      else (st, "bad-op")
    | _, _, _, _, _ => (st, "bad-op")
  | "gop" :: op =>
    let o? : Option GOp := match op with
      | ["reverse"] => some .reverse
      | ["scale", kx, ky] => do pure (.scale (← parseRat? kx) (← parseRat? ky))
      | ["shift", dx, dy] => do pure (.shift (← parseRat? dx) (← parseRat? dy))
      | ["rotate", c, s] => do pure (.rotate (← parseRat? c) (← parseRat? s))
      | _ => none
    match o? with
    | none => (st, "bad-op")
    | some o =>
      match st.pts with
      | .cart p => ({ st with pts := .cart (o.xy p) }, "ok")
      | .polar p => match o.polar p with
        | some p' => ({ st with pts := .polar p' }, "ok")
        | none => (st, "err value")
      | .sep R d => match o.sep (R, d) with
        | some (R', d') => ({ st with pts := .sep R' d' }, "ok")
        | none => (st, "err value")
  | ["getpts"] =>
    (st, match st.pts with
      | .cart p => s!"ok cart {showRatList (p.map (·.1))} {showRatList (p.map (·.2))}"
      | .polar p => s!"ok polar {showRatList (p.map (·.1))} {showRatList (p.map (·.2.1))} {showRatList (p.map (·.2.2))}"
      | .sep R d => s!"ok sep {showRatList R} {showRatList (d.map (·.1))} {showRatList (d.map (·.2))}")
  | _ => (st, "bad-op")

end HcipyVerif.Driver.C13
