import HcipyVerif.Model.Proto
import HcipyVerif.Model.GridOps

/-! Line-protocol front end of the C10 model: an object store of grids (see Model/GridOps.lean). -/
namespace HcipyVerif.Driver.C10
open HcipyVerif.Grid

structure St where
  grids : Store := []

def step (st : St) (toks : List String) : St × String :=
  match stepStore st.grids toks with
  | some (g, out) => ({ grids := g }, out)
  | none => (st, "bad-op")

end HcipyVerif.Driver.C10
