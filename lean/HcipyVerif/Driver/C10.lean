import HcipyVerif.Model.Proto
import HcipyVerif.Model.GridOps
import HcipyVerif.Model.GridHeap
import HcipyVerif.Model.GridShare

/-! Line-protocol front end of the C10 model: an object store of grids plus the caller-owned arrays
(see Model/GridOps.lean, `stepWorld`). -/
namespace HcipyVerif.Driver.C10
open HcipyVerif.Grid

structure St where
  /-- grids + caller arrays + which `Coords` object every grid holds (Model/GridShare.lean) -/
  world : SWorld := {}
  /-- the reference model (`ref …` requests): the same histories with arrays held by reference -/
  rworld : RWorld := {}

def step (st : St) (toks : List String) : St × String :=
  match toks with
  | "ref" :: rest =>
    match stepRef st.rworld rest with
    | some (w, out) => ({ st with rworld := w }, out)
    | none => (st, "bad-op")
  | _ =>
    match stepShare st.world toks with
    | some (w, out) => ({ st with world := w }, out)
    | none => (st, "bad-op")

end HcipyVerif.Driver.C10
