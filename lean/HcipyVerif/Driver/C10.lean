import HcipyVerif.Model.Proto
import HcipyVerif.Model.GridOps

/-! Line-protocol front end of the C10 model: an object store of grids plus the caller-owned arrays
(see Model/GridOps.lean, `stepWorld`). -/
namespace HcipyVerif.Driver.C10
open HcipyVerif.Grid

structure St where
  world : World := {}

def step (st : St) (toks : List String) : St × String :=
  match stepWorld st.world toks with
  | some (w, out) => ({ world := w }, out)
  | none => (st, "bad-op")

end HcipyVerif.Driver.C10
