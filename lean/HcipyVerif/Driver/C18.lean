import HcipyVerif.Model.Proto
import HcipyVerif.Model.Binning
import HcipyVerif.Model.Interp

/-! Line-protocol front end of the C18 model (interpolation and binning).

```
lin-sep new|old ext|fill <sep> <vals> <pts>     sep = [x-axis];[y-axis];…  pts = [x,y];[x,y];…
sample-affine <sep> <c0> <c>                    the samples of c0+Σc·x on the grid, hcipy order (`sampleAffine`, the specification side of the affine theorems)
near-sep new|old <sep> <vals> <pts>             -> ok [v,nan,…]   (nan = fill value / outside)
lin-tri <[ax,ay,bx,by,cx,cy]> <[va,vb,vc]> <[px,py]>   -> ok v | ok nan (degenerate simplex)
lin-simplex <verts> <vals> <p>                  d-simplex (d+1 vertices [..];[..];…), exact barycentric interpolant -> ok v | ok nan (degenerate)
simplex-loc <verts> <ids> <hull facets> <p>     -> ok inside|boundary|outside [λ…] | ok degenerate   (ids: vertex numbers of the simplex;
                                                hull facets [i,j];[k,l];… = Delaunay.convex_hull, "-" = none)
near-uns <pts> <vals> <evalpts>                 -> ok [values of all minimisers];[…] first [nearestUnstructured values]
bin sum|mean <s> <dims> <vals>                  -> ok [..] | err value
bins sum|mean <ss> <dims> <vals>                per-axis factors `ss` (same order as dims, slowest first)
binpix <ss> <dims> <vals>                       the closed-form index map `boxSums` at every coarse pixel (= bins sum)
binw <s> <dims> <vals> <weights>                weighted mean (non-regular grids)
binws <ss> <dims> <vals> <weights>              weighted mean, per-axis factors (`binWMeans`)
bint <s> <dims> <ncomp> <vals>                  tensor field, statistic sum (component-wise `binTensor`)
bintl sum|mean <ss> <dims> <tshape> <vals>      tensor field as the code reshapes it (`binTensorL`: tensor axes in front, unbinned)
supergrid <zero> <delta> <dims> <ns>             make_supersampled_grid of a regular grid: the per-axis coordinates (`superAxis`)
ss mean|sum <c0> <c> <q> <sep> <ns>             evaluate_supersampled of c0+Σc·x+Σq·x²
```
-/
namespace HcipyVerif.Driver.C18
open HcipyVerif.Proto HcipyVerif.Binning HcipyVerif.Interp

structure St where
  dummy : Unit := ()

def showOpt : Option Rat → String
  | some v => showRat v
  | none => "nan"

def showOpts (l : List (Option Rat)) : String := "[" ++ ",".intercalate (l.map showOpt) ++ "]"

def parseNatLists? (s : String) : Option (List (List Nat)) :=
  if s == "-" then some [] else (s.splitOn ";").mapM parseNatList?

def pair? : List Rat → Option (Rat × Rat)
  | [a, b] => some (a, b)
  | _ => none

def step (st : St) : List String → St × String
  | ["reset"] => ({}, "ok")
  | ["lin-sep", which, mode, sep, vals, pts] =>
    match parseRatLists? sep, parseRatList? vals, parseRatLists? pts with
    | some sep, some vals, some pts =>
      let ext? := if mode == "ext" then some true else if mode == "fill" then some false else none
      match ext?, which with
      | some ext, "new" =>
        if !shapeOk sep vals then (st, "err value") else
        (st, "ok " ++ showOpts (pts.map (linearSeparated ext sep vals)))
      | some ext, "old" =>
        if !shapeOk sep vals || !sameLengths sep then (st, "err value") else
        (st, "ok " ++ showOpts (pts.map (linearSeparatedOld ext sep vals)))
      | _, _ => (st, "bad-op")
    | _, _, _ => (st, "bad-op")
  | ["sample-affine", sep, c0, c] =>
    match parseRatLists? sep, parseRat? c0, parseRatList? c with
    | some sep, some c0, some c =>
      if c.length ≠ sep.length then (st, "bad-op") else
      (st, "ok " ++ showRatList (sampleAffine sep.reverse c0 c.reverse))
    | _, _, _ => (st, "bad-op")
  | ["near-sep", which, sep, vals, pts] =>
    match parseRatLists? sep, parseRatList? vals, parseRatLists? pts with
    | some sep, some vals, some pts =>
      match which with
      | "new" =>
        if !shapeOk sep vals then (st, "err value") else
        (st, "ok " ++ showOpts (pts.map (nearestSeparated sep vals)))
      | "old" =>
        if !shapeOk sep vals || !sameLengths sep then (st, "err value") else
        (st, "ok " ++ showOpts (pts.map (nearestSeparatedOld sep vals)))
      | _ => (st, "bad-op")
    | _, _, _ => (st, "bad-op")
  | ["lin-tri", tri, vals, p] =>
    match parseRatList? tri, parseRatList? vals, parseRatList? p with
    | some [ax, ay, bx, b_y, cx, cy], some [va, vb, vc], some [px, py] =>
      (st, "ok " ++ showOpt (linearTriangle (ax, ay) (bx, b_y) (cx, cy) va vb vc (px, py)))
    | _, _, _ => (st, "bad-op")
  | ["lin-simplex", verts, vals, p] =>
    match parseRatLists? verts, parseRatList? vals, parseRatList? p with
    | some verts, some vals, some p =>
      if vals.length ≠ verts.length || verts.isEmpty then (st, "bad-op") else
      (st, "ok " ++ showOpt (linearSimplex verts vals p))
    | _, _, _ => (st, "bad-op")
  | ["simplex-loc", verts, ids, facets, p] =>
    match parseRatLists? verts, parseNatList? ids, parseNatLists? facets, parseRatList? p with
    | some verts, some ids, some facets, some p =>
      if ids.length ≠ verts.length || verts.isEmpty then (st, "bad-op") else
      match baryN verts p with
      | some lam => (st, "ok " ++ (hullLoc lam ids facets).name ++ " " ++ showRatList lam)
      | none => (st, "ok degenerate")
    | _, _, _, _ => (st, "bad-op")
  | ["near-uns", pts, vals, ev] =>
    match parseRatLists? pts, parseRatList? vals, parseRatLists? ev with
    | some pts, some vals, some ev =>
      if pts.length ≠ vals.length || pts.isEmpty then (st, "err value") else
      (st, "ok " ++ showRatLists (ev.map fun p => (minimisers pts p).map fun i => vals.getD i 0)
        ++ " first " ++ showOpts (ev.map (nearestUnstructured pts vals)))
    | _, _, _ => (st, "bad-op")
  | ["bin", stat, s, dims, vals] =>
    match parseNat? s, parseNatList? dims, parseRatList? vals with
    | some s, some dims, some vals =>
      if s = 0 then (st, "bad-op") else
      if vals.length ≠ fineSize s dims then (st, "err value") else
      match stat with
      | "sum" =>
        match binSum? s dims vals with
        | some r => (st, "ok " ++ showRatList r)
        | none => (st, "err value")
      | "mean" => (st, "ok " ++ showRatList (binMean s dims vals))
      | _ => (st, "bad-op")
    | _, _, _ => (st, "bad-op")
  | ["bins", stat, ss, dims, vals] =>
    match parseNatList? ss, parseNatList? dims, parseRatList? vals with
    | some ss, some dims, some vals =>
      if ss.any (· = 0) || ss.length ≠ dims.length then (st, "bad-op") else
      if vals.length ≠ fineSizes ss dims then (st, "err value") else
      match stat with
      | "sum" => (st, "ok " ++ showRatList (binNDs ss dims vals))
      | "mean" => (st, "ok " ++ showRatList (binMeans ss dims vals))
      | _ => (st, "bad-op")
    | _, _, _ => (st, "bad-op")
  | ["binpix", ss, dims, vals] =>
    match parseNatList? ss, parseNatList? dims, parseRatList? vals with
    | some ss, some dims, some vals =>
      if ss.any (· = 0) || ss.length ≠ dims.length then (st, "bad-op") else
      if vals.length ≠ fineSizes ss dims then (st, "err value") else
      -- every multi-index of the coarse array, checked against the hypothesis `InBounds` of `bins_pixel`
      (st, "ok " ++ showRatList (((tensorPts (dims.map List.range)).filter fun c => decide (InBounds dims c)).map fun c =>
        boxSums dims ss c (fun f => vals.getD f 0)))
    | _, _, _ => (st, "bad-op")
  | ["binw", s, dims, vals, w] =>
    match parseNat? s, parseNatList? dims, parseRatList? vals, parseRatList? w with
    | some s, some dims, some vals, some w =>
      if s = 0 then (st, "bad-op") else
      if vals.length ≠ fineSize s dims || w.length ≠ vals.length then (st, "err value") else
      (st, "ok " ++ showRatList (binWMean s dims vals w))
    | _, _, _, _ => (st, "bad-op")
  | ["binws", ss, dims, vals, w] =>
    match parseNatList? ss, parseNatList? dims, parseRatList? vals, parseRatList? w with
    | some ss, some dims, some vals, some w =>
      if ss.any (· = 0) || ss.length ≠ dims.length then (st, "bad-op") else
      if vals.length ≠ fineSizes ss dims || w.length ≠ vals.length then (st, "err value") else
      (st, "ok " ++ showRatList (binWMeans ss dims vals w))
    | _, _, _, _ => (st, "bad-op")
  | ["bint", s, dims, ncomp, vals] =>
    match parseNat? s, parseNatList? dims, parseNat? ncomp, parseRatList? vals with
    | some s, some dims, some ncomp, some vals =>
      if s = 0 then (st, "bad-op") else
      match binTensor? s dims ncomp vals with
      | some r => (st, "ok " ++ showRatList r)
      | none => (st, "err value")
    | _, _, _, _ => (st, "bad-op")
  | ["bintl", stat, ss, dims, tshape, vals] =>
    match parseNatList? ss, parseNatList? dims, parseNatList? tshape, parseRatList? vals with
    | some ss, some dims, some tshape, some vals =>
      if ss.any (· = 0) || ss.length ≠ dims.length then (st, "bad-op") else
      if vals.length ≠ size tshape * fineSizes ss dims then (st, "err value") else
      let r := binTensorL ss dims tshape vals
      match stat with
      | "sum" => (st, "ok " ++ showRatList r)
      | "mean" => (st, "ok " ++ showRatList (r.map (· / ((ss.foldr (· * ·) 1 : Nat) : Rat))))
      | _ => (st, "bad-op")
    | _, _, _, _ => (st, "bad-op")
  | ["supergrid", zero, delta, dims, ns] =>
    match parseRatList? zero, parseRatList? delta, parseNatList? dims, parseNatList? ns with
    | some zero, some delta, some dims, some ns =>
      if ns.any (· = 0) || ns.length ≠ dims.length || zero.length ≠ dims.length || delta.length ≠ dims.length then (st, "bad-op") else
      (st, "ok " ++ showRatLists ((List.zip (List.zip zero delta) (List.zip dims ns)).map fun zd =>
        superAxis zd.1.1 zd.1.2 zd.2.1 zd.2.2))
    | _, _, _, _ => (st, "bad-op")
  | ["subgrids", sys, sep, ns] =>
    let sys? : Option Sys := match sys with
      | "cartesian" => some .cartesian
      | "polar" => some .polar
      | "base" => some .base
      | _ => none
    match sys?, parseRatLists? sep, parseNatList? ns with
    | some sys, some sep, some ns =>
      if ns.any (· = 0) || ns.length ≠ sep.length || sep.any (·.length < 2) then (st, "bad-op") else
      let showSys : Sys → String := fun s => match s with
        | .cartesian => "cartesian"
        | .polar => "polar"
        | .base => "base"
      let gs := subGrids ({ sys := sys, sep := sep } : SGrid Rat) ns
      (st, "ok " ++ "|".intercalate (gs.map fun g => showSys g.sys ++ ":" ++ showRatLists g.sep))
    | _, _, _ => (st, "bad-op")
  | ["ss", stat, c0, c, q, sep, ns] =>
    match parseRat? c0, parseRatList? c, parseRatList? q, parseRatLists? sep, parseNatList? ns with
    | some c0, some c, some q, some sep, some ns =>
      if ns.any (· = 0) || ns.length ≠ sep.length || c.length ≠ sep.length || q.length ≠ sep.length
         || sep.any (·.length < 2) then (st, "bad-op") else
      let r := evalSupersampled (poly c0 c q) sep ns
      let cnt : Nat := ns.foldr (· * ·) 1
      match stat with
      | "mean" => (st, "ok " ++ showRatList r)
      | "sum" => (st, "ok " ++ showRatList (r.map (· * (cnt : Rat))))
      | _ => (st, "bad-op")
    | _, _, _, _, _ => (st, "bad-op")
  | _ => (st, "bad-op")

end HcipyVerif.Driver.C18
