import HcipyVerif.Model.Proto
import HcipyVerif.Model.Scheduler

/-! Line-protocol front end of the C20 model. -/
namespace HcipyVerif.Driver.C20
open HcipyVerif.Proto HcipyVerif.Scheduler

/-- The driver state is a `Hist` advanced by `stepOp`, i.e. exactly the object the history theorems
of Properties/C20.lean (`history_inv`, `history_conservation`, …) speak about. -/
structure St where
  h : Hist := hinit
  /-- callback id ↦ (delay, child id) pairs: the callback schedules child at own time + delay -/
  tbl : List (Nat × List (Rat × Nat)) := []

def kidsOf (tbl : List (Nat × List (Rat × Nat))) (e : Entry) : List (Rat × Nat) :=
  match tbl.find? (·.1 = e.id) with
  | some (_, l) => l.map fun (d, c) => (e.time + d, c)
  | none => []

def showEvent : Event → String
  | .integrate dt => s!"I:{showRat dt}"
  | .fire e clk => s!"F:{showRat e.time}:{e.ctr}:{e.id}:{showRat clk}"

def showStatus : Status → String
  | .ok => "ok" | .backwards => "value" | .outOfFuel => "fuel"

def showEntry (e : Entry) : String := s!"{showRat e.time}:{e.ctr}:{e.id}"

/-- pairs `d1:c1,d2:c2` -/
def parsePairs? (s : String) : Option (List (Rat × Nat)) :=
  if s == "-" then some [] else
  (s.splitOn ",").mapM fun p =>
    match p.splitOn ":" with
    | [d, c] => do let d ← parseRat? d; let c ← parseNat? c; pure (d, c)
    | _ => none

def step (st : St) : List String → St × String
  | ["reset"] => ({}, "ok")
  | ["add", t, id] =>
    match parseRat? t, parseNat? id with
    | some t, some id => ({ st with h := stepOp (kidsOf st.tbl) 0 st.h (.add t id) }, "ok")
    | _, _ => (st, "bad-op")
  | ["kids", id, pairs] =>
    match parseNat? id, parsePairs? pairs with
    | some id, some l => ({ st with tbl := (id, l) :: st.tbl.filter (·.1 ≠ id) }, "ok")
    | _, _ => (st, "bad-op")
  | ["eps", x] =>
    -- the threshold constant read out of the running code, compared with the model's `eps`
    match parseRat? x with
    | some x => (st, if x = eps then "ok" else s!"differs:{showRat eps}")
    | none => (st, "bad-op")
  | ["evolve", T, fuel, "new"] =>
    match parseRat? T, parseNat? fuel with
    | some T, some fuel =>
      let run := evolveUntil (kidsOf st.tbl) fuel st.h.s T
      let h' := stepOp (kidsOf st.tbl) fuel st.h (.evolve T)
      -- clock, counter and queue are printed from the history state the theorems are about
      let out := s!"{showStatus run.status} t={showRat h'.s.t} ctr={h'.s.ctr} trace=" ++
        ";".intercalate (run.trace.map showEvent) ++ " queue=" ++
        ";".intercalate (h'.s.queue.map showEntry)
      ({ st with h := h' }, out)
    | _, _ => (st, "bad-op")
  | ["hist"] =>
    let h := st.h
    (st, s!"hz={showRat h.hz} t={showRat h.s.t} created={h.created.length} fired={(fired h.trace).length} " ++
      s!"pending={h.s.queue.length} sorted={sortedB (fired h.trace)} run=" ++
      ";".intercalate ((fired h.trace).map showEntry) ++ " created=" ++
      ";".intercalate (h.created.map showEntry))
  | _ => (st, "bad-op")

end HcipyVerif.Driver.C20
