import HcipyVerif.Model.Proto
import HcipyVerif.Model.Scheduler

/-! Line-protocol front end of the C20 model. -/
namespace HcipyVerif.Driver.C20
open HcipyVerif.Proto HcipyVerif.Scheduler

structure St where
  sys : Sys := init
  /-- callback id ↦ (delay, child id) pairs: the callback schedules child at own time + delay -/
  tbl : List (Nat × List (Rat × Nat)) := []

def kidsOf (tbl : List (Nat × List (Rat × Nat))) (e : Entry) : List (Rat × Nat) :=
  match tbl.find? (·.1 = e.id) with
  | some (_, l) => l.map fun (d, c) => (e.time + d, c)
  | none => []

def showEvent : Event → String
  | .integrate dt => s!"I:{showRat dt}"
  | .fire e clk => s!"F:{showRat e.time}:{e.ctr}:{e.id}:{showRat clk}"

def showStatus : Status → String
  | .ok => "ok" | .backwards => "value" | .emptyQueue => "index" | .outOfFuel => "fuel"

def showEntry (e : Entry) : String := s!"{showRat e.time}:{e.ctr}:{e.id}"

/-- pairs `d1:c1,d2:c2` -/
def parsePairs? (s : String) : Option (List (Rat × Nat)) :=
  if s == "-" then some [] else
  (s.splitOn ",").mapM fun p =>
    match p.splitOn ":" with
    | [d, c] => do let d ← parseRat? d; let c ← parseNat? c; pure (d, c)
    | _ => none

def step (st : St) : List String → St × String
  | ["reset"] => ({}, "ok")
  | ["add", t, id] =>
    match parseRat? t, parseNat? id with
    | some t, some id => ({ st with sys := addCallback st.sys t id }, "ok")
    | _, _ => (st, "bad-op")
  | ["kids", id, pairs] =>
    match parseNat? id, parsePairs? pairs with
    | some id, some l => ({ st with tbl := (id, l) :: st.tbl.filter (·.1 ≠ id) }, "ok")
    | _, _ => (st, "bad-op")
  | ["evolve", T, fuel, which] =>
    match parseRat? T, parseNat? fuel with
    | some T, some fuel =>
      let run := if which == "old" then evolveUntilOld (kidsOf st.tbl) fuel st.sys T
                 else evolveUntil (kidsOf st.tbl) fuel st.sys T
      let out := s!"{showStatus run.status} t={showRat run.s.t} ctr={run.s.ctr} trace=" ++
        ";".intercalate (run.trace.map showEvent) ++ " queue=" ++
        ";".intercalate (run.s.queue.map showEntry)
      ({ st with sys := run.s }, out)
    | _, _ => (st, "bad-op")
  | _ => (st, "bad-op")

end HcipyVerif.Driver.C20
