import HcipyVerif.Model.Proto
import HcipyVerif.Model.Scheduler
import HcipyVerif.Model.SchedulerRef

/-! Line-protocol front end of the C20 model. -/
namespace HcipyVerif.Driver.C20
open HcipyVerif.Proto HcipyVerif.Scheduler

/-- The driver state is a `Hist` advanced by `stepOp`, i.e. exactly the object the history theorems
of Properties/C20.lean (`history_inv`, `history_conservation`, …) speak about. -/
structure St where
  h : Hist := hinit
  /-- callback id ↦ (delay, child id, clock-relative?) triples: the callback schedules the child at
  its own time + delay, or (clock-relative, the idiom `add_callback(self.t + period, ...)`) at the
  clock it sees + delay -/
  tbl : List (Nat × List (Rat × Nat × Bool)) := []
  /-- what every callback executed so far scheduled (`fireTable`), over the whole history -/
  ftbl : List (Entry × List (Rat × Nat)) := []
  /-- the interface calls so far, and the fuel of the evolves if it was the same for all -/
  ops : List Op := []
  fuel : Option Nat := none
  fuelSame : Bool := true
  /-- round 5: the caller's mutable cells (`cell k x` writes), the caller program so far, and the
  same program run by the by-reference scheduler `Bad.byReference` (policy `alias`) -/
  cells : Nat → Rat := fun _ => 0
  rops : List ROp := []
  bad : World := winit
  /-- round 6: callback id ↦ (d, k): after scheduling its first `k` children the callback calls
  `evolve_until(own time + d)` itself (`nestBody`) -/
  nest : List (Nat × Rat × Nat) := []

/-- the callbacks as the real ones are: they see the clock -/
def kidsOfC (tbl : List (Nat × List (Rat × Nat × Bool))) (clk : Rat) (e : Entry) : List (Rat × Nat) :=
  match tbl.find? (·.1 = e.id) with
  | some (_, l) => l.map fun (d, c, rel) => ((if rel then clk else e.time) + d, c)
  | none => []

/-- the entry-only callbacks of a table without clock-relative children -/
def kidsOf (tbl : List (Nat × List (Rat × Nat × Bool))) (e : Entry) : List (Rat × Nat) :=
  kidsOfC tbl e.time e

def clockRel (tbl : List (Nat × List (Rat × Nat × Bool))) : Bool :=
  tbl.any fun p => p.2.any fun k => k.2.2

def showIv (p : Rat × Rat) : String := s!"{showRat p.1}>{showRat p.2}"

def showEvent : Event → String
  | .integrate dt => s!"I:{showRat dt}"
  | .fire e clk => s!"F:{showRat e.time}:{e.ctr}:{e.id}:{showRat clk}"

def showStatus : Status → String
  | .ok => "ok" | .backwards => "value" | .outOfFuel => "fuel"

def showEntry (e : Entry) : String := s!"{showRat e.time}:{e.ctr}:{e.id}"

/-- pairs `d1:c1,d2:c2`; a third field `c` marks a clock-relative child (`o`: relative to the
callback's own time, the default) -/
def parsePairs? (s : String) : Option (List (Rat × Nat × Bool)) :=
  if s == "-" then some [] else
  (s.splitOn ",").mapM fun p =>
    match p.splitOn ":" with
    | [d, c] => do let d ← parseRat? d; let c ← parseNat? c; pure (d, c, false)
    | [d, c, "o"] => do let d ← parseRat? d; let c ← parseNat? c; pure (d, c, false)
    | [d, c, "c"] => do let d ← parseRat? d; let c ← parseNat? c; pure (d, c, true)
    | _ => none

/-- `evolve_until(T)`; `via = some k`: the target was handed over as a reference to the caller's cell
`k` (then `T = st.cells k`), and the call is made a second time through the reference machine
`stepG .copy` — the object of `stored_by_value` — whose history must be the same (`same=`). -/
def doEvolve (st : St) (T : Rat) (fuel : Nat) (via : Option Nat) : St × String :=
      -- the run with callbacks that see the clock, as the real ones do
      let runC := evolveUntilC (kidsOfC st.tbl) fuel st.h.s T
      -- ... read as entry-only callbacks (what each executed callback scheduled, over the history):
      -- `loop`/`evolveUntil`/`stepOp`, the objects of the theorems, must replay the very same run
      -- (`evolveUntilC_eq_evolveUntil_table`); without clock-relative children `kidsOf` itself is used
      -- (the table path only for tables with clock-relative children: the table lookup is linear in the
      -- number of callbacks executed so far)
      let rel := clockRel st.tbl
      let hcC := if rel then stepOpC (kidsOfC st.tbl) fuel ⟨st.h, st.ftbl⟩ (.evolve T) else ⟨st.h, st.ftbl⟩
      let ftbl := hcC.tbl
      let kids := if rel then tableKids ftbl else kidsOf st.tbl
      let run := evolveUntil kids fuel st.h.s T
      let h' := if rel then hcC.h else stepOp kids fuel st.h (.evolve T)
      let t0 := st.h.s.t
      let arg : TimeArg := match via with | some k => .ref k | none => .val T
      let viaG := decide ((stepG .copy kids fuel ⟨st.h, [], st.cells⟩ (.evolve arg)).h = h')
      -- clock, counter and queue are printed from the history state the theorems are about
      let out := s!"{showStatus run.status} t={showRat h'.s.t} ctr={h'.s.ctr} trace=" ++
        ";".intercalate (run.trace.map showEvent) ++ " queue=" ++
        ";".intercalate (h'.s.queue.map showEntry) ++ " iv=" ++
        ";".intercalate ((intervals t0 run.trace).map showIv) ++
        s!" sum={showRat (sumDt run.trace)} lfc={showRat (lastFireClock t0 run.trace)}" ++
        s!" same={decide (run = runC) && viaG}"
      ({ st with h := h', ftbl := ftbl, ops := st.ops ++ [.evolve T],
                 fuel := some fuel, fuelSame := st.fuelSame && (st.fuel.isNone || st.fuel == some fuel),
                 rops := st.rops ++ [.evolve arg],
                 bad := stepG .alias (kidsOf st.tbl) fuel { st.bad with cells := st.cells } (.evolve arg) }, out)

def step (st : St) : List String → St × String
  | ["reset"] => ({}, "ok")
  | ["add", t, id] =>
    match parseRat? t, parseNat? id with
    | some t, some id =>
      ({ st with h := stepOp (kidsOf st.tbl) 0 st.h (.add t id), ops := st.ops ++ [.add t id],
                 rops := st.rops ++ [.add (.val t) id],
                 bad := stepG .alias (kidsOf st.tbl) 0 { st.bad with cells := st.cells } (.add (.val t) id) }, "ok")
    | _, _ => (st, "bad-op")
  | ["kids", id, pairs] =>
    match parseNat? id, parsePairs? pairs with
    | some id, some l => ({ st with tbl := (id, l) :: st.tbl.filter (·.1 ≠ id) }, "ok")
    | _, _ => (st, "bad-op")
  | ["eps", x] =>
    -- the threshold constant read out of the running code, compared with the model's `eps`
    match parseRat? x with
    | some x => (st, if x = eps then "ok" else s!"differs:{showRat eps}")
    | none => (st, "bad-op")
  | ["evolve", T, fuel, "new"] =>
    match parseRat? T, parseNat? fuel with
    | some T, some fuel => doEvolve st T fuel none
    | _, _ => (st, "bad-op")
  -- round 5: the caller's cells and calls that hand over a reference to a cell
  | ["cell", k, x] =>
    match parseNat? k, parseRat? x with
    | some k, some x =>
      ({ st with cells := setCell st.cells k x, rops := st.rops ++ [.mutate k x] }, "ok")
    | _, _ => (st, "bad-op")
  | ["addref", k, id] =>
    match parseNat? k, parseNat? id with
    | some k, some id =>
      ({ st with h := (stepG .copy (kidsOf st.tbl) 0 ⟨st.h, [], st.cells⟩ (.add (.ref k) id)).h,
                 ops := st.ops ++ [.add (st.cells k) id], rops := st.rops ++ [.add (.ref k) id],
                 bad := stepG .alias (kidsOf st.tbl) 0 { st.bad with cells := st.cells } (.add (.ref k) id) }, "ok")
    | _, _ => (st, "bad-op")
  | ["evolveref", k, fuel, "new"] =>
    match parseNat? k, parseNat? fuel with
    | some k, some fuel => doEvolve st (st.cells k) fuel (some k)
    | _, _ => (st, "bad-op")
  | ["evolvex", T, fuel, c, "new"] =>
    -- round 5: the callback of the entry with counter `c` raises as soon as it is called (`loopX`); the history
    -- advances by `stepOp` — the object of the theorems — on the fuel and callbacks of `raise_eq_fuel_out`,
    -- whose run must be the `loopX` run (`same=`)
    match parseRat? T, parseNat? fuel, parseNat? c with
    | some T, some fuel, some c =>
      if clockRel st.tbl then
        -- round 6: clock-relative children.  `loopXC` (callbacks see the clock); the history advances by
        -- `stepOpC` on the fuel and callbacks of `raise_eq_fuel_out_clock`, whose `loopC` run must be the
        -- `loopXC` run (`same=`)
        let kidsC := kidsOfC st.tbl
        let rx := evolveUntilXC kidsC (fun e => e.ctr == c) fuel st.h.s T
        match rx.raisedAt with
        | none => doEvolve st T fuel none
        | some e =>
          let kC := kidsExceptC kidsC e
          let j := (fired rx.run.trace).length
          let run := evolveUntilC kC j st.h.s T
          let hcC := stepOpC kC j ⟨st.h, st.ftbl⟩ (.evolve T)
          let h' := hcC.h
          let t0 := st.h.s.t
          let out := s!"raised t={showRat h'.s.t} ctr={h'.s.ctr} trace=" ++
            ";".intercalate (run.trace.map showEvent) ++ " queue=" ++
            ";".intercalate (h'.s.queue.map showEntry) ++ " iv=" ++
            ";".intercalate ((intervals t0 run.trace).map showIv) ++
            s!" sum={showRat (sumDt run.trace)} lfc={showRat (lastFireClock t0 run.trace)}" ++
            s!" same={decide (run = rx.run)}"
          ({ st with h := h', ftbl := hcC.tbl, ops := st.ops ++ [.evolve T], fuel := some j, fuelSame := false,
                     rops := st.rops ++ [.evolve (.val T)] }, out)
      else
      let kids := kidsOf st.tbl
      let rx := evolveUntilX kids (fun e => e.ctr == c) fuel st.h.s T
      match rx.raisedAt with
      | none => doEvolve st T fuel none
      | some e =>
        let k' := kidsExcept kids e
        let j := (fired rx.run.trace).length
        let run := evolveUntil k' j st.h.s T
        let h' := stepOp k' j st.h (.evolve T)
        let t0 := st.h.s.t
        let out := s!"raised t={showRat h'.s.t} ctr={h'.s.ctr} trace=" ++
          ";".intercalate (run.trace.map showEvent) ++ " queue=" ++
          ";".intercalate (h'.s.queue.map showEntry) ++ " iv=" ++
          ";".intercalate ((intervals t0 run.trace).map showIv) ++
          s!" sum={showRat (sumDt run.trace)} lfc={showRat (lastFireClock t0 run.trace)}" ++
          s!" same={decide (run = rx.run)}"
        ({ st with h := h', ops := st.ops ++ [.evolve T], fuel := some j, fuelSame := false,
                   rops := st.rops ++ [.evolve (.val T)] }, out)
    | _, _, _ => (st, "bad-op")
  | ["nest", id, d, k] =>
    match parseNat? id, parseRat? d, parseNat? k with
    | some id, some d, some k => ({ st with nest := (id, d, k) :: st.nest.filter (·.1 ≠ id) }, "ok")
    | _, _, _ => (st, "bad-op")
  | ["evolver", T, fuel, "new"] =>
    -- round 6: callbacks that re-enter `evolve_until` (`loopR`/`evolveUntilR`, the object of the `reentrant_*`
    -- theorems).  `same=`: with the re-entering stripped the machine is `evolveUntil` (`reentrant_plain_is_loop`).
    match parseRat? T, parseNat? fuel with
    | some T, some fuel =>
      if clockRel st.tbl then (st, "bad-op") else
      let kids := kidsOf st.tbl
      let nestOf : Entry → Option (Rat × Nat) := fun e => (st.nest.find? (·.1 = e.id)).map (·.2)
      let run := evolveUntilR (nestBody kids nestOf) fuel st.h.s T
      let t0 := st.h.s.t
      let same := decide (evolveUntilR (plainBody kids) fuel st.h.s T = evolveUntil kids fuel st.h.s T)
      let out := s!"{showStatus run.status} t={showRat run.s.t} ctr={run.s.ctr} trace=" ++
        ";".intercalate (run.trace.map showEvent) ++ " queue=" ++
        ";".intercalate (run.s.queue.map showEntry) ++ " iv=" ++
        ";".intercalate ((intervals t0 run.trace).map showIv) ++
        s!" sum={showRat (sumDt run.trace)} lfc={showRat (lastFireClock t0 run.trace)}" ++
        s!" same={same}"
      ({ st with h := { st.h with s := run.s, trace := st.h.trace ++ run.trace }, fuelSame := false }, out)
    | _, _ => (st, "bad-op")
  | ["byref"] =>
    -- the caller program once more through `runG .copy` (stored_by_value: = the history), and whether the
    -- by-reference scheduler `Bad.byReference` would have run a different history on it
    if clockRel st.tbl || !st.fuelSame then (st, "replayG=na differs=na") else
    let f := st.fuel.getD 0
    let g := runG .copy (kidsOf st.tbl) f winit st.rops
    (st, s!"replayG={decide (g.h = st.h)} differs={decide (st.bad.h.trace ≠ st.h.trace || st.bad.h.s.queue ≠ st.h.s.queue)}")
  | ["hist"] =>
    let h := st.h
    -- the whole history once more through `runOps` (the object of the history theorems) with ONE
    -- entry-only `kids` function: the final table of executed callbacks, or `kidsOf`
    let kids := if clockRel st.tbl then tableKids st.ftbl else kidsOf st.tbl
    let replay := if st.fuelSame then toString (decide (runOps kids (st.fuel.getD 0) hinit st.ops = h)) else "na"
    -- the hypotheses of history_inv / history_exactly_once, decided on the model's history
    let f := st.fuel.getD 0
    let hyp := if st.fuelSame then
        s!"addsfrom_hz={addsFromB (·.hz) kids f hinit st.ops} addsfrom_t={addsFromB (·.s.t) kids f hinit st.ops} " ++
        s!"nofuelout={noFuelOutB kids f hinit st.ops}"
      else "addsfrom_hz=na addsfrom_t=na nofuelout=na"
    (st, s!"replay={replay} {hyp} hz={showRat h.hz} t={showRat h.s.t} created={h.created.length} fired={(fired h.trace).length} " ++
      s!"pending={h.s.queue.length} sorted={sortedB (fired h.trace)} run=" ++
      ";".intercalate ((fired h.trace).map showEntry) ++ " created=" ++
      ";".intercalate (h.created.map showEntry))
  | _ => (st, "bad-op")

end HcipyVerif.Driver.C20
