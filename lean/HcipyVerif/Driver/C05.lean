import HcipyVerif.Model.Proto
import HcipyVerif.Model.Cache

/-!
Line-protocol front end of the C05 model.

```
new <gridDep 0|1> <wlDep 0|1> <maxN>      start a freshly constructed element
req <i|-> <o|-> <w|-> <gi|-> <go|->       get_instance_data(i, o, w); gi = id of
                                          get_input_grid(o, w) and go = id of get_output_grid(i', w)
                                          as observed on a *fresh* element ('-' = None / not needed)
clear                                     clear_cache()
set                                       a public setter (version bump + clear_cache())
memo reset | memo get <tag> <drop 0|1>    memo cell (matrices_dtype etc.), compute = identity on tags
```
Responses: `ok <how> id=<n> key=<i>,<o>,<w> ver=<v> num=<n> cache=<i>,<o>,<w>:<id>;…` | `err value` |
`err key`.
-/
namespace HcipyVerif.Driver.C05
open HcipyVerif.Proto HcipyVerif.Cache

structure St where
  gridDep : Bool := true
  wlDep : Bool := true
  maxN : Nat := 11
  st : Cache.St := Cache.St.init 0
  memo : Memo Nat Nat := ⟨none⟩

def parseOptNat? (s : String) : Option (Option Nat) :=
  if s == "-" then some none else (parseNat? s).map some

def parseBool? (s : String) : Option Bool :=
  if s == "1" then some true else if s == "0" then some false else none

def showOpt : Option Nat → String
  | none => "-"
  | some n => toString n

def showKey (k : Key) : String := s!"{showOpt k.i},{showOpt k.o},{showOpt k.w}"

def showCache (c : List (Key × Inst)) : String :=
  ";".intercalate (c.map fun p => s!"{showKey p.1}:{p.2.id}")

def showHow : How → String
  | .hitRequest => "hit-request" | .hitFull => "hit-full" | .created => "created"

def showState (s : Cache.St) : String := s!"ver={s.ver} num={s.num} cache={showCache s.cache}"

def step (st : St) : List String → St × String
  | ["new", g, w, n] =>
    match parseBool? g, parseBool? w, parseNat? n with
    | some g, some w, some n => ({ gridDep := g, wlDep := w, maxN := n }, "ok")
    | _, _, _ => (st, "bad-op")
  | ["req", i, o, w, gi, go] =>
    match parseOptNat? i, parseOptNat? o, parseOptNat? w, parseOptNat? gi, parseOptNat? go with
    | some i, some o, some w, some gi, some go =>
      let e : Elem := { gridDep := st.gridDep, wlDep := st.wlDep, maxN := st.maxN,
                        getIn := fun _ _ _ => gi, getOut := fun _ _ _ => go }
      match getInstanceDataHow e st.st i o w with
      | .error .value => (st, "err value")
      | .error .key => (st, "err key")
      | .ok (s', v, how) =>
        ({ st with st := s' },
          s!"ok {showHow how} id={v.id} key={showKey v.key} ver={v.ver} num={s'.num} cache={showCache s'.cache}")
    | _, _, _, _, _ => (st, "bad-op")
  | ["clear"] =>
    let s' := st.st.clear
    ({ st with st := s' }, "ok " ++ showState s')
  | ["set"] =>
    let s' := st.st.setParam
    ({ st with st := s' }, "ok " ++ showState s')
  | ["memo", "reset"] => ({ st with memo := ⟨none⟩ }, "ok")
  | ["memo", "get", t, d] =>
    match parseNat? t, parseBool? d with
    | some t, some d =>
      let r := st.memo.get id t
      let m := if d then r.1.drop else r.1
      ({ st with memo := m }, s!"ok val={r.2} slot={showOpt (m.slot.map (·.1))}")
    | _, _ => (st, "bad-op")
  | _ => (st, "bad-op")

end HcipyVerif.Driver.C05
