import HcipyVerif.Model.Proto
import HcipyVerif.Model.Cache
import HcipyVerif.Model.CacheDecorator
import HcipyVerif.Model.FftState

/-!
Line-protocol front end of the C05 model.

```
new <gridDep 0|1> <wlDep 0|1> <maxN>      start a freshly constructed element
req <i|-> <o|-> <w|-> <gi|-> <go|->       get_instance_data(i, o, w); grids are written <coord id>.<weights id> and enter the
                                          cache through `gridKey` (the keys printed are the resulting ids); gi = id of
                                          get_input_grid(o, w) and go = id of get_output_grid(i', w)
                                          as observed on a *fresh* element ('-' = None / not needed)
reqc <i|-> <o|-> <w|-> <gi|-> <go|-> <t>  a propagation through an element whose instances own a memo cell (FourierFilter of a
                                          Fresnel / angular-spectrum instance) with a field of dtype tag <t>: `stepC` with
                                          `memoContent`; answers as `req` plus `slot=` (dtype the cell of the instance handed
                                          out now holds), `rebuilt=` (1 = this propagation recomputed it) and `res=` (the kernel
                                          used: instance key / version / dtype)
clear                                     clear_cache()
set                                       a public setter (version bump + clear_cache())
memo reset | memo get <tag> <drop 0|1>    memo cell (matrices_dtype, ChirpZTransform._current_dtype), compute = identity on tags
filt reset | filt get <dtype> <ndim> <[tensor shape]>
                                          FourierFilter._compute_functions: two memo cells, tag `dtype` (transfer function) and
                                          `(ndim, dtype, tensor shape)` (internal array); compute = number of the call, so the
                                          value says at which call the cell was last recomputed
zoom reset | zoom call <back 0|1> <tag>   ZoomFastFourierTransform forward/backward at complex dtype <tag>
load <N> <M> <[buf]> <[f]>                Fft.loadArray N M buf f at positions 0..M-1 (exact rationals)
wldiff <l1> <l2>                          `wlKeyDiffBounds`: exact rational enclosure of key(l2) - key(l1), 0 < l1 <= l2
covers <gridDep 0|1> <wlDep 0|1> <[dims]>  `uncovered`: which of the dimensions read (0 coordinates, 1 weights, 2 wavelength of the
                                          request) the request key does not retain
family <name>                             the declared row of a shipped family (`shippedFamilies`) and its uncovered reads
dnew <gridDep 0|1> <wlDep 0|1> <num>      start a fresh element made by make_agnostic_optical_element
dreq <i|-> <o|-> <w|-> <out|->            its get_instance(i, o, w); out = id of the output grid of the element that
                                          would be constructed for input grid i ('-' = not needed)
```
Responses: `ok <how> id=<n> key=<i>,<o>,<w> ver=<v> num=<n> cache=<i>,<o>,<w>:<id>;…` | `err value` |
`err key`.  `dreq`: `ok id=<n> inst=<i>,<w> cache=<I|O|-><grid>,<w>:<id>;…` | `err value|runtime|key`.
-/
namespace HcipyVerif.Driver.C05
open HcipyVerif.Proto HcipyVerif.Cache

/-- The content `reqc` runs: a memo cell keyed on the dtype tag; the kernel is (instance key, version, dtype). -/
def cellContent : Content (Key × Nat × Memo Nat (Key × Nat × Nat)) Nat (Key × Nat × Nat) :=
  memoContent fun k v t => (k, v, t)

structure St where
  gridDep : Bool := true
  wlDep : Bool := true
  maxN : Nat := 11
  st : Cache.St := Cache.St.init 0
  heap : Inst → Key × Nat × Memo Nat (Key × Nat × Nat) := cellContent.heap0
  memo : Memo Nat Nat := ⟨none⟩
  ftf : Memo Nat Nat := ⟨none⟩
  fia : Memo (Nat × Nat × List Nat) Nat := ⟨none⟩
  fcalls : Nat := 0
  zoom : Zoom Nat := Zoom.fresh
  dGrid : Bool := true
  dWl : Bool := true
  dNum : Nat := 50
  deco : Deco.DSt := Deco.DSt.init
  pvals : List PVal := [default]

def parseOptNat? (s : String) : Option (Option Nat) :=
  if s == "-" then some none else (parseNat? s).map some

/-- A grid argument: `-` (None) or `<coord>.<weights>`; the cache sees `gridKey` of it. -/
def parseOptGrid? (s : String) : Option (Option Nat) :=
  if s == "-" then some none else
    match s.splitOn "." with
    | [c, w] =>
      match parseNat? c, parseNat? w with
      | some c, some w => some (some (gridKey ⟨c, w⟩))
      | _, _ => none
    | _ => none

def dimOfNat? : Nat → Option Dim
  | 0 => some .coords | 1 => some .weights | 2 => some .wavelength | _ => none

def natOfDim : Dim → Nat
  | .coords => 0 | .weights => 1 | .wavelength => 2

def parseBool? (s : String) : Option Bool :=
  if s == "1" then some true else if s == "0" then some false else none

def showOpt : Option Nat → String
  | none => "-"
  | some n => toString n

def showKey (k : Key) : String := s!"{showOpt k.i},{showOpt k.o},{showOpt k.w}"

def showCache (c : List (Key × Inst)) : String :=
  ";".intercalate (c.map fun p => s!"{showKey p.1}:{p.2.id}")

def showHow : How → String
  | .hitRequest => "hit-request" | .hitFull => "hit-full" | .created => "created"

def showDKey (k : Deco.DKey) : String :=
  (match k.grid with
   | none => "-"
   | some (Deco.Side.input, g) => s!"I{g}"
   | some (Deco.Side.output, g) => s!"O{g}") ++ "," ++ showOpt k.w

def showDCache (c : List (Deco.DKey × Deco.DInst)) : String :=
  ";".intercalate (c.map fun p => s!"{showDKey p.1}:{p.2.id}")

def showTag3 : Option (Nat × Nat × List Nat) → String
  | none => "-"
  | some (n, d, ts) => s!"{n}/{d}/{showNatList ts}"

def showState (s : Cache.St) : String := s!"ver={s.ver} num={s.num} cache={showCache s.cache}"

def step (st : St) : List String → St × String
  | ["reqc", i, o, w, gi, go, t] =>
    match parseOptGrid? i, parseOptGrid? o, parseOptNat? w, parseOptGrid? gi, parseOptGrid? go, parseNat? t with
    | some i, some o, some w, some gi, some go, some t =>
      let e : Elem := { gridDep := st.gridDep, wlDep := st.wlDep, maxN := st.maxN,
                        getIn := fun _ _ _ => gi, getOut := fun _ _ _ => go }
      let r := stepC e cellContent st.st st.heap (.req i o w t)
      match r.2.2, getInstanceDataHow e st.st i o w with
      | .result res, .ok (_, v, how) =>
        let before := (st.heap v).2.2.slot.map (·.1)
        let after := (r.2.1 v).2.2.slot.map (·.1)
        ({ st with st := r.1, heap := r.2.1 },
          s!"ok {showHow how} id={v.id} key={showKey v.key} ver={v.ver} num={r.1.num} cache={showCache r.1.cache} " ++
          s!"slot={showOpt after} rebuilt={if before = some t then 0 else 1} res={showKey res.1}/{res.2.1}/{res.2.2}")
      | .error .value, _ => (st, "err value")
      | .error .key, _ => (st, "err key")
      | _, _ => (st, "err inconsistent")
    | _, _, _, _, _, _ => (st, "bad-op")
  | ["new", g, w, n] =>
    match parseBool? g, parseBool? w, parseNat? n with
    | some g, some w, some n =>
      ({ st with gridDep := g, wlDep := w, maxN := n, st := Cache.St.init 0, heap := cellContent.heap0 }, "ok")
    | _, _, _ => (st, "bad-op")
  | ["req", i, o, w, gi, go] =>
    match parseOptGrid? i, parseOptGrid? o, parseOptNat? w, parseOptGrid? gi, parseOptGrid? go with
    | some i, some o, some w, some gi, some go =>
      let e : Elem := { gridDep := st.gridDep, wlDep := st.wlDep, maxN := st.maxN,
                        getIn := fun _ _ _ => gi, getOut := fun _ _ _ => go }
      match getInstanceDataHow e st.st i o w with
      | .error .value => (st, "err value")
      | .error .key => (st, "err key")
      | .ok (s', v, how) =>
        ({ st with st := s' },
          s!"ok {showHow how} id={v.id} key={showKey v.key} ver={v.ver} num={s'.num} cache={showCache s'.cache}")
    | _, _, _, _, _ => (st, "bad-op")
  | ["pnew", ob, c, k] =>
    match parseNat? ob, parseNat? c, parseNat? k with
    | some ob, some c, some k => ({ st with pvals := (PSt.init ⟨ob, c, k⟩).vals }, "ok")
    | _, _, _ => (st, "bad-op")
  | ["pset", ob, c, k] =>
    match parseNat? ob, parseNat? c, parseNat? k with
    | some ob, some c, some k =>
      let e : Elem := { gridDep := st.gridDep, wlDep := st.wlDep, maxN := st.maxN,
                        getIn := fun _ _ _ => none, getOut := fun _ _ _ => none }
      let p' := (pstep e ⟨st.st, st.pvals⟩ (.set ⟨ob, c, k⟩)).1
      ({ st with st := p'.st, pvals := p'.vals }, "ok " ++ showState p'.st)
    | _, _, _ => (st, "bad-op")
  | ["preq", i, o, w, gi, go] =>
    match parseOptGrid? i, parseOptGrid? o, parseOptNat? w, parseOptGrid? gi, parseOptGrid? go with
    | some i, some o, some w, some gi, some go =>
      let e : Elem := { gridDep := st.gridDep, wlDep := st.wlDep, maxN := st.maxN,
                        getIn := fun _ _ _ => gi, getOut := fun _ _ _ => go }
      match pstep e ⟨st.st, st.pvals⟩ (.req i o w) with
      | (p', .built key v) =>
        ({ st with st := p'.st, pvals := p'.vals },
          s!"ok key={showKey key} built={v.obj}.{v.content}.{v.kind} num={p'.st.num} cache={showCache p'.st.cache}")
      | (_, .error .value) => (st, "err value")
      | (_, .error .key) => (st, "err key")
      | (_, .done) => (st, "bad-op")
    | _, _, _, _, _ => (st, "bad-op")
  | ["clear"] =>
    let s' := st.st.clear
    ({ st with st := s' }, "ok " ++ showState s')
  | ["set"] =>
    let s' := st.st.setParam
    ({ st with st := s' }, "ok " ++ showState s')
  | ["memo", "reset"] => ({ st with memo := ⟨none⟩ }, "ok")
  | ["memo", "get", t, d] =>
    match parseNat? t, parseBool? d with
    | some t, some d =>
      let r := st.memo.get id t
      let m := if d then r.1.drop else r.1
      ({ st with memo := m }, s!"ok val={r.2} slot={showOpt (m.slot.map (·.1))}")
    | _, _ => (st, "bad-op")
  | ["filt", "reset"] => ({ st with ftf := ⟨none⟩, fia := ⟨none⟩, fcalls := 0 }, "ok")
  | ["filt", "get", d, n, ts] =>
    match parseNat? d, parseNat? n, parseNatList? ts with
    | some d, some n, some ts =>
      let c := st.fcalls + 1
      let r1 := st.ftf.get (fun _ => c) d
      let r2 := st.fia.get (fun _ => c) (n, d, ts)
      ({ st with ftf := r1.1, fia := r2.1, fcalls := c },
        s!"ok tf={showOpt (r1.1.slot.map (·.1))} tfgen={r1.2} ia={showTag3 (r2.1.slot.map (·.1))} iagen={r2.2}")
    | _, _, _ => (st, "bad-op")
  | ["zoom", "reset"] => ({ st with zoom := Zoom.fresh }, "ok")
  | ["zoom", "call", b, t] =>
    match parseBool? b, parseNat? t with
    | some b, some t =>
      let r := st.zoom.call id b t
      ({ st with zoom := r.1 },
        s!"ok val={r.2} tag={showOpt r.1.tag} czt={showOpt (r.1.czt.slot.map (·.1))} inv={showOpt (r.1.inv.slot.map (·.1))}")
    | _, _ => (st, "bad-op")
  | ["load", n, m, buf, f] =>
    match parseNat? n, parseNat? m, parseRatList? buf, parseRatList? f with
    | some n, some m, some buf, some f =>
      if n ≤ m ∧ buf.length = m ∧ f.length = n then
        let a := HcipyVerif.Fft.loadArray n m (fun p => buf.getD p 0) (fun p => f.getD p 0)
        (st, "ok " ++ showRatList ((List.range m).map a))
      else (st, "bad-op")
    | _, _, _, _ => (st, "bad-op")
  | ["wldiff", a, b] =>
    match parseRat? a, parseRat? b with
    | some l1, some l2 =>
      if 0 < l1 ∧ l1 ≤ l2 then
        let bd := wlKeyDiffBounds l1 l2
        (st, s!"ok lo={showRat bd.1} hi={showRat bd.2}")
      else (st, "bad-op")
    | _, _ => (st, "bad-op")
  | ["covers", g, w, ds] =>
    match parseBool? g, parseBool? w, parseNatList? ds with
    | some g, some w, some ds =>
      match ds.mapM dimOfNat? with
      | some reads => (st, s!"ok uncovered={showNatList ((uncovered g w reads).map natOfDim)}")
      | none => (st, "bad-op")
    | _, _, _ => (st, "bad-op")
  | ["family", name] =>
    match familyOf name with
    | some f =>
      (st, s!"ok grid={if f.gridDep then 1 else 0} wl={if f.wlDep then 1 else 0} reads={showNatList (f.reads.map natOfDim)} " ++
           s!"uncovered={showNatList ((uncovered f.gridDep f.wlDep f.reads).map natOfDim)}")
    | none => (st, "err unknown-family")
  | ["dnew", g, w, n] =>
    match parseBool? g, parseBool? w, parseNat? n with
    | some g, some w, some n => ({ st with dGrid := g, dWl := w, dNum := n, deco := Deco.DSt.init }, "ok")
    | _, _, _ => (st, "bad-op")
  | ["dreq", i, o, w, out] =>
    match parseOptNat? i, parseOptNat? o, parseOptNat? w, parseOptNat? out with
    | some i, some o, some w, some out =>
      let e : Deco.DElem := { gridDep := st.dGrid, wlDep := st.dWl, num := st.dNum,
                              outOf := fun _ _ => out.getD 0 }
      match Deco.getInstance e st.deco i o w with
      | .error .value => (st, "err value")
      | .error .runtime => (st, "err runtime")
      | .error .key => (st, "err key")
      | .ok (s', v) =>
        ({ st with deco := s' }, s!"ok id={v.id} inst={showOpt v.i},{showOpt v.w} cache={showDCache s'.cache}")
    | _, _, _, _ => (st, "bad-op")
  | _ => (st, "bad-op")

end HcipyVerif.Driver.C05
