import HcipyVerif.Model.Proto
import HcipyVerif.Model.FftGrid
import HcipyVerif.Model.FftIndex
import HcipyVerif.Model.FftSelect

/-!
Line-protocol front end of the C01 model.

* `plan [N…] [δ…] [z…] [q…] [fov…] [s…]` (lists in *dims* order x,y,…) — everything
  `FastFourierTransform.__init__`/`make_fft_grid` derive: padded sizes, output sizes, output spacing
  and zero in turns (`Δ = 2π·dT`, `zero = 2π·zeroT + s`), cut-outs, the weight, and the slack of
  the two float decisions (`round(q·N)`, `int(M·fov)`).
* `cons N M Mo δ dT` — the grid-consistency predicate on *reported* sizes.
* `imp fwd|bwd std|emu N M Mo δ z dT s w j` — the modelled pipeline applied to the unit impulse at
  `j`, every output sample as a monomial `c:t:r` = `c·exp(i(2π·t + r))`.
* `sum fwd|bwd …` — the same from the defining sum (right-hand side of the theorems).
* `select regular|separated|unstructured cart ndim none|fftgrid|regular|separated|unstructured fftCheaper`
  — `make_fourier_transform` (`makeFT detectLit`): input grid kind, whether it is Cartesian, the
  number of dimensions (the output grid, when given, is Cartesian of the same dimension; `fftgrid` =
  regular and the numerical part of `get_fft_parameters` succeeds), the planner's comparison
  (`1` = not `fft > mft`).  Answer `ok fft|mft|naive` or `err value`.
* `fftparams N δ Mo dT zeroT s` — `get_fft_parameters` on one axis (output spacing `2π·dT`, output
  zero `2π·zeroT + s`).  Answer `ok q fov shiftT s` (the shift is `2π·shiftT + s`) or `err value`.
-/
namespace HcipyVerif.Driver.C01
open HcipyVerif.Proto HcipyVerif.Fft

structure St where
  dummy : Unit := ()

def showCut : Option (List (Nat × Nat)) → String
  | none => "-"
  | some l => ",".intercalate (l.map fun (a, b) => s!"{a}:{b}")

def showPSum (p : PSum) : String :=
  match p.terms with
  | [] => "0"
  | [x] => s!"{showRat x.c}:{showRat x.t}:{showRat x.r}"
  | _ => "multi"

def zip6 : List Nat → List Rat → List Rat → List Rat → List Rat → List Rat → Option (List AxisIn)
  | [], [], [], [], [], [] => some []
  | n :: ns, d :: ds, z :: zs, q :: qs, f :: fs, s :: ss =>
    (zip6 ns ds zs qs fs ss).map fun rest => ⟨n, d, z, q, f, s⟩ :: rest
  | _, _, _, _, _, _ => none

def minList (l : List Rat) : Rat := l.foldl (fun a b => if b < a then b else a) 1

def parseCfg (dir cfg : String) (args : List String) : Option (Bool × RCfg × Nat) :=
  match args with
  | [N, M, Mo, d, z, dT, s, w, j] =>
    match parseNat? N, parseNat? M, parseNat? Mo, parseRat? d, parseRat? z, parseRat? dT,
      parseRat? s, parseRat? w, parseNat? j with
    | some N, some M, some Mo, some d, some z, some dT, some s, some w, some j =>
      if (dir != "fwd" && dir != "bwd") || (cfg != "std" && cfg != "emu") then none
      else some (dir == "fwd", { N := N, M := M, Mo := Mo, δ := d, z := z, dT := dT, s := s,
                                 w := PSum.ofRat w, emu := cfg == "emu" }, j)
    | _, _, _, _, _, _, _, _, _ => none
  | _ => none

def parseKind? : String → Option GridKind
  | "regular" => some .regular
  | "separated" => some .separated
  | "unstructured" => some .unstructured
  | _ => none

def parseBool? : String → Option Bool
  | "0" => some false
  | "1" => some true
  | _ => none

/-- the `out` token of `select`, for an input of dimension `ndim` -/
def parseOutReq? (ndim : Nat) : String → Option (Option OutReq)
  | "none" => some none
  | "fftgrid" => some (some ⟨⟨.regular, true, ndim⟩, true⟩)
  | s => (parseKind? s).map fun k => some ⟨⟨k, true, ndim⟩, false⟩

def showMethod : Method → String
  | .fft => "fft"
  | .mft => "mft"
  | .naive => "naive"

def step (st : St) : List String → St × String
  | ["plan", ns, ds, zs, qs, fs, ss] =>
    match parseNatList? ns, parseRatList? ds, parseRatList? zs, parseRatList? qs,
      parseRatList? fs, parseRatList? ss with
    | some ns, some ds, some zs, some qs, some fs, some ss =>
      match zip6 ns ds zs qs fs ss with
      | none => (st, "bad-op")
      | some axes =>
        if axes.any (fun a => a.N = 0 || a.delta = 0) then (st, "err value") else
        let ps := axes.map plan
        let Ns := ps.map (·.N); let Ms := ps.map (·.M); let Mos := ps.map (·.Mo)
        let w := ps.foldl (fun acc p => acc * p.delta) 1
        let out := s!"ok M={showNatList Ms} Mo={showNatList Mos} dT={showRatList (ps.map (·.dT))} " ++
          s!"zeroT={showRatList (ps.map (·.zeroT))} cutin={showCut (cutouts Ns Ms)} " ++
          s!"cutout={showCut (cutouts Mos Ms)} w={showRat w} " ++
          s!"slackq={showRatList (axes.map fun a => roundSlack (a.q * a.N))} " ++
          s!"slackfov={showRatList ((axes.zip ps).map fun (a, p) => outSlack p.M a.fov)}"
        (st, out)
    | _, _, _, _, _, _ => (st, "bad-op")
  | ["cons", N, M, Mo, d, dT] =>
    match parseNat? N, parseNat? M, parseNat? Mo, parseRat? d, parseRat? dT with
    | some N, some M, some Mo, some d, some dT =>
      (st, "ok " ++ showBool (decide (FftConsistent N M Mo d dT)))
    | _, _, _, _, _ => (st, "bad-op")
  | "imp" :: dir :: cfg :: args =>
    match parseCfg dir cfg args with
    | none => (st, "bad-op")
    | some (fwd, g, j) =>
      if g.M = 0 || g.N > g.M || g.Mo > g.M then (st, "err value") else
      let outs :=
        if fwd then (List.range g.Mo).map fun k => fastForward PSum.turns PSum.rad g (PSum.impulse j) k
        else (List.range g.N).map fun k => fastBackward PSum.turns PSum.rad g (PSum.impulse j) k
      (st, "ok " ++ ";".intercalate (outs.map showPSum))
  | "sum" :: dir :: cfg :: args =>
    match parseCfg dir cfg args with
    | none => (st, "bad-op")
    | some (fwd, g, j) =>
      let outs :=
        if fwd then (List.range g.Mo).map fun k => sumForward PSum.turns PSum.rad g (PSum.impulse j) k
        else (List.range g.N).map fun k =>
          sumBackward PSum.turns PSum.rad g (PSum.ofRat g.dT) (PSum.impulse j) k
      (st, "ok " ++ ";".intercalate (outs.map showPSum))
  | ["select", kind, cart, ndim, out, cheaper] =>
    match parseKind? kind, parseBool? cart, parseNat? ndim, parseBool? cheaper with
    | some kind, some cart, some ndim, some cheaper =>
      match parseOutReq? ndim out with
      | none => (st, "bad-op")
      | some o =>
        match makeFT detectLit ⟨kind, cart, ndim⟩ o cheaper with
        | .ok c => (st, "ok " ++ showMethod c.method)
        | .error e => (st, "err " ++ e)
    | _, _, _, _ => (st, "bad-op")
  | ["fftparams", N, d, Mo, dT, zT, s] =>
    match parseNat? N, parseRat? d, parseNat? Mo, parseRat? dT, parseRat? zT, parseRat? s with
    | some N, some d, some Mo, some dT, some zT, some s =>
      match getFftParameters ⟨N, d⟩ ⟨Mo, dT, zT, s⟩ with
      | none => (st, "err value")
      | some p => (st, s!"ok {showRat p.q} {showRat p.fov} {showRat p.shiftT} {showRat p.s}")
    | _, _, _, _, _, _ => (st, "bad-op")
  | _ => (st, "bad-op")

end HcipyVerif.Driver.C01
